import I18nVerif.Model.Router
import I18nVerif.Spec.Router
/-! Helper lemmas for C14 (URL locale prefixes). -/
namespace I18nVerif.Router

/-! ### `split('/')`, segments -/

theorem splitSlash_ne_nil (s : Str) : splitSlash s ≠ [] := by
  induction s with
  | nil => simp [splitSlash]
  | cons c cs ih =>
    simp only [splitSlash]
    split
    · simp
    · split <;> simp

theorem splitSlash_cons_slash (cs : Str) : splitSlash ('/' :: cs) = [] :: splitSlash cs := by
  simp [splitSlash]

theorem splitSlash_cons_other {c : Char} (h : c ≠ '/') (cs : Str) :
    ∃ hd tl, splitSlash cs = hd :: tl ∧ splitSlash (c :: cs) = (c :: hd) :: tl := by
  cases hs : splitSlash cs with
  | nil => exact absurd hs (splitSlash_ne_nil cs)
  | cons hd tl => exact ⟨hd, tl, rfl, by simp [splitSlash, h, hs]⟩

theorem splitSlash_append_slash (a b : Str) :
    splitSlash (a ++ '/' :: b) = splitSlash a ++ splitSlash b := by
  induction a with
  | nil => simp [splitSlash]
  | cons c cs ih =>
    by_cases h : c = '/'
    · subst h
      simp [splitSlash_cons_slash, ih]
    · obtain ⟨hd, tl, h1, h2⟩ := splitSlash_cons_other h cs
      obtain ⟨hd', tl', h1', h2'⟩ := splitSlash_cons_other h (cs ++ '/' :: b)
      rw [List.cons_append, h2', h2]
      rw [ih, h1] at h1'
      simp at h1'
      simp [h1'.1, h1'.2]

theorem segs_nil : segs [] = [] := by simp [segs, splitSlash]

theorem segs_cons_slash (cs : Str) : segs ('/' :: cs) = segs cs := by
  simp [segs, splitSlash_cons_slash]

theorem segs_append_slash (a b : Str) : segs (a ++ '/' :: b) = segs a ++ segs b := by
  simp [segs, splitSlash_append_slash]

/-- a string without `/` is its own only segment -/
theorem splitSlash_noslash {s : Str} (h : ∀ c ∈ s, c ≠ '/') : splitSlash s = [s] := by
  induction s with
  | nil => simp [splitSlash]
  | cons c cs ih =>
    have hc : c ≠ '/' := h c (by simp)
    obtain ⟨hd, tl, h1, h2⟩ := splitSlash_cons_other hc cs
    rw [ih (fun c hc => h c (by simp [hc]))] at h1
    simp at h1
    rw [h2, ← h1.1, ← h1.2]

theorem segs_noslash {s : Str} (h : ∀ c ∈ s, c ≠ '/') : segs s = if s = [] then [] else [s] := by
  simp only [segs, splitSlash_noslash h]
  cases s <;> simp

theorem goodSeg_iff {s : Str} : Spec.goodSeg s = true ↔ s ≠ [] ∧ ∀ c ∈ s, c ≠ '/' := by
  simp only [Spec.goodSeg, Bool.and_eq_true, Bool.not_eq_true', List.isEmpty_eq_false_iff]
  constructor
  · rintro ⟨h1, h2⟩
    refine ⟨h1, fun c hc hcs => ?_⟩
    subst hcs
    simp at h2
    exact h2 hc
  · rintro ⟨h1, h2⟩
    refine ⟨h1, ?_⟩
    cases hcon : s.contains '/' with
    | false => rfl
    | true =>
      simp at hcon
      exact absurd rfl (h2 _ hcon)

theorem segs_good {s : Str} (h : Spec.goodSeg s = true) : segs s = [s] := by
  obtain ⟨h1, h2⟩ := goodSeg_iff.mp h
  rw [segs_noslash h2]; simp [h1]

/-- every piece of `split('/')` is free of `/` -/
theorem splitSlash_pieces (s : Str) : ∀ x ∈ splitSlash s, ∀ c ∈ x, c ≠ '/' := by
  induction s with
  | nil => simp [splitSlash]
  | cons c cs ih =>
    by_cases h : c = '/'
    · subst h
      rw [splitSlash_cons_slash]
      intro x hx
      simp at hx
      rcases hx with hx | hx
      · subst hx; simp
      · exact ih x hx
    · obtain ⟨hd, tl, h1, h2⟩ := splitSlash_cons_other h cs
      rw [h2]
      rw [h1] at ih
      intro x hx
      simp at hx
      rcases hx with hx | hx
      · subst hx
        intro d hd'
        simp at hd'
        rcases hd' with hd' | hd'
        · subst hd'; exact h
        · exact ih hd (by simp) d hd'
      · exact ih x (by simp [hx])

theorem segs_all_good (s : Str) : ∀ x ∈ segs s, Spec.goodSeg x = true := by
  intro x hx
  simp only [segs, List.mem_filter] at hx
  apply goodSeg_iff.mpr
  refine ⟨?_, splitSlash_pieces s x hx.1⟩
  have := hx.2
  intro hnil
  subst hnil
  simp at this

/-! ### trimming -/

theorem trimStart_cons_slash (cs : Str) : trimStart ('/' :: cs) = trimStart cs := by simp [trimStart]

theorem trimStart_of_head {c : Char} (h : c ≠ '/') (cs : Str) : trimStart (c :: cs) = c :: cs := by
  simp [trimStart, h]

theorem trimStart_cases (s : Str) : trimStart s = [] ∨ ∃ c cs, trimStart s = c :: cs ∧ c ≠ '/' := by
  induction s with
  | nil => left; rfl
  | cons c cs ih =>
    by_cases h : c = '/'
    · subst h; rw [trimStart_cons_slash]; exact ih
    · right; exact ⟨c, cs, trimStart_of_head h cs, h⟩

theorem trimStart_decomp (s : Str) : ∃ k, s = List.replicate k '/' ++ trimStart s := by
  induction s with
  | nil => exact ⟨0, rfl⟩
  | cons c cs ih =>
    by_cases h : c = '/'
    · subst h
      obtain ⟨k, hk⟩ := ih
      refine ⟨k + 1, ?_⟩
      rw [trimStart_cons_slash, List.replicate_succ, List.cons_append, ← hk]
    · exact ⟨0, by rw [trimStart_of_head h]; rfl⟩

theorem segs_replicate_slash (k : Nat) : segs (List.replicate k '/') = [] := by
  induction k with
  | zero => exact segs_nil
  | succ k ih => rw [List.replicate_succ, segs_cons_slash, ih]

theorem segs_replicate_append (k : Nat) (s : Str) : segs (List.replicate k '/' ++ s) = segs s := by
  induction k with
  | zero => rfl
  | succ k ih => rw [List.replicate_succ, List.cons_append, segs_cons_slash, ih]

theorem segs_append_replicate (s : Str) (k : Nat) : segs (s ++ List.replicate k '/') = segs s := by
  cases k with
  | zero => simp
  | succ k => rw [List.replicate_succ, segs_append_slash, segs_replicate_slash, List.append_nil]

theorem segs_trimStart (s : Str) : segs (trimStart s) = segs s := by
  obtain ⟨k, hk⟩ := trimStart_decomp s
  conv => rhs; rw [hk]
  rw [segs_replicate_append]

theorem trimEnd_decomp (s : Str) : ∃ k, s = trimEnd s ++ List.replicate k '/' := by
  obtain ⟨k, hk⟩ := trimStart_decomp s.reverse
  refine ⟨k, ?_⟩
  have := congrArg List.reverse hk
  simp only [List.reverse_reverse, List.reverse_append, List.reverse_replicate] at this
  exact this

theorem segs_trimEnd (s : Str) : segs (trimEnd s) = segs s := by
  obtain ⟨k, hk⟩ := trimEnd_decomp s
  conv => rhs; rw [hk]
  rw [segs_append_replicate]

theorem segs_trimSlashes (s : Str) : segs (trimSlashes s) = segs s := by
  rw [trimSlashes, segs_trimEnd, segs_trimStart]

/-! ### first segment -/

abbrev notSlash : Char → Bool := fun c => c != '/'

/-- what `split('/')` yields after the first piece -/
def afterSlash : Str → List Str
  | [] => []
  | _ :: r => splitSlash r

theorem splitSlash_takeDrop (s : Str) :
    splitSlash s = s.takeWhile notSlash :: afterSlash (s.dropWhile notSlash) := by
  induction s with
  | nil => simp [splitSlash, afterSlash]
  | cons c cs ih =>
    by_cases h : c = '/'
    · subst h
      simp [splitSlash_cons_slash, List.takeWhile, List.dropWhile, afterSlash]
    · obtain ⟨hd, tl, h1, h2⟩ := splitSlash_cons_other h cs
      rw [h2]
      rw [h1] at ih
      simp only [List.cons.injEq] at ih
      have hb : notSlash c = true := by simp [notSlash, h]
      simp only [List.takeWhile, List.dropWhile, hb]
      rw [← ih.1, ← ih.2]

theorem dropWhile_notSlash_cases (s : Str) :
    s.dropWhile notSlash = [] ∨ ∃ r, s.dropWhile notSlash = '/' :: r := by
  induction s with
  | nil => left; rfl
  | cons c cs ih =>
    by_cases h : c = '/'
    · subst h; right; exact ⟨cs, by simp [List.dropWhile, notSlash]⟩
    · have hb : notSlash c = true := by simp [notSlash, h]
      simp only [List.dropWhile, hb]; exact ih

theorem filter_afterSlash (d : Str) (hd : d = [] ∨ ∃ r, d = '/' :: r) :
    (afterSlash d).filter (fun x => !x.isEmpty) = segs d := by
  rcases hd with hd | ⟨r, hd⟩
  · subst hd; simp [segs_nil, afterSlash]
  · subst hd; simp [segs_cons_slash, afterSlash]; rfl

theorem segs_takeDrop_aux (t : Str) (ht : t = [] ∨ ∃ c cs, t = c :: cs ∧ c ≠ '/') :
    segs t = if t.takeWhile notSlash = [] then [] else t.takeWhile notSlash :: segs (t.dropWhile notSlash) := by
  rcases ht with h | ⟨c, cs, h, hc⟩
  · subst h; simp [segs_nil]
  · subst h
    have hb : notSlash c = true := by simp [notSlash, hc]
    have hne : (c :: cs).takeWhile notSlash ≠ [] := by simp [List.takeWhile, hb]
    rw [if_neg hne]
    conv => lhs; rw [segs, splitSlash_takeDrop (c :: cs)]
    rw [List.filter_cons]
    have : (!((c :: cs).takeWhile notSlash).isEmpty) = true := by
      simp [hne]
    rw [if_pos this, filter_afterSlash _ (dropWhile_notSlash_cases _)]

/-- `segs` in terms of `split_first_segment` -/
theorem segs_splitFirst (s : Str) :
    segs s = if (splitFirst s).1 = [] then [] else (splitFirst s).1 :: segs (splitFirst s).2 := by
  rw [← segs_trimStart s]
  exact segs_takeDrop_aux (trimStart s) (trimStart_cases s)

theorem splitFirst_cons_slash (s : Str) : splitFirst ('/' :: s) = splitFirst s := by
  simp [splitFirst, trimStart_cons_slash]

/-- a good segment followed by nothing or by a `/` is split off exactly -/
theorem splitFirst_good {g : Str} (hg : Spec.goodSeg g = true) (t : Str) (ht : t = [] ∨ ∃ r, t = '/' :: r) :
    splitFirst (g ++ t) = (g, t) := by
  obtain ⟨hne, hns⟩ := goodSeg_iff.mp hg
  cases g with
  | nil => exact absurd rfl hne
  | cons c cs =>
    have hc : c ≠ '/' := hns c (by simp)
    have hall : ∀ x ∈ c :: cs, notSlash x = true := by
      intro x hx; simp [notSlash, hns x hx]
    simp only [splitFirst, List.cons_append, trimStart_of_head hc]
    rw [← List.cons_append]
    have htw : t.takeWhile notSlash = [] ∧ t.dropWhile notSlash = t := by
      rcases ht with ht | ⟨r, ht⟩ <;> subst ht <;> simp [List.takeWhile, List.dropWhile, notSlash]
    rw [List.takeWhile_append_of_pos hall, List.dropWhile_append_of_pos hall, htw.1, htw.2]
    simp

/-! ### `strip_base_path` on segments -/

theorem stripBase_segs {bs : List Str} (hb : ∀ b ∈ bs, b ≠ []) {path rest : Str}
    (h : stripBase path bs = some rest) : segs path = bs ++ segs rest := by
  induction bs generalizing path with
  | nil => simp [stripBase] at h; subst h; simp
  | cons b bs ih =>
    simp only [stripBase] at h
    split at h
    · rename_i heq
      have := ih (fun b hb' => hb b (by simp [hb'])) h
      rw [segs_splitFirst path, heq, if_neg (hb b (by simp)), this]
      simp
    · simp at h

theorem stripBase_of_segs {bs : List Str} {path : Str} {xs : List Str}
    (h : segs path = bs ++ xs) : ∃ rest, stripBase path bs = some rest ∧ segs rest = xs := by
  induction bs generalizing path with
  | nil => exact ⟨path, rfl, by simpa using h⟩
  | cons b bs ih =>
    rw [segs_splitFirst path] at h
    split at h
    · simp at h
    · simp only [List.cons_append, List.cons.injEq] at h
      obtain ⟨rest, h1, h2⟩ := ih h.2
      exact ⟨rest, by simp [stripBase, h.1, h1], h2⟩

theorem stripBase_none_iff {bs : List Str} (hb : ∀ b ∈ bs, b ≠ []) {path : Str} :
    stripBase path bs = none ↔ ¬ ∃ xs, segs path = bs ++ xs := by
  constructor
  · intro h ⟨xs, hx⟩
    obtain ⟨rest, h1, _⟩ := stripBase_of_segs hx
    rw [h] at h1; simp at h1
  · intro h
    cases hs : stripBase path bs with
    | none => rfl
    | some rest => exact absurd ⟨_, stripBase_segs hb hs⟩ h

theorem segs_ne_nil (s : Str) : ∀ b ∈ segs s, b ≠ [] := by
  intro b hb
  exact (goodSeg_iff.mp (segs_all_good s b hb)).1

/-! ### `join`, `PathBuilder` -/

theorem segs_join (b : List Str) : segs (join b) = b.flatMap segs := by
  induction b with
  | nil => simp [join, segs_nil]
  | cons x xs ih =>
    cases xs with
    | nil => simp [join]
    | cons y r =>
      simp only [join, segs_append_slash, List.flatMap_cons]
      rw [ih]; simp

theorem segs_build (b : PB) : segs (PB.build b) = b.flatMap segs := by
  simp only [PB.build]
  split
  · rename_i h
    have : join b = [] := by simpa [List.isEmpty_iff] using h
    rw [← segs_join, this]
    simp [segs, splitSlash]
  · exact segs_join b

theorem flatMap_segs_push (b : PB) (s : Str) : (PB.push b s).flatMap segs = b.flatMap segs ++ segs s := by
  simp only [PB.push]
  split
  · rename_i h
    have : trimSlashes s = [] := by simpa [List.isEmpty_iff] using h
    rw [← segs_trimSlashes s, this, segs_nil]; simp
  · simp [segs_trimSlashes]

/-! ### the specification's `segments` is `segs` -/

theorem segmentsAux_eq (s cur : Str) (h : ∀ c ∈ cur, c ≠ '/') :
    Spec.segmentsAux s cur = segs (cur.reverse ++ s) := by
  induction s generalizing cur with
  | nil =>
    simp only [Spec.segmentsAux, List.append_nil]
    rw [segs_noslash (by simpa using h)]
    cases cur <;> simp
  | cons c cs ih =>
    simp only [Spec.segmentsAux]
    split
    · rename_i hc
      subst hc
      rw [segs_append_slash, segs_noslash (s := cur.reverse) (by simpa using h), ih [] (by simp)]
      cases cur <;> simp
    · rename_i hc
      rw [ih (c :: cur) (by intro d hd; simp at hd; rcases hd with hd | hd; exact hd ▸ hc; exact h d hd)]
      simp

theorem segments_eq (s : Str) : Spec.segments s = segs s := by
  simp [Spec.segments, segmentsAux_eq s [] (by simp)]

theorem dropPrefix_append (bs xs : List Str) : Spec.dropPrefix bs (bs ++ xs) = some xs := by
  induction bs with
  | nil => cases xs <;> simp [Spec.dropPrefix]
  | cons b bs ih => simp [Spec.dropPrefix, ih]

theorem dropPrefix_some {bs ys xs : List Str} (h : Spec.dropPrefix bs ys = some xs) : ys = bs ++ xs := by
  induction bs generalizing ys with
  | nil => cases ys <;> simp [Spec.dropPrefix] at h <;> simp [h]
  | cons b bs ih =>
    cases ys with
    | nil => simp [Spec.dropPrefix] at h
    | cons y ys =>
      simp only [Spec.dropPrefix] at h
      split at h
      · rename_i hby; subst hby; simp [ih h]
      · simp at h

/-- the specification's "segments after the base path" and `strip_base_path` agree -/
theorem afterBase_eq (path base : Str) :
    Spec.afterBase path base = (stripBasePath path base).map segs := by
  simp only [Spec.afterBase, stripBasePath, segments_eq]
  cases hs : stripBase path (segs base) with
  | none =>
    have := (stripBase_none_iff (segs_ne_nil base)).mp hs
    cases hd : Spec.dropPrefix (segs base) (segs path) with
    | none => rfl
    | some xs => exact absurd ⟨xs, dropPrefix_some hd⟩ this
  | some rest =>
    rw [stripBase_segs (segs_ne_nil base) hs, dropPrefix_append]; rfl

/-! ### `find` over the locale names -/

theorem indexOf?_some {x : Str} {ns : List Str} {i : Nat} (h : indexOf? x ns = some i) : ns[i]? = some x := by
  induction ns generalizing i with
  | nil => simp [indexOf?] at h
  | cons n ns ih =>
    simp only [indexOf?] at h
    split at h
    · rename_i hx; simp at h; subst h; simp [hx]
    · cases hi : indexOf? x ns with
      | none => simp [hi] at h
      | some j => simp [hi] at h; subst h; simpa using ih hi

theorem indexOf?_of_getElem? {x : Str} {ns : List Str} (hd : ns.Nodup) {i : Nat} (h : ns[i]? = some x) :
    indexOf? x ns = some i := by
  induction ns generalizing i with
  | nil => simp at h
  | cons n ns ih =>
    rw [List.nodup_cons] at hd
    cases i with
    | zero => simp at h; simp [indexOf?, h]
    | succ i =>
      simp at h
      have hmem : x ∈ ns := List.mem_of_getElem? h
      have hne : x ≠ n := fun hxn => hd.1 (hxn ▸ hmem)
      simp [indexOf?, hne, ih hd.2 h]

theorem indexOf?_iff {x : Str} {ns : List Str} (hd : ns.Nodup) {i : Nat} :
    indexOf? x ns = some i ↔ ns[i]? = some x := ⟨indexOf?_some, indexOf?_of_getElem? hd⟩

/-! ### pushing well-formed segments -/

theorem trimStart_noslash {s : Str} (h : ∀ c ∈ s, c ≠ '/') : trimStart s = s := by
  cases s with
  | nil => rfl
  | cons c cs => exact trimStart_of_head (h c (by simp)) cs

theorem trimSlashes_noslash {s : Str} (h : ∀ c ∈ s, c ≠ '/') : trimSlashes s = s := by
  have hr : ∀ c ∈ s.reverse, c ≠ '/' := by simpa using h
  simp [trimSlashes, trimEnd, trimStart_noslash h, trimStart_noslash hr]

theorem push_good (b : PB) {g : Str} (hg : Spec.goodSeg g = true) : PB.push b g = b ++ [g] := by
  obtain ⟨h1, h2⟩ := goodSeg_iff.mp hg
  simp [PB.push, trimSlashes_noslash h2, h1]

theorem pushAll_good (b : PB) {gs : List Str} (hg : ∀ g ∈ gs, Spec.goodSeg g = true) :
    PB.pushAll b gs = b ++ gs := by
  induction gs generalizing b with
  | nil => simp [PB.pushAll]
  | cons g gs ih =>
    simp only [PB.pushAll]
    rw [push_good b (hg g (by simp)), ih _ (fun g' hg' => hg g' (by simp [hg']))]
    simp

/-! ### `match_path_segments` / `construct_path_segments` -/

theorem pointwise_mono {P Q : Str → Str → Bool} (h : ∀ a b, P a b = true → Q a b = true) :
    ∀ {xs ys : List Str}, Spec.pointwise P xs ys = true → Spec.pointwise Q xs ys = true
  | [], [], _ => rfl
  | [], _ :: _, h' => by simp [Spec.pointwise] at h'
  | _ :: _, [], h' => by simp [Spec.pointwise] at h'
  | x :: xs, y :: ys, h' => by
    simp only [Spec.pointwise, Bool.and_eq_true] at h' ⊢
    exact ⟨h _ _ h'.1, pointwise_mono h h'.2⟩

theorem pointwise_refl {P : Str → Str → Bool} (h : ∀ a, P a a = true) : ∀ xs : List Str, Spec.pointwise P xs xs = true
  | [] => rfl
  | x :: xs => by simp [Spec.pointwise, h x, pointwise_refl h xs]

/-- the set of optionals only grows, by indices not yet visited -/
theorem matchSegs_extends {row : Row} {ss : List Str} {i : Nat} {o0 o : List Nat}
    (h : matchSegs row ss i o0 = some o) : ∃ extra, o = o0 ++ extra ∧ ∀ k ∈ extra, i ≤ k := by
  induction row generalizing ss i o0 with
  | nil =>
    cases ss with
    | nil => simp [matchSegs] at h; exact ⟨[], by simp [h]⟩
    | cons s ss => simp [matchSegs] at h
  | cons p ps ih =>
    have lift : ∀ {o1 : List Nat} {ss' : List Str}, matchSegs ps ss' (i + 1) o1 = some o →
        (∃ e0, o1 = o0 ++ e0 ∧ ∀ k ∈ e0, i ≤ k) → ∃ extra, o = o0 ++ extra ∧ ∀ k ∈ extra, i ≤ k := by
      intro o1 ss' h1 ⟨e0, he0, hk0⟩
      obtain ⟨e, he, hk⟩ := ih h1
      refine ⟨e0 ++ e, by rw [he, he0]; simp, ?_⟩
      intro k hk'
      simp at hk'
      rcases hk' with hk' | hk'
      · exact hk0 k hk'
      · have := hk k hk'; omega
    cases p with
    | unit => simp only [matchSegs] at h; exact lift h ⟨[], by simp⟩
    | param n =>
      cases ss with
      | nil => simp [matchSegs] at h
      | cons seg rest => simp only [matchSegs] at h; exact lift h ⟨[], by simp⟩
    | optional m =>
      cases ss with
      | nil => simp only [matchSegs] at h; exact lift h ⟨[], by simp⟩
      | cons seg rest =>
        simp only [matchSegs] at h
        cases hp : matchSegs ps rest (i + 1) (o0 ++ [i]) with
        | some o' =>
          rw [hp] at h
          simp only [Option.some.injEq] at h
          subst h
          exact lift hp ⟨[i], rfl, by simp⟩
        | none =>
          rw [hp] at h
          exact lift h ⟨[], by simp⟩
    | static m =>
      simp only [matchSegs] at h
      split at h
      · exact lift h ⟨[], by simp⟩
      · cases ss with
        | nil => simp at h
        | cons seg rest =>
          simp only at h
          split at h
          · exact lift h ⟨[], by simp⟩
          · simp at h
    | splat n => simp [matchSegs] at h; exact ⟨[], by simp [h]⟩

/-- Along a route of the old locale that matches, the same route of the new locale (same shape) rebuilds the
    path without panicking; every segment is kept, except static ones, replaced by their counterpart; and what is
    rebuilt is served by the new locale's route. -/
theorem construct_of_match {rowA : Row} : ∀ {rowB : Row} {ss : List Str} {i : Nat} {o0 o : List Nat} (b : PB),
    Spec.compatRow rowA rowB = true → (∀ s ∈ ss, Spec.goodSeg s = true) → (∀ k ∈ o0, k < i) →
    matchSegs rowA ss i o0 = some o →
    ∃ out, construct rowB ss i o b = .ok (b ++ out) ∧ (∀ x ∈ out, Spec.goodSeg x = true) ∧
      Spec.pointwise (fun x y => x == y || Spec.rowHas rowA rowB x y) ss out = true := by
  induction rowA with
  | nil =>
    intro rowB ss i o0 o b hc hs ho hm
    cases rowB with
    | cons q qs => simp [Spec.compatRow] at hc
    | nil =>
      cases ss with
      | cons s ss => simp [matchSegs] at hm
      | nil => exact ⟨[], by simp [construct], by simp, rfl⟩
  | cons p ps ih =>
    intro rowB ss i o0 o b hc hs ho hm
    cases rowB with
    | nil => simp [Spec.compatRow] at hc
    | cons q qs =>
      simp only [Spec.compatRow, Bool.and_eq_true] at hc
      obtain ⟨hpq, hc'⟩ := hc
      cases ss with
      | nil => exact ⟨[], by simp [construct], by simp, rfl⟩
      | cons seg rest =>
        have hseg : Spec.goodSeg seg = true := hs seg (by simp)
        have hrest : ∀ s ∈ rest, Spec.goodSeg s = true := fun s h => hs s (by simp [h])
        have ho1 : ∀ k ∈ o0, k < i + 1 := fun k hk => Nat.lt_succ_of_lt (ho k hk)
        -- weaken the relation obtained for the tails of the rows
        have weak : ∀ {xs ys : List Str},
            Spec.pointwise (fun x y => x == y || Spec.rowHas ps qs x y) xs ys = true →
            Spec.pointwise (fun x y => x == y || Spec.rowHas (p :: ps) (q :: qs) x y) xs ys = true :=
          pointwise_mono (fun x y hxy => by
            simp only [Bool.or_eq_true] at hxy ⊢
            rcases hxy with hxy | hxy
            · exact Or.inl hxy
            · right; simp [Spec.rowHas, hxy])
        -- the step "this pattern element is skipped"
        have skip : matchSegs ps (seg :: rest) (i + 1) o0 = some o →
            ∃ out, construct qs (seg :: rest) (i + 1) o b = .ok (b ++ out) ∧ (∀ x ∈ out, Spec.goodSeg x = true) ∧
              Spec.pointwise (fun x y => x == y || Spec.rowHas (p :: ps) (q :: qs) x y) (seg :: rest) out = true := by
          intro hm'
          obtain ⟨out, h1, h2, h3⟩ := ih b hc' hs ho1 hm'
          exact ⟨out, h1, h2, weak h3⟩
        -- the step "this pattern element consumes `seg` and pushes `y`"
        have consume : ∀ (y : Str) (o1 : List Nat), Spec.goodSeg y = true → (∀ k ∈ o1, k < i + 1) →
            ((seg == y) = true ∨ Spec.rowHas (p :: ps) (q :: qs) seg y = true) →
            matchSegs ps rest (i + 1) o1 = some o →
            ∃ out, construct qs rest (i + 1) o (b ++ [y]) = .ok (b ++ out) ∧ (∀ x ∈ out, Spec.goodSeg x = true) ∧
              Spec.pointwise (fun x y => x == y || Spec.rowHas (p :: ps) (q :: qs) x y) (seg :: rest) out = true := by
          intro y o1 hy ho' hrel hm'
          obtain ⟨out, h1, h2, h3⟩ := ih (b ++ [y]) hc' hrest ho' hm'
          refine ⟨y :: out, by rw [h1]; simp, ?_, ?_⟩
          · intro x hx; simp at hx; rcases hx with hx | hx
            · exact hx ▸ hy
            · exact h2 x hx
          · simp only [Spec.pointwise, Bool.and_eq_true, Bool.or_eq_true]
            exact ⟨hrel, weak h3⟩
        cases p with
        | unit =>
          cases q <;> simp [Spec.compatSeg] at hpq
          simp only [matchSegs] at hm
          simp only [construct]
          exact skip hm
        | param n =>
          cases q <;> simp [Spec.compatSeg] at hpq
          simp only [matchSegs] at hm
          simp only [construct, push_good b hseg]
          exact consume seg o0 hseg ho1 (Or.inl (by simp)) hm
        | optional m =>
          cases q <;> simp [Spec.compatSeg] at hpq
          simp only [matchSegs] at hm
          simp only [construct]
          cases hp : matchSegs ps rest (i + 1) (o0 ++ [i]) with
          | some o' =>
            rw [hp] at hm
            simp only [Option.some.injEq] at hm
            subst hm
            obtain ⟨extra, he, _⟩ := matchSegs_extends hp
            have hin : o'.contains i = true := by rw [he]; simp
            rw [if_pos hin, push_good b hseg]
            refine consume seg (o0 ++ [i]) hseg ?_ (Or.inl (by simp)) hp
            intro k hk; simp at hk; rcases hk with hk | hk
            · exact ho1 k hk
            · omega
          | none =>
            rw [hp] at hm
            simp only at hm
            obtain ⟨extra, he, hk⟩ := matchSegs_extends hm
            have hnin : ¬ (o.contains i = true) := by
              rw [he]; simp
              refine ⟨fun h => ?_, fun h => ?_⟩
              · have := ho i h; omega
              · have := hk i h; omega
            rw [if_neg hnin]
            exact skip hm
        | static a =>
          cases q <;> simp [Spec.compatSeg] at hpq
          rename_i b'
          simp only [matchSegs] at hm
          simp only [construct]
          by_cases ha : a.isEmpty = true
          · have hb' : b'.isEmpty = true := by
              rcases hpq with h | h
              · simpa using h.2
              · have : Spec.goodSeg a = true := h.1
                simp [Spec.goodSeg, ha] at this
            rw [if_pos ha] at hm
            rw [if_pos hb']
            exact skip hm
          · have hgood : Spec.goodSeg a = true ∧ Spec.goodSeg b' = true := by
              rcases hpq with h | h
              · exact absurd (by simpa using h.1) ha
              · exact h
            have hb' : ¬ (b'.isEmpty = true) := by
              have := hgood.2; simp [Spec.goodSeg] at this; simp [this.1]
            rw [if_neg ha] at hm
            rw [if_neg hb', push_good b hgood.2]
            split at hm
            · rename_i hseq
              refine consume b' o0 hgood.2 ho1 (Or.inr ?_) hm
              simp [Spec.rowHas, hseq]
            · simp at hm
        | splat n =>
          cases q <;> simp [Spec.compatSeg] at hpq
          simp only [construct, push_good b hseg, pushAll_good _ hrest]
          refine ⟨seg :: rest, by simp, hs, ?_⟩
          exact pointwise_refl (by simp) _

/-! ### `localize_path` -/

theorem firstMatch_spec {ss : List Str} {t : Tables} {pos p : Nat} {o : List Nat}
    (h : firstMatch ss t pos = some (p, o)) :
    ∃ k row, p = pos + k ∧ t[k]? = some row ∧ matchSegs row ss 0 [] = some o := by
  induction t generalizing pos with
  | nil => simp [firstMatch] at h
  | cons r rs ih =>
    simp only [firstMatch] at h
    split at h
    · rename_i o' hm
      simp at h
      exact ⟨0, r, by omega, by simp, by rw [hm, h.2]⟩
    · obtain ⟨k, row, h1, h2, h3⟩ := ih h
      exact ⟨k + 1, row, by omega, by simpa using h2, h3⟩

theorem compatTables_get {tA tB : Tables} (hc : Spec.compatTables tA tB = true) {k : Nat} {rowA : Row}
    (h : tA[k]? = some rowA) : ∃ rowB, tB[k]? = some rowB ∧ Spec.compatRow rowA rowB = true ∧
      ∀ x y, Spec.rowHas rowA rowB x y = true → Spec.counterpart tA tB x y = true := by
  induction tA generalizing tB k with
  | nil => simp at h
  | cons a as ih =>
    cases tB with
    | nil => simp [Spec.compatTables] at hc
    | cons b bs =>
      simp only [Spec.compatTables, Bool.and_eq_true] at hc
      cases k with
      | zero =>
        simp at h; subst h
        exact ⟨b, by simp, hc.1, fun x y hxy => by simp [Spec.counterpart, hxy]⟩
      | succ k =>
        simp at h
        obtain ⟨rowB, h1, h2, h3⟩ := ih hc.2 h
        exact ⟨rowB, by simpa using h1, h2, fun x y hxy => by simp [Spec.counterpart, h3 x y hxy]⟩

/-- with route tables of the same shape, `localize_path` never panics; it either leaves the builder alone or
    appends the path's segments, changed only in localized segments -/
theorem localizePath_compat {tA tB : Tables} (hc : Spec.compatTables tA tB = true) (path : Str) (b : PB) :
    localizePath path tA tB b = .ok none ∨
    ∃ out, localizePath path tA tB b = .ok (some (b ++ out)) ∧ (∀ x ∈ out, Spec.goodSeg x = true) ∧
      Spec.onlyLocalizedChanged (some tA) (some tB) (segs path) out = true := by
  simp only [localizePath]
  cases hf : firstMatch (segs path) tA 0 with
  | none => left; rfl
  | some po =>
    obtain ⟨p, o⟩ := po
    right
    obtain ⟨k, rowA, hk, hrow, hm⟩ := firstMatch_spec hf
    have hk' : p = k := by omega
    subst hk'
    obtain ⟨rowB, hB, hcr, hcp⟩ := compatTables_get hc hrow
    obtain ⟨out, h1, h2, h3⟩ := construct_of_match b hcr (segs_all_good path) (by simp) hm
    refine ⟨out, by simp [hB, h1], h2, ?_⟩
    refine pointwise_mono ?_ h3
    intro x y hxy
    simp only [Bool.or_eq_true] at hxy
    simp only [Spec.segOk, Bool.or_eq_true]
    rcases hxy with hxy | hxy
    · exact Or.inl hxy
    · exact Or.inr (hcp x y hxy)

theorem flatMap_segs_good {gs : List Str} (h : ∀ g ∈ gs, Spec.goodSeg g = true) : gs.flatMap segs = gs := by
  induction gs with
  | nil => rfl
  | cons g gs ih =>
    simp only [List.flatMap_cons, segs_good (h g (by simp))]
    rw [ih (fun g' hg' => h g' (by simp [hg']))]; rfl

/-! ### `get_new_path` on segments -/

/-- the remaining path once the old locale's prefix is taken off, on segments -/
theorem segs_rest1 (rest l : Str) (hl : l ≠ []) :
    segs (if (splitFirst rest).1 = l then (splitFirst rest).2 else rest)
      = match segs rest with
        | s :: tl => if l = s then tl else s :: tl
        | [] => [] := by
  rw [segs_splitFirst rest]
  by_cases hf : (splitFirst rest).1 = []
  · have : ¬ (splitFirst rest).1 = l := fun h => hl (h ▸ hf)
    rw [if_neg this, segs_splitFirst rest]; simp [hf]
  · simp only [hf, if_false]
    by_cases hfl : (splitFirst rest).1 = l
    · simp [hfl]
    · have : ¬ l = (splitFirst rest).1 := fun h => hfl h.symm
      rw [if_neg hfl, if_neg this, segs_splitFirst rest]; simp [hf]

/-- the segments left after the base path once the old locale's prefix (if written) is taken off -/
def restSegs (oldName : Option Str) (xs : List Str) : List Str :=
  match oldName, xs with
  | some l, s :: tl => if l = s then tl else s :: tl
  | _, _ => xs

theorem onlyLocalizedChanged_refl (tA tB : Option Tables) (r : List Str) :
    Spec.onlyLocalizedChanged tA tB r r = true :=
  pointwise_refl (by simp [Spec.segOk]) r

theorem flatMap_segs_new : (PB.new).flatMap segs = [] := by
  simp [PB.new, segs_nil]

/-- `get_new_path`, on segments: for a path under the base path and route tables of the same shape there is no
    panic, and the new pathname consists of the base path's segments, the new locale's prefix (none for the
    default) and the old remaining segments changed only in localized segments. -/
theorem newPathname_spec (path base newName : Str) (newIsDefault : Bool) (oldName : Option Str)
    (oldT newT : Option Tables) (hnew : Spec.goodSeg newName = true) (hold : ∀ l, oldName = some l → l ≠ [])
    (hc : Spec.compatOpt oldT newT = true) (rest : Str) (hs : stripBasePath path base = some rest) :
    ∃ p r', newPathname path base newName newIsDefault oldName oldT newT = .ok p ∧
      segs p = segs base ++ (if newIsDefault then [] else [newName]) ++ r' ∧
      (∀ x ∈ r', Spec.goodSeg x = true) ∧
      Spec.onlyLocalizedChanged oldT newT (restSegs oldName (segs rest)) r' = true := by
  -- the builder after the base path and the locale prefix
  generalize hb1 : baseBuilder base newName newIsDefault = b1
  have hb1s : b1.flatMap segs = segs base ++ (if newIsDefault then [] else [newName]) := by
    subst hb1
    cases newIsDefault
    · simp [baseBuilder, flatMap_segs_push, flatMap_segs_new, segs_good hnew]
    · simp [baseBuilder, flatMap_segs_push, flatMap_segs_new]
  -- the rest of the path
  generalize hr1 : stripLocale rest oldName = rest1
  have hr1s : segs rest1 = restSegs oldName (segs rest) := by
    subst hr1
    cases oldName with
    | none => simp [restSegs, stripLocale]
    | some l =>
      simp only [stripLocale]
      rw [segs_rest1 rest l (hold l rfl)]
      cases segs rest <;> simp [restSegs]
  have unloc : ∃ p r', Outcome.ok (PB.build (b1.push rest1)) = .ok p ∧
      segs p = segs base ++ (if newIsDefault then [] else [newName]) ++ r' ∧
      (∀ x ∈ r', Spec.goodSeg x = true) ∧
      Spec.onlyLocalizedChanged oldT newT (restSegs oldName (segs rest)) r' = true :=
    ⟨_, segs rest1, rfl, by rw [segs_build, flatMap_segs_push, hb1s], segs_all_good rest1,
      by rw [hr1s]; exact onlyLocalizedChanged_refl _ _ _⟩
  simp only [newPathname, hs, hb1, hr1]
  cases oldT with
  | none => exact unloc
  | some o =>
    cases newT with
    | none => exact unloc
    | some n =>
      simp only
      rcases localizePath_compat (by simpa [Spec.compatOpt] using hc) rest1 b1 with h | ⟨out, h, hg, hrel⟩
      · rw [h]; exact unloc
      · rw [h]
        refine ⟨_, out, rfl, ?_, hg, by rw [← hr1s]; exact hrel⟩
        rw [segs_build, List.flatMap_append, hb1s, flatMap_segs_good hg]

/-! ### query and fragment -/

theorem urlSuffix_eq (search hash : Str) : urlSuffix search hash = Spec.queryAndFragment search hash := by
  simp only [urlSuffix, Spec.queryAndFragment]
  congr 1
  · cases search <;> simp
  · cases hash with
    | nil => simp
    | cons c cs =>
      by_cases hc : c = '#'
      · subst hc; simp [Spec.fragment]
      · simp [Spec.fragment, hc]

theorem dropCharPrefix_append (a b : Str) : Spec.dropCharPrefix a (a ++ b) = some b := by
  induction a with
  | nil => cases b <;> simp [Spec.dropCharPrefix]
  | cons c cs ih => simp [Spec.dropCharPrefix, ih]

theorem dropSuffix_append (p suf : Str) : Spec.dropSuffix (p ++ suf) suf = some p := by
  simp [Spec.dropSuffix, List.reverse_append, dropCharPrefix_append]

/-! ### normalised paths: every segment preceded by one `/` -/

/-- the string, once its outer slashes are trimmed, is the `/`-join of its segments (no empty segment inside) -/
def Clean (s : Str) : Prop := trimSlashes s = join (segs s)

/-- `/a/b/c` for `[a, b, c]` -/
def sl (xs : List Str) : Str := xs.flatMap (fun x => '/' :: x)

theorem sl_nil : sl [] = [] := rfl
theorem sl_cons (x : Str) (xs : List Str) : sl (x :: xs) = '/' :: x ++ sl xs := by simp [sl]
theorem sl_append (xs ys : List Str) : sl (xs ++ ys) = sl xs ++ sl ys := by simp [sl]

theorem sl_eq_nil {xs : List Str} : sl xs = [] ↔ xs = [] := by
  cases xs <;> simp [sl]

theorem join_cons' (x : Str) (xs : List Str) : join (x :: xs) = x ++ sl xs := by
  induction xs generalizing x with
  | nil => simp [join, sl]
  | cons y ys ih => simp [join, ih y, sl_cons]

theorem join_nil_cons (xs : List Str) : join ([] :: xs) = sl xs := by
  rw [join_cons']; rfl

theorem sl_join {zs : List Str} (hz : zs ≠ []) : sl [join zs] = sl zs := by
  cases zs with
  | nil => exact absurd rfl hz
  | cons z zs => rw [join_cons', sl_cons, sl_cons]; simp [sl]

theorem build_nil_cons (xs : List Str) : PB.build ([] :: xs) = if xs = [] then ['/'] else sl xs := by
  simp only [PB.build, join_nil_cons]
  cases xs with
  | nil => simp [sl]
  | cons x xs => simp [sl_cons]

theorem sl_cases (xs : List Str) : sl xs = [] ∨ ∃ t, sl xs = '/' :: t := by
  cases xs with
  | nil => left; rfl
  | cons y ys => right; exact ⟨_, sl_cons y ys⟩

theorem segs_sl {xs : List Str} (h : ∀ x ∈ xs, Spec.goodSeg x = true) : segs (sl xs) = xs := by
  rw [← join_nil_cons, segs_join]
  simp [segs_nil, flatMap_segs_good h]

theorem splitFirst_sl {g : Str} (hg : Spec.goodSeg g = true) (xs : List Str) :
    splitFirst (sl (g :: xs)) = (g, sl xs) := by
  rw [sl_cons, List.cons_append, splitFirst_cons_slash]
  exact splitFirst_good hg _ (sl_cases xs)

theorem stripBase_sl {bs : List Str} (hb : ∀ b ∈ bs, Spec.goodSeg b = true) (ys : List Str) :
    stripBase (sl (bs ++ ys)) bs = some (sl ys) := by
  induction bs with
  | nil => rfl
  | cons b bs ih =>
    simp only [List.cons_append, stripBase, splitFirst_sl (hb b (by simp)), if_true]
    exact ih (fun b' hb' => hb b' (by simp [hb']))

/-- a non-empty `/`-join of good segments ends with a good segment -/
theorem join_ends_good {xs : List Str} (h : ∀ x ∈ xs, Spec.goodSeg x = true) (hne : xs ≠ []) :
    ∃ s g, join xs = s ++ g ∧ Spec.goodSeg g = true := by
  induction xs with
  | nil => exact absurd rfl hne
  | cons x xs ih =>
    cases xs with
    | nil => exact ⟨[], x, by simp [join], h x (by simp)⟩
    | cons y ys =>
      obtain ⟨s, g, h1, h2⟩ := ih (fun z hz => h z (by simp [hz])) (by simp)
      exact ⟨x ++ '/' :: s, g, by simp [join, h1], h2⟩

theorem trimEnd_append_good (s : Str) {g : Str} (hg : Spec.goodSeg g = true) : trimEnd (s ++ g) = s ++ g := by
  obtain ⟨hne, hns⟩ := goodSeg_iff.mp hg
  simp only [trimEnd, List.reverse_append]
  cases hr : g.reverse with
  | nil => simp at hr; exact absurd hr hne
  | cons c cs =>
    have hc : c ≠ '/' := hns c (by rw [← List.mem_reverse, hr]; simp)
    rw [List.cons_append, trimStart_of_head hc, ← List.cons_append, ← hr]
    simp

theorem trimSlashes_join_good {xs : List Str} (h : ∀ x ∈ xs, Spec.goodSeg x = true) :
    trimSlashes (join xs) = join xs := by
  cases xs with
  | nil => simp [join, trimSlashes, trimEnd, trimStart]
  | cons x xs =>
    obtain ⟨s, g, h1, h2⟩ := join_ends_good h (by simp)
    obtain ⟨hne, hns⟩ := goodSeg_iff.mp (h x (by simp))
    have hts : trimStart (join (x :: xs)) = join (x :: xs) := by
      rw [join_cons']
      cases x with
      | nil => exact absurd rfl hne
      | cons c cs => exact trimStart_of_head (hns c (by simp)) _
    rw [trimSlashes, hts, h1, trimEnd_append_good s h2]

theorem clean_sl {xs : List Str} (h : ∀ x ∈ xs, Spec.goodSeg x = true) : Clean (sl xs) := by
  rw [Clean, segs_sl h]
  cases xs with
  | nil => simp [sl, join, trimSlashes, trimEnd, trimStart]
  | cons x xs =>
    have e : sl (x :: xs) = '/' :: join (x :: xs) := by rw [join_cons', sl_cons]; rfl
    have : trimSlashes (sl (x :: xs)) = trimSlashes (join (x :: xs)) := by
      rw [e]; simp [trimSlashes, trimStart_cons_slash]
    rw [this, trimSlashes_join_good h]

theorem clean_slash : Clean ['/'] := by unfold Clean; decide

/-! ### the builder, for a normalised base path -/

theorem push_clean (b : PB) {s : Str} (h : Clean s) :
    PB.push b s = if segs s = [] then b else b ++ [join (segs s)] := by
  have h' : trimSlashes s = join (segs s) := h
  simp only [PB.push, h']
  have hg := segs_all_good s
  cases hs : segs s with
  | nil => simp [join]
  | cons x xs =>
    rw [hs] at hg
    obtain ⟨hne, _⟩ := goodSeg_iff.mp (hg x (by simp))
    have : join (x :: xs) ≠ [] := by rw [join_cons']; simp [hne]
    simp [this]

/-- building after more pushes only depends on the segments pushed -/
theorem build_push_clean (xs : List Str) {s : Str} (h : Clean s) (ys : List Str) :
    PB.build (PB.push ([] :: xs) s ++ ys) = PB.build ([] :: (xs ++ segs s ++ ys)) := by
  rw [push_clean _ h]
  by_cases hs : segs s = []
  · simp [hs]
  · rw [if_neg hs]
    simp only [List.cons_append, build_nil_cons, List.append_assoc]
    have e : sl (xs ++ join (segs s) :: ys) = sl (xs ++ (segs s ++ ys)) := by
      rw [show xs ++ join (segs s) :: ys = xs ++ ([join (segs s)] ++ ys) from rfl]
      rw [sl_append, sl_append, sl_join hs, ← sl_append, ← sl_append]
    simp [e, hs]

theorem push_nil_cons (xs : List Str) (s : Str) : ∃ zs, PB.push ([] :: xs) s = [] :: zs := by
  simp only [PB.push]; split
  · exact ⟨xs, rfl⟩
  · exact ⟨xs ++ [trimSlashes s], rfl⟩

theorem baseBuilder_build {base newName : Str} (d : Bool) (hb : Clean base) (hn : Spec.goodSeg newName = true)
    (ys : List Str) :
    PB.build (baseBuilder base newName d ++ ys)
      = PB.build ([] :: (segs base ++ (if d then [] else [newName]) ++ ys)) := by
  cases d with
  | true => simpa [baseBuilder, PB.new] using build_push_clean [] hb ys
  | false =>
    simp only [baseBuilder, PB.new, Bool.false_eq_true, if_false]
    rw [push_good _ hn, List.append_assoc]
    simpa using build_push_clean [] hb ([newName] ++ ys)

theorem baseBuilder_nil_cons (base newName : Str) (d : Bool) : ∃ zs, baseBuilder base newName d = [] :: zs := by
  obtain ⟨zs, hz⟩ := push_nil_cons [] base
  cases d with
  | true => exact ⟨zs, by simpa [baseBuilder, PB.new] using hz⟩
  | false =>
    obtain ⟨zs', hz'⟩ := push_nil_cons zs newName
    exact ⟨zs', by simp only [baseBuilder, PB.new, Bool.false_eq_true, if_false]; rw [hz, hz']⟩

/-! ### the localisation step, builder-independent -/

theorem push_prefix (b : PB) (s : Str) : PB.push b s = b ++ PB.push [] s := by
  simp only [PB.push]; split <;> simp

theorem pushAll_prefix (b : PB) (ss : List Str) : PB.pushAll b ss = b ++ PB.pushAll [] ss := by
  induction ss generalizing b with
  | nil => simp [PB.pushAll]
  | cons x xs ih =>
    simp only [PB.pushAll]
    rw [ih (PB.push b x), ih (PB.push [] x), push_prefix b x]; simp

def Outcome.mapOk {α β : Type} (f : α → β) : Outcome α → Outcome β
  | .ok a => .ok (f a)
  | .panic m => .panic m

theorem construct_prefix (row : Row) (ss : List Str) (i : Nat) (o : List Nat) (b : PB) :
    construct row ss i o b = (construct row ss i o []).mapOk (b ++ ·) := by
  induction row generalizing ss i b with
  | nil => cases ss <;> simp [construct, Outcome.mapOk]
  | cons p ps ih =>
    cases ss with
    | nil => simp [construct, Outcome.mapOk]
    | cons seg rest =>
      have step : ∀ (y : Str) (ss' : List Str),
          construct ps ss' (i + 1) o (PB.push b y) = (construct ps ss' (i + 1) o (PB.push [] y)).mapOk (b ++ ·) := by
        intro y ss'
        rw [ih ss' (i + 1) (PB.push b y), ih ss' (i + 1) (PB.push [] y), push_prefix b y]
        cases construct ps ss' (i + 1) o [] <;> simp [Outcome.mapOk]
      cases p with
      | unit => simp only [construct]; exact ih _ _ _
      | param n => simp only [construct]; exact step seg rest
      | optional m =>
        simp only [construct]
        split
        · exact step seg rest
        · exact ih _ _ _
      | static m =>
        simp only [construct]
        split
        · exact ih _ _ _
        · exact step m rest
      | splat n =>
        simp only [construct, Outcome.mapOk]
        rw [pushAll_prefix (PB.push b seg), pushAll_prefix (PB.push [] seg), push_prefix b seg]; simp

/-- `localize_path` against its segment-level reading `localizeSegs`, for tables of the same shape -/
theorem localizePath_segs {tA tB : Tables} (hc : Spec.compatTables tA tB = true) (path : Str) (b : PB)
    {r' : List Str} (h : localizeSegs (some tA) (some tB) (segs path) = .ok r') :
    (localizePath path tA tB b = .ok none ∧ r' = segs path) ∨
    (localizePath path tA tB b = .ok (some (b ++ r')) ∧ ∀ x ∈ r', Spec.goodSeg x = true) := by
  simp only [localizeSegs] at h
  simp only [localizePath]
  cases hf : firstMatch (segs path) tA 0 with
  | none => left; rw [hf] at h; simp at h; exact ⟨rfl, h.symm⟩
  | some po =>
    obtain ⟨p, o⟩ := po
    right
    rw [hf] at h
    obtain ⟨k, rowA, hk, hrow, hm⟩ := firstMatch_spec hf
    have hk' : p = k := by omega
    subst hk'
    obtain ⟨rowB, hB, hcr, _⟩ := compatTables_get hc hrow
    obtain ⟨out, h1, h2, _⟩ := construct_of_match [] hcr (segs_all_good path) (by simp) hm
    simp only [hB, h1, List.nil_append] at h
    simp only [Outcome.ok.injEq] at h
    rw [flatMap_segs_good h2] at h
    subst h
    refine ⟨?_, h2⟩
    simp only [hB]
    rw [construct_prefix, h1]
    simp [Outcome.mapOk]

theorem localizeSegs_good {tA tB : Option Tables} (hc : Spec.compatOpt tA tB = true) {r r' : List Str}
    (hr : ∀ x ∈ r, Spec.goodSeg x = true) (h : localizeSegs tA tB r = .ok r') : ∀ x ∈ r', Spec.goodSeg x = true := by
  have hrs : segs (sl r) = r := segs_sl hr
  cases tA with
  | none => simp [localizeSegs] at h; subst h; exact hr
  | some a =>
    cases tB with
    | none => simp [localizeSegs] at h; subst h; exact hr
    | some b' =>
      rw [← hrs] at h
      rcases localizePath_segs (by simpa [Spec.compatOpt] using hc) (sl r) [] h with ⟨_, h2⟩ | ⟨_, h2⟩
      · rw [h2, hrs]; exact hr
      · exact h2

/-- `get_new_path` on a normalised rest: the new pathname is the normalised path of the base path's segments,
    the new locale's prefix and the localized segments -/
theorem newPathname_normal (path base newName : Str) (d : Bool) (oldName : Option Str) (oldT newT : Option Tables)
    (hbase : Clean base) (hnew : Spec.goodSeg newName = true) (hc : Spec.compatOpt oldT newT = true)
    (rest : Str) (hs : stripBasePath path base = some rest) (hclean : Clean (stripLocale rest oldName))
    (r' : List Str) (hloc : localizeSegs oldT newT (segs (stripLocale rest oldName)) = .ok r') :
    newPathname path base newName d oldName oldT newT
      = .ok (PB.build ([] :: (segs base ++ (if d then [] else [newName]) ++ r'))) := by
  generalize hr1 : stripLocale rest oldName = rest1 at hclean hloc
  have unloc : localizeSegs oldT newT (segs rest1) = .ok (segs rest1) → r' = segs rest1 := by
    intro h; rw [h] at hloc; simpa using hloc.symm
  have hun : r' = segs rest1 →
      Outcome.ok (PB.build ((baseBuilder base newName d).push rest1))
        = .ok (PB.build ([] :: (segs base ++ (if d then [] else [newName]) ++ r'))) := by
    intro hr'
    obtain ⟨zs, hz⟩ := baseBuilder_nil_cons base newName d
    have h1 := build_push_clean zs hclean []
    simp only [List.append_nil] at h1
    rw [hz, h1, ← hr']
    have h2 := baseBuilder_build d hbase hnew r'
    rw [hz] at h2
    simp only [List.cons_append] at h2
    rw [h2]
  simp only [newPathname, hs, hr1]
  cases oldT with
  | none => exact hun (unloc (by simp [localizeSegs]))
  | some o =>
    cases newT with
    | none => exact hun (unloc (by simp [localizeSegs]))
    | some n =>
      simp only
      rcases localizePath_segs (by simpa [Spec.compatOpt] using hc) rest1 (baseBuilder base newName d) hloc
        with ⟨h1, h2⟩ | ⟨h1, _⟩
      · rw [h1]; exact hun h2
      · rw [h1]
        simp only
        rw [baseBuilder_build d hbase hnew r']

/-! ### one switch on a normalised URL -/

theorem normalPath_eq (base : Str) (pfx r : List Str) :
    Spec.normalPath base pfx r = PB.build ([] :: (segs base ++ pfx ++ r)) := by
  simp only [Spec.normalPath, segments_eq, build_nil_cons, sl, List.isEmpty_iff, List.flatMap_def]

theorem splitFirst_nil : splitFirst [] = ([], []) := by simp [splitFirst, trimStart]

theorem stripLocale_sl {xs : List Str} (hx : ∀ x ∈ xs, Spec.goodSeg x = true) {n : Str} (hn : n ≠ []) :
    stripLocale (sl xs) (some n) = sl (restSegs (some n) xs) := by
  cases xs with
  | nil =>
    have : ¬ (([] : Str) = n) := fun h => hn h.symm
    simp [stripLocale, sl_nil, splitFirst_nil, restSegs, this]
  | cons g tl =>
    simp only [stripLocale, splitFirst_sl (hx g (by simp)), restSegs]
    by_cases h : g = n
    · subst h; simp
    · have : ¬ n = g := fun h' => h h'.symm
      simp [h, this]

theorem restSegs_good {xs : List Str} (hx : ∀ x ∈ xs, Spec.goodSeg x = true) (o : Option Str) :
    ∀ x ∈ restSegs o xs, Spec.goodSeg x = true := by
  cases o with
  | none => cases xs <;> simp only [restSegs] <;> exact hx
  | some l =>
    cases xs with
    | nil => simp [restSegs]
    | cons g tl =>
      simp only [restSegs]
      split
      · exact fun x h => hx x (by simp [h])
      · exact hx

/-- One switch `X → Y` on the normalised URL of locale `X` with remaining segments `rX`: the result is the
    normalised URL of locale `Y` with the localized segments. -/
theorem switch_normal (c : Cfg) (base : Str) (X Y : Nat) (rX rY : List Str)
    (hn : ∀ n ∈ c.names, Spec.goodSeg n = true) (hX : X < c.names.length) (hY : Y < c.names.length)
    (hbase : Clean base) (hc : Spec.compatOpt (c.lookup X) (c.lookup Y) = true)
    (hr : ∀ x ∈ rX, Spec.goodSeg x = true) (hhead : X = 0 → rX.head? ≠ c.names[0]?)
    (hloc : localizeSegs (c.lookup X) (c.lookup Y) rX = .ok rY) :
    c.newPathname (Spec.normalPath base (Spec.localePrefix c.names X) rX) base Y (some X)
      = .ok (Spec.normalPath base (Spec.localePrefix c.names Y) rY) := by
  have hgX : Spec.goodSeg (c.name X) = true := by apply hn; simp [Cfg.name, List.getD, hX]
  have hgY : Spec.goodSeg (c.name Y) = true := by apply hn; simp [Cfg.name, List.getD, hY]
  have hneX : c.name X ≠ [] := (goodSeg_iff.mp hgX).1
  have hpfx : ∀ x ∈ Spec.localePrefix c.names X, Spec.goodSeg x = true := by
    intro x hx
    simp only [Spec.localePrefix] at hx
    split at hx
    · simp at hx
    · simp at hx; subst hx; exact hgX
  have hitems : ∀ x ∈ Spec.localePrefix c.names X ++ rX, Spec.goodSeg x = true := by
    intro x hx; simp at hx; rcases hx with hx | hx
    · exact hpfx x hx
    · exact hr x hx
  -- the segments after the base path, once the old prefix is off, are `rX`
  have hrest : restSegs (some (c.name X)) (Spec.localePrefix c.names X ++ rX) = rX := by
    simp only [Spec.localePrefix]
    by_cases h0 : X = 0
    · subst h0
      have hh := hhead rfl
      cases rX with
      | nil => simp [restSegs]
      | cons g tl =>
        have : ¬ c.name 0 = g := by
          intro h
          apply hh
          simp [Cfg.name, List.getD] at h
          have h0 : 0 < c.names.length := hX
          simp [List.getElem?_eq_getElem h0] at h ⊢
          exact h.symm
        simp [restSegs, this]
    · have : (X == 0) = false := by simp [h0]
      simp [this, restSegs, Cfg.name]
  -- what `strip_base_path` and the prefix removal leave
  have F1 : ∃ rest, stripBasePath (Spec.normalPath base (Spec.localePrefix c.names X) rX) base = some rest ∧
      Clean (stripLocale rest (some (c.name X))) ∧ segs (stripLocale rest (some (c.name X))) = rX := by
    rw [normalPath_eq, build_nil_cons, List.append_assoc]
    by_cases hempty : segs base ++ (Spec.localePrefix c.names X ++ rX) = []
    · rw [if_pos hempty]
      simp only [List.append_eq_nil_iff] at hempty
      obtain ⟨hb, hp, hr0⟩ := hempty
      refine ⟨['/'], by simp [stripBasePath, hb, stripBase], ?_⟩
      have : stripLocale ['/'] (some (c.name X)) = ['/'] := by
        have e : (splitFirst ['/']).1 = [] := by decide
        have : ¬ (([] : Str) = c.name X) := fun h => hneX h.symm
        simp [stripLocale, e, this]
      rw [this, hr0]
      exact ⟨clean_slash, by decide⟩
    · rw [if_neg hempty]
      refine ⟨sl (Spec.localePrefix c.names X ++ rX), stripBase_sl (segs_all_good base) _, ?_⟩
      rw [stripLocale_sl hitems hneX, hrest]
      exact ⟨clean_sl hr, segs_sl hr⟩
  obtain ⟨rest, hs, hcl, hsegs⟩ := F1
  have hloc' : localizeSegs (c.lookup X) (c.lookup Y) (segs (stripLocale rest (some (c.name X)))) = .ok rY := by
    rw [hsegs]; exact hloc
  have := newPathname_normal _ base (c.name Y) (Y == 0) (some (c.name X)) (c.lookup X) (c.lookup Y)
    hbase hgY hc rest hs hcl rY hloc'
  simp only [Cfg.newPathname, Option.map_some, Option.getD_some]
  rw [this, normalPath_eq]
  simp only [Spec.localePrefix, Cfg.name]

/-! ### "served by the same route": the localized segments are rewritten -/

/-- `match_path_segments` succeeds exactly when the route serves the segments (declarative `Spec.servesRow`),
    whatever the index and the set of optionals it starts from -/
theorem matchSegs_isSome (row : Row) : ∀ (ss : List Str) (i : Nat) (o0 : List Nat),
    (matchSegs row ss i o0).isSome = Spec.servesRow row ss := by
  induction row with
  | nil => intro ss i o0; cases ss <;> simp [matchSegs, Spec.servesRow]
  | cons p ps ih =>
    intro ss i o0
    cases p with
    | unit => simp only [matchSegs, Spec.servesRow]; exact ih _ _ _
    | param n =>
      cases ss with
      | nil => simp [matchSegs, Spec.servesRow]
      | cons seg rest => simp only [matchSegs, Spec.servesRow]; exact ih _ _ _
    | optional m =>
      cases ss with
      | nil =>
        simp only [matchSegs, Spec.servesRow, Bool.or_false]; exact ih _ _ _
      | cons seg rest =>
        simp only [matchSegs, Spec.servesRow]
        rw [← ih rest (i + 1) (o0 ++ [i]), ← ih (seg :: rest) (i + 1) o0]
        cases matchSegs ps rest (i + 1) (o0 ++ [i]) <;> simp
    | static m =>
      simp only [matchSegs, Spec.servesRow]
      by_cases he : m.isEmpty = true
      · simp only [he, if_true]; exact ih _ _ _
      · simp only [he]
        cases ss with
        | nil => simp
        | cons seg rest =>
          by_cases h : m = seg
          · subst h; simp only [if_true, beq_self_eq_true, Bool.true_and]; exact ih _ _ _
          · have h' : (seg == m) = false := by simp; exact fun e => h e.symm
            simp [h, h']
    | splat n => simp [matchSegs, Spec.servesRow]

/-- a route that serves the empty path: so does the route of the same shape -/
theorem servesRow_nil_compat {rowA : Row} : ∀ {rowB : Row}, Spec.compatRow rowA rowB = true →
    Spec.servesRow rowA [] = true → Spec.servesRow rowB [] = true := by
  induction rowA with
  | nil => intro rowB hc _; cases rowB with
    | nil => rfl
    | cons q qs => simp [Spec.compatRow] at hc
  | cons p ps ih =>
    intro rowB hc h
    cases rowB with
    | nil => simp [Spec.compatRow] at hc
    | cons q qs =>
      simp only [Spec.compatRow, Bool.and_eq_true] at hc
      obtain ⟨hpq, hc'⟩ := hc
      cases p with
      | unit =>
        cases q <;> simp [Spec.compatSeg] at hpq
        simp only [Spec.servesRow] at h ⊢; exact ih hc' h
      | param n => simp [Spec.servesRow] at h
      | optional m =>
        cases q <;> simp [Spec.compatSeg] at hpq
        simp only [Spec.servesRow, Bool.or_false] at h ⊢; exact ih hc' h
      | static a =>
        cases q <;> simp [Spec.compatSeg] at hpq
        rename_i b'
        simp only [Spec.servesRow] at h ⊢
        by_cases ha : a.isEmpty = true
        · have hb' : b'.isEmpty = true := by
            rcases hpq with h' | h'
            · simpa using h'.2
            · have : Spec.goodSeg a = true := h'.1
              simp [Spec.goodSeg, ha] at this
          rw [if_pos ha] at h; rw [if_pos hb']; exact ih hc' h
        · rw [if_neg ha] at h; simp at h
      | splat n =>
        cases q <;> simp [Spec.compatSeg] at hpq
        simp [Spec.servesRow]

/-- Along a route of the old locale that matches, what the same route of the new locale rebuilds is served by
    that route. -/
theorem construct_served {rowA : Row} : ∀ {rowB : Row} {ss : List Str} {i : Nat} {o0 o : List Nat} (b : PB),
    Spec.compatRow rowA rowB = true → (∀ s ∈ ss, Spec.goodSeg s = true) → (∀ k ∈ o0, k < i) →
    matchSegs rowA ss i o0 = some o →
    ∃ out, construct rowB ss i o b = .ok (b ++ out) ∧ Spec.servesRow rowB out = true := by
  induction rowA with
  | nil =>
    intro rowB ss i o0 o b hc hs ho hm
    cases rowB with
    | cons q qs => simp [Spec.compatRow] at hc
    | nil =>
      cases ss with
      | cons s ss => simp [matchSegs] at hm
      | nil => exact ⟨[], by simp [construct], by simp [Spec.servesRow]⟩
  | cons p ps ih =>
    intro rowB ss i o0 o b hc hs ho hm
    cases rowB with
    | nil => simp [Spec.compatRow] at hc
    | cons q qs =>
      have hcfull := hc
      simp only [Spec.compatRow, Bool.and_eq_true] at hc
      obtain ⟨hpq, hc'⟩ := hc
      have ho1 : ∀ k ∈ o0, k < i + 1 := fun k hk => Nat.lt_succ_of_lt (ho k hk)
      cases ss with
      | nil =>
        -- the path is used up: nothing is rebuilt, and the rest of the new route takes nothing either
        refine ⟨[], by simp [construct], ?_⟩
        have hA : Spec.servesRow (p :: ps) [] = true := by
          rw [← matchSegs_isSome (p :: ps) [] i o0, hm]; rfl
        exact servesRow_nil_compat hcfull hA
      | cons seg rest =>
        have hseg : Spec.goodSeg seg = true := hs seg (by simp)
        have hrest : ∀ s ∈ rest, Spec.goodSeg s = true := fun s h => hs s (by simp [h])
        -- "this element consumes `seg` and pushes `y`"
        have consume : ∀ (y : Str) (o1 : List Nat), (∀ k ∈ o1, k < i + 1) →
            matchSegs ps rest (i + 1) o1 = some o →
            ∃ out', construct qs rest (i + 1) o (b ++ [y]) = .ok (b ++ y :: out') ∧ Spec.servesRow qs out' = true := by
          intro y o1 ho' hm'
          obtain ⟨out, h1, h2⟩ := ih (b ++ [y]) hc' hrest ho' hm'
          exact ⟨out, by rw [h1]; simp, h2⟩
        cases p with
        | unit =>
          cases q <;> simp [Spec.compatSeg] at hpq
          simp only [matchSegs] at hm
          obtain ⟨out, h1, h2⟩ := ih b hc' hs ho1 hm
          exact ⟨out, by simp only [construct]; exact h1, by simp only [Spec.servesRow]; exact h2⟩
        | param n =>
          cases q <;> simp [Spec.compatSeg] at hpq
          simp only [matchSegs] at hm
          obtain ⟨out, h1, h2⟩ := consume seg o0 ho1 hm
          exact ⟨seg :: out, by simp only [construct, push_good b hseg]; exact h1,
            by simp only [Spec.servesRow]; exact h2⟩
        | optional m =>
          cases q <;> simp [Spec.compatSeg] at hpq
          simp only [matchSegs] at hm
          cases hp : matchSegs ps rest (i + 1) (o0 ++ [i]) with
          | some o' =>
            rw [hp] at hm
            simp only [Option.some.injEq] at hm
            subst hm
            obtain ⟨extra, he, _⟩ := matchSegs_extends hp
            have hin : o'.contains i = true := by rw [he]; simp
            have ho' : ∀ k ∈ o0 ++ [i], k < i + 1 := by
              intro k hk; simp at hk; rcases hk with hk | hk
              · exact ho1 k hk
              · omega
            obtain ⟨out, h1, h2⟩ := consume seg (o0 ++ [i]) ho' hp
            refine ⟨seg :: out, ?_, ?_⟩
            · simp only [construct]; rw [if_pos hin, push_good b hseg]; exact h1
            · simp only [Spec.servesRow, Bool.or_eq_true]; exact Or.inr h2
          | none =>
            rw [hp] at hm
            simp only at hm
            obtain ⟨extra, he, hk⟩ := matchSegs_extends hm
            have hnin : ¬ (o.contains i = true) := by
              rw [he]; simp
              refine ⟨fun h => ?_, fun h => ?_⟩
              · have := ho i h; omega
              · have := hk i h; omega
            obtain ⟨out, h1, h2⟩ := ih b hc' hs ho1 hm
            refine ⟨out, ?_, ?_⟩
            · simp only [construct]; rw [if_neg hnin]; exact h1
            · simp only [Spec.servesRow, Bool.or_eq_true]; exact Or.inl h2
        | static a =>
          cases q <;> simp [Spec.compatSeg] at hpq
          rename_i b'
          simp only [matchSegs] at hm
          by_cases ha : a.isEmpty = true
          · have hb' : b'.isEmpty = true := by
              rcases hpq with h | h
              · simpa using h.2
              · have : Spec.goodSeg a = true := h.1
                simp [Spec.goodSeg, ha] at this
            rw [if_pos ha] at hm
            obtain ⟨out, h1, h2⟩ := ih b hc' hs ho1 hm
            refine ⟨out, ?_, ?_⟩
            · simp only [construct]; rw [if_pos hb']; exact h1
            · simp only [Spec.servesRow]; rw [if_pos hb']; exact h2
          · have hgood : Spec.goodSeg a = true ∧ Spec.goodSeg b' = true := by
              rcases hpq with h | h
              · exact absurd (by simpa using h.1) ha
              · exact h
            have hb' : ¬ (b'.isEmpty = true) := by
              have := hgood.2; simp [Spec.goodSeg] at this; simp [this.1]
            rw [if_neg ha] at hm
            split at hm
            · obtain ⟨out, h1, h2⟩ := consume b' o0 ho1 hm
              refine ⟨b' :: out, ?_, ?_⟩
              · simp only [construct]; rw [if_neg hb', push_good b hgood.2]; exact h1
              · simp only [Spec.servesRow]; rw [if_neg hb']; simp [h2]
            · simp at hm
        | splat n =>
          cases q <;> simp [Spec.compatSeg] at hpq
          refine ⟨seg :: rest, ?_, by simp [Spec.servesRow]⟩
          simp only [construct, push_good b hseg, pushAll_good _ hrest]
          simp

theorem firstMatch_none {ss : List Str} {t : Tables} {pos : Nat} (h : firstMatch ss t pos = none) :
    ∀ row ∈ t, matchSegs row ss 0 [] = none := by
  induction t generalizing pos with
  | nil => simp
  | cons r rs ih =>
    simp only [firstMatch] at h
    split at h
    · simp at h
    · rename_i hr
      intro row hrow
      simp at hrow
      rcases hrow with e | e
      · subst e; exact hr
      · exact ih h row e

/-- no match by `localize_path` means no route of the old locale serves the segments -/
theorem firstMatch_none_serves {ss : List Str} {t : Tables} (h : firstMatch ss t 0 = none) :
    t.any (fun row => Spec.servesRow row ss) = false := by
  rw [List.any_eq_false]
  intro row hrow
  have := firstMatch_none h row hrow
  rw [← matchSegs_isSome row ss 0 [], this]
  simp

theorem pairServes_get {tA tB : Tables} {k : Nat} {rowA rowB : Row} {r r' : List Str}
    (hA : tA[k]? = some rowA) (hB : tB[k]? = some rowB)
    (h1 : Spec.servesRow rowA r = true) (h2 : Spec.servesRow rowB r' = true) :
    Spec.pairServes tA tB r r' = true := by
  induction tA generalizing tB k with
  | nil => simp at hA
  | cons a as ih =>
    cases tB with
    | nil => simp at hB
    | cons b bs =>
      cases k with
      | zero =>
        simp at hA hB; subst hA; subst hB
        simp [Spec.pairServes, h1, h2]
      | succ k =>
        simp at hA hB
        simp [Spec.pairServes, ih hA hB]

/-- with route tables of the same shape: `localize_path` either finds no route — and then no route of the old
    locale serves the path — or appends segments that the same route of the new locale serves -/
theorem localizePath_serves {tA tB : Tables} (hc : Spec.compatTables tA tB = true) (path : Str) (b : PB) :
    (localizePath path tA tB b = .ok none ∧ tA.any (fun row => Spec.servesRow row (segs path)) = false) ∨
    ∃ out, localizePath path tA tB b = .ok (some (b ++ out)) ∧ Spec.pairServes tA tB (segs path) out = true := by
  simp only [localizePath]
  cases hf : firstMatch (segs path) tA 0 with
  | none => left; exact ⟨rfl, firstMatch_none_serves hf⟩
  | some po =>
    obtain ⟨p, o⟩ := po
    right
    obtain ⟨k, rowA, hk, hrow, hm⟩ := firstMatch_spec hf
    have hk' : p = k := by omega
    subst hk'
    obtain ⟨rowB, hB, hcr, _⟩ := compatTables_get hc hrow
    obtain ⟨out, h1, h2⟩ := construct_served b hcr (segs_all_good path) (by simp) hm
    refine ⟨out, by simp [hB, h1], ?_⟩
    refine pairServes_get hrow hB ?_ h2
    rw [← matchSegs_isSome rowA (segs path) 0 [], hm]; rfl

/-- `newPathname_spec` with the strong judgement on the remaining segments added -/
theorem newPathname_spec_strong (path base newName : Str) (newIsDefault : Bool) (oldName : Option Str)
    (oldT newT : Option Tables) (hnew : Spec.goodSeg newName = true) (hold : ∀ l, oldName = some l → l ≠ [])
    (hc : Spec.compatOpt oldT newT = true) (rest : Str) (hs : stripBasePath path base = some rest) :
    ∃ p r', newPathname path base newName newIsDefault oldName oldT newT = .ok p ∧
      segs p = segs base ++ (if newIsDefault then [] else [newName]) ++ r' ∧
      Spec.onlyLocalizedChanged oldT newT (restSegs oldName (segs rest)) r' = true ∧
      Spec.sameRouteServesOpt oldT newT (restSegs oldName (segs rest)) r' = true := by
  generalize hb1 : baseBuilder base newName newIsDefault = b1
  have hb1s : b1.flatMap segs = segs base ++ (if newIsDefault then [] else [newName]) := by
    subst hb1
    cases newIsDefault
    · simp [baseBuilder, flatMap_segs_push, flatMap_segs_new, segs_good hnew]
    · simp [baseBuilder, flatMap_segs_push, flatMap_segs_new]
  generalize hr1 : stripLocale rest oldName = rest1
  have hr1s : segs rest1 = restSegs oldName (segs rest) := by
    subst hr1
    cases oldName with
    | none => simp [restSegs, stripLocale]
    | some l =>
      simp only [stripLocale]
      rw [segs_rest1 rest l (hold l rfl)]
      cases segs rest <;> simp [restSegs]
  -- the path is copied: fine whenever no route of the old locale serves it
  have unloc : Spec.sameRouteServesOpt oldT newT (segs rest1) (segs rest1) = true →
      ∃ p r', Outcome.ok (PB.build (b1.push rest1)) = .ok p ∧
      segs p = segs base ++ (if newIsDefault then [] else [newName]) ++ r' ∧
      Spec.onlyLocalizedChanged oldT newT (restSegs oldName (segs rest)) r' = true ∧
      Spec.sameRouteServesOpt oldT newT (restSegs oldName (segs rest)) r' = true := fun hsame =>
    ⟨_, segs rest1, rfl, by rw [segs_build, flatMap_segs_push, hb1s],
      by rw [hr1s]; exact onlyLocalizedChanged_refl _ _ _, by rw [← hr1s]; exact hsame⟩
  simp only [newPathname, hs, hb1, hr1]
  cases oldT with
  | none => exact unloc (by simp [Spec.sameRouteServesOpt])
  | some o =>
    cases newT with
    | none => exact unloc (by simp [Spec.sameRouteServesOpt])
    | some n =>
      simp only
      have hct : Spec.compatTables o n = true := by simpa [Spec.compatOpt] using hc
      rcases localizePath_serves hct rest1 b1 with ⟨h, hno⟩ | ⟨out, h, hserv⟩
      · rw [h]
        exact unloc (by simp [Spec.sameRouteServesOpt, Spec.sameRouteServes, hno])
      · rcases localizePath_compat hct rest1 b1 with h' | ⟨out', h', hg, hrel⟩
        · rw [h] at h'; simp at h'
        · rw [h] at h'
          simp only [Outcome.ok.injEq, Option.some.injEq] at h'
          have hout : out = out' := List.append_cancel_left h'
          subst hout
          rw [h]
          refine ⟨_, out, rfl, ?_, by rw [← hr1s]; exact hrel, ?_⟩
          · rw [segs_build, List.flatMap_append, hb1s, flatMap_segs_good hg]
          · rw [← hr1s]
            simp [Spec.sameRouteServesOpt, Spec.sameRouteServes, hserv]

end I18nVerif.Router
