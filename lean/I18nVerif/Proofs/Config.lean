import I18nVerif.Spec.Config
/-
Helper lemmas for C19: `duplicates`, `defaultFirst`, the field loop of `visit_map`.
-/
namespace I18nVerif.Config
open I18nVerif I18nVerif.Config.Spec

/-! ### `duplicates` -/

theorem duplicates_eq_false_iff (l : List Str) : duplicates l = false ↔ l.Nodup := by
  induction l with
  | nil => simp [duplicates]
  | cons x xs ih =>
    simp only [duplicates, Bool.or_eq_false_iff, ih, List.nodup_cons]
    simp

theorem duplicates_eq_true_iff (l : List Str) : duplicates l = true ↔ ¬ l.Nodup := by
  rw [← duplicates_eq_false_iff]; cases duplicates l <;> simp

/-! ### `defaultFirst` -/

theorem perm_swap_head {α} (d a : α) : ∀ (tl : List α) (j : Nat), tl[j]? = some d →
    List.Perm (d :: tl.set j a) (a :: tl)
  | [], j, h => by simp at h
  | x :: xs, 0, h => by
    simp at h; subst h
    simp only [List.set_cons_zero]
    exact List.Perm.swap _ _ _
  | x :: xs, j + 1, h => by
    simp at h
    have ih := perm_swap_head d a xs j h
    simp only [List.set_cons_succ]
    exact (List.Perm.swap x d _).trans ((ih.cons x).trans (List.Perm.swap a x _))

/-- `defaultFirst` when the default is listed: a permutation of the list with the default in front -/
theorem defaultFirst_listed (d : Str) (l : List Str) (h : d ∈ l) :
    ∃ tl, defaultFirst d l = d :: tl ∧ List.Perm (d :: tl) l := by
  unfold defaultFirst
  cases hi : l.idxOf? d with
  | none =>
    rw [List.idxOf?, List.findIdx?_eq_none_iff] at hi
    have := hi d h
    simp at this
  | some i =>
    rw [List.idxOf?, List.findIdx?_eq_some_iff_getElem] at hi
    obtain ⟨hlt, hp, _⟩ := hi
    simp only [beq_iff_eq] at hp
    cases l with
    | nil => simp at hlt
    | cons first rest =>
      simp only
      cases i with
      | zero =>
        simp at hp
        subst hp
        exact ⟨rest, by simp, List.Perm.refl _⟩
      | succ j =>
        simp only [List.getElem_cons_succ] at hp
        refine ⟨rest.set j first, by simp, ?_⟩
        apply perm_swap_head
        rw [List.getElem?_eq_getElem (by simpa using hlt), hp]

/-- `defaultFirst` when the default is not listed: the default, then a permutation of the list -/
theorem defaultFirst_unlisted (d : Str) (l : List Str) (h : d ∉ l) :
    ∃ tl, defaultFirst d l = d :: tl ∧ List.Perm tl l := by
  unfold defaultFirst
  cases hi : l.idxOf? d with
  | some i =>
    rw [List.idxOf?, List.findIdx?_eq_some_iff_getElem] at hi
    obtain ⟨hlt, hp, _⟩ := hi
    simp only [beq_iff_eq] at hp
    exact absurd (hp ▸ List.getElem_mem hlt) h
  | none =>
    cases l with
    | nil => exact ⟨[], rfl, List.Perm.refl _⟩
    | cons first rest =>
      refine ⟨rest ++ [first], rfl, ?_⟩
      exact List.perm_append_comm (l₁ := rest) (l₂ := [first])

theorem defaultFirst_head (d : Str) (l : List Str) : (defaultFirst d l).head? = some d := by
  by_cases h : d ∈ l
  · obtain ⟨tl, e, _⟩ := defaultFirst_listed d l h; rw [e]; rfl
  · obtain ⟨tl, e, _⟩ := defaultFirst_unlisted d l h; rw [e]; rfl

theorem mem_defaultFirst (d : Str) (l : List Str) (x : Str) : x ∈ defaultFirst d l ↔ x ∈ l ∨ x = d := by
  by_cases h : d ∈ l
  · obtain ⟨tl, e, p⟩ := defaultFirst_listed d l h
    rw [e, p.mem_iff]
    constructor
    · exact Or.inl
    · rintro (h' | rfl)
      · exact h'
      · exact h
  · obtain ⟨tl, e, p⟩ := defaultFirst_unlisted d l h
    rw [e, List.mem_cons, p.mem_iff]
    exact Or.comm

theorem nodup_defaultFirst (d : Str) (l : List Str) : (defaultFirst d l).Nodup ↔ l.Nodup := by
  by_cases h : d ∈ l
  · obtain ⟨tl, e, p⟩ := defaultFirst_listed d l h
    rw [e]; exact p.nodup_iff
  · obtain ⟨tl, e, p⟩ := defaultFirst_unlisted d l h
    rw [e, List.nodup_cons, p.nodup_iff, p.mem_iff]
    simp [h]

/-! ### decoders: no panic, one kind of error -/

/-- a decoding outcome: a value, or the error `ConfigFileDeser`; never a panic -/
def Deser {α} : Res α → Prop
  | .ok _ => True
  | .err e => e = "ConfigFileDeser"
  | .panic _ => False

theorem asKey_deser (v : TV) : Deser (asKey v) := by
  cases v with
  | str s => simp only [asKey]; cases Key.new s <;> simp [Deser]
  | _ => simp [asKey, Deser]

theorem asKeys_go_deser : ∀ l : List TV, Deser (asKeys.go l)
  | [] => by simp [asKeys.go, Deser]
  | x :: xs => by
    have h1 := asKey_deser x
    have h2 := asKeys_go_deser xs
    rw [asKeys.go]
    cases hx : asKey x <;> cases hy : asKeys.go xs <;> simp_all [Deser]

theorem asKeys_deser (v : TV) : Deser (asKeys v) := by
  cases v with
  | arr l => exact asKeys_go_deser l
  | _ => simp [asKeys, Deser]

theorem asKeyMap_go_deser : ∀ (l : List (Str × TV)) (acc : List (Str × Str)), Deser (asKeyMap.go l acc)
  | [], acc => by simp [asKeyMap.go, Deser]
  | (k, v) :: rest, acc => by
    have h1 := asKey_deser v
    rw [asKeyMap.go]
    cases hk : Key.new k <;> cases hx : asKey v <;> simp_all [Deser]
    exact asKeyMap_go_deser rest _

theorem asKeyMap_deser (v : TV) : Deser (asKeyMap v) := by
  cases v with
  | table l => exact asKeyMap_go_deser l []
  | _ => simp [asKeyMap, Deser]

theorem asStr_deser (v : TV) : Deser (asStr v) := by
  cases v <;> simp [asStr, Deser]

/-! ### the field loop -/

/-- one step of the loop -/
theorem fields_cons (k : Str) (v : TV) (rest : List (Str × TV)) (r : Raw) :
  fields ((k, v) :: rest) r =
    if k == "default".toList then
      if r.default.isSome then .err "ConfigFileDeser" else
      match asKey v with
      | .ok x => fields rest { r with default := some x }
      | .err e => .err e
      | .panic p => .panic p
    else if k == "locales".toList then
      if r.locales.isSome then .err "ConfigFileDeser" else
      match asKeys v with
      | .ok x => fields rest { r with locales := some x }
      | .err e => .err e
      | .panic p => .panic p
    else if k == "namespaces".toList then
      if r.namespaces.isSome then .err "ConfigFileDeser" else
      match asKeys v with
      | .ok x => fields rest { r with namespaces := some x }
      | .err e => .err e
      | .panic p => .panic p
    else if k == "locales-dir".toList then
      if r.localesDir.isSome then .err "ConfigFileDeser" else
      match asStr v with
      | .ok s => fields rest { r with localesDir := some s }
      | .err e => .err e
      | .panic p => .panic p
    else if k == "translations-path".toList then
      if r.translationsUri.isSome then .err "ConfigFileDeser" else
      match asStr v with
      | .ok s => fields rest { r with translationsUri := some s }
      | .err e => .err e
      | .panic p => .panic p
    else if k == "inherits".toList then
      if r.inherits.isSome then .err "ConfigFileDeser" else
      match asKeyMap v with
      | .ok x => fields rest { r with inherits := some x }
      | .err e => .err e
      | .panic p => .panic p
    else fields rest r := by
  rw [fields.eq_def]
  cases v <;> rfl

theorem fields_default (v : TV) (rest : List (Str × TV)) (r : Raw) :
    fields (("default".toList, v) :: rest) r =
      if r.default.isSome then .err "ConfigFileDeser" else
      match asKey v with
      | .ok x => fields rest { r with default := some x }
      | .err e => .err e
      | .panic p => .panic p := by
  rw [fields_cons, if_pos (by decide)]

theorem fields_locales (v : TV) (rest : List (Str × TV)) (r : Raw) :
    fields (("locales".toList, v) :: rest) r =
      if r.locales.isSome then .err "ConfigFileDeser" else
      match asKeys v with
      | .ok x => fields rest { r with locales := some x }
      | .err e => .err e
      | .panic p => .panic p := by
  rw [fields_cons, if_neg (by decide), if_pos (by decide)]

theorem fields_namespaces (v : TV) (rest : List (Str × TV)) (r : Raw) :
    fields (("namespaces".toList, v) :: rest) r =
      if r.namespaces.isSome then .err "ConfigFileDeser" else
      match asKeys v with
      | .ok x => fields rest { r with namespaces := some x }
      | .err e => .err e
      | .panic p => .panic p := by
  rw [fields_cons, if_neg (by decide), if_neg (by decide), if_pos (by decide)]

theorem fields_localesDir (v : TV) (rest : List (Str × TV)) (r : Raw) :
    fields (("locales-dir".toList, v) :: rest) r =
      if r.localesDir.isSome then .err "ConfigFileDeser" else
      match asStr v with
      | .ok x => fields rest { r with localesDir := some x }
      | .err e => .err e
      | .panic p => .panic p := by
  rw [fields_cons, if_neg (by decide), if_neg (by decide), if_neg (by decide), if_pos (by decide)]

theorem fields_translationsPath (v : TV) (rest : List (Str × TV)) (r : Raw) :
    fields (("translations-path".toList, v) :: rest) r =
      if r.translationsUri.isSome then .err "ConfigFileDeser" else
      match asStr v with
      | .ok x => fields rest { r with translationsUri := some x }
      | .err e => .err e
      | .panic p => .panic p := by
  rw [fields_cons, if_neg (by decide), if_neg (by decide), if_neg (by decide), if_neg (by decide), if_pos (by decide)]

theorem fields_inherits (v : TV) (rest : List (Str × TV)) (r : Raw) :
    fields (("inherits".toList, v) :: rest) r =
      if r.inherits.isSome then .err "ConfigFileDeser" else
      match asKeyMap v with
      | .ok x => fields rest { r with inherits := some x }
      | .err e => .err e
      | .panic p => .panic p := by
  rw [fields_cons, if_neg (by decide), if_neg (by decide), if_neg (by decide), if_neg (by decide), if_neg (by decide), if_pos (by decide)]

theorem fields_unknown (k : Str) (v : TV) (rest : List (Str × TV)) (r : Raw) (h : k ∉ knownFields) :
    fields ((k, v) :: rest) r = fields rest r := by
  simp only [knownFields, List.mem_cons, List.not_mem_nil, or_false, not_or] at h
  obtain ⟨h1, h2, h3, h4, h5, h6⟩ := h
  rw [fields_cons, if_neg (by simpa using h1), if_neg (by simpa using h2), if_neg (by simpa using h3),
    if_neg (by simpa using h4), if_neg (by simpa using h5), if_neg (by simpa using h6)]

theorem known_cases (k : Str) :
    k = "default".toList ∨ k = "locales".toList ∨ k = "namespaces".toList ∨ k = "locales-dir".toList ∨
    k = "translations-path".toList ∨ k = "inherits".toList ∨ k ∉ knownFields := by
  by_cases h : k ∈ knownFields
  · simp only [knownFields, List.mem_cons, List.not_mem_nil, or_false] at h
    rcases h with h | h | h | h | h | h <;> simp [h]
  · simp [h]

theorem fields_deser : ∀ (table : List (Str × TV)) (r : Raw), Deser (fields table r)
  | [], r => by simp [fields, Deser]
  | (k, v) :: rest, r => by
    rcases known_cases k with rfl | rfl | rfl | rfl | rfl | rfl | h
    · rw [fields_default]
      have := asKey_deser v
      split
      · simp [Deser]
      · cases hx : asKey v <;> simp_all [Deser]
        exact fields_deser rest _
    · rw [fields_locales]
      have := asKeys_deser v
      split
      · simp [Deser]
      · cases hx : asKeys v <;> simp_all [Deser]
        exact fields_deser rest _
    · rw [fields_namespaces]
      have := asKeys_deser v
      split
      · simp [Deser]
      · cases hx : asKeys v <;> simp_all [Deser]
        exact fields_deser rest _
    · rw [fields_localesDir]
      have := asStr_deser v
      split
      · simp [Deser]
      · cases hx : asStr v <;> simp_all [Deser]
        exact fields_deser rest _
    · rw [fields_translationsPath]
      have := asStr_deser v
      split
      · simp [Deser]
      · cases hx : asStr v <;> simp_all [Deser]
        exact fields_deser rest _
    · rw [fields_inherits]
      have := asKeyMap_deser v
      split
      · simp [Deser]
      · cases hx : asKeyMap v <;> simp_all [Deser]
        exact fields_deser rest _
    · rw [fields_unknown k v rest r h]
      exact fields_deser rest r

/-! ### what the loop stores in each field -/

/-- field `name` after the loop: unchanged when the table has no such entry; otherwise it was
    unset before and now holds the decoded value of the entry -/
def FieldOK {α} (table : List (Str × TV)) (name : Str) (decode : TV → Res α) (f0 f : Option α) : Prop :=
  match lookup table name with
  | none => f = f0
  | some v => f0 = none ∧ ∃ x, decode v = .ok x ∧ f = some x

theorem lookup_cons_ne {k name : Str} (v : TV) (rest : List (Str × TV)) (h : k ≠ name) :
    lookup ((k, v) :: rest) name = lookup rest name := by
  simp [lookup, h]

theorem lookup_cons_eq (name : Str) (v : TV) (rest : List (Str × TV)) :
    lookup ((name, v) :: rest) name = some v := by
  simp [lookup]

theorem FieldOK.skip {α} {k name : Str} {v : TV} {rest : List (Str × TV)} {decode : TV → Res α} {f0 f : Option α}
    (h : k ≠ name) (hr : FieldOK rest name decode f0 f) : FieldOK ((k, v) :: rest) name decode f0 f := by
  unfold FieldOK at *
  rw [lookup_cons_ne v rest h]; exact hr

theorem FieldOK.hit {α} {name : Str} {v : TV} {rest : List (Str × TV)} {decode : TV → Res α} {f0 f : Option α} {x : α}
    (h0 : f0 = none) (hd : decode v = .ok x) (hr : FieldOK rest name decode (some x) f) :
    FieldOK ((name, v) :: rest) name decode f0 f := by
  unfold FieldOK at *
  rw [lookup_cons_eq]
  refine ⟨h0, x, hd, ?_⟩
  cases hl : lookup rest name with
  | none => rw [hl] at hr; exact hr
  | some v' => rw [hl] at hr; exact absurd hr.1 (by simp)

structure FieldsOK (table : List (Str × TV)) (r0 r : Raw) : Prop where
  default : FieldOK table "default".toList asKey r0.default r.default
  locales : FieldOK table "locales".toList asKeys r0.locales r.locales
  namespaces : FieldOK table "namespaces".toList asKeys r0.namespaces r.namespaces
  localesDir : FieldOK table "locales-dir".toList asStr r0.localesDir r.localesDir
  translationsUri : FieldOK table "translations-path".toList asStr r0.translationsUri r.translationsUri
  inherits : FieldOK table "inherits".toList asKeyMap r0.inherits r.inherits

theorem isSome_false_eq_none {α} {o : Option α} (h : ¬ o.isSome = true) : o = none := by
  cases o <;> simp_all

theorem fields_ok : ∀ (table : List (Str × TV)) (r0 r : Raw), fields table r0 = .ok r → FieldsOK table r0 r
  | [], r0, r, h => by
    simp only [fields, Res.ok.injEq] at h; subst h
    constructor <;> simp [FieldOK, lookup]
  | (k, v) :: rest, r0, r, h => by
    rcases known_cases k with rfl | rfl | rfl | rfl | rfl | rfl | hk
    · rw [fields_default] at h
      split at h
      · cases h
      · rename_i h0
        cases hx : asKey v with
        | ok x =>
          rw [hx] at h
          have ih := fields_ok rest _ r h
          exact ⟨.hit (isSome_false_eq_none h0) hx ih.default, .skip (by decide) ih.locales,
            .skip (by decide) ih.namespaces, .skip (by decide) ih.localesDir,
            .skip (by decide) ih.translationsUri, .skip (by decide) ih.inherits⟩
        | err e => rw [hx] at h; cases h
        | panic p => rw [hx] at h; cases h
    · rw [fields_locales] at h
      split at h
      · cases h
      · rename_i h0
        cases hx : asKeys v with
        | ok x =>
          rw [hx] at h
          have ih := fields_ok rest _ r h
          exact ⟨.skip (by decide) ih.default, .hit (isSome_false_eq_none h0) hx ih.locales,
            .skip (by decide) ih.namespaces, .skip (by decide) ih.localesDir,
            .skip (by decide) ih.translationsUri, .skip (by decide) ih.inherits⟩
        | err e => rw [hx] at h; cases h
        | panic p => rw [hx] at h; cases h
    · rw [fields_namespaces] at h
      split at h
      · cases h
      · rename_i h0
        cases hx : asKeys v with
        | ok x =>
          rw [hx] at h
          have ih := fields_ok rest _ r h
          exact ⟨.skip (by decide) ih.default, .skip (by decide) ih.locales,
            .hit (isSome_false_eq_none h0) hx ih.namespaces, .skip (by decide) ih.localesDir,
            .skip (by decide) ih.translationsUri, .skip (by decide) ih.inherits⟩
        | err e => rw [hx] at h; cases h
        | panic p => rw [hx] at h; cases h
    · rw [fields_localesDir] at h
      split at h
      · cases h
      · rename_i h0
        cases hx : asStr v with
        | ok x =>
          rw [hx] at h
          have ih := fields_ok rest _ r h
          exact ⟨.skip (by decide) ih.default, .skip (by decide) ih.locales,
            .skip (by decide) ih.namespaces, .hit (isSome_false_eq_none h0) hx ih.localesDir,
            .skip (by decide) ih.translationsUri, .skip (by decide) ih.inherits⟩
        | err e => rw [hx] at h; cases h
        | panic p => rw [hx] at h; cases h
    · rw [fields_translationsPath] at h
      split at h
      · cases h
      · rename_i h0
        cases hx : asStr v with
        | ok x =>
          rw [hx] at h
          have ih := fields_ok rest _ r h
          exact ⟨.skip (by decide) ih.default, .skip (by decide) ih.locales,
            .skip (by decide) ih.namespaces, .skip (by decide) ih.localesDir,
            .hit (isSome_false_eq_none h0) hx ih.translationsUri, .skip (by decide) ih.inherits⟩
        | err e => rw [hx] at h; cases h
        | panic p => rw [hx] at h; cases h
    · rw [fields_inherits] at h
      split at h
      · cases h
      · rename_i h0
        cases hx : asKeyMap v with
        | ok x =>
          rw [hx] at h
          have ih := fields_ok rest _ r h
          exact ⟨.skip (by decide) ih.default, .skip (by decide) ih.locales,
            .skip (by decide) ih.namespaces, .skip (by decide) ih.localesDir,
            .skip (by decide) ih.translationsUri, .hit (isSome_false_eq_none h0) hx ih.inherits⟩
        | err e => rw [hx] at h; cases h
        | panic p => rw [hx] at h; cases h
    · rw [fields_unknown k v rest r0 hk] at h
      have ih := fields_ok rest _ r h
      simp only [knownFields, List.mem_cons, List.not_mem_nil, or_false, not_or] at hk
      obtain ⟨h1, h2, h3, h4, h5, h6⟩ := hk
      exact ⟨.skip h1 ih.default, .skip h2 ih.locales, .skip h3 ih.namespaces, .skip h4 ih.localesDir,
        .skip h5 ih.translationsUri, .skip h6 ih.inherits⟩

theorem FieldOK.declared {α} {table : List (Str × TV)} {name : Str} {decode : TV → Res α} {f : Option α}
    (h : FieldOK table name decode none f) : f = Spec.declared table name decode := by
  unfold FieldOK at h
  unfold Spec.declared
  cases hl : lookup table name with
  | none => rw [hl] at h; exact h
  | some v =>
    rw [hl] at h
    obtain ⟨_, x, hx, hf⟩ := h
    simp only [hx, hf]

/-! ### `ConfigFile::new`, case by case -/

theorem contains_iff {α} (k : Str) (m : List (Str × α)) : AMap.contains k m = true ↔ ∃ v, (k, v) ∈ m := by
  induction m with
  | nil => simp [AMap.contains, AMap.get?]
  | cons p rest ih =>
    obtain ⟨k', v'⟩ := p
    simp only [AMap.contains, AMap.get?] at ih ⊢
    by_cases h : k' = k
    · subst h; simp
    · have h' : ¬ k = k' := fun e => h e.symm
      simp only [beq_iff_eq, h, if_false, ih, List.mem_cons, Prod.mk.injEq, h', false_and, false_or]

/-- the outcome of `ConfigFile::new` once the field loop has succeeded with both required fields -/
theorem new_of_fields {table : List (Str × TV)} {r : Raw} {d : Str} {listed : List Str}
    (hf : fields table {} = .ok r) (hd : r.default = some d) (hl : r.locales = some listed) :
    Config.new table =
      if (r.inherits.getD []).any (fun (k, v) => !(listed.contains k || k == d) || !(listed.contains v || v == d))
        then .err "ConfigFileDeser"
      else if AMap.contains d (r.inherits.getD []) then .err "ConfigFileDeser"
      else if duplicates (defaultFirst d listed) then .err "DuplicateLocalesInConfig"
      else if (r.namespaces.map duplicates).getD false then .err "DuplicateNamespacesInConfig"
      else .ok { default := d, locales := defaultFirst d listed, namespaces := r.namespaces,
                 localesDir := r.localesDir.getD "locales".toList, inherits := r.inherits.getD [] } := by
  simp only [Config.new, hf, hd, hl]

theorem new_missing_default {table : List (Str × TV)} {r : Raw}
    (hf : fields table {} = .ok r) (hd : r.default = none) : Config.new table = .err "ConfigFileDeser" := by
  simp only [Config.new, hf, hd]

theorem new_missing_locales {table : List (Str × TV)} {r : Raw}
    (hf : fields table {} = .ok r) (hl : r.locales = none) : Config.new table = .err "ConfigFileDeser" := by
  simp only [Config.new, hf, hl]
  cases r.default <;> rfl


/-- everything an accepted configuration tells about the table -/
theorem new_ok {table : List (Str × TV)} {c : Config} (h : Config.new table = .ok c) :
    ∃ r d listed, fields table {} = .ok r ∧ r.default = some d ∧ r.locales = some listed ∧
      (r.inherits.getD []).any (fun (k, v) => !(listed.contains k || k == d) || !(listed.contains v || v == d)) = false ∧
      AMap.contains d (r.inherits.getD []) = false ∧
      duplicates (defaultFirst d listed) = false ∧
      (r.namespaces.map duplicates).getD false = false ∧
      c = { default := d, locales := defaultFirst d listed, namespaces := r.namespaces,
            localesDir := r.localesDir.getD "locales".toList, inherits := r.inherits.getD [] } := by
  cases hf : fields table {} with
  | err e => simp [Config.new, hf] at h
  | panic p => simp [Config.new, hf] at h
  | ok r =>
    cases hd : r.default with
    | none => rw [new_missing_default hf hd] at h; cases h
    | some d =>
      cases hl : r.locales with
      | none => rw [new_missing_locales hf hl] at h; cases h
      | some listed =>
        rw [new_of_fields hf hd hl] at h
        split at h; · cases h
        rename_i h1
        split at h; · cases h
        rename_i h2
        split at h; · cases h
        rename_i h3
        split at h; · cases h
        rename_i h4
        simp only [Res.ok.injEq] at h
        exact ⟨r, d, listed, rfl, hd, hl, by simpa using h1, by simpa using h2, by simpa using h3,
          by simpa using h4, h.symm⟩

/-- a failing field loop makes `ConfigFile::new` fail with `ConfigFileDeser` -/
theorem new_of_fields_not_ok {table : List (Str × TV)} (h : ∀ r, fields table {} ≠ .ok r) :
    Config.new table = .err "ConfigFileDeser" := by
  have hd := fields_deser table {}
  cases hf : fields table {} with
  | ok r => exact absurd hf (h r)
  | err e => rw [hf] at hd; simp only [Deser] at hd; subst hd; simp [Config.new, hf]
  | panic p => rw [hf] at hd; exact absurd hd (by simp [Deser])

end I18nVerif.Config
