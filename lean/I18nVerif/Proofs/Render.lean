import I18nVerif.Spec.Render
import I18nVerif.Spec.Solid
import I18nVerif.Spec.Codegen
import I18nVerif.Spec.Tables
import I18nVerif.Proofs.Index
import I18nVerif.Proofs.Merge
import I18nVerif.Proofs.DatakeyAll
import I18nVerif.Proofs.TablesGlue
import I18nVerif.Proofs.CheckGlue
/-!
Helper lemmas for the end-to-end rendering theorem (`Theorems/C01EndToEnd.lean`).

1. value level: what `index_strings` + a successful `get_keys_inner` establish (`AllIdx`), what
   `index_strings` keeps (`renderable`, `FKFree`), `Solid ∧ Reduced ⇒ renderable`,
   `FKFree ∧ Full ⇒ indexed`;
2. storage: where `check_locales` stores the value a locale holds for an accessible key
   (`storedAt`), through `makeBuilderKeys`, `mergeLocale`, the loop and `propagate`.
-/
namespace I18nVerif.Render
open I18nVerif Check Codegen PipeInv Reduce

/-! ## 1. value level -/

/-- every string literal (at the positions `index_strings` visits) carries an index -/
def AllIdx (v : PV) : Prop := ∀ s oi, (s, oi) ∈ strLits v → oi.isSome = true

theorem full_of_valid_allIdx {tbl : List Str} {lits : List (Str × Option Nat)} (hv : Valid tbl lits)
    (ha : ∀ s oi, (s, oi) ∈ lits → oi.isSome = true) : Full tbl lits := by
  intro s oi hm
  have := ha s oi hm
  cases oi with
  | none => simp at this
  | some i => exact ⟨i, rfl, hv s i hm⟩

/-! ### `FKFree ∧ Full ⇒ indexed` -/

theorem full_left {t : List Str} {l1 l2} (h : Full t (l1 ++ l2)) : Full t l1 :=
  fun s oi hm => h s oi (List.mem_append_left _ hm)
theorem full_right {t : List Str} {l1 l2} (h : Full t (l1 ++ l2)) : Full t l2 :=
  fun s oi hm => h s oi (List.mem_append_right _ hm)

mutual
theorem indexed_of_full (tbl : List Str) : ∀ v : PV, FKFree v = true → Full tbl (strLits v) → indexed tbl v = true
  | .lit (.str s oi), _, hf => by
    obtain ⟨i, rfl, hi⟩ := hf s oi (by simp [strLits])
    simp [indexed, hi]
  | .lit (.signed _), _, _ => rfl
  | .lit (.unsigned _), _, _ => rfl
  | .lit (.float _), _, _ => rfl
  | .lit (.bool _), _, _ => rfl
  | .var _ _, _, _ => rfl
  | .dflt, _, _ => rfl
  | .subkeys _, _, _ => rfl
  | .fk _, h, _ => by simp [FKFree] at h
  | .comp _ inner, h, hf => by
    simp only [FKFree] at h
    simp only [strLits] at hf
    simp only [indexed]
    exact indexed_of_full tbl inner h hf
  | .bloc items, h, hf => by
    simp only [FKFree] at h
    simp only [strLits] at hf
    simp only [indexed]
    exact indexedL_of_full tbl items h hf
  | .ranges _ _ bs, h, hf => by
    simp only [FKFree] at h
    simp only [strLits] at hf
    simp only [indexed]
    exact indexedB_of_full tbl bs h hf
  | .plurals _ _ other forms, h, hf => by
    simp only [FKFree, Bool.and_eq_true] at h
    simp only [strLits] at hf
    simp only [indexed, Bool.and_eq_true]
    exact ⟨indexed_of_full tbl other h.1 (full_right hf), indexedF_of_full tbl forms h.2 (full_left hf)⟩
theorem indexedL_of_full (tbl : List Str) : ∀ l : List PV, FKFreeL l = true → Full tbl (strLitsL l) → indexedL tbl l = true
  | [], _, _ => rfl
  | x :: xs, h, hf => by
    simp only [FKFreeL, Bool.and_eq_true] at h
    simp only [strLitsL] at hf
    simp only [indexedL, Bool.and_eq_true]
    exact ⟨indexed_of_full tbl x h.1 (full_left hf), indexedL_of_full tbl xs h.2 (full_right hf)⟩
theorem indexedB_of_full (tbl : List Str) : ∀ l : List (Range × PV), FKFreeB l = true → Full tbl (strLitsB l) →
    indexedB tbl l = true
  | [], _, _ => rfl
  | (_, x) :: xs, h, hf => by
    simp only [FKFreeB, Bool.and_eq_true] at h
    simp only [strLitsB] at hf
    simp only [indexedB, Bool.and_eq_true]
    exact ⟨indexed_of_full tbl x h.1 (full_left hf), indexedB_of_full tbl xs h.2 (full_right hf)⟩
theorem indexedF_of_full (tbl : List Str) : ∀ l : List (Form × PV), FKFreeF l = true → Full tbl (strLitsF l) →
    indexedF tbl l = true
  | [], _, _ => rfl
  | (_, x) :: xs, h, hf => by
    simp only [FKFreeF, Bool.and_eq_true] at h
    simp only [strLitsF] at hf
    simp only [indexedF, Bool.and_eq_true]
    exact ⟨indexed_of_full tbl x h.1 (full_left hf), indexedF_of_full tbl xs h.2 (full_right hf)⟩
end

/-! ### `Reduced ⇒ FKFree`, `Solid ∧ Reduced ⇒ renderable` -/

mutual
theorem fkFree_of_reduced : ∀ v : PV, Reduced v = true → FKFree v = true
  | .lit _, _ => rfl
  | .var _ _, _ => rfl
  | .dflt, _ => rfl
  | .subkeys _, _ => rfl
  | .fk _, h => by simp [Reduced] at h
  | .comp _ i, h => by simp only [Reduced] at h; simp only [FKFree]; exact fkFree_of_reduced i h
  | .bloc l, h => by
    simp only [Reduced, Bool.and_eq_true] at h
    simp only [FKFree]; exact fkFreeL_of_reduced l h.2
  | .ranges _ _ bs, h => by simp only [Reduced] at h; simp only [FKFree]; exact fkFreeB_of_reduced bs h
  | .plurals _ _ o fs, h => by
    simp only [Reduced, Bool.and_eq_true] at h
    simp only [FKFree, Bool.and_eq_true]
    exact ⟨fkFree_of_reduced o h.1, fkFreeF_of_reduced fs h.2⟩
theorem fkFreeL_of_reduced : ∀ l : List PV, ReducedL l = true → FKFreeL l = true
  | [], _ => rfl
  | x :: xs, h => by
    simp only [ReducedL, Bool.and_eq_true] at h
    simp only [FKFreeL, Bool.and_eq_true]
    exact ⟨fkFree_of_reduced x h.1, fkFreeL_of_reduced xs h.2⟩
theorem fkFreeB_of_reduced : ∀ l : List (Range × PV), ReducedB l = true → FKFreeB l = true
  | [], _ => rfl
  | (_, x) :: xs, h => by
    simp only [ReducedB, Bool.and_eq_true] at h
    simp only [FKFreeB, Bool.and_eq_true]
    exact ⟨fkFree_of_reduced x h.1, fkFreeB_of_reduced xs h.2⟩
theorem fkFreeF_of_reduced : ∀ l : List (Form × PV), ReducedF l = true → FKFreeF l = true
  | [], _ => rfl
  | (_, x) :: xs, h => by
    simp only [ReducedF, Bool.and_eq_true] at h
    simp only [FKFreeF, Bool.and_eq_true]
    exact ⟨fkFree_of_reduced x h.1, fkFreeF_of_reduced xs h.2⟩
end

mutual
theorem renderable_of_solid : ∀ v : PV, Solid v = true → FKFree v = true → renderable v = true
  | .lit _, _, _ => rfl
  | .var _ _, _, _ => rfl
  | .dflt, h, _ => by simp [Solid] at h
  | .subkeys _, h, _ => by simp [Solid] at h
  | .fk _, _, h => by simp [FKFree] at h
  | .comp _ i, h, hf => by
    simp only [Solid] at h; simp only [FKFree] at hf; simp only [renderable]
    exact renderable_of_solid i h hf
  | .bloc l, h, hf => by
    simp only [Solid] at h; simp only [FKFree] at hf; simp only [renderable]
    exact renderableL_of_solid l h hf
  | .ranges _ _ bs, h, hf => by
    simp only [Solid, Bool.and_eq_true] at h; simp only [FKFree] at hf
    simp only [renderable, Bool.and_eq_true]
    exact ⟨h.1, renderableB_of_solid bs h.2 hf⟩
  | .plurals _ _ o fs, h, hf => by
    simp only [Solid, Bool.and_eq_true] at h; simp only [FKFree, Bool.and_eq_true] at hf
    simp only [renderable, Bool.and_eq_true]
    exact ⟨renderable_of_solid o h.1 hf.1, renderableF_of_solid fs h.2 hf.2⟩
theorem renderableL_of_solid : ∀ l : List PV, SolidL l = true → FKFreeL l = true → renderableL l = true
  | [], _, _ => rfl
  | x :: xs, h, hf => by
    simp only [SolidL, Bool.and_eq_true] at h; simp only [FKFreeL, Bool.and_eq_true] at hf
    simp only [renderableL, Bool.and_eq_true]
    exact ⟨renderable_of_solid x h.1 hf.1, renderableL_of_solid xs h.2 hf.2⟩
theorem renderableB_of_solid : ∀ l : List (Range × PV), SolidB l = true → FKFreeB l = true → renderableB l = true
  | [], _, _ => rfl
  | (_, x) :: xs, h, hf => by
    simp only [SolidB, Bool.and_eq_true] at h; simp only [FKFreeB, Bool.and_eq_true] at hf
    simp only [renderableB, Bool.and_eq_true]
    exact ⟨renderable_of_solid x h.1 hf.1, renderableB_of_solid xs h.2 hf.2⟩
theorem renderableF_of_solid : ∀ l : List (Form × PV), SolidF l = true → FKFreeF l = true → renderableF l = true
  | [], _, _ => rfl
  | (_, x) :: xs, h, hf => by
    simp only [SolidF, Bool.and_eq_true] at h; simp only [FKFreeF, Bool.and_eq_true] at hf
    simp only [renderableF, Bool.and_eq_true]
    exact ⟨renderable_of_solid x h.1 hf.1, renderableF_of_solid xs h.2 hf.2⟩
end

/-! ### `index_strings` keeps `renderable` and `FKFree` -/

section
variable (f : PV → List Str → PV × List Str)
  (hf : ∀ v acc, renderable (f v acc).1 = renderable v)
include hf

theorem indexL_renderable : ∀ (items : List PV) (acc : List Str),
    renderableL (indexL f items acc).1 = renderableL items
  | [], acc => by simp [indexL]
  | x :: xs, acc => by simp only [indexL, renderableL, hf, indexL_renderable xs]

theorem indexP_renderableB : ∀ (items : List (Range × PV)) (acc : List Str),
    renderableB (indexP f items acc).1 = renderableB items
  | [], acc => by simp [indexP]
  | (k, x) :: xs, acc => by simp only [indexP, renderableB, hf, indexP_renderableB xs]

theorem indexP_renderableF : ∀ (items : List (Form × PV)) (acc : List Str),
    renderableF (indexP f items acc).1 = renderableF items
  | [], acc => by simp [indexP]
  | (k, x) :: xs, acc => by simp only [indexP, renderableF, hf, indexP_renderableF xs]
end

theorem indexP_isEmpty {κ : Type} (f : PV → List Str → PV × List Str) (items : List (κ × PV)) (acc : List Str) :
    (indexP f items acc).1.isEmpty = items.isEmpty := by
  cases items with
  | nil => rfl
  | cons e xs => obtain ⟨k, x⟩ := e; rfl

theorem indexStrings_renderable : ∀ (fuel : Nat) (v : PV) (acc : List Str),
    renderable (indexStrings fuel v acc).1 = renderable v
  | 0, v, acc => by simp only [indexStrings]
  | fuel + 1, v, acc => by
    rw [indexStrings_succ]
    have ih := indexStrings_renderable fuel
    cases v with
    | lit l => cases l <;> simp [renderable]
    | comp k inner => simp only [renderable, ih]
    | bloc items => simp only [renderable, indexL_renderable _ ih]
    | ranges ck t bs => simp only [renderable, indexP_renderableB _ ih, indexP_isEmpty]
    | plurals r ck other forms => simp only [renderable, indexP_renderableF _ ih, ih]
    | _ => rfl

section
variable (f : PV → List Str → PV × List Str)
  (hf : ∀ v acc, FKFree (f v acc).1 = FKFree v)
include hf

theorem indexL_fkFree : ∀ (items : List PV) (acc : List Str), FKFreeL (indexL f items acc).1 = FKFreeL items
  | [], acc => by simp [indexL]
  | x :: xs, acc => by simp only [indexL, FKFreeL, hf, indexL_fkFree xs]

theorem indexP_fkFreeB : ∀ (items : List (Range × PV)) (acc : List Str),
    FKFreeB (indexP f items acc).1 = FKFreeB items
  | [], acc => by simp [indexP]
  | (k, x) :: xs, acc => by simp only [indexP, FKFreeB, hf, indexP_fkFreeB xs]

theorem indexP_fkFreeF : ∀ (items : List (Form × PV)) (acc : List Str),
    FKFreeF (indexP f items acc).1 = FKFreeF items
  | [], acc => by simp [indexP]
  | (k, x) :: xs, acc => by simp only [indexP, FKFreeF, hf, indexP_fkFreeF xs]
end

theorem indexStrings_fkFree : ∀ (fuel : Nat) (v : PV) (acc : List Str),
    FKFree (indexStrings fuel v acc).1 = FKFree v
  | 0, v, acc => by simp only [indexStrings]
  | fuel + 1, v, acc => by
    rw [indexStrings_succ]
    have ih := indexStrings_fkFree fuel
    cases v with
    | lit l => cases l <;> simp [FKFree]
    | comp k inner => simp only [FKFree, ih]
    | bloc items => simp only [FKFree, indexL_fkFree _ ih]
    | ranges ck t bs => simp only [FKFree, indexP_fkFreeB _ ih]
    | plurals r ck other forms => simp only [FKFree, indexP_fkFreeF _ ih, ih]
    | _ => rfl

/-! ### a successful `get_keys_inner` on an indexed value: every literal got its index

`get_keys_inner` and `index_strings` descend in the same way with the same fuel; where
`get_keys_inner` succeeds it did not run out of fuel, so `index_strings` did not either. -/

theorem strLitsB_eq : ∀ bs : List (Range × PV), strLitsB bs = strLitsL (bs.map (·.2))
  | [] => rfl
  | (_, x) :: xs => by simp only [strLitsB, List.map_cons, strLitsL, strLitsB_eq xs]
theorem strLitsF_eq : ∀ bs : List (Form × PV), strLitsF bs = strLitsL (bs.map (·.2))
  | [] => rfl
  | (_, x) :: xs => by simp only [strLitsF, List.map_cons, strLitsL, strLitsF_eq xs]

theorem indexP_map_snd {κ : Type} (f : PV → List Str → PV × List Str) : ∀ (items : List (κ × PV)) (acc : List Str),
    (indexP f items acc).1.map (·.2) = (indexL f (items.map (·.2)) acc).1
      ∧ (indexP f items acc).2 = (indexL f (items.map (·.2)) acc).2
  | [], acc => by simp [indexP, indexL]
  | (k, x) :: xs, acc => by
    simp only [indexP, List.map_cons, indexL]
    exact ⟨by rw [(indexP_map_snd f xs _).1], (indexP_map_snd f xs _).2⟩

theorem goL_allIdx (fuel : Nat)
    (ih : ∀ v acc k b r, getKeysInner fuel (indexStrings fuel v acc).1 k b = .ok r →
      AllIdx (indexStrings fuel v acc).1) :
    ∀ (items : List PV) (acc : List Str) k r,
      getKeysInner.goL fuel (indexL (indexStrings fuel) items acc).1 k = .ok r →
      ∀ s oi, (s, oi) ∈ strLitsL (indexL (indexStrings fuel) items acc).1 → oi.isSome = true
  | [], acc, k, r, _, s, oi, hm => by simp [indexL, strLitsL] at hm
  | x :: xs, acc, k, r, h, s, oi, hm => by
    simp only [indexL] at h hm
    rw [getKeysInner.goL] at h
    simp only [strLitsL, List.mem_append] at hm
    cases hx : getKeysInner fuel (indexStrings fuel x acc).1 k false with
    | ok k1 =>
      rw [hx] at h
      rcases hm with hm | hm
      · exact ih x acc k false k1 hx s oi hm
      · exact goL_allIdx fuel ih xs _ k1 r h s oi hm
    | err e => rw [hx] at h; cases h
    | panic p => rw [hx] at h; cases h

theorem gki_allIdx : ∀ (fuel : Nat) (v : PV) (acc : List Str) (k : IOL) (b : Bool) (r : IOL),
    getKeysInner fuel (indexStrings fuel v acc).1 k b = .ok r → AllIdx (indexStrings fuel v acc).1 := by
  intro fuel
  induction fuel with
  | zero => intro v acc k b r h; rw [getKeysInner] at h; cases h
  | succ fuel ih =>
    intro v acc k b r h
    have ihL := goL_allIdx fuel ih
    rw [indexStrings_succ] at h ⊢
    cases v with
    | lit l =>
      cases l with
      | str t i => intro s oi hm; simp [strLits] at hm; simp [hm.2]
      | _ => intro s oi hm; simp [strLits] at hm
    | var key f => intro s oi hm; simp [strLits] at hm
    | dflt => intro s oi hm; simp [strLits] at hm
    | subkeys l => intro s oi hm; simp [strLits] at hm
    | fk f => intro s oi hm; simp [strLits] at hm
    | comp key inner =>
      simp only at h ⊢
      rw [getKeysInner] at h
      intro s oi hm
      simp only [strLits] at hm
      exact ih inner acc _ _ r h s oi hm
    | bloc items =>
      simp only at h ⊢
      rw [getKeysInner] at h
      intro s oi hm
      simp only [strLits] at hm
      exact ihL items acc k r h s oi hm
    | ranges ck t bs =>
      simp only at h ⊢
      rw [getKeysInner] at h
      intro s oi hm
      simp only [strLits, strLitsB_eq, (indexP_map_snd _ bs acc).1] at hm
      rw [(indexP_map_snd _ bs acc).1] at h
      cases hx : getKeysInner.goL fuel (indexL (indexStrings fuel) (bs.map (·.2)) acc).1 k with
      | ok k1 => exact ihL _ acc k k1 hx s oi hm
      | err e => rw [hx] at h; cases h
      | panic p => rw [hx] at h; cases h
    | plurals rule ck other forms =>
      simp only at h ⊢
      rw [getKeysInner] at h
      intro s oi hm
      simp only [strLits, List.mem_append, strLitsF_eq, (indexP_map_snd _ forms acc).1] at hm
      rw [(indexP_map_snd _ forms acc).1] at h
      cases hc : pushCount k.keysMut .plural ck with
      | err e => rw [hc] at h; cases h
      | panic p => rw [hc] at h; cases h
      | ok K =>
        rw [hc] at h
        simp only at h
        cases hx : getKeysInner.goL fuel (indexL (indexStrings fuel) (forms.map (·.2)) acc).1 (.interpol K) with
        | err e => rw [hx] at h; cases h
        | panic p => rw [hx] at h; cases h
        | ok k1 =>
          rw [hx] at h
          simp only at h
          rcases hm with hm | hm
          · exact ihL _ acc _ k1 hx s oi hm
          · exact ih other _ k1 false r h s oi hm

/-! ## 2. where `check_locales` stores the values -/

open Spec.Fallback Spec.Diagnostics Datakey

/-- what `check_locales` stores for a (reduced) source value `v`: `v` with its string literals
    indexed, all of them -/
def Stored (v sv : PV) : Prop := (∃ F acc, sv = (indexStrings F v acc).1) ∧ AllIdx sv

/-- position `i` below one builder key, relative path `q` -/
def storedLV (i : Nat) (lv : LV) (q : List Str) : Option PV :=
  match lv with
  | .subkeys locs sub =>
    (match locs[i]? with
      | some l => storedAt i q l.keys sub
      | none => none)
  | .value _ _ => none

/-- position `i` below key `k` of builder keys `b` -/
def storedB (i : Nat) (b : BKI) (k : Str) (q : List Str) : Option PV :=
  match AMap.get? k b with
  | some lv => storedLV i lv q
  | none => none

theorem storedAt_nil (i : Nat) (ks : List (Str × PV)) (b : BKI) : storedAt i [] ks b = none := rfl
theorem storedAt_one (i : Nat) (k : Str) (ks : List (Str × PV)) (b : BKI) : storedAt i [k] ks b = AMap.get? k ks := rfl
theorem storedAt_cons2 (i : Nat) (k k2 : Str) (r : List Str) (ks : List (Str × PV)) (b : BKI) :
    storedAt i (k :: k2 :: r) ks b = storedB i b k (k2 :: r) := by
  simp only [storedAt, storedB]
  cases AMap.get? k b with
  | none => rfl
  | some lv => cases lv <;> rfl

/-- the value stored at relative path `rest` below a key whose own stored value is `v'` and whose
    builder key is `lv'` -/
def storedRel (n : Nat) (v' : PV) (lv' : LV) : List Str → Option PV
  | [] => some v'
  | k2 :: r => storedLV n lv' (k2 :: r)

theorem storedAt_cons (n : Nat) (k : Str) (rest : List Str) (ks : List (Str × PV)) (b : BKI) (v' : PV) (lv' : LV)
    (h1 : AMap.get? k ks = some v') (h2 : AMap.get? k b = some lv') :
    storedAt n (k :: rest) ks b = storedRel n v' lv' rest := by
  cases rest with
  | nil => rw [storedAt_one, h1]; rfl
  | cons k2 r => rw [storedAt_cons2]; simp only [storedB, h2, storedRel]

/-- the conclusion about one accessible key: the source value is a plain, defined value and a
    fully indexed copy of it is stored -/
def StoredOK (src : Option PV) (st : Option PV) : Prop :=
  ∃ v s, src = some v ∧ isLeafVal v = true ∧ v ≠ .dflt ∧ st = some s ∧ Stored v s

/-! ### the default locale: `makeBuilderKeys` (position 0) -/

def MadeStore (cur v' : PV) (lv : LV) : Prop :=
  ∀ rest, (leafLV lv rest).isSome = true → StoredOK (curAt cur rest) (storedRel 0 v' lv rest)

def RecMakeStore (recMake : MakeRec) : Prop :=
  ∀ path loc strs loc' bki strs', recMake path loc strs = .ok (loc', bki, strs') →
    ∀ p, (leafAt bki p).isSome = true → StoredOK (valueAt loc.keys p) (storedAt 0 p loc'.keys bki)

theorem makeKeys_store (recMake : MakeRec) (hrec : RecMakeStore recMake) (dflt : Str) (path : KeyPath) :
    ∀ (l accK : List (Str × PV)) (accB : BKI) (strs : List Str) ks b s,
      makeKeys recMake dflt path l accK accB strs = .ok (ks, b, s) →
      ∃ newK newB, ks = accK ++ newK ∧ b = accB ++ newB ∧ ∀ k lv, AMap.get? k newB = some lv →
        ∃ v cur v', AMap.get? k l = some v ∧ Reduce.reduce v = .ok cur ∧ AMap.get? k newK = some v'
          ∧ MadeStore cur v' lv := by
  intro l
  induction l with
  | nil =>
    intro accK accB strs ks b s h
    simp only [makeKeys, Res.ok.injEq, Prod.mk.injEq] at h
    obtain ⟨rfl, rfl, rfl⟩ := h
    exact ⟨[], [], by simp, by simp, by simp [AMap.get?]⟩
  | cons e l ih =>
    obtain ⟨k0, v0⟩ := e
    intro accK accB strs ks b s h
    have tail : ∀ (cur v'0 : PV) (lv0 : LV) s1, Reduce.reduce v0 = .ok cur → MadeStore cur v'0 lv0 →
        makeKeys recMake dflt path l (accK ++ [(k0, v'0)]) (accB ++ [(k0, lv0)]) s1 = .ok (ks, b, s) →
        ∃ newK newB, ks = accK ++ newK ∧ b = accB ++ newB ∧ ∀ k lv, AMap.get? k newB = some lv →
          ∃ v cur v', AMap.get? k ((k0, v0) :: l) = some v ∧ Reduce.reduce v = .ok cur ∧ AMap.get? k newK = some v'
            ∧ MadeStore cur v' lv := by
      intro cur v'0 lv0 s1 hred hmade hmk
      obtain ⟨newK, newB, hk, hb, hall⟩ := ih _ _ _ _ _ _ hmk
      refine ⟨(k0, v'0) :: newK, (k0, lv0) :: newB, by simp [hk], by simp [hb], ?_⟩
      intro k lv hg
      rw [AMap.get?_cons] at hg
      by_cases hk : k0 = k
      · subst hk
        simp only [if_true, Option.some.injEq] at hg
        subst hg
        exact ⟨v0, cur, v'0, by simp [AMap.get?], hred, by simp [AMap.get?], hmade⟩
      · simp only [hk, if_false] at hg
        obtain ⟨v, c, v', h1, h2, h3, h4⟩ := hall k lv hg
        exact ⟨v, c, v', by simp [AMap.get?, hk, h1], h2, by simp [AMap.get?, hk, h3], h4⟩
    simp only [makeKeys] at h
    split at h
    · simp at h
    · simp at h
    · rename_i v1 hred
      split at h
      · rename_i sub hsh
        have hv1 : v1 = .subkeys (some sub) := by
          cases v1 <;> simp [makeKeys.shapeOf'] at hsh
          subst hsh; rfl
        subst hv1
        split at h
        · simp at h
        · simp at h
        · rename_i sub' bki strs' hrm
          refine tail _ _ _ _ hred ?_ h
          intro rest hleaf
          simp only [leafLV] at hleaf
          cases rest with
          | nil => rw [leafAt_nil] at hleaf; cases hleaf
          | cons k2 r =>
            have := hrec _ _ _ _ _ _ hrm (k2 :: r) hleaf
            simpa [curAt, storedRel, storedLV] using this
      · simp at h
      · simp at h
      · rename_i hsh
        split at h
        · simp at h
        · simp at h
        · rename_i iol0 hgk
          refine tail _ _ _ _ hred ?_ h
          intro rest hleaf
          cases rest with
          | cons _ _ => simp [leafLV] at hleaf
          | nil =>
            refine ⟨v1, _, rfl, ?_, ?_, rfl, ⟨_, _, rfl⟩, gki_allIdx _ _ _ _ _ _ hgk⟩
            · cases v1 <;> first | rfl | simp [makeKeys.shapeOf'] at hsh
            · intro e; subst e; simp [makeKeys.shapeOf'] at hsh

theorem makeBuilderKeys_store (dflt : Str) : ∀ fuel, RecMakeStore (makeBuilderKeys dflt fuel) := by
  intro fuel
  induction fuel with
  | zero =>
    intro path sub strs sub' bki strs' h
    simp [makeBuilderKeys] at h
  | succ fuel ih =>
    intro path loc strs loc' bki strs' h p hleaf
    simp only [makeBuilderKeys] at h
    split at h
    · rename_i keys' b s hk
      simp only [Res.ok.injEq, Prod.mk.injEq] at h
      obtain ⟨hll, hbb, -⟩ := h
      obtain ⟨newK, newB, hkk, hb, hall⟩ := makeKeys_store _ ih dflt path _ _ _ _ _ _ _ hk
      simp only [List.nil_append] at hb hkk
      have hlk : loc'.keys = newK := by rw [← hll, hkk]; rfl
      rw [← hbb, hb] at hleaf ⊢
      cases p with
      | nil => rw [leafAt_nil] at hleaf; cases hleaf
      | cons k rest =>
        rw [leafAt_cons] at hleaf
        cases hg : AMap.get? k newB with
        | none => simp [hg] at hleaf
        | some lv =>
          simp only [hg] at hleaf
          obtain ⟨v, cur, v', h1, h2, h3, h4⟩ := hall k lv hg
          have := h4 rest hleaf
          rw [valueAt_cons, h1, hlk, storedAt_cons 0 k rest newK newB v' lv h3 hg]
          simpa [h2] using this
    · simp at h
    · simp at h

/-! ### a non-default locale: `mergeLocale` appends at position `n` -/

def StoreRel (n : Nat) (cur v' : PV) (lv lv' : LV) : Prop :=
  ∀ rest, (leafLV lv rest).isSome = true → undefPV cur rest = false →
    StoredOK (curAt cur rest) (storedRel n v' lv' rest)

def RecStore (n : Nat) (recMerge : MergeRec) : Prop :=
  ∀ kp loc bki st loc' bki' st', BKI.WF bki → lensBKI n bki = true →
    recMerge kp loc bki st = .ok (loc', bki', st') →
    ∀ p, (leafAt bki p).isSome = true → undefinedAtPath loc.keys p = false →
      StoredOK (valueAt loc.keys p) (storedAt n p loc'.keys bki')

theorem allIdx_index_lit (l : Lit) (acc : List Str) : AllIdx (indexStrings 1 (.lit l) acc).1 := by
  rw [indexStrings_succ]
  cases l with
  | str t i => intro s oi hm; simp [strLits] at hm; simp [hm.2]
  | _ => intro s oi hm; simp [strLits] at hm

theorem shapeOf_other_leaf {cur v : PV} (h : shapeOf cur = .other v) :
    v = cur ∧ isLeafVal cur = true ∧ cur ≠ .dflt := by
  cases cur with
  | dflt => simp [shapeOf] at h
  | subkeys o => cases o <;> simp [shapeOf] at h
  | lit l => simp [shapeOf] at h
  | _ => simp [shapeOf] at h; exact ⟨h.symm, rfl, by intro e; cases e⟩

theorem mergeValue_store (n : Nat) (recMerge : MergeRec) (hrec : RecStore n recMerge) (top : Str) (dto : DefaultTo)
    (kp : KeyPath) (cur : PV) (lv : LV) (st : St) (v' : PV) (lv' : LV) (st' : St)
    (hwf : LV.WF lv) (hl : lensLV n lv = true)
    (h : mergeValue recMerge top dto kp cur lv st = .ok (v', lv', st')) : StoreRel n cur v' lv lv' := by
  intro rest hleaf hu
  unfold mergeValue at h
  cases lv with
  | value iol d =>
    cases rest with
    | cons _ _ => simp [leafLV] at hleaf
    | nil =>
      simp only at h
      split at h <;> try (simp at h; done)
      · rename_i hs
        have hcur : cur = .dflt := shapeOf_dflt hs
        subst hcur
        simp [undefPV] at hu
      · rename_i l hs
        have hcur := shapeOf_lit hs
        subst hcur
        have hst : Stored (.lit l) (indexStrings 1 (.lit l) st.strings).1 :=
          ⟨⟨1, st.strings, rfl⟩, allIdx_index_lit l st.strings⟩
        split at h
        · simp at h
          obtain ⟨rfl, rfl, rfl⟩ := h
          exact ⟨_, _, rfl, rfl, (by intro e; cases e), rfl, hst⟩
        · split at h <;>
          · simp at h
            obtain ⟨rfl, rfl, rfl⟩ := h
            exact ⟨_, _, rfl, rfl, (by intro e; cases e), rfl, hst⟩
      · rename_i v hs
        obtain ⟨hv, hleafv, hnd⟩ := shapeOf_other_leaf hs
        subst hv
        split at h <;> try (simp at h; done)
        rename_i iol' hgk
        simp at h
        obtain ⟨rfl, rfl, rfl⟩ := h
        exact ⟨_, _, rfl, hleafv, hnd, rfl, ⟨_, _, rfl⟩, gki_allIdx _ _ _ _ _ _ hgk⟩
  | subkeys locales bkeys =>
    simp only [leafLV] at hleaf
    simp only [LV.WF] at hwf
    obtain ⟨_, hnd, hwfl⟩ := hwf
    simp only [lensLV, Bool.and_eq_true, beq_iff_eq] at hl
    obtain ⟨hlen, hlb⟩ := hl
    cases rest with
    | nil => rw [leafAt_nil] at hleaf; cases hleaf
    | cons k2 r =>
      simp only at h
      split at h <;> try (simp at h; done)
      · rename_i hs
        have hcur : cur = .dflt := shapeOf_dflt hs
        subst hcur
        simp [undefPV] at hu
      · rename_i loc hs
        have hcur := shapeOf_subSome hs
        subst hcur
        split at h <;> try (simp at h; done)
        rename_i loc' bkeys' st1 hr
        simp at h
        obtain ⟨rfl, rfl, rfl⟩ := h
        simp only [undefPV] at hu
        have := hrec _ _ _ _ _ _ _ ⟨hnd, hwfl⟩ hlb hr (k2 :: r) hleaf hu
        simp only [curAt, storedRel, storedLV]
        have hget : (locales ++ [loc'])[locales.length]? = some loc' := by simp
        rw [← hlen] at this ⊢
        rw [hget]
        exact this

theorem mergeKeys_store (n : Nat) (recMerge : MergeRec) (hrec : RecStore n recMerge) (top : Str) (dto : DefaultTo)
    (path : KeyPath) :
    ∀ (bki : BKI) (ks : List (Str × PV)) (accB : BKI) (st : St) ks' b' st',
      (bki.map Prod.fst).Nodup → WFL bki → lensBKI n bki = true →
      mergeKeys recMerge top dto path bki ks accB st = .ok (ks', b', st') →
      ∃ new, b' = accB ++ new ∧ (∀ k, k ∉ bki.map Prod.fst → AMap.get? k ks' = AMap.get? k ks) ∧
        ∀ k lv, AMap.get? k bki = some lv →
          ∃ v' lv', AMap.get? k ks' = some v' ∧ AMap.get? k new = some lv' ∧
            ∀ rest, (leafLV lv rest).isSome = true → undefinedAtPath ks (k :: rest) = false →
              StoredOK (valueAt ks (k :: rest)) (storedRel n v' lv' rest) := by
  intro bki
  induction bki with
  | nil =>
    intro ks accB st ks' b' st' _ _ _ h
    simp only [mergeKeys, Res.ok.injEq, Prod.mk.injEq] at h
    obtain ⟨rfl, rfl, rfl⟩ := h
    exact ⟨[], by simp, fun _ _ => rfl, by simp [AMap.get?]⟩
  | cons e rest ih =>
    obtain ⟨k0, lv0⟩ := e
    intro ks accB st ks' b' st' hnd hwf hl h
    simp only [List.map_cons, List.nodup_cons] at hnd
    simp only [WFL] at hwf
    simp only [lensBKI, Bool.and_eq_true] at hl
    have tail : ∀ (st1 : St) (cur v1 : PV) (lv1 : LV) (st2 : St),
        (∀ r, (leafLV lv0 r).isSome = true → undefinedAtPath ks (k0 :: r) = false →
          undefPV cur r = false ∧ valueAt ks (k0 :: r) = curAt cur r) →
        mergeValue recMerge top dto (pushKey path k0) cur lv0 st1 = .ok (v1, lv1, st2) →
        mergeKeys recMerge top dto path rest (AMap.insert' k0 v1 ks) (accB ++ [(k0, lv1)]) st2 = .ok (ks', b', st') →
        ∃ new, b' = accB ++ new ∧ (∀ k, k ∉ ((k0, lv0) :: rest).map Prod.fst → AMap.get? k ks' = AMap.get? k ks) ∧
          ∀ k lv, AMap.get? k ((k0, lv0) :: rest) = some lv →
            ∃ v' lv', AMap.get? k ks' = some v' ∧ AMap.get? k new = some lv' ∧
              ∀ rest, (leafLV lv rest).isSome = true → undefinedAtPath ks (k :: rest) = false →
                StoredOK (valueAt ks (k :: rest)) (storedRel n v' lv' rest) := by
      intro st1 cur v1 lv1 st2 hcur hmv hmk
      have hst := mergeValue_store n recMerge hrec top dto _ cur lv0 st1 v1 lv1 st2 hwf.1 hl.1 hmv
      obtain ⟨new', hb, hoth, hall⟩ := ih _ _ _ _ _ _ hnd.2 hwf.2 hl.2 hmk
      refine ⟨(k0, lv1) :: new', by simp [hb], ?_, ?_⟩
      · intro k hk
        simp only [List.map_cons, List.mem_cons, not_or] at hk
        rw [hoth k hk.2, AMap.get?_insert_ne hk.1]
      · intro k lv hg
        rw [AMap.get?_cons] at hg
        by_cases hk : k0 = k
        · subst hk
          simp only [if_true, Option.some.injEq] at hg
          subst hg
          refine ⟨v1, lv1, ?_, by simp [AMap.get?], ?_⟩
          · rw [hoth k0 hnd.1, AMap.get?_insert_self]
          · intro r hleaf hu
            obtain ⟨h1, h2⟩ := hcur r hleaf hu
            rw [h2]
            exact hst r hleaf h1
        · simp only [hk, if_false] at hg
          obtain ⟨v', lv', g1, g2, g3⟩ := hall k lv hg
          refine ⟨v', lv', g1, by simp [AMap.get?, hk, g2], ?_⟩
          intro r hleaf hu
          have e1 : undefinedAtPath (AMap.insert' k0 v1 ks) (k :: r) = undefinedAtPath ks (k :: r) := by
            rw [undefinedAtPath_cons, undefinedAtPath_cons, AMap.get?_insert_ne (Ne.symm hk)]
          have e2 : valueAt (AMap.insert' k0 v1 ks) (k :: r) = valueAt ks (k :: r) := by
            rw [valueAt_cons, valueAt_cons, AMap.get?_insert_ne (Ne.symm hk)]
          rw [← e2]
          exact g3 r hleaf (by rw [e1]; exact hu)
    cases hg : AMap.get? k0 ks with
    | none =>
      simp only [mergeKeys, hg, Reduce.reduce] at h
      split at h
      · simp at h
      · simp at h
      · rename_i v1 lv1 st2 hmv
        refine tail _ _ _ _ _ ?_ hmv h
        intro r _ hu
        rw [undefinedAtPath_cons, hg] at hu
        simp at hu
    | some v =>
      simp only [mergeKeys, hg] at h
      split at h
      · simp at h
      · simp at h
      · rename_i cur hred
        split at h
        · simp at h
        · simp at h
        · rename_i v1 lv1 st2 hmv
          refine tail _ _ _ _ _ ?_ hmv h
          intro r _ hu
          rw [undefinedAtPath_cons, hg] at hu
          simp only [hred] at hu
          refine ⟨hu, ?_⟩
          rw [valueAt_cons, hg]
          simp [hred]

theorem mergeLocale_store (n : Nat) (suppress : Bool) (top : Str) (dto : DefaultTo) :
    ∀ fuel, RecStore n (mergeLocale suppress top dto fuel) := by
  intro fuel
  induction fuel with
  | zero =>
    intro kp loc bki st loc' bki' st' _ _ h
    simp [mergeLocale] at h
  | succ fuel ih =>
    intro kp loc bki st loc' bki' st' hwf hl h p hleaf hu
    simp only [mergeLocale] at h
    split at h
    · simp at h
    · simp at h
    · rename_i keys' b' st1 hmk
      simp only [Res.ok.injEq, Prod.mk.injEq] at h
      obtain ⟨hll, hbb, -⟩ := h
      obtain ⟨new, hb, _, hall⟩ := mergeKeys_store n _ ih top dto kp bki loc.keys [] st _ _ _ hwf.1 hwf.2 hl hmk
      simp only [List.nil_append] at hb
      have hlk : loc'.keys = keys' := by rw [← hll]; rfl
      cases p with
      | nil => rw [leafAt_nil] at hleaf; cases hleaf
      | cons k rest =>
        rw [leafAt_cons] at hleaf
        cases hg : AMap.get? k bki with
        | none => simp [hg] at hleaf
        | some lv =>
          simp only [hg] at hleaf
          obtain ⟨v', lv', g1, g2, g3⟩ := hall k lv hg
          rw [hlk, ← hbb, hb, storedAt_cons n k rest keys' new v' lv' g1 g2]
          exact g3 rest hleaf hu

/-! ### a later merge leaves the earlier positions alone -/

def RecKeepS (recMerge : MergeRec) : Prop :=
  ∀ kp loc bki st loc' bki' st', recMerge kp loc bki st = .ok (loc', bki', st') →
    ∀ n, lensBKI n bki = true → ∀ j, j < n → ∀ p ks, storedAt j p ks bki' = storedAt j p ks bki

theorem mergeValue_keepS (recMerge : MergeRec) (hrec : RecKeepS recMerge) (top : Str) (dto : DefaultTo)
    (kp : KeyPath) (cur : PV) (lv : LV) (st : St) (v' : PV) (lv' : LV) (st' : St)
    (h : mergeValue recMerge top dto kp cur lv st = .ok (v', lv', st'))
    (n : Nat) (hl : lensLV n lv = true) (j : Nat) (hj : j < n) : ∀ q, storedLV j lv' q = storedLV j lv q := by
  intro q
  unfold mergeValue at h
  cases lv with
  | value iol d =>
    simp only at h
    split at h <;> try (simp at h; done)
    · simp at h
      obtain ⟨rfl, rfl, rfl⟩ := h
      rfl
    · split at h
      · simp at h
        obtain ⟨rfl, rfl, rfl⟩ := h
        rfl
      · split at h <;>
        · simp at h
          obtain ⟨rfl, rfl, rfl⟩ := h
          rfl
    · split at h <;> try (simp at h; done)
      simp at h
      obtain ⟨rfl, rfl, rfl⟩ := h
      rfl
  | subkeys locales bkeys =>
    simp only [lensLV, Bool.and_eq_true, beq_iff_eq] at hl
    obtain ⟨hlen, hlb⟩ := hl
    have key : ∀ (x : Loc) (bkeys' : BKI), (∀ p ks, storedAt j p ks bkeys' = storedAt j p ks bkeys) →
        storedLV j (.subkeys (locales ++ [x]) bkeys') q = storedLV j (.subkeys locales bkeys) q := by
      intro x bkeys' hk
      have hget : (locales ++ [x])[j]? = locales[j]? := List.getElem?_append_left (by omega)
      simp only [storedLV, hget]
      cases locales[j]? with
      | none => rfl
      | some l => exact hk q l.keys
    simp only at h
    split at h <;> try (simp at h; done)
    · split at h <;> try (simp at h; done)
      split at h <;> try (simp at h; done)
      rename_i dummy' bkeys' st1 hr
      simp at h
      obtain ⟨rfl, rfl, rfl⟩ := h
      exact key _ _ (hrec _ _ _ _ _ _ _ hr n hlb j hj)
    · split at h <;> try (simp at h; done)
      rename_i loc' bkeys' st1 hr
      simp at h
      obtain ⟨rfl, rfl, rfl⟩ := h
      exact key _ _ (hrec _ _ _ _ _ _ _ hr n hlb j hj)

theorem storedB_cons (j : Nat) (k0 : Str) (lv0 : LV) (rest : BKI) (k : Str) (q : List Str) :
    storedB j ((k0, lv0) :: rest) k q = if k0 == k then storedLV j lv0 q else storedB j rest k q := by
  simp only [storedB, AMap.get?]
  by_cases h : (k0 == k) = true
  · simp [h]
  · simp [h]

theorem mergeKeys_keepS (recMerge : MergeRec) (hrec : RecKeepS recMerge) (top : Str) (dto : DefaultTo)
    (path : KeyPath) (n j : Nat) (hj : j < n) :
    ∀ (bki : BKI) (ks : List (Str × PV)) (accB : BKI) (st : St) ks' b' st',
      mergeKeys recMerge top dto path bki ks accB st = .ok (ks', b', st') → lensBKI n bki = true →
      ∃ new, b' = accB ++ new ∧ ∀ k q, storedB j new k q = storedB j bki k q := by
  intro bki
  induction bki with
  | nil =>
    intro ks accB st ks' b' st' h _
    simp only [mergeKeys, Res.ok.injEq, Prod.mk.injEq] at h
    obtain ⟨rfl, rfl, rfl⟩ := h
    exact ⟨[], by simp, fun _ _ => rfl⟩
  | cons e rest ih =>
    obtain ⟨k0, lv0⟩ := e
    intro ks accB st ks' b' st' h hl
    simp only [lensBKI, Bool.and_eq_true] at hl
    have tail : ∀ (st1 : St) (cur v1 : PV) (lv1 : LV) (st2 : St),
        mergeValue recMerge top dto (pushKey path k0) cur lv0 st1 = .ok (v1, lv1, st2) →
        mergeKeys recMerge top dto path rest (AMap.insert' k0 v1 ks) (accB ++ [(k0, lv1)]) st2 = .ok (ks', b', st') →
        ∃ new, b' = accB ++ new ∧ ∀ k q, storedB j new k q = storedB j ((k0, lv0) :: rest) k q := by
      intro st1 cur v1 lv1 st2 hmv hmk
      have hk := mergeValue_keepS recMerge hrec top dto _ cur lv0 st1 v1 lv1 st2 hmv n hl.1 j hj
      obtain ⟨new', hb, hall⟩ := ih _ _ _ _ _ _ hmk hl.2
      refine ⟨(k0, lv1) :: new', by simp [hb], ?_⟩
      intro k q
      rw [storedB_cons, storedB_cons, hk q, hall k q]
    cases hg : AMap.get? k0 ks with
    | none =>
      simp only [mergeKeys, hg, Reduce.reduce] at h
      split at h
      · simp at h
      · simp at h
      · rename_i v1 lv1 st2 hmv
        exact tail _ _ _ _ _ hmv h
    | some v =>
      simp only [mergeKeys, hg] at h
      split at h
      · simp at h
      · simp at h
      · rename_i cur hred
        split at h
        · simp at h
        · simp at h
        · rename_i v1 lv1 st2 hmv
          exact tail _ _ _ _ _ hmv h

theorem mergeLocale_keepS (suppress : Bool) (top : Str) (dto : DefaultTo) :
    ∀ fuel, RecKeepS (mergeLocale suppress top dto fuel) := by
  intro fuel
  induction fuel with
  | zero =>
    intro kp loc bki st loc' bki' st' h
    simp [mergeLocale] at h
  | succ fuel ih =>
    intro kp loc bki st loc' bki' st' h n hl j hj p ks
    simp only [mergeLocale] at h
    split at h
    · simp at h
    · simp at h
    · rename_i keys' b' st1 hmk
      simp only [Res.ok.injEq, Prod.mk.injEq] at h
      obtain ⟨-, hbb, -⟩ := h
      obtain ⟨new, hb, hall⟩ := mergeKeys_keepS _ ih top dto kp n j hj bki loc.keys [] st _ _ _ hmk hl
      simp only [List.nil_append] at hb
      rw [← hbb, hb]
      match p with
      | [] => rfl
      | [k] => rfl
      | k :: k2 :: r => rw [storedAt_cons2, storedAt_cons2]; exact hall k _

/-! ### `propagate` only rewrites the counts -/

theorem setCounts_get_keys (locales : List Loc) (counts : List Nat) (j : Nat) :
    ((setCounts locales counts)[j]?).map Loc.keys = (locales[j]?).map Loc.keys := by
  cases h1 : (setCounts locales counts)[j]? with
  | some l' =>
    obtain ⟨l, hl, hk⟩ := setCounts_keys _ _ _ _ h1
    simp [hl, hk]
  | none =>
    have hlen := setCounts_length locales counts
    have : locales.length ≤ j := by
      have := List.getElem?_eq_none_iff.mp h1
      omega
    simp [List.getElem?_eq_none_iff.mpr this]

theorem propagate_storedAt (counts : List Nat) :
    ∀ (fuel : Nat) (b : BKI) (j : Nat) (p : List Str) (ks : List (Str × PV)),
      storedAt j p ks (propagate fuel counts b) = storedAt j p ks b := by
  intro fuel
  induction fuel with
  | zero => intro b j p ks; rfl
  | succ fuel ih =>
    intro b j p ks
    match p with
    | [] => rfl
    | [k] => rfl
    | k :: k2 :: r =>
      rw [storedAt_cons2, storedAt_cons2, propagate_succ]
      simp only [storedB]
      rw [get?_map_snd (fun _ lv => propLV fuel counts lv) k b]
      cases AMap.get? k b with
      | none => rfl
      | some lv =>
        cases lv with
        | value iol d => rfl
        | subkeys locales keys =>
          simp only [Option.map_some, propLV, storedLV]
          have hk := setCounts_get_keys locales counts j
          simp only [setCounts] at hk
          cases h1 : ((locales.zip counts).map (fun (x : Loc × Nat) => Loc.mk x.1.name x.1.top x.1.keys x.1.strings x.2)
              ++ locales.drop counts.length)[j]? with
          | none =>
            rw [h1] at hk
            cases h2 : locales[j]? with
            | none => rfl
            | some l => rw [h2] at hk; simp at hk
          | some l' =>
            rw [h1] at hk
            cases h2 : locales[j]? with
            | none => rw [h2] at hk; simp at hk
            | some l =>
              rw [h2] at hk
              simp only [Option.map_some, Option.some.injEq] at hk
              simp only [hk]
              exact ih keys j (k2 :: r) l.keys

/-! ### the loop of `check_locales_inner` -/

theorem go_store (suppress : Bool) (fuel : Nat) (inherits : List (Str × Str)) (dl : Loc) (path : KeyPath) :
    ∀ (others acc : List Loc) (bki : BKI) (ws : List Warning) locales bki' ws',
      checkLocalesInner.go suppress fuel inherits dl path others acc bki ws = .ok (locales, bki', ws') →
      BKI.WF bki → lensBKI acc.length bki = true →
      (∀ j, j < acc.length → ∀ p ks, storedAt j p ks bki' = storedAt j p ks bki) ∧
      (∀ j, j < acc.length → locales[j]? = acc[j]?) ∧
      ∀ m l, others[m]? = some l → ∀ p, (leafAt bki p).isSome = true → undefinedAtPath l.keys p = false →
        ∃ L, locales[acc.length + m]? = some L ∧
          StoredOK (valueAt l.keys p) (storedAt (acc.length + m) p L.keys bki') := by
  intro others
  induction others with
  | nil =>
    intro acc bki ws locales bki' ws' h _ _
    simp only [checkLocalesInner.go, Res.ok.injEq, Prod.mk.injEq] at h
    obtain ⟨rfl, rfl, -⟩ := h
    exact ⟨fun _ _ _ _ => rfl, fun _ _ => rfl, fun m l hm => by simp at hm⟩
  | cons l0 rest ih =>
    intro acc bki ws locales bki' ws' h hwf hl
    simp only [checkLocalesInner.go] at h
    split at h
    · simp at h
    · simp at h
    · rename_i l' bki1 st hml
      obtain ⟨hk1, hw1, _⟩ := mergeLocale_spec suppress _ _ fuel path l0 bki _ l' bki1 st hwf hml
      have hwf1 : BKI.WF bki1 := ⟨by rw [hk1]; exact hwf.1, hw1⟩
      obtain ⟨_, m2⟩ := mergeLocale_shape _ _ _ _ _ _ _ _ _ _ _ hml
      have hkeep := mergeLocale_keepS suppress _ _ fuel path l0 bki _ l' bki1 st hml acc.length hl
      have hstore := mergeLocale_store acc.length suppress _ _ fuel path l0 bki _ l' bki1 st hwf hl hml
      have hsk := mergeLocale_sk suppress _ _ fuel path l0 bki _ l' bki1 st hml
      obtain ⟨i1, i2, i3⟩ := ih _ _ _ _ _ _ h hwf1 (by simpa using m2 _ hl)
      simp only [List.length_append, List.length_singleton] at i1 i2 i3
      refine ⟨?_, ?_, ?_⟩
      · intro j hj p ks
        rw [i1 j (by omega) p ks]
        exact hkeep j hj p ks
      · intro j hj
        rw [i2 j (by omega)]
        exact List.getElem?_append_left hj
      · intro m l hm p hleaf hu
        cases m with
        | zero =>
          simp only [List.getElem?_cons_zero, Option.some.injEq] at hm
          subst hm
          refine ⟨Loc.mk l'.name l'.top l'.keys st.strings st.strings.length, ?_, ?_⟩
          · rw [Nat.add_zero, i2 acc.length (by omega)]
            simp
          · simp only [Nat.add_zero]
            rw [i1 acc.length (by omega)]
            exact hstore p hleaf hu
        | succ m =>
          simp only [List.getElem?_cons_succ] at hm
          have hleaf1 : (leafAt bki1 p).isSome = true := by rw [← SkL_leafAt _ _ hsk p]; exact hleaf
          obtain ⟨L, g1, g2⟩ := i3 m l hm p hleaf1 hu
          have e : acc.length + (m + 1) = acc.length + 1 + m := by omega
          rw [e]
          exact ⟨L, g1, g2⟩

/-- **Storage, one namespace.**  After a successful `check_locales_inner`, for every accessible key
    path `p` (leaf of the builder keys) and the `i`-th input locale `l` — the default locale, or any
    locale that defines `p` —: the source value `valueAt l.keys p` is a plain value other than
    `Default`, and the `i`-th output locale stores at `p` (top level: in its own key map; nested: in
    the `i`-th locale of the nested `Subkeys` node) that value with **all** its string literals
    indexed. -/
theorem checkLocalesInner_store {suppress : Bool} {fuel : Nat} {inherits : List (Str × Str)} {ns : Option Str}
    {dl : Loc} {others : List Loc} {ws : List Warning} {locales : List Loc} {bkiF : BKI} {ws' : List Warning}
    (h : checkLocalesInner suppress fuel inherits ns (dl :: others) ws = .ok (locales, bkiF, ws'))
    (hnd : NDLoc fuel dl) (i : Nat) (l : Loc) (hi : (dl :: others)[i]? = some l) (p : List Str)
    (hleaf : (leafAt bkiF p).isSome = true) (hdef : i = 0 ∨ undefinedAtPath l.keys p = false) :
    ∃ L, locales[i]? = some L ∧ StoredOK (valueAt l.keys p) (storedAt i p L.keys bkiF) := by
  simp only [checkLocalesInner] at h
  split at h <;> try (simp at h; done)
  rename_i dl' bki0 strs hmk
  split at h <;> try (simp at h; done)
  rename_i locales1 bki1 ws1 hgo
  simp at h
  obtain ⟨rfl, rfl, _⟩ := h
  rw [propagate_leafAt] at hleaf
  have hlp := go_leaf_paths _ _ _ _ _ _ _ _ _ _ _ _ hgo p
  have hleaf0 : (leafAt bki0 p).isSome = true := by rw [hlp]; exact hleaf
  obtain ⟨_, k2⟩ := makeBuilderKeys_shape _ _ _ _ _ _ _ _ hmk
  obtain ⟨_, hwf0, _⟩ := makeBuilderKeys_spec dl.top fuel _ _ _ _ _ _ hmk hnd
  obtain ⟨g1, g2, g3⟩ := go_store _ _ _ _ _ _ _ _ _ _ _ _ hgo hwf0 (by simpa using k2)
  simp only [List.length_singleton] at g1 g2 g3
  cases i with
  | zero =>
    simp only [List.getElem?_cons_zero, Option.some.injEq] at hi
    subst hi
    refine ⟨_, by rw [g2 0 (by omega)]; rfl, ?_⟩
    rw [propagate_storedAt, g1 0 (by omega)]
    exact makeBuilderKeys_store dl.top fuel _ _ _ _ _ _ hmk p hleaf0
  | succ m =>
    simp only [List.getElem?_cons_succ] at hi
    have hu : undefinedAtPath l.keys p = false := by
      rcases hdef with hd | hd
      · cases hd
      · exact hd
    obtain ⟨L, a1, a2⟩ := g3 m l hi p hleaf0 hu
    have e : m + 1 = 1 + m := by omega
    refine ⟨L, by rw [e]; exact a1, ?_⟩
    rw [propagate_storedAt, e]
    exact a2

end I18nVerif.Render
