import I18nVerif.Model.Formatter
import I18nVerif.Spec.FormatSpec
/-! `parse_formatter_args` on a structured source with arbitrary whitespace paddings (C18). -/
namespace I18nVerif.FormatSpec
open I18nVerif Str Formatter

theorem isWs_ne {c : Char} (h : isWs c = true) : c ≠ '(' ∧ c ≠ ')' ∧ c ≠ ':' ∧ c ≠ ';' := by
  refine ⟨?_, ?_, ?_, ?_⟩ <;> (intro e; subst e; exact absurd h (by decide))

theorem not_contains {d : Char} {s : Str} : Str.contains d s = false ↔ d ∉ s := by
  unfold Str.contains
  induction s with
  | nil => simp
  | cons c cs ih =>
    simp only [List.any_cons, Bool.or_eq_false_iff, ih, List.mem_cons, not_or]
    constructor
    · rintro ⟨h1, h2⟩; exact ⟨fun e => by simp [e] at h1, h2⟩
    · rintro ⟨h1, h2⟩; exact ⟨by simpa using fun e => h1 e.symm, h2⟩

theorem allWs_not_mem {w : Str} (h : allWs w = true) {d : Char} (hd : isWs d = false) : d ∉ w := by
  intro hm
  have := (List.all_eq_true.mp h) d hm
  rw [hd] at this; exact absurd this (by simp)

theorem allWs_append {a b : Str} : allWs (a ++ b) = (allWs a && allWs b) := by simp [allWs]

theorem trimStart_ws_append (w s : Str) (hw : allWs w = true) : trimStart (w ++ s) = trimStart s := by
  unfold trimStart
  induction w with
  | nil => rfl
  | cons c cs ih =>
    simp only [allWs, List.all_cons, Bool.and_eq_true] at hw
    simp only [List.cons_append, List.dropWhile_cons, hw.1, if_true]
    exact ih (by simpa [allWs] using hw.2)

theorem trimStart_ws (w : Str) (hw : allWs w = true) : trimStart w = [] := by
  have := trimStart_ws_append w [] hw
  simpa [trimStart] using this

theorem trimEnd_append_ws (s w : Str) (hw : allWs w = true) : trimEnd (s ++ w) = trimEnd s := by
  unfold trimEnd
  rw [List.reverse_append]
  have := trimStart_ws_append w.reverse s.reverse (by simpa [allWs] using hw)
  unfold trimStart at this
  rw [this]

/-- a string whose `trimStart` is itself does not start with whitespace -/
theorem trimStart_fix_head {c : Char} {cs : Str} (h : trimStart (c :: cs) = c :: cs) : isWs c = false := by
  unfold trimStart at h
  rw [List.dropWhile_cons] at h
  cases hc : isWs c with
  | false => rfl
  | true =>
    rw [hc] at h
    simp only [if_true] at h
    have hl := (List.dropWhile_suffix (l := cs) isWs).length_le
    rw [h] at hl
    simp at hl
    omega

theorem trim_pad (w x w' : Str) (hw : allWs w = true) (hw' : allWs w' = true) (hx : trimmed x = true) :
    trim (w ++ x ++ w') = x := by
  simp only [trimmed, Bool.and_eq_true, beq_iff_eq] at hx
  unfold trim
  rw [List.append_assoc, trimStart_ws_append w _ hw]
  cases x with
  | nil => simp [trimStart_ws w' hw', trimEnd]
  | cons c cs =>
    have hc := trimStart_fix_head hx.1
    have : trimStart (c :: cs ++ w') = c :: cs ++ w' := by
      simp [trimStart, hc]
    rw [this, trimEnd_append_ws _ _ hw']
    exact hx.2

theorem splitOnceC_append (d : Char) (t r : Str) (h : d ∉ t) : splitOnceC d (t ++ d :: r) = some (t, r) := by
  induction t with
  | nil => simp [splitOnceC]
  | cons c cs ih =>
    have hc : c ≠ d := fun e => h (by simp [e])
    have hcs : d ∉ cs := fun e => h (by simp [e])
    simp [splitOnceC, hc, ih hcs]

theorem splitOnceC_none (d : Char) (t : Str) (h : d ∉ t) : splitOnceC d t = none := by
  induction t with
  | nil => simp [splitOnceC]
  | cons c cs ih =>
    have hc : c ≠ d := fun e => h (by simp [e])
    have hcs : d ∉ cs := fun e => h (by simp [e])
    simp [splitOnceC, hc, ih hcs]

theorem rsplitOnceC_append (d : Char) (t r : Str) (h : d ∉ r) : rsplitOnceC d (t ++ d :: r) = some (t, r) := by
  unfold rsplitOnceC
  have : (t ++ d :: r).reverse = r.reverse ++ d :: t.reverse := by simp
  rw [this, splitOnceC_append d r.reverse t.reverse (by simpa using h)]
  simp

theorem splitC_no (d : Char) (s : Str) (h : d ∉ s) : splitC d s = [s] := by
  induction s with
  | nil => simp [splitC]
  | cons c cs ih =>
    have hc : c ≠ d := fun e => h (by simp [e])
    have hcs : d ∉ cs := fun e => h (by simp [e])
    simp [splitC, hc, ih hcs]

theorem splitC_append (d : Char) (s t : Str) (h : d ∉ s) : splitC d (s ++ d :: t) = s :: splitC d t := by
  induction s with
  | nil => simp [splitC]
  | cons c cs ih =>
    have hc : c ≠ d := fun e => h (by simp [e])
    have hcs : d ∉ cs := fun e => h (by simp [e])
    simp [splitC, hc, ih hcs]

/-! ### one argument -/

theorem ArgSrc.wf_iff (a : ArgSrc) : a.wf = true ↔
    (allWs a.w1 = true ∧ allWs a.w2 = true ∧ allWs a.w3 = true ∧ allWs a.w4 = true ∧ trimmed a.key = true ∧
     trimmed a.val = true ∧ ':' ∉ a.key ∧ ';' ∉ a.key ∧ ';' ∉ a.val) := by
  simp only [ArgSrc.wf, Bool.and_eq_true, Bool.not_eq_true', not_contains]
  constructor
  · rintro ⟨⟨⟨⟨⟨⟨⟨⟨h1, h2⟩, h3⟩, h4⟩, h5⟩, h6⟩, h7⟩, h8⟩, h9⟩; exact ⟨h1, h2, h3, h4, h5, h6, h7, h8, h9⟩
  · rintro ⟨h1, h2, h3, h4, h5, h6, h7, h8, h9⟩; exact ⟨⟨⟨⟨⟨⟨⟨⟨h1, h2⟩, h3⟩, h4⟩, h5⟩, h6⟩, h7⟩, h8⟩, h9⟩

theorem arg_no_semi (a : ArgSrc) (h : a.wf = true) : ';' ∉ a.print := by
  obtain ⟨h1, h2, h3, h4, _, _, _, h8, h9⟩ := (ArgSrc.wf_iff a).mp h
  have n := fun w hw => allWs_not_mem (w := w) hw (d := ';') (by decide)
  simp only [ArgSrc.print, List.mem_append, List.mem_cons, not_or]
  exact ⟨⟨⟨n _ h1, h8⟩, n _ h2⟩, by decide, ⟨n _ h3, h9⟩, n _ h4⟩

theorem arg_parse (a : ArgSrc) (h : a.wf = true) :
    (splitOnceC ':' a.print).map (fun p => (trim p.1, trim p.2)) = some (a.key, a.val) := by
  obtain ⟨h1, h2, h3, h4, h5, h6, h7, _, _⟩ := (ArgSrc.wf_iff a).mp h
  have n := fun w hw => allWs_not_mem (w := w) hw (d := ':') (by decide)
  have hno : ':' ∉ a.w1 ++ a.key ++ a.w2 := by
    simp only [List.mem_append, not_or]; exact ⟨⟨n _ h1, h7⟩, n _ h2⟩
  unfold ArgSrc.print
  rw [splitOnceC_append ':' _ _ hno]
  simp only [Option.map_some]
  rw [trim_pad _ _ _ h1 h2 h5, trim_pad _ _ _ h3 h4 h6]

/-! ### the argument list -/

theorem splitC_printArgs (inner : Str) (as : List ArgSrc) (hne : as ≠ [])
    (h : ∀ a ∈ as, a.wf = true) : splitC ';' (printArgs inner as) = as.map ArgSrc.print := by
  induction as with
  | nil => exact absurd rfl hne
  | cons a rest ih =>
    cases rest with
    | nil => simp [printArgs, splitC_no ';' _ (arg_no_semi a (h a (by simp)))]
    | cons b rest' =>
      simp only [printArgs, List.map_cons]
      rw [splitC_append ';' _ _ (arg_no_semi a (h a (by simp)))]
      rw [ih (by simp) (fun x hx => h x (by simp [hx]))]
      simp

theorem pairs_of_prints (as : List ArgSrc) (h : ∀ a ∈ as, a.wf = true) :
    ((as.map ArgSrc.print).filterMap (fun p => splitOnceC ':' p)).map (fun p => (trim p.1, trim p.2)) =
      as.map (fun a => (a.key, a.val)) := by
  induction as with
  | nil => rfl
  | cons a rest ih =>
    have ha := arg_parse a (h a (by simp))
    cases hs : splitOnceC ':' a.print with
    | none => rw [hs] at ha; simp at ha
    | some p =>
      rw [hs] at ha
      simp only [Option.map_some, Option.some.injEq] at ha
      simp only [List.map_cons, List.filterMap_cons, hs, ha]
      rw [ih (fun x hx => h x (by simp [hx]))]

theorem pairs_of_printArgs (inner : Str) (hi : allWs inner = true) (as : List ArgSrc) (h : ∀ a ∈ as, a.wf = true) :
    ((splitC ';' (printArgs inner as)).filterMap (fun p => splitOnceC ':' p)).map (fun p => (trim p.1, trim p.2)) =
      as.map (fun a => (a.key, a.val)) := by
  cases as with
  | nil =>
    simp only [printArgs, List.map_nil]
    rw [splitC_no ';' _ (allWs_not_mem hi (by decide))]
    simp [splitOnceC_none ':' _ (allWs_not_mem hi (by decide))]
  | cons a rest =>
    rw [splitC_printArgs inner (a :: rest) (by simp) h]
    exact pairs_of_prints _ h

/-! ### the whole clause -/

theorem Src.wf_iff (s : Src) : s.wf = true ↔
    (allWs s.w0 = true ∧ allWs s.w1 = true ∧ allWs s.inner = true ∧ allWs s.w2 = true ∧ trimmed s.name = true ∧
     '(' ∉ s.name ∧ ∀ as, s.args = some as → ∀ a ∈ as, a.wf = true) := by
  unfold Src.wf
  cases hargs : s.args with
  | none =>
    simp only [Bool.and_eq_true, Bool.not_eq_true', not_contains, Bool.and_true]
    constructor
    · rintro ⟨⟨⟨⟨⟨h1, h2⟩, h3⟩, h4⟩, h5⟩, h6⟩; exact ⟨h1, h2, h3, h4, h5, h6, fun _ h => by simp at h⟩
    · rintro ⟨h1, h2, h3, h4, h5, h6, _⟩; exact ⟨⟨⟨⟨⟨h1, h2⟩, h3⟩, h4⟩, h5⟩, h6⟩
  | some as =>
    simp only [Bool.and_eq_true, Bool.not_eq_true', not_contains, List.all_eq_true]
    constructor
    · rintro ⟨⟨⟨⟨⟨⟨h1, h2⟩, h3⟩, h4⟩, h5⟩, h6⟩, h7⟩
      exact ⟨h1, h2, h3, h4, h5, h6, fun as' e => by simp at e; subst e; exact h7⟩
    · rintro ⟨h1, h2, h3, h4, h5, h6, h7⟩; exact ⟨⟨⟨⟨⟨⟨h1, h2⟩, h3⟩, h4⟩, h5⟩, h6⟩, h7 as rfl⟩

/-- `parse_formatter_args` recovers exactly the name and the (option, value) pairs, whatever the paddings -/
theorem parseArgs_print (s : Src) (h : s.wf = true) :
    parseArgs s.print = (s.name, s.args.map (fun as => as.map (fun a => (a.key, a.val)))) := by
  obtain ⟨h0, h1, hi, h2, hn, hp, has⟩ := (Src.wf_iff s).mp h
  have n := fun w hw => allWs_not_mem (w := w) hw (d := '(') (by decide)
  have hno : '(' ∉ s.w0 ++ s.name ++ s.w1 := by
    simp only [List.mem_append, not_or]; exact ⟨⟨n _ h0, hp⟩, n _ h1⟩
  cases hargs : s.args with
  | none =>
    have hpr : s.print = s.w0 ++ s.name ++ s.w1 := by simp only [Src.print, hargs]
    rw [hpr]
    unfold parseArgs
    rw [splitOnceC_none '(' _ hno]
    simp only [trim_pad _ _ _ h0 h1 hn, Option.map_none]
  | some as =>
    have hpr : s.print = s.w0 ++ s.name ++ s.w1 ++ '(' :: (printArgs s.inner as ++ ')' :: s.w2) := by
      simp only [Src.print, hargs]
    rw [hpr]
    unfold parseArgs
    rw [splitOnceC_append '(' _ _ hno]
    simp only
    rw [rsplitOnceC_append ')' _ _ (allWs_not_mem h2 (d := ')') (by decide))]
    simp only [trim_pad _ _ _ h0 h1 hn, Option.map_some]
    have := pairs_of_printArgs s.inner hi as (has as hargs)
    rw [← this]

end I18nVerif.FormatSpec
