import I18nVerif.Proofs.Tables
import I18nVerif.Proofs.CheckGlue
/-!
C11 end-to-end for the default locale: merging further locales and propagating counts does not
disturb what position 0 of every nested `Subkeys` node holds.
-/
namespace I18nVerif.Check
open I18nVerif

theorem getElem?_concat_lt {α} (l : List α) (x : α) {j : Nat} (h : j < l.length) : (l ++ [x])[j]? = l[j]? := by
  rw [List.getElem?_append_left h]

theorem mergeValue_keep (recMerge : MergeRec) (top : Str) (dto : DefaultTo) (kp : KeyPath)
    (hrec : ∀ kp loc bkeys st loc' bkeys' st', recMerge kp loc bkeys st = .ok (loc', bkeys', st') →
      ∀ n, lensBKI n bkeys = true → ∀ j, j < n → ∀ T, TreeValid j T bkeys → TreeValid j T bkeys')
    (cur : PV) (lv : LV) (st : St) (v' : PV) (lv' : LV) (st' : St)
    (h : mergeValue recMerge top dto kp cur lv st = .ok (v', lv', st')) :
    ∀ n, lensLV n lv = true → ∀ j, j < n → ∀ T, TreeValidLV j T lv → TreeValidLV j T lv' := by
  unfold mergeValue at h
  cases lv with
  | subkeys locales bkeys =>
    simp only at h
    split at h <;> try (simp at h; done)
    · split at h <;> try (simp at h; done)
      split at h <;> try (simp at h; done)
      rename_i dummy' bkeys' st1 hr
      simp at h
      obtain ⟨_, rfl, _⟩ := h
      intro n hn j hj T ht
      simp only [lensLV, Bool.and_eq_true, beq_iff_eq] at hn
      simp only [TreeValidLV] at ht ⊢
      refine ⟨?_, hrec _ _ _ _ _ _ _ hr n hn.2 j hj T ht.2⟩
      intro l hl
      rw [getElem?_concat_lt _ _ (by omega)] at hl
      exact ht.1 l hl
    · split at h <;> try (simp at h; done)
      rename_i loc' bkeys' st1 hr
      simp at h
      obtain ⟨_, rfl, _⟩ := h
      intro n hn j hj T ht
      simp only [lensLV, Bool.and_eq_true, beq_iff_eq] at hn
      simp only [TreeValidLV] at ht ⊢
      refine ⟨?_, hrec _ _ _ _ _ _ _ hr n hn.2 j hj T ht.2⟩
      intro l hl
      rw [getElem?_concat_lt _ _ (by omega)] at hl
      exact ht.1 l hl
  | value iol d =>
    simp only at h
    split at h <;> try (simp at h; done)
    · simp at h
      obtain ⟨_, rfl, _⟩ := h
      simp [TreeValidLV]
    · split at h
      · simp at h
        obtain ⟨_, rfl, _⟩ := h
        simp [TreeValidLV]
      · split at h <;>
        · simp at h
          obtain ⟨_, rfl, _⟩ := h
          simp [TreeValidLV]
    · split at h <;> try (simp at h; done)
      simp at h
      obtain ⟨_, rfl, _⟩ := h
      simp [TreeValidLV]

theorem mergeKeys_keep (recMerge : MergeRec) (top : Str) (dto : DefaultTo) (path : KeyPath)
    (hrec : ∀ kp loc bkeys st loc' bkeys' st', recMerge kp loc bkeys st = .ok (loc', bkeys', st') →
      ∀ n, lensBKI n bkeys = true → ∀ j, j < n → ∀ T, TreeValid j T bkeys → TreeValid j T bkeys') :
    ∀ (bki : BKI) (ks : List (Str × PV)) (accB : BKI) (st : St) ks' accB' st',
      mergeKeys recMerge top dto path bki ks accB st = .ok (ks', accB', st') →
      ∀ n, lensBKI n bki = true → ∀ j, j < n → ∀ T, TreeValid j T bki → TreeValid j T accB → TreeValid j T accB'
  | [], ks, accB, st, ks', accB', st', h => by
    simp only [mergeKeys] at h
    simp at h
    obtain ⟨_, rfl, _⟩ := h
    exact fun _ _ _ _ _ _ h => h
  | (k, lv) :: rest, ks, accB, st, ks', accB', st', h => by
    unfold mergeKeys at h
    simp only at h
    split at h <;> try (simp at h; done)
    split at h <;> try (simp at h; done)
    rename_i v1 lv1 st1 hm
    intro n hn j hj T ht ha
    simp only [lensBKI, Bool.and_eq_true] at hn
    simp only [TreeValid] at ht
    have m := mergeValue_keep recMerge top dto _ hrec _ _ _ _ _ _ hm n hn.1 j hj T ht.1
    exact mergeKeys_keep recMerge top dto path hrec rest _ _ _ _ _ _ h n hn.2 j hj T ht.2 (ha.concat m)

theorem mergeLocale_keep (suppress : Bool) (top : Str) (dto : DefaultTo) :
    ∀ (fuel : Nat) (path : KeyPath) (loc : Loc) (bki : BKI) (st : St) loc' bki' st',
      mergeLocale suppress top dto fuel path loc bki st = .ok (loc', bki', st') →
      ∀ n, lensBKI n bki = true → ∀ j, j < n → ∀ T, TreeValid j T bki → TreeValid j T bki'
  | 0, path, loc, bki, st, loc', bki', st', h => by simp [mergeLocale] at h
  | fuel + 1, path, loc, bki, st, loc', bki', st', h => by
    simp only [mergeLocale] at h
    split at h <;> try (simp at h; done)
    rename_i keys1 bki1 st1 hk
    simp at h
    obtain ⟨_, rfl, _⟩ := h
    intro n hn j hj T ht
    exact mergeKeys_keep (mergeLocale suppress top dto fuel) top dto path
      (fun kp l b s l' b' s' hh => mergeLocale_keep suppress top dto fuel kp l b s l' b' s' hh)
      bki loc.keys [] st _ _ _ hk n hn j hj T ht (by simp [TreeValid])

theorem go_keep (suppress : Bool) (fuel : Nat) (inherits : List (Str × Str)) (dl : Loc) (path : KeyPath) (T : List Str) :
    ∀ (others acc : List Loc) (bki : BKI) (ws : List Warning) locales bki' ws',
      checkLocalesInner.go suppress fuel inherits dl path others acc bki ws = .ok (locales, bki', ws') →
      0 < acc.length → lensBKI acc.length bki = true → TreeValid 0 T bki →
      TreeValid 0 T bki' ∧ locales[0]? = acc[0]?
  | [], acc, bki, ws, locales, bki', ws', h, hp, hl, ht => by
    simp only [checkLocalesInner.go] at h
    simp at h
    obtain ⟨rfl, rfl, _⟩ := h
    exact ⟨ht, rfl⟩
  | l :: rest, acc, bki, ws, locales, bki', ws', h, hp, hl, ht => by
    simp only [checkLocalesInner.go] at h
    split at h <;> try (simp at h; done)
    rename_i l1 bki1 st1 hm
    obtain ⟨_, m2⟩ := mergeLocale_shape _ _ _ _ _ _ _ _ _ _ _ hm
    have k := mergeLocale_keep _ _ _ _ _ _ _ _ _ _ _ hm _ hl 0 hp T ht
    obtain ⟨r1, r2⟩ := go_keep suppress fuel inherits dl path T rest _ _ _ _ _ _ h
      (by simp) (by simpa using m2 _ hl) k
    exact ⟨r1, by rw [r2, getElem?_concat_lt _ _ hp]⟩

theorem setCounts_keys : ∀ (locales : List Loc) (counts : List Nat) (j : Nat) (l' : Loc),
    (setCounts locales counts)[j]? = some l' → ∃ l, locales[j]? = some l ∧ l'.keys = l.keys
  | [], counts, j, l', h => by simp [setCounts] at h
  | l :: ls, [], j, l', h => by simp [setCounts] at h; exact ⟨l', h, rfl⟩
  | l :: ls, c :: cs, 0, l', h => by
    rw [setCounts_cons] at h
    simp at h
    exact ⟨l, by simp, by subst h; simp [Loc.keys]⟩
  | l :: ls, c :: cs, j + 1, l', h => by
    rw [setCounts_cons] at h
    simp only [List.getElem?_cons_succ] at h ⊢
    exact setCounts_keys ls cs j l' h

theorem propagate_keep (counts : List Nat) (j : Nat) (T : List Str) : ∀ (fuel : Nat) (b : BKI),
    TreeValid j T b → TreeValid j T (propagate fuel counts b)
  | 0, b, h => by simpa only [propagate] using h
  | fuel + 1, [], _ => by simp [propagate, TreeValid]
  | fuel + 1, (k, lv) :: rest, h => by
    rw [propagate_succ_cons]
    simp only [TreeValid] at h
    have ihr := propagate_keep counts j T (fuel + 1) rest h.2
    cases lv with
    | value v d => simp only [TreeValid, TreeValidLV, ihr, and_self]
    | subkeys locales keys =>
      have h1 := h.1
      simp only [TreeValidLV] at h1
      simp only [TreeValid, TreeValidLV]
      refine ⟨⟨?_, propagate_keep counts j T fuel keys h1.2⟩, ihr⟩
      intro l' hl'
      obtain ⟨l, hl, hk⟩ := setCounts_keys _ _ _ _ hl'
      rw [hk]; exact h1.1 l hl

/-- **Default locale, end to end.**  If the keys of the default locale are freshly parsed (no index
    yet), then in the result of `check_locales_inner` the first locale's table is duplicate-free,
    every index stored in its values reads the value's own text, and the same holds for the values
    of the default locale inside every nested `Subkeys` node of the builder keys. -/
theorem checkLocalesInner_default_table (suppress : Bool) (fuel : Nat) (inherits : List (Str × Str)) (ns : Option Str)
    (dl : Loc) (others : List Loc) (ws : List Warning) (locales : List Loc) (bki : BKI) (ws' : List Warning)
    (h : checkLocalesInner suppress fuel inherits ns (dl :: others) ws = .ok (locales, bki, ws'))
    (hf : FreshK dl.keys = true) :
    ∃ L, locales[0]? = some L ∧ L.strings.Nodup ∧ KeysValid L.strings L.keys ∧ TreeValid 0 L.strings bki := by
  simp only [checkLocalesInner] at h
  split at h <;> try (simp at h; done)
  rename_i dl' bki0 strs hmk
  split at h <;> try (simp at h; done)
  rename_i locales1 bki1 ws1 hgo
  simp at h
  obtain ⟨rfl, rfl, _⟩ := h
  obtain ⟨_, k2⟩ := makeBuilderKeys_shape _ _ _ _ _ _ _ _ hmk
  obtain ⟨_, t2, t3, t4⟩ := makeBuilderKeys_tables _ _ _ _ _ _ _ _ hmk hf
  obtain ⟨g1, g2⟩ := go_keep _ _ _ _ _ strs _ _ _ _ _ _ _ hgo (by simp) (by simpa using k2) t4
  refine ⟨_, by rw [g2]; rfl, ?_, ?_, ?_⟩
  · exact t2 List.nodup_nil
  · exact t3
  · exact propagate_keep _ _ _ _ _ g1

end I18nVerif.Check
