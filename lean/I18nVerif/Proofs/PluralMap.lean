import I18nVerif.Spec.PluralMap
import I18nVerif.Proofs.Plurals
import I18nVerif.Proofs.Perm
import I18nVerif.Proofs.LocaleEnum
/-! Helper lemmas for the whole-map statement of `merge_plurals` (C05, `Theorems/C05Map.lean`). -/
namespace I18nVerif.PluralMap
open I18nVerif Str PluralSpec Plurals

/-! ### order facts -/

/-- a proper prefix sorts before the longer string -/
theorem strLt_prefix : ∀ (a : Str) (c : Char) (b : Str), AMap.strLt a (a ++ c :: b) = true
  | [], _, _ => rfl
  | x :: xs, c, b => by
    simp only [List.cons_append, AMap.strLt, Nat.lt_irrefl, if_false, gt_iff_lt]
    exact strLt_prefix xs c b

/-- two lists strictly sorted for an irreflexive asymmetric relation and with the same elements are equal -/
theorem pairwise_ext {α : Type} {r : α → α → Prop} (hirr : ∀ a, ¬ r a a) (hasym : ∀ a b, r a b → ¬ r b a) :
    ∀ {l₁ l₂ : List α}, l₁.Pairwise r → l₂.Pairwise r → (∀ p, p ∈ l₁ ↔ p ∈ l₂) → l₁ = l₂
  | [], [], _, _, _ => rfl
  | [], b :: _, _, _, h => by have := (h b).mpr (by simp); simp at this
  | a :: _, [], _, _, h => by have := (h a).mp (by simp); simp at this
  | a :: r₁, b :: r₂, s₁, s₂, h => by
    have s₁' := List.pairwise_cons.mp s₁
    have s₂' := List.pairwise_cons.mp s₂
    have hab : a = b := by
      have ha := (h a).mp (by simp)
      have hb := (h b).mpr (by simp)
      simp only [List.mem_cons] at ha hb
      rcases ha with ha | ha
      · exact ha
      · rcases hb with hb | hb
        · exact hb.symm
        · exact absurd (s₁'.1 b hb) (hasym _ _ (s₂'.1 a ha))
    subst hab
    have : r₁ = r₂ := by
      apply pairwise_ext hirr hasym s₁'.2 s₂'.2
      intro p
      constructor
      · intro hp
        have := (h p).mp (by simp [hp])
        simp only [List.mem_cons] at this
        rcases this with e | e
        · subst e; exact absurd (s₁'.1 p hp) (hirr p)
        · exact e
      · intro hp
        have := (h p).mpr (by simp [hp])
        simp only [List.mem_cons] at this
        rcases this with e | e
        · subst e; exact absurd (s₂'.1 p hp) (hirr p)
        · exact e
    rw [this]

theorem formsSorted_ext {a b : Cands} (ha : FormsSorted a) (hb : FormsSorted b) (h : ∀ x, x ∈ a ↔ x ∈ b) : a = b :=
  pairwise_ext (r := fun (x y : Form × Str × RuleTy × PV) => x.1.toNat < y.1.toNat)
    (fun _ => Nat.lt_irrefl _) (fun _ _ h1 h2 => Nat.lt_asymm h1 h2) ha hb h

/-- in a list sorted by form, two entries with the same form are the same entry -/
theorem formsSorted_unique {cs : Cands} (hs : FormsSorted cs) {x y : Form × Str × RuleTy × PV}
    (hx : x ∈ cs) (hy : y ∈ cs) (h : x.1 = y.1) : x = y := by
  induction cs with
  | nil => simp at hx
  | cons c rest ih =>
    have hs' := List.pairwise_cons.mp hs
    rcases List.mem_cons.mp hx with e1 | hx' <;> rcases List.mem_cons.mp hy with e2 | hy'
    · rw [e1, e2]
    · have := hs'.1 y hy'; rw [← e1, h] at this; omega
    · have := hs'.1 x hx'; rw [← e2, h] at this; omega
    · exact ih hs'.2 hx' hy'

/-! ### sorted association lists -/

theorem sorted_names_nodup {α : Type} {m : List (Str × α)} (h : AMap.Sorted m) : (m.map Prod.fst).Nodup := by
  unfold AMap.Sorted at h
  rw [List.Nodup, List.pairwise_map]
  exact h.imp (fun hlt => AMap.strLt_ne hlt)

/-- sortedness is a property of the key names -/
theorem sorted_iff_names {α : Type} (m : List (Str × α)) :
    AMap.Sorted m ↔ (m.map Prod.fst).Pairwise (fun a b => AMap.strLt a b = true) := by
  unfold AMap.Sorted
  rw [List.pairwise_map]

theorem sorted_of_same_names {α β : Type} {m : List (Str × α)} {m' : List (Str × β)} (h : AMap.Sorted m)
    (e : m'.map Prod.fst = m.map Prod.fst) : AMap.Sorted m' := by
  rw [sorted_iff_names] at h ⊢; rw [e]; exact h

theorem sorted_filter {α : Type} {m : List (Str × α)} (p : Str × α → Bool) (h : AMap.Sorted m) :
    AMap.Sorted (m.filter p) := List.Pairwise.filter _ h

/-- in a map with distinct names an entry is what `get?` finds -/
theorem get?_of_mem {α : Type} {k : Str} {v : α} : ∀ {m : List (Str × α)}, (m.map Prod.fst).Nodup →
    (k, v) ∈ m → AMap.get? k m = some v
  | [], _, h => by simp at h
  | (k', v') :: rest, hn, h => by
    have hn' := List.nodup_cons.mp hn
    rw [get?_cons]
    rcases List.mem_cons.mp h with e | h
    · simp only [Prod.mk.injEq] at e
      obtain ⟨rfl, rfl⟩ := e
      simp
    · have hne : k' ≠ k := by
        intro e; subst e
        exact hn'.1 (List.mem_map.mpr ⟨(k', v), h, rfl⟩)
      have : (k' == k) = false := by simpa using hne
      rw [this]
      exact get?_of_mem hn'.2 h

theorem get?_none_of_not_mem {α : Type} {k : Str} : ∀ {m : List (Str × α)}, AMap.get? k m = none →
    ∀ v, (k, v) ∉ m
  | [], _, _ => by simp
  | (k', v') :: rest, h, v => by
    rw [get?_cons] at h
    by_cases hk : (k' == k) = true
    · simp [hk] at h
    · simp only [hk] at h
      intro hm
      rcases List.mem_cons.mp hm with e | hm
      · simp only [Prod.mk.injEq] at e
        exact hk (by simp [e.1])
      · exact get?_none_of_not_mem h v hm

/-- `BTreeMap::insert` reports a displaced value exactly when the key was present -/
theorem insert_displaced_iff {α : Type} (k : Str) (v : α) : ∀ {m : List (Str × α)}, AMap.Sorted m →
    ((AMap.insert k v m).2.isSome = true ↔ k ∈ m.map Prod.fst)
  | [], _ => by simp [AMap.insert]
  | (k', v') :: rest, hs => by
    have hs' := List.pairwise_cons.mp hs
    simp only [AMap.insert]
    by_cases h1 : (k' == k) = true
    · rw [if_pos h1]
      simp only [Option.isSome_some, List.map_cons, List.mem_cons, true_iff]
      left; exact (by simpa using h1 : k' = k).symm
    · have hne : k' ≠ k := by simpa using h1
      rw [if_neg h1]
      by_cases h2 : AMap.strLt k k' = true
      · rw [if_pos h2]
        simp only [Option.isSome_none, List.map_cons, List.mem_cons, Bool.false_eq_true, false_iff, not_or]
        refine ⟨fun e => hne e.symm, ?_⟩
        intro hm
        obtain ⟨p, hp, e⟩ := List.mem_map.mp hm
        have := AMap.strLt_trans h2 (hs'.1 p hp)
        rw [e, AMap.strLt_irrefl] at this; simp at this
      · rw [if_neg h2]
        simp only [List.map_cons, List.mem_cons]
        rw [insert_displaced_iff k v hs'.2]
        constructor
        · exact Or.inr
        · rintro (e | e)
          · exact absurd e.symm hne
          · exact e

/-- folding `insert'` keeps sortedness; names are the union (no distinctness needed) -/
theorem insAll_sorted_names {α : Type} : ∀ (l : List (Str × α)) {m : List (Str × α)}, AMap.Sorted m →
    AMap.Sorted (AMap.insAll m l) ∧ ∀ k, k ∈ (AMap.insAll m l).map Prod.fst ↔ k ∈ m.map Prod.fst ∨ k ∈ l.map Prod.fst
  | [], m, hs => ⟨hs, fun k => by simp [AMap.insAll]⟩
  | (k0, v0) :: rest, m, hs => by
    have h1 := (AMap.insert'_spec k0 v0 hs).1
    have ih := insAll_sorted_names rest h1
    refine ⟨ih.1, fun k => ?_⟩
    show k ∈ (AMap.insAll (AMap.insert' k0 v0 m) rest).map Prod.fst ↔ _
    rw [ih.2 k, AMap.keys_insert']
    simp only [List.map_cons, List.mem_cons]
    constructor
    · rintro ((e | e) | e)
      · exact .inr (.inl e)
      · exact .inl e
      · exact .inr (.inr e)
    · rintro (e | e | e)
      · exact .inl (.inr e)
      · exact .inl (.inl e)
      · exact .inr e


/-! ### the reading of a key -/

theorem reading_subkeys (k : Str) (l : Option Loc) : reading (k, .subkeys l) = none := rfl

theorem reading_eq (k : Str) (v : PV) : reading (k, v) = if plainValue v then suffixParse k else none :=
  isPossiblePlural_eq k v

/-- the reading depends on the value only through "is it a plain value" -/
theorem reading_same_key {k : Str} {v v' : PV} {x y : Str × RuleTy × Form}
    (h : reading (k, v) = some x) (h' : reading (k, v') = some y) : x = y := by
  rw [reading_eq] at h h'
  cases hp : plainValue v <;> cases hp' : plainValue v' <;> simp only [hp, hp', if_true] at h h'
  all_goals first | (simp at h; done) | (simp at h'; done) | skip
  rw [h] at h'
  exact Option.some.inj h'

theorem ordinalMark_cons : ordinalMark = '_' :: "ordinal".toList := by decide

/-- the base is a proper prefix of the key -/
theorem reading_prefix {kv : Str × PV} {b : Str} {r : RuleTy} {f : Form} (h : reading kv = some (b, r, f)) :
    ∃ c t, kv.1 = b ++ c :: t := by
  obtain ⟨k, v⟩ := kv
  rw [reading_eq] at h
  cases hp : plainValue v
  · simp [hp] at h
  · simp only [hp, if_true] at h
    have e := ((suffixParse_iff k b r f).mp h).1
    cases r with
    | cardinal => exact ⟨'_', f.name.toList, by simp [e, pluralKey, suffix, ruleMark]⟩
    | ordinal =>
      refine ⟨'_', "ordinal".toList ++ '_' :: f.name.toList, ?_⟩
      show k = _
      rw [e, pluralKey, suffix, ruleMark, ordinalMark_cons]
      simp

theorem reading_base_lt {kv : Str × PV} {b : Str} {r : RuleTy} {f : Form} (h : reading kv = some (b, r, f)) :
    AMap.strLt b kv.1 = true := by
  obtain ⟨c, t, e⟩ := reading_prefix h
  rw [e]; exact strLt_prefix b c t

/-- no white space in a name -/
def NoWs (k : Str) : Prop := ∀ c ∈ k, isWs c = false

theorem reading_noWs {kv : Str × PV} {b : Str} {r : RuleTy} {f : Form} (h : reading kv = some (b, r, f))
    (hk : NoWs kv.1) : NoWs b := by
  obtain ⟨c, t, e⟩ := reading_prefix h
  intro x hx
  exact hk x (by rw [e]; simp [hx])

/-- for a name without white space `Key::new` keeps the name as it is -/
theorem keyNew_of_noWs {b : Str} (h : NoWs b) : Key.new b = some b ∨ Key.new b = none := by
  unfold Key.new
  simp only
  rw [LocaleEnum.trim_id_of_no_ws h]
  split
  · exact .inl rfl
  · exact .inr rfl

theorem keyNew_noWs {raw k : Str} (h : Key.new raw = some k) : NoWs k := (LocaleEnum.keyNew_chars h).2.2


instance (k : Str) : Decidable (NoWs k) := by unfold NoWs; infer_instance

instance {α : Type} (m : List (Str × α)) : Decidable (AMap.Sorted m) := by unfold AMap.Sorted; infer_instance

/-! ### `slotEntry`, `candsOf`, `basesOf` -/

theorem slotEntry_some {K : Keys} {b : Str} {f : Form} {x : Form × Str × RuleTy × PV}
    (h : slotEntry K b f = some x) :
    x.1 = f ∧ (x.2.1, x.2.2.2) ∈ K ∧ reading (x.2.1, x.2.2.2) = some (b, x.2.2.1, f) := by
  unfold slotEntry at h
  obtain ⟨kv, hkv, he⟩ := List.exists_of_findSome?_eq_some h
  cases hr : reading kv with
  | none => simp [hr] at he
  | some t =>
    obtain ⟨b', r, f'⟩ := t
    simp only [hr] at he
    by_cases hc : b' = b ∧ f' = f
    · rw [if_pos hc] at he
      obtain ⟨rfl, rfl⟩ := hc
      simp only [Option.some.injEq] at he
      subst he
      exact ⟨rfl, hkv, hr⟩
    · rw [if_neg hc] at he; simp at he

theorem slotEntry_isSome {K : Keys} {b : Str} {r : RuleTy} {f : Form} {kv : Str × PV} (hkv : kv ∈ K)
    (hr : reading kv = some (b, r, f)) : ∃ x, slotEntry K b f = some x := by
  cases h : slotEntry K b f with
  | some x => exact ⟨x, rfl⟩
  | none =>
    unfold slotEntry at h
    rw [List.findSome?_eq_none_iff] at h
    have := h kv hkv
    simp [hr] at this

theorem mem_allForms (f : Form) : f ∈ allForms := by cases f <;> simp [allForms]

theorem mem_candsOf {K : Keys} {b : Str} {x : Form × Str × RuleTy × PV} :
    x ∈ candsOf K b ↔ slotEntry K b x.1 = some x := by
  unfold candsOf
  rw [List.mem_filterMap]
  constructor
  · rintro ⟨f, _, h⟩
    have := (slotEntry_some h).1
    rw [this]; exact h
  · intro h; exact ⟨x.1, mem_allForms _, h⟩

theorem candsOf_sorted (K : Keys) (b : Str) : FormsSorted (candsOf K b) := by
  unfold candsOf FormsSorted
  rw [List.pairwise_filterMap]
  have : allForms.Pairwise (fun a a' => a.toNat < a'.toNat) := by decide
  refine this.imp ?_
  intro f f' hlt x hx y hy
  rw [(slotEntry_some hx).1, (slotEntry_some hy).1]
  exact hlt

/-- a list sorted by form whose entries are exactly the keys read as forms of `b` is `candsOf K b` -/
theorem cands_eq {K : Keys} {b : Str} {cs : Cands} (hs : FormsSorted cs)
    (hm : ∀ x, x ∈ cs ↔ (x.2.1, x.2.2.2) ∈ K ∧ reading (x.2.1, x.2.2.2) = some (b, x.2.2.1, x.1)) :
    cs = candsOf K b := by
  refine formsSorted_ext hs (candsOf_sorted K b) (fun x => ?_)
  rw [mem_candsOf]
  constructor
  · intro hx
    obtain ⟨h1, h2⟩ := (hm x).mp hx
    obtain ⟨y, hy⟩ := slotEntry_isSome h1 h2
    obtain ⟨y1, y2, y3⟩ := slotEntry_some hy
    have hyc : y ∈ cs := (hm y).mpr ⟨y2, by rw [y1]; exact y3⟩
    rw [hy, formsSorted_unique hs hyc hx y1]
  · intro hx
    obtain ⟨h1, h2, h3⟩ := slotEntry_some hx
    exact (hm x).mpr ⟨h2, h3⟩

/-- slots are not shared: at most one key per `(base, form)` -/
def NoClash (K : Keys) : Prop :=
  ∀ kv ∈ K, ∀ kv' ∈ K, ∀ b r r' f, reading kv = some (b, r, f) → reading kv' = some (b, r', f) → kv = kv'

theorem mem_candsOf_iff {K : Keys} (hc : NoClash K) {b : Str} {x : Form × Str × RuleTy × PV} :
    x ∈ candsOf K b ↔ (x.2.1, x.2.2.2) ∈ K ∧ reading (x.2.1, x.2.2.2) = some (b, x.2.2.1, x.1) := by
  rw [mem_candsOf]
  constructor
  · intro hx
    obtain ⟨h1, h2, h3⟩ := slotEntry_some hx
    exact ⟨h2, by rw [h1]; exact h3⟩
  · rintro ⟨h1, h2⟩
    obtain ⟨y, hy⟩ := slotEntry_isSome h1 h2
    obtain ⟨y1, y2, y3⟩ := slotEntry_some hy
    have := hc _ y2 _ h1 _ _ _ _ y3 h2
    simp only [Prod.mk.injEq] at this
    have e3 := reading_same_key y3 (this.1 ▸ this.2 ▸ h2)
    simp only [Prod.mk.injEq] at e3
    rw [hy]
    obtain ⟨yf, yk, yr, yv⟩ := y
    obtain ⟨xf, xk, xr, xv⟩ := x
    simp only at this e3 y1 ⊢
    rw [this.1, this.2, y1, e3.2.1]

theorem basesOf_spec (K : Keys) :
    (basesOf K).Pairwise (fun a b => AMap.strLt a b = true) ∧
    ∀ b, b ∈ basesOf K ↔ ∃ kv ∈ K, ∃ r f, reading kv = some (b, r, f) := by
  have h := insAll_sorted_names ((K.filterMap reading).map (fun r => (r.1, ()))) (m := [])
    (by simp [AMap.Sorted])
  constructor
  · have := (sorted_iff_names _).mp h.1
    exact this
  · intro b
    unfold basesOf
    rw [AMap.ofList_eq, h.2 b]
    simp only [List.map_nil, List.not_mem_nil, false_or, List.map_map, List.mem_map, List.mem_filterMap,
      Function.comp]
    constructor
    · rintro ⟨t, ⟨kv, hkv, hr⟩, rfl⟩
      exact ⟨kv, hkv, t.2.1, t.2.2, hr⟩
    · rintro ⟨kv, hkv, r, f, hr⟩
      exact ⟨(b, r, f), ⟨kv, hkv, hr⟩, rfl⟩

theorem pairwise_strLt_nodup {l : List Str} (h : l.Pairwise (fun a b => AMap.strLt a b = true)) : l.Nodup :=
  h.imp (fun hlt => AMap.strLt_ne hlt)

/-! ### the specification's first pass, step by step -/

theorem nested_sub (rec : Rec) (path : KeyPath) (k : Str) (sub : Loc) :
    nested rec path k (.subkeys (some sub)) =
      match rec (pushKey path k) sub with
      | .ok (sub', w) => .ok (.subkeys (some sub'), w)
      | .err e => .err e
      | .panic p => .panic p := rfl

theorem nested_plain (rec : Rec) (path : KeyPath) (k : Str) (v : PV) (hv : ∀ sub, v ≠ .subkeys (some sub)) :
    nested rec path k v = .ok (v, []) := by
  cases v with
  | subkeys l =>
    cases l with
    | none => rfl
    | some sub => exact absurd rfl (hv sub)
  | _ => rfl

theorem slotTaken_none {before : Keys} {kv : Str × PV} (h : reading kv = none) : slotTaken before kv = false := by
  simp [slotTaken, h]

theorem slotTaken_iff {before : Keys} {kv : Str × PV} {b : Str} {r : RuleTy} {f : Form}
    (h : reading kv = some (b, r, f)) :
    slotTaken before kv = true ↔ ∃ kv' ∈ before, ∃ r', reading kv' = some (b, r', f) := by
  simp only [slotTaken, h, List.any_eq_true]
  constructor
  · rintro ⟨kv', hm, hd⟩
    cases hr : reading kv' with
    | none => simp [hr] at hd
    | some t =>
      obtain ⟨b', r', f'⟩ := t
      simp only [hr, decide_eq_true_eq] at hd
      obtain ⟨rfl, rfl⟩ := hd
      exact ⟨kv', hm, r', hr⟩
  · rintro ⟨kv', hm, r', hr⟩
    exact ⟨kv', hm, by simp [hr]⟩

section firstPassEqs
variable (rec : Rec) (path : KeyPath) (before : Keys) (k : Str) (v v' : PV) (w : List Warning) (rest : Keys)

theorem fp_nil : firstPass rec path before [] = .ok ([], []) := rfl

theorem fp_nested_err (e : String) (h : nested rec path k v = .err e) :
    firstPass rec path before ((k, v) :: rest) = .err e := by simp only [firstPass, h]

theorem fp_nested_panic (p : String) (h : nested rec path k v = .panic p) :
    firstPass rec path before ((k, v) :: rest) = .panic p := by simp only [firstPass, h]

theorem fp_taken (h : nested rec path k v = .ok (v', w)) (ht : slotTaken before (k, v') = true) :
    firstPass rec path before ((k, v) :: rest) = .err "ConflictingPluralRuleType" := by
  simp only [firstPass, h, ht, if_true]

theorem fp_rest_err (h : nested rec path k v = .ok (v', w)) (ht : slotTaken before (k, v') = false) (e : String)
    (hr : firstPass rec path (before ++ [(k, v')]) rest = .err e) :
    firstPass rec path before ((k, v) :: rest) = .err e := by
  simp only [firstPass, h, ht, hr, Bool.false_eq_true, if_false]

theorem fp_rest_panic (h : nested rec path k v = .ok (v', w)) (ht : slotTaken before (k, v') = false) (p : String)
    (hr : firstPass rec path (before ++ [(k, v')]) rest = .panic p) :
    firstPass rec path before ((k, v) :: rest) = .panic p := by
  simp only [firstPass, h, ht, hr, Bool.false_eq_true, if_false]

theorem fp_rest_ok (h : nested rec path k v = .ok (v', w)) (ht : slotTaken before (k, v') = false)
    (r : Keys) (ws2 : List Warning)
    (hr : firstPass rec path (before ++ [(k, v')]) rest = .ok (r, ws2)) :
    firstPass rec path before ((k, v) :: rest) = .ok ((k, v') :: r, w ++ ws2) := by
  simp only [firstPass, h, ht, hr, Bool.false_eq_true, if_false]
end firstPassEqs

/-! ### the first loop of the model against the first pass -/

/-- what the first loop has built after the keys `done` -/
structure Inv1 (done acc : Keys) (groups : List (Str × Cands)) : Prop where
  accSorted : AMap.Sorted acc
  accMem : ∀ p, p ∈ acc ↔ p ∈ done ∧ reading p = none
  grSorted : AMap.Sorted groups
  grMem : ∀ b cs, (b, cs) ∈ groups → FormsSorted cs ∧ cs ≠ [] ∧
    ∀ x, x ∈ cs ↔ (x.2.1, x.2.2.2) ∈ done ∧ reading (x.2.1, x.2.2.2) = some (b, x.2.2.1, x.1)
  grAll : ∀ kv ∈ done, ∀ b r f, reading kv = some (b, r, f) → ∃ cs, (b, cs) ∈ groups

theorem inv1_nil : Inv1 [] [] [] :=
  ⟨by simp [AMap.Sorted], by simp, by simp [AMap.Sorted], by simp, by simp⟩

/-- the candidates collected so far for `b` -/
theorem inv1_cur {done acc : Keys} {groups : List (Str × Cands)} (h : Inv1 done acc groups) (b : Str) :
    FormsSorted ((AMap.get? b groups).getD []) ∧
    ∀ x, x ∈ (AMap.get? b groups).getD [] ↔
      (x.2.1, x.2.2.2) ∈ done ∧ reading (x.2.1, x.2.2.2) = some (b, x.2.2.1, x.1) := by
  cases hg : AMap.get? b groups with
  | some cs =>
    have := h.grMem b cs (get?_mem b cs groups hg)
    exact ⟨this.1, this.2.2⟩
  | none =>
    refine ⟨by simp [FormsSorted], fun x => ?_⟩
    simp only [Option.getD_none, List.not_mem_nil, false_iff, not_and]
    intro hx hr
    obtain ⟨cs, hcs⟩ := h.grAll _ hx _ _ _ hr
    exact get?_none_of_not_mem hg cs hcs

theorem inv1_keep {done acc : Keys} {groups : List (Str × Cands)} (h : Inv1 done acc groups) {k : Str} {v : PV}
    (hk : k ∉ done.map Prod.fst) (hr : reading (k, v) = none) :
    Inv1 (done ++ [(k, v)]) (AMap.insert' k v acc) groups := by
  have hi := AMap.insert'_spec k v h.accSorted
  refine ⟨hi.1, ?_, h.grSorted, ?_, ?_⟩
  · intro p
    rw [hi.2 p, h.accMem p]
    simp only [List.mem_append, List.mem_singleton]
    constructor
    · rintro (e | ⟨⟨h1, h2⟩, _⟩)
      · subst e; exact ⟨.inr rfl, hr⟩
      · exact ⟨.inl h1, h2⟩
    · rintro ⟨h1 | h1, h2⟩
      · refine .inr ⟨⟨h1, h2⟩, ?_⟩
        intro e; exact hk (List.mem_map.mpr ⟨p, h1, e⟩)
      · exact .inl h1
  · intro b cs hm
    obtain ⟨h1, h2, h3⟩ := h.grMem b cs hm
    refine ⟨h1, h2, fun x => ?_⟩
    rw [h3 x]
    simp only [List.mem_append, List.mem_singleton]
    constructor
    · rintro ⟨a, c⟩; exact ⟨.inl a, c⟩
    · rintro ⟨a | a, c⟩
      · exact ⟨a, c⟩
      · rw [a, hr] at c; cases c
  · intro kv hkv b r f hrd
    rcases List.mem_append.mp hkv with a | a
    · exact h.grAll kv a b r f hrd
    · rw [List.mem_singleton.mp a, hr] at hrd; cases hrd

theorem inv1_displaced {done acc : Keys} {groups : List (Str × Cands)} (h : Inv1 done acc groups) {k : Str} {v : PV}
    {b : Str} {r : RuleTy} {f : Form} (hr : reading (k, v) = some (b, r, f)) :
    (candInsert f (k, r, v) ((AMap.get? b groups).getD [])).2 = true ↔ slotTaken done (k, v) = true := by
  obtain ⟨hs, hm⟩ := inv1_cur h b
  rw [(candInsert_spec f (k, r, v) _ hs).2.1, slotTaken_iff hr]
  constructor
  · rintro ⟨x, hx, e⟩
    obtain ⟨h1, h2⟩ := (hm x).mp hx
    exact ⟨_, h1, x.2.2.1, by rw [← e]; exact h2⟩
  · rintro ⟨kv', hm', r', hr'⟩
    exact ⟨(f, kv'.1, r', kv'.2), (hm _).mpr ⟨hm', hr'⟩, rfl⟩

theorem inv1_cand {done acc : Keys} {groups : List (Str × Cands)} (h : Inv1 done acc groups) {k : Str} {v : PV}
    {b : Str} {r : RuleTy} {f : Form} (hr : reading (k, v) = some (b, r, f))
    (hd : (candInsert f (k, r, v) ((AMap.get? b groups).getD [])).2 = false) :
    Inv1 (done ++ [(k, v)]) acc
      (AMap.insert' b (candInsert f (k, r, v) ((AMap.get? b groups).getD [])).1 groups) := by
  obtain ⟨hs, hm⟩ := inv1_cur h b
  obtain ⟨c1, c2, c3, _⟩ := candInsert_spec f (k, r, v) _ hs
  have hfree : ∀ x ∈ (AMap.get? b groups).getD [], x.1 ≠ f := by
    intro x hx e
    have := c2.mpr ⟨x, hx, e⟩
    rw [hd] at this; cases this
  have hi := AMap.insert'_spec b (candInsert f (k, r, v) ((AMap.get? b groups).getD [])).1 h.grSorted
  refine ⟨h.accSorted, ?_, hi.1, ?_, ?_⟩
  · intro p
    rw [h.accMem p]
    simp only [List.mem_append, List.mem_singleton]
    constructor
    · rintro ⟨a, c⟩; exact ⟨.inl a, c⟩
    · rintro ⟨a | a, c⟩
      · exact ⟨a, c⟩
      · rw [a, hr] at c; cases c
  · intro b0 cs0 hm0
    rcases (hi.2 _).mp hm0 with e | ⟨hm0, hne⟩
    · simp only [Prod.mk.injEq] at e
      obtain ⟨rfl, rfl⟩ := e
      refine ⟨c1, ?_, fun x => ?_⟩
      · intro e
        have := (c3 (f, k, r, v)).mpr (.inl rfl)
        rw [e] at this; cases this
      · rw [c3 x]
        simp only [List.mem_append, List.mem_singleton]
        constructor
        · rintro (e | ⟨hx, _⟩)
          · subst e; exact ⟨.inr rfl, hr⟩
          · obtain ⟨a, c⟩ := (hm x).mp hx
            exact ⟨.inl a, c⟩
        · rintro ⟨a | a, c⟩
          · exact .inr ⟨(hm x).mpr ⟨a, c⟩, hfree x ((hm x).mpr ⟨a, c⟩)⟩
          · left
            rw [a] at c
            have e3 := Option.some.inj (hr.symm.trans c)
            simp only [Prod.mk.injEq] at e3 a
            obtain ⟨xf, xk, xr, xv⟩ := x
            simp only at e3 a ⊢
            rw [← e3.2.1, ← e3.2.2, a.1, a.2]
    · obtain ⟨h1, h2, h3⟩ := h.grMem b0 cs0 hm0
      refine ⟨h1, h2, fun x => ?_⟩
      rw [h3 x]
      simp only [List.mem_append, List.mem_singleton]
      constructor
      · rintro ⟨a, c⟩; exact ⟨.inl a, c⟩
      · rintro ⟨a | a, c⟩
        · exact ⟨a, c⟩
        · rw [a, hr] at c
          simp only [Option.some.injEq, Prod.mk.injEq] at c
          exact absurd c.1.symm hne
  · intro kv hkv b1 r1 f1 hrd
    have key : ∀ cs, (b1, cs) ∈ groups → ∃ cs', (b1, cs') ∈ AMap.insert' b (candInsert f (k, r, v) ((AMap.get? b groups).getD [])).1 groups := by
      intro cs hcs
      by_cases e : b1 = b
      · subst e; exact ⟨_, (hi.2 _).mpr (.inl rfl)⟩
      · exact ⟨cs, (hi.2 _).mpr (.inr ⟨hcs, e⟩)⟩
    rcases List.mem_append.mp hkv with a | a
    · obtain ⟨cs, hcs⟩ := h.grAll kv a b1 r1 f1 hrd
      exact key cs hcs
    · rw [List.mem_singleton.mp a, hr] at hrd
      simp only [Option.some.injEq, Prod.mk.injEq] at hrd
      rw [← hrd.1]
      exact ⟨_, (hi.2 _).mpr (.inl rfl)⟩

/-- the outcome of the first loop, given the outcome of the specification's first pass -/
def LoopOut (done : Keys) (ws : List Warning) :
    Res (Keys × List Warning) → Res (Keys × List (Str × Cands) × List Warning) → Prop
  | .err e, r => r = .err e
  | .panic p, r => r = .panic p
  | .ok o, r => ∃ acc' groups', r = .ok (acc', groups', ws ++ o.2) ∧ Inv1 (done ++ o.1) acc' groups'

theorem loopOut_step {rec : Rec} {path : KeyPath} {done : Keys} {ws w : List Warning} {k : Str} {v v' : PV}
    {rest : Keys} {X : Res (Keys × List (Str × Cands) × List Warning)}
    (hn : nested rec path k v = .ok (v', w)) (ht : slotTaken done (k, v') = false)
    (ih : LoopOut (done ++ [(k, v')]) (ws ++ w) (firstPass rec path (done ++ [(k, v')]) rest) X) :
    LoopOut done ws (firstPass rec path done ((k, v) :: rest)) X := by
  cases hR : firstPass rec path (done ++ [(k, v')]) rest with
  | err e =>
    rw [hR] at ih
    rw [fp_rest_err rec path done k v v' w rest hn ht e hR]
    exact ih
  | panic p =>
    rw [hR] at ih
    rw [fp_rest_panic rec path done k v v' w rest hn ht p hR]
    exact ih
  | ok o =>
    obtain ⟨r, ws2⟩ := o
    rw [hR] at ih
    rw [fp_rest_ok rec path done k v v' w rest hn ht r ws2 hR]
    obtain ⟨acc', groups', e, hinv⟩ := ih
    refine ⟨acc', groups', ?_, ?_⟩
    · rw [e]; simp only [List.append_assoc]
    · simpa only [List.append_assoc, List.singleton_append] using hinv

theorem loop_firstPass (orc : Oracle) (locale : Str) (fuel : Nat) (path : KeyPath) :
    ∀ (todo done acc : Keys) (groups : List (Str × Cands)) (ws : List Warning),
      Inv1 done acc groups → (done.map Prod.fst ++ todo.map Prod.fst).Nodup →
      LoopOut done ws (firstPass (mergePlurals orc locale fuel) path done todo)
        (mergePlurals.loop orc locale fuel path todo acc groups ws)
  | [], done, acc, groups, ws, hinv, _ => by
    rw [loop_nil, fp_nil]
    exact ⟨acc, groups, by simp, by simpa using hinv⟩
  | (k, v) :: rest, done, acc, groups, ws, hinv, hnd => by
    have hk : k ∉ done.map Prod.fst := by
      intro hm
      have := (List.nodup_append.mp hnd).2.2 k hm k (by simp)
      exact this rfl
    have hnd' : ∀ v' : PV, ((done ++ [(k, v')]).map Prod.fst ++ rest.map Prod.fst).Nodup := by
      intro v'; simpa using hnd
    by_cases hsub : ∃ sub, v = .subkeys (some sub)
    · obtain ⟨sub, rfl⟩ := hsub
      rw [loop_subkeys]
      cases hm : mergePlurals orc locale fuel (pushKey path k) sub with
      | err e =>
        rw [fp_nested_err _ _ _ _ _ _ e (by rw [nested_sub, hm])]
        rfl
      | panic p =>
        rw [fp_nested_panic _ _ _ _ _ _ p (by rw [nested_sub, hm])]
        rfl
      | ok o =>
        obtain ⟨sub', w⟩ := o
        have hn : nested (mergePlurals orc locale fuel) path k (.subkeys (some sub)) = .ok (.subkeys (some sub'), w) := by
          rw [nested_sub, hm]
        refine loopOut_step hn (slotTaken_none (reading_subkeys _ _)) ?_
        exact loop_firstPass orc locale fuel path rest _ _ groups _
          (inv1_keep hinv hk (reading_subkeys _ _)) (hnd' _)
    · have hv : ∀ sub, v ≠ .subkeys (some sub) := fun sub e => hsub ⟨sub, e⟩
      have hn := nested_plain (mergePlurals orc locale fuel) path k v hv
      cases hp : reading (k, v) with
      | none =>
        rw [loop_ordinary _ _ _ _ _ _ _ _ _ _ hv hp]
        refine loopOut_step hn (slotTaken_none hp) ?_
        rw [List.append_nil]
        exact loop_firstPass orc locale fuel path rest _ _ groups _ (inv1_keep hinv hk hp) (hnd' _)
      | some t =>
        obtain ⟨b, r, f⟩ := t
        rw [loop_candidate _ _ _ _ _ _ _ _ _ _ _ _ _ hp]
        cases hd : (candInsert f (k, r, v) ((AMap.get? b groups).getD [])).2 with
        | true =>
          rw [fp_taken _ _ _ _ _ _ _ _ hn ((inv1_displaced hinv hp).mp hd)]
          simp [LoopOut]
        | false =>
          have ht : slotTaken done (k, v) = false := by
            cases h : slotTaken done (k, v) with
            | false => rfl
            | true => rw [(inv1_displaced hinv hp).mpr h] at hd; cases hd
          refine loopOut_step hn ht ?_
          rw [List.append_nil]
          simp only [Bool.false_eq_true, if_false]
          exact loop_firstPass orc locale fuel path rest _ _ _ _ (inv1_cand hinv hp hd) (hnd' _)

/-! ### what a successful first pass returns -/

theorem fp_cons_ok {rec : Rec} {path : KeyPath} {before : Keys} {k : Str} {v : PV} {rest keys1 : Keys}
    {w : List Warning} (h : firstPass rec path before ((k, v) :: rest) = .ok (keys1, w)) :
    ∃ v' w0 r ws2, nested rec path k v = .ok (v', w0) ∧ slotTaken before (k, v') = false ∧
      firstPass rec path (before ++ [(k, v')]) rest = .ok (r, ws2) ∧ keys1 = (k, v') :: r ∧ w = w0 ++ ws2 := by
  cases hn : nested rec path k v with
  | err e => rw [fp_nested_err _ _ _ _ _ _ e hn] at h; cases h
  | panic p => rw [fp_nested_panic _ _ _ _ _ _ p hn] at h; cases h
  | ok o =>
    obtain ⟨v', w0⟩ := o
    cases ht : slotTaken before (k, v') with
    | true => rw [fp_taken _ _ _ _ _ _ _ _ hn ht] at h; cases h
    | false =>
      cases hr : firstPass rec path (before ++ [(k, v')]) rest with
      | err e => rw [fp_rest_err _ _ _ _ _ _ _ _ hn ht e hr] at h; cases h
      | panic p => rw [fp_rest_panic _ _ _ _ _ _ _ _ hn ht p hr] at h; cases h
      | ok o2 =>
        obtain ⟨r, ws2⟩ := o2
        rw [fp_rest_ok _ _ _ _ _ _ _ _ hn ht r ws2 hr] at h
        simp only [Res.ok.injEq, Prod.mk.injEq] at h
        exact ⟨v', w0, r, ws2, rfl, ht, hr, h.1.symm, h.2.symm⟩

/-- the first pass keeps the key names and changes a value only by merging the nested locale -/
theorem firstPass_ok_spec {rec : Rec} {path : KeyPath} : ∀ {keys before keys1 : Keys} {w : List Warning},
    firstPass rec path before keys = .ok (keys1, w) →
    keys1.map Prod.fst = keys.map Prod.fst ∧
    (∀ kv ∈ keys, ∃ v' w0, nested rec path kv.1 kv.2 = .ok (v', w0) ∧ (kv.1, v') ∈ keys1) ∧
    (∀ kv1 ∈ keys1, ∃ kv ∈ keys, kv.1 = kv1.1 ∧ ∃ w0, nested rec path kv.1 kv.2 = .ok (kv1.2, w0)) ∧
    (NoClash before → NoClash (before ++ keys1))
  | [], before, keys1, w, h => by
    rw [fp_nil] at h
    simp only [Res.ok.injEq, Prod.mk.injEq] at h
    obtain ⟨rfl, rfl⟩ := h
    simp
  | (k, v) :: rest, before, keys1, w, h => by
    obtain ⟨v', w0, r, ws2, hn, ht, hr, rfl, rfl⟩ := fp_cons_ok h
    obtain ⟨i1, i2, i3, i4⟩ := firstPass_ok_spec hr
    refine ⟨by simp [i1], ?_, ?_, ?_⟩
    · intro kv hkv
      rcases List.mem_cons.mp hkv with e | hkv
      · subst e; exact ⟨v', w0, hn, by simp⟩
      · obtain ⟨a, b, c, d⟩ := i2 kv hkv
        exact ⟨a, b, c, List.mem_cons_of_mem _ d⟩
    · intro kv1 hkv1
      rcases List.mem_cons.mp hkv1 with e | hkv1
      · subst e; exact ⟨(k, v), by simp, rfl, w0, hn⟩
      · obtain ⟨kv, a, b, c⟩ := i3 kv1 hkv1
        exact ⟨kv, List.mem_cons_of_mem _ a, b, c⟩
    · intro hc
      have : NoClash (before ++ [(k, v')]) := by
        intro a ha a' ha' b r r' f hra hra'
        rcases List.mem_append.mp ha with ha | ha <;> rcases List.mem_append.mp ha' with ha' | ha'
        · exact hc a ha a' ha' b r r' f hra hra'
        · rw [List.mem_singleton.mp ha'] at hra' ⊢
          have := (slotTaken_iff hra').mpr ⟨a, ha, r, hra⟩
          rw [ht] at this; cases this
        · rw [List.mem_singleton.mp ha] at hra ⊢
          have := (slotTaken_iff hra).mpr ⟨a', ha', r', hra'⟩
          rw [ht] at this; cases this
        · rw [List.mem_singleton.mp ha, List.mem_singleton.mp ha']
      have := i4 this
      simpa only [List.append_assoc, List.singleton_append] using this

/-! ### the first loop, closed form -/

/-- the ordinary keys the first loop leaves in the map -/
def plainKeys (K : Keys) : Keys := K.filter (fun kv => (reading kv).isNone)

/-- the candidate groups the first loop builds -/
def groupsOf (K : Keys) : List (Str × Cands) := (basesOf K).map (fun b => (b, candsOf K b))

theorem inv1_closed {K acc : Keys} {groups : List (Str × Cands)} (hS : AMap.Sorted K) (h : Inv1 K acc groups) :
    acc = plainKeys K ∧ groups = groupsOf K := by
  constructor
  · refine AMap.sorted_ext h.accSorted (sorted_filter _ hS) (fun p => ?_)
    rw [h.accMem p, plainKeys, List.mem_filter]
    cases reading p <;> simp
  · have hb := basesOf_spec K
    have hs2 : AMap.Sorted (groupsOf K) := by
      rw [sorted_iff_names, groupsOf, List.map_map]
      have : (Prod.fst ∘ fun b => (b, candsOf K b)) = id := rfl
      rw [this, List.map_id]
      exact hb.1
    refine AMap.sorted_ext h.grSorted hs2 (fun p => ?_)
    obtain ⟨b, cs⟩ := p
    simp only [groupsOf, List.mem_map, Prod.mk.injEq]
    constructor
    · intro hm
      obtain ⟨h1, h2, h3⟩ := h.grMem b cs hm
      refine ⟨b, ?_, rfl, (cands_eq h1 h3).symm⟩
      cases cs with
      | nil => exact absurd rfl h2
      | cons x _ =>
        obtain ⟨a, c⟩ := (h3 x).mp (by simp)
        exact (hb.2 b).mpr ⟨_, a, _, _, c⟩
    · rintro ⟨b', hb', rfl, rfl⟩
      obtain ⟨kv, hkv, r, f, hr⟩ := (hb.2 b').mp hb'
      obtain ⟨cs, hcs⟩ := h.grAll kv hkv b' r f hr
      obtain ⟨h1, _, h3⟩ := h.grMem b' cs hcs
      rw [← cands_eq h1 h3]; exact hcs

/-- **The first loop** of `merge_plurals` on a sorted key list, against the first pass of the
    specification: same error / panic, and on success the ordinary keys and the candidate groups
    in closed form. -/
theorem loop_closed (orc : Oracle) (locale : Str) (fuel : Nat) (path : KeyPath) (keys : Keys)
    (hS : AMap.Sorted keys) :
    (∀ e, firstPass (mergePlurals orc locale fuel) path [] keys = .err e →
      mergePlurals.loop orc locale fuel path keys [] [] [] = .err e) ∧
    (∀ p, firstPass (mergePlurals orc locale fuel) path [] keys = .panic p →
      mergePlurals.loop orc locale fuel path keys [] [] [] = .panic p) ∧
    (∀ K w, firstPass (mergePlurals orc locale fuel) path [] keys = .ok (K, w) →
      mergePlurals.loop orc locale fuel path keys [] [] [] = .ok (plainKeys K, groupsOf K, w)) := by
  have h := loop_firstPass orc locale fuel path keys [] [] [] [] inv1_nil
    (by simpa using sorted_names_nodup hS)
  refine ⟨fun e he => ?_, fun p hp => ?_, fun K w hk => ?_⟩
  · rw [he] at h; exact h
  · rw [hp] at h; exact h
  · rw [hk] at h
    obtain ⟨acc', groups', e, hinv⟩ := h
    simp only [List.nil_append] at e hinv
    have hSK : AMap.Sorted K := sorted_of_same_names hS (firstPass_ok_spec hk).1
    obtain ⟨rfl, rfl⟩ := inv1_closed hSK hinv
    exact e

/-! ### the second loop (`finishGroups`) on the closed form -/

theorem eq_of_same_name {K : Keys} (hS : AMap.Sorted K) {p q : Str × PV} (hp : p ∈ K) (hq : q ∈ K)
    (e : p.1 = q.1) : p = q := by
  have hn := sorted_names_nodup hS
  obtain ⟨pk, pv⟩ := p
  obtain ⟨qk, qv⟩ := q
  simp only at e
  subst e
  have h1 := get?_of_mem hn hp
  have h2 := get?_of_mem hn hq
  rw [h1] at h2
  rw [Option.some.inj h2]

/-- the `(key, value)` entries of a candidate list -/
def entriesOf (cs : Cands) : Keys := cs.map (fun x => (x.2.1, x.2.2.2))

theorem putBack_eq (cur : Keys) (cs : Cands) : putBack cur cs = AMap.insAll cur (entriesOf cs) := by
  simp only [putBack, AMap.insAll, entriesOf, List.foldl_map]

theorem mem_entriesOf {K : Keys} (hc : NoClash K) {b : Str} {p : Str × PV} :
    p ∈ entriesOf (candsOf K b) ↔ p ∈ K ∧ ∃ r f, reading p = some (b, r, f) := by
  simp only [entriesOf, List.mem_map]
  constructor
  · rintro ⟨x, hx, rfl⟩
    obtain ⟨h1, h2⟩ := (mem_candsOf_iff hc).mp hx
    exact ⟨h1, _, _, h2⟩
  · rintro ⟨hp, r, f, hr⟩
    exact ⟨(f, p.1, r, p.2), (mem_candsOf_iff hc).mpr ⟨hp, hr⟩, rfl⟩

theorem entries_names_nodup (K : Keys) (b : Str) : ((entriesOf (candsOf K b)).map Prod.fst).Nodup := by
  rw [entriesOf, List.map_map, List.Nodup, List.pairwise_map]
  refine List.Pairwise.imp_of_mem ?_ (candsOf_sorted K b)
  intro x y hx hy hlt e
  have hx' := (slotEntry_some (mem_candsOf.mp hx)).2.2
  have hy' := (slotEntry_some (mem_candsOf.mp hy)).2.2
  simp only [Function.comp] at e
  rw [e] at hx'
  have := reading_same_key hx' hy'
  simp only [Prod.mk.injEq] at this
  rw [this.2.2] at hlt
  exact Nat.lt_irrefl _ hlt

theorem cands_nonempty {K : Keys} {b : Str} (hb : b ∈ basesOf K) : candsOf K b ≠ [] := by
  obtain ⟨kv, hkv, r, f, hr⟩ := ((basesOf_spec K).2 b).mp hb
  obtain ⟨x, hx⟩ := slotEntry_isSome hkv hr
  have : x ∈ candsOf K b := mem_candsOf.mpr (by rw [(slotEntry_some hx).1]; exact hx)
  intro e; rw [e] at this; cases this

theorem find?_other (K : Keys) (b : Str) :
    (candsOf K b).find? (fun x => x.1 == .other) = slotEntry K b .other := by
  cases hso : slotEntry K b .other with
  | none =>
    rw [List.find?_eq_none]
    intro x hx hxo
    have e : x.1 = .other := by simpa using hxo
    have := mem_candsOf.mp hx
    rw [e, hso] at this; cases this
  | some x =>
    have hx1 : x.1 = .other := (slotEntry_some hso).1
    have hx : x ∈ candsOf K b := mem_candsOf.mpr (by rw [hx1]; exact hso)
    cases hf : (candsOf K b).find? (fun x => x.1 == .other) with
    | none =>
      rw [List.find?_eq_none] at hf
      exact absurd (by simp [hx1]) (hf x hx)
    | some y =>
      have hy := List.mem_of_find?_eq_some hf
      have hy1 : y.1 = .other := by simpa using List.find?_some hf
      rw [formsSorted_unique (candsOf_sorted K b) hy hx (hy1.trans hx1.symm)]

theorem merges_false_model {K : Keys} {b : Str} (hb : b ∈ basesOf K) (h : merges K b = false) :
    (candsOf K b).length = 1 ∨ (candsOf K b).find? (fun x => x.1 == .other) = none := by
  simp only [merges, Bool.and_eq_false_iff, decide_eq_false_iff_not, Option.isSome_eq_false_iff,
    Option.isNone_iff_eq_none] at h
  rcases h with h | h
  · left
    have := cands_nonempty hb
    cases hc : candsOf K b with
    | nil => exact absurd hc this
    | cons x xs => rw [hc] at h; simp only [List.length_cons] at h ⊢; omega
  · right; rw [find?_other, h]

theorem merges_true_model {K : Keys} {b : Str} (h : merges K b = true) :
    (candsOf K b).length ≠ 1 ∧ ∃ x, slotEntry K b .other = some x := by
  simp only [merges, Bool.and_eq_true, decide_eq_true_eq, Option.isSome_iff_exists] at h
  exact ⟨by omega, h.2⟩

theorem mem_survivors {K : Keys} {p : Str × PV} :
    p ∈ survivors K ↔ p ∈ K ∧ (reading p = none ∨ ∃ b r f, reading p = some (b, r, f) ∧ merges K b = false) := by
  simp only [survivors, List.mem_filter, survives]
  cases hr : reading p with
  | none => simp
  | some t =>
    obtain ⟨b, r, f⟩ := t
    simp

/-- what the second loop has built after the bases `pre` -/
structure Inv2 (K : Keys) (pre : List Str) (cur : Keys) : Prop where
  sorted : AMap.Sorted cur
  mem : ∀ p, p ∈ cur ↔
    (p ∈ K ∧ (reading p = none ∨ ∃ b r f, reading p = some (b, r, f) ∧ b ∈ pre ∧ merges K b = false)) ∨
    (∃ b ∈ pre, merges K b = true ∧ p = (b, pluralOf K b))

theorem inv2_nil {K : Keys} (hS : AMap.Sorted K) : Inv2 K [] (plainKeys K) := by
  refine ⟨sorted_filter _ hS, fun p => ?_⟩
  simp only [plainKeys, List.mem_filter, Option.isNone_iff_eq_none, List.not_mem_nil, false_and, and_false,
    exists_false, or_false]

/-- order facts about the base being processed -/
theorem bases_split {K : Keys} {pre rest : List Str} {b : Str} (hb : basesOf K = pre ++ b :: rest) :
    b ∈ basesOf K ∧ b ∉ pre ∧ (∀ b' ∈ pre, AMap.strLt b' b = true) ∧ (∀ b' ∈ rest, AMap.strLt b b' = true) := by
  have hp := (basesOf_spec K).1
  rw [hb, List.pairwise_append, List.pairwise_cons] at hp
  refine ⟨by rw [hb]; simp, ?_, fun b' h' => hp.2.2 b' h' b (by simp), hp.2.1.1⟩
  intro hm
  have := hp.2.2 b hm b (by simp)
  rw [AMap.strLt_irrefl] at this; cases this

theorem inv2_keep {K : Keys} (hS : AMap.Sorted K) (hc : NoClash K) {pre rest : List Str} {b : Str} {cur : Keys}
    (hb : basesOf K = pre ++ b :: rest) (h : Inv2 K pre cur) (hm : merges K b = false) :
    Inv2 K (pre ++ [b]) (putBack cur (candsOf K b)) := by
  obtain ⟨_, hbpre, hlt, _⟩ := bases_split hb
  rw [putBack_eq]
  have hi := AMap.insAll_spec (entriesOf (candsOf K b)) h.sorted (entries_names_nodup K b)
  have hfresh : ∀ p ∈ cur, p.1 ∉ (entriesOf (candsOf K b)).map Prod.fst := by
    intro p hp hmem
    obtain ⟨q, hq, e⟩ := List.mem_map.mp hmem
    obtain ⟨hqK, r, f, hqr⟩ := (mem_entriesOf hc).mp hq
    rcases (h.mem p).mp hp with ⟨hpK, hpr⟩ | ⟨b', hb', _, rfl⟩
    · have := eq_of_same_name hS hqK hpK e
      subst this
      rcases hpr with hpr | ⟨b', r', f', hpr, hb', _⟩
      · rw [hpr] at hqr; cases hqr
      · rw [hpr] at hqr
        simp only [Option.some.injEq, Prod.mk.injEq] at hqr
        exact hbpre (hqr.1 ▸ hb')
    · have h1 := reading_base_lt hqr
      rw [e] at h1
      have h2 := hlt b' hb'
      rw [AMap.strLt_asymm h1] at h2; cases h2
  refine ⟨hi.1, fun p => ?_⟩
  rw [hi.2 p]
  constructor
  · rintro (hp | ⟨hp, _⟩)
    · obtain ⟨hpK, r, f, hpr⟩ := (mem_entriesOf hc).mp hp
      exact .inl ⟨hpK, .inr ⟨b, r, f, hpr, by simp, hm⟩⟩
    · rcases (h.mem p).mp hp with ⟨hpK, hpr⟩ | ⟨b', hb', hm', e⟩
      · refine .inl ⟨hpK, ?_⟩
        rcases hpr with hpr | ⟨b', r', f', hpr, hb', hm'⟩
        · exact .inl hpr
        · exact .inr ⟨b', r', f', hpr, by simp [hb'], hm'⟩
      · exact .inr ⟨b', by simp [hb'], hm', e⟩
  · rintro (⟨hpK, hpr⟩ | ⟨b', hb', hm', e⟩)
    · rcases hpr with hpr | ⟨b', r', f', hpr, hb', hm'⟩
      · have hp : p ∈ cur := (h.mem p).mpr (.inl ⟨hpK, .inl hpr⟩)
        exact .inr ⟨hp, hfresh p hp⟩
      · rcases List.mem_append.mp hb' with hb' | hb'
        · have hp : p ∈ cur := (h.mem p).mpr (.inl ⟨hpK, .inr ⟨b', r', f', hpr, hb', hm'⟩⟩)
          exact .inr ⟨hp, hfresh p hp⟩
        · rw [List.mem_singleton.mp hb'] at hpr
          exact .inl ((mem_entriesOf hc).mpr ⟨hpK, r', f', hpr⟩)
    · rcases List.mem_append.mp hb' with hb' | hb'
      · have hp : p ∈ cur := (h.mem p).mpr (.inr ⟨b', hb', hm', e⟩)
        exact .inr ⟨hp, hfresh p hp⟩
      · rw [List.mem_singleton.mp hb', hm] at hm'; cases hm'

theorem inv2_merge {K : Keys} {pre : List Str} {b : Str} {cur : Keys}
    (h : Inv2 K pre cur) (hm : merges K b = true) (hfree : b ∉ cur.map Prod.fst) :
    Inv2 K (pre ++ [b]) (AMap.insert' b (pluralOf K b) cur) := by
  have hi := AMap.insert'_spec b (pluralOf K b) h.sorted
  have hne : ∀ p ∈ cur, p.1 ≠ b := fun p hp e => hfree (List.mem_map.mpr ⟨p, hp, e⟩)
  refine ⟨hi.1, fun p => ?_⟩
  rw [hi.2 p]
  constructor
  · rintro (e | ⟨hp, _⟩)
    · exact .inr ⟨b, by simp, hm, e⟩
    · rcases (h.mem p).mp hp with ⟨hpK, hpr⟩ | ⟨b', hb', hm', e⟩
      · refine .inl ⟨hpK, ?_⟩
        rcases hpr with hpr | ⟨b', r', f', hpr, hb', hm'⟩
        · exact .inl hpr
        · exact .inr ⟨b', r', f', hpr, by simp [hb'], hm'⟩
      · exact .inr ⟨b', by simp [hb'], hm', e⟩
  · rintro (⟨hpK, hpr⟩ | ⟨b', hb', hm', e⟩)
    · rcases hpr with hpr | ⟨b', r', f', hpr, hb', hm'⟩
      · have hp : p ∈ cur := (h.mem p).mpr (.inl ⟨hpK, .inl hpr⟩)
        exact .inr ⟨hp, hne p hp⟩
      · rcases List.mem_append.mp hb' with hb' | hb'
        · have hp : p ∈ cur := (h.mem p).mpr (.inl ⟨hpK, .inr ⟨b', r', f', hpr, hb', hm'⟩⟩)
          exact .inr ⟨hp, hne p hp⟩
        · rw [List.mem_singleton.mp hb', hm] at hm'; cases hm'
    · rcases List.mem_append.mp hb' with hb' | hb'
      · have hp : p ∈ cur := (h.mem p).mpr (.inr ⟨b', hb', hm', e⟩)
        exact .inr ⟨hp, hne p hp⟩
      · rw [List.mem_singleton.mp hb'] at e
        exact .inl e

/-- "a key named `base` already exists", dynamically (in the map being built) and statically (among
    the surviving keys) -/
theorem cur_has_base {K : Keys} {pre rest : List Str} {b : Str} {cur : Keys}
    (hb : basesOf K = pre ++ b :: rest) (h : Inv2 K pre cur) :
    b ∈ cur.map Prod.fst ↔ (survivors K).any (fun kv => kv.1 == b) = true := by
  obtain ⟨_, hbpre, hlt, hgt⟩ := bases_split hb
  rw [List.any_eq_true]
  constructor
  · intro hm
    obtain ⟨p, hp, e⟩ := List.mem_map.mp hm
    rcases (h.mem p).mp hp with ⟨hpK, hpr⟩ | ⟨b', hb', _, rfl⟩
    · refine ⟨p, mem_survivors.mpr ⟨hpK, ?_⟩, by simp [e]⟩
      rcases hpr with hpr | ⟨b', r', f', hpr, _, hm'⟩
      · exact .inl hpr
      · exact .inr ⟨b', r', f', hpr, hm'⟩
    · exact absurd (e ▸ hb') hbpre
  · rintro ⟨p, hp, e⟩
    have e : p.1 = b := by simpa using e
    obtain ⟨hpK, hpr⟩ := mem_survivors.mp hp
    refine List.mem_map.mpr ⟨p, (h.mem p).mpr (.inl ⟨hpK, ?_⟩), e⟩
    rcases hpr with hpr | ⟨b', r', f', hpr, hm'⟩
    · exact .inl hpr
    · refine .inr ⟨b', r', f', hpr, ?_, hm'⟩
      have h1 := reading_base_lt hpr
      rw [e] at h1
      have hb'B : b' ∈ basesOf K := ((basesOf_spec K).2 b').mpr ⟨p, hpK, r', f', hpr⟩
      rw [hb] at hb'B
      rcases List.mem_append.mp hb'B with h' | h'
      · exact h'
      · rcases List.mem_cons.mp h' with h' | h'
        · rw [h', AMap.strLt_irrefl] at h1; cases h1
        · have := hgt b' h'
          rw [AMap.strLt_asymm h1] at this; cases this

/-! #### the error and the warnings of one merged base, case by case -/

section groupCases
variable (orc : Oracle) (locale : Str) (path : KeyPath) (K : Keys) (b : Str)
variable (fo : Form) (ko : Str) (r : RuleTy) (o : PV)
variable (hso : slotEntry K b .other = some (fo, ko, r, o))
include hso

theorem ruleOf_eq : ruleOf K b = r := by simp only [ruleOf, hso]

theorem pluralOf_eq : pluralOf K b = .plurals r "var_count".toList o (formsOf (candsOf K b)) := by
  simp only [pluralOf, hso]; rfl

omit hso in
theorem conflict_eq :
    (othersOf (candsOf K b)).any (fun x => x.2.2.1 != r)
      = (candsOf K b).any (fun x => x.1 != .other && x.2.2.1 != r) := by
  rw [othersOf, List.any_filter]

omit hso in
theorem ge_invalidKey (hk : Key.new b = none) : groupError orc locale K b = some "InvalidKey" := by
  simp [groupError, hk]

theorem ge_conflict (k' : Str) (hk : Key.new b = some k')
    (h : (othersOf (candsOf K b)).any (fun x => x.2.2.1 != r) = true) :
    groupError orc locale K b = some "ConflictingPluralRuleType" := by
  rw [conflict_eq K b r] at h
  simp only [groupError, hk, ruleOf_eq K b fo ko r o hso, h, Option.isNone_some, Bool.false_eq_true, if_false, if_true]

theorem ge_locale (k' : Str) (hk : Key.new b = some k')
    (h : ¬ (othersOf (candsOf K b)).any (fun x => x.2.2.1 != r) = true)
    (hcat : orc.cats locale r = none) :
    groupError orc locale K b = some "InvalidLocale" := by
  rw [conflict_eq K b r] at h
  simp only [groupError, hk, h, ruleOf_eq K b fo ko r o hso, hcat, Option.isNone_some, Option.isNone_none,
    Bool.false_eq_true, if_false, if_true]

theorem ge_normalKey (k' : Str) (hk : Key.new b = some k')
    (h : ¬ (othersOf (candsOf K b)).any (fun x => x.2.2.1 != r) = true)
    (cats : List Form) (hcat : orc.cats locale r = some cats)
    (hs : (survivors K).any (fun kv => kv.1 == b) = true) :
    groupError orc locale K b = some "PluralsAtNormalKey" := by
  rw [conflict_eq K b r] at h
  simp only [groupError, hk, h, ruleOf_eq K b fo ko r o hso, hcat, hs, Option.isNone_some,
    Bool.false_eq_true, if_false, if_true]

theorem ge_none (k' : Str) (hk : Key.new b = some k')
    (h : ¬ (othersOf (candsOf K b)).any (fun x => x.2.2.1 != r) = true)
    (cats : List Form) (hcat : orc.cats locale r = some cats)
    (hs : ¬ (survivors K).any (fun kv => kv.1 == b) = true) :
    groupError orc locale K b = none := by
  rw [conflict_eq K b r] at h
  simp only [groupError, hk, h, ruleOf_eq K b fo ko r o hso, hcat, hs, Option.isNone_some,
    Bool.false_eq_true, if_false]

theorem gw_eq (cats : List Form) (hcat : orc.cats locale r = some cats) :
    groupWarnings orc locale path K b =
      (unused cats (formsOf (candsOf K b))).map (fun f => Warning.unusedForm locale (pushKey path b) f r) := by
  simp only [groupWarnings, ruleOf_eq K b fo ko r o hso, hcat]; rfl
end groupCases

/-! #### the second loop against the specification -/

/-- the outcome of `finishGroups` on the bases `suf` (those before, `pre`, are done), given the
    first error among the merged bases of `suf` -/
def FinOut (orc : Oracle) (locale : Str) (path : KeyPath) (K : Keys) (pre : List Str) (ws : List Warning)
    (R : Res (Keys × List Warning)) : Option String → List Str → Prop
  | some e, _ => R = .err e
  | none, suf =>
    ∃ cur', R = .ok (cur', ws ++ (suf.filter (merges K)).flatMap (groupWarnings orc locale path K)) ∧
      Inv2 K (pre ++ suf) cur'

theorem finOut_keep {orc : Oracle} {locale : Str} {path : KeyPath} {K : Keys} {pre rest : List Str} {b : Str}
    {ws : List Warning} {R : Res (Keys × List Warning)} (hm : merges K b = false)
    (h : FinOut orc locale path K (pre ++ [b]) ws R
      ((rest.filter (merges K)).findSome? (groupError orc locale K)) rest) :
    FinOut orc locale path K pre ws R
      (((b :: rest).filter (merges K)).findSome? (groupError orc locale K)) (b :: rest) := by
  have hf : (b :: rest).filter (merges K) = rest.filter (merges K) := by
    rw [List.filter_cons, hm]; rfl
  rw [hf]
  cases hfs : (rest.filter (merges K)).findSome? (groupError orc locale K) with
  | some e => rw [hfs] at h; exact h
  | none =>
    rw [hfs] at h
    obtain ⟨cur', e, hi⟩ := h
    refine ⟨cur', ?_, ?_⟩
    · rw [hf]; exact e
    · simpa only [List.append_assoc, List.singleton_append] using hi

theorem finOut_merge {orc : Oracle} {locale : Str} {path : KeyPath} {K : Keys} {pre rest : List Str} {b : Str}
    {ws : List Warning} {R : Res (Keys × List Warning)} (hm : merges K b = true)
    (hge : groupError orc locale K b = none)
    (h : FinOut orc locale path K (pre ++ [b]) (ws ++ groupWarnings orc locale path K b) R
      ((rest.filter (merges K)).findSome? (groupError orc locale K)) rest) :
    FinOut orc locale path K pre ws R
      (((b :: rest).filter (merges K)).findSome? (groupError orc locale K)) (b :: rest) := by
  have hf : (b :: rest).filter (merges K) = b :: rest.filter (merges K) := by
    rw [List.filter_cons, hm]; rfl
  rw [hf, List.findSome?_cons, hge]
  cases hfs : (rest.filter (merges K)).findSome? (groupError orc locale K) with
  | some e => rw [hfs] at h; exact h
  | none =>
    rw [hfs] at h
    obtain ⟨cur', e, hi⟩ := h
    refine ⟨cur', ?_, ?_⟩
    · rw [hf, List.flatMap_cons, e, List.append_assoc]
    · simpa only [List.append_assoc, List.singleton_append] using hi

theorem finOut_err {orc : Oracle} {locale : Str} {path : KeyPath} {K : Keys} {pre rest : List Str} {b : Str}
    {ws : List Warning} {R : Res (Keys × List Warning)} (hm : merges K b = true) {e : String}
    (hge : groupError orc locale K b = some e) (h : R = .err e) :
    FinOut orc locale path K pre ws R
      (((b :: rest).filter (merges K)).findSome? (groupError orc locale K)) (b :: rest) := by
  have hf : (b :: rest).filter (merges K) = b :: rest.filter (merges K) := by
    rw [List.filter_cons, hm]; rfl
  rw [hf, List.findSome?_cons, hge]
  exact h

theorem finish_closed (orc : Oracle) (locale : Str) (path : KeyPath) (K : Keys) (hS : AMap.Sorted K)
    (hc : NoClash K) (hW : ∀ kv ∈ K, NoWs kv.1) :
    ∀ (suf pre : List Str) (cur : Keys) (ws : List Warning), basesOf K = pre ++ suf → Inv2 K pre cur →
      FinOut orc locale path K pre ws
        (finishGroups orc locale path (suf.map (fun b => (b, candsOf K b))) cur ws)
        ((suf.filter (merges K)).findSome? (groupError orc locale K)) suf
  | [], pre, cur, ws, _, hinv => by
    refine ⟨cur, ?_, by simpa using hinv⟩
    simp [finishGroups]
  | b :: rest, pre, cur, ws, hb, hinv => by
    obtain ⟨hbB, _, _, _⟩ := bases_split hb
    have hb' : basesOf K = (pre ++ [b]) ++ rest := by simp [hb]
    rw [List.map_cons]
    cases hm : merges K b with
    | false =>
      have hstep : finishGroups orc locale path ((b, candsOf K b) :: rest.map (fun b => (b, candsOf K b))) cur ws
          = finishGroups orc locale path (rest.map (fun b => (b, candsOf K b))) (putBack cur (candsOf K b)) ws := by
        rcases merges_false_model hbB hm with h1 | h1
        · exact finish_single _ _ _ _ _ _ _ _ h1
        · exact finish_no_other _ _ _ _ _ _ _ _ h1
      rw [hstep]
      exact finOut_keep hm (finish_closed orc locale path K hS hc hW rest (pre ++ [b]) _ ws hb'
        (inv2_keep hS hc hb hinv hm))
    | true =>
      obtain ⟨hlen, x, hso⟩ := merges_true_model hm
      obtain ⟨fo, ko, r, o⟩ := x
      have hfind := (find?_other K b).trans hso
      have hstep := finish_merge orc locale path b (candsOf K b) (rest.map (fun b => (b, candsOf K b))) cur ws
        fo ko r o hlen hfind
      have hnw : NoWs b := by
        obtain ⟨kv, hkv, r', f', hr⟩ := ((basesOf_spec K).2 b).mp hbB
        exact reading_noWs hr (hW kv hkv)
      rcases keyNew_of_noWs hnw with hk | hk
      · rw [hk] at hstep
        simp only at hstep
        by_cases hany : (othersOf (candsOf K b)).any (fun x => x.2.2.1 != r) = true
        · rw [if_pos hany] at hstep
          exact finOut_err hm (ge_conflict orc locale K b fo ko r o hso b hk hany) hstep
        · rw [if_neg hany] at hstep
          cases hcat : orc.cats locale r with
          | none =>
            rw [checkForms_err _ _ _ _ _ hcat] at hstep
            exact finOut_err hm (ge_locale orc locale K b fo ko r o hso b hk hany hcat) hstep
          | some cats =>
            rw [checkForms_ok _ _ _ _ _ cats hcat] at hstep
            simp only at hstep
            rw [← pluralOf_eq K b fo ko r o hso] at hstep
            by_cases hdis : (AMap.insert b (pluralOf K b) cur).2.isSome = true
            · rw [if_pos hdis] at hstep
              have hsv := (cur_has_base hb hinv).mp ((insert_displaced_iff b _ hinv.sorted).mp hdis)
              exact finOut_err hm (ge_normalKey orc locale K b fo ko r o hso b hk hany cats hcat hsv) hstep
            · rw [if_neg hdis] at hstep
              have hfree : b ∉ cur.map Prod.fst :=
                fun h => hdis ((insert_displaced_iff b _ hinv.sorted).mpr h)
              have hns : ¬ (survivors K).any (fun kv => kv.1 == b) = true :=
                fun h => hfree ((cur_has_base hb hinv).mpr h)
              rw [hstep]
              refine finOut_merge hm (ge_none orc locale K b fo ko r o hso b hk hany cats hcat hns) ?_
              rw [gw_eq orc locale path K b fo ko r o hso cats hcat]
              exact finish_closed orc locale path K hS hc hW rest (pre ++ [b]) _ _ hb'
                (inv2_merge hinv hm hfree)
      · rw [hk] at hstep
        exact finOut_err hm (ge_invalidKey orc locale K b hk) hstep

/-! ### one level, all levels -/

theorem ge_none_no_survivor {orc : Oracle} {locale : Str} {K : Keys} {b : Str}
    (h : groupError orc locale K b = none) : ¬ (survivors K).any (fun kv => kv.1 == b) = true := by
  intro hs
  unfold groupError at h
  split at h
  · cases h
  · split at h
    · cases h
    · split at h
      · cases h
      · first | cases h | (rw [if_pos hs] at h; cases h)

theorem mem_mergedBases {K : Keys} {b : Str} : b ∈ mergedBases K ↔ b ∈ basesOf K ∧ merges K b = true := by
  simp [mergedBases, List.mem_filter]

/-- the entries of the specified result have distinct names -/
theorem result_names_nodup {orc : Oracle} {locale : Str} {K : Keys} (hS : AMap.Sorted K)
    (hnone : ∀ b ∈ mergedBases K, groupError orc locale K b = none) :
    ((survivors K ++ (mergedBases K).map (fun b => (b, pluralOf K b))).map Prod.fst).Nodup := by
  rw [List.map_append, List.map_map]
  have hid : (Prod.fst ∘ fun b => (b, pluralOf K b)) = id := rfl
  rw [hid, List.map_id, List.nodup_append]
  refine ⟨?_, ?_, ?_⟩
  · exact List.Nodup.sublist (List.Sublist.map _ List.filter_sublist) (sorted_names_nodup hS)
  · exact List.Nodup.sublist List.filter_sublist (pairwise_strLt_nodup (basesOf_spec K).1)
  · intro a ha b hb e
    obtain ⟨p, hp, rfl⟩ := List.mem_map.mp ha
    refine ge_none_no_survivor (hnone b hb) (List.any_eq_true.mpr ⟨p, hp, ?_⟩)
    simp [e]

/-- what a successful second pass returns -/
theorem secondPass_ok_spec {orc : Oracle} {locale : Str} {path : KeyPath} {K keys' : Keys} {ws ws' : List Warning}
    (hS : AMap.Sorted K) (h : secondPass orc locale path K ws = .ok (keys', ws')) :
    (∀ b ∈ mergedBases K, groupError orc locale K b = none) ∧ AMap.Sorted keys' ∧
    (∀ p, p ∈ keys' ↔ p ∈ survivors K ∨ ∃ b ∈ mergedBases K, p = (b, pluralOf K b)) ∧
    ws' = ws ++ (mergedBases K).flatMap (groupWarnings orc locale path K) := by
  unfold secondPass at h
  cases hfs : (mergedBases K).findSome? (groupError orc locale K) with
  | some e => rw [hfs] at h; cases h
  | none =>
    rw [hfs] at h
    simp only [Res.ok.injEq, Prod.mk.injEq] at h
    obtain ⟨rfl, rfl⟩ := h
    have hnone : ∀ b ∈ mergedBases K, groupError orc locale K b = none := by
      rw [List.findSome?_eq_none_iff] at hfs; exact hfs
    have hsp := AMap.ofList_spec _ (result_names_nodup hS hnone)
    refine ⟨hnone, hsp.1, fun p => ?_, rfl⟩
    rw [hsp.2 p, List.mem_append, List.mem_map]
    constructor
    · rintro (h | ⟨b, hb, e⟩)
      · exact .inl h
      · exact .inr ⟨b, hb, e.symm⟩
    · rintro (h | ⟨b, hb, e⟩)
      · exact .inl h
      · exact .inr ⟨b, hb, e.symm⟩

/-- **The second loop** on the closed form of the first loop's output is the second pass of the
    specification. -/
theorem secondPass_closed (orc : Oracle) (locale : Str) (path : KeyPath) (K : Keys) (ws : List Warning)
    (hS : AMap.Sorted K) (hc : NoClash K) (hW : ∀ kv ∈ K, NoWs kv.1) :
    finishGroups orc locale path (groupsOf K) (plainKeys K) ws = secondPass orc locale path K ws := by
  have h := finish_closed orc locale path K hS hc hW (basesOf K) [] (plainKeys K) ws (by simp) (inv2_nil hS)
  unfold secondPass
  change FinOut orc locale path K [] ws (finishGroups orc locale path (groupsOf K) (plainKeys K) ws)
    ((mergedBases K).findSome? (groupError orc locale K)) (basesOf K) at h
  cases hfs : (mergedBases K).findSome? (groupError orc locale K) with
  | some e => rw [hfs] at h; exact h
  | none =>
    rw [hfs] at h
    obtain ⟨cur', e, hinv⟩ := h
    rw [e]
    simp only [List.nil_append] at hinv
    have hnone : ∀ b ∈ mergedBases K, groupError orc locale K b = none := by
      rw [List.findSome?_eq_none_iff] at hfs; exact hfs
    have hnd := result_names_nodup hS hnone
    have hsp := AMap.ofList_spec _ hnd
    have : cur' = AMap.ofList (survivors K ++ (mergedBases K).map (fun b => (b, pluralOf K b))) := by
      refine AMap.sorted_ext hinv.sorted hsp.1 (fun p => ?_)
      rw [hinv.mem p, hsp.2 p, List.mem_append, mem_survivors, List.mem_map]
      constructor
      · rintro (⟨hpK, hpr⟩ | ⟨b, hb, hm, e⟩)
        · refine .inl ⟨hpK, ?_⟩
          rcases hpr with hpr | ⟨b, r, f, hpr, _, hm⟩
          · exact .inl hpr
          · exact .inr ⟨b, r, f, hpr, hm⟩
        · exact .inr ⟨b, mem_mergedBases.mpr ⟨hb, hm⟩, e.symm⟩
      · rintro (⟨hpK, hpr⟩ | ⟨b, hb, e⟩)
        · refine .inl ⟨hpK, ?_⟩
          rcases hpr with hpr | ⟨b, r, f, hpr, hm⟩
          · exact .inl hpr
          · exact .inr ⟨b, r, f, hpr, ((basesOf_spec K).2 b).mpr ⟨p, hpK, r, f, hpr⟩, hm⟩
        · obtain ⟨h1, h2⟩ := mem_mergedBases.mp hb
          exact .inr ⟨b, h1, h2, e.symm⟩
    rw [this]
    rfl

theorem noClash_nil : NoClash [] := by intro a ha; cases ha

/-- **One level**: `merge_plurals` on a locale whose key list is sorted (a `BTreeMap`) and whose key
    names hold no white space (they went through `Key::new`) is the specification `specLevel`, the
    nested locales being merged by the recursive call. -/
theorem mergePlurals_level (orc : Oracle) (locale : Str) (fuel : Nat) (path : KeyPath)
    (n t : Str) (keys : Keys) (s : List Str) (c : Nat)
    (hS : AMap.Sorted keys) (hW : ∀ kv ∈ keys, NoWs kv.1) :
    mergePlurals orc locale (fuel + 1) path (.mk n t keys s c)
      = wrap n t s c (specLevel (mergePlurals orc locale fuel) orc locale path keys) := by
  rw [mergePlurals_succ]
  obtain ⟨l1, l2, l3⟩ := loop_closed orc locale fuel path keys hS
  unfold specLevel
  cases hfp : firstPass (mergePlurals orc locale fuel) path [] keys with
  | err e => rw [l1 e hfp]; rfl
  | panic p => rw [l2 p hfp]; rfl
  | ok o =>
    obtain ⟨K, w⟩ := o
    rw [l3 K w hfp]
    obtain ⟨f1, _, f3, f4⟩ := firstPass_ok_spec hfp
    have hSK : AMap.Sorted K := sorted_of_same_names hS f1
    have hcK : NoClash K := by simpa using f4 noClash_nil
    have hWK : ∀ kv ∈ K, NoWs kv.1 := by
      intro kv1 h1
      obtain ⟨kv, hkv, e, _⟩ := f3 kv1 h1
      rw [← e]; exact hW kv hkv
    simp only
    rw [secondPass_closed orc locale path K w hSK hcK hWK]
    cases secondPass orc locale path K w with
    | ok o => obtain ⟨a, b⟩ := o; rfl
    | err e => rfl
    | panic p => rfl

theorem nested_congr {rec1 rec2 : Rec} {path : KeyPath} {k : Str} {v : PV}
    (h : ∀ sub, v = .subkeys (some sub) → rec1 (pushKey path k) sub = rec2 (pushKey path k) sub) :
    nested rec1 path k v = nested rec2 path k v := by
  by_cases hsub : ∃ sub, v = .subkeys (some sub)
  · obtain ⟨sub, rfl⟩ := hsub
    rw [nested_sub, nested_sub, h sub rfl]
  · have hv : ∀ sub, v ≠ .subkeys (some sub) := fun sub e => hsub ⟨sub, e⟩
    rw [nested_plain _ _ _ _ hv, nested_plain _ _ _ _ hv]

theorem firstPass_congr {rec1 rec2 : Rec} {path : KeyPath} : ∀ (keys before : Keys),
    (∀ k sub, (k, PV.subkeys (some sub)) ∈ keys → rec1 (pushKey path k) sub = rec2 (pushKey path k) sub) →
    firstPass rec1 path before keys = firstPass rec2 path before keys
  | [], _, _ => rfl
  | (k, v) :: rest, before, h => by
    have hn : nested rec1 path k v = nested rec2 path k v :=
      nested_congr (fun sub e => h k sub (by rw [e]; simp))
    have ih : ∀ b', firstPass rec1 path b' rest = firstPass rec2 path b' rest :=
      fun b' => firstPass_congr rest b' (fun k' sub hm => h k' sub (List.mem_cons_of_mem _ hm))
    simp only [firstPass, hn, ih]

theorem specLevel_congr {rec1 rec2 : Rec} (orc : Oracle) (locale : Str) (path : KeyPath) (keys : Keys)
    (h : ∀ k sub, (k, PV.subkeys (some sub)) ∈ keys → rec1 (pushKey path k) sub = rec2 (pushKey path k) sub) :
    specLevel rec1 orc locale path keys = specLevel rec2 orc locale path keys := by
  unfold specLevel
  rw [firstPass_congr keys [] h]

/-- a locale as decoding builds it: at every level the keys are sorted and are `Key`s -/
inductive LocWF : Loc → Prop
  | mk (n t : Str) (keys : Keys) (s : List Str) (c : Nat) :
    AMap.Sorted keys → (∀ kv ∈ keys, NoWs kv.1) →
    (∀ k sub, (k, PV.subkeys (some sub)) ∈ keys → LocWF sub) → LocWF (.mk n t keys s c)

theorem mergePlurals_all (orc : Oracle) (locale : Str) : ∀ (fuel : Nat) (path : KeyPath) (loc : Loc),
    LocWF loc → mergePlurals orc locale fuel path loc = specAll orc locale fuel path loc
  | 0, _, .mk _ _ _ _ _, _ => rfl
  | fuel + 1, path, _, .mk n t keys s c hS hW hsub => by
    rw [mergePlurals_level orc locale fuel path n t keys s c hS hW]
    rw [specLevel_congr orc locale path keys
      (fun k sub hm => mergePlurals_all orc locale fuel (pushKey path k) sub (hsub k sub hm))]
    rfl

/-! ### reading the result -/

theorem wrap_ok_inv {n t : Str} {s : List Str} {c : Nat} {R : Res (Keys × List Warning)} {loc' : Loc}
    {ws' : List Warning} (h : wrap n t s c R = .ok (loc', ws')) :
    ∃ keys', R = .ok (keys', ws') ∧ loc' = .mk n t keys' s c := by
  cases R with
  | ok o =>
    obtain ⟨keys', w⟩ := o
    simp only [wrap, Res.ok.injEq, Prod.mk.injEq] at h
    exact ⟨keys', by rw [h.2], h.1.symm⟩
  | err e => cases h
  | panic p => cases h

/-- a successful `merge_plurals` of one level, taken apart -/
theorem level_ok_inv {orc : Oracle} {locale : Str} {fuel : Nat} {path : KeyPath} {n t : Str} {keys : Keys}
    {s : List Str} {c : Nat} (hS : AMap.Sorted keys) (hW : ∀ kv ∈ keys, NoWs kv.1) {loc' : Loc}
    {ws' : List Warning}
    (h : mergePlurals orc locale (fuel + 1) path (.mk n t keys s c) = .ok (loc', ws')) :
    ∃ K w keys', firstPass (mergePlurals orc locale fuel) path [] keys = .ok (K, w) ∧
      secondPass orc locale path K w = .ok (keys', ws') ∧ loc' = .mk n t keys' s c ∧
      AMap.Sorted K ∧ NoClash K := by
  rw [mergePlurals_level orc locale fuel path n t keys s c hS hW] at h
  obtain ⟨keys', h1, h2⟩ := wrap_ok_inv h
  unfold specLevel at h1
  cases hfp : firstPass (mergePlurals orc locale fuel) path [] keys with
  | err e => rw [hfp] at h1; cases h1
  | panic p => rw [hfp] at h1; cases h1
  | ok o =>
    obtain ⟨K, w⟩ := o
    rw [hfp] at h1
    obtain ⟨f1, _, _, f4⟩ := firstPass_ok_spec hfp
    exact ⟨K, w, keys', rfl, h1, h2, sorted_of_same_names hS f1, by simpa using f4 noClash_nil⟩

theorem merges_iff {K : Keys} {b : Str} :
    merges K b = true ↔ 2 ≤ (candsOf K b).length ∧ ∃ x ∈ candsOf K b, x.1 = .other := by
  simp only [merges, Bool.and_eq_true, decide_eq_true_eq, Option.isSome_iff_exists]
  constructor
  · rintro ⟨h1, x, hx⟩
    exact ⟨h1, x, mem_candsOf.mpr (by rw [(slotEntry_some hx).1]; exact hx), (slotEntry_some hx).1⟩
  · rintro ⟨h1, x, hx, e⟩
    exact ⟨h1, x, by rw [← e]; exact mem_candsOf.mp hx⟩

theorem nested_reading {rec : Rec} {path : KeyPath} {k : Str} {v v' : PV} {w : List Warning}
    (h : nested rec path k v = .ok (v', w)) : reading (k, v') = reading (k, v) := by
  by_cases hsub : ∃ sub, v = .subkeys (some sub)
  · obtain ⟨sub, rfl⟩ := hsub
    rw [nested_sub] at h
    cases hr : rec (pushKey path k) sub with
    | ok o =>
      obtain ⟨sub', w'⟩ := o
      rw [hr] at h
      simp only [Res.ok.injEq, Prod.mk.injEq] at h
      rw [← h.1]; rfl
    | err e => rw [hr] at h; cases h
    | panic p => rw [hr] at h; cases h
  · have hv : ∀ sub, v ≠ .subkeys (some sub) := fun sub e => hsub ⟨sub, e⟩
    rw [nested_plain _ _ _ _ hv] at h
    simp only [Res.ok.injEq, Prod.mk.injEq] at h
    rw [h.1]
end I18nVerif.PluralMap
