import I18nVerif.Model.Decode
/-!
Helper lemmas for C10 (key order does not matter):

* `AMap.strLt` is a strict total order on strings;
* `AMap.insert'` keeps a sorted association list sorted, with the expected entries;
* two sorted association lists with the same entries are equal, hence `AMap.ofList` of two
  permutations of a list with pairwise distinct keys coincide;
* the `localeKeys` loop of `Decode.value` is a fold of `insert'` over independently decoded entries.
-/
namespace I18nVerif
open Str

namespace AMap

theorem strLt_irrefl : ∀ a : Str, strLt a a = false
  | [] => rfl
  | c :: cs => by simp [strLt, strLt_irrefl cs]

theorem strLt_trans : ∀ {a b c : Str}, strLt a b = true → strLt b c = true → strLt a c = true
  | [], [], _, h, _ => by simp [strLt] at h
  | [], _ :: _, [], _, h => by simp [strLt] at h
  | [], _ :: _, _ :: _, _, _ => rfl
  | _ :: _, [], _, h, _ => by simp [strLt] at h
  | _ :: _, _ :: _, [], _, h => by simp [strLt] at h
  | x :: xs, y :: ys, z :: zs, h1, h2 => by
    simp only [strLt] at h1 h2 ⊢
    split at h1
    · split at h2
      · rw [if_pos (by omega)]
      · split at h2
        · simp at h2
        · rw [if_pos (by omega)]
    · split at h1
      · simp at h1
      · split at h2
        · rw [if_pos (by omega)]
        · split at h2
          · simp at h2
          · rw [if_neg (by omega), if_neg (by omega)]
            exact strLt_trans h1 h2

/-- trichotomy: two strings that are not `strLt`-related either way are equal -/
theorem strLt_total : ∀ {a b : Str}, strLt a b = false → strLt b a = false → a = b
  | [], [], _, _ => rfl
  | [], _ :: _, h, _ => by simp [strLt] at h
  | _ :: _, [], _, h => by simp [strLt] at h
  | x :: xs, y :: ys, h1, h2 => by
    simp only [strLt] at h1 h2
    split at h1
    · simp at h1
    · split at h1
      · split at h2
        · simp at h2
        · omega
      · split at h2
        · simp at h2
        · have hx : x = y := Char.toNat_inj.mp (by omega)
          rw [hx, strLt_total h1 h2]

theorem strLt_asymm {a b : Str} (h : strLt a b = true) : strLt b a = false := by
  cases h' : strLt b a with
  | false => rfl
  | true => have := strLt_trans h h'; rw [strLt_irrefl] at this; simp at this

theorem strLt_ne {a b : Str} (h : strLt a b = true) : a ≠ b := by
  intro e; subst e; rw [strLt_irrefl] at h; simp at h

/-- strictly increasing keys -/
def Sorted {α} (m : List (Str × α)) : Prop := m.Pairwise (fun a b => strLt a.1 b.1 = true)

theorem sorted_ext {α} : ∀ {m₁ m₂ : List (Str × α)}, Sorted m₁ → Sorted m₂ →
    (∀ p, p ∈ m₁ ↔ p ∈ m₂) → m₁ = m₂
  | [], [], _, _, _ => rfl
  | [], b :: _, _, _, h => by have := (h b).mpr (by simp); simp at this
  | a :: _, [], _, _, h => by have := (h a).mp (by simp); simp at this
  | a :: r₁, b :: r₂, s₁, s₂, h => by
    have s₁' := List.pairwise_cons.mp s₁
    have s₂' := List.pairwise_cons.mp s₂
    have hab : a = b := by
      have ha := (h a).mp (by simp)
      have hb := (h b).mpr (by simp)
      simp only [List.mem_cons] at ha hb
      rcases ha with ha | ha
      · exact ha
      · rcases hb with hb | hb
        · exact hb.symm
        · have h1 := s₂'.1 a ha
          have h2 := s₁'.1 b hb
          rw [strLt_asymm h1] at h2; simp at h2
    subst hab
    have : r₁ = r₂ := by
      apply sorted_ext s₁'.2 s₂'.2
      intro p
      constructor
      · intro hp
        have := (h p).mp (by simp [hp])
        simp only [List.mem_cons] at this
        rcases this with e | e
        · subst e; have := s₁'.1 p hp; rw [strLt_irrefl] at this; simp at this
        · exact e
      · intro hp
        have := (h p).mpr (by simp [hp])
        simp only [List.mem_cons] at this
        rcases this with e | e
        · subst e; have := s₂'.1 p hp; rw [strLt_irrefl] at this; simp at this
        · exact e
    rw [this]

theorem insert'_nil {α} (k : Str) (v : α) : insert' k v [] = [(k, v)] := rfl

theorem insert'_cons {α} (k : Str) (v : α) (k' : Str) (v' : α) (rest : List (Str × α)) :
    insert' k v ((k', v') :: rest) =
      if k' == k then (k, v) :: rest
      else if strLt k k' then (k, v) :: (k', v') :: rest
      else (k', v') :: insert' k v rest := by
  simp only [insert', insert]
  split
  · rfl
  · split <;> rfl

/-- entries after an insertion into a sorted map: the new entry, and the old ones under other keys -/
theorem insert'_spec {α} (k : Str) (v : α) : ∀ {m : List (Str × α)}, Sorted m →
    Sorted (insert' k v m) ∧ ∀ p, p ∈ insert' k v m ↔ p = (k, v) ∨ (p ∈ m ∧ p.1 ≠ k)
  | [], _ => by
    refine ⟨by simp [insert'_nil, Sorted], ?_⟩
    intro p; simp [insert'_nil]
  | (k', v') :: rest, hs => by
    have hs' := List.pairwise_cons.mp hs
    rw [insert'_cons]
    split
    · rename_i hk
      have hk : k' = k := by simpa using hk
      subst hk
      refine ⟨List.pairwise_cons.mpr ⟨fun p hp => hs'.1 p hp, hs'.2⟩, ?_⟩
      intro p
      simp only [List.mem_cons]
      constructor
      · rintro (h | h)
        · exact .inl h
        · exact .inr ⟨.inr h, fun e => by
            have := hs'.1 p h; rw [e, strLt_irrefl] at this; simp at this⟩
      · rintro (h | ⟨h | h, hne⟩)
        · exact .inl h
        · subst h; exact absurd rfl hne
        · exact .inr h
    · rename_i hk
      have hk : k' ≠ k := by simpa using hk
      split
      · rename_i hlt
        refine ⟨List.pairwise_cons.mpr ⟨?_, hs⟩, ?_⟩
        · intro p hp
          simp only [List.mem_cons] at hp
          rcases hp with hp | hp
          · subst hp; exact hlt
          · exact strLt_trans hlt (hs'.1 p hp)
        · intro p
          simp only [List.mem_cons]
          constructor
          · rintro (h | h | h)
            · exact .inl h
            · subst h; exact .inr ⟨.inl rfl, hk⟩
            · exact .inr ⟨.inr h, fun e => by
                have := strLt_trans hlt (hs'.1 p h)
                rw [e, strLt_irrefl] at this; simp at this⟩
          · rintro (h | ⟨h | h, _⟩)
            · exact .inl h
            · exact .inr (.inl h)
            · exact .inr (.inr h)
      · rename_i hnlt
        have hnlt : strLt k k' = false := by
          cases h : strLt k k' with
          | false => rfl
          | true => exact absurd h hnlt
        have hlt : strLt k' k = true := by
          cases h : strLt k' k with
          | true => rfl
          | false => exact absurd (strLt_total h hnlt) hk
        have ih := insert'_spec k v hs'.2
        refine ⟨List.pairwise_cons.mpr ⟨?_, ih.1⟩, ?_⟩
        · intro p hp
          rcases (ih.2 p).mp hp with e | ⟨hm, _⟩
          · subst e; exact hlt
          · exact hs'.1 p hm
        · intro p
          simp only [List.mem_cons, ih.2 p]
          constructor
          · rintro (h | h | ⟨h, hne⟩)
            · subst h; exact .inr ⟨.inl rfl, hk⟩
            · exact .inl h
            · exact .inr ⟨.inr h, hne⟩
          · rintro (h | ⟨h | h, hne⟩)
            · exact .inr (.inl h)
            · exact .inl h
            · exact .inr (.inr ⟨h, hne⟩)

/-- `ofList` as a fold over pairs -/
def insAll {α} (m : List (Str × α)) (l : List (Str × α)) : List (Str × α) :=
  l.foldl (fun m p => insert' p.1 p.2 m) m

theorem ofList_eq {α} (l : List (Str × α)) : ofList l = insAll [] l := rfl

theorem insAll_spec {α} : ∀ (l : List (Str × α)) {m : List (Str × α)}, Sorted m →
    (l.map Prod.fst).Nodup →
    Sorted (insAll m l) ∧ ∀ p, p ∈ insAll m l ↔ p ∈ l ∨ (p ∈ m ∧ p.1 ∉ l.map Prod.fst)
  | [], m, hs, _ => ⟨hs, fun p => by simp [insAll]⟩
  | (k, v) :: rest, m, hs, hn => by
    have hn' := List.nodup_cons.mp hn
    have h1 := insert'_spec k v hs
    have ih := insAll_spec rest h1.1 hn'.2
    refine ⟨ih.1, ?_⟩
    intro p
    show p ∈ insAll (insert' k v m) rest ↔ _
    rw [ih.2 p, h1.2 p]
    simp only [List.mem_cons, List.map_cons, not_or]
    constructor
    · rintro (h | ⟨h | ⟨h, hne⟩, hnr⟩)
      · exact .inl (.inr h)
      · exact .inl (.inl h)
      · exact .inr ⟨h, hne, hnr⟩
    · rintro ((h | h) | ⟨h, hne, hnr⟩)
      · subst h; exact .inr ⟨.inl rfl, hn'.1⟩
      · exact .inl h
      · exact .inr ⟨.inr ⟨h, hne⟩, hnr⟩

theorem ofList_spec {α} (l : List (Str × α)) (hn : (l.map Prod.fst).Nodup) :
    Sorted (ofList l) ∧ ∀ p, p ∈ ofList l ↔ p ∈ l := by
  have := insAll_spec l (m := []) (by simp [Sorted]) hn
  rw [ofList_eq]
  exact ⟨this.1, fun p => by rw [this.2 p]; simp⟩

theorem ofList_perm {α} {l₁ l₂ : List (Str × α)} (hp : l₁.Perm l₂) (hn : (l₁.map Prod.fst).Nodup) :
    ofList l₁ = ofList l₂ := by
  have hn₂ : (l₂.map Prod.fst).Nodup := (hp.map Prod.fst).nodup_iff.mp hn
  have s₁ := ofList_spec l₁ hn
  have s₂ := ofList_spec l₂ hn₂
  exact sorted_ext s₁.1 s₂.1 (fun p => by rw [s₁.2 p, s₂.2 p]; exact hp.mem_iff)

/-- the same starting from any sorted accumulator -/
theorem insAll_perm {α} {l₁ l₂ : List (Str × α)} {m : List (Str × α)} (hm : Sorted m)
    (hp : l₁.Perm l₂) (hn : (l₁.map Prod.fst).Nodup) : insAll m l₁ = insAll m l₂ := by
  have hn₂ : (l₂.map Prod.fst).Nodup := (hp.map Prod.fst).nodup_iff.mp hn
  have s₁ := insAll_spec l₁ hm hn
  have s₂ := insAll_spec l₂ hm hn₂
  refine sorted_ext s₁.1 s₂.1 (fun p => ?_)
  rw [s₁.2 p, s₂.2 p, hp.mem_iff, (hp.map Prod.fst).mem_iff]

theorem contains_iff {α} {k : Str} : ∀ {m : List (Str × α)}, contains k m = true ↔ k ∈ m.map Prod.fst
  | [] => by simp [contains, get?]
  | (k', v) :: rest => by
    have ih := contains_iff (k := k) (m := rest)
    simp only [contains, get?] at ih ⊢
    split
    · rename_i hk
      have : k' = k := by simpa using hk
      simp [this]
    · rename_i hk
      have : k' ≠ k := by simpa using hk
      simp only [List.map_cons, List.mem_cons]
      rw [ih]
      constructor
      · exact .inr
      · rintro (e | e)
        · exact absurd e.symm this
        · exact e

/-- keys after an insertion (no sortedness needed) -/
theorem keys_insert' {α} {k k' : Str} {v : α} : ∀ {m : List (Str × α)},
    k' ∈ (insert' k v m).map Prod.fst ↔ k' = k ∨ k' ∈ m.map Prod.fst
  | [] => by simp [insert'_nil]
  | (k0, v0) :: rest => by
    rw [insert'_cons]
    split
    · rename_i hk
      have : k0 = k := by simpa using hk
      subst this
      simp only [List.map_cons, List.mem_cons]
      constructor
      · rintro (e | e)
        · exact .inl e
        · exact .inr (.inr e)
      · rintro (e | e | e)
        · exact .inl e
        · exact .inl e
        · exact .inr e
    · split
      · simp only [List.map_cons, List.mem_cons]
      · have ih := keys_insert' (k := k) (k' := k') (v := v) (m := rest)
        simp only [List.map_cons, List.mem_cons, ih]
        constructor
        · rintro (e | e | e)
          · exact .inr (.inl e)
          · exact .inl e
          · exact .inr (.inr e)
        · rintro (e | e | e)
          · exact .inr (.inl e)
          · exact .inl e
          · exact .inr (.inr e)

end AMap

namespace Decode

/-- one entry of a locale object, decoded on its own: trimmed key and value
    (`none` when the key is not an identifier or the value does not decode to `ok`) -/
def entry (fuel : Nat) (top : Str) (p : Str × J) : Option (Str × PV) :=
  match Key.new p.1 with
  | none => none
  | some k' =>
    match value fuel top false k' p.2 with
    | .ok pv => some (k', pv)
    | _ => none

theorem entry_key {fuel : Nat} {top : Str} {p : Str × J} {k : Str} {pv : PV}
    (h : entry fuel top p = some (k, pv)) : k = trim p.1 := by
  unfold entry at h
  split at h
  · simp at h
  · rename_i k' hk
    split at h
    · simp only [Option.some.injEq, Prod.mk.injEq] at h
      unfold Key.new at hk
      simp only at hk
      split at hk
      · simp only [Option.some.injEq] at hk; rw [← h.1, ← hk]
      · simp at hk
    · simp at h

theorem entry_some {fuel : Nat} {top : Str} {k : Str} {x : J} {key' : Str} {pv : PV} :
    entry fuel top (k, x) = some (key', pv) ↔
      Key.new k = some key' ∧ value fuel top false key' x = .ok pv := by
  unfold entry
  simp only
  constructor
  · intro h
    split at h
    · simp at h
    · rename_i k' hk
      split at h
      · rename_i pv' hv
        simp only [Option.some.injEq, Prod.mk.injEq] at h
        rw [← h.1, ← h.2]; exact ⟨hk, hv⟩
      · simp at h
  · rintro ⟨hk, hv⟩
    simp only [hk, hv]

/-- when every entry decodes and the trimmed keys are pairwise distinct and not yet in the
accumulator, the `localeKeys` loop is a fold of `insert'` over the entries -/
theorem localeKeys_ok (fuel : Nat) (top : Str) : ∀ (l : List (Str × J)) (acc : List (Str × PV)),
    (∀ p, p ∈ l → (entry fuel top p).isSome) →
    ((l.filterMap (entry fuel top)).map Prod.fst).Nodup →
    (∀ k, k ∈ (l.filterMap (entry fuel top)).map Prod.fst → k ∉ acc.map Prod.fst) →
    value.localeKeys fuel top l acc = .ok (AMap.insAll acc (l.filterMap (entry fuel top)))
  | [], acc, _, _, _ => by simp [value.localeKeys, AMap.insAll]
  | (k, x) :: rest, acc, h, hn, hd => by
    have h1 := h (k, x) (by simp)
    cases he : entry fuel top (k, x) with
    | none => rw [he] at h1; simp at h1
    | some kv =>
      obtain ⟨key', pv⟩ := kv
      have ⟨hk, hv⟩ := entry_some.mp he
      simp only [List.filterMap_cons, he, List.map_cons, List.nodup_cons] at hn hd
      have hc : AMap.contains key' acc = false := by
        cases hc : AMap.contains key' acc with
        | false => rfl
        | true => exact absurd (AMap.contains_iff.mp hc) (hd key' (by simp))
      have ih := localeKeys_ok fuel top rest (AMap.insert' key' pv acc)
        (fun p hp => h p (by simp [hp])) hn.2
        (fun k' hk' hm => by
          rcases AMap.keys_insert'.mp hm with e | e
          · subst e; exact hn.1 hk'
          · exact hd k' (by simp [hk']) e)
      simp only [value.localeKeys, hk, hv, hc, Bool.false_eq_true, if_false, ih,
        List.filterMap_cons, he, AMap.insAll, List.foldl_cons]

/-- conversely, a successful loop means every entry decoded, the trimmed keys are pairwise
distinct and none of them was in the accumulator -/
theorem localeKeys_ok_inv (fuel : Nat) (top : Str) : ∀ (l : List (Str × J)) (acc r : List (Str × PV)),
    value.localeKeys fuel top l acc = .ok r →
    (∀ p, p ∈ l → (entry fuel top p).isSome) ∧
    ((l.filterMap (entry fuel top)).map Prod.fst).Nodup ∧
    (∀ k, k ∈ (l.filterMap (entry fuel top)).map Prod.fst → k ∉ acc.map Prod.fst)
  | [], _, _, _ => by simp
  | (k, x) :: rest, acc, r, h => by
    simp only [value.localeKeys] at h
    split at h
    · simp at h
    · rename_i key' hk
      split at h
      · simp at h
      · simp at h
      · rename_i pv hv
        split at h
        · simp at h
        · rename_i hc
          have he : entry fuel top (k, x) = some (key', pv) := entry_some.mpr ⟨hk, hv⟩
          have ⟨ih1, ih2, ih3⟩ := localeKeys_ok_inv fuel top rest _ r h
          have hc' : key' ∉ acc.map Prod.fst := fun hm => hc (AMap.contains_iff.mpr hm)
          refine ⟨?_, ?_, ?_⟩
          · intro p hp
            simp only [List.mem_cons] at hp
            rcases hp with rfl | hp
            · rw [he]; rfl
            · exact ih1 p hp
          · simp only [List.filterMap_cons, he, List.map_cons, List.nodup_cons]
            exact ⟨fun hm => ih3 key' hm (AMap.keys_insert'.mpr (.inl rfl)), ih2⟩
          · intro k' hk'
            simp only [List.filterMap_cons, he, List.map_cons, List.mem_cons] at hk'
            rcases hk' with e | e
            · subst e; exact hc'
            · exact fun hm => ih3 k' e (AMap.keys_insert'.mpr (.inr hm))

theorem entries_keys (fuel : Nat) (top : Str) : ∀ (l : List (Str × J)),
    (∀ p, p ∈ l → (entry fuel top p).isSome) →
    (l.filterMap (entry fuel top)).map Prod.fst = l.map (fun p => trim p.1)
  | [], _ => rfl
  | p :: rest, h => by
    have h1 := h p (by simp)
    have ih := entries_keys fuel top rest (fun q hq => h q (by simp [hq]))
    cases he : entry fuel top p with
    | none => rw [he] at h1; simp at h1
    | some kv =>
      obtain ⟨k, pv⟩ := kv
      simp only [List.filterMap_cons, he, List.map_cons, ih, entry_key he]

end Decode
end I18nVerif
