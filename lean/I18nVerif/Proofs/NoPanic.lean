import I18nVerif.Model.Decode
/-!
Helper lemmas for C09 (no panic, fuel suffices, offsets in bounds).

* length facts about the `Str` primitives (`splitOnce`, `splitOnceC`, `splitAtFirst`, `stripPrefix`,
  `trimStart`);
* offset facts about `findOpeningTag`, `closingScan`, `findClosingTag`, `findValidComponent`;
* length facts about the JSON reader (`strBody`, `number`, `value`, `members`, `parseObject`);
* for every `find*` of `Parse`: "no panic if `rec_` does not panic on shorter strings" and
  "same result for two `rec_` that agree on shorter strings";
* `newF`: no panic / fuel irrelevance by induction on the fuel.
-/
namespace I18nVerif
open Str

/-- "not a panic" as a proposition on `Res` -/
abbrev Res.NP (r : Res α) : Prop := r.isPanic = false

@[simp] theorem Res.isPanic_ok (a : α) : (Res.ok a).isPanic = false := rfl
@[simp] theorem Res.isPanic_err (e : String) : (Res.err e : Res α).isPanic = false := rfl
@[simp] theorem Res.isPanic_panic (e : String) : (Res.panic e : Res α).isPanic = true := rfl

namespace Str

theorem splitOnce_len {pat s a b : Str} (h : splitOnce pat s = some (a, b)) :
    a.length + pat.length + b.length = s.length := by
  induction s generalizing a b with
  | nil => simp [splitOnce] at h
  | cons c cs ih =>
    simp only [splitOnce] at h
    split at h
    · rename_i hp
      simp only [Option.some.injEq, Prod.mk.injEq] at h
      obtain ⟨rfl, rfl⟩ := h
      have := List.isPrefixOf_iff_prefix.mp hp
      have hl := this.length_le
      simp only [List.length_nil, List.length_drop, List.length_cons] at *
      omega
    · split at h
      · rename_i a' b' heq
        simp only [Option.some.injEq, Prod.mk.injEq] at h
        obtain ⟨rfl, rfl⟩ := h
        have := ih heq
        simp only [List.length_cons]
        omega
      · simp at h

theorem splitOnceC_len {d : Char} {s a b : Str} (h : splitOnceC d s = some (a, b)) :
    a.length + 1 + b.length = s.length := by
  induction s generalizing a b with
  | nil => simp [splitOnceC] at h
  | cons c cs ih =>
    simp only [splitOnceC] at h
    split at h
    · simp only [Option.some.injEq, Prod.mk.injEq] at h
      obtain ⟨rfl, rfl⟩ := h
      simp only [List.length_nil, List.length_cons]; omega
    · split at h
      · rename_i a' b' heq
        simp only [Option.some.injEq, Prod.mk.injEq] at h
        obtain ⟨rfl, rfl⟩ := h
        have := ih heq
        simp only [List.length_cons]
        omega
      · simp at h

theorem splitAtFirst_len {p : Char → Bool} {s a b : Str} {d : Char}
    (h : splitAtFirst p s = some (a, d, b)) : a.length + 1 + b.length = s.length := by
  induction s generalizing a b d with
  | nil => simp [splitAtFirst] at h
  | cons c cs ih =>
    simp only [splitAtFirst] at h
    split at h
    · simp only [Option.some.injEq, Prod.mk.injEq] at h
      obtain ⟨rfl, rfl, rfl⟩ := h
      simp only [List.length_nil, List.length_cons]; omega
    · split at h
      · rename_i a' d' b' heq
        simp only [Option.some.injEq, Prod.mk.injEq] at h
        obtain ⟨rfl, rfl, rfl⟩ := h
        have := ih heq
        simp only [List.length_cons]
        omega
      · simp at h

theorem stripPrefix_len {pat s r : Str} (h : stripPrefix pat s = some r) :
    pat.length + r.length = s.length := by
  unfold stripPrefix at h
  split at h
  · rename_i hp
    simp only [Option.some.injEq] at h
    subst h
    have := (List.isPrefixOf_iff_prefix.mp hp).length_le
    simp only [List.length_drop]
    omega
  · simp at h

theorem trimStart_len (s : Str) : (trimStart s).length ≤ s.length :=
  (List.dropWhile_sublist _).length_le

theorem trimEnd_len (s : Str) : (trimEnd s).length ≤ s.length := by
  unfold trimEnd
  have := (List.dropWhile_sublist isWs (l := s.reverse)).length_le
  simpa using this

theorem trim_len (s : Str) : (trim s).length ≤ s.length :=
  Nat.le_trans (trimEnd_len _) (trimStart_len _)

end Str
end I18nVerif

namespace I18nVerif.Parse
open I18nVerif Str

theorem findOpeningTag_len {v before key after : Str} {skip : Nat}
    (h : findOpeningTag v = some (before, key, after, skip)) :
    skip + after.length = v.length ∧ before.length + 2 ≤ skip := by
  unfold findOpeningTag at h
  split at h
  · simp at h
  · rename_i b rest h1
    split at h
    · simp at h
    · rename_i ident aft h2
      simp only [Option.some.injEq, Prod.mk.injEq] at h
      obtain ⟨rfl, _, rfl, rfl⟩ := h
      have := splitOnceC_len h1
      have := splitOnceC_len h2
      omega

/-- offsets produced by the scan of `find_closing_tag` stay inside the scanned text -/
theorem closingScan_bounds (key : Str) (lo N : Nat) :
    ∀ (s : Str) (i d : Nat) (f : Option (Nat × Nat)) (a b : Nat),
      lo ≤ i → i + s.length = N →
      (∀ a b, f = some (a, b) → lo ≤ a ∧ a + 2 ≤ b ∧ b ≤ N) →
      closingScan key s i d f = some (a, b) → lo ≤ a ∧ a + 2 ≤ b ∧ b ≤ N := by
  intro s
  induction s with
  | nil =>
    intro i d f a b _ _ hf h
    simp only [closingScan] at h
    exact hf a b h
  | cons c cs ih =>
    intro i d f a b hlo hN hf h
    have hN' : i + 1 + cs.length = N := by simp only [List.length_cons] at hN; omega
    have hlo' : lo ≤ i + 1 := by omega
    simp only [closingScan] at h
    split at h
    · split at h
      · exact ih _ _ _ a b hlo' hN' hf h
      · rename_i identRaw rest hsp
        have hl := splitOnceC_len hsp
        split at h
        · split at h
          · exact ih _ _ _ a b hlo' hN' hf h
          · split at h
            · refine ih _ _ _ a b hlo' hN' ?_ h
              intro a' b' hab
              simp only [Option.some.injEq, Prod.mk.injEq] at hab
              obtain ⟨rfl, rfl⟩ := hab
              omega
            · exact ih _ _ _ a b hlo' hN' hf h
        · split at h
          · exact ih _ _ _ a b hlo' hN' hf h
          · exact ih _ _ _ a b hlo' hN' hf h
    · exact ih _ _ _ a b hlo' hN' hf h

theorem findClosingTag_len {value key keyIdent between after : Str}
    (h : findClosingTag value key = some (keyIdent, between, after)) :
    between.length + 2 + after.length ≤ value.length := by
  unfold findClosingTag at h
  split at h
  · simp at h
  · split at h
    · simp at h
    · rename_i start stop hs
      simp only [Option.some.injEq, Prod.mk.injEq] at h
      obtain ⟨_, rfl, rfl⟩ := h
      have := closingScan_bounds key 0 value.length value 0 0 none start stop (Nat.le_refl _) (by simp)
        (by intro a b h; simp at h) hs
      simp only [List.length_take, List.length_drop]
      omega

theorem findValidComponent_len :
    ∀ (fuel : Nat) (value : Str) (k : Nat) {keyIdent before between after : Str},
      findValidComponent fuel value k = some (keyIdent, before, between, after) →
      before.length + between.length + after.length + 4 ≤ value.length := by
  intro fuel
  induction fuel with
  | zero => intro value k _ _ _ _ h; simp [findValidComponent] at h
  | succ fuel ih =>
    intro value k keyIdent before between after h
    simp only [findValidComponent] at h
    split at h
    · simp at h
    · rename_i b key aft skip ho
      have ⟨h1, h2⟩ := findOpeningTag_len ho
      split at h
      · rename_i ki bt af hc
        simp only [Option.some.injEq, Prod.mk.injEq] at h
        obtain ⟨_, rfl, rfl, rfl⟩ := h
        have := findClosingTag_len hc
        simp only [List.length_take, List.length_drop] at *
        omega
      · exact ih value _ h

/-- the slice `value[..skip_sum + before.len()]` of `find_valid_component` is within the string -/
theorem findValidComponent_before :
    ∀ (fuel : Nat) (value : Str) (k : Nat) {keyIdent before between after : Str},
      findValidComponent fuel value k = some (keyIdent, before, between, after) →
      ∃ k' b, before = value.take (k' + b) ∧ k ≤ k' ∧ k' + b + 2 ≤ value.length := by
  intro fuel
  induction fuel with
  | zero => intro value k _ _ _ _ h; simp [findValidComponent] at h
  | succ fuel ih =>
    intro value k keyIdent before between after h
    simp only [findValidComponent] at h
    split at h
    · simp at h
    · rename_i b key aft skip ho
      have ⟨h1, h2⟩ := findOpeningTag_len ho
      split at h
      · rename_i ki bt af hc
        simp only [Option.some.injEq, Prod.mk.injEq] at h
        obtain ⟨_, rfl, rfl, rfl⟩ := h
        refine ⟨k, b.length, rfl, Nat.le_refl _, ?_⟩
        simp only [List.length_drop] at h1
        have := findClosingTag_len hc
        omega
      · obtain ⟨k', b', e, hk, hb⟩ := ih value _ h
        exact ⟨k', b', e, by omega, hb⟩

/-- the fuel `value.length + 1` of `find_valid_component` is never the reason for `none`:
    any two amounts of fuel larger than the remaining length give the same answer -/
theorem findValidComponent_fuel :
    ∀ (fuel fuel' : Nat) (value : Str) (k : Nat),
      value.length < k + fuel → value.length < k + fuel' →
      findValidComponent fuel value k = findValidComponent fuel' value k := by
  intro fuel
  induction fuel with
  | zero =>
    intro fuel' value k h1 _
    have : value.drop k = [] := by simp; omega
    cases fuel' with
    | zero => rfl
    | succ f => simp [findValidComponent, this, findOpeningTag, splitOnceC]
  | succ fuel ih =>
    intro fuel' value k h1 h2
    cases fuel' with
    | zero =>
      have : value.drop k = [] := by simp; omega
      simp [findValidComponent, this, findOpeningTag, splitOnceC]
    | succ f =>
      simp only [findValidComponent]
      split
      · rfl
      · rename_i b key aft skip ho
        have ⟨h3, h4⟩ := findOpeningTag_len ho
        split
        · rfl
        · exact ih f value _ (by omega) (by omega)

end I18nVerif.Parse

namespace I18nVerif.Json
open I18nVerif Str

/-! ### JSON reader: decoded strings are shorter than their source

`strBody` matches on `Char` literals with overlapping patterns; Lean cannot generate its equation
lemmas (`strBody.eq_def` runs into the recursion limit), so the function is unfolded by hand:
`strBody (c :: rest) = strBody._f (c :: rest) (brecOn.go rest _)` and the matcher equations. -/

theorem strBody_cons (c : Char) (rest : Str) :
    strBody (c :: rest) = strBody._f (c :: rest) (List.brecOn.go rest strBody._f) := by
  delta strBody
  rfl
theorem strBody_fst (rest : Str) :
    (List.brecOn.go rest strBody._f).1 = strBody rest := by
  delta strBody
  rfl
theorem strBody_p1 (e : Char) (rest : Str) :
    (List.brecOn.go (e :: rest) strBody._f).2.1 = strBody rest := by
  delta strBody
  rfl
theorem strBody_p5 (u a b c d : Char) (rest : Str) :
    (List.brecOn.go (u :: a :: b :: c :: d :: rest) strBody._f).2.2.2.2.2.1 = strBody rest := by
  delta strBody
  rfl

theorem strBody_len (s : Str) : ∀ {t r : Str}, strBody s = some (t, r) →
    t.length + r.length + 1 ≤ s.length := by
  induction s using strBody.induct with
  | case1 => intro t r h; exact absurd h (by simp [show strBody [] = none from rfl])
  | case2 rest =>
    intro t r h
    rw [show strBody ('"' :: rest) = some ([], rest) from rfl] at h
    simp only [Option.some.injEq, Prod.mk.injEq] at h
    obtain ⟨rfl, rfl⟩ := h
    simp
  | case3 a b c d rest hh =>
    intro t r h
    rw [strBody_cons] at h
    generalize List.brecOn.go ('u'::a::b::c::d::rest) strBody._f = B at h
    unfold strBody._f at h
    simp [hh] at h
  | case4 a b c d lo hh hs a' b' c' d' rest' hh' =>
    intro t r h
    rw [strBody_cons] at h
    generalize List.brecOn.go ('u'::a::b::c::d::'\\'::'u'::a'::b'::c'::d'::rest') strBody._f = B at h
    unfold strBody._f at h
    simp [hh, hs, hh'] at h
  | case5 a b c d lo hh hs a' b' c' d' rest' lo' hh' hs' ch t0 r0 hb hsc ih =>
    intro t r h
    rw [strBody_cons] at h
    generalize hB : List.brecOn.go ('u'::a::b::c::d::'\\'::'u'::a'::b'::c'::d'::rest') strBody._f = B at h
    unfold strBody._f at h
    simp only [hh, hs, hh', hs', if_true] at h
    split at h
    · rename_i ch1 t1 r1 h1 h2
      subst hB
      have h2' : strBody rest' = some (t1, r1) := by delta strBody; exact h2
      have := ih h2'
      simp only [Option.some.injEq, Prod.mk.injEq] at h
      rw [← h.1, ← h.2]
      simp only [List.length_cons]; omega
    · exact absurd h (by simp)
  | case6 a b c d lo hh hs a' b' c' d' rest' lo' hh' hs' hno ih =>
    intro t r h
    rw [strBody_cons] at h
    generalize hB : List.brecOn.go ('u'::a::b::c::d::'\\'::'u'::a'::b'::c'::d'::rest') strBody._f = B at h
    unfold strBody._f at h
    simp only [hh, hs, hh', hs', if_true] at h
    split at h
    · rename_i ch1 t1 r1 h1 h2
      subst hB
      have h2' : strBody rest' = some (t1, r1) := by delta strBody; exact h2
      exact (hno ch1 t1 r1 h1 h2').elim
    · exact absurd h (by simp)
  | case7 a b c d lo hh hs a' b' c' d' rest' lo' hh' hs' =>
    intro t r h
    rw [strBody_cons] at h
    generalize List.brecOn.go ('u'::a::b::c::d::'\\'::'u'::a'::b'::c'::d'::rest') strBody._f = B at h
    unfold strBody._f at h
    simp [hh, hs, hh', hs'] at h
  | case8 a b c d rest lo hh hs hne =>
    intro t r h
    rw [strBody_cons] at h
    generalize List.brecOn.go ('u'::a::b::c::d::rest) strBody._f = B at h
    unfold strBody._f at h
    simp only [hh, hs, if_true] at h
    exact absurd h (by simp)
  | case9 a b c d rest lo hh hs ch t0 r0 hb hsc ih =>
    intro t r h
    rw [strBody_cons] at h
    have hp := strBody_p5 'u' a b c d rest
    generalize List.brecOn.go ('u'::a::b::c::d::rest) strBody._f = B at h hp
    unfold strBody._f at h
    simp only [hh, hs, hp, hb, hsc] at h
    have h' : ch :: t0 = t ∧ r0 = r := by simpa using h
    obtain ⟨h1, h2⟩ := h'
    have := ih hb
    rw [← h1, ← h2]
    simp only [List.length_cons]; omega
  | case10 a b c d rest lo hh hs hno ih =>
    intro t r h
    rw [strBody_cons] at h
    have hp := strBody_p5 'u' a b c d rest
    generalize List.brecOn.go ('u'::a::b::c::d::rest) strBody._f = B at h hp
    unfold strBody._f at h
    simp only [hh, hs, hp] at h
    exact absurd h (by simp)
  | case11 e rest hne dec ch t0 r0 hb hd =>
    rename_i ih
    intro t r h
    rw [strBody_cons] at h
    have hp := strBody_p1 e rest
    generalize List.brecOn.go (e :: rest) strBody._f = B at h hp
    unfold strBody._f at h
    rw [strBody.match_11.eq_4 _ _ _ _ _ _ _ _ hne] at h
    simp only [hp, hb] at h
    simp only [dec] at hd
    rw [hd] at h
    have h' : ch :: t0 = t ∧ r0 = r := by simpa using h
    obtain ⟨h1, h2⟩ := h'
    have := ih hb
    rw [← h1, ← h2]
    simp only [List.length_cons]; omega
  | case12 e rest hne dec hno =>
    rename_i ih
    intro t r h
    rw [strBody_cons] at h
    have hp := strBody_p1 e rest
    generalize List.brecOn.go (e :: rest) strBody._f = B at h hp
    unfold strBody._f at h
    rw [strBody.match_11.eq_4 _ _ _ _ _ _ _ _ hne] at h
    simp only [hp] at h
    split at h
    · rename_i ch t0 r0 h1 h2
      exact (hno ch t0 r0 h1 h2).elim
    · exact absurd h (by simp)
  | case13 c rest h1 h2 h3 hc =>
    intro t r h
    rw [strBody_cons] at h
    have hp := strBody_fst rest
    generalize List.brecOn.go rest strBody._f = B at h hp
    unfold strBody._f at h
    rw [strBody.match_11.eq_5 _ _ _ _ _ _ _ _ h1 h2 h3] at h
    simp only [hc, if_true] at h
    exact absurd h (by simp)
  | case14 c rest h1 h2 h3 hc t0 r0 hb ih =>
    intro t r h
    rw [strBody_cons] at h
    have hp := strBody_fst rest
    generalize List.brecOn.go rest strBody._f = B at h hp
    unfold strBody._f at h
    rw [strBody.match_11.eq_5 _ _ _ _ _ _ _ _ h1 h2 h3] at h
    simp [hc, hp, hb] at h
    have h' : c :: t0 = t ∧ r0 = r := by simpa using h
    obtain ⟨h1, h2⟩ := h'
    have := ih hb
    rw [← h1, ← h2]
    simp only [List.length_cons]; omega
  | case15 c rest h1 h2 h3 hc hb ih =>
    intro t r h
    rw [strBody_cons] at h
    have hp := strBody_fst rest
    generalize List.brecOn.go rest strBody._f = B at h hp
    unfold strBody._f at h
    rw [strBody.match_11.eq_5 _ _ _ _ _ _ _ _ h1 h2 h3] at h
    simp [hp, hb] at h

theorem numberRaw_len {s : Str} {v : JLit} {rest : Str} (h : numberRaw s = some (v, rest)) :
    rest.length ≤ s.length ∧ (∀ t, v ≠ .str t) := by
  unfold numberRaw at h
  simp only at h
  have e1 : (numberRaw.match_1 (fun _ => Bool × List Char) s (fun r => (true, r)) fun _ => (false, s)).snd.length ≤ s.length := by
    split <;> simp
  generalize (numberRaw.match_1 (fun _ => Bool × List Char) s (fun r => (true, r)) fun _ => (false, s)) = p1 at h e1
  have e2 : (numberRaw.match_3 (fun _ => List Char × List Char × Bool) (List.dropWhile isDigit p1.snd) (fun r => (List.takeWhile isDigit r, List.dropWhile isDigit r, true)) fun _ => ([], List.dropWhile isDigit p1.snd, false)).2.fst.length ≤ p1.snd.length := by
    have h0 := (List.dropWhile_sublist isDigit (l := p1.snd)).length_le
    split
    · rename_i r hr
      have h1 := (List.dropWhile_sublist isDigit (l := r)).length_le
      rw [hr] at h0
      simp only [List.length_cons] at h0
      show (List.dropWhile isDigit r).length ≤ _
      omega
    · exact h0
  generalize (numberRaw.match_3 (fun _ => List Char × List Char × Bool) (List.dropWhile isDigit p1.snd) (fun r => (List.takeWhile isDigit r, List.dropWhile isDigit r, true)) fun _ => ([], List.dropWhile isDigit p1.snd, false)) = p2 at h e2
  split at h
  · simp at h
  split at h
  · simp at h
  split at h
  · simp at h
  split at h
  · simp at h
  rename_i ex rest' hex
  have e3 : rest'.length ≤ p2.2.fst.length := by
    split at hex
    · rename_i c r hc
      split at hex
      · have e4 : (numberRaw.match_5 (fun _ => Bool × List Char) r (fun r' => (true, r')) (fun r' => (false, r')) fun _ => (false, r)).snd.length ≤ r.length := by
          split <;> simp
        generalize (numberRaw.match_5 (fun _ => Bool × List Char) r (fun r' => (true, r')) (fun r' => (false, r')) fun _ => (false, r)) = p3 at hex e4
        split at hex
        · simp at hex
        · simp only [Option.some.injEq, Prod.mk.injEq] at hex
          rw [← hex.2, hc]
          have := (List.dropWhile_sublist isDigit (l := p3.snd)).length_le
          simp only [List.length_cons]
          omega
      · simp only [Option.some.injEq, Prod.mk.injEq] at hex
        rw [← hex.2]; exact Nat.le_refl _
    · simp only [Option.some.injEq, Prod.mk.injEq] at hex
      rw [← hex.2]; exact Nat.le_refl _
  clear hex
  have hl : rest'.length ≤ s.length := by omega
  repeat' split at h
  all_goals
    simp only [Option.some.injEq, Prod.mk.injEq] at h
    obtain ⟨rfl, rfl⟩ := h
    exact ⟨hl, by intro t; simp⟩

theorem checkFinite_eq {r : Option (JLit × Str)} {v : JLit} {rest : Str}
    (h : checkFinite r = some (v, rest)) : r = some (v, rest) := by
  unfold checkFinite at h
  split at h
  · split at h
    · exact h
    · simp at h
  · exact h

theorem number_len {s : Str} {v : JLit} {rest : Str} (h : number s = some (v, rest)) :
    rest.length ≤ s.length ∧ (∀ t, v ≠ .str t) :=
  numberRaw_len (checkFinite_eq h)


theorem value_len {s : Str} {v : JLit} {rest : Str} (h : value s = some (v, rest)) :
    rest.length ≤ s.length ∧ (∀ t, v = .str t → t.length + rest.length + 2 ≤ s.length) := by
  unfold value at h
  split at h
  · rename_i r
    cases hb : strBody r with
    | none => simp [hb] at h
    | some p =>
      obtain ⟨t0, r0⟩ := p
      have := strBody_len r hb
      simp only [hb, Option.map_some, Option.some.injEq, Prod.mk.injEq] at h
      obtain ⟨rfl, rfl⟩ := h
      refine ⟨by simp only [List.length_cons]; omega, ?_⟩
      intro t ht
      simp only [JLit.str.injEq] at ht
      subst ht
      simp only [List.length_cons]; omega
  · simp only [Option.some.injEq, Prod.mk.injEq] at h
    obtain ⟨rfl, rfl⟩ := h
    exact ⟨by simp only [List.length_cons]; omega, by intro t ht; simp at ht⟩
  · simp only [Option.some.injEq, Prod.mk.injEq] at h
    obtain ⟨rfl, rfl⟩ := h
    exact ⟨by simp only [List.length_cons]; omega, by intro t ht; simp at ht⟩
  · have := number_len h
    exact ⟨this.1, fun t ht => absurd ht (this.2 t)⟩

theorem skipWs_len (s : Str) : (skipWs s).length ≤ s.length :=
  (List.dropWhile_sublist _).length_le

/-- every string value of the object is strictly shorter than the object text -/
theorem members_len : ∀ (fuel : Nat) (first : Bool) (s : Str) {ms : List (Str × JLit)} {rest : Str},
    members fuel first s = some (ms, rest) →
    ∀ k t, (k, JLit.str t) ∈ ms → t.length < s.length := by
  intro fuel
  induction fuel with
  | zero => intro first s ms rest h; simp [members] at h
  | succ fuel ih =>
    intro first s ms rest h k t hm
    simp only [members] at h
    have hs := skipWs_len s
    split at h
    · split at h
      · simp only [Option.some.injEq, Prod.mk.injEq] at h
        rw [← h.1] at hm; simp at hm
      · simp at h
    · rename_i s1 hne
      split at h
      · simp at h
      rename_i s2 hs2
      have hs2l : s2.length ≤ s.length := by
        split at hs2
        · simp only [Option.some.injEq] at hs2; rw [← hs2]; exact hs
        · split at hs2
          · rename_i r hr
            simp only [Option.some.injEq] at hs2
            rw [← hs2]
            have := skipWs_len r
            rw [hr] at hs
            simp only [List.length_cons] at hs
            omega
          · simp at hs2
      clear hs2
      split at h
      · rename_i r
        split at h
        · simp at h
        rename_i k0 r1 hb
        have hbl := strBody_len r hb
        split at h
        · rename_i r2 hr2
          have h1 := skipWs_len r1
          rw [hr2] at h1
          have h2 := skipWs_len r2
          split at h
          · simp at h
          rename_i v r3 hv
          have ⟨hv1, hv2⟩ := value_len hv
          have h3 := skipWs_len r3
          simp only [List.length_cons] at h1 hs2l
          split at h
          · simp only [Option.some.injEq, Prod.mk.injEq] at h
            rw [← h.1] at hm
            simp only [List.mem_singleton, Prod.mk.injEq] at hm
            have := hv2 t hm.2.symm
            omega
          · split at h
            · rename_i ms' rest' hrec
              simp only [Option.some.injEq, Prod.mk.injEq] at h
              rw [← h.1] at hm
              simp only [List.mem_cons, Prod.mk.injEq] at hm
              rcases hm with hm | hm
              · have := hv2 t hm.2.symm
                omega
              · have := ih _ _ hrec k t hm
                omega
            · simp at h
        · simp at h
      · simp at h

theorem parseObject_len {s : Str} {ms : List (Str × JLit)} (h : parseObject s = some ms) :
    ∀ k t, (k, JLit.str t) ∈ ms → t.length < s.length := by
  unfold parseObject at h
  split at h
  · rename_i r hr
    split at h
    · rename_i ms' rest hm
      split at h
      · simp only [Option.some.injEq] at h
        subst h
        intro k t hkt
        have := members_len _ _ _ hm k t hkt
        have h1 := skipWs_len s
        rw [hr] at h1
        simp only [List.length_cons] at h1
        omega
      · simp at h
    · simp at h
  · simp at h

end I18nVerif.Json

namespace I18nVerif
open Str

namespace AMap
theorem mem_insert' {α} {k k' : Str} {v v' : α} {m : List (Str × α)}
    (h : (k, v) ∈ insert' k' v' m) : (k, v) = (k', v') ∨ (k, v) ∈ m := by
  unfold insert' at h
  induction m with
  | nil => simp [insert] at h; left; simp [h]
  | cons p rest ih =>
    obtain ⟨k0, v0⟩ := p
    simp only [insert] at h
    split at h
    · simp only [List.mem_cons] at h
      rcases h with h | h
      · left; exact h
      · right; simp [h]
    · split at h
      · simp only [List.mem_cons] at h
        rcases h with h | h | h
        · left; exact h
        · right; simp [h]
        · right; simp [h]
      · simp only [List.mem_cons] at h
        rcases h with h | h
        · right; simp [h]
        · rcases ih h with h | h
          · left; exact h
          · right; simp [h]

theorem mem_foldl_insert' {α} (l : List (Str × α)) (m : List (Str × α)) {k : Str} {v : α}
    (h : (k, v) ∈ l.foldl (fun m (p : Str × α) => insert' p.1 p.2 m) m) : (k, v) ∈ m ∨ (k, v) ∈ l := by
  induction l generalizing m with
  | nil => left; simpa using h
  | cons p rest ih =>
    simp only [List.foldl_cons] at h
    rcases ih _ h with h | h
    · rcases mem_insert' h with h | h
      · right; simp [h]
      · left; exact h
    · right; simp [h]

theorem mem_ofList {α} {l : List (Str × α)} {k : Str} {v : α} (h : (k, v) ∈ ofList l) : (k, v) ∈ l := by
  unfold ofList at h
  rcases mem_foldl_insert' l [] h with h | h
  · simp at h
  · exact h
end AMap

namespace Formatter
theorem parseFormatter_np (s : Str) : (parseFormatter s).isPanic = false := by
  unfold parseFormatter
  simp only
  split <;> rfl
end Formatter

namespace Parse

/-- `rec_` does not panic on any string shorter than `n` -/
def NPbelow (rec_ : Str → Res PV) (n : Nat) : Prop := ∀ x : Str, x.length < n → (rec_ x).isPanic = false
/-- `r1` and `r2` agree on every string shorter than `n` -/
def Agree (r1 r2 : Str → Res PV) (n : Nat) : Prop := ∀ x : Str, x.length < n → r1 x = r2 x

theorem go_np (rec_ : Str → Res PV) : ∀ (l : List (Str × Json.JLit)) (acc : List (Str × PV)),
    (∀ k t, (k, Json.JLit.str t) ∈ l → (rec_ t).isPanic = false) →
    (parseFKArgsInner.go rec_ l acc).isPanic = false := by
  intro l
  induction l with
  | nil => intro acc _; rfl
  | cons p rest ih =>
    intro acc h
    obtain ⟨k, v⟩ := p
    simp only [parseFKArgsInner.go]
    have hrest : ∀ k t, (k, Json.JLit.str t) ∈ rest → (rec_ t).isPanic = false :=
      fun k t hm => h k t (by simp [hm])
    cases v with
    | str t =>
      have := h k t (by simp)
      simp only
      split
      · exact ih _ hrest
      · rfl
      · rename_i p hp; rw [hp] at this; simp at this
    | _ => simp only; exact ih _ hrest

theorem go_congr (r1 r2 : Str → Res PV) : ∀ (l : List (Str × Json.JLit)) (acc : List (Str × PV)),
    (∀ k t, (k, Json.JLit.str t) ∈ l → r1 t = r2 t) →
    parseFKArgsInner.go r1 l acc = parseFKArgsInner.go r2 l acc := by
  intro l
  induction l with
  | nil => intro acc _; rfl
  | cons p rest ih =>
    intro acc h
    obtain ⟨k, v⟩ := p
    simp only [parseFKArgsInner.go]
    have hrest : ∀ k t, (k, Json.JLit.str t) ∈ rest → r1 t = r2 t :=
      fun k t hm => h k t (by simp [hm])
    cases v with
    | str t =>
      have := h k t (by simp)
      simp only [this]
      split
      · exact ih _ hrest
      · rfl
      · rfl
    | _ => simp only; exact ih _ hrest

theorem parseFKArgsInner_np {rec_ : Str → Res PV} {s : Str} (h : NPbelow rec_ s.length) :
    (parseFKArgsInner rec_ s).isPanic = false := by
  unfold parseFKArgsInner
  split
  · rfl
  · rename_i members hm
    exact go_np rec_ _ _ (fun k t hkt => h t (Json.parseObject_len hm k t (AMap.mem_ofList hkt)))

theorem parseFKArgsInner_congr {r1 r2 : Str → Res PV} {s : Str} (h : Agree r1 r2 s.length) :
    parseFKArgsInner r1 s = parseFKArgsInner r2 s := by
  unfold parseFKArgsInner
  split
  · rfl
  · rename_i members hm
    exact go_congr r1 r2 _ _ (fun k t hkt => h t (Json.parseObject_len hm k t (AMap.mem_ofList hkt)))

theorem parseFKArgs_np {rec_ : Str → Res PV} {s : Str} {n : Nat} (hn : s.length ≤ n) (h : NPbelow rec_ n) :
    (parseFKArgs rec_ s).isPanic = false := by
  unfold parseFKArgs
  split
  · rfl
  · rename_i index _
    simp only
    split
    · rfl
    · have : (parseFKArgsInner rec_ (List.take (index + 1) s)).isPanic = false :=
        parseFKArgsInner_np (fun x hx => h x (by simp only [List.length_take] at hx; omega))
      split
      · rfl
      · rfl
      · rename_i p hp; rw [hp] at this; simp at this

theorem parseFKArgs_congr {r1 r2 : Str → Res PV} {s : Str} {n : Nat} (hn : s.length ≤ n) (h : Agree r1 r2 n) :
    parseFKArgs r1 s = parseFKArgs r2 s := by
  unfold parseFKArgs
  split
  · rfl
  · rename_i index _
    simp only
    split
    · rfl
    · have : parseFKArgsInner r1 (List.take (index + 1) s) = parseFKArgsInner r2 (List.take (index + 1) s) :=
        parseFKArgsInner_congr (fun x hx => h x (by simp only [List.length_take] at hx; omega))
      rw [this]

theorem parseFKArgs_after_len {rec_ : Str → Res PV} {s after : Str} {args : List (Str × PV)}
    (h : parseFKArgs rec_ s = .ok (args, after)) : after.length < s.length := by
  unfold parseFKArgs at h
  split at h
  · simp at h
  · rename_i index _
    simp only at h
    split at h
    · simp at h
    · rename_i aft hs
      have h1 := stripPrefix_len hs
      have h2 := trimStart_len (List.drop (index + 1) s)
      split at h
      · simp only [Res.ok.injEq, Prod.mk.injEq] at h
        rw [← h.2]
        simp only [List.length_drop, List.length_cons, List.length_nil] at h1 h2
        omega
      · simp at h
      · simp at h
end Parse
end I18nVerif

namespace I18nVerif.Parse
open I18nVerif Str

theorem parseFormatter_ne_panic (s : Str) (p : String) : Formatter.parseFormatter s ≠ .panic p := by
  intro h
  have := Formatter.parseFormatter_np s
  rw [h] at this
  simp at this

theorem findVariable_np {rec_ : Str → Res PV} {value : Str} {r : Res PV}
    (hr : NPbelow rec_ value.length) (h : findVariable rec_ value = some r) : r.isPanic = false := by
  unfold findVariable at h
  split at h
  · simp at h
  rename_i before rest h1
  split at h
  · simp at h
  rename_i ident after h2
  have l1 := splitOnce_len h1
  have l2 := splitOnce_len h2
  have hb := hr before (by simp at l1; omega)
  have ha := hr after (by simp at l1 l2; omega)
  simp only at h
  repeat' split at h
  all_goals first
    | (simp only [Option.some.injEq] at h; subst h; simp_all [parseFormatter_ne_panic])
    | simp at h

theorem findVariable_congr {r1 r2 : Str → Res PV} {value : Str}
    (hr : Agree r1 r2 value.length) : findVariable r1 value = findVariable r2 value := by
  unfold findVariable
  split
  · rfl
  rename_i before rest h1
  split
  · rfl
  rename_i ident after h2
  have l1 := splitOnce_len h1
  have l2 := splitOnce_len h2
  have hb := hr before (by simp at l1; omega)
  have ha := hr after (by simp at l1 l2; omega)
  simp only [hb, ha]

theorem findComponent_np {rec_ : Str → Res PV} {value : Str} {r : Res PV}
    (hr : NPbelow rec_ value.length) (h : findComponent rec_ value = some r) : r.isPanic = false := by
  unfold findComponent at h
  split at h
  · simp at h
  rename_i key before between after h1
  have l1 := findValidComponent_len _ _ _ h1
  have hb := hr before (by omega)
  have hm := hr between (by omega)
  have ha := hr after (by omega)
  repeat' split at h
  all_goals first
    | (simp only [Option.some.injEq] at h; subst h; simp_all)
    | simp at h

theorem findComponent_congr {r1 r2 : Str → Res PV} {value : Str}
    (hr : Agree r1 r2 value.length) : findComponent r1 value = findComponent r2 value := by
  unfold findComponent
  split
  · rfl
  rename_i key before between after h1
  have l1 := findValidComponent_len _ _ _ h1
  have hb := hr before (by omega)
  have hm := hr between (by omega)
  have ha := hr after (by omega)
  simp only [hb, hm, ha]

theorem findForeignKey_np {rec_ : Str → Res PV} {value : Str} {r : Res PV}
    (hr : NPbelow rec_ value.length) (h : findForeignKey rec_ value = some r) : r.isPanic = false := by
  unfold findForeignKey at h
  split at h
  · simp at h
  rename_i before rest h1
  split at h
  · simp at h
  rename_i keypath sep after h2
  split at h
  · simp at h
  rename_i target _
  have l1 := splitOnce_len h1
  have l2 := splitAtFirst_len h2
  have l1' : before.length + 3 + rest.length = value.length := by simpa using l1
  have hb := hr before (by omega)
  have hargs : (parseFKArgs rec_ after).isPanic = false :=
    parseFKArgs_np (n := value.length) (by omega) hr
  simp only at h
  split at h
  · simp only [Option.some.injEq] at h; subst h; rfl
  · rename_i p hp
    split at hp
    · rw [hp] at hargs; simp at hargs
    · simp at hp
  · rename_i args after' hok
    have hal : after'.length < value.length := by
      split at hok
      · have := parseFKArgs_after_len hok; omega
      · simp only [Res.ok.injEq, Prod.mk.injEq] at hok
        rw [← hok.2]; omega
    have ha := hr after' hal
    repeat' split at h
    all_goals first
      | (simp only [Option.some.injEq] at h; subst h; simp_all)
      | simp at h

theorem findForeignKey_congr {r1 r2 : Str → Res PV} {value : Str}
    (hr : Agree r1 r2 value.length) : findForeignKey r1 value = findForeignKey r2 value := by
  unfold findForeignKey
  split
  · rfl
  rename_i before rest h1
  split
  · rfl
  rename_i keypath sep after h2
  split
  · rfl
  rename_i target _
  have l1 := splitOnce_len h1
  have l2 := splitAtFirst_len h2
  have l1' : before.length + 3 + rest.length = value.length := by simpa using l1
  have hb := hr before (by omega)
  have hargs : parseFKArgs r1 after = parseFKArgs r2 after :=
    parseFKArgs_congr (n := value.length) (by omega) hr
  simp only [hargs, hb]
  split
  · rfl
  · rfl
  · rename_i args after' hok
    have hal : after'.length < value.length := by
      split at hok
      · have := parseFKArgs_after_len hok; omega
      · simp only [Res.ok.injEq, Prod.mk.injEq] at hok
        rw [← hok.2]; omega
    rw [hr after' hal]

theorem newF_np : ∀ (fuel : Nat) (s : Str), s.length < fuel → (newF fuel s).isPanic = false := by
  intro fuel
  induction fuel with
  | zero => intro s h; omega
  | succ fuel ih =>
    intro s hs
    have hr : NPbelow (newF fuel) s.length := fun x hx => ih x (by omega)
    simp only [newF]
    split
    · rename_i r h; exact findForeignKey_np hr h
    · split
      · rename_i r h; exact findComponent_np hr h
      · split
        · rename_i r h; exact findVariable_np hr h
        · rfl

theorem newF_fuel : ∀ (fuel fuel' : Nat) (s : Str), s.length < fuel → s.length < fuel' →
    newF fuel s = newF fuel' s := by
  intro fuel
  induction fuel with
  | zero => intro _ s h; omega
  | succ fuel ih =>
    intro fuel' s hs hs'
    cases fuel' with
    | zero => omega
    | succ fuel' =>
      have hr : Agree (newF fuel) (newF fuel') s.length := fun x hx => ih fuel' x (by omega) (by omega)
      simp only [newF]
      rw [findForeignKey_congr hr, findComponent_congr hr, findVariable_congr hr]

end I18nVerif.Parse

namespace I18nVerif
open Str

namespace Ranges
theorem newSimple_np (t : RangeTy) (s : Str) : (newSimple t s).isPanic = false := by
  unfold newSimple
  simp only
  repeat' split
  all_goals first
    | rfl
    | (rename_i hq; repeat' split at hq
       all_goals simp at hq)

theorem newPiece_np (t : RangeTy) (s : Str) : (newPiece t s).isPanic = false := by
  unfold newPiece
  simp only
  split
  · rfl
  · exact newSimple_np _ _

theorem new_go_np (t : RangeTy) : ∀ (l : List Str) (acc : List Range), (new.go t l acc).isPanic = false := by
  intro l
  induction l with
  | nil => intro acc; rfl
  | cons p ps ih =>
    intro acc
    simp only [new.go]
    have := newPiece_np t p
    split
    · exact ih _
    · rfl
    · rename_i q hq; rw [hq] at this; simp at this

theorem new_np (t : RangeTy) (s : Str) : (Ranges.new t s).isPanic = false := by
  unfold Ranges.new
  simp only
  split
  · rfl
  · split
    · exact new_go_np _ _ _
    · exact newSimple_np _ _
end Ranges

namespace Decode

mutual
theorem rangeSpec_np (t : RangeTy) : ∀ j : J, (rangeSpec t j).isPanic = false
  | .str s => by simp only [rangeSpec]; exact Ranges.new_np t s
  | .unsigned n => by
    simp only [rangeSpec]; repeat' split
    all_goals rfl
  | .signed i => by
    simp only [rangeSpec]; repeat' split
    all_goals rfl
  | .float d => by
    simp only [rangeSpec]; repeat' split
    all_goals rfl
  | .arr l => by simp only [rangeSpec]; exact rangeSeq_np t l
  | .null => by simp [rangeSpec]
  | .bool _ => by simp [rangeSpec]
  | .obj _ => by simp [rangeSpec]
theorem rangeSeq_np (t : RangeTy) : ∀ l : List J, (rangeSpec.rangeSeq t l).isPanic = false
  | [] => by simp [rangeSpec.rangeSeq]
  | first :: rest => by
    have h1 := rangeSpec_np t first
    have h2 := rangeList_np t rest
    simp only [rangeSpec.rangeSeq]
    repeat' split
    all_goals simp_all
theorem rangeList_np (t : RangeTy) : ∀ l : List J, (rangeSpec.rangeList t l).isPanic = false
  | [] => by simp [rangeSpec.rangeList]
  | x :: xs => by
    have h1 := rangeSpec_np t x
    have h2 := rangeList_np t xs
    simp only [rangeSpec.rangeList]
    repeat' split
    all_goals simp_all
end

theorem structFields_np : ∀ (l : List (Str × J)) (c v : Option J), (structFields l c v).isPanic = false := by
  intro l
  induction l with
  | nil => intro c v; rfl
  | cons p rest ih =>
    intro c v
    obtain ⟨k, x⟩ := p
    simp only [structFields]
    repeat' split
    all_goals first | rfl | exact ih _ _

end Decode
end I18nVerif

namespace I18nVerif
open Str
namespace Decode

theorem size_pos (j : J) : 0 < J.size j := by
  cases j <;> simp [J.size] <;> omega

theorem mem_sizeL {x : J} : ∀ {l : List J}, x ∈ l → J.size x ≤ J.sizeL l
  | [], h => by simp at h
  | y :: ys, h => by
    simp only [List.mem_cons] at h
    simp only [J.sizeL]
    rcases h with rfl | h
    · omega
    · have := mem_sizeL h; omega

theorem mem_sizeO {k : Str} {x : J} : ∀ {l : List (Str × J)}, (k, x) ∈ l → J.size x ≤ J.sizeO l
  | [], h => by simp at h
  | (k', y) :: ys, h => by
    simp only [List.mem_cons, Prod.mk.injEq] at h
    simp only [J.sizeO]
    rcases h with ⟨_, rfl⟩ | h
    · omega
    · have := mem_sizeO h; omega

theorem structFields_mem : ∀ (l : List (Str × J)) (c0 v0 c v : Option J),
    structFields l c0 v0 = .ok (c, v) → ∀ vj, v = some vj → v0 = some vj ∨ ∃ k, (k, vj) ∈ l := by
  intro l
  induction l with
  | nil =>
    intro c0 v0 c v h vj hv
    simp only [structFields, Res.ok.injEq, Prod.mk.injEq] at h
    left; rw [h.2, hv]
  | cons p rest ih =>
    intro c0 v0 c v h vj hv
    obtain ⟨k, x⟩ := p
    simp only [structFields] at h
    split at h
    · split at h
      · simp at h
      · rcases ih _ _ _ _ h vj hv with h' | ⟨k', h'⟩
        · left; exact h'
        · right; exact ⟨k', by simp [h']⟩
    · split at h
      · split at h
        · simp at h
        · rcases ih _ _ _ _ h vj hv with h' | ⟨k', h'⟩
          · simp only [Option.some.injEq] at h'
            right; exact ⟨k, by simp [h']⟩
          · right; exact ⟨k', by simp [h']⟩
      · simp at h

theorem pairs_np (pair : RangeTy → J → Res (Range × PV)) (t : RangeTy) : ∀ (l : List J),
    (∀ x, x ∈ l → (pair t x).isPanic = false) → (value.pairs pair t l).isPanic = false := by
  intro l
  induction l with
  | nil => intro _; simp [value.pairs]
  | cons x xs ih =>
    intro h
    have h1 := h x (by simp)
    have h2 := ih (fun y hy => h y (by simp [hy]))
    simp only [value.pairs]
    repeat' split
    all_goals simp_all

theorem localeKeys_np (fuel : Nat) (top : Str)
    (ih : ∀ (top : Str) (inRange : Bool) (key : Str) (j : J), J.size j < fuel → (value fuel top inRange key j).isPanic = false) :
    ∀ (l : List (Str × J)) (acc : List (Str × PV)), J.sizeO l < fuel →
      (value.localeKeys fuel top l acc).isPanic = false := by
  intro l
  induction l with
  | nil => intro acc _; simp [value.localeKeys]
  | cons p rest ihl =>
    intro acc hs
    obtain ⟨k, x⟩ := p
    simp only [J.sizeO] at hs
    simp only [value.localeKeys]
    split
    · rfl
    · rename_i key' _
      have := ih top false key' x (by omega)
      split
      · rfl
      · rename_i q hq; rw [hq] at this; simp at this
      · split
        · rfl
        · exact ihl _ (by omega)

/-- the `pair` closure of `Decode.value` (one `(range, value)` pair), as a named function -/
def pairF (fuel : Nat) (top : Str) (t : RangeTy) (x : J) : Res (Range × PV) :=
  match x with
  | .obj fields =>
    match structFields fields none none with
    | .err e => .err e
    | .panic p => .panic p
    | .ok (c, v) =>
      match v with
      | none =>
        match c with
        | some cj => match rangeSpec t cj with
          | .err e => .err e
          | .panic p => .panic p
          | .ok _ => .err "Serde"
        | none => .err "Serde"
      | some vj =>
        match c with
        | none =>
          match value fuel top true [] vj with
          | .ok pv => .ok (.fallback, pv)
          | .err e => .err e
          | .panic p => .panic p
        | some cj =>
          match rangeSpec t cj, value fuel top true [] vj with
          | .ok r, .ok pv => .ok (r, pv)
          | .panic p, _ => .panic p
          | _, .panic p => .panic p
          | .err e, .ok _ => .err e
          | .ok _, .err e => .err e
          | .err e, .err _ => .err e
  | .arr (vj :: counts) =>
    match value fuel top true [] vj with
    | .err e => .err e
    | .panic p => .panic p
    | .ok pv =>
      match rangeSpec.rangeSeq t counts with
      | .ok r => .ok (r, pv)
      | .err e => .err e
      | .panic p => .panic p
  | _ => .err "Serde"

theorem pairF_np (fuel : Nat) (top : Str)
    (ih : ∀ (top : Str) (inRange : Bool) (key : Str) (j : J), J.size j < fuel → (value fuel top inRange key j).isPanic = false)
    (t : RangeTy) (x : J) (hx : J.size x ≤ fuel) : (pairF fuel top t x).isPanic = false := by
  unfold pairF
  split
  · rename_i fields
    simp only [J.size] at hx
    have h1 := structFields_np fields none none
    split
    · rfl
    · rename_i q hq; rw [hq] at h1; simp at h1
    · rename_i c v hok
      split
      · split
        · rename_i cj
          have := rangeSpec_np t cj
          split
          · rfl
          · rename_i q hq; rw [hq] at this; simp at this
          · rfl
        · rfl
      · rename_i vj
        have hv : (value fuel top true [] vj).isPanic = false := by
          apply ih
          rcases structFields_mem _ _ _ _ _ hok vj rfl with h | ⟨k, h⟩
          · simp at h
          · have := mem_sizeO h; omega
        split
        · split
          · rfl
          · rfl
          · rename_i q hq; rw [hq] at hv; simp at hv
        · rename_i cj
          have hr := rangeSpec_np t cj
          cases h1 : rangeSpec t cj <;> cases h2 : value fuel top true [] vj <;> simp_all
  · rename_i vj counts
    simp only [J.size, J.sizeL] at hx
    have hv : (value fuel top true [] vj).isPanic = false := ih _ _ _ _ (by omega)
    have hr := rangeSeq_np t counts
    split
    · rfl
    · rename_i q hq; rw [hq] at hv; simp at hv
    · split
      · rfl
      · rfl
      · rename_i q hq; rw [hq] at hr; simp at hr
  · rfl

theorem value_np : ∀ (fuel : Nat) (top : Str) (inRange : Bool) (key : Str) (j : J), J.size j < fuel →
    (value fuel top inRange key j).isPanic = false := by
  intro fuel
  induction fuel with
  | zero => intro _ _ _ j h; omega
  | succ fuel ih =>
    intro top inRange key j hs
    cases j with
    | str s => simp only [value]; exact Parse.newF_np _ _ (Nat.lt_succ_self _)
    | bool b => simp [value]
    | signed i => simp [value]
    | unsigned n => simp [value]
    | float d => simp [value]
    | null => simp only [value]; split <;> rfl
    | obj l =>
      simp only [J.size] at hs
      simp only [value]
      split
      · rfl
      · have := localeKeys_np fuel top ih l [] (by omega)
        split
        · rfl
        · rfl
        · rename_i q hq; rw [hq] at this; simp at this
    | arr l =>
      simp only [J.size] at hs
      cases l with
      | nil => simp only [value]; split <;> rfl
      | cons first rest =>
        have hp : ∀ t, ∀ l : List J, J.sizeL l ≤ fuel → (value.pairs (pairF fuel top) t l).isPanic = false :=
          fun t l hl => pairs_np _ t l (fun x hx => pairF_np fuel top ih t x (by have := mem_sizeL hx; omega))
        simp only [J.sizeL] at hs
        have hp1 := fun t => hp t rest (by omega)
        have hp2 := fun t => hp t (first :: rest) (by simp only [J.sizeL]; omega)
        cases first <;> simp only [value]
        all_goals first
          | (split <;> rfl; done)
          | skip
        all_goals
          split
          · rfl
          · skip
            repeat' split
            all_goals first
              | rfl
              | skip
            all_goals
              rename_i hq
              repeat' split at hq
              all_goals first
                | (simp at hq; done)
                | (rename_i h3
                   first
                    | (rename_i tt _ _ _
                       have h4 : value.pairs (pairF fuel top) tt rest = .panic _ := h3
                       have := hp1 tt; rw [h4] at this; simp at this; done)
                    | (have := hp2 RangeTy.i32; erw [h3] at this; simp at this; done))

theorem locale_np (name : Str) (j : J) : (locale name j).isPanic = false := by
  unfold locale
  split
  · rename_i l
    have h := value_np (J.size (J.obj l) + 1) name false name (J.obj l) (Nat.lt_succ_self _)
    simp only [value] at h ⊢
    split
    · rfl
    · rename_i pv hne hv
      simp only [Bool.false_eq_true, if_false] at hv
      split at hv
      · rename_i keys _
        simp only [Res.ok.injEq] at hv
        exact absurd hv.symm (hne _)
      · simp at hv
      · simp at hv
    · rfl
    · rename_i q hq; rw [hq] at h; simp at h
  · rfl

end Decode
end I18nVerif
