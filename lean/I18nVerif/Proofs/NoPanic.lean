import I18nVerif.Model.Decode
/-!
Helper lemmas for C09 (no panic, fuel suffices, offsets in bounds).

* length facts about the `Str` primitives (`splitOnce`, `splitOnceC`, `splitAtFirst`, `stripPrefix`,
  `trimStart`);
* offset facts about `findOpeningTag`, `closingScan`, `findClosingTag`, `findValidComponent`;
* length facts about the JSON reader (`strBody`, `number`, `value`, `members`, `parseObject`);
* for every `find*` of `Parse`: "no panic if `rec_` does not panic on shorter strings" and
  "same result for two `rec_` that agree on shorter strings";
* `newF`: no panic / fuel irrelevance by induction on the fuel.
-/
namespace I18nVerif
open Str

/-- "not a panic" as a proposition on `Res` -/
abbrev Res.NP (r : Res α) : Prop := r.isPanic = false

@[simp] theorem Res.isPanic_ok (a : α) : (Res.ok a).isPanic = false := rfl
@[simp] theorem Res.isPanic_err (e : String) : (Res.err e : Res α).isPanic = false := rfl
@[simp] theorem Res.isPanic_panic (e : String) : (Res.panic e : Res α).isPanic = true := rfl

namespace Str

theorem splitOnce_len {pat s a b : Str} (h : splitOnce pat s = some (a, b)) :
    a.length + pat.length + b.length = s.length := by
  induction s generalizing a b with
  | nil => simp [splitOnce] at h
  | cons c cs ih =>
    simp only [splitOnce] at h
    split at h
    · rename_i hp
      simp only [Option.some.injEq, Prod.mk.injEq] at h
      obtain ⟨rfl, rfl⟩ := h
      have := List.isPrefixOf_iff_prefix.mp hp
      have hl := this.length_le
      simp only [List.length_nil, List.length_drop, List.length_cons] at *
      omega
    · split at h
      · rename_i a' b' heq
        simp only [Option.some.injEq, Prod.mk.injEq] at h
        obtain ⟨rfl, rfl⟩ := h
        have := ih heq
        simp only [List.length_cons]
        omega
      · simp at h

theorem splitOnceC_len {d : Char} {s a b : Str} (h : splitOnceC d s = some (a, b)) :
    a.length + 1 + b.length = s.length := by
  induction s generalizing a b with
  | nil => simp [splitOnceC] at h
  | cons c cs ih =>
    simp only [splitOnceC] at h
    split at h
    · simp only [Option.some.injEq, Prod.mk.injEq] at h
      obtain ⟨rfl, rfl⟩ := h
      simp only [List.length_nil, List.length_cons]; omega
    · split at h
      · rename_i a' b' heq
        simp only [Option.some.injEq, Prod.mk.injEq] at h
        obtain ⟨rfl, rfl⟩ := h
        have := ih heq
        simp only [List.length_cons]
        omega
      · simp at h

theorem splitAtFirst_len {p : Char → Bool} {s a b : Str} {d : Char}
    (h : splitAtFirst p s = some (a, d, b)) : a.length + 1 + b.length = s.length := by
  induction s generalizing a b d with
  | nil => simp [splitAtFirst] at h
  | cons c cs ih =>
    simp only [splitAtFirst] at h
    split at h
    · simp only [Option.some.injEq, Prod.mk.injEq] at h
      obtain ⟨rfl, rfl, rfl⟩ := h
      simp only [List.length_nil, List.length_cons]; omega
    · split at h
      · rename_i a' d' b' heq
        simp only [Option.some.injEq, Prod.mk.injEq] at h
        obtain ⟨rfl, rfl, rfl⟩ := h
        have := ih heq
        simp only [List.length_cons]
        omega
      · simp at h

theorem stripPrefix_len {pat s r : Str} (h : stripPrefix pat s = some r) :
    pat.length + r.length = s.length := by
  unfold stripPrefix at h
  split at h
  · rename_i hp
    simp only [Option.some.injEq] at h
    subst h
    have := (List.isPrefixOf_iff_prefix.mp hp).length_le
    simp only [List.length_drop]
    omega
  · simp at h

theorem trimStart_len (s : Str) : (trimStart s).length ≤ s.length :=
  (List.dropWhile_sublist _).length_le

theorem trimEnd_len (s : Str) : (trimEnd s).length ≤ s.length := by
  unfold trimEnd
  have := (List.dropWhile_sublist isWs (l := s.reverse)).length_le
  simpa using this

theorem trim_len (s : Str) : (trim s).length ≤ s.length :=
  Nat.le_trans (trimEnd_len _) (trimStart_len _)

end Str
end I18nVerif
