import I18nVerif.Model.Escape
import I18nVerif.Spec.Escape
/-! Helper lemmas for C11 (JSON export) and C17 (embedded translations). -/
namespace I18nVerif.Escape
open Spec

/-! ### Hexadecimal digits -/

theorem hexVal_hexDigit_fin : ∀ n : Fin 16, hexVal? (hexDigit n.val) = some n.val := by decide

theorem hexVal_hexDigit {n : Nat} (h : n < 16) : hexVal? (hexDigit n) = some n :=
  hexVal_hexDigit_fin ⟨n, h⟩

theorem hex4_roundtrip {n : Nat} (h : n < 65536) :
    hex4? (hexDigit (n / 4096 % 16)) (hexDigit (n / 256 % 16)) (hexDigit (n / 16 % 16)) (hexDigit (n % 16))
      = some n := by
  simp only [hex4?, hexVal_hexDigit (Nat.mod_lt _ (by decide : 16 > 0))]
  congr 1
  omega

/-! ### One character -/

/-- prepend an item to the result of scanning the rest -/
def consItem (it : Item) : Option (List Item × List Char) → Option (List Item × List Char)
  | some (is, r) => some (it :: is, r)
  | none => none

/-- the item decodes to exactly the character `c`, whatever follows -/
def ItemFor (it : Item) (c : Char) : Prop := ∀ is, combine (it :: is) = (combine is).map (c :: ·)

theorem itemFor_raw (c : Char) : ItemFor (Item.raw c) c := fun _ => rfl

theorem itemFor_unit {c : Char} (h : c.toNat < 0xD800) : ItemFor (Item.unit c.toNat) c := by
  intro is
  have h1 : isHighSurrogate c.toNat = false := by simp [isHighSurrogate]; omega
  have h2 : isLowSurrogate c.toNat = false := by simp [isLowSurrogate]; omega
  cases is with
  | nil => simp [combine, h1, h2, Char.ofNat_toNat]
  | cons i r => cases i <;> simp [combine, h1, h2, Char.ofNat_toNat]

/-- an escaper whose every output is read back as the character it encodes -/
def GoodEsc (js : Bool) (esc : Char → List Char) : Prop :=
  ∀ c tail, ∃ it, scanBody js (esc c ++ tail) = consItem it (scanBody js tail) ∧ ItemFor it c

theorem scan_unit (js : Bool) (n : Nat) (h : n < 65536) (tail : List Char) :
    scanBody js ('\\' :: 'u' :: (hex4 n ++ tail)) = consItem (Item.unit n) (scanBody js tail) := by
  simp only [hex4, List.cons_append, List.nil_append, scanBody]
  rw [hex4_roundtrip h]
  cases scanBody js tail with
  | none => simp [consItem]
  | some p => simp [consItem]

end I18nVerif.Escape
