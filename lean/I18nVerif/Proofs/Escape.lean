import I18nVerif.Model.Escape
import I18nVerif.Spec.Escape
/-! Helper lemmas for C11 (JSON export) and C17 (embedded translations). -/
namespace I18nVerif.Escape
open Spec

/-! ### Hexadecimal digits -/

theorem hexVal_hexDigit_fin : ∀ n : Fin 16, hexVal? (hexDigit n.val) = some n.val := by decide

theorem hexVal_hexDigit {n : Nat} (h : n < 16) : hexVal? (hexDigit n) = some n :=
  hexVal_hexDigit_fin ⟨n, h⟩

theorem hex4_roundtrip {n : Nat} (h : n < 65536) :
    hex4? (hexDigit (n / 4096 % 16)) (hexDigit (n / 256 % 16)) (hexDigit (n / 16 % 16)) (hexDigit (n % 16))
      = some n := by
  simp only [hex4?, hexVal_hexDigit (Nat.mod_lt _ (by decide : 16 > 0))]
  congr 1
  omega

/-! ### One character -/

/-- prepend an item to the result of scanning the rest -/
def consItem (it : Item) : Option (List Item × List Char) → Option (List Item × List Char)
  | some (is, r) => some (it :: is, r)
  | none => none

/-- the item decodes to exactly the character `c`, whatever follows -/
def ItemFor (it : Item) (c : Char) : Prop := ∀ is, combine (it :: is) = (combine is).map (c :: ·)

theorem itemFor_raw (c : Char) : ItemFor (Item.raw c) c := fun _ => rfl

theorem itemFor_unit {c : Char} (h : c.toNat < 0xD800) : ItemFor (Item.unit c.toNat) c := by
  intro is
  have h1 : isHighSurrogate c.toNat = false := by simp [isHighSurrogate]; omega
  have h2 : isLowSurrogate c.toNat = false := by simp [isLowSurrogate]; omega
  cases is with
  | nil => simp [combine, h1, h2, Char.ofNat_toNat]
  | cons i r => cases i <;> simp [combine, h1, h2, Char.ofNat_toNat]

/-- an escaper whose every output is read back as the character it encodes -/
def GoodEsc (js : Bool) (esc : Char → List Char) : Prop :=
  ∀ c tail, ∃ it, scanBody js (esc c ++ tail) = consItem it (scanBody js tail) ∧ ItemFor it c

theorem scan_unit (js : Bool) (n : Nat) (h : n < 65536) (tail : List Char) :
    scanBody js ('\\' :: 'u' :: (hex4 n ++ tail)) = consItem (Item.unit n) (scanBody js tail) := by
  simp only [hex4, List.cons_append, List.nil_append, scanBody]
  rw [hex4_roundtrip h]
  cases scanBody js tail with
  | none => simp [consItem]
  | some p => simp [consItem]

theorem scan_simple (js : Bool) (e ch : Char) (he : e ≠ 'u') (hs : simpleEscape? e = some ch) (tail : List Char) :
    scanBody js ('\\' :: e :: tail) = consItem (Item.raw ch) (scanBody js tail) := by
  rw [scanBody.eq_def]
  simp only [hs, he]
  simp
  cases scanBody js tail with
  | none => simp [consItem]
  | some p => simp [consItem]

theorem scan_raw (js : Bool) (c : Char) (h1 : c ≠ '"') (h2 : c ≠ '\\') (h3 : ¬ c.toNat < 0x20)
    (h4 : js = true → c ≠ '\u2028' ∧ c ≠ '\u2029') (tail : List Char) :
    scanBody js (c :: tail) = consItem (Item.raw c) (scanBody js tail) := by
  have h5 : (js && (decide (c = '\u2028') || decide (c = '\u2029'))) = false := by
    cases js with
    | false => rfl
    | true => simp [h4 rfl]
  rw [scanBody.eq_def]
  simp only [h1, h2, h3, h5]
  simp
  cases scanBody js tail with
  | none => simp [consItem]
  | some p => simp [consItem]

theorem goodEsc_json : GoodEsc false jsonEscChar := by
  intro c tail
  unfold jsonEscChar
  split
  · next h => subst h; exact ⟨_, scan_simple _ _ _ (by decide) (by decide) _, itemFor_raw _⟩
  split
  · next h => subst h; exact ⟨_, scan_simple _ _ _ (by decide) (by decide) _, itemFor_raw _⟩
  split
  · next h => subst h; exact ⟨_, scan_simple _ 'n' _ (by decide) (by decide) _, itemFor_raw _⟩
  split
  · next h => subst h; exact ⟨_, scan_simple _ 'r' _ (by decide) (by decide) _, itemFor_raw _⟩
  split
  · next h => subst h; exact ⟨_, scan_simple _ 't' _ (by decide) (by decide) _, itemFor_raw _⟩
  split
  · next h => subst h; exact ⟨_, scan_simple _ 'b' _ (by decide) (by decide) _, itemFor_raw _⟩
  split
  · next h => subst h; exact ⟨_, scan_simple _ 'f' _ (by decide) (by decide) _, itemFor_raw _⟩
  split
  · next h => exact ⟨_, scan_unit _ _ (by omega) _, itemFor_unit (by omega)⟩
  · next h1 h2 _ _ _ _ _ h3 =>
    exact ⟨_, scan_raw false c h1 h2 h3 (by simp) tail, itemFor_raw _⟩

theorem goodEsc_js (js : Bool) : GoodEsc js jsEscChar := by
  intro c tail
  unfold jsEscChar
  by_cases h1 : c = '"'
  · rw [if_pos h1]; subst h1; exact ⟨_, scan_simple _ _ _ (by decide) (by decide) _, itemFor_raw _⟩
  rw [if_neg h1]
  by_cases h2 : c = '\\'
  · rw [if_pos h2]; subst h2; exact ⟨_, scan_simple _ _ _ (by decide) (by decide) _, itemFor_raw _⟩
  rw [if_neg h2]
  by_cases h : c = '\n'
  · rw [if_pos h]; subst h; exact ⟨_, scan_simple _ 'n' _ (by decide) (by decide) _, itemFor_raw _⟩
  rw [if_neg h]
  by_cases h : c = '\r'
  · rw [if_pos h]; subst h; exact ⟨_, scan_simple _ 'r' _ (by decide) (by decide) _, itemFor_raw _⟩
  rw [if_neg h]
  by_cases h : c = '\t'
  · rw [if_pos h]; subst h; exact ⟨_, scan_simple _ 't' _ (by decide) (by decide) _, itemFor_raw _⟩
  rw [if_neg h]
  by_cases h : c = '\x08'
  · rw [if_pos h]; subst h; exact ⟨_, scan_simple _ 'b' _ (by decide) (by decide) _, itemFor_raw _⟩
  rw [if_neg h]
  by_cases h : c = '\x0c'
  · rw [if_pos h]; subst h; exact ⟨_, scan_simple _ 'f' _ (by decide) (by decide) _, itemFor_raw _⟩
  rw [if_neg h]
  by_cases h : c = '<'
  · rw [if_pos h]; subst h
    exact ⟨_, scan_unit js 0x3C (by decide) tail, itemFor_unit (c := '<') (by decide)⟩
  rw [if_neg h]
  by_cases h8 : c = '\u2028'
  · rw [if_pos h8]; subst h8
    exact ⟨_, scan_unit js 0x2028 (by decide) tail, itemFor_unit (c := '\u2028') (by decide)⟩
  rw [if_neg h8]
  by_cases h9 : c = '\u2029'
  · rw [if_pos h9]; subst h9
    exact ⟨_, scan_unit js 0x2029 (by decide) tail, itemFor_unit (c := '\u2029') (by decide)⟩
  rw [if_neg h9]
  by_cases h3 : c.toNat < 0x20
  · rw [if_pos h3]; exact ⟨_, scan_unit _ _ (by omega) _, itemFor_unit (by omega)⟩
  rw [if_neg h3]
  exact ⟨_, scan_raw js c h1 h2 h3 (fun _ => ⟨h8, h9⟩) tail, itemFor_raw _⟩

/-! ### One string -/

theorem scan_escBody {js : Bool} {esc : Char → List Char} (hg : GoodEsc js esc) (s rest : List Char) :
    ∃ is, scanBody js (escBody esc s ++ '"' :: rest) = some (is, rest) ∧ combine is = some s := by
  induction s with
  | nil => exact ⟨[], by rw [scanBody.eq_def]; simp [escBody], rfl⟩
  | cons c cs ih =>
    obtain ⟨is, h1, h2⟩ := ih
    obtain ⟨it, h3, h4⟩ := hg c (escBody esc cs ++ '"' :: rest)
    refine ⟨it :: is, ?_, ?_⟩
    · simp only [escBody, List.append_assoc]
      rw [h3, h1]; rfl
    · rw [h4 is, h2]; rfl

theorem parseStringTail_esc {js : Bool} {esc : Char → List Char} (hg : GoodEsc js esc) (s rest : List Char) :
    parseStringTail js (escBody esc s ++ '"' :: rest) = some (s, rest) := by
  obtain ⟨is, h1, h2⟩ := scan_escBody hg s rest
  simp [parseStringTail, h1, h2]


/-! ### Arrays of strings -/

theorem skipWs_of_not_ws {c : Char} (h : isWs c = false) (r : List Char) : skipWs (c :: r) = c :: r := by
  simp [skipWs, h]

@[simp] theorem skipWs_quote (r : List Char) : skipWs ('"' :: r) = '"' :: r := skipWs_of_not_ws (by decide) r
@[simp] theorem skipWs_comma (r : List Char) : skipWs (',' :: r) = ',' :: r := skipWs_of_not_ws (by decide) r
@[simp] theorem skipWs_colon (r : List Char) : skipWs (':' :: r) = ':' :: r := skipWs_of_not_ws (by decide) r
@[simp] theorem skipWs_semi (r : List Char) : skipWs (';' :: r) = ';' :: r := skipWs_of_not_ws (by decide) r
@[simp] theorem skipWs_eq (r : List Char) : skipWs ('=' :: r) = '=' :: r := skipWs_of_not_ws (by decide) r
@[simp] theorem skipWs_lbrack (r : List Char) : skipWs ('[' :: r) = '[' :: r := skipWs_of_not_ws (by decide) r
@[simp] theorem skipWs_rbrack (r : List Char) : skipWs (']' :: r) = ']' :: r := skipWs_of_not_ws (by decide) r
@[simp] theorem skipWs_lbrace (r : List Char) : skipWs ('{' :: r) = '{' :: r := skipWs_of_not_ws (by decide) r
@[simp] theorem skipWs_rbrace (r : List Char) : skipWs ('}' :: r) = '}' :: r := skipWs_of_not_ws (by decide) r
@[simp] theorem skipWs_n (r : List Char) : skipWs ('n' :: r) = 'n' :: r := skipWs_of_not_ws (by decide) r
@[simp] theorem skipWs_space (r : List Char) : skipWs (' ' :: r) = skipWs r := by simp [skipWs, isWs]
@[simp] theorem skipWs_nil : skipWs [] = [] := rfl

/-- a quoting function whose output is read back as the string, by `parseValue` with any fuel ≥ 1 -/
def GoodQuote (js : Bool) (q : List Char → List Char) : Prop :=
  ∀ f s rest, parseValue js (f + 1) (q s ++ rest) = some (JVal.str s, rest)

theorem goodQuote_of_goodEsc {js : Bool} {esc : Char → List Char} (hg : GoodEsc js esc) :
    GoodQuote js (fun s => '"' :: (escBody esc s ++ ['"'])) := by
  intro f s rest
  have := parseStringTail_esc hg s rest
  simp only [List.cons_append, List.append_assoc, List.nil_append]
  rw [parseValue]
  simp [this]

/-- `,q(s1),q(s2)…` -/
def commaSep (q : List Char → List Char) : List (List Char) → List Char
  | [] => []
  | s :: ss => ',' :: (q s ++ commaSep q ss)

theorem parseArrRest_strs {js : Bool} {q : List Char → List Char} (hq : GoodQuote js q)
    (ss : List (List Char)) : ∀ (f : Nat) (acc : List JVal) (rest : List Char), ss.length < f →
    parseArrRest js f acc (commaSep q ss ++ ']' :: rest)
      = some (JVal.arr (acc.reverse ++ ss.map JVal.str), rest) := by
  induction ss with
  | nil =>
    intro f acc rest hf
    obtain ⟨f', rfl⟩ : ∃ f', f = f' + 1 := ⟨f - 1, by simp at hf; omega⟩
    rw [parseArrRest]
    simp [commaSep]
  | cons s ss ih =>
    intro f acc rest hf
    simp only [List.length_cons] at hf
    obtain ⟨f', rfl⟩ : ∃ f', f = f' + 2 := ⟨f - 2, by omega⟩
    rw [parseArrRest]
    simp only [commaSep, List.cons_append, List.append_assoc, skipWs_comma]
    simp only [hq f' s]
    rw [ih (f' + 1) (JVal.str s :: acc) rest (by omega)]
    simp

/-- `q(s0),q(s1)…` -/
def strsBody (q : List Char → List Char) : List (List Char) → List Char
  | [] => []
  | s :: ss => q s ++ commaSep q ss

theorem parseValue_strs {js : Bool} {q : List Char → List Char} (hq : GoodQuote js q)
    (hq0 : ∀ s, ∃ t, q s = '"' :: t)
    (ss : List (List Char)) (f : Nat) (rest : List Char) (hf : ss.length < f) :
    parseValue js (f + 1)
      ('[' :: (strsBody q ss ++ ']' :: rest))
      = some (JVal.arr (ss.map JVal.str), rest) := by
  cases ss with
  | nil =>
    rw [parseValue]
    simp [strsBody]
  | cons s ss' =>
    simp only [List.length_cons] at hf
    simp only [strsBody]
    obtain ⟨f', rfl⟩ : ∃ f', f = f' + 1 := ⟨f - 1, by omega⟩
    obtain ⟨t, ht⟩ := hq0 s
    have h1 := hq f' s (commaSep q ss' ++ ']' :: rest)
    have h2 := parseArrRest_strs hq ss' (f' + 1) [JVal.str s] rest (by omega)
    rw [parseValue]
    simp only [List.append_assoc, skipWs_lbrack]
    rw [ht] at h1 ⊢
    simp only [List.cons_append, skipWs_quote] at h1 ⊢
    simp only [h1, h2]
    simp

theorem allStrs_map (ss : List (List Char)) : allStrs (ss.map JVal.str) = some ss := by
  induction ss with
  | nil => rfl
  | cons s ss ih => simp [allStrs, asStr, ih]

/-! ### The formatter of the build helper -/

theorem goodQuote_json : GoodQuote false jsonQuote := goodQuote_of_goodEsc goodEsc_json
theorem goodQuote_js (js : Bool) : GoodQuote js jsQuote := goodQuote_of_goodEsc (goodEsc_js js)

theorem formatterRest_eq (ss : List (List Char)) : formatterRest ss = commaSep jsonQuote ss := by
  induction ss with
  | nil => rfl
  | cons s ss ih => simp [formatterRest, commaSep, ih]

theorem length_commaSep_ge (q : List Char → List Char) (ss : List (List Char)) :
    ss.length ≤ (commaSep q ss).length := by
  induction ss with
  | nil => simp [commaSep]
  | cons s ss ih => simp [commaSep]; omega

theorem formatter_eq (strs : List (List Char)) :
    formatter strs = '[' :: (strsBody jsonQuote strs ++ [']']) := by
  cases strs with
  | nil => rfl
  | cons s ss => simp [formatter, formatterRest_eq, strsBody]

theorem length_formatter (strs : List (List Char)) : strs.length < (formatter strs).length := by
  cases strs with
  | nil => simp [formatter]
  | cons s ss =>
    have := length_commaSep_ge jsonQuote ss
    simp [formatter, formatterRest_eq]; omega

theorem jsonDecode_formatter (strs : List (List Char)) : jsonDecodeStrings (formatter strs) = some strs := by
  unfold jsonDecodeStrings
  have h := parseValue_strs goodQuote_json (fun s => ⟨_, rfl⟩) strs (formatter strs).length [] (length_formatter strs)
  rw [← formatter_eq] at h
  rw [h]
  simp [asStrList, allStrs_map]

/-! ### Objects -/

theorem parseMember_quote (js : Bool) (g : Nat) (k X : List Char) :
    parseMember js (g + 1) (jsQuote k ++ ':' :: X)
      = match parseValue js g X with
        | some (v, r3) => some ((k, v), r3)
        | none => none := by
  rw [parseMember]
  have h := parseStringTail_esc (goodEsc_js js) k (':' :: X)
  simp only [jsQuote, List.cons_append, List.append_assoc, List.nil_append, skipWs_quote]
  simp only [h, skipWs_colon]
  cases parseValue js g X with
  | none => rfl
  | some p => rfl

/-- a value text `V` read back as `v` by `parseValue` with any fuel above `f` -/
def Reads (js : Bool) (f : Nat) (V : List Char) (v : JVal) : Prop :=
  ∀ g r, f < g → parseValue js g (V ++ r) = some (v, r)

theorem parseMember_reads {js : Bool} {f : Nat} {V : List Char} {v : JVal} (h : Reads js f V v)
    (g : Nat) (hg : f + 1 < g) (k r : List Char) :
    parseMember js g (jsQuote k ++ ':' :: (V ++ r)) = some ((k, v), r) := by
  obtain ⟨g', rfl⟩ : ∃ g', g = g' + 1 := ⟨g - 1, by omega⟩
  rw [parseMember_quote, h g' r (by omega)]

theorem parseValue_obj3 {js : Bool} {f : Nat} (k1 k2 k3 V1 V2 V3 : List Char) (v1 v2 v3 : JVal)
    (h1 : Reads js f V1 v1) (h2 : Reads js f V2 v2) (h3 : Reads js f V3 v3) (g : Nat) (hg : f + 4 < g)
    (rest : List Char) :
    parseValue js g ('{' :: (jsQuote k1 ++ ':' :: (V1 ++ ',' :: (jsQuote k2 ++ ':' :: (V2 ++ ',' ::
      (jsQuote k3 ++ ':' :: (V3 ++ '}' :: rest)))))))
      = some (JVal.obj [(k1, v1), (k2, v2), (k3, v3)], rest) := by
  obtain ⟨f', rfl⟩ : ∃ f', g = f' + 5 := ⟨g - 5, by omega⟩
  rw [parseValue]
  simp only [skipWs_lbrace]
  have hq : ∀ Y, skipWs (jsQuote k1 ++ Y) = '"' :: (escBody jsEscChar k1 ++ ['"'] ++ Y) := by
    intro Y; simp [jsQuote]
  rw [hq]
  simp only [parseMember_reads h1 (f' + 4) (by omega)]
  rw [parseObjRest]
  simp only [skipWs_comma, parseMember_reads h2 (f' + 3) (by omega)]
  rw [parseObjRest]
  simp only [skipWs_comma, parseMember_reads h3 (f' + 2) (by omega)]
  rw [parseObjRest]
  simp

/-! ### One translation unit -/

/-- characters `push_js_str` leaves alone; locale names (`Locale::as_str`: a language identifier) and
    unit ids (`TranslationUnitId::to_str`: a namespace name, a Rust identifier) consist of such
    characters only, which is why `to_array` may push them unescaped -/
def plainChar (c : Char) : Bool :=
  c ≠ '"' && c ≠ '\\' && c ≠ '<' && c ≠ '\u2028' && c ≠ '\u2029' && decide (0x20 ≤ c.toNat)

def NameOk (n : List Char) : Prop := ∀ c ∈ n, plainChar c = true

def UnitNamesOk (u : TUnit) : Prop := NameOk u.locale ∧ ∀ i, u.id = some i → NameOk i

theorem jsEscChar_plain {c : Char} (h : plainChar c = true) : jsEscChar c = [c] := by
  simp only [plainChar, Bool.and_eq_true, decide_eq_true_eq, ne_eq] at h
  obtain ⟨⟨⟨⟨⟨h1, h2⟩, h3⟩, h4⟩, h5⟩, h6⟩ := h
  have hn : c ≠ '\n' := by intro e; subst e; revert h6; decide
  have hr : c ≠ '\r' := by intro e; subst e; revert h6; decide
  have ht : c ≠ '\t' := by intro e; subst e; revert h6; decide
  have hb : c ≠ '\x08' := by intro e; subst e; revert h6; decide
  have hf : c ≠ '\x0c' := by intro e; subst e; revert h6; decide
  have h7 : ¬ c.toNat < 0x20 := by omega
  simp [jsEscChar, h1, h2, h3, h4, h5, hn, hr, ht, hb, hf, h7]

theorem escBody_plain {n : List Char} (h : NameOk n) : escBody jsEscChar n = n := by
  induction n with
  | nil => rfl
  | cons c cs ih =>
    have hc := jsEscChar_plain (h c (by simp))
    simp [escBody, hc, ih (fun c' hc' => h c' (by simp [hc']))]

theorem rawQuote_eq {n : List Char} (h : NameOk n) (r : List Char) : n ++ '"' :: r = escBody jsEscChar n ++ '"' :: r := by
  rw [escBody_plain h]

theorem valuesLoop_false_eq (vs : List (List Char)) : valuesLoop false vs = commaSep jsQuote vs := by
  induction vs with
  | nil => rfl
  | cons v vs ih => simp [valuesLoop, commaSep, ih]

theorem valuesLoop_true_eq (vs : List (List Char)) : valuesLoop true vs = strsBody jsQuote vs := by
  cases vs with
  | nil => rfl
  | cons v vs => simp [valuesLoop, strsBody, valuesLoop_false_eq]

def idText : Option (List Char) → List Char
  | some i => jsQuote i
  | none => ['n', 'u', 'l', 'l']

def idJson : Option (List Char) → JVal
  | some i => JVal.str i
  | none => JVal.null

def unitJson (u : TUnit) : JVal :=
  JVal.obj [(kLocale, JVal.str u.locale), (kId, idJson u.id), (kValues, JVal.arr (u.values.map JVal.str))]

theorem lit1 : litLocale = '{' :: (jsQuote kLocale ++ [':', '"']) := by decide
theorem lit2 : litId = '"' :: ',' :: (jsQuote kId ++ [':', '"']) := by decide
theorem lit3 : litValues = '"' :: ',' :: (jsQuote kValues ++ [':', '[']) := by decide
theorem lit4 : litIdNull
    = '"' :: ',' :: (jsQuote kId ++ (':' :: 'n' :: 'u' :: 'l' :: 'l' :: ',' :: (jsQuote kValues ++ [':', '[']))) := by
  decide
theorem lit5 : litClose = [']', '}'] := rfl

theorem unitBody_append {u : TUnit} (hu : UnitNamesOk u) (rest : List Char) :
    unitBody u ++ rest = '{' :: (jsQuote kLocale ++ ':' :: (jsQuote u.locale ++ ',' :: (jsQuote kId ++ ':' ::
      (idText u.id ++ ',' :: (jsQuote kValues ++ ':' ::
        (('[' :: (strsBody jsQuote u.values ++ [']'])) ++ '}' :: rest)))))) := by
  obtain ⟨l, i, vs⟩ := u
  obtain ⟨hl, hi⟩ := hu
  simp only at hl hi
  cases i with
  | none =>
    simp only [unitBody, lit1, lit4, lit5, valuesLoop_true_eq, idText]
    simp only [jsQuote, List.cons_append, List.append_assoc, List.nil_append, escBody_plain hl]
  | some i =>
    have hi' := hi i rfl
    simp only [unitBody, lit1, lit2, lit3, lit5, valuesLoop_true_eq, idText]
    simp only [jsQuote, List.cons_append, List.append_assoc, List.nil_append, escBody_plain hl, escBody_plain hi']

theorem reads_quote (js : Bool) (f : Nat) (s : List Char) : Reads js f (jsQuote s) (JVal.str s) := by
  intro g r hg
  obtain ⟨g', rfl⟩ : ∃ g', g = g' + 1 := ⟨g - 1, by omega⟩
  exact goodQuote_js js g' s r

theorem reads_null (js : Bool) (f : Nat) : Reads js f ['n', 'u', 'l', 'l'] JVal.null := by
  intro g r hg
  obtain ⟨g', rfl⟩ : ∃ g', g = g' + 1 := ⟨g - 1, by omega⟩
  rw [parseValue]
  simp

theorem reads_idText (js : Bool) (f : Nat) (i : Option (List Char)) : Reads js f (idText i) (idJson i) := by
  cases i with
  | none => exact reads_null js f
  | some i => exact reads_quote js f i

theorem reads_strs (js : Bool) (ss : List (List Char)) :
    Reads js (ss.length + 1) ('[' :: (strsBody jsQuote ss ++ [']'])) (JVal.arr (ss.map JVal.str)) := by
  intro g r hg
  obtain ⟨g', rfl⟩ : ∃ g', g = g' + 1 := ⟨g - 1, by omega⟩
  have := parseValue_strs (goodQuote_js js) (fun s => ⟨_, rfl⟩) ss g' r (by omega)
  simpa using this

theorem reads_mono {js : Bool} {f f' : Nat} {V : List Char} {v : JVal} (h : Reads js f V v) (hf : f ≤ f') :
    Reads js f' V v := fun g r hg => h g r (by omega)

theorem parseValue_unit (js : Bool) {u : TUnit} (hu : UnitNamesOk u) (g : Nat) (hg : u.values.length + 5 < g)
    (rest : List Char) : parseValue js g (unitBody u ++ rest) = some (unitJson u, rest) := by
  rw [unitBody_append hu]
  exact parseValue_obj3 (f := u.values.length + 1) kLocale kId kValues _ _ _ _ _ _
    (reads_quote js _ u.locale) (reads_idText js _ u.id) (reads_strs js u.values) g (by omega) rest

theorem asUnit_unitJson (u : TUnit) : asUnit (unitJson u) = some u := by
  obtain ⟨l, i, vs⟩ := u
  have h1 : (kLocale = kId) = False := eq_false (by decide)
  have h2 : (kLocale = kValues) = False := eq_false (by decide)
  have h3 : (kId = kValues) = False := eq_false (by decide)
  cases i with
  | none => simp [asUnit, unitJson, lookupKey, idJson, h1, h2, h3, asStrList, allStrs_map]
  | some i => simp [asUnit, unitJson, lookupKey, idJson, h1, h2, h3, asStrList, allStrs_map]

/-! ### The array of units -/

/-- `,body(u1),body(u2)…` -/
def commaUnits : List TUnit → List Char
  | [] => []
  | u :: us => ',' :: (unitBody u ++ commaUnits us)

theorem unitsLoop_false_eq (us : List TUnit) : unitsLoop false us = commaUnits us := by
  induction us with
  | nil => rfl
  | cons u us ih => simp [unitsLoop, commaUnits, ih]

/-- fuel that certainly suffices for the rest of the array -/
def totalNeed : List TUnit → Nat
  | [] => 0
  | u :: us => u.values.length + 7 + totalNeed us

theorem parseArrRest_units (js : Bool) (us : List TUnit) (hn : ∀ u ∈ us, UnitNamesOk u) :
    ∀ (f : Nat) (acc : List JVal) (rest : List Char), totalNeed us < f →
    parseArrRest js f acc (commaUnits us ++ ']' :: rest)
      = some (JVal.arr (acc.reverse ++ us.map unitJson), rest) := by
  induction us with
  | nil =>
    intro f acc rest hf
    obtain ⟨f', rfl⟩ : ∃ f', f = f' + 1 := ⟨f - 1, by omega⟩
    rw [parseArrRest]
    simp [commaUnits]
  | cons u us ih =>
    intro f acc rest hf
    simp only [totalNeed] at hf
    obtain ⟨f', rfl⟩ : ∃ f', f = f' + 1 := ⟨f - 1, by omega⟩
    rw [parseArrRest]
    simp only [commaUnits, List.cons_append, List.append_assoc, skipWs_comma]
    rw [parseValue_unit js (hn u (by simp)) f' (by omega)]
    simp only []
    rw [ih (fun v hv => hn v (by simp [hv])) f' (unitJson u :: acc) rest (by omega)]
    simp

theorem unitBody_head (u : TUnit) : ∃ t, unitBody u = '{' :: '"' :: t := by
  simp [unitBody, litLocale]

theorem parseValue_units (js : Bool) (us : List TUnit) (hn : ∀ u ∈ us, UnitNamesOk u)
    (f : Nat) (hf : totalNeed us < f) (rest : List Char) :
    parseValue js (f + 1) ('[' :: (unitsLoop true us ++ ']' :: rest))
      = some (JVal.arr (us.map unitJson), rest) := by
  cases us with
  | nil =>
    rw [parseValue]
    simp [unitsLoop]
  | cons u us' =>
    simp only [totalNeed] at hf
    obtain ⟨t, ht⟩ := unitBody_head u
    have h1 := parseValue_unit js (hn u (by simp)) f (by omega) (commaUnits us' ++ ']' :: rest)
    have h2 := parseArrRest_units js us' (fun v hv => hn v (by simp [hv])) f [unitJson u] rest (by omega)
    rw [parseValue]
    simp only [unitsLoop, unitsLoop_false_eq, List.nil_append, List.append_assoc, skipWs_lbrack, if_true]
    rw [ht] at h1 ⊢
    simp only [List.cons_append, skipWs_lbrace] at h1 ⊢
    simp only [h1, h2]
    simp

theorem allUnits_map (us : List TUnit) : allUnits (us.map unitJson) = some us := by
  induction us with
  | nil => rfl
  | cons u us ih => simp [allUnits, asUnit_unitJson, ih]

theorem stripPrefix_append (p s : List Char) : stripPrefix p (p ++ s) = some s := by
  induction p with
  | nil => cases s <;> rfl
  | cons c cs ih => simp [stripPrefix, ih]

theorem length_valuesLoop (b : Bool) (vs : List (List Char)) : vs.length ≤ (valuesLoop b vs).length := by
  induction vs generalizing b with
  | nil => simp [valuesLoop]
  | cons v vs ih =>
    have := ih false
    simp [valuesLoop, jsQuote]; omega

theorem length_unitBody (u : TUnit) : u.values.length + 7 ≤ (unitBody u).length := by
  have := length_valuesLoop true u.values
  cases hi : u.id <;> simp [unitBody, hi, litLocale, litId, litValues, litIdNull, litClose] <;> omega

theorem length_unitsLoop (b : Bool) (us : List TUnit) : totalNeed us ≤ (unitsLoop b us).length := by
  induction us generalizing b with
  | nil => simp [totalNeed]
  | cons u us ih =>
    have := ih false
    have := length_unitBody u
    simp [unitsLoop, totalNeed]; omega

theorem globalName_eq : globalName = globalRef := by decide

theorem jsDecode_toArray (us : List TUnit) (hn : ∀ u ∈ us, UnitNamesOk u) :
    jsDecodeEmbedded (toArray us) = some us := by
  have hlen : totalNeed us < (toArray us).length := by
    have := length_unitsLoop true us
    simp [toArray, arrayPrefix]; omega
  have h := parseValue_units true us hn (toArray us).length hlen [';']
  unfold jsDecodeEmbedded
  have hs : toArray us = globalRef ++ (' ' :: '=' :: ' ' :: '[' :: (unitsLoop true us ++ [']', ';'])) := by
    simp [toArray, arrayPrefix, globalName_eq, litEnd]
  rw [hs, stripPrefix_append]
  simp only [skipWs_space, skipWs_eq]
  rw [← hs, parseValue, skipWs_space]
  rw [parseValue] at h
  have h' : [']', ';'] = ']' :: [';'] := rfl
  rw [h', h]
  simp [asUnitList, allUnits_map]

/-! ### No `<` in the output -/

theorem hexDigit_ne_lt (n : Nat) : hexDigit n ≠ '<' := by
  unfold hexDigit
  split <;> decide

theorem lt_not_mem_jsEscChar (c : Char) : '<' ∉ jsEscChar c := by
  unfold jsEscChar
  by_cases h : c = '"'
  · rw [if_pos h]; decide
  rw [if_neg h]
  by_cases h : c = '\\'
  · rw [if_pos h]; decide
  rw [if_neg h]
  by_cases h : c = '\n'
  · rw [if_pos h]; decide
  rw [if_neg h]
  by_cases h : c = '\r'
  · rw [if_pos h]; decide
  rw [if_neg h]
  by_cases h : c = '\t'
  · rw [if_pos h]; decide
  rw [if_neg h]
  by_cases h : c = '\x08'
  · rw [if_pos h]; decide
  rw [if_neg h]
  by_cases h : c = '\x0c'
  · rw [if_pos h]; decide
  rw [if_neg h]
  by_cases hlt : c = '<'
  · rw [if_pos hlt]; decide
  rw [if_neg hlt]
  by_cases h : c = '\u2028'
  · rw [if_pos h]; decide
  rw [if_neg h]
  by_cases h : c = '\u2029'
  · rw [if_pos h]; decide
  rw [if_neg h]
  by_cases h : c.toNat < 0x20
  · rw [if_pos h]
    simp only [hex4, List.mem_cons, List.not_mem_nil, or_false, not_or]
    exact ⟨by decide, by decide, (hexDigit_ne_lt _).symm, (hexDigit_ne_lt _).symm, (hexDigit_ne_lt _).symm,
      (hexDigit_ne_lt _).symm⟩
  rw [if_neg h]
  simp only [List.mem_cons, List.not_mem_nil, or_false]
  exact fun e => hlt e.symm

theorem lt_not_mem_escBody (s : List Char) : '<' ∉ escBody jsEscChar s := by
  induction s with
  | nil => simp [escBody]
  | cons c cs ih => simp [escBody, lt_not_mem_jsEscChar c, ih]

theorem lt_not_mem_jsQuote (s : List Char) : '<' ∉ jsQuote s := by
  simp [jsQuote, lt_not_mem_escBody]

theorem lt_not_mem_valuesLoop (b : Bool) (vs : List (List Char)) : '<' ∉ valuesLoop b vs := by
  induction vs generalizing b with
  | nil => simp [valuesLoop]
  | cons v vs ih => cases b <;> simp [valuesLoop, lt_not_mem_jsQuote, ih]

theorem lt_not_mem_name {n : List Char} (h : NameOk n) : '<' ∉ n := by
  intro hm
  have := h _ hm
  revert this
  decide

theorem lt_not_mem_unitBody {u : TUnit} (hu : UnitNamesOk u) : '<' ∉ unitBody u := by
  obtain ⟨l, i, vs⟩ := u
  obtain ⟨hl, hi⟩ := hu
  have h1 := lt_not_mem_name hl
  have h2 := lt_not_mem_valuesLoop true vs
  cases i with
  | none => simp [unitBody, litLocale, litIdNull, litClose] at h1 ⊢; exact ⟨h1, h2⟩
  | some i =>
    have h3 := lt_not_mem_name (hi i rfl)
    simp [unitBody, litLocale, litId, litValues, litClose] at h1 ⊢; exact ⟨h1, h3, h2⟩

theorem lt_not_mem_unitsLoop (b : Bool) (us : List TUnit) (hn : ∀ u ∈ us, UnitNamesOk u) :
    '<' ∉ unitsLoop b us := by
  induction us generalizing b with
  | nil => simp [unitsLoop]
  | cons u us ih =>
    have h1 := lt_not_mem_unitBody (hn u (by simp))
    have h2 := ih false (fun v hv => hn v (by simp [hv]))
    cases b <;> simp [unitsLoop, h1, h2]

theorem lt_not_mem_toArray (us : List TUnit) (hn : ∀ u ∈ us, UnitNamesOk u) : '<' ∉ toArray us := by
  have := lt_not_mem_unitsLoop true us hn
  simp [toArray, arrayPrefix, globalName, litEnd, this]

theorem eqCI_lt {c : Char} (h : c ≠ '<') : eqCI '<' c = false := by
  have h60 : ('<' : Char).toNat = 60 := by decide
  simp only [eqCI, h60, Bool.or_eq_false_iff, Bool.and_eq_false_iff, decide_eq_false_iff_not]
  refine ⟨h, ?_⟩
  by_cases h1 : 65 ≤ c.toNat
  · right; omega
  · left; left; exact h1

theorem hasInfixCI_lt (ps s : List Char) (h : '<' ∉ s) : hasInfixCI ('<' :: ps) s = false := by
  induction s with
  | nil => simp [hasInfixCI]
  | cons c cs ih =>
    have hc : c ≠ '<' := fun e => h (by simp [e])
    simp [hasInfixCI, startsWithCI, eqCI_lt hc, ih (fun hm => h (by simp [hm]))]

theorem scriptSafe_of_no_lt (s : List Char) (h : '<' ∉ s) : scriptSafe s = true := by
  simp [scriptSafe, patEndScript, patComment, hasInfixCI_lt _ s h]

/-! ### The registration map -/

theorem sameKey_iff (a b : TUnit) : a.sameKey b = true ↔ a.locale = b.locale ∧ a.id = b.id := by
  simp [TUnit.sameKey]

theorem sameKey_refl (a : TUnit) : a.sameKey a = true := by simp [sameKey_iff]

theorem sameKey_symm {a b : TUnit} (h : a.sameKey b = true) : b.sameKey a = true := by
  rw [sameKey_iff] at h ⊢; exact ⟨h.1.symm, h.2.symm⟩

theorem sameKey_trans {a b c : TUnit} (h1 : a.sameKey b = true) (h2 : b.sameKey c = true) : a.sameKey c = true := by
  rw [sameKey_iff] at h1 h2 ⊢; exact ⟨h1.1.trans h2.1, h1.2.trans h2.2⟩

/-- no two entries with the same key (what a `HashMap` guarantees) -/
def DistinctKeys (m : List TUnit) : Prop := m.Pairwise (fun a b => a.sameKey b = false)

theorem keysDistinct_iff (m : List TUnit) : keysDistinct m = true ↔ DistinctKeys m := by
  induction m with
  | nil => simp [keysDistinct, DistinctKeys]
  | cons u us ih =>
    simp only [keysDistinct, DistinctKeys, List.pairwise_cons, Bool.and_eq_true, Bool.not_eq_true',
      List.any_eq_false]
    rw [ih]
    constructor
    · rintro ⟨h1, h2⟩
      refine ⟨fun v hv => ?_, h2⟩
      have := h1 v hv
      cases h : u.sameKey v with
      | false => rfl
      | true => exact absurd (sameKey_symm h) (by simp [this])
    · rintro ⟨h1, h2⟩
      refine ⟨fun v hv => ?_, h2⟩
      have := h1 v hv
      cases h : v.sameKey u with
      | false => simp
      | true => exact absurd (sameKey_symm h) (by simp [this])

theorem mem_mapInsert_self (u : TUnit) (m : List TUnit) : u ∈ mapInsert u m := by
  induction m with
  | nil => simp [mapInsert]
  | cons v m ih =>
    simp only [mapInsert]
    split <;> simp [ih]

theorem mem_mapInsert_weak {u x : TUnit} {m : List TUnit} (h : x ∈ mapInsert u m) : x = u ∨ x ∈ m := by
  induction m with
  | nil => simpa [mapInsert] using h
  | cons w m ih =>
    simp only [mapInsert] at h
    split at h
    · simp only [List.mem_cons] at h ⊢
      rcases h with h | h
      · exact Or.inl h
      · exact Or.inr (Or.inr h)
    · simp only [List.mem_cons] at h ⊢
      rcases h with h | h
      · exact Or.inr (Or.inl h)
      · rcases ih h with h' | h'
        · exact Or.inl h'
        · exact Or.inr (Or.inr h')

theorem sameKey_false_of {w u x : TUnit} (h1 : w.sameKey u = true) (h2 : w.sameKey x = false) :
    x.sameKey u = false := by
  cases h : x.sameKey u with
  | false => rfl
  | true =>
    have := sameKey_trans h1 (sameKey_symm h)
    rw [h2] at this; exact absurd this (by decide)

theorem mem_mapInsert {u v : TUnit} {m : List TUnit} (hd : DistinctKeys m) :
    v ∈ mapInsert u m ↔ v = u ∨ (v ∈ m ∧ v.sameKey u = false) := by
  induction m with
  | nil => simp [mapInsert]
  | cons w m ih =>
    simp only [DistinctKeys, List.pairwise_cons] at hd
    obtain ⟨hw, hm⟩ := hd
    simp only [mapInsert]
    by_cases hwu : w.sameKey u = true
    · rw [if_pos hwu]
      simp only [List.mem_cons]
      constructor
      · rintro (h | h)
        · exact Or.inl h
        · exact Or.inr ⟨Or.inr h, sameKey_false_of hwu (hw v h)⟩
      · rintro (h | ⟨h | h, hs⟩)
        · exact Or.inl h
        · subst h; rw [hwu] at hs; exact absurd hs (by decide)
        · exact Or.inr h
    · rw [if_neg hwu]
      have hwu' : w.sameKey u = false := by simpa using hwu
      simp only [List.mem_cons, ih hm]
      constructor
      · rintro (h | h | ⟨h, hs⟩)
        · subst h; exact Or.inr ⟨Or.inl rfl, hwu'⟩
        · exact Or.inl h
        · exact Or.inr ⟨Or.inr h, hs⟩
      · rintro (h | ⟨h | h, hs⟩)
        · exact Or.inr (Or.inl h)
        · exact Or.inl h
        · exact Or.inr (Or.inr ⟨h, hs⟩)

theorem distinctKeys_mapInsert {u : TUnit} {m : List TUnit} (hd : DistinctKeys m) :
    DistinctKeys (mapInsert u m) := by
  induction m with
  | nil => simp [mapInsert, DistinctKeys]
  | cons w m ih =>
    simp only [DistinctKeys, List.pairwise_cons] at hd
    obtain ⟨hw, hm⟩ := hd
    simp only [mapInsert]
    by_cases hwu : w.sameKey u = true
    · rw [if_pos hwu]
      simp only [DistinctKeys, List.pairwise_cons]
      refine ⟨fun x hx => ?_, hm⟩
      cases h : u.sameKey x with
      | false => rfl
      | true =>
        have := sameKey_trans hwu h
        rw [hw x hx] at this; exact absurd this (by decide)
    · rw [if_neg hwu]
      have hwu' : w.sameKey u = false := by simpa using hwu
      simp only [DistinctKeys, List.pairwise_cons]
      refine ⟨fun x hx => ?_, ih hm⟩
      rcases mem_mapInsert_weak hx with h | h
      · subst h; exact hwu'
      · exact hw x h

/-- every unit type has one constant table: two registrations with the same key carry the same strings -/
def Consistent (hist : List TUnit) : Prop := ∀ a ∈ hist, ∀ b ∈ hist, a.sameKey b = true → a = b

theorem foldl_mapInsert (hist : List TUnit) : ∀ (m seen : List TUnit), DistinctKeys m →
    (∀ v, v ∈ m ↔ v ∈ seen) → Consistent (seen ++ hist) →
    DistinctKeys (hist.foldl (fun m u => mapInsert u m) m) ∧
      ∀ v, v ∈ hist.foldl (fun m u => mapInsert u m) m ↔ v ∈ seen ++ hist := by
  induction hist with
  | nil => intro m seen hd hm _; simpa using ⟨hd, hm⟩
  | cons u hs ih =>
    intro m seen hd hm hc
    simp only [List.foldl_cons]
    have hc' : Consistent ((seen ++ [u]) ++ hs) := by simpa using hc
    have := ih (mapInsert u m) (seen ++ [u]) (distinctKeys_mapInsert hd) ?_ hc'
    · simpa using this
    · intro v
      rw [mem_mapInsert hd, hm]
      simp only [List.mem_append, List.mem_singleton]
      constructor
      · rintro (h | ⟨h, _⟩)
        · exact Or.inr h
        · exact Or.inl h
      · rintro (h | h)
        · by_cases hs' : v.sameKey u = true
          · exact Or.inl (hc v (by simp [h]) u (by simp) hs')
          · exact Or.inr ⟨h, by simpa using hs'⟩
        · exact Or.inl h

theorem registered_spec (hist : List TUnit) (hc : Consistent hist) :
    DistinctKeys (registered hist) ∧ ∀ v, v ∈ registered hist ↔ v ∈ hist := by
  have := foldl_mapInsert hist [] [] (by simp [DistinctKeys]) (by simp) (by simpa using hc)
  simpa [registered] using this

theorem subsetOf_iff (a b : List TUnit) : subsetOf a b = true ↔ ∀ u ∈ a, u ∈ b := by
  simp [subsetOf]


end I18nVerif.Escape
