import I18nVerif.Proofs.Index
/-!
Glue for C11 through `checkLocalesInner`: the builder-keys tree built by `makeBuilderKeys` and
grown by `mergeLocale` has subkey depth below the fuel, and every nested `Subkeys` node holds exactly
one locale per top-level locale processed so far.
-/
namespace I18nVerif.Check
open I18nVerif

theorem depthBKI_append : ∀ (a b : BKI), depthBKI (a ++ b) = max (depthBKI a) (depthBKI b)
  | [], b => by simp [depthBKI]
  | (k, lv) :: a, b => by simp only [List.cons_append, depthBKI, depthBKI_append a b]; omega

theorem lensBKI_append (n : Nat) : ∀ (a b : BKI), lensBKI n (a ++ b) = (lensBKI n a && lensBKI n b)
  | [], b => by simp [lensBKI]
  | (k, lv) :: a, b => by simp only [List.cons_append, lensBKI, lensBKI_append n a b, Bool.and_assoc]

theorem depthBKI_concat (a : BKI) (k : Str) (lv : LV) :
    depthBKI (a ++ [(k, lv)]) = max (depthBKI a) (depthLV lv) := by
  rw [depthBKI_append]; simp [depthBKI]

theorem lensBKI_concat (n : Nat) (a : BKI) (k : Str) (lv : LV) :
    lensBKI n (a ++ [(k, lv)]) = (lensBKI n a && lensLV n lv) := by
  rw [lensBKI_append]; simp [lensBKI]

/-! ### the default locale -/

theorem makeKeys_shape (fuel : Nat) (recMake : MakeRec) (dflt : Str) (path : KeyPath)
    (hrec : ∀ p sub strs sub' bki strs', recMake p sub strs = .ok (sub', bki, strs') →
      depthBKI bki < fuel ∧ lensBKI 1 bki = true) :
    ∀ (ks accK : List (Str × PV)) (accB : BKI) (strs : List Str) accK' accB' strs',
      makeKeys recMake dflt path ks accK accB strs = .ok (accK', accB', strs') →
      depthBKI accB ≤ fuel → lensBKI 1 accB = true → depthBKI accB' ≤ fuel ∧ lensBKI 1 accB' = true
  | [], accK, accB, strs, accK', accB', strs', h, hd, hl => by
    simp only [makeKeys] at h
    simp at h
    obtain ⟨_, rfl, _⟩ := h
    exact ⟨hd, hl⟩
  | (k, v) :: rest, accK, accB, strs, accK', accB', strs', h, hd, hl => by
    simp only [makeKeys] at h
    split at h <;> try (simp at h; done)
    split at h <;> try (simp at h; done)
    · split at h <;> try (simp at h; done)
      rename_i sub' bki strs1 hr
      obtain ⟨h1, h2⟩ := hrec _ _ _ _ _ _ hr
      refine makeKeys_shape fuel recMake dflt path hrec rest _ _ _ _ _ _ h ?_ ?_
      · rw [depthBKI_concat]; simp only [depthLV]; omega
      · rw [lensBKI_concat]; simp [lensLV, hl, h2]
    · split at h <;> try (simp at h; done)
      refine makeKeys_shape fuel recMake dflt path hrec rest _ _ _ _ _ _ h ?_ ?_
      · rw [depthBKI_concat]; simp only [depthLV]; omega
      · rw [lensBKI_concat]; simp [lensLV, hl]

theorem makeBuilderKeys_shape (dflt : Str) : ∀ (fuel : Nat) (path : KeyPath) (loc : Loc) (strs : List Str) l bki strs',
    makeBuilderKeys dflt fuel path loc strs = .ok (l, bki, strs') → depthBKI bki < fuel ∧ lensBKI 1 bki = true
  | 0, path, loc, strs, l, bki, strs', h => by simp [makeBuilderKeys] at h
  | fuel + 1, path, loc, strs, l, bki, strs', h => by
    simp only [makeBuilderKeys] at h
    split at h <;> try (simp at h; done)
    rename_i keys' bki0 strs0 hk
    simp at h
    obtain ⟨_, rfl, _⟩ := h
    have := makeKeys_shape fuel (makeBuilderKeys dflt fuel) dflt path
      (fun p sub s sub' b s' hh => makeBuilderKeys_shape dflt fuel p sub s sub' b s' hh)
      loc.keys [] [] strs _ _ _ hk (by simp [depthBKI]) (by simp [lensBKI])
    exact ⟨by omega, this.2⟩

/-! ### merging another locale -/

theorem mergeValue_shape (fuel : Nat) (recMerge : MergeRec) (top : Str) (dto : DefaultTo) (kp : KeyPath)
    (hrec : ∀ kp loc bkeys st loc' bkeys' st', recMerge kp loc bkeys st = .ok (loc', bkeys', st') →
      depthBKI bkeys' < fuel ∧ ∀ n, lensBKI n bkeys = true → lensBKI (n + 1) bkeys' = true)
    (cur : PV) (lv : LV) (st : St) (v' : PV) (lv' : LV) (st' : St)
    (h : mergeValue recMerge top dto kp cur lv st = .ok (v', lv', st')) :
    depthLV lv' ≤ fuel ∧ ∀ n, lensLV n lv = true → lensLV (n + 1) lv' = true := by
  unfold mergeValue at h
  cases lv with
  | subkeys locales bkeys =>
    simp only at h
    split at h <;> try (simp at h; done)
    · split at h <;> try (simp at h; done)
      split at h <;> try (simp at h; done)
      rename_i dummy' bkeys' st1 hr
      simp at h
      obtain ⟨_, rfl, _⟩ := h
      obtain ⟨h1, h2⟩ := hrec _ _ _ _ _ _ _ hr
      refine ⟨by simp only [depthLV]; omega, ?_⟩
      intro n hn
      simp only [lensLV, Bool.and_eq_true, beq_iff_eq] at hn
      simp [lensLV, hn.1, h2 n hn.2]
    · split at h <;> try (simp at h; done)
      rename_i loc' bkeys' st1 hr
      simp at h
      obtain ⟨_, rfl, _⟩ := h
      obtain ⟨h1, h2⟩ := hrec _ _ _ _ _ _ _ hr
      refine ⟨by simp only [depthLV]; omega, ?_⟩
      intro n hn
      simp only [lensLV, Bool.and_eq_true, beq_iff_eq] at hn
      simp [lensLV, hn.1, h2 n hn.2]
  | value iol d =>
    simp only at h
    split at h <;> try (simp at h; done)
    · simp at h
      obtain ⟨_, rfl, _⟩ := h
      simp [depthLV, lensLV]
    · split at h
      · simp at h
        obtain ⟨_, rfl, _⟩ := h
        simp [depthLV, lensLV]
      · split at h <;>
        · simp at h
          obtain ⟨_, rfl, _⟩ := h
          simp [depthLV, lensLV]
    · split at h <;> try (simp at h; done)
      simp at h
      obtain ⟨_, rfl, _⟩ := h
      simp [depthLV, lensLV]

theorem mergeKeys_shape (fuel : Nat) (recMerge : MergeRec) (top : Str) (dto : DefaultTo) (path : KeyPath)
    (hrec : ∀ kp loc bkeys st loc' bkeys' st', recMerge kp loc bkeys st = .ok (loc', bkeys', st') →
      depthBKI bkeys' < fuel ∧ ∀ n, lensBKI n bkeys = true → lensBKI (n + 1) bkeys' = true) :
    ∀ (bki : BKI) (ks : List (Str × PV)) (accB : BKI) (st : St) ks' accB' st',
      mergeKeys recMerge top dto path bki ks accB st = .ok (ks', accB', st') →
      depthBKI accB ≤ fuel →
      depthBKI accB' ≤ fuel ∧
        ∀ n, lensBKI n bki = true → lensBKI (n + 1) accB = true → lensBKI (n + 1) accB' = true
  | [], ks, accB, st, ks', accB', st', h, hd => by
    simp only [mergeKeys] at h
    simp at h
    obtain ⟨_, rfl, _⟩ := h
    exact ⟨hd, fun _ _ h => h⟩
  | (k, lv) :: rest, ks, accB, st, ks', accB', st', h, hd => by
    unfold mergeKeys at h
    simp only at h
    split at h <;> try (simp at h; done)
    split at h <;> try (simp at h; done)
    rename_i v1 lv1 st1 hm
    obtain ⟨m1, m2⟩ := mergeValue_shape fuel recMerge top dto _ hrec _ _ _ _ _ _ hm
    obtain ⟨r1, r2⟩ := mergeKeys_shape fuel recMerge top dto path hrec rest _ _ _ _ _ _ h
      (by rw [depthBKI_concat]; omega)
    refine ⟨r1, ?_⟩
    intro n hn ha
    simp only [lensBKI, Bool.and_eq_true] at hn
    exact r2 n hn.2 (by rw [lensBKI_concat, ha, m2 n hn.1]; rfl)

theorem mergeLocale_shape (suppress : Bool) (top : Str) (dto : DefaultTo) :
    ∀ (fuel : Nat) (path : KeyPath) (loc : Loc) (bki : BKI) (st : St) loc' bki' st',
      mergeLocale suppress top dto fuel path loc bki st = .ok (loc', bki', st') →
      depthBKI bki' < fuel ∧ ∀ n, lensBKI n bki = true → lensBKI (n + 1) bki' = true
  | 0, path, loc, bki, st, loc', bki', st', h => by simp [mergeLocale] at h
  | fuel + 1, path, loc, bki, st, loc', bki', st', h => by
    simp only [mergeLocale] at h
    split at h <;> try (simp at h; done)
    rename_i keys1 bki1 st1 hk
    simp at h
    obtain ⟨_, rfl, _⟩ := h
    obtain ⟨r1, r2⟩ := mergeKeys_shape fuel (mergeLocale suppress top dto fuel) top dto path
      (fun kp l b s l' b' s' hh => mergeLocale_shape suppress top dto fuel kp l b s l' b' s' hh)
      bki loc.keys [] st _ _ _ hk (by simp [depthBKI])
    exact ⟨by omega, fun n hn => r2 n hn (by simp [lensBKI])⟩

/-! ### `checkLocalesInner` -/

theorem go_shape (suppress : Bool) (fuel : Nat) (inherits : List (Str × Str)) (dl : Loc) (path : KeyPath) :
    ∀ (others acc : List Loc) (bki : BKI) (ws : List Warning) locales bki' ws',
      checkLocalesInner.go suppress fuel inherits dl path others acc bki ws = .ok (locales, bki', ws') →
      depthBKI bki < fuel → lensBKI acc.length bki = true → (∀ l ∈ acc, l.count = l.strings.length) →
      depthBKI bki' < fuel ∧ lensBKI locales.length bki' = true ∧ (∀ l ∈ locales, l.count = l.strings.length) ∧
        locales.length = acc.length + others.length
  | [], acc, bki, ws, locales, bki', ws', h, hd, hl, hc => by
    simp only [checkLocalesInner.go] at h
    simp at h
    obtain ⟨rfl, rfl, _⟩ := h
    exact ⟨hd, hl, hc, rfl⟩
  | l :: rest, acc, bki, ws, locales, bki', ws', h, hd, hl, hc => by
    simp only [checkLocalesInner.go] at h
    split at h <;> try (simp at h; done)
    rename_i l1 bki1 st1 hm
    obtain ⟨m1, m2⟩ := mergeLocale_shape _ _ _ _ _ _ _ _ _ _ _ hm
    have := go_shape suppress fuel inherits dl path rest _ _ _ _ _ _ h m1 ?_ ?_
    · obtain ⟨a, b, c, d⟩ := this
      refine ⟨a, b, c, ?_⟩
      simp at d ⊢; omega
    · simpa using m2 _ hl
    · intro x hx
      rcases List.mem_append.mp hx with hx | hx
      · exact hc x hx
      · simp at hx; subst hx; rfl

theorem checkLocalesInner_counts (suppress : Bool) (fuel : Nat) (inherits : List (Str × Str)) (ns : Option Str)
    (locs : List Loc) (ws : List Warning) (locales : List Loc) (bki : BKI) (ws' : List Warning)
    (h : checkLocalesInner suppress fuel inherits ns locs ws = .ok (locales, bki, ws')) :
    locales.length = locs.length ∧
    (∀ l ∈ locales, l.count = l.strings.length) ∧
    lensBKI locales.length bki = true ∧
    countsEq (locales.map Loc.count) bki = true ∧
    countsAgree (locales.map Loc.count) bki = true := by
  cases locs with
  | nil => simp [checkLocalesInner] at h
  | cons dl others =>
    simp only [checkLocalesInner] at h
    split at h <;> try (simp at h; done)
    rename_i dl' bki0 strs hmk
    split at h <;> try (simp at h; done)
    rename_i locales1 bki1 ws1 hgo
    simp at h
    obtain ⟨rfl, rfl, _⟩ := h
    obtain ⟨k1, k2⟩ := makeBuilderKeys_shape _ _ _ _ _ _ _ _ hmk
    obtain ⟨g1, g2, g3, g4⟩ := go_shape _ _ _ _ _ _ _ _ _ _ _ _ hgo k1 (by simpa using k2)
      (by intro l hl; simp at hl; subst hl; rfl)
    refine ⟨by simpa [Nat.add_comm] using g4, g3, ?_, ?_, ?_⟩
    · rw [propagate_lens]; exact g2
    · exact propagate_eq _ _ _ (by omega) (by simpa using g2)
    · exact propagate_agree _ _ _ (by omega)

end I18nVerif.Check
