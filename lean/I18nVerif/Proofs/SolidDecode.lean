import I18nVerif.Spec.Solid
import I18nVerif.Proofs.TablesAll
import I18nVerif.Proofs.Reduce
import I18nVerif.Model.Pipeline
/-!
The parser produces solid values (`Spec/Solid.lean`): `Parse.newF` / `Parse.new` (every fuel),
`Decode.value`, `Decode.locale`, `Pipeline.parseRaw`; and `Reduce.reduce` keeps values solid.
-/
namespace I18nVerif.Render
open I18nVerif

/-! ### small helpers -/

theorem SolidK_iff (ks : List (Str × PV)) : SolidK ks = true ↔ ∀ kv ∈ ks, Solid kv.2 = true := by
  induction ks with
  | nil => simp [SolidK]
  | cons e rest ih => obtain ⟨k, v⟩ := e; simp [SolidK, ih]

theorem SolidKeys_iff (ks : List (Str × PV)) : SolidKeys ks = true ↔ ∀ kv ∈ ks, SolidV kv.2 = true := by
  induction ks with
  | nil => simp [SolidKeys]
  | cons e rest ih => obtain ⟨k, v⟩ := e; simp [SolidKeys, ih]

theorem SolidL_iff (l : List PV) : SolidL l = true ↔ ∀ v ∈ l, Solid v = true := by
  induction l with
  | nil => simp [SolidL]
  | cons e rest ih => simp [SolidL, ih]

theorem SolidB_iff (l : List (Range × PV)) : SolidB l = true ↔ ∀ rv ∈ l, Solid rv.2 = true := by
  induction l with
  | nil => simp [SolidB]
  | cons e rest ih => obtain ⟨k, v⟩ := e; simp [SolidB, ih]

theorem SolidF_iff (l : List (Form × PV)) : SolidF l = true ↔ ∀ fv ∈ l, Solid fv.2 = true := by
  induction l with
  | nil => simp [SolidF]
  | cons e rest ih => obtain ⟨k, v⟩ := e; simp [SolidF, ih]

theorem SolidK_insert' {k : Str} {v : PV} {m : List (Str × PV)} (hm : SolidK m = true) (hv : Solid v = true) :
    SolidK (AMap.insert' k v m) = true := by
  rw [SolidK_iff] at hm ⊢
  intro kv hkv
  rcases AMap.mem_of_mem_insert' _ _ hkv with rfl | h
  · exact hv
  · exact hm kv h

theorem SolidKeys_insert' {k : Str} {v : PV} {m : List (Str × PV)} (hm : SolidKeys m = true) (hv : SolidV v = true) :
    SolidKeys (AMap.insert' k v m) = true := by
  rw [SolidKeys_iff] at hm ⊢
  intro kv hkv
  rcases AMap.mem_of_mem_insert' _ _ hkv with rfl | h
  · exact hv
  · exact hm kv h

/-- a solid value may be stored under a key -/
theorem solid_solidV {v : PV} (h : Solid v = true) : SolidV v = true := by
  cases v with
  | dflt => simp [Solid] at h
  | subkeys o => simp [Solid] at h
  | lit l => rfl
  | var k f => rfl
  | fk f => cases f <;> simpa [Solid, SolidV] using h
  | comp k i => simpa [Solid, SolidV] using h
  | bloc l => simpa [Solid, SolidV] using h
  | ranges ck t bs => simpa [Solid, SolidV] using h
  | plurals r ck o fs => simpa [Solid, SolidV] using h

/-- what is stored under a key: `Default`, a group of such keys, or a solid value -/
theorem solidV_cases {v : PV} (h : SolidV v = true) :
    v = .dflt ∨ (∃ l, v = .subkeys (some l) ∧ SolidKeys l.keys = true) ∨ Solid v = true := by
  cases v with
  | dflt => exact Or.inl rfl
  | subkeys o =>
    cases o with
    | none => simp [SolidV] at h
    | some l =>
      cases l with
      | mk n t keys s c => exact Or.inr (Or.inl ⟨_, rfl, by simpa [SolidV, Loc.keys] using h⟩)
  | lit l => exact Or.inr (Or.inr rfl)
  | var k f => exact Or.inr (Or.inr rfl)
  | fk f => cases f <;> exact Or.inr (Or.inr (by simpa [Solid, SolidV] using h))
  | comp k i => exact Or.inr (Or.inr (by simpa [Solid, SolidV] using h))
  | bloc l => exact Or.inr (Or.inr (by simpa [Solid, SolidV] using h))
  | ranges ck t bs => exact Or.inr (Or.inr (by simpa [Solid, SolidV] using h))
  | plurals r ck o fs => exact Or.inr (Or.inr (by simpa [Solid, SolidV] using h))

theorem SolidV_subkeys {l : Loc} (h : SolidV (.subkeys (some l)) = true) : SolidKeys l.keys = true := by
  cases l
  simpa [SolidV, Loc.keys] using h

theorem SolidV_subkeys_iff (l : Loc) : SolidV (.subkeys (some l)) = SolidKeys l.keys := by
  cases l
  simp [SolidV, Loc.keys]

theorem SolidV_dflt : SolidV .dflt = true := rfl

theorem Solid_not_dflt : Solid .dflt = false := rfl

theorem Solid_not_subkeys (o : Option Loc) : Solid (.subkeys o) = false := rfl

theorem SolidL_append : ∀ (a b : List PV), SolidL (a ++ b) = (SolidL a && SolidL b)
  | [], b => by simp [SolidL]
  | x :: xs, b => by simp [SolidL, SolidL_append xs b, Bool.and_assoc]

theorem SolidL_concat (a : List PV) (x : PV) : SolidL (a ++ [x]) = (SolidL a && Solid x) := by
  rw [SolidL_append]; simp [SolidL]

/-! ### `ParsedValue::new` -/

/-- what the recursive calls of the parser are assumed to satisfy -/
def RecSolid (rec_ : Str → Res PV) : Prop := ∀ s v, rec_ s = .ok v → Solid v = true

theorem litToPV_solid (l : Json.JLit) : Solid (.lit (Parse.litToPV l)) = true := by
  cases l <;> rfl

theorem parseFKArgsInner_go_solid (rec_ : Str → Res PV) (hrec : RecSolid rec_) :
    ∀ (l : List (Str × Json.JLit)) (acc res : List (Str × PV)),
      Parse.parseFKArgsInner.go rec_ l acc = .ok res → SolidK acc = true → SolidK res = true
  | [], acc, res, h, ha => by
    simp only [Parse.parseFKArgsInner.go, Res.ok.injEq] at h
    subst h; exact ha
  | (k, v) :: rest, acc, res, h, ha => by
    simp only [Parse.parseFKArgsInner.go] at h
    split at h
    · rename_i pv hpv
      refine parseFKArgsInner_go_solid rec_ hrec rest _ res h (SolidK_insert' ha ?_)
      split at hpv
      · exact hrec _ _ hpv
      · simp only [Res.ok.injEq] at hpv
        subst hpv; exact litToPV_solid _
    · simp at h
    · simp at h

theorem parseFKArgs_solid (rec_ : Str → Res PV) (hrec : RecSolid rec_) (s : Str) (args : List (Str × PV)) (after : Str)
    (h : Parse.parseFKArgs rec_ s = .ok (args, after)) : SolidK args = true := by
  unfold Parse.parseFKArgs at h
  split at h
  · simp at h
  · dsimp only at h
    split at h
    · simp at h
    · split at h
      · rename_i args' hi
        simp only [Res.ok.injEq, Prod.mk.injEq] at h
        rw [← h.1]
        unfold Parse.parseFKArgsInner at hi
        split at hi
        · simp at hi
        · exact parseFKArgsInner_go_solid rec_ hrec _ _ _ hi rfl
      · simp at h
      · simp at h

theorem fk_tail_solid (rec_ : Str → Res PV) (hrec : RecSolid rec_) (before after : Str) (target : KeyPath)
    (args : List (Str × PV)) (v : PV) (hargs : SolidK args = true)
    (h : (match rec_ before with
      | .err e => some (.err e)
      | .panic p => some (.panic p)
      | .ok b =>
        match rec_ after with
        | .err e => some (.err e)
        | .panic p => some (.panic p)
        | .ok a => some (Res.ok (PV.bloc [b, PV.fk (FK.notSet target args), a]))) = some (.ok v)) :
    Solid v = true := by
  split at h
  · simp at h
  · simp at h
  · rename_i b hb
    split at h
    · simp at h
    · simp at h
    · rename_i a ha'
      simp only [Option.some.injEq, Res.ok.injEq] at h
      subst h
      simp [Solid, SolidL, hrec _ _ hb, hrec _ _ ha', hargs]

theorem findForeignKey_solid (rec_ : Str → Res PV) (hrec : RecSolid rec_) (value : Str) (v : PV)
    (h : Parse.findForeignKey rec_ value = some (.ok v)) : Solid v = true := by
  unfold Parse.findForeignKey at h
  split at h
  · simp at h
  · split at h
    · simp at h
    · split at h
      · simp at h
      · rename_i target _
        simp only at h
        split at h
        · simp at h
        · simp at h
        · rename_i args after ha
          have hargs : SolidK args = true := by
            split at ha
            · exact parseFKArgs_solid rec_ hrec _ _ _ ha
            · simp only [Res.ok.injEq, Prod.mk.injEq] at ha
              rw [← ha.1]; rfl
          exact fk_tail_solid rec_ hrec _ _ _ _ _ hargs h

theorem findVariable_solid (rec_ : Str → Res PV) (hrec : RecSolid rec_) (value : Str) (v : PV)
    (h : Parse.findVariable rec_ value = some (.ok v)) : Solid v = true := by
  unfold Parse.findVariable at h
  split at h
  · simp at h
  · split at h
    · simp at h
    · simp only at h
      split at h
      · simp at h
      · simp at h
      · rename_i b hb
        split at h
        · simp at h
        · simp at h
        · rename_i a ha
          split at h
          · split at h
            · simp at h
            · simp at h
            · split at h
              · simp at h
              · simp only [Option.some.injEq, Res.ok.injEq] at h
                subst h
                simp [Solid, SolidL, hrec _ _ hb, hrec _ _ ha]
          · split at h
            · simp at h
            · simp only [Option.some.injEq, Res.ok.injEq] at h
              subst h
              simp [Solid, SolidL, hrec _ _ hb, hrec _ _ ha]

theorem findComponent_solid (rec_ : Str → Res PV) (hrec : RecSolid rec_) (value : Str) (v : PV)
    (h : Parse.findComponent rec_ value = some (.ok v)) : Solid v = true := by
  unfold Parse.findComponent at h
  split at h
  · simp at h
  · split at h
    · simp at h
    · simp at h
    · rename_i b hb
      split at h
      · simp at h
      · simp at h
      · rename_i m hm
        split at h
        · simp at h
        · simp at h
        · rename_i a ha
          simp only [Option.some.injEq, Res.ok.injEq] at h
          subst h
          simp [Solid, SolidL, hrec _ _ hb, hrec _ _ hm, hrec _ _ ha]

theorem newF_solid : ∀ fuel, RecSolid (Parse.newF fuel) := by
  intro fuel
  induction fuel with
  | zero => intro s v h; simp [Parse.newF] at h
  | succ fuel ih =>
    intro s v h
    simp only [Parse.newF] at h
    split at h
    · rename_i r hr
      subst h
      exact findForeignKey_solid _ ih _ _ hr
    · split at h
      · rename_i r hr
        subst h
        exact findComponent_solid _ ih _ _ hr
      · split at h
        · rename_i r hr
          subst h
          exact findVariable_solid _ ih _ _ hr
        · simp only [Res.ok.injEq] at h
          subst h; rfl

theorem new_solid (s : Str) (v : PV) (h : Parse.new s = .ok v) : Solid v = true :=
  newF_solid _ s v h


/-! ### `Decode.value`, `Decode.locale` -/

theorem pairs_solid (pair : RangeTy → J → Res (Range × PV))
    (hpair : ∀ t x r pv, pair t x = .ok (r, pv) → Solid pv = true) (t : RangeTy) :
    ∀ (l : List J) (bs : List (Range × PV)), Decode.value.pairs pair t l = .ok bs → SolidB bs = true
  | [], bs, h => by
    simp only [Decode.value.pairs, Res.ok.injEq] at h
    subst h; rfl
  | x :: xs, bs, h => by
    simp only [Decode.value.pairs] at h
    split at h
    · simp at h
    · simp at h
    · rename_i p hp
      split at h
      · simp at h
      · simp at h
      · rename_i ps hps
        simp only [Res.ok.injEq] at h
        subst h
        obtain ⟨r, pv⟩ := p
        simp only [SolidB, Bool.and_eq_true]
        exact ⟨hpair _ _ _ _ hp, pairs_solid pair hpair t xs ps hps⟩

/-- every decoded value may be stored under a key; inside a range it is solid -/
def ValSolid (fuel : Nat) : Prop :=
  ∀ top inRange key j v, Decode.value fuel top inRange key j = .ok v →
    SolidV v = true ∧ (inRange = true → Solid v = true)

local macro "pair_tac" ih:ident : tactic => `(tactic| (
  intro t x r pv hp
  try dsimp only at hp
  repeat' split at hp
  all_goals (try (simp at hp; done))
  all_goals (
    simp only [Res.ok.injEq, Prod.mk.injEq] at hp
    have hpv := hp.2
    subst hpv
    exact ($ih _ _ _ _ _ (by assumption)).2 rfl)))

theorem localeKeys_solid (fuel : Nat) (ih : ValSolid fuel) (top : Str) :
    ∀ (l : List (Str × J)) (acc res : List (Str × PV)),
      Decode.value.localeKeys fuel top l acc = .ok res → SolidKeys acc = true → SolidKeys res = true
  | [], acc, res, h, ha => by
    rw [Decode.value.localeKeys] at h
    simp only [Res.ok.injEq] at h
    subst h; exact ha
  | (k, x) :: rest, acc, res, h, ha => by
    rw [Decode.value.localeKeys] at h
    split at h
    · simp at h
    · split at h
      · simp at h
      · simp at h
      · rename_i pv hv
        split at h
        · simp at h
        · exact localeKeys_solid fuel ih top rest _ res h (SolidKeys_insert' ha (ih _ _ _ _ _ hv).1)

theorem value_solid : ∀ fuel, ValSolid fuel := by
  intro fuel
  induction fuel with
  | zero => intro top inRange key j v h; rw [Decode.value.eq_def] at h; simp at h
  | succ fuel ih =>
    intro top inRange key j v h
    rw [Decode.value.eq_def] at h
    simp only at h
    cases j with
    | str s =>
      simp only at h
      have := new_solid s v h
      exact ⟨solid_solidV this, fun _ => this⟩
    | bool b => simp only [Res.ok.injEq] at h; subst h; exact ⟨rfl, fun _ => rfl⟩
    | signed i => simp only [Res.ok.injEq] at h; subst h; exact ⟨rfl, fun _ => rfl⟩
    | unsigned n => simp only [Res.ok.injEq] at h; subst h; exact ⟨rfl, fun _ => rfl⟩
    | float d => simp only [Res.ok.injEq] at h; subst h; exact ⟨rfl, fun _ => rfl⟩
    | null =>
      simp only at h
      split at h
      · simp at h
      · rename_i hir
        simp only [Res.ok.injEq] at h; subst h
        exact ⟨rfl, fun e => absurd e hir⟩
    | obj l =>
      simp only at h
      split at h
      · simp at h
      · rename_i hir
        split at h
        · rename_i keys hk
          simp only [Res.ok.injEq] at h; subst h
          refine ⟨?_, fun e => absurd e hir⟩
          simp only [SolidV]
          exact localeKeys_solid fuel ih top l [] keys hk rfl
        · simp at h
        · simp at h
    | arr l =>
      simp only at h
      split at h
      · simp at h
      · rename_i hir
        split at h
        · simp at h
        · rename_i first rest
          split at h
          · simp at h
          · simp at h
          · rename_i t bs hstart
            have hbs : SolidB bs = true := by
              split at hstart
              · split at hstart
                · split at hstart
                  · rename_i bs' hps
                    simp only [Res.ok.injEq, Prod.mk.injEq] at hstart
                    rw [← hstart.2]
                    refine pairs_solid _ ?_ _ _ _ hps
                    pair_tac ih
                  · simp at hstart
                  · simp at hstart
                · simp at hstart
              · split at hstart
                · rename_i bs' hps
                  simp only [Res.ok.injEq, Prod.mk.injEq] at hstart
                  rw [← hstart.2]
                  refine pairs_solid _ ?_ _ _ _ hps
                  pair_tac ih
                · simp at hstart
                · simp at hstart
              · split at hstart
                · rename_i bs' hps
                  simp only [Res.ok.injEq, Prod.mk.injEq] at hstart
                  rw [← hstart.2]
                  refine pairs_solid _ ?_ _ _ _ hps
                  pair_tac ih
                · simp at hstart
                · simp at hstart
              · simp at hstart
            split at h
            · simp at h
            · rename_i hne
              repeat' split at h
              all_goals (try (simp at h; done))
              simp only [Res.ok.injEq] at h
              subst h
              refine ⟨?_, fun e => absurd e hir⟩
              simp only [SolidV, Bool.and_eq_true]
              exact ⟨by simpa using hne, hbs⟩

theorem locale_solid (name : Str) (j : J) (loc : Loc) (h : Decode.locale name j = .ok loc) :
    SolidKeys loc.keys = true := by
  unfold Decode.locale at h
  split at h
  · split at h
    · rename_i l hv
      simp only [Res.ok.injEq] at h
      subst h
      exact SolidV_subkeys (value_solid _ _ _ _ _ _ hv).1
    · simp at h
    · simp at h
    · simp at h
  · simp at h

/-! ### `parse_locales_raw` -/

open Pipeline in
theorem decodeNs_solid (inp : Pipeline.Input) (ns : Option Str) : ∀ (ls : List Str) (locs : List Loc),
    decodeNs inp ns ls = .ok locs → ∀ l ∈ locs, SolidKeys l.keys = true
  | [], locs, h, l, hl => by simp [decodeNs] at h; subst h; simp at hl
  | x :: xs, locs, h, l, hl => by
    simp only [decodeNs] at h
    split at h
    · simp at h
    · split at h
      · simp at h
      · simp at h
      · rename_i loc hloc
        split at h
        · rename_i locs' hr
          simp only [Res.ok.injEq] at h
          subst h
          rcases List.mem_cons.mp hl with rfl | hl
          · exact locale_solid _ _ _ hloc
          · exact decodeNs_solid inp ns xs locs' hr l hl
        · simp at h
        · simp at h

open Pipeline in
theorem decodeAll_solid (inp : Pipeline.Input) : ∀ (keys : List (Option Str)) (nss : List NS),
    decodeAll inp keys = .ok nss → ∀ ns ∈ nss, ∀ l ∈ ns.locales, SolidKeys l.keys = true
  | [], nss, h, ns, hn => by simp [decodeAll] at h; subst h; simp at hn
  | k :: rest, nss, h, ns, hn => by
    simp only [decodeAll] at h
    split at h
    · simp at h
    · simp at h
    · rename_i locs hl
      split at h
      · rename_i nss' hr
        simp only [Res.ok.injEq] at h
        subst h
        rcases List.mem_cons.mp hn with rfl | hn
        · exact decodeNs_solid inp k _ _ hl
        · exact decodeAll_solid inp rest nss' hr ns hn
      · simp at h
      · simp at h

theorem parseRaw_solid (inp : Pipeline.Input) (w0 : World) (paths : List (Str × KeyPath))
    (h : Pipeline.parseRaw inp = .ok (w0, paths)) : ∀ ns ∈ w0.nss, ∀ l ∈ ns.locales, SolidKeys l.keys = true := by
  unfold Pipeline.parseRaw at h
  split at h
  all_goals
    dsimp only at h
    split at h
    · simp at h
    · simp at h
    · rename_i nss0 hd
      simp only [Res.ok.injEq, Prod.mk.injEq] at h
      rw [← h.1]
      exact decodeAll_solid inp _ _ hd

/-! ### `reduce` keeps values solid -/

section ReduceSolid
open Reduce

theorem Solid_join (a b : Lit) : Solid (.lit (a.join b)) = true := rfl

theorem SolidL_pushLit {acc : List PV} (l : Lit) (ha : SolidL acc = true) :
    SolidL (pushLit l acc) = true := by
  unfold pushLit
  split
  · rename_i last h
    have h' := Reduce.eq_dropLast_append_of_getLast? h
    generalize acc.dropLast = dl at h'
    subst h'
    rw [SolidL_concat, Bool.and_eq_true] at ha
    rw [SolidL_concat, ha.1]; rfl
  · rw [SolidL_concat, ha]; rfl

theorem Solid_wrapBloc : ∀ {acc : List PV}, SolidL acc = true → Solid (wrapBloc acc) = true
  | [], _ => by simp [wrapBloc, PV.empty, Solid]
  | [one], h => by simpa [wrapBloc, SolidL] using h
  | a :: b :: rest, h => by simpa [wrapBloc, Solid] using h

/-- the number of branches / forms / keys is kept -/
theorem reduceBranches_length : ∀ (bs bs' : List (Range × PV)),
    reduceBranches bs = .ok bs' → bs'.length = bs.length
  | [], bs', h => by simp [reduceBranches] at h; subst h; rfl
  | (r, v) :: rest, bs', h => by
    simp only [reduceBranches] at h
    split at h <;> try (simp at h; done)
    rename_i v' rest' hv hr
    simp at h; subst h
    simp [reduceBranches_length rest rest' hr]

theorem reduceBranches_isEmpty (bs bs' : List (Range × PV)) (h : reduceBranches bs = .ok bs') :
    bs'.isEmpty = bs.isEmpty := by
  have := reduceBranches_length bs bs' h
  cases bs <;> cases bs' <;> simp_all

mutual
theorem reduce_solid : ∀ (v v' : PV), reduce v = .ok v' → Solid v = true → Solid v' = true
  | .lit l, v', h, hf => by simp [reduce] at h; subst h; exact hf
  | .var k f, v', h, hf => by simp [reduce] at h; subst h; rfl
  | .dflt, v', h, hf => by simp [Solid] at hf
  | .fk (.set inner), v', h, hf => by
    simp only [reduce] at h
    simp only [Solid] at hf
    exact reduce_solid inner v' h hf
  | .fk (.notSet _ _), v', h, hf => by simp [reduce] at h
  | .ranges ck t bs, v', h, hf => by
    simp only [reduce] at h
    split at h <;> try (simp at h; done)
    rename_i bs' hb
    simp at h; subst h
    simp only [Solid, Bool.and_eq_true] at hf ⊢
    rw [reduceBranches_isEmpty bs bs' hb]
    exact ⟨hf.1, reduceBranches_solid bs bs' hb hf.2⟩
  | .comp k inner, v', h, hf => by
    simp only [reduce] at h
    split at h <;> try (simp at h; done)
    rename_i i hi
    simp at h; subst h
    simp only [Solid] at hf ⊢
    exact reduce_solid inner i hi hf
  | .subkeys _, v', h, hf => by simp [Solid] at hf
  | .bloc items, v', h, hf => by
    simp only [reduce] at h
    split at h <;> try (simp at h; done)
    rename_i acc hacc
    simp at h; subst h
    simp only [Solid] at hf
    exact Solid_wrapBloc (reduceIntoL_solid items [] acc hacc hf rfl)
  | .plurals r ck other forms, v', h, hf => by
    simp only [reduce] at h
    split at h <;> try (simp at h; done)
    rename_i fs o hfs ho
    simp at h; subst h
    simp only [Solid, Bool.and_eq_true] at hf ⊢
    exact ⟨reduce_solid other o ho hf.1, reduceForms_solid forms fs hfs hf.2⟩

theorem reduceInto_solid : ∀ (v : PV) (acc acc' : List PV),
    reduceInto v acc = .ok acc' → Solid v = true → SolidL acc = true → SolidL acc' = true
  | .dflt, acc, acc', h, hf, ha => by simp [reduceInto] at h; subst h; exact ha
  | .subkeys _, acc, acc', h, hf, ha => by simp [reduceInto] at h; subst h; exact ha
  | .ranges ck t bs, acc, acc', h, hf, ha => by
    simp only [reduceInto] at h
    split at h <;> try (simp at h; done)
    rename_i bs' hb
    simp at h; subst h
    simp only [Solid, Bool.and_eq_true] at hf
    rw [SolidL_concat, ha]
    simp only [Solid, Bool.true_and, Bool.and_eq_true]
    rw [reduceBranches_isEmpty bs bs' hb]
    exact ⟨hf.1, reduceBranches_solid bs bs' hb hf.2⟩
  | .plurals r ck other forms, acc, acc', h, hf, ha => by
    simp only [reduceInto] at h
    split at h <;> try (simp at h; done)
    rename_i fs o hfs ho
    simp at h; subst h
    simp only [Solid, Bool.and_eq_true] at hf
    rw [SolidL_concat, ha]
    simp only [Solid, Bool.true_and, Bool.and_eq_true]
    exact ⟨reduce_solid other o ho hf.1, reduceForms_solid forms fs hfs hf.2⟩
  | .fk (.set inner), acc, acc', h, hf, ha => by
    simp only [reduceInto] at h
    simp only [Solid] at hf
    exact reduceInto_solid inner acc acc' h hf ha
  | .fk (.notSet _ _), acc, acc', h, hf, ha => by simp [reduceInto] at h
  | .lit l, acc, acc', h, hf, ha => by
    simp only [reduceInto] at h
    split at h
    · simp at h; subst h; exact ha
    · simp at h; subst h
      exact SolidL_pushLit l ha
  | .var k f, acc, acc', h, hf, ha => by
    simp [reduceInto] at h; subst h
    rw [SolidL_concat, ha]; rfl
  | .comp k inner, acc, acc', h, hf, ha => by
    simp only [reduceInto] at h
    split at h <;> try (simp at h; done)
    rename_i i hi
    simp at h; subst h
    simp only [Solid] at hf
    rw [SolidL_concat, ha]
    simp only [Solid, Bool.true_and]
    exact reduce_solid inner i hi hf
  | .bloc items, acc, acc', h, hf, ha => by
    simp only [reduceInto] at h
    simp only [Solid] at hf
    exact reduceIntoL_solid items acc acc' h hf ha

theorem reduceIntoL_solid : ∀ (xs acc acc' : List PV),
    reduceIntoL xs acc = .ok acc' → SolidL xs = true → SolidL acc = true → SolidL acc' = true
  | [], acc, acc', h, hf, ha => by simp [reduceIntoL] at h; subst h; exact ha
  | x :: xs, acc, acc', h, hf, ha => by
    simp only [reduceIntoL] at h
    split at h <;> try (simp at h; done)
    rename_i a hx
    simp only [SolidL, Bool.and_eq_true] at hf
    exact reduceIntoL_solid xs a acc' h hf.2 (reduceInto_solid x acc a hx hf.1 ha)

theorem reduceBranches_solid : ∀ (bs bs' : List (Range × PV)),
    reduceBranches bs = .ok bs' → SolidB bs = true → SolidB bs' = true
  | [], bs', h, hf => by simp [reduceBranches] at h; subst h; rfl
  | (r, v) :: rest, bs', h, hf => by
    simp only [reduceBranches] at h
    split at h <;> try (simp at h; done)
    rename_i v' rest' hv hr
    simp at h; subst h
    simp only [SolidB, Bool.and_eq_true] at hf ⊢
    exact ⟨reduce_solid v v' hv hf.1, reduceBranches_solid rest rest' hr hf.2⟩

theorem reduceForms_solid : ∀ (fs fs' : List (Form × PV)),
    reduceForms fs = .ok fs' → SolidF fs = true → SolidF fs' = true
  | [], fs', h, hf => by simp [reduceForms] at h; subst h; rfl
  | (g, v) :: rest, fs', h, hf => by
    simp only [reduceForms] at h
    split at h <;> try (simp at h; done)
    rename_i v' rest' hv hr
    simp at h; subst h
    simp only [SolidF, Bool.and_eq_true] at hf ⊢
    exact ⟨reduce_solid v v' hv hf.1, reduceForms_solid rest rest' hr hf.2⟩
end

mutual
theorem reduce_solidV : ∀ (v v' : PV), reduce v = .ok v' → SolidV v = true → SolidV v' = true
  | .dflt, v', h, _ => by simp [reduce] at h; subst h; rfl
  | .subkeys none, v', h, _ => by simp [reduce] at h
  | .subkeys (some (.mk n t keys s c)), v', h, hf => by
    simp only [reduce] at h
    split at h <;> try (simp at h; done)
    rename_i ks hk
    simp at h; subst h
    simp only [SolidV] at hf ⊢
    exact reduceKeys_solidKeys keys ks hk hf
  | .lit l, v', h, hf => solid_solidV (reduce_solid _ v' h rfl)
  | .var k f, v', h, hf => solid_solidV (reduce_solid _ v' h rfl)
  | .fk (.set i), v', h, hf => solid_solidV (reduce_solid _ v' h (by simpa [Solid, SolidV] using hf))
  | .fk (.notSet _ _), v', h, hf => by simp [reduce] at h
  | .comp k i, v', h, hf => solid_solidV (reduce_solid _ v' h (by simpa [Solid, SolidV] using hf))
  | .bloc l, v', h, hf => solid_solidV (reduce_solid _ v' h (by simpa [Solid, SolidV] using hf))
  | .ranges ck t bs, v', h, hf => solid_solidV (reduce_solid _ v' h (by simpa [Solid, SolidV] using hf))
  | .plurals r ck o fs, v', h, hf => solid_solidV (reduce_solid _ v' h (by simpa [Solid, SolidV] using hf))

theorem reduceKeys_solidKeys : ∀ (ks ks' : List (Str × PV)),
    reduceKeys ks = .ok ks' → SolidKeys ks = true → SolidKeys ks' = true
  | [], ks', h, hf => by simp [reduceKeys] at h; subst h; rfl
  | (g, v) :: rest, ks', h, hf => by
    simp only [reduceKeys] at h
    split at h <;> try (simp at h; done)
    rename_i v' rest' hv hr
    simp at h; subst h
    simp only [SolidKeys, Bool.and_eq_true] at hf ⊢
    exact ⟨reduce_solidV v v' hv hf.1, reduceKeys_solidKeys rest rest' hr hf.2⟩
end

end ReduceSolid

end I18nVerif.Render
