import I18nVerif.Proofs.Render
import I18nVerif.Proofs.SolidResolve
import I18nVerif.Proofs.Tops
import I18nVerif.Theorems.C02
import I18nVerif.Theorems.C03
import I18nVerif.Theorems.C11Pipeline
import I18nVerif.Theorems.C09Pipeline
/-!
Glue for the end-to-end rendering theorem: one namespace (`check_locales_inner`), then all
namespaces (`Pipeline.checkAll`), tying together C03 (`compute` = the specified fallback walk), C02
(`dispatch`, the two back-ends), C11 (indices valid in the top-level table), the storage lemma
(`Proofs/Render.lean`) and the `Solid` invariant (`Proofs/SolidDecode.lean`, `SolidResolve.lean`).
-/
namespace I18nVerif.Render
open I18nVerif Check Codegen PipeInv Reduce Spec.Fallback Spec.Diagnostics Datakey

/-! ### small facts -/

/-- the specified walk stays inside a set of names closed under `inherits` that contains the
    default locale -/
theorem walk_mem (inh : List (Str × Str)) (dflt : Str) (defined : Str → Bool) (names : List Str)
    (hd : dflt ∈ names) (hinh : ∀ kv ∈ inh, kv.2 ∈ names) :
    ∀ (f : Nat) (cur : Str) (seen : List Str), cur ∈ names → walk inh dflt defined f cur seen ∈ names := by
  intro f
  induction f with
  | zero => intro cur seen _; exact hd
  | succ f ih =>
    intro cur seen hc
    simp only [walk]
    split
    · exact hc
    · split
      · exact hd
      · split
        · exact hd
        · rename_i nxt hg
          exact ih nxt _ (hinh (cur, nxt) (Check.get?_mem hg))

theorem effective_of_defined (inh : List (Str × Str)) (dflt : Str) (defined : Str → Bool) (l : Str)
    (h : defined l = true) : effective inh dflt defined l = l := by
  simp [effective, walk, h]

/-- `valueAt` returns outputs of `reduce` -/
theorem valueAt_reduced : ∀ (p : List Str) (ks : List (Str × PV)) (v : PV), valueAt ks p = some v → Reduced v = true
  | [], ks, v, h => by simp [valueAt] at h
  | k :: rest, ks, v, h => by
    rw [valueAt_cons] at h
    cases hg : AMap.get? k ks with
    | none => simp [hg] at h
    | some x =>
      simp only [hg] at h
      cases hr : Reduce.reduce x with
      | err e => simp [hr] at h
      | panic e => simp [hr] at h
      | ok cur =>
        simp only [hr] at h
        cases rest with
        | nil =>
          simp only [curAt, Option.some.injEq] at h
          subst h
          exact reduce_reduced x cur hr
        | cons k2 r =>
          cases cur with
          | subkeys o =>
            cases o with
            | none => simp [curAt] at h
            | some l => simp only [curAt] at h; exact valueAt_reduced (k2 :: r) l.keys v h
          | _ => simp [curAt] at h

/-- `valueAt` of solid keys is a solid stored value -/
theorem valueAt_solidV : ∀ (p : List Str) (ks : List (Str × PV)) (v : PV), SolidKeys ks = true →
    valueAt ks p = some v → SolidV v = true
  | [], ks, v, _, h => by simp [valueAt] at h
  | k :: rest, ks, v, hs, h => by
    rw [valueAt_cons] at h
    cases hg : AMap.get? k ks with
    | none => simp [hg] at h
    | some x =>
      simp only [hg] at h
      have hx : SolidV x = true := SolidKeys_get hs hg
      cases hr : Reduce.reduce x with
      | err e => simp [hr] at h
      | panic e => simp [hr] at h
      | ok cur =>
        simp only [hr] at h
        have hc : SolidV cur = true := reduce_solidV x cur hr hx
        cases rest with
        | nil =>
          simp only [curAt, Option.some.injEq] at h
          subst h
          exact hc
        | cons k2 r =>
          cases cur with
          | subkeys o =>
            cases o with
            | none => simp [curAt] at h
            | some l =>
              simp only [curAt] at h
              exact valueAt_solidV (k2 :: r) l.keys v (SolidV_subkeys hc) h
          | _ => simp [curAt] at h

/-- a plain, defined source value of a solid locale is renderable and has no foreign-key node -/
theorem source_renderable {ks : List (Str × PV)} {p : List Str} {v : PV} (hs : SolidKeys ks = true)
    (hv : valueAt ks p = some v) (hleaf : isLeafVal v = true) (hnd : v ≠ .dflt) :
    renderable v = true ∧ FKFree v = true := by
  have hfk := fkFree_of_reduced v (valueAt_reduced p ks v hv)
  have hsv := valueAt_solidV p ks v hs hv
  rcases solidV_cases hsv with h | ⟨l, h, _⟩ | h
  · exact absurd h hnd
  · subst h; simp [isLeafVal] at hleaf
  · exact ⟨renderable_of_solid v h hfk, hfk⟩

theorem TreeValid_get {i : Nat} {T : List Str} : ∀ {b : BKI} {k : Str} {lv : LV}, TreeValid i T b →
    AMap.get? k b = some lv → TreeValidLV i T lv
  | [], k, lv, _, h => by simp [AMap.get?] at h
  | (k1, lv1) :: rest, k, lv, ht, h => by
    simp only [TreeValid] at ht
    rw [AMap.get?_cons] at h
    by_cases hk : k1 = k
    · simp only [hk, if_true, Option.some.injEq] at h
      subst h; exact ht.1
    · simp only [hk, if_false] at h
      exact TreeValid_get ht.2 h

/-- what is stored for position `i` reads its texts from the table of the `i`-th top-level locale -/
theorem storedAt_valid {i : Nat} {T : List Str} : ∀ (p : List Str) (ks : List (Str × PV)) (b : BKI) (s : PV),
    KeysValid T ks → TreeValid i T b → storedAt i p ks b = some s → Valid T (strLits s)
  | [], ks, b, s, _, _, h => by simp [storedAt] at h
  | [k], ks, b, s, hk, _, h => by
    rw [storedAt_one] at h
    exact hk.get h
  | k :: k2 :: r, ks, b, s, _, ht, h => by
    rw [storedAt_cons2] at h
    simp only [storedB] at h
    cases hg : AMap.get? k b with
    | none => simp [hg] at h
    | some lv =>
      simp only [hg] at h
      have hlv := TreeValid_get ht hg
      cases lv with
      | value iol d => simp [storedLV] at h
      | subkeys locs sub =>
        simp only [storedLV] at h
        simp only [TreeValidLV] at hlv
        cases hl : locs[i]? with
        | none => simp [hl] at h
        | some l =>
          simp only [hl] at h
          exact storedAt_valid (k2 :: r) l.keys sub s (hlv.1 l hl) hlv.2 h

/-- the position of a name in the list of locale names finds the locale -/
theorem find_of_idxOf : ∀ (locs : List Loc) (e : Str) (i : Nat), (locs.map Loc.name).idxOf? e = some i →
    ∃ le, locs[i]? = some le ∧ le.name = e ∧ locs.find? (fun l => l.name == e) = some le
  | [], e, i, h => by simp [List.idxOf?] at h
  | l :: ls, e, i, h => by
    simp only [List.map_cons, List.idxOf?, List.findIdx?_cons] at h
    by_cases hn : l.name == e
    · simp only [hn, if_true, Option.some.injEq] at h
      subst h
      exact ⟨l, rfl, by simpa using hn, by simp [List.find?, hn]⟩
    · simp only [hn, Bool.false_eq_true, if_false, Option.map_eq_some_iff] at h
      obtain ⟨j, hj, rfl⟩ := h
      obtain ⟨le, h1, h2, h3⟩ := find_of_idxOf ls e j (by simpa [List.idxOf?] using hj)
      exact ⟨le, by simpa using h1, h2, by simp [List.find?, hn, h3]⟩

theorem idxOf_of_mem : ∀ (names : List Str) (e : Str), e ∈ names → ∃ i, names.idxOf? e = some i
  | [], e, h => by simp at h
  | x :: xs, e, h => by
    simp only [List.idxOf?, List.findIdx?_cons]
    by_cases hx : x == e
    · exact ⟨0, by simp [hx]⟩
    · have : e ∈ xs := by
        rcases List.mem_cons.mp h with rfl | h
        · simp at hx
        · exact h
      obtain ⟨j, hj⟩ := idxOf_of_mem xs e this
      exact ⟨j + 1, by simp [hx]; simpa [List.idxOf?] using hj⟩

/-! ### one namespace -/

theorem definedIn_cons (dl : Loc) (others : List Loc) (p : List Str) :
    definedIn (dl :: others) p = fun x => !undefIn others p x := rfl

/-- **One namespace, end to end.**  `dl :: others` are the locales of the namespace as they reach
    `check_locales` (names distinct, `inherits` targets among them, values `Solid`, default locale
    with distinct keys), `locales`/`bkiF` the result, whose tables agree with the stored indices.
    Then for every accessible key `p`, every locale name `l` and both back-ends, the generated
    accessor renders the denotation of the source value of the effective locale. -/
theorem ns_end_to_end {suppress : Bool} {fuel : Nat} {inherits : List (Str × Str)} {nsKey : Option Str}
    {dl : Loc} {others : List Loc} {ws : List Warning} {locales : List Loc} {bkiF : BKI} {ws' : List Warning}
    (h : checkLocalesInner suppress fuel inherits nsKey (dl :: others) ws = .ok (locales, bkiF, ws'))
    (hnd : NDLoc fuel dl)
    (hnames : ((dl :: others).map Loc.name).Nodup)
    (htop : dl.top = dl.name)
    (hinh : ∀ kv ∈ inherits, kv.2 ∈ (dl :: others).map Loc.name)
    (hsolid : ∀ l ∈ dl :: others, SolidKeys l.keys = true)
    (htab : ∀ i L, locales[i]? = some L → KeysValid L.strings L.keys ∧ TreeValid i L.strings bkiF)
    (p : List Str) (hleaf : (leafAt bkiF p).isSome = true)
    (l : Str) (hl : l ∈ (dl :: others).map Loc.name) (ρ : Eval.Env) (ot : OutputType) :
    ∃ v, sourceValue (dl :: others) p (effective inherits dl.top (definedIn (dl :: others) p) l) = some v ∧
      renderKeyNs ((dl :: others).map Loc.name) ⟨nsKey, locales, bkiF⟩ p l ρ ot = some (Eval.eval ρ v) := by
  rw [definedIn_cons]
  generalize hnm : (dl :: others).map Loc.name = names at hnames hinh hl ⊢
  -- C03: the mapping of the leaf
  obtain ⟨dl', bki0, strs, hmk, hall⟩ :=
    C03_mapping_of_merge suppress fuel inherits nsKey dl others ws locales bkiF ws' hnd h
  obtain ⟨dl2, bki2, strs2, dl'', bki1, hmk2, hgo, hb⟩ := checkLocalesInner_parts h
  rw [hmk] at hmk2
  simp only [Res.ok.injEq, Prod.mk.injEq] at hmk2
  obtain ⟨-, rfl, -⟩ := hmk2
  have hlp : (leafAt bki0 p).isSome = (leafAt bkiF p).isSome := by
    rw [hb, propagate_leafAt]
    exact go_leaf_paths _ _ _ _ _ _ _ _ _ _ _ _ hgo p
  cases h0 : leafAt bki0 p with
  | none => rw [h0, hleaf] at hlp; cases hlp
  | some r0 =>
  obtain ⟨iol0, d0⟩ := r0
  obtain ⟨iol', d', hl', hdf, hm⟩ := hall p iol0 d0 h0
  -- the default locale is never undefined
  have hdn : dl.name ∈ names := by rw [← hnm]; simp
  have hu0 : undefIn others p dl.top = false := by
    simp only [undefIn, List.any_eq_false, Bool.and_eq_true, beq_iff_eq, not_and]
    intro x hx hn
    rw [← hnm] at hnames
    simp only [List.map_cons, List.nodup_cons] at hnames
    exact absurd (List.mem_map_of_mem (f := Loc.name) hx) (by rw [hn, htop]; exact hnames.1)
  have hd' : d' = ⟨dl.top, d'.mapping⟩ := by cases d'; simp only [Defaults.mk.injEq, and_true]; exact hdf
  have hdefOf : ∀ (x : Str) (fuel' : Nat), d'.mapping.length + 1 ≤ fuel' →
      defaultOf d' fuel' x [] = effective inherits dl.top (fun y => !undefIn others p y) x := by
    intro x fuel' hf
    have := C03_default_of_eq_walk_inherits inherits dl.top (undefIn others p) d'.mapping hm hu0 fuel' x hf
    rw [hd']; exact this
  have hcont : ∀ x, AMap.contains x d'.mapping = undefIn others p x := by
    intro x
    simp only [AMap.contains, hm x]
    cases undefIn others p x <;> simp
  have mem_def : ∀ x, x ∈ definingOf names d' ↔ x ∈ names ∧ undefIn others p x = false := by
    intro x
    simp [definingOf, hcont]
  -- where the walk ends
  have hwalk : ∀ x ∈ names, effective inherits dl.top (fun y => !undefIn others p y) x ∈ definingOf names d' := by
    intro x hx
    rw [mem_def]
    refine ⟨walk_mem inherits dl.top _ names (by rw [htop]; exact hdn) hinh _ x [] hx, ?_⟩
    rcases walk_result inherits dl.top (fun y => !undefIn others p y) (inherits.length + 1) x [] with hw | hw
    · simpa [effective] using hw
    · show undefIn others p (walk _ _ _ _ _ _) = false
      rw [hw]; exact hu0
  -- C02: the `match locale`
  have hdisj : ∀ d1 d2 s1 s2, AMap.get? d1 (compute d') = some s1 → AMap.get? d2 (compute d') = some s2 →
      d1 ≠ d2 → ∀ x ∈ s1, x ∉ s2 := by
    intro d1 d2 s1 s2 h1 h2 hne x hx1 hx2
    exact hne (C03_compute_disjoint d' d1 d2 x (by rw [h1]; exact hx1) (by rw [h2]; exact hx2))
  have hdefn : ∀ d s, AMap.get? d (compute d') = some s → ∀ x ∈ s, x ∉ definingOf names d' := by
    intro d s hs x hx hmem
    have := (C03_compute_partition d' d x).mp (by rw [hs]; exact hx)
    have hc : AMap.contains x d'.mapping = true := AMap.contains_iff.mpr this.1
    rw [hcont] at hc
    rw [((mem_def x).mp hmem).2] at hc
    cases hc
  have hcover : ∀ x ∈ names, x ∈ definingOf names d' ∨
      ∃ d ∈ definingOf names d', ∃ s, AMap.get? d (compute d') = some s ∧ x ∈ s := by
    intro x hx
    cases hux : undefIn others p x with
    | false => exact Or.inl ((mem_def x).mpr ⟨hx, hux⟩)
    | true =>
      right
      have hk : x ∈ d'.mapping.map Prod.fst := AMap.contains_iff.mp (by rw [hcont]; exact hux)
      have hc := C03_compute_covers d' x hk
      rw [hdefOf x _ (Nat.le_refl _)] at hc
      refine ⟨_, hwalk x hx, ?_⟩
      cases hg : AMap.get? (effective inherits dl.top (fun y => !undefIn others p y) x) (compute d') with
      | none => rw [hg] at hc; simp at hc
      | some s => rw [hg] at hc; exact ⟨s, rfl, hc⟩
  obtain ⟨d, hdisp, -, -, -, -, heff, -⟩ :=
    C02_dispatch_partition (compute d') (definingOf names d') names hdisj hdefn hcover l hl
  have hde : d = effective inherits dl.top (fun y => !undefIn others p y) l := by
    rcases heff with ⟨hmem, rfl⟩ | ⟨_, s, hs, hls⟩
    · rw [effective_of_defined]
      simpa using ((mem_def _).mp hmem).2
    · have := (C03_compute_partition d' d l).mp (by rw [hs]; exact hls)
      rw [← this.2, hdefOf l _ (Nat.le_refl _)]
  subst hde
  -- the effective locale, its position, its source value
  have hemem := hwalk l hl
  obtain ⟨hen, heu⟩ := (mem_def _).mp hemem
  obtain ⟨i, hidx⟩ := idxOf_of_mem names _ hen
  obtain ⟨le, hle, hlen, hfind⟩ := find_of_idxOf (dl :: others) _ i (by rw [hnm]; exact hidx)
  have hlemem : le ∈ dl :: others := List.mem_of_getElem? hle
  have hdefined : i = 0 ∨ undefinedAtPath le.keys p = false := by
    cases i with
    | zero => exact Or.inl rfl
    | succ m =>
      right
      simp only [List.getElem?_cons_succ] at hle
      have hmo : le ∈ others := List.mem_of_getElem? hle
      simp only [undefIn, List.any_eq_false, Bool.and_eq_true, beq_iff_eq, not_and] at heu
      have := heu le hmo hlen
      simpa using this
  obtain ⟨L, hLi, v, sv, hv, hlf, hnd', hst, ⟨F, acc, rfl⟩, hidxall⟩ :=
    checkLocalesInner_store h hnd i le hle p hleaf hdefined
  refine ⟨v, ?_, ?_⟩
  · simp only [sourceValue, hfind]; exact hv
  · obtain ⟨hr, hfk⟩ := source_renderable (hsolid le hlemem) hv hlf hnd'
    have hr' : renderable (indexStrings F v acc).1 = true := by rw [indexStrings_renderable]; exact hr
    have hfk' : FKFree (indexStrings F v acc).1 = true := by rw [indexStrings_fkFree]; exact hfk
    obtain ⟨t1, t2⟩ := htab i L hLi
    have hvalid := storedAt_valid p L.keys bkiF _ t1 t2 hst
    have hind := indexed_of_full L.strings _ hfk' (full_of_valid_allIdx hvalid hidxall)
    obtain ⟨e1, e2, g1, g2, g3, g4⟩ := C02_flavours_agree L.strings ρ _ hr' hind
    rw [indexStrings_eval] at g3 g4
    simp only [renderKeyNs, hl', hdisp, hidx, storedIn, hLi, hst, tableOf]
    cases ot <;> simp [g1, g2, g3, g4]

/-! ### all namespaces -/

theorem checkAll_mem (inp : Pipeline.Input) : ∀ (nss : List NS) (ws : List Warning) (outs : List Pipeline.NsOut)
    (ws' : List Warning), Pipeline.checkAll inp nss ws = .ok (outs, ws') →
    ∀ o ∈ outs, ∃ ns ∈ nss, ∃ ws1 ws2,
      checkLocalesInner inp.suppress 1000000 inp.cfg.inherits ns.key ns.locales ws1 = .ok (o.locales, o.keys, ws2)
        ∧ o.key = ns.key
  | [], ws, outs, ws', h, o, ho => by
    simp only [Pipeline.checkAll, Res.ok.injEq, Prod.mk.injEq] at h
    obtain ⟨rfl, _⟩ := h
    simp at ho
  | ns :: rest, ws, outs, ws', h, o, ho => by
    simp only [Pipeline.checkAll] at h
    split at h <;> try (simp at h; done)
    rename_i locs bki ws1 hc
    split at h <;> try (simp at h; done)
    rename_i outs1 ws2 hr
    simp only [Res.ok.injEq, Prod.mk.injEq] at h
    obtain ⟨rfl, _⟩ := h
    rcases List.mem_cons.mp ho with rfl | ho
    · exact ⟨ns, by simp, ws, ws1, hc, rfl⟩
    · obtain ⟨n, hn, r⟩ := checkAll_mem inp rest ws1 outs1 ws2 hr o ho
      exact ⟨n, by simp [hn], r⟩

theorem run_locales (inp : Pipeline.Input) (out : Pipeline.Output) (h : Pipeline.run inp = .ok out) :
    out.locales = inp.cfg.locales := by
  unfold Pipeline.run at h
  split at h
  · simp at h
  · simp at h
  · split at h
    · simp at h
    · simp at h
    · simp only [Res.ok.injEq] at h
      rw [← h]

/-- **The pipeline, end to end, per namespace of the output.** -/
theorem run_end_to_end (inp : Pipeline.Input) (hcfg : CfgOK inp.cfg) (out : Pipeline.Output)
    (h : Pipeline.run inp = .ok out) :
    ∃ w ws, Pipeline.resolved inp = .ok (w, ws) ∧
      ∀ o ∈ out.nss, ∃ ns ∈ w.nss, ns.key = o.key ∧
        ∀ p, (leafAt o.keys p).isSome = true → ∀ l ∈ inp.cfg.locales, ∀ (ρ : Eval.Env) (ot : OutputType),
          ∃ v, sourceValue ns.locales p (effectiveLocale inp.cfg ns.locales p l) = some v ∧
            renderKeyNs out.locales o p l ρ ot = some (Eval.eval ρ v) := by
  obtain ⟨w, ws, ws', hr, hc⟩ := run_parts inp out h
  refine ⟨w, ws, hr, ?_⟩
  intro o ho
  obtain ⟨ns, hns, ws1, ws2, hcl, hkey⟩ := checkAll_mem inp w.nss ws out.nss ws' hc o ho
  refine ⟨ns, hns, hkey.symm, ?_⟩
  intro p hleaf l hl ρ ot
  obtain ⟨hne, hclean⟩ := C09_resolved_world_clean inp hcfg.wf w ws hr ns hns
  have hnames : ns.locales.map Loc.name = inp.cfg.locales := resolved_names inp w ws hr ns hns
  have hdist := C11_resolved_distinct inp hcfg.wf w ws hr ns hns
  have hsol := resolved_solid inp w ws hr ns hns
  have htops := resolved_top_eq_name inp w ws hr ns hns
  have htab := C11_pipeline inp hcfg.wf out h o ho
  cases hloc : ns.locales with
  | nil => exact absurd hloc hne
  | cons dl others =>
    rw [hloc] at hcl hnames hdist hsol htops
    have hdn : dl.name = inp.cfg.default := by
      have := hcfg.defaultFirst
      rw [← hnames] at this
      simpa using this
    have htop : dl.top = dl.name := htops dl (by simp)
    have hnd : NDLoc 1000000 dl := NDLoc_of_distinct _ dl (hdist dl (by simp))
    have hnodup : ((dl :: others).map Loc.name).Nodup := by rw [hnames]; exact hcfg.wf.localesDistinct
    have := ns_end_to_end (ρ := ρ) (ot := ot) hcl hnd hnodup htop (by rw [hnames]; exact hcfg.inheritsKnown)
      hsol (fun i L hi => (htab i L hi).2) p hleaf l (by rw [hnames]; exact hl)
    rw [hnames, htop, hdn] at this
    have ho' : (⟨ns.key, o.locales, o.keys⟩ : Pipeline.NsOut) = o := by cases o; simp only [Pipeline.NsOut.mk.injEq, and_true]; exact hkey.symm
    rw [ho'] at this
    rw [run_locales inp out h]
    exact this

end I18nVerif.Render
