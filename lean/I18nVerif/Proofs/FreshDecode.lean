import I18nVerif.Spec.FreshS
import I18nVerif.Proofs.TablesAll
import I18nVerif.Model.Pipeline
/-!
The parser produces fresh values: `Parse.newF` / `Parse.new` (every fuel), `Decode.value`,
`Decode.locale`.
-/
namespace I18nVerif.Check
open I18nVerif

mutual
theorem FreshS_fresh : ∀ v : PV, FreshS v = true → Fresh v = true
  | .lit (.str _ i), h => by simpa [FreshS, Fresh] using h
  | .lit (.signed _), _ => rfl
  | .lit (.unsigned _), _ => rfl
  | .lit (.float _), _ => rfl
  | .lit (.bool _), _ => rfl
  | .var _ _, _ => rfl
  | .dflt, _ => rfl
  | .fk (.set inner), h => by simp only [FreshS] at h; simp only [Fresh]; exact FreshS_fresh inner h
  | .fk (.notSet _ _), _ => rfl
  | .ranges _ _ bs, h => by simp only [FreshS] at h; simp only [Fresh]; exact FreshSB_fresh bs h
  | .comp _ inner, h => by simp only [FreshS] at h; simp only [Fresh]; exact FreshS_fresh inner h
  | .bloc items, h => by simp only [FreshS] at h; simp only [Fresh]; exact FreshSL_fresh items h
  | .subkeys none, _ => rfl
  | .subkeys (some (.mk _ _ keys _ _)), h => by simp only [FreshS] at h; simp only [Fresh]; exact FreshSK_fresh keys h
  | .plurals _ _ other forms, h => by
    simp only [FreshS, Bool.and_eq_true] at h
    simp only [Fresh, Bool.and_eq_true]
    exact ⟨FreshS_fresh other h.1, FreshSF_fresh forms h.2⟩
theorem FreshSL_fresh : ∀ l : List PV, FreshSL l = true → FreshL l = true
  | [], _ => rfl
  | x :: xs, h => by
    simp only [FreshSL, Bool.and_eq_true] at h
    simp only [FreshL, Bool.and_eq_true]
    exact ⟨FreshS_fresh x h.1, FreshSL_fresh xs h.2⟩
theorem FreshSB_fresh : ∀ l : List (Range × PV), FreshSB l = true → FreshB l = true
  | [], _ => rfl
  | (_, x) :: xs, h => by
    simp only [FreshSB, Bool.and_eq_true] at h
    simp only [FreshB, Bool.and_eq_true]
    exact ⟨FreshS_fresh x h.1, FreshSB_fresh xs h.2⟩
theorem FreshSF_fresh : ∀ l : List (Form × PV), FreshSF l = true → FreshF l = true
  | [], _ => rfl
  | (_, x) :: xs, h => by
    simp only [FreshSF, Bool.and_eq_true] at h
    simp only [FreshF, Bool.and_eq_true]
    exact ⟨FreshS_fresh x h.1, FreshSF_fresh xs h.2⟩
theorem FreshSK_fresh : ∀ l : List (Str × PV), FreshSK l = true → FreshK l = true
  | [], _ => rfl
  | (_, x) :: xs, h => by
    simp only [FreshSK, Bool.and_eq_true] at h
    simp only [FreshK, Bool.and_eq_true]
    exact ⟨FreshS_fresh x h.1, FreshSK_fresh xs h.2⟩
end

theorem FreshSK_iff (ks : List (Str × PV)) : FreshSK ks = true ↔ ∀ kv ∈ ks, FreshS kv.2 = true := by
  induction ks with
  | nil => simp [FreshSK]
  | cons e rest ih => obtain ⟨k, v⟩ := e; simp [FreshSK, ih]

theorem FreshSK_insert' {k : Str} {v : PV} {m : List (Str × PV)} (hm : FreshSK m = true) (hv : FreshS v = true) :
    FreshSK (AMap.insert' k v m) = true := by
  rw [FreshSK_iff] at hm ⊢
  intro kv hkv
  rcases AMap.mem_of_mem_insert' _ _ hkv with rfl | h
  · exact hv
  · exact hm kv h

/-! ### `ParsedValue::new` -/

/-- what the recursive calls of the parser are assumed to satisfy -/
def RecFresh (rec_ : Str → Res PV) : Prop := ∀ s v, rec_ s = .ok v → FreshS v = true

theorem litToPV_fresh (l : Json.JLit) : FreshS (.lit (Parse.litToPV l)) = true := by
  cases l <;> rfl

theorem parseFKArgsInner_go_fresh (rec_ : Str → Res PV) (hrec : RecFresh rec_) :
    ∀ (l : List (Str × Json.JLit)) (acc res : List (Str × PV)),
      Parse.parseFKArgsInner.go rec_ l acc = .ok res → FreshSK acc = true → FreshSK res = true
  | [], acc, res, h, ha => by
    simp only [Parse.parseFKArgsInner.go, Res.ok.injEq] at h
    subst h; exact ha
  | (k, v) :: rest, acc, res, h, ha => by
    simp only [Parse.parseFKArgsInner.go] at h
    split at h
    · rename_i pv hpv
      refine parseFKArgsInner_go_fresh rec_ hrec rest _ res h (FreshSK_insert' ha ?_)
      split at hpv
      · exact hrec _ _ hpv
      · simp only [Res.ok.injEq] at hpv
        subst hpv; exact litToPV_fresh _
    · simp at h
    · simp at h

theorem parseFKArgs_fresh (rec_ : Str → Res PV) (hrec : RecFresh rec_) (s : Str) (args : List (Str × PV)) (after : Str)
    (h : Parse.parseFKArgs rec_ s = .ok (args, after)) : FreshSK args = true := by
  unfold Parse.parseFKArgs at h
  split at h
  · simp at h
  · dsimp only at h
    split at h
    · simp at h
    · split at h
      · rename_i args' hi
        simp only [Res.ok.injEq, Prod.mk.injEq] at h
        rw [← h.1]
        unfold Parse.parseFKArgsInner at hi
        split at hi
        · simp at hi
        · exact parseFKArgsInner_go_fresh rec_ hrec _ _ _ hi rfl
      · simp at h
      · simp at h

theorem fk_tail (rec_ : Str → Res PV) (hrec : RecFresh rec_) (before after : Str) (target : KeyPath)
    (args : List (Str × PV)) (v : PV) (hargs : FreshSK args = true)
    (h : (match rec_ before with
      | .err e => some (.err e)
      | .panic p => some (.panic p)
      | .ok b =>
        match rec_ after with
        | .err e => some (.err e)
        | .panic p => some (.panic p)
        | .ok a => some (Res.ok (PV.bloc [b, PV.fk (FK.notSet target args), a]))) = some (.ok v)) :
    FreshS v = true := by
  split at h
  · simp at h
  · simp at h
  · rename_i b hb
    split at h
    · simp at h
    · simp at h
    · rename_i a ha'
      simp only [Option.some.injEq, Res.ok.injEq] at h
      subst h
      simp [FreshS, FreshSL, hrec _ _ hb, hrec _ _ ha', hargs]

theorem findForeignKey_fresh (rec_ : Str → Res PV) (hrec : RecFresh rec_) (value : Str) (v : PV)
    (h : Parse.findForeignKey rec_ value = some (.ok v)) : FreshS v = true := by
  unfold Parse.findForeignKey at h
  split at h
  · simp at h
  · split at h
    · simp at h
    · split at h
      · simp at h
      · rename_i target _
        simp only at h
        split at h
        · simp at h
        · simp at h
        · rename_i args after ha
          have hargs : FreshSK args = true := by
            split at ha
            · exact parseFKArgs_fresh rec_ hrec _ _ _ ha
            · simp only [Res.ok.injEq, Prod.mk.injEq] at ha
              rw [← ha.1]; rfl
          exact fk_tail rec_ hrec _ _ _ _ _ hargs h

theorem findVariable_fresh (rec_ : Str → Res PV) (hrec : RecFresh rec_) (value : Str) (v : PV)
    (h : Parse.findVariable rec_ value = some (.ok v)) : FreshS v = true := by
  unfold Parse.findVariable at h
  split at h
  · simp at h
  · split at h
    · simp at h
    · simp only at h
      split at h
      · simp at h
      · simp at h
      · rename_i b hb
        split at h
        · simp at h
        · simp at h
        · rename_i a ha
          split at h
          · split at h
            · simp at h
            · simp at h
            · split at h
              · simp at h
              · simp only [Option.some.injEq, Res.ok.injEq] at h
                subst h
                simp [FreshS, FreshSL, hrec _ _ hb, hrec _ _ ha]
          · split at h
            · simp at h
            · simp only [Option.some.injEq, Res.ok.injEq] at h
              subst h
              simp [FreshS, FreshSL, hrec _ _ hb, hrec _ _ ha]

theorem findComponent_fresh (rec_ : Str → Res PV) (hrec : RecFresh rec_) (value : Str) (v : PV)
    (h : Parse.findComponent rec_ value = some (.ok v)) : FreshS v = true := by
  unfold Parse.findComponent at h
  split at h
  · simp at h
  · split at h
    · simp at h
    · simp at h
    · rename_i b hb
      split at h
      · simp at h
      · simp at h
      · rename_i m hm
        split at h
        · simp at h
        · simp at h
        · rename_i a ha
          simp only [Option.some.injEq, Res.ok.injEq] at h
          subst h
          simp [FreshS, FreshSL, hrec _ _ hb, hrec _ _ hm, hrec _ _ ha]

theorem newF_fresh : ∀ fuel, RecFresh (Parse.newF fuel) := by
  intro fuel
  induction fuel with
  | zero => intro s v h; simp [Parse.newF] at h
  | succ fuel ih =>
    intro s v h
    simp only [Parse.newF] at h
    split at h
    · rename_i r hr
      subst h
      exact findForeignKey_fresh _ ih _ _ hr
    · split at h
      · rename_i r hr
        subst h
        exact findComponent_fresh _ ih _ _ hr
      · split at h
        · rename_i r hr
          subst h
          exact findVariable_fresh _ ih _ _ hr
        · simp only [Res.ok.injEq] at h
          subst h; rfl

theorem new_fresh (s : Str) (v : PV) (h : Parse.new s = .ok v) : FreshS v = true :=
  newF_fresh _ s v h

/-! ### `Decode.value`, `Decode.locale` -/

theorem pairs_fresh (pair : RangeTy → J → Res (Range × PV))
    (hpair : ∀ t x r pv, pair t x = .ok (r, pv) → FreshS pv = true) (t : RangeTy) :
    ∀ (l : List J) (bs : List (Range × PV)), Decode.value.pairs pair t l = .ok bs → FreshSB bs = true
  | [], bs, h => by
    simp only [Decode.value.pairs, Res.ok.injEq] at h
    subst h; rfl
  | x :: xs, bs, h => by
    simp only [Decode.value.pairs] at h
    split at h
    · simp at h
    · simp at h
    · rename_i p hp
      split at h
      · simp at h
      · simp at h
      · rename_i ps hps
        simp only [Res.ok.injEq] at h
        subst h
        obtain ⟨r, pv⟩ := p
        simp only [FreshSB, Bool.and_eq_true]
        exact ⟨hpair _ _ _ _ hp, pairs_fresh pair hpair t xs ps hps⟩


def ValFresh (fuel : Nat) : Prop :=
  ∀ top inRange key j v, Decode.value fuel top inRange key j = .ok v → FreshS v = true

local macro "pair_tac" ih:ident : tactic => `(tactic| (
  intro t x r pv hp
  try dsimp only at hp
  repeat' split at hp
  all_goals (try (simp at hp; done))
  all_goals (
    simp only [Res.ok.injEq, Prod.mk.injEq] at hp
    have hpv := hp.2
    subst hpv
    exact $ih _ _ _ _ _ (by assumption))))

theorem localeKeys_fresh (fuel : Nat) (ih : ValFresh fuel) (top : Str) :
    ∀ (l : List (Str × J)) (acc res : List (Str × PV)),
      Decode.value.localeKeys fuel top l acc = .ok res → FreshSK acc = true → FreshSK res = true
  | [], acc, res, h, ha => by
    rw [Decode.value.localeKeys] at h
    simp only [Res.ok.injEq] at h
    subst h; exact ha
  | (k, x) :: rest, acc, res, h, ha => by
    rw [Decode.value.localeKeys] at h
    split at h
    · simp at h
    · split at h
      · simp at h
      · simp at h
      · rename_i pv hv
        split at h
        · simp at h
        · exact localeKeys_fresh fuel ih top rest _ res h (FreshSK_insert' ha (ih _ _ _ _ _ hv))

theorem value_fresh : ∀ fuel, ValFresh fuel := by
  intro fuel
  induction fuel with
  | zero => intro top inRange key j v h; rw [Decode.value.eq_def] at h; simp at h
  | succ fuel ih =>
    intro top inRange key j v h
    rw [Decode.value.eq_def] at h
    simp only at h
    cases j with
    | str s => simp only at h; exact new_fresh s v h
    | bool b => simp only [Res.ok.injEq] at h; subst h; rfl
    | signed i => simp only [Res.ok.injEq] at h; subst h; rfl
    | unsigned n => simp only [Res.ok.injEq] at h; subst h; rfl
    | float d => simp only [Res.ok.injEq] at h; subst h; rfl
    | null =>
      simp only at h
      split at h
      · simp at h
      · simp only [Res.ok.injEq] at h; subst h; rfl
    | obj l =>
      simp only at h
      split at h
      · simp at h
      · split at h
        · rename_i keys hk
          simp only [Res.ok.injEq] at h; subst h
          simp only [FreshS]
          exact localeKeys_fresh fuel ih top l [] keys hk rfl
        · simp at h
        · simp at h
    | arr l =>
      simp only at h
      split at h
      · simp at h
      · split at h
        · simp at h
        · rename_i first rest
          split at h
          · simp at h
          · simp at h
          · rename_i t bs hstart
            have hbs : FreshSB bs = true := by
              split at hstart
              · split at hstart
                · split at hstart
                  · rename_i bs' hps
                    simp only [Res.ok.injEq, Prod.mk.injEq] at hstart
                    rw [← hstart.2]
                    refine pairs_fresh _ ?_ _ _ _ hps
                    pair_tac ih
                  · simp at hstart
                  · simp at hstart
                · simp at hstart
              · split at hstart
                · rename_i bs' hps
                  simp only [Res.ok.injEq, Prod.mk.injEq] at hstart
                  rw [← hstart.2]
                  refine pairs_fresh _ ?_ _ _ _ hps
                  pair_tac ih
                · simp at hstart
                · simp at hstart
              · split at hstart
                · rename_i bs' hps
                  simp only [Res.ok.injEq, Prod.mk.injEq] at hstart
                  rw [← hstart.2]
                  refine pairs_fresh _ ?_ _ _ _ hps
                  pair_tac ih
                · simp at hstart
                · simp at hstart
              · simp at hstart
            repeat' split at h
            all_goals (try (simp at h; done))
            simp only [Res.ok.injEq] at h
            subst h
            simp only [FreshS]; exact hbs

theorem FreshS_subkeys {l : Loc} (h : FreshS (.subkeys (some l)) = true) : FreshSK l.keys = true := by
  cases l
  simpa [FreshS, Loc.keys] using h

theorem locale_fresh (name : Str) (j : J) (loc : Loc) (h : Decode.locale name j = .ok loc) :
    FreshSK loc.keys = true := by
  unfold Decode.locale at h
  split at h
  · split at h
    · rename_i l hv
      simp only [Res.ok.injEq] at h
      subst h
      exact FreshS_subkeys (value_fresh _ _ _ _ _ _ hv)
    · simp at h
    · simp at h
    · simp at h
  · simp at h

/-! ### `parse_locales_raw` -/

open Pipeline in
theorem decodeNs_fresh (inp : Pipeline.Input) (ns : Option Str) : ∀ (ls : List Str) (locs : List Loc),
    decodeNs inp ns ls = .ok locs → ∀ l ∈ locs, FreshSK l.keys = true
  | [], locs, h, l, hl => by simp [decodeNs] at h; subst h; simp at hl
  | x :: xs, locs, h, l, hl => by
    simp only [decodeNs] at h
    split at h
    · simp at h
    · split at h
      · simp at h
      · simp at h
      · rename_i loc hloc
        split at h
        · rename_i locs' hr
          simp only [Res.ok.injEq] at h
          subst h
          rcases List.mem_cons.mp hl with rfl | hl
          · exact locale_fresh _ _ _ hloc
          · exact decodeNs_fresh inp ns xs locs' hr l hl
        · simp at h
        · simp at h

open Pipeline in
theorem decodeAll_fresh (inp : Pipeline.Input) : ∀ (keys : List (Option Str)) (nss : List NS),
    decodeAll inp keys = .ok nss → ∀ ns ∈ nss, ∀ l ∈ ns.locales, FreshSK l.keys = true
  | [], nss, h, ns, hn => by simp [decodeAll] at h; subst h; simp at hn
  | k :: rest, nss, h, ns, hn => by
    simp only [decodeAll] at h
    split at h
    · simp at h
    · simp at h
    · rename_i locs hl
      split at h
      · rename_i nss' hr
        simp only [Res.ok.injEq] at h
        subst h
        rcases List.mem_cons.mp hn with rfl | hn
        · exact decodeNs_fresh inp k _ _ hl
        · exact decodeAll_fresh inp rest nss' hr ns hn
      · simp at h
      · simp at h

open Pipeline in
theorem parseRaw_fresh (inp : Pipeline.Input) (w0 : World) (paths : List (Str × KeyPath))
    (h : parseRaw inp = .ok (w0, paths)) : ∀ ns ∈ w0.nss, ∀ l ∈ ns.locales, FreshSK l.keys = true := by
  unfold parseRaw at h
  split at h
  all_goals
    dsimp only at h
    split at h
    · simp at h
    · simp at h
    · rename_i nss0 hd
      simp only [Res.ok.injEq, Prod.mk.injEq] at h
      rw [← h.1]
      exact decodeAll_fresh inp _ _ hd

end I18nVerif.Check
