import I18nVerif.Spec.Occ
/-
Helper lemmas for C08: `get_keys_inner` as a left-to-right run over the list of occurrences of a
value; the effect of `push_var` / `push_comp` / `push_count` on the observations of `Spec/Occ.lean`.
-/
namespace I18nVerif.Keys
open I18nVerif I18nVerif.Check I18nVerif.Occ

/-! ### association lists -/

theorem insert'_cons {α} (k : Str) (v : α) (k' : Str) (v' : α) (rest : List (Str × α)) :
    AMap.insert' k v ((k', v') :: rest) =
      if k' == k then (k, v) :: rest
      else if AMap.strLt k k' then (k, v) :: (k', v') :: rest
      else (k', v') :: AMap.insert' k v rest := by
  simp only [AMap.insert', AMap.insert]
  split
  · rfl
  · split <;> rfl

theorem get?_cons {α} (a k' : Str) (v' : α) (rest : List (Str × α)) :
    AMap.get? a ((k', v') :: rest) = if k' == a then some v' else AMap.get? a rest := by
  simp [AMap.get?]

theorem get?_insert' {α} (k a : Str) (v : α) (m : List (Str × α)) :
    AMap.get? a (AMap.insert' k v m) = if k == a then some v else AMap.get? a m := by
  induction m with
  | nil => simp [AMap.insert', AMap.insert, AMap.get?]
  | cons p rest ih =>
    obtain ⟨k', v'⟩ := p
    rw [insert'_cons]
    by_cases h1 : k' = k
    · subst h1
      by_cases h3 : k' = a <;> simp [get?_cons, h3]
    · by_cases h2 : AMap.strLt k k' = true
      · by_cases h3 : k = a
        · subst h3; simp [get?_cons, h1, h2]
        · simp [get?_cons, h1, h2, h3]
      · by_cases h3 : k = a
        · subst h3; simp [get?_cons, h1, h2, ih]
        · simp [get?_cons, h1, h2, h3, ih]

/-! ### `Extends` is reflexive and composes -/

theorem Extends.refl (K : IKeys) : Extends K K [] [] [] := by
  constructor <;> simp

theorem Extends.trans {K K1 K2 : IKeys} {vs1 vs2 cs1 cs2 ns1 ns2}
    (h1 : Extends K K1 vs1 cs1 ns1) (h2 : Extends K1 K2 vs2 cs2 ns2) :
    Extends K K2 (vs1 ++ vs2) (cs1 ++ cs2) (ns1 ++ ns2) := by
  constructor
  · intro c
    rw [h2.comps, h1.comps, List.mem_append]
    exact or_assoc
  · intro n
    rw [h2.dom, h1.dom, List.map_append, List.map_append, List.mem_append, List.mem_append]
    constructor
    · rintro ((h | h | h) | h | h) <;> simp [h]
    · rintro (h | (h | h) | (h | h)) <;> simp [h]
  · intro n f
    rw [h2.fmts, h1.fmts, List.mem_append]
    exact or_assoc
  · intro n ty h
    rcases List.mem_append.mp h with h | h
    · by_cases hn : n ∈ ns2.map (·.1)
      · obtain ⟨⟨n', ty2⟩, hm, rfl⟩ := List.mem_map.mp hn
        have a1 := h1.countNew _ _ h
        have a2 := h2.agree _ _ hm
        have a3 := h2.countNew _ _ hm
        simp only at a1 a2 a3
        rw [a1] at a2
        rcases a2 with a2 | a2
        · cases a2
        · cases a2; exact a3
      · rw [h2.countOld n hn]; exact h1.countNew _ _ h
    · exact h2.countNew _ _ h
  · intro n hn
    rw [List.map_append, List.mem_append, not_or] at hn
    rw [h2.countOld n hn.2, h1.countOld n hn.1]
  · intro n ty h
    rcases List.mem_append.mp h with h | h
    · exact h1.agree _ _ h
    · have a2 := h2.agree _ _ h
      by_cases hn : n ∈ ns1.map (·.1)
      · obtain ⟨⟨n', ty1⟩, hm, rfl⟩ := List.mem_map.mp hn
        have a1 := h1.countNew _ _ hm
        have a0 := h1.agree _ _ hm
        simp only at a1 a2 a0
        rw [a1] at a2
        rcases a2 with a2 | a2
        · cases a2
        · cases a2; exact a0
      · rw [← h1.countOld n hn]; exact a2

/-! ### the three pushes -/

theorem pushVar_extends (K : IKeys) (key : Str) (f : Fmt) :
    Extends K (pushVar K key f) [(key, f)] [] [] := by
  constructor
  · intro c; simp [pushVar]
  · intro n
    simp only [hasVar, pushVar, get?_insert']
    by_cases h : key = n
    · subst h; simp
    · have h' : ¬ n = key := fun e => h e.symm
      simp [h, h']
  · intro n g
    simp only [fmtsOf, info, pushVar, get?_insert']
    by_cases h : key = n
    · subst h
      simp only [beq_self_eq_true, if_true, Option.getD_some]
      split
      · rename_i hc
        simp only [List.contains_eq_mem, decide_eq_true_eq] at hc
        constructor
        · intro h; exact Or.inl h
        · rintro (h | h)
          · exact h
          · simp at h; rw [h]; exact hc
      · simp [List.mem_append]
    · have h' : ¬ n = key := fun e => h e.symm
      simp [h, h']
  · intro n ty h; simp at h
  · intro n _
    simp only [countOf, info, pushVar, get?_insert']
    by_cases h : key = n
    · subst h; simp
    · simp [h]
  · intro n ty h; simp at h

theorem pushComp_extends (K : IKeys) (key : Str) :
    Extends K (pushComp K key) [] [key] [] := by
  by_cases hc : K.comps.contains key = true
  · simp only [pushComp, hc, if_true]
    have hm : key ∈ K.comps := by simpa using hc
    constructor <;> try simp
    exact hm
  · simp only [pushComp, hc]
    constructor <;> simp [hasVar, fmtsOf, countOf, info]

/-- exact behaviour of `push_count` -/
theorem pushCount_spec (K : IKeys) (ty : CountTy) (ck : Str) :
    let K' : IKeys := { K with vars := AMap.insert' ck { info K ck with count := some ty } K.vars }
    pushCount K ty ck =
      match countOf K ck with
      | none => .ok K'
      | some old =>
        if old = ty then .ok K'
        else match old, ty with
          | .range _, .range _ => .err "RangeTypeMissmatch"
          | _, _ => .err "RangeAndPluralsMix" := by
  intro K'
  simp only [pushCount, countOf, info]
  cases h : ((AMap.get? ck K.vars).getD {}).count with
  | none => rfl
  | some old =>
    cases old with
    | plural => cases ty <;> simp [K', info]
    | range o =>
      cases ty with
      | plural => simp
      | range n =>
        by_cases e : o = n
        · subst e; simp [K', info]
        · simp [e]

theorem pushCount_ok {K K' : IKeys} {ty : CountTy} {ck : Str} (h : pushCount K ty ck = .ok K') :
    K' = { K with vars := AMap.insert' ck { info K ck with count := some ty } K.vars } ∧
      (countOf K ck = none ∨ countOf K ck = some ty) := by
  have hs := pushCount_spec K ty ck
  simp only at hs
  rw [hs] at h
  cases hc : countOf K ck with
  | none => simp only [hc] at h; cases h; exact ⟨rfl, Or.inl rfl⟩
  | some old =>
    simp only [hc] at h
    by_cases e : old = ty
    · subst e; simp only [if_true] at h; cases h; exact ⟨rfl, Or.inr rfl⟩
    · simp only [e, if_false] at h
      cases old <;> cases ty <;> simp at h

theorem pushCount_extends {K K' : IKeys} {ty : CountTy} {ck : Str} (h : pushCount K ty ck = .ok K') :
    Extends K K' [] [] [(ck, ty)] := by
  obtain ⟨rfl, hag⟩ := pushCount_ok h
  constructor
  · intro c; simp
  · intro n
    simp only [hasVar, get?_insert']
    by_cases h : ck = n
    · subst h; simp
    · have h' : ¬ n = ck := fun e => h e.symm
      simp [h, h']
  · intro n g
    simp only [fmtsOf, info, get?_insert']
    by_cases h : ck = n
    · subst h; simp
    · simp [h]
  · intro n ty' h
    simp at h
    obtain ⟨rfl, rfl⟩ := h
    simp [countOf, info, get?_insert']
  · intro n hn
    simp at hn
    have : ¬ ck = n := fun e => hn e.symm
    simp [countOf, info, get?_insert', this]
  · intro n ty' h
    simp at h
    obtain ⟨rfl, rfl⟩ := h
    exact hag

/-! ### occurrences in the order `get_keys_inner` pushes them -/

inductive Ev where
  | var (k : Str) (f : Fmt)
  | comp (k : Str)
  | count (k : Str) (ty : CountTy)

mutual
def evs : PV → List Ev
  | .var k f => [.var k f]
  | .comp k inner => .comp k :: evs inner
  | .bloc items => evsL items
  | .ranges ck t bs => evsB bs ++ [.count ck (.range t)]
  | .plurals _ ck other forms => .count ck .plural :: (evsF forms ++ evs other)
  | .fk (.set inner) => evs inner
  | .fk (.notSet _ _) => []
  | .lit _ => []
  | .dflt => []
  | .subkeys _ => []
def evsL : List PV → List Ev
  | [] => []
  | x :: xs => evs x ++ evsL xs
def evsB : List (Range × PV) → List Ev
  | [] => []
  | (_, x) :: xs => evs x ++ evsB xs
def evsF : List (Form × PV) → List Ev
  | [] => []
  | (_, x) :: xs => evs x ++ evsF xs
end

theorem evsB_eq (bs : List (Range × PV)) : evsB bs = evsL (bs.map (·.2)) := by
  induction bs with
  | nil => simp [evsB, evsL]
  | cons b bs ih => obtain ⟨r, x⟩ := b; simp [evsB, evsL, ih]

theorem evsF_eq (fs : List (Form × PV)) : evsF fs = evsL (fs.map (·.2)) := by
  induction fs with
  | nil => simp [evsF, evsL]
  | cons b bs ih => obtain ⟨r, x⟩ := b; simp [evsF, evsL, ih]

def Ev.var? : Ev → Option (Str × Fmt)
  | .var k f => some (k, f)
  | _ => none
def Ev.comp? : Ev → Option Str
  | .comp k => some k
  | _ => none
def Ev.count? : Ev → Option (Str × CountTy)
  | .count k ty => some (k, ty)
  | _ => none

def varsOf (es : List Ev) : List (Str × Fmt) := es.filterMap Ev.var?
def compsOf (es : List Ev) : List Str := es.filterMap Ev.comp?
def countsOf (es : List Ev) : List (Str × CountTy) := es.filterMap Ev.count?

@[simp] theorem varsOf_append (a b : List Ev) : varsOf (a ++ b) = varsOf a ++ varsOf b := by simp [varsOf]
@[simp] theorem compsOf_append (a b : List Ev) : compsOf (a ++ b) = compsOf a ++ compsOf b := by simp [compsOf]
@[simp] theorem countsOf_append (a b : List Ev) : countsOf (a ++ b) = countsOf a ++ countsOf b := by simp [countsOf]
@[simp] theorem varsOf_nil : varsOf [] = [] := rfl
@[simp] theorem compsOf_nil : compsOf [] = [] := rfl
@[simp] theorem countsOf_nil : countsOf [] = [] := rfl
@[simp] theorem varsOf_cons (e : Ev) (es : List Ev) : varsOf (e :: es) = (match e.var? with | some x => [x] | none => []) ++ varsOf es := by
  cases e <;> rfl
@[simp] theorem compsOf_cons (e : Ev) (es : List Ev) : compsOf (e :: es) = (match e.comp? with | some x => [x] | none => []) ++ compsOf es := by
  cases e <;> rfl
@[simp] theorem countsOf_cons (e : Ev) (es : List Ev) : countsOf (e :: es) = (match e.count? with | some x => [x] | none => []) ++ countsOf es := by
  cases e <;> rfl

mutual
/-- the occurrence lists of the specification are the projections of the event list -/
theorem occ_evs : ∀ v : PV,
    occVars v = varsOf (evs v) ∧ occComps v = compsOf (evs v) ∧ occCounts v = countsOf (evs v)
  | .var k f => by simp [occVars, occComps, occCounts, evs, Ev.var?, Ev.comp?, Ev.count?]
  | .comp k inner => by
    have := occ_evs inner
    simp [occVars, occComps, occCounts, evs, Ev.var?, Ev.comp?, Ev.count?, this]
  | .bloc items => by
    have := occ_evsL items
    simp [occVars, occComps, occCounts, evs, this]
  | .ranges ck t bs => by
    have := occ_evsB bs
    simp [occVars, occComps, occCounts, evs, Ev.var?, Ev.comp?, Ev.count?, this]
  | .plurals _ ck other forms => by
    have h1 := occ_evsF forms
    have h2 := occ_evs other
    simp [occVars, occComps, occCounts, evs, Ev.var?, Ev.comp?, Ev.count?, h1, h2]
  | .fk (.set inner) => by
    have := occ_evs inner
    simp [occVars, occComps, occCounts, evs, this]
  | .fk (.notSet _ _) => by simp [occVars, occComps, occCounts, evs]
  | .lit _ => by simp [occVars, occComps, occCounts, evs]
  | .dflt => by simp [occVars, occComps, occCounts, evs]
  | .subkeys _ => by simp [occVars, occComps, occCounts, evs]
theorem occ_evsL : ∀ xs : List PV,
    occVarsL xs = varsOf (evsL xs) ∧ occCompsL xs = compsOf (evsL xs) ∧ occCountsL xs = countsOf (evsL xs)
  | [] => by simp [occVarsL, occCompsL, occCountsL, evsL]
  | x :: xs => by
    have h1 := occ_evs x
    have h2 := occ_evsL xs
    simp [occVarsL, occCompsL, occCountsL, evsL, h1, h2]
theorem occ_evsB : ∀ xs : List (Range × PV),
    occVarsB xs = varsOf (evsB xs) ∧ occCompsB xs = compsOf (evsB xs) ∧ occCountsB xs = countsOf (evsB xs)
  | [] => by simp [occVarsB, occCompsB, occCountsB, evsB]
  | (_, x) :: xs => by
    have h1 := occ_evs x
    have h2 := occ_evsB xs
    simp [occVarsB, occCompsB, occCountsB, evsB, h1, h2]
theorem occ_evsF : ∀ xs : List (Form × PV),
    occVarsF xs = varsOf (evsF xs) ∧ occCompsF xs = compsOf (evsF xs) ∧ occCountsF xs = countsOf (evsF xs)
  | [] => by simp [occVarsF, occCompsF, occCountsF, evsF]
  | (_, x) :: xs => by
    have h1 := occ_evs x
    have h2 := occ_evsF xs
    simp [occVarsF, occCompsF, occCountsF, evsF, h1, h2]
end

/-! ### running the pushes over an event list -/

def step (K : IKeys) : Ev → Res IKeys
  | .var k f => .ok (pushVar K k f)
  | .comp k => .ok (pushComp K k)
  | .count k ty => pushCount K ty k

def run : List Ev → IOL → Res IOL
  | [], k => .ok k
  | e :: es, k =>
    match step k.keysMut e with
    | .ok K => run es (.interpol K)
    | .err e => .err e
    | .panic p => .panic p

theorem run_append (a b : List Ev) (k : IOL) :
    run (a ++ b) k = match run a k with
      | .ok k1 => run b k1
      | .err e => .err e
      | .panic p => .panic p := by
  induction a generalizing k with
  | nil => simp [run]
  | cons e es ih =>
    simp only [List.cons_append, run]
    cases step k.keysMut e with
    | ok K => exact ih _
    | err e => rfl
    | panic p => rfl

def Res.noPanic {α} : Res α → Prop
  | .panic _ => False
  | _ => True

theorem goL_run (fuel : Nat)
    (ih : ∀ v k r, getKeysInner fuel v k false = r → Res.noPanic r → run (evs v) k = r) :
    ∀ xs k r, getKeysInner.goL fuel xs k = r → Res.noPanic r → run (evsL xs) k = r := by
  intro xs
  induction xs with
  | nil => intro k r h _; simp [getKeysInner.goL] at h; simp [evsL, run, h]
  | cons x xs ihx =>
    intro k r h hp
    rw [getKeysInner.goL] at h
    simp only [evsL, run_append]
    cases hx : getKeysInner fuel x k false with
    | ok k1 =>
      rw [hx] at h
      rw [ih x k _ hx trivial]
      exact ihx k1 r h hp
    | err e =>
      rw [hx] at h
      rw [ih x k _ hx trivial]
      exact h
    | panic p =>
      rw [hx] at h; subst h; exact absurd hp (by simp [Res.noPanic])

/-- whenever `get_keys_inner` does not panic, its outcome is the outcome of the run over the
    occurrences of the value, for every amount of fuel -/
theorem gki_run : ∀ fuel v k r, getKeysInner fuel v k false = r → Res.noPanic r → run (evs v) k = r := by
  intro fuel
  induction fuel with
  | zero => intro v k r h hp; rw [getKeysInner] at h; subst h; exact absurd hp (by simp [Res.noPanic])
  | succ fuel ih =>
    intro v k r h hp
    have ihL := goL_run fuel ih
    cases v with
    | dflt => simp [getKeysInner] at h; simp [evs, run, h]
    | lit l => simp [getKeysInner] at h; simp [evs, run, h]
    | subkeys l => simp [getKeysInner] at h; simp [evs, run, h]
    | var key f => simp [getKeysInner] at h; simp [evs, run, step, h]
    | comp key inner =>
      rw [getKeysInner] at h
      simp only [evs, run, step]
      exact ih _ _ _ h hp
    | bloc items =>
      rw [getKeysInner] at h
      simp only [evs]
      exact ihL _ _ _ h hp
    | fk f =>
      cases f with
      | notSet p a => rw [getKeysInner] at h; subst h; exact absurd hp (by simp [Res.noPanic])
      | set inner =>
        rw [getKeysInner] at h
        simp only [evs]
        exact ih _ _ _ h hp
    | ranges ck t bs =>
      rw [getKeysInner] at h
      simp only [evs, run_append, evsB_eq]
      cases hx : getKeysInner.goL fuel (bs.map (·.2)) k with
      | ok k1 =>
        rw [hx] at h
        rw [ihL _ _ _ hx trivial]
        simp only [run, step]
        simp only at h
        cases hc : pushCount k1.keysMut (.range t) ck with
        | ok K => rw [hc] at h; exact h
        | err e => rw [hc] at h; exact h
        | panic p => rw [hc] at h; exact h
      | err e =>
        rw [hx] at h
        rw [ihL _ _ _ hx trivial]
        exact h
      | panic p => rw [hx] at h; subst h; exact absurd hp (by simp [Res.noPanic])
    | plurals rule ck other forms =>
      rw [getKeysInner] at h
      simp only [evs, run, step, run_append, evsF_eq]
      cases hc : pushCount k.keysMut .plural ck with
      | err e => rw [hc] at h; exact h
      | panic p => rw [hc] at h; exact h
      | ok K =>
        rw [hc] at h
        simp only at h ⊢
        cases hx : getKeysInner.goL fuel (forms.map (·.2)) (.interpol K) with
        | ok k1 =>
          rw [hx] at h
          rw [ihL _ _ _ hx trivial]
          exact ih _ _ _ h hp
        | err e =>
          rw [hx] at h
          rw [ihL _ _ _ hx trivial]
          exact h
        | panic p => rw [hx] at h; subst h; exact absurd hp (by simp [Res.noPanic])

/-! ### what a successful run does -/

theorem step_extends {K K' : IKeys} {e : Ev} (h : step K e = .ok K') :
    Extends K K' (varsOf [e]) (compsOf [e]) (countsOf [e]) := by
  cases e with
  | var k f => simp only [step, Res.ok.injEq] at h; subst h; exact pushVar_extends K k f
  | comp k => simp only [step, Res.ok.injEq] at h; subst h; exact pushComp_extends K k
  | count k ty => exact pushCount_extends h

theorem run_extends : ∀ (es : List Ev) (k k' : IOL), run es k = .ok k' →
    Extends k.keysMut k'.keysMut (varsOf es) (compsOf es) (countsOf es) := by
  intro es
  induction es with
  | nil => intro k k' h; simp only [run, Res.ok.injEq] at h; subst h; exact Extends.refl _
  | cons e es ih =>
    intro k k' h
    rw [run] at h
    cases hs : step k.keysMut e with
    | ok K =>
      rw [hs] at h
      have h1 := step_extends hs
      have h2 := ih _ _ h
      have := Extends.trans h1 h2
      rw [← varsOf_append, ← compsOf_append, ← countsOf_append] at this
      exact this
    | err e => rw [hs] at h; cases h
    | panic p => rw [hs] at h; cases h

/-- an empty run leaves the key alone (a literal key stays literal); a non-empty run makes it an interpolation -/
theorem run_kind : ∀ (es : List Ev) (k k' : IOL), run es k = .ok k' →
    (es = [] → k' = k) ∧ (es ≠ [] → ∃ K, k' = .interpol K) := by
  intro es
  induction es with
  | nil => intro k k' h; simp only [run, Res.ok.injEq] at h; simp [h]
  | cons e es ih =>
    intro k k' h
    rw [run] at h
    cases hs : step k.keysMut e with
    | ok K =>
      rw [hs] at h
      refine ⟨by simp, fun _ => ?_⟩
      have := ih _ _ h
      by_cases he : es = []
      · exact ⟨K, this.1 he⟩
      · exact this.2 he
    | err e => rw [hs] at h; cases h
    | panic p => rw [hs] at h; cases h

theorem step_noPanic (K : IKeys) (e : Ev) (p : String) : step K e ≠ .panic p := by
  cases e with
  | var k f => simp [step]
  | comp k => simp [step]
  | count k ty =>
    simp only [step]
    have := pushCount_spec K ty k
    simp only at this
    rw [this]
    cases countOf K k with
    | none => simp
    | some old =>
      simp only
      split
      · simp
      · split <;> simp

theorem run_noPanic : ∀ (es : List Ev) (k : IOL) (p : String), run es k ≠ .panic p := by
  intro es
  induction es with
  | nil => intro k p; simp [run]
  | cons e es ih =>
    intro k p
    rw [run]
    cases hs : step k.keysMut e with
    | ok K => exact ih _ _
    | err e => simp
    | panic q => exact absurd hs (step_noPanic _ _ _)

/-- an error of the run is the error of the first `push_count` that fails -/
theorem run_err : ∀ (es : List Ev) (k : IOL) (e : String), run es k = .err e →
    ∃ pre n ty post k1, es = pre ++ .count n ty :: post ∧ run pre k = .ok k1 ∧
      pushCount k1.keysMut ty n = .err e := by
  intro es
  induction es with
  | nil => intro k e h; simp [run] at h
  | cons ev es ih =>
    intro k e h
    rw [run] at h
    cases hs : step k.keysMut ev with
    | ok K =>
      rw [hs] at h
      obtain ⟨pre, n, ty, post, k1, h1, h2, h3⟩ := ih _ _ h
      refine ⟨ev :: pre, n, ty, post, k1, by simp [h1], ?_, h3⟩
      rw [run, hs]; exact h2
    | err e' =>
      rw [hs] at h
      cases h
      cases ev with
      | var k f => simp [step] at hs
      | comp k => simp [step] at hs
      | count n ty => exact ⟨[], n, ty, es, k, rfl, rfl, hs⟩
    | panic p => rw [hs] at h; cases h

/-- what is recorded after a successful run was recorded before or occurs in the run -/
theorem recorded_of_extends {K K' : IKeys} {vs cs ns} (h : Extends K K' vs cs ns) {n : Str} {ty : CountTy}
    (hc : countOf K' n = some ty) : Recorded K ns n ty := by
  by_cases hn : n ∈ ns.map (·.1)
  · obtain ⟨⟨n', ty0⟩, hm, rfl⟩ := List.mem_map.mp hn
    have := h.countNew _ _ hm
    simp only at this hc
    rw [this] at hc
    cases hc
    exact Or.inl hm
  · rw [h.countOld n hn] at hc
    exact Or.inr hc

theorem consistent_of_extends {K K' : IKeys} {vs cs ns} (h : Extends K K' vs cs ns) : Consistent K ns := by
  refine ⟨h.agree, ?_⟩
  intro n ty ty' h1 h2
  have a := h.countNew _ _ h1
  have b := h.countNew _ _ h2
  rw [a] at b
  cases b; rfl

theorem step_ok_of_consistent (K : IKeys) (e : Ev) (h : Consistent K (countsOf [e])) :
    ∃ K', step K e = .ok K' := by
  cases e with
  | var k f => exact ⟨_, rfl⟩
  | comp k => exact ⟨_, rfl⟩
  | count k ty =>
    have := h.1 k ty (by simp [countsOf, Ev.count?])
    simp only [step]
    have hs := pushCount_spec K ty k
    simp only at hs
    rw [hs]
    rcases this with h0 | h0
    · rw [h0]; exact ⟨_, rfl⟩
    · rw [h0]; simp

theorem run_ok_of_consistent : ∀ (es : List Ev) (k : IOL), Consistent k.keysMut (countsOf es) →
    ∃ k', run es k = .ok k' := by
  intro es
  induction es with
  | nil => intro k _; exact ⟨k, rfl⟩
  | cons e es ih =>
    intro k hc
    have hsplit : countsOf (e :: es) = countsOf [e] ++ countsOf es := by
      rw [← countsOf_append]; rfl
    have hc1 : Consistent k.keysMut (countsOf [e]) := by
      refine ⟨fun n ty h => hc.1 n ty ?_, fun n ty ty' h1 h2 => hc.2 n ty ty' ?_ ?_⟩ <;>
        (rw [hsplit]; exact List.mem_append_left _ ‹_›)
    obtain ⟨K, hK⟩ := step_ok_of_consistent _ _ hc1
    have hx := step_extends hK
    have hc2 : Consistent K (countsOf es) := by
      refine ⟨?_, fun n ty ty' h1 h2 => hc.2 n ty ty' ?_ ?_⟩
      · intro n ty hm
        have hm' : (n, ty) ∈ countsOf (e :: es) := by rw [hsplit]; exact List.mem_append_right _ hm
        by_cases hn : n ∈ (countsOf [e]).map (·.1)
        · obtain ⟨⟨n', ty0⟩, hm0, rfl⟩ := List.mem_map.mp hn
          have a := hx.countNew _ _ hm0
          have : ty0 = ty := hc.2 _ _ _ (by rw [hsplit]; exact List.mem_append_left _ hm0) hm'
          subst this
          exact Or.inr a
        · rw [hx.countOld n hn]; exact hc.1 n ty hm'
      · rw [hsplit]; exact List.mem_append_right _ h1
      · rw [hsplit]; exact List.mem_append_right _ h2
    obtain ⟨k', hk'⟩ := ih (.interpol K) hc2
    exact ⟨k', by rw [run, hK]; exact hk'⟩

/-- the two error kinds, and what each one witnesses -/
theorem run_err_kind (es : List Ev) (k : IOL) (e : String) (h : run es k = .err e) :
    (e = "RangeTypeMissmatch" ∧ ∃ n t t', t ≠ t' ∧
        Recorded k.keysMut (countsOf es) n (.range t) ∧ (n, .range t') ∈ countsOf es) ∨
    (e = "RangeAndPluralsMix" ∧ ∃ n t,
        Recorded k.keysMut (countsOf es) n .plural ∧ Recorded k.keysMut (countsOf es) n (.range t) ∧
        ((n, .plural) ∈ countsOf es ∨ (n, .range t) ∈ countsOf es)) := by
  obtain ⟨pre, n, ty, post, k1, rfl, h2, h3⟩ := run_err es k e h
  have hx := run_extends _ _ _ h2
  have hs := pushCount_spec k1.keysMut ty n
  simp only at hs
  rw [hs] at h3
  have hmem : (n, ty) ∈ countsOf (pre ++ Ev.count n ty :: post) := by
    simp [countsOf, Ev.count?]
  have hrec : ∀ old, countOf k1.keysMut n = some old →
      Recorded k.keysMut (countsOf (pre ++ Ev.count n ty :: post)) n old := by
    intro old ho
    rcases recorded_of_extends hx ho with h | h
    · exact Or.inl (by rw [countsOf_append]; exact List.mem_append_left _ h)
    · exact Or.inr h
  cases ho : countOf k1.keysMut n with
  | none => rw [ho] at h3; cases h3
  | some old =>
    rw [ho] at h3
    simp only at h3
    by_cases heq : old = ty
    · simp [heq] at h3
    · simp only [heq, if_false] at h3
      have hr := hrec old ho
      cases old with
      | plural =>
        cases ty with
        | plural => exact absurd rfl heq
        | range t =>
          simp only [Res.err.injEq] at h3
          exact Or.inr ⟨h3.symm, n, t, hr, Or.inl hmem, Or.inr hmem⟩
      | range o =>
        cases ty with
        | plural =>
          simp only [Res.err.injEq] at h3
          exact Or.inr ⟨h3.symm, n, o, Or.inl hmem, hr, Or.inl hmem⟩
        | range t =>
          simp only [Res.err.injEq] at h3
          exact Or.inl ⟨h3.symm, n, o, t, fun e => heq (by rw [e]), hr, hmem⟩

/-! ### enough fuel: `get_keys_inner` *is* the run -/

theorem depthB_eq (bs : List (Range × PV)) : depthB bs = depthL (bs.map (·.2)) := by
  induction bs with
  | nil => simp [depthB, depthL]
  | cons b bs ih => obtain ⟨r, x⟩ := b; simp [depthB, depthL, ih]
theorem depthF_eq (bs : List (Form × PV)) : depthF bs = depthL (bs.map (·.2)) := by
  induction bs with
  | nil => simp [depthF, depthL]
  | cons b bs ih => obtain ⟨r, x⟩ := b; simp [depthF, depthL, ih]
theorem resolvedB_eq (bs : List (Range × PV)) : resolvedB bs = resolvedL (bs.map (·.2)) := by
  induction bs with
  | nil => simp [resolvedB, resolvedL]
  | cons b bs ih => obtain ⟨r, x⟩ := b; simp [resolvedB, resolvedL, ih]
theorem resolvedF_eq (bs : List (Form × PV)) : resolvedF bs = resolvedL (bs.map (·.2)) := by
  induction bs with
  | nil => simp [resolvedF, resolvedL]
  | cons b bs ih => obtain ⟨r, x⟩ := b; simp [resolvedF, resolvedL, ih]

theorem goL_eq_run (fuel : Nat)
    (ih : ∀ v k, depth v < fuel → resolved v = true → getKeysInner fuel v k false = run (evs v) k) :
    ∀ xs k, depthL xs < fuel → resolvedL xs = true → getKeysInner.goL fuel xs k = run (evsL xs) k := by
  intro xs
  induction xs with
  | nil => intro k _ _; simp [getKeysInner.goL, evsL, run]
  | cons x xs ihx =>
    intro k hd hr
    simp only [depthL] at hd
    simp only [resolvedL, Bool.and_eq_true] at hr
    rw [getKeysInner.goL, ih x k (by omega) hr.1]
    simp only [evsL, run_append]
    cases run (evs x) k with
    | ok k1 => exact ihx k1 (by omega) hr.2
    | err e => rfl
    | panic p => rfl

theorem gki_eq_run : ∀ fuel v k, depth v < fuel → resolved v = true →
    getKeysInner fuel v k false = run (evs v) k := by
  intro fuel
  induction fuel with
  | zero => intro v k h; omega
  | succ fuel ih =>
    intro v k hd hr
    have ihL := goL_eq_run fuel ih
    cases v with
    | dflt => simp [getKeysInner, evs, run]
    | lit l => simp [getKeysInner, evs, run]
    | subkeys l => simp [getKeysInner, evs, run]
    | var key f => simp [getKeysInner, evs, run, step]
    | comp key inner =>
      simp only [depth] at hd
      simp only [resolved] at hr
      rw [getKeysInner]
      simp only [evs, run, step]
      exact ih _ _ (by omega) hr
    | bloc items =>
      simp only [depth] at hd
      simp only [resolved] at hr
      rw [getKeysInner]
      simp only [evs]
      exact ihL _ _ (by omega) hr
    | fk f =>
      cases f with
      | notSet p a => simp [resolved] at hr
      | set inner =>
        simp only [depth] at hd
        simp only [resolved] at hr
        rw [getKeysInner]
        simp only [evs]
        exact ih _ _ (by omega) hr
    | ranges ck t bs =>
      simp only [depth, depthB_eq] at hd
      simp only [resolved, resolvedB_eq] at hr
      rw [getKeysInner, ihL _ _ (by omega) hr]
      simp only [evs, run_append, evsB_eq]
      cases run (evsL (bs.map (·.2))) k with
      | ok k1 =>
        simp only [run, step]
        cases pushCount k1.keysMut (.range t) ck <;> rfl
      | err e => rfl
      | panic p => rfl
    | plurals rule ck other forms =>
      simp only [depth, depthF_eq] at hd
      simp only [resolved, resolvedF_eq, Bool.and_eq_true] at hr
      rw [getKeysInner]
      simp only [evs, run, step, run_append, evsF_eq]
      cases pushCount k.keysMut .plural ck with
      | err e => rfl
      | panic p => rfl
      | ok K =>
        simp only
        rw [ihL _ _ (by omega) hr.1]
        cases run (evsL (forms.map (·.2))) (.interpol K) with
        | ok k1 => exact ih _ _ (by omega) hr.2
        | err e => rfl
        | panic p => rfl

/-- at top level only a literal is treated differently -/
theorem gki_top (fuel : Nat) (v : PV) (k : IOL) :
    getKeysInner (fuel + 1) v k true =
      match v with
      | .lit l => .ok (.lit l.ty)
      | v => getKeysInner (fuel + 1) v k false := by
  cases v with
  | fk f => cases f <;> simp [getKeysInner]
  | _ => simp [getKeysInner]

/-! ### `index_strings` does not change what a value uses -/

theorem evsL_append (a b : List PV) : evsL (a ++ b) = evsL a ++ evsL b := by
  induction a with
  | nil => simp [evsL]
  | cons x xs ih => simp [evsL, ih]
theorem evsB_append (a b : List (Range × PV)) : evsB (a ++ b) = evsB a ++ evsB b := by
  induction a with
  | nil => simp [evsB]
  | cons x xs ih => obtain ⟨r, x⟩ := x; simp [evsB, ih]
theorem evsF_append (a b : List (Form × PV)) : evsF (a ++ b) = evsF a ++ evsF b := by
  induction a with
  | nil => simp [evsF]
  | cons x xs ih => obtain ⟨r, x⟩ := x; simp [evsF, ih]

theorem evs_indexStrings : ∀ fuel v acc, evs (indexStrings fuel v acc).1 = evs v := by
  intro fuel
  induction fuel with
  | zero => intro v acc; simp [indexStrings]
  | succ fuel ih =>
    intro v acc
    cases v with
    | dflt => simp [indexStrings]
    | lit l => cases l <;> simp [indexStrings, evs]
    | subkeys l => simp [indexStrings]
    | var key f => simp [indexStrings]
    | fk f => simp [indexStrings]
    | comp key inner => simp [indexStrings, evs, ih]
    | bloc items =>
      have : ∀ (items : List PV) (l0 : List PV) (a0 : List Str),
          evsL (items.foldl (fun (p : List PV × List Str) x =>
            ((p.1 ++ [(indexStrings fuel x p.2).1]), (indexStrings fuel x p.2).2)) (l0, a0)).1 = evsL l0 ++ evsL items := by
        intro items
        induction items with
        | nil => intro l0 a0; simp [evsL]
        | cons x xs ihx =>
          intro l0 a0
          rw [List.foldl_cons, ihx]
          simp [evsL_append, evsL, ih]
      simp only [indexStrings, evs]
      have := this items [] acc
      simpa [evsL] using this
    | ranges ck t bs =>
      have : ∀ (bs : List (Range × PV)) (l0 : List (Range × PV)) (a0 : List Str),
          evsB (bs.foldl (fun (p : List (Range × PV) × List Str) (x : Range × PV) =>
            ((p.1 ++ [(x.1, (indexStrings fuel x.2 p.2).1)]), (indexStrings fuel x.2 p.2).2)) (l0, a0)).1 = evsB l0 ++ evsB bs := by
        intro items
        induction items with
        | nil => intro l0 a0; simp [evsB]
        | cons x xs ihx =>
          intro l0 a0
          obtain ⟨r, x⟩ := x
          rw [List.foldl_cons, ihx]
          simp [evsB_append, evsB, ih]
      simp only [indexStrings, evs]
      have := this bs [] acc
      simpa [evsB] using this
    | plurals rule ck other forms =>
      have : ∀ (bs : List (Form × PV)) (l0 : List (Form × PV)) (a0 : List Str),
          evsF (bs.foldl (fun (p : List (Form × PV) × List Str) (x : Form × PV) =>
            ((p.1 ++ [(x.1, (indexStrings fuel x.2 p.2).1)]), (indexStrings fuel x.2 p.2).2)) (l0, a0)).1 = evsF l0 ++ evsF bs := by
        intro items
        induction items with
        | nil => intro l0 a0; simp [evsF]
        | cons x xs ihx =>
          intro l0 a0
          obtain ⟨r, x⟩ := x
          rw [List.foldl_cons, ihx]
          simp [evsF_append, evsF, ih]
      simp only [indexStrings, evs]
      have := this forms [] acc
      simp [evsF] at this
      simp [this, ih]

theorem indexStrings_lit (fuel : Nat) (l : Lit) (acc : List Str) :
    ∃ l', (indexStrings fuel (.lit l) acc).1 = .lit l' ∧ l'.ty = l.ty := by
  cases fuel with
  | zero => exact ⟨l, by simp [indexStrings]⟩
  | succ fuel => cases l <;> simp [indexStrings, Lit.ty]

theorem indexStrings_not_lit (fuel : Nat) (v : PV) (acc : List Str) (hv : ∀ l, v ≠ .lit l) :
    ∀ l, (indexStrings fuel v acc).1 ≠ .lit l := by
  cases fuel with
  | zero => simpa [indexStrings] using hv
  | succ fuel =>
    cases v with
    | lit l => exact absurd rfl (hv l)
    | _ => simp [indexStrings]

/-! ### the variable map stays a sorted map: every entry is visible to `get?` -/
section Sorted
open AMap

theorem char_eq_of_toNat {a b : Char} (h : a.toNat = b.toNat) : a = b := by
  apply Char.ext
  apply UInt32.toNat_inj.mp
  exact h

theorem strLt_irrefl : ∀ a : Str, strLt a a = false
  | [] => rfl
  | c :: cs => by simp [strLt, strLt_irrefl cs]

theorem strLt_trans : ∀ a b c : Str, strLt a b = true → strLt b c = true → strLt a c = true
  | [], [], _, h, _ => by simp [strLt] at h
  | [], _ :: _, [], _, h => by simp [strLt] at h
  | [], _ :: _, _ :: _, _, _ => rfl
  | _ :: _, [], _, h, _ => by simp [strLt] at h
  | _ :: _, _ :: _, [], _, h => by simp [strLt] at h
  | x :: xs, y :: ys, z :: zs, h1, h2 => by
    simp only [strLt] at h1 h2 ⊢
    have ih := strLt_trans xs ys zs
    split at h1
    · split at h2
      · rw [if_pos (by omega)]
      · split at h2
        · cases h2
        · rw [if_pos (by omega)]
    · split at h1
      · cases h1
      · split at h2
        · rw [if_pos (by omega)]
        · split at h2
          · cases h2
          · rw [if_neg (by omega), if_neg (by omega)]; exact ih h1 h2

theorem strLt_total : ∀ a b : Str, a ≠ b → strLt a b = false → strLt b a = true
  | [], [], h, _ => absurd rfl h
  | [], _ :: _, _, h => by simp [strLt] at h
  | _ :: _, [], _, _ => rfl
  | x :: xs, y :: ys, hne, h => by
    simp only [strLt] at h ⊢
    split at h
    · cases h
    · split at h
      · rw [if_pos (by omega)]
      · have : x = y := char_eq_of_toNat (by omega)
        subst this
        rw [if_neg (by omega), if_neg (by omega)]
        exact strLt_total xs ys (fun e => hne (by rw [e])) h

/-- keys strictly increasing (the `BTreeMap` invariant) -/
def Sorted {α} (m : List (Str × α)) : Prop := m.Pairwise (fun p q => strLt p.1 q.1 = true)

theorem mem_insert' {α} (k : Str) (v : α) : ∀ (m : List (Str × α)) (q : Str × α),
    q ∈ AMap.insert' k v m → q = (k, v) ∨ q ∈ m
  | [], q, h => by simp [AMap.insert', AMap.insert] at h; exact Or.inl h
  | (k', v') :: rest, q, h => by
    rw [insert'_cons] at h
    split at h
    · rcases List.mem_cons.mp h with h | h
      · exact Or.inl h
      · exact Or.inr (List.mem_cons_of_mem _ h)
    · split at h
      · rcases List.mem_cons.mp h with h | h
        · exact Or.inl h
        · exact Or.inr h
      · rcases List.mem_cons.mp h with h | h
        · exact Or.inr (h ▸ List.mem_cons_self)
        · rcases mem_insert' k v rest q h with h | h
          · exact Or.inl h
          · exact Or.inr (List.mem_cons_of_mem _ h)

theorem sorted_insert' {α} (k : Str) (v : α) : ∀ (m : List (Str × α)), Sorted m → Sorted (AMap.insert' k v m)
  | [], _ => by simp [AMap.insert', AMap.insert, Sorted]
  | (k', v') :: rest, h => by
    unfold Sorted at h ⊢
    rw [List.pairwise_cons] at h
    rw [insert'_cons]
    split
    · rename_i he
      have he : k' = k := by simpa using he
      subst he
      exact List.pairwise_cons.mpr ⟨h.1, h.2⟩
    · rename_i hne
      have hne : k' ≠ k := by simpa using hne
      split
      · rename_i hlt
        refine List.pairwise_cons.mpr ⟨?_, List.pairwise_cons.mpr h⟩
        intro q hq
        rcases List.mem_cons.mp hq with rfl | hq
        · exact hlt
        · exact strLt_trans _ _ _ hlt (h.1 q hq)
      · rename_i hnlt
        have hnlt : strLt k k' = false := by simpa using hnlt
        refine List.pairwise_cons.mpr ⟨?_, sorted_insert' k v rest h.2⟩
        intro q hq
        rcases mem_insert' k v rest q hq with rfl | hq
        · exact strLt_total k k' (fun e => hne e.symm) hnlt
        · exact h.1 q hq

theorem get?_of_mem_sorted {α} : ∀ (m : List (Str × α)), Sorted m → ∀ p ∈ m, AMap.get? p.1 m = some p.2
  | [], _, p, hp => by cases hp
  | (k', v') :: rest, h, p, hp => by
    unfold Sorted at h
    rw [List.pairwise_cons] at h
    rcases List.mem_cons.mp hp with rfl | hp
    · simp [AMap.get?]
    · have hlt := h.1 p hp
      have : k' ≠ p.1 := by
        intro e; rw [e, strLt_irrefl] at hlt; cases hlt
      rw [get?_cons]
      simp only [beq_iff_eq, this, if_false]
      exact get?_of_mem_sorted rest h.2 p hp

theorem mem_of_get? {α} {k : Str} {v : α} : ∀ {m : List (Str × α)}, AMap.get? k m = some v → (k, v) ∈ m
  | [], h => by simp [AMap.get?] at h
  | (k', v') :: rest, h => by
    rw [get?_cons] at h
    split at h
    · rename_i he
      have he : k' = k := by simpa using he
      cases h; subst he; exact List.mem_cons_self
    · exact List.mem_cons_of_mem _ (mem_of_get? h)

theorem step_sorted {K K' : IKeys} {e : Ev} (h : step K e = .ok K') (hs : Sorted K.vars) : Sorted K'.vars := by
  cases e with
  | var k f => simp only [step, Res.ok.injEq] at h; subst h; exact sorted_insert' _ _ _ hs
  | comp k =>
    simp only [step, Res.ok.injEq] at h; subst h
    unfold pushComp; split <;> exact hs
  | count k ty => obtain ⟨rfl, _⟩ := pushCount_ok h; exact sorted_insert' _ _ _ hs

theorem run_sorted : ∀ (es : List Ev) (k k' : IOL), run es k = .ok k' → Sorted k.keysMut.vars → Sorted k'.keysMut.vars := by
  intro es
  induction es with
  | nil => intro k k' h hs; simp only [run, Res.ok.injEq] at h; subst h; exact hs
  | cons e es ih =>
    intro k k' h hs
    rw [run] at h
    cases hst : step k.keysMut e with
    | ok K => rw [hst] at h; exact ih _ _ h (step_sorted hst hs)
    | err e => rw [hst] at h; cases h
    | panic p => rw [hst] at h; cases h
end Sorted

section ReduceNormal
open I18nVerif.Reduce

/-! ### the values `reduce` returns are `normal` -/

def isOccNode : PV → Bool
  | .var _ _ => true
  | .comp _ _ => true
  | .ranges _ _ _ => true
  | .plurals _ _ _ _ => true
  | _ => false

def isLitNode : PV → Bool
  | .lit _ => true
  | _ => false

theorem noOcc_of_isOccNode {x : PV} (h : isOccNode x = true) : noOcc x = false := by
  cases x <;> simp [isOccNode] at h <;> simp [noOcc, occVars, occComps, occCounts]

theorem noOcc_bloc_of_mem {l : List PV} {x : PV} (hm : x ∈ l) (h : noOcc x = false) : noOcc (.bloc l) = false := by
  induction l with
  | nil => cases hm
  | cons y ys ih =>
    rcases List.mem_cons.mp hm with rfl | hm
    · simp only [noOcc, occVars, occComps, occCounts, occVarsL, occCompsL, occCountsL] at h ⊢
      cases h1 : occVars x <;> cases h2 : occComps x <;> cases h3 : occCounts x <;> simp_all
    · have := ih hm
      simp only [noOcc, occVars, occComps, occCounts, occVarsL, occCompsL, occCountsL] at this ⊢
      cases h1 : occVarsL ys <;> cases h2 : occCompsL ys <;> cases h3 : occCountsL ys <;> simp_all

/-- invariant of the accumulator of `reduce_into`: literals and nodes that use something; with two
    items or more, at least one uses something -/
def AccInv (acc : List PV) : Prop :=
  (∀ x ∈ acc, isLitNode x = true ∨ isOccNode x = true) ∧ (2 ≤ acc.length → ∃ x ∈ acc, isOccNode x = true)

theorem dropLast_append_of_getLast? {α} {l : List α} {x : α} (h : l.getLast? = some x) :
    l.dropLast ++ [x] = l := by
  have hne : l ≠ [] := by intro e; subst e; simp at h
  have := List.dropLast_concat_getLast hne
  rw [List.getLast?_eq_some_getLast hne] at h
  simp at h
  rw [h] at this
  exact this

theorem AccInv.nil : AccInv [] := ⟨by simp, by simp⟩

theorem AccInv.push_occ {acc : List PV} {x : PV} (h : AccInv acc) (hx : isOccNode x = true) : AccInv (acc ++ [x]) := by
  refine ⟨?_, fun _ => ⟨x, by simp, hx⟩⟩
  intro y hy
  rcases List.mem_append.mp hy with hy | hy
  · exact h.1 y hy
  · simp at hy; subst hy; exact Or.inr hx

theorem AccInv.pushLit {acc : List PV} (l : Lit) (h : AccInv acc) : AccInv (pushLit l acc) := by
  unfold Reduce.pushLit
  have app : (∀ x, acc.getLast? = some x → isOccNode x = true) → AccInv (acc ++ [.lit l]) := by
    intro hlast
    refine ⟨?_, ?_⟩
    · intro y hy
      rcases List.mem_append.mp hy with hy | hy
      · exact h.1 y hy
      · simp at hy; subst hy; exact Or.inl rfl
    · intro hlen
      cases hg : acc.getLast? with
      | none =>
        have : acc = [] := List.getLast?_eq_none_iff.mp hg
        subst this; simp at hlen
      | some x =>
        exact ⟨x, List.mem_append_left _ (List.mem_of_getLast? hg), hlast x hg⟩
  cases hg : acc.getLast? with
  | none => exact app (by simp [hg])
  | some x =>
    have hx := h.1 x (List.mem_of_getLast? hg)
    cases x with
    | lit last =>
      simp only
      have hsplit : acc.dropLast ++ [.lit last] = acc := dropLast_append_of_getLast? hg
      refine ⟨?_, ?_⟩
      · intro y hy
        rcases List.mem_append.mp hy with hy | hy
        · exact h.1 y (List.dropLast_subset _ hy)
        · simp at hy; subst hy; exact Or.inl rfl
      · intro hlen
        have hlen' : 2 ≤ acc.length := by
          rw [← hsplit]; simpa using hlen
        obtain ⟨y, hy, hyo⟩ := h.2 hlen'
        rw [← hsplit] at hy
        rcases List.mem_append.mp hy with hy | hy
        · exact ⟨y, List.mem_append_left _ hy, hyo⟩
        · simp at hy; subst hy; simp [isOccNode] at hyo
    | _ =>
      simp only
      apply app
      intro y hy
      rw [hg] at hy; cases hy
      simpa [isLitNode] using hx

mutual
theorem reduce_normal : ∀ (v v' : PV), reduce v = .ok v' → normal v' = true
  | .lit l, v', h => by simp only [reduce, Res.ok.injEq] at h; subst h; rfl
  | .var k f, v', h => by simp only [reduce, Res.ok.injEq] at h; subst h; simp [normal, noOcc, occVars]
  | .dflt, v', h => by simp only [reduce, Res.ok.injEq] at h; subst h; rfl
  | .fk (.set inner), v', h => by rw [reduce] at h; exact reduce_normal inner v' h
  | .fk (.notSet _ _), v', h => by simp [reduce] at h
  | .ranges ck t bs, v', h => by
    rw [reduce] at h
    split at h <;> simp only [Res.ok.injEq, reduceCtorEq] at h
    subst h; simp [normal, noOcc, occCounts]
  | .comp k inner, v', h => by
    rw [reduce] at h
    split at h <;> simp only [Res.ok.injEq, reduceCtorEq] at h
    subst h; simp [normal, noOcc, occComps]
  | .subkeys (some (.mk n t keys s c)), v', h => by
    rw [reduce] at h
    split at h <;> simp only [Res.ok.injEq, reduceCtorEq] at h
    subst h; rfl
  | .subkeys none, v', h => by simp [reduce] at h
  | .plurals r ck other forms, v', h => by
    rw [reduce] at h
    split at h <;> simp only [Res.ok.injEq, reduceCtorEq] at h
    subst h; simp [normal, noOcc, occCounts]
  | .bloc items, v', h => by
    rw [reduce] at h
    split at h <;> simp only [Res.ok.injEq, reduceCtorEq] at h
    rename_i acc hacc
    subst h
    have inv := reduceIntoL_inv items [] acc AccInv.nil hacc
    match acc, inv with
    | [], _ => rfl
    | [one], inv =>
      simp only [wrapBloc]
      rcases inv.1 one (by simp) with h | h
      · cases one <;> simp [isLitNode] at h; rfl
      · cases one <;> simp [isOccNode] at h <;> simp [normal, noOcc, occVars, occComps, occCounts]
    | a :: b :: rest, inv =>
      simp only [wrapBloc]
      obtain ⟨x, hx, hxo⟩ := inv.2 (by simp)
      have := noOcc_bloc_of_mem hx (noOcc_of_isOccNode hxo)
      simp [normal, this]
theorem reduceInto_inv : ∀ (v : PV) (acc acc' : List PV), AccInv acc → reduceInto v acc = .ok acc' → AccInv acc'
  | .dflt, acc, acc', hi, h => by simp only [reduceInto, Res.ok.injEq] at h; subst h; exact hi
  | .subkeys _, acc, acc', hi, h => by simp only [reduceInto, Res.ok.injEq] at h; subst h; exact hi
  | .ranges ck t bs, acc, acc', hi, h => by
    rw [reduceInto] at h
    split at h <;> simp only [Res.ok.injEq, reduceCtorEq] at h
    subst h; exact hi.push_occ rfl
  | .plurals r ck other forms, acc, acc', hi, h => by
    rw [reduceInto] at h
    split at h <;> simp only [Res.ok.injEq, reduceCtorEq] at h
    subst h; exact hi.push_occ rfl
  | .fk (.set inner), acc, acc', hi, h => by rw [reduceInto] at h; exact reduceInto_inv inner acc acc' hi h
  | .fk (.notSet _ _), acc, acc', hi, h => by simp [reduceInto] at h
  | .lit l, acc, acc', hi, h => by
    rw [reduceInto] at h
    split at h <;> simp only [Res.ok.injEq] at h <;> subst h
    · exact hi
    · exact hi.pushLit l
  | .var k f, acc, acc', hi, h => by
    simp only [reduceInto, Res.ok.injEq] at h; subst h; exact hi.push_occ rfl
  | .comp k inner, acc, acc', hi, h => by
    rw [reduceInto] at h
    split at h <;> simp only [Res.ok.injEq, reduceCtorEq] at h
    subst h; exact hi.push_occ rfl
  | .bloc items, acc, acc', hi, h => by rw [reduceInto] at h; exact reduceIntoL_inv items acc acc' hi h
theorem reduceIntoL_inv : ∀ (xs : List PV) (acc acc' : List PV), AccInv acc → reduceIntoL xs acc = .ok acc' → AccInv acc'
  | [], acc, acc', hi, h => by simp only [reduceIntoL, Res.ok.injEq] at h; subst h; exact hi
  | x :: xs, acc, acc', hi, h => by
    rw [reduceIntoL] at h
    split at h
    · rename_i acc1 h1
      exact reduceIntoL_inv xs acc1 acc' (reduceInto_inv x acc acc1 hi h1) h
    · cases h
    · cases h
end

end ReduceNormal

end I18nVerif.Keys
