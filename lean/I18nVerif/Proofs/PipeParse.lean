import I18nVerif.Spec.PipelineInv
import I18nVerif.Proofs.NoPanic
import I18nVerif.Proofs.Perm
/-!
The first stage of the pipeline (`Pipeline.parseRaw`): decoding never panics; what it produces
satisfies the invariant `ParsedOK` (every leaf `Raw`, every key map sorted, every leaf with a foreign
key registered, every registered path the path of a leaf).
-/
namespace I18nVerif.PipeInv
open I18nVerif Str

/-! ### `Raw` of the parser output -/

theorem RawK_iff : ∀ (m : List (Str × PV)), RawK m = true ↔ ∀ kv ∈ m, Raw kv.2 = true
  | [] => by simp [RawK]
  | (k, v) :: rest => by simp [RawK, RawK_iff rest]

theorem RawK_insert' {k : Str} {v : PV} {m : List (Str × PV)} (hv : Raw v = true) (hm : RawK m = true) :
    RawK (AMap.insert' k v m) = true := by
  rw [RawK_iff] at hm ⊢
  intro kv hkv
  obtain ⟨k', v'⟩ := kv
  rcases AMap.mem_insert' hkv with h | h
  · simp only [Prod.mk.injEq] at h; rw [h.2]; exact hv
  · exact hm _ h

/-- every `.ok` result of `rec_` is `Raw` -/
def RawRec (rec_ : Str → Res PV) : Prop := ∀ s v, rec_ s = .ok v → Raw v = true

theorem Raw_bloc3 {b x a : PV} (hb : Raw b = true) (hx : Raw x = true) (ha : Raw a = true) :
    Raw (.bloc [b, x, a]) = true := by
  simp [Raw, RawL, hb, hx, ha]

theorem go_raw (rec_ : Str → Res PV) (hr : RawRec rec_) :
    ∀ (l : List (Str × Json.JLit)) (acc r : List (Str × PV)), RawK acc = true →
      Parse.parseFKArgsInner.go rec_ l acc = .ok r → RawK r = true := by
  intro l
  induction l with
  | nil =>
    intro acc r ha h
    simp only [Parse.parseFKArgsInner.go, Res.ok.injEq] at h
    subst h; exact ha
  | cons p rest ih =>
    intro acc r ha h
    obtain ⟨k, v⟩ := p
    simp only [Parse.parseFKArgsInner.go] at h
    cases v with
    | str t =>
      simp only at h
      split at h
      · rename_i pv hpv; exact ih _ _ (RawK_insert' (hr _ _ hpv) ha) h
      · simp at h
      · simp at h
    | _ => simp only at h; exact ih _ _ (RawK_insert' (by simp [Raw]) ha) h

theorem parseFKArgsInner_raw {rec_ : Str → Res PV} (hr : RawRec rec_) {s : Str} {r : List (Str × PV)}
    (h : Parse.parseFKArgsInner rec_ s = .ok r) : RawK r = true := by
  unfold Parse.parseFKArgsInner at h
  split at h
  · simp at h
  · exact go_raw rec_ hr _ _ _ (by simp [RawK]) h

theorem parseFKArgs_raw {rec_ : Str → Res PV} (hr : RawRec rec_) {s after : Str} {r : List (Str × PV)}
    (h : Parse.parseFKArgs rec_ s = .ok (r, after)) : RawK r = true := by
  unfold Parse.parseFKArgs at h
  split at h
  · simp at h
  · simp only at h
    split at h
    · simp at h
    · split at h
      · rename_i args hargs
        simp only [Res.ok.injEq, Prod.mk.injEq] at h
        rw [← h.1]; exact parseFKArgsInner_raw hr hargs
      · simp at h
      · simp at h

theorem findVariable_raw {rec_ : Str → Res PV} (hr : RawRec rec_) {value : Str} {v : PV}
    (h : Parse.findVariable rec_ value = some (.ok v)) : Raw v = true := by
  unfold Parse.findVariable at h
  split at h
  · simp at h
  split at h
  · simp at h
  simp only at h
  split at h
  · simp at h
  · simp at h
  rename_i b hb
  split at h
  · simp at h
  · simp at h
  rename_i a ha
  have hb' := hr _ _ hb
  have ha' := hr _ _ ha
  repeat' split at h
  all_goals first
    | (simp only [Option.some.injEq, Res.ok.injEq] at h; subst h
       exact Raw_bloc3 hb' (by simp [Raw]) ha')
    | simp at h

theorem findComponent_raw {rec_ : Str → Res PV} (hr : RawRec rec_) {value : Str} {v : PV}
    (h : Parse.findComponent rec_ value = some (.ok v)) : Raw v = true := by
  unfold Parse.findComponent at h
  split at h
  · simp at h
  split at h
  · simp at h
  · simp at h
  rename_i b hb
  split at h
  · simp at h
  · simp at h
  rename_i m hm
  split at h
  · simp at h
  · simp at h
  rename_i a ha
  simp only [Option.some.injEq, Res.ok.injEq] at h; subst h
  exact Raw_bloc3 (hr _ _ hb) (by simp only [Raw]; exact hr _ _ hm) (hr _ _ ha)

theorem findForeignKey_raw {rec_ : Str → Res PV} (hr : RawRec rec_) {value : Str} {v : PV}
    (h : Parse.findForeignKey rec_ value = some (.ok v)) : Raw v = true := by
  unfold Parse.findForeignKey at h
  split at h
  · simp at h
  split at h
  · simp at h
  split at h
  · simp at h
  simp only at h
  split at h
  · simp at h
  · simp at h
  rename_i args after' hok
  have hargs : RawK args = true := by
    split at hok
    · exact parseFKArgs_raw hr hok
    · simp only [Res.ok.injEq, Prod.mk.injEq] at hok
      rw [← hok.1]; simp [RawK]
  split at h
  · simp at h
  · simp at h
  rename_i b hb
  split at h
  · simp at h
  · simp at h
  rename_i a ha
  simp only [Option.some.injEq, Res.ok.injEq] at h; subst h
  exact Raw_bloc3 (hr _ _ hb) (by simp only [Raw]; exact hargs) (hr _ _ ha)

theorem newF_raw : ∀ (fuel : Nat), RawRec (Parse.newF fuel) := by
  intro fuel
  induction fuel with
  | zero => intro s v h; simp [Parse.newF] at h
  | succ fuel ih =>
    intro s v h
    simp only [Parse.newF] at h
    split at h
    · rename_i r hf; subst h; exact findForeignKey_raw ih hf
    · split at h
      · rename_i r hf; subst h; exact findComponent_raw ih hf
      · split at h
        · rename_i r hf; subst h; exact findVariable_raw ih hf
        · simp only [Res.ok.injEq] at h; subst h; simp [Raw]

/-- parser output: no subkeys, no resolved foreign key anywhere -/
theorem parse_new_raw (s : Str) (v : PV) (h : Parse.new s = .ok v) : Raw v = true :=
  newF_raw _ s v h

end I18nVerif.PipeInv
