import I18nVerif.Spec.PipelineInv
import I18nVerif.Proofs.NoPanic
import I18nVerif.Proofs.Perm
/-!
The first stage of the pipeline (`Pipeline.parseRaw`): decoding never panics; what it produces
satisfies the invariant `ParsedOK` (every leaf `Raw`, every key map sorted, every leaf with a foreign
key registered, every registered path the path of a leaf).
-/
namespace I18nVerif.PipeInv
open I18nVerif Str

/-! Helper lemmas live in the namespace `I18nVerif.PipeInv.PP` (no clashes with the other `Pipe*` files). -/
namespace PP

/-! ### `Raw` of the parser output -/

theorem RawK_iff : ∀ (m : List (Str × PV)), RawK m = true ↔ ∀ kv ∈ m, Raw kv.2 = true
  | [] => by simp [RawK]
  | (k, v) :: rest => by simp [RawK, RawK_iff rest]

theorem RawK_insert' {k : Str} {v : PV} {m : List (Str × PV)} (hv : Raw v = true) (hm : RawK m = true) :
    RawK (AMap.insert' k v m) = true := by
  rw [RawK_iff] at hm ⊢
  intro kv hkv
  obtain ⟨k', v'⟩ := kv
  rcases AMap.mem_insert' hkv with h | h
  · simp only [Prod.mk.injEq] at h; rw [h.2]; exact hv
  · exact hm _ h

/-- every `.ok` result of `rec_` is `Raw` -/
def RawRec (rec_ : Str → Res PV) : Prop := ∀ s v, rec_ s = .ok v → Raw v = true

theorem Raw_bloc3 {b x a : PV} (hb : Raw b = true) (hx : Raw x = true) (ha : Raw a = true) :
    Raw (.bloc [b, x, a]) = true := by
  simp [Raw, RawL, hb, hx, ha]

theorem go_raw (rec_ : Str → Res PV) (hr : RawRec rec_) :
    ∀ (l : List (Str × Json.JLit)) (acc r : List (Str × PV)), RawK acc = true →
      Parse.parseFKArgsInner.go rec_ l acc = .ok r → RawK r = true := by
  intro l
  induction l with
  | nil =>
    intro acc r ha h
    simp only [Parse.parseFKArgsInner.go, Res.ok.injEq] at h
    subst h; exact ha
  | cons p rest ih =>
    intro acc r ha h
    obtain ⟨k, v⟩ := p
    simp only [Parse.parseFKArgsInner.go] at h
    cases v with
    | str t =>
      simp only at h
      split at h
      · rename_i pv hpv; exact ih _ _ (RawK_insert' (hr _ _ hpv) ha) h
      · simp at h
      · simp at h
    | _ => simp only at h; exact ih _ _ (RawK_insert' (by simp [Raw]) ha) h

theorem parseFKArgsInner_raw {rec_ : Str → Res PV} (hr : RawRec rec_) {s : Str} {r : List (Str × PV)}
    (h : Parse.parseFKArgsInner rec_ s = .ok r) : RawK r = true := by
  unfold Parse.parseFKArgsInner at h
  split at h
  · simp at h
  · exact go_raw rec_ hr _ _ _ (by simp [RawK]) h

theorem parseFKArgs_raw {rec_ : Str → Res PV} (hr : RawRec rec_) {s after : Str} {r : List (Str × PV)}
    (h : Parse.parseFKArgs rec_ s = .ok (r, after)) : RawK r = true := by
  unfold Parse.parseFKArgs at h
  split at h
  · simp at h
  · simp only at h
    split at h
    · simp at h
    · split at h
      · rename_i args hargs
        simp only [Res.ok.injEq, Prod.mk.injEq] at h
        rw [← h.1]; exact parseFKArgsInner_raw hr hargs
      · simp at h
      · simp at h

theorem findVariable_raw {rec_ : Str → Res PV} (hr : RawRec rec_) {value : Str} {v : PV}
    (h : Parse.findVariable rec_ value = some (.ok v)) : Raw v = true := by
  unfold Parse.findVariable at h
  split at h
  · simp at h
  split at h
  · simp at h
  simp only at h
  split at h
  · simp at h
  · simp at h
  rename_i b hb
  split at h
  · simp at h
  · simp at h
  rename_i a ha
  have hb' := hr _ _ hb
  have ha' := hr _ _ ha
  repeat' split at h
  all_goals first
    | (simp only [Option.some.injEq, Res.ok.injEq] at h; subst h
       exact Raw_bloc3 hb' (by simp [Raw]) ha')
    | simp at h

theorem findComponent_raw {rec_ : Str → Res PV} (hr : RawRec rec_) {value : Str} {v : PV}
    (h : Parse.findComponent rec_ value = some (.ok v)) : Raw v = true := by
  unfold Parse.findComponent at h
  split at h
  · simp at h
  split at h
  · simp at h
  · simp at h
  rename_i b hb
  split at h
  · simp at h
  · simp at h
  rename_i m hm
  split at h
  · simp at h
  · simp at h
  rename_i a ha
  simp only [Option.some.injEq, Res.ok.injEq] at h; subst h
  exact Raw_bloc3 (hr _ _ hb) (by simp only [Raw]; exact hr _ _ hm) (hr _ _ ha)

theorem findForeignKey_raw {rec_ : Str → Res PV} (hr : RawRec rec_) {value : Str} {v : PV}
    (h : Parse.findForeignKey rec_ value = some (.ok v)) : Raw v = true := by
  unfold Parse.findForeignKey at h
  split at h
  · simp at h
  split at h
  · simp at h
  split at h
  · simp at h
  simp only at h
  split at h
  · simp at h
  · simp at h
  rename_i args after' hok
  have hargs : RawK args = true := by
    split at hok
    · exact parseFKArgs_raw hr hok
    · simp only [Res.ok.injEq, Prod.mk.injEq] at hok
      rw [← hok.1]; simp [RawK]
  split at h
  · simp at h
  · simp at h
  rename_i b hb
  split at h
  · simp at h
  · simp at h
  rename_i a ha
  simp only [Option.some.injEq, Res.ok.injEq] at h; subst h
  exact Raw_bloc3 (hr _ _ hb) (by simp only [Raw]; exact hargs) (hr _ _ ha)

theorem newF_raw : ∀ (fuel : Nat), RawRec (Parse.newF fuel) := by
  intro fuel
  induction fuel with
  | zero => intro s v h; simp [Parse.newF] at h
  | succ fuel ih =>
    intro s v h
    simp only [Parse.newF] at h
    split at h
    · rename_i r hf; subst h; exact findForeignKey_raw ih hf
    · split at h
      · rename_i r hf; subst h; exact findComponent_raw ih hf
      · split at h
        · rename_i r hf; subst h; exact findVariable_raw ih hf
        · simp only [Res.ok.injEq] at h; subst h; simp [Raw]

end PP
open PP

/-- parser output: no subkeys, no resolved foreign key anywhere -/
theorem parse_new_raw (s : Str) (v : PV) (h : Parse.new s = .ok v) : Raw v = true :=
  newF_raw _ s v h

namespace PP

/-! ### trees by membership -/

theorem TreeK_iff (P : List Str → PV → Prop) (pre : List Str) :
    ∀ keys : List (Str × PV), TreeK P pre keys ↔ ∀ kv ∈ keys, TreeV P (pre ++ [kv.1]) kv.2
  | [] => by simp [TreeK]
  | (k, v) :: rest => by simp [TreeK, TreeK_iff P pre rest]

theorem SortedK_iff : ∀ keys : List (Str × PV), SortedK keys ↔ ∀ kv ∈ keys, SortedV kv.2
  | [] => by simp [SortedK]
  | (k, v) :: rest => by simp [SortedK, SortedK_iff rest]

theorem TreeV_leaf (P : List Str → PV → Prop) (here : List Str) (v : PV) (h : isGroup v = false) :
    TreeV P here v ↔ P here v := by
  cases v <;> simp [TreeV, isGroup] at h ⊢

theorem Raw_not_group {v : PV} (h : Raw v = true) : isGroup v = false := by
  cases v <;> simp [Raw, isGroup] at h ⊢

theorem SortedV_leaf {v : PV} (h : isGroup v = false) : SortedV v := by
  cases v <;> simp [SortedV, isGroup] at h ⊢

/-! ### `Decode.value` -/

/-- what `Decode.value` produces -/
def ValOK (inRange : Bool) (v : PV) : Prop :=
  (inRange = true → Raw v = true) ∧ (∀ pre, TreeV (fun _ v => Raw v = true) pre v) ∧ SortedV v

theorem ValOK_of_raw {inRange : Bool} {v : PV} (h : Raw v = true) : ValOK inRange v :=
  ⟨fun _ => h, fun pre => (TreeV_leaf _ pre v (Raw_not_group h)).mpr h, SortedV_leaf (Raw_not_group h)⟩

theorem RawB_iff : ∀ (m : List (Range × PV)), RawB m = true ↔ ∀ kv ∈ m, Raw kv.2 = true
  | [] => by simp [RawB]
  | (k, v) :: rest => by simp [RawB, RawB_iff rest]

theorem pairs_raw (pair : RangeTy → J → Res (Range × PV)) (t : RangeTy) :
    ∀ (l : List J) (r : List (Range × PV)), (∀ x ∈ l, ∀ p, pair t x = .ok p → Raw p.2 = true) →
      Decode.value.pairs pair t l = .ok r → RawB r = true := by
  intro l
  induction l with
  | nil => intro r _ h; simp only [Decode.value.pairs, Res.ok.injEq] at h; subst h; simp [RawB]
  | cons x xs ih =>
    intro r hp h
    simp only [Decode.value.pairs] at h
    split at h
    · simp at h
    · simp at h
    · rename_i p hpx
      split at h
      · simp at h
      · simp at h
      · rename_i ps hps
        simp only [Res.ok.injEq] at h; subst h
        obtain ⟨rg, pv⟩ := p
        have h1 := hp x (by simp) _ hpx
        have h2 := ih ps (fun y hy => hp y (by simp [hy])) hps
        simp only [RawB, Bool.and_eq_true]
        exact ⟨h1, h2⟩

theorem pairF_raw (fuel : Nat) (top : Str)
    (ih : ∀ (key : Str) (j : J) (v : PV), Decode.value fuel top true key j = .ok v → Raw v = true)
    (t : RangeTy) (x : J) (p : Range × PV) (h : Decode.pairF fuel top t x = .ok p) : Raw p.2 = true := by
  unfold Decode.pairF at h
  split at h
  · split at h
    · simp at h
    · simp at h
    · split at h
      · repeat' split at h
        all_goals simp at h
      · split at h
        · split at h
          · rename_i pv hv
            simp only [Res.ok.injEq] at h; subst h; exact ih _ _ _ hv
          · simp at h
          · simp at h
        · split at h
          · rename_i pv _ hv
            simp only [Res.ok.injEq] at h; subst h; exact ih _ _ _ hv
          all_goals simp at h
  · split at h
    · simp at h
    · simp at h
    · rename_i pv hv
      split at h
      · simp only [Res.ok.injEq] at h; subst h; exact ih _ _ _ hv
      · simp at h
      · simp at h
  · simp at h

theorem localeKeys_inv (fuel : Nat) (top : Str)
    (ih : ∀ (key : Str) (j : J) (v : PV), Decode.value fuel top false key j = .ok v → ValOK false v) :
    ∀ (l : List (Str × J)) (acc r : List (Str × PV)), Sorted acc → (∀ kv ∈ acc, ValOK false kv.2) →
      Decode.value.localeKeys fuel top l acc = .ok r → Sorted r ∧ ∀ kv ∈ r, ValOK false kv.2 := by
  intro l
  induction l with
  | nil =>
    intro acc r hs ha h
    simp only [Decode.value.localeKeys, Res.ok.injEq] at h; subst h; exact ⟨hs, ha⟩
  | cons p rest ihl =>
    intro acc r hs ha h
    obtain ⟨k, x⟩ := p
    simp only [Decode.value.localeKeys] at h
    split at h
    · simp at h
    · rename_i key' _
      split at h
      · simp at h
      · simp at h
      · rename_i pv hv
        split at h
        · simp at h
        · have hsp := AMap.insert'_spec key' pv (m := acc) hs
          refine ihl _ _ hsp.1 ?_ h
          intro kv hkv
          rcases (hsp.2 kv).mp hkv with e | ⟨hm, _⟩
          · subst e; exact ih _ _ _ hv
          · exact ha kv hm

theorem value_ok : ∀ (fuel : Nat) (top : Str) (inRange : Bool) (key : Str) (j : J) (v : PV),
    Decode.value fuel top inRange key j = .ok v → ValOK inRange v := by
  intro fuel
  induction fuel with
  | zero => intro _ _ _ _ v h; simp [Decode.value] at h
  | succ fuel ih =>
    intro top inRange key j v h
    cases j with
    | str s => simp only [Decode.value] at h; exact ValOK_of_raw (parse_new_raw _ _ h)
    | bool b => simp only [Decode.value, Res.ok.injEq] at h; subst h; exact ValOK_of_raw (by simp [Raw])
    | signed i => simp only [Decode.value, Res.ok.injEq] at h; subst h; exact ValOK_of_raw (by simp [Raw])
    | unsigned n => simp only [Decode.value, Res.ok.injEq] at h; subst h; exact ValOK_of_raw (by simp [Raw])
    | float d => simp only [Decode.value, Res.ok.injEq] at h; subst h; exact ValOK_of_raw (by simp [Raw])
    | null =>
      simp only [Decode.value] at h
      split at h
      · simp at h
      · simp only [Res.ok.injEq] at h; subst h; exact ValOK_of_raw (by simp [Raw])
    | obj l =>
      simp only [Decode.value] at h
      split at h
      · simp at h
      · rename_i hir
        split at h
        · rename_i keys hk
          simp only [Res.ok.injEq] at h; subst h
          have := localeKeys_inv fuel top (fun key j v hv => ih top false key j v hv) l [] keys
            (by simp [Sorted]) (by simp) hk
          refine ⟨fun e => absurd e hir, fun pre => ?_, ?_⟩
          · simp only [TreeV]
            rw [TreeK_iff]
            intro kv hkv
            exact (this.2 kv hkv).2.1 _
          · simp only [SortedV]
            refine ⟨this.1, ?_⟩
            rw [SortedK_iff]
            intro kv hkv
            exact (this.2 kv hkv).2.2
        · simp at h
        · simp at h
    | arr l =>
      have hp : ∀ t, ∀ (l : List J) (r : List (Range × PV)),
          Decode.value.pairs (Decode.pairF fuel top) t l = .ok r → RawB r = true :=
        fun t l r hr => pairs_raw _ t l r
          (fun x _ p hpx => pairF_raw fuel top (fun key j v hv => (ih top true key j v hv).1 rfl) t x p hpx) hr
      cases l with
      | nil => simp only [Decode.value] at h; split at h <;> simp at h
      | cons first rest =>
        cases first <;> simp only [Decode.value] at h
        all_goals
          split at h
          · simp at h
          · skip
            repeat' split at h
            all_goals first
              | (simp at h; done)
              | skip
            all_goals
              simp only [Res.ok.injEq] at h; subst h
              apply ValOK_of_raw
              simp only [Raw]
              rename_i hq _ _ _ _
              repeat' split at hq
              all_goals first
                | (simp at hq; done)
                | (rename_i h3
                   simp only [Res.ok.injEq, Prod.mk.injEq] at hq
                   rw [← hq.2]
                   exact hp _ _ _ h3)

end PP
open PP

/-- a decoded locale: named after the locale, key maps sorted at every depth, every leaf `Raw` -/
theorem locale_ok (name : Str) (j : J) (l : Loc) (h : Decode.locale name j = .ok l) :
    l.name = name ∧ SortedTree l.keys ∧ TreeK (fun _ v => Raw v = true) [] l.keys := by
  unfold Decode.locale at h
  split at h
  · rename_i fields
    split at h
    · rename_i l' hv
      simp only [Res.ok.injEq] at h; subst h
      have hok := value_ok _ _ _ _ _ _ hv
      simp only [Decode.value] at hv
      simp only [Bool.false_eq_true, if_false] at hv
      split at hv
      · rename_i keys _
        simp only [Res.ok.injEq, PV.subkeys.injEq, Option.some.injEq] at hv
        subst hv
        have h2 := hok.2.1 []
        have h3 := hok.2.2
        simp only [TreeV, SortedV] at h2 h3
        exact ⟨rfl, h3, h2⟩
      · simp at hv
      · simp at hv
    · simp at h
    · simp at h
    · simp at h
  · simp at h

namespace PP

/-! ### `decodeNs`, `decodeAll` -/

theorem decodeNs_ok (inp : Pipeline.Input) (ns : Option Str) : ∀ (names : List Str) (locs : List Loc),
    Pipeline.decodeNs inp ns names = .ok locs →
      locs.map Loc.name = names ∧ ∀ l ∈ locs, ∃ name j, Decode.locale name j = .ok l := by
  intro names
  induction names with
  | nil =>
    intro locs h
    simp only [Pipeline.decodeNs, Res.ok.injEq] at h; subst h; simp
  | cons n rest ih =>
    intro locs h
    simp only [Pipeline.decodeNs] at h
    split at h
    · simp at h
    · rename_i j _
      split at h
      · simp at h
      · simp at h
      · rename_i loc hloc
        split at h
        · rename_i locs' hrest
          simp only [Res.ok.injEq] at h; subst h
          have ih' := ih _ hrest
          refine ⟨?_, ?_⟩
          · simp only [List.map_cons, ih'.1, (locale_ok _ _ _ hloc).1]
          · intro l hl
            simp only [List.mem_cons] at hl
            rcases hl with e | hl
            · subst e; exact ⟨n, j, hloc⟩
            · exact ih'.2 l hl
        · simp at h
        · simp at h

theorem decodeAll_ok (inp : Pipeline.Input) : ∀ (keys : List (Option Str)) (nss : List NS),
    Pipeline.decodeAll inp keys = .ok nss →
      nss.map NS.key = keys ∧ ∀ ns ∈ nss, Pipeline.decodeNs inp ns.key inp.cfg.locales = .ok ns.locales := by
  intro keys
  induction keys with
  | nil =>
    intro nss h
    simp only [Pipeline.decodeAll, Res.ok.injEq] at h; subst h; simp
  | cons k rest ih =>
    intro nss h
    simp only [Pipeline.decodeAll] at h
    split at h
    · simp at h
    · simp at h
    · rename_i locs hlocs
      split at h
      · rename_i nss' hrest
        simp only [Res.ok.injEq] at h; subst h
        have ih' := ih _ hrest
        refine ⟨by simp only [List.map_cons, ih'.1], ?_⟩
        intro ns hns
        simp only [List.mem_cons] at hns
        rcases hns with e | hns
        · subst e; exact hlocs
        · exact ih'.2 ns hns
      · simp at h
      · simp at h

theorem decodeNs_np (inp : Pipeline.Input) (ns : Option Str) (s : String) : ∀ (names : List Str),
    Pipeline.decodeNs inp ns names ≠ .panic s := by
  intro names
  induction names with
  | nil => simp [Pipeline.decodeNs]
  | cons n rest ih =>
    intro h
    simp only [Pipeline.decodeNs] at h
    split at h
    · simp at h
    · rename_i j _
      have hnp := Decode.locale_np n j
      split at h
      · simp at h
      · rename_i p hp; rw [hp] at hnp; simp [Res.isPanic] at hnp
      · split at h
        · simp at h
        · simp at h
        · rename_i p hp
          simp only [Res.panic.injEq] at h; subst h
          exact ih hp

theorem decodeAll_np (inp : Pipeline.Input) (s : String) : ∀ (keys : List (Option Str)),
    Pipeline.decodeAll inp keys ≠ .panic s := by
  intro keys
  induction keys with
  | nil => simp [Pipeline.decodeAll]
  | cons k rest ih =>
    intro h
    simp only [Pipeline.decodeAll] at h
    split at h
    · simp at h
    · rename_i p hp; exact decodeNs_np inp k p _ hp
    · split at h
      · simp at h
      · simp at h
      · rename_i p hp
        simp only [Res.panic.injEq] at h; subst h
        exact ih hp

end PP
open PP

/-- decoding never panics -/
theorem parseRaw_no_panic (inp : Pipeline.Input) (s : String) : Pipeline.parseRaw inp ≠ .panic s := by
  intro h
  unfold Pipeline.parseRaw at h
  simp only at h
  split at h
  · simp at h
  · rename_i p hp; exact decodeAll_np inp p _ hp
  · simp at h

namespace PP

/-! ### `insertSorted`: the order of the `BTreeSet` is total, so nothing is lost -/

theorem listLt_total : ∀ {a b : List Str}, Pipeline.listLt AMap.strLt a b = false →
    Pipeline.listLt AMap.strLt b a = false → a = b
  | [], [], _, _ => rfl
  | [], _ :: _, h, _ => by simp [Pipeline.listLt] at h
  | _ :: _, [], _, h => by simp [Pipeline.listLt] at h
  | x :: xs, y :: ys, h1, h2 => by
    simp only [Pipeline.listLt] at h1 h2
    cases hxy : AMap.strLt x y <;> cases hyx : AMap.strLt y x <;>
      simp only [hxy, hyx, if_true, if_false, Bool.false_eq_true, reduceCtorEq] at h1 h2
    rw [AMap.strLt_total hxy hyx, listLt_total h1 h2]

theorem pathLt_total {a b : Str × KeyPath} (h1 : Pipeline.pathLt a b = false)
    (h2 : Pipeline.pathLt b a = false) : a = b := by
  obtain ⟨a1, ans, ap⟩ := a
  obtain ⟨b1, bns, bp⟩ := b
  simp only [Pipeline.pathLt] at h1 h2
  cases hxy : AMap.strLt a1 b1 <;> cases hyx : AMap.strLt b1 a1 <;>
    simp only [hxy, hyx, if_true, if_false, Bool.false_eq_true, reduceCtorEq] at h1 h2
  have e1 := AMap.strLt_total hxy hyx
  subst e1
  cases ans with
  | none =>
    cases bns with
    | none => simp only at h1 h2; rw [listLt_total h1 h2]
    | some y => simp at h1
  | some x =>
    cases bns with
    | none => simp at h2
    | some y =>
      simp only at h1 h2
      cases hxy' : AMap.strLt x y <;> cases hyx' : AMap.strLt y x <;>
        simp only [hxy', hyx', if_true, if_false, Bool.false_eq_true, reduceCtorEq] at h1 h2
      rw [AMap.strLt_total hxy' hyx', listLt_total h1 h2]

theorem mem_insertSorted {x y : Str × KeyPath} : ∀ {l : List (Str × KeyPath)},
    x ∈ Pipeline.insertSorted y l ↔ x = y ∨ x ∈ l
  | [] => by simp [Pipeline.insertSorted]
  | z :: zs => by
    simp only [Pipeline.insertSorted]
    split
    · simp
    · rename_i h1
      split
      · simp only [List.mem_cons, mem_insertSorted (l := zs)]
        constructor
        · rintro (h | h | h)
          · exact .inr (.inl h)
          · exact .inl h
          · exact .inr (.inr h)
        · rintro (h | h | h)
          · exact .inr (.inl h)
          · exact .inl h
          · exact .inr (.inr h)
      · rename_i h2
        have e : y = z := pathLt_total (by simpa using h1) (by simpa using h2)
        subst e
        simp only [List.mem_cons]
        constructor
        · exact .inr
        · rintro (h | h)
          · exact .inl h
          · exact h

/-- membership in a fold whose step adds the elements of `g a` -/
theorem mem_foldl_iff {α γ : Type} (f : List γ → α → List γ) (g : α → List γ)
    (hf : ∀ acc a x, x ∈ f acc a ↔ x ∈ acc ∨ x ∈ g a) :
    ∀ (l : List α) (acc : List γ) (x : γ), x ∈ l.foldl f acc ↔ x ∈ acc ∨ ∃ a ∈ l, x ∈ g a
  | [], acc, x => by simp
  | a :: rest, acc, x => by
    simp only [List.foldl_cons, mem_foldl_iff f g hf rest, hf, List.mem_cons]
    constructor
    · rintro ((h | h) | ⟨b, hb, h⟩)
      · exact .inl h
      · exact .inr ⟨a, .inl rfl, h⟩
      · exact .inr ⟨b, .inr hb, h⟩
    · rintro (h | ⟨b, hb | hb, h⟩)
      · exact .inl (.inl h)
      · subst hb; exact .inl (.inr h)
      · exact .inr ⟨b, hb, h⟩

/-- the registered paths are exactly the paths `fkPathsOf` finds in some locale -/
theorem mem_paths (F : Nat) (nss : List NS) (x : Str × KeyPath) :
    x ∈ nss.foldl (fun acc ns =>
        ns.locales.foldl (fun acc l =>
          (Pipeline.fkPathsOf l.name F ⟨ns.key, []⟩ l.keys).foldl
            (fun a p => Pipeline.insertSorted p a) acc) acc) [] ↔
      ∃ ns ∈ nss, ∃ l ∈ ns.locales, x ∈ Pipeline.fkPathsOf l.name F ⟨ns.key, []⟩ l.keys := by
  have h1 : ∀ (ps acc : List (Str × KeyPath)) (x : Str × KeyPath),
      x ∈ ps.foldl (fun a p => Pipeline.insertSorted p a) acc ↔ x ∈ acc ∨ x ∈ ps := by
    intro ps acc x
    rw [mem_foldl_iff (fun a p => Pipeline.insertSorted p a) (fun p => [p])
      (fun acc a x => by simp only [mem_insertSorted, List.mem_singleton]; exact Or.comm)]
    simp
  have h2 : ∀ (k : Option Str) (locs : List Loc) (acc : List (Str × KeyPath)) (x : Str × KeyPath),
      x ∈ locs.foldl (fun acc l =>
          (Pipeline.fkPathsOf l.name F ⟨k, []⟩ l.keys).foldl
            (fun a p => Pipeline.insertSorted p a) acc) acc ↔
        x ∈ acc ∨ ∃ l ∈ locs, x ∈ Pipeline.fkPathsOf l.name F ⟨k, []⟩ l.keys := by
    intro k locs acc x
    exact mem_foldl_iff _ (fun l => Pipeline.fkPathsOf l.name F ⟨k, []⟩ l.keys)
      (fun acc a x => h1 _ acc x) locs acc x
  rw [mem_foldl_iff _ (fun ns => ns.locales.flatMap
      (fun l => Pipeline.fkPathsOf l.name F ⟨ns.key, []⟩ l.keys))
    (fun acc ns x => by rw [h2]; simp only [List.mem_flatMap])]
  simp only [List.not_mem_nil, false_or, List.mem_flatMap]

/-! ### `fkPathsOf` -/

/-- what one entry of a key map contributes to `fkPathsOf` -/
def fkOne (locale : Str) (fuel : Nat) (path : KeyPath) (kv : Str × PV) : List (Str × KeyPath) :=
  match kv.2 with
  | .subkeys (some l) => Pipeline.fkPathsOf locale fuel (Plurals.pushKey path kv.1) l.keys
  | v => if Foreign.hasFK 1000000 v then [(locale, Plurals.pushKey path kv.1)] else []

theorem mem_fkPathsOf_succ (locale : Str) (fuel : Nat) (path : KeyPath) (keys : List (Str × PV))
    (x : Str × KeyPath) :
    x ∈ Pipeline.fkPathsOf locale (fuel + 1) path keys ↔ ∃ kv ∈ keys, x ∈ fkOne locale fuel path kv := by
  simp only [Pipeline.fkPathsOf]
  rw [mem_foldl_iff _ (fkOne locale fuel path)]
  · simp
  · intro acc kv x
    obtain ⟨k, v⟩ := kv
    simp only [fkOne]
    split
    · simp
    · split <;> rename_i h <;> simp [h]

theorem hasFK_subkeys (fuel : Nat) (l : Option Loc) : Foreign.hasFK fuel (.subkeys l) = false := by
  simp [Foreign.hasFK, Foreign.containsFK]

theorem fkOne_group (locale : Str) (fuel : Nat) (path : KeyPath) (k n t : Str) (ks : List (Str × PV))
    (ss : List Str) (c : Nat) :
    fkOne locale fuel path (k, .subkeys (some (.mk n t ks ss c))) =
      Pipeline.fkPathsOf locale fuel (Plurals.pushKey path k) ks := rfl

theorem fkOne_leaf (locale : Str) (fuel : Nat) (path : KeyPath) (k : Str) (v : PV) (h : isGroup v = false) :
    fkOne locale fuel path (k, v) =
      if Foreign.hasFK 1000000 v then [(locale, Plurals.pushKey path k)] else [] := by
  cases v <;> first | rfl | simp [isGroup] at h

theorem gDepth_mem {k : Str} {v : PV} : ∀ {keys : List (Str × PV)}, (k, v) ∈ keys → gDepthV v ≤ gDepthK keys
  | [], h => by simp at h
  | (k', v') :: rest, h => by
    simp only [List.mem_cons, Prod.mk.injEq] at h
    simp only [gDepthK]
    rcases h with ⟨_, e⟩ | h
    · subst e; omega
    · have := gDepth_mem h; omega

/-- completeness of `fkPathsOf` (for trees whose groups are nested less deep than the fuel): every leaf
    in which `hasFK` sees a foreign key is found -/
theorem fkPathsOf_complete (locale : Str) (Q : List Str → PV → Prop) (S : List (Str × KeyPath)) :
    ∀ (fuel : Nat) (path : KeyPath) (pre : List Str) (keys : List (Str × PV)),
      gDepthK keys < fuel → TreeK Q pre keys →
      (∀ x ∈ Pipeline.fkPathsOf locale fuel path keys, x ∈ S) →
      TreeK (fun q v => Foreign.hasFK 1000000 v = true → (locale, (⟨path.ns, q⟩ : KeyPath)) ∈ S)
        path.path keys := by
  intro fuel
  induction fuel with
  | zero => intro _ _ _ h; omega
  | succ fuel ih =>
    intro path pre keys hd hq hS
    rw [TreeK_iff] at hq ⊢
    intro kv hkv
    obtain ⟨k, v⟩ := kv
    have hq1 := hq _ hkv
    have hS1 : ∀ x ∈ fkOne locale fuel path (k, v), x ∈ S :=
      fun x hx => hS x ((mem_fkPathsOf_succ _ _ _ _ _).mpr ⟨_, hkv, hx⟩)
    have hd1 : gDepthV v < fuel + 1 := Nat.lt_of_le_of_lt (gDepth_mem hkv) hd
    cases hg : isGroup v with
    | false =>
      rw [TreeV_leaf _ _ _ hg]
      intro hfk
      rw [fkOne_leaf _ _ _ _ _ hg, if_pos hfk] at hS1
      exact hS1 _ (List.mem_singleton.mpr rfl)
    | true =>
      cases v with
      | subkeys l =>
        cases l with
        | none => simp [TreeV] at hq1
        | some l =>
          obtain ⟨n, t, ks, ss, c⟩ := l
          simp only [TreeV] at hq1 ⊢
          rw [fkOne_group] at hS1
          simp only [gDepthV] at hd1
          exact ih (Plurals.pushKey path k) _ ks (by omega) hq1 hS1
      | _ => simp [isGroup] at hg

theorem get?_of_mem_sorted {α} : ∀ (m : List (Str × α)), Sorted m → ∀ p ∈ m, AMap.get? p.1 m = some p.2
  | [], _, p, hp => by cases hp
  | (k', v') :: rest, h, p, hp => by
    unfold Sorted at h
    rw [List.pairwise_cons] at h
    rcases List.mem_cons.mp hp with rfl | hp
    · simp [AMap.get?]
    · have hlt := h.1 p hp
      have : k' ≠ p.1 := by
        intro e; rw [e, AMap.strLt_irrefl] at hlt; cases hlt
      simp only [AMap.get?, beq_iff_eq, this, if_false]
      exact get?_of_mem_sorted rest h.2 p hp

/-- soundness of `fkPathsOf` on a tree sorted at every depth: every path found is the path of a leaf -/
theorem fkPathsOf_sound (locale : Str) : ∀ (fuel : Nat) (path : KeyPath) (keys : List (Str × PV)),
    Sorted keys → SortedK keys → ∀ x ∈ Pipeline.fkPathsOf locale fuel path keys,
      ∃ q v, x = (locale, (⟨path.ns, path.path ++ q⟩ : KeyPath)) ∧
        World.locGet keys q = .ok (some v) ∧ isGroup v = false := by
  intro fuel
  induction fuel with
  | zero => intro _ _ _ _ x hx; simp [Pipeline.fkPathsOf] at hx
  | succ fuel ih =>
    intro path keys hs hsk x hx
    obtain ⟨kv, hkv, hx⟩ := (mem_fkPathsOf_succ _ _ _ _ _).mp hx
    obtain ⟨k, v⟩ := kv
    have hget : AMap.get? k keys = some v := get?_of_mem_sorted keys hs _ hkv
    have hsv : SortedV v := (SortedK_iff keys).mp hsk _ hkv
    cases hg : isGroup v with
    | false =>
      rw [fkOne_leaf _ _ _ _ _ hg] at hx
      split at hx
      · simp only [List.mem_singleton] at hx
        refine ⟨[k], v, hx, ?_, hg⟩
        simp only [World.locGet, hget]
      · simp at hx
    | true =>
      cases v with
      | subkeys l =>
        cases l with
        | none =>
          have : fkOne locale fuel path (k, .subkeys none) =
              if Foreign.hasFK 1000000 (.subkeys none) then [(locale, Plurals.pushKey path k)] else [] := rfl
          rw [this, hasFK_subkeys] at hx
          simp at hx
        | some l =>
          obtain ⟨n, t, ks, ss, c⟩ := l
          rw [fkOne_group] at hx
          simp only [SortedV] at hsv
          obtain ⟨q', v', hxe, hl, hgv⟩ := ih (Plurals.pushKey path k) ks hsv.1 hsv.2 x hx
          refine ⟨k :: q', v', ?_, ?_, hgv⟩
          · rw [hxe]; simp [Plurals.pushKey]
          · cases q' with
            | nil => simp [World.locGet] at hl
            | cons k2 rest =>
              rw [World.locGet]
              · simp only [hget]; exact hl
              · simp
      | _ => simp [isGroup] at hg

end PP
open PP

/-! ### the invariant after `parseRaw` -/

structure ParsedOK (inp : Pipeline.Input) (w : World) (paths : List (Str × KeyPath)) : Prop where
  namespaced : w.namespaced = inp.cfg.namespaces.isSome
  nsKeys : w.nss.map NS.key = (match inp.cfg.namespaces with | some l => l.map some | none => [none])
  names : ∀ ns ∈ w.nss, ns.locales.map Loc.name = inp.cfg.locales
  sorted : ∀ ns ∈ w.nss, ∀ l ∈ ns.locales, SortedTree l.keys
  raw : ∀ ns ∈ w.nss, ∀ l ∈ ns.locales, TreeK (fun _ v => Raw v = true) [] l.keys
  /-- every leaf in which `hasFK` sees a foreign key is registered (groups nested deeper than the
      fuel of `fkPathsOf` excepted) -/
  registered : ∀ ns ∈ w.nss, ∀ l ∈ ns.locales, gDepthK l.keys < 1000000 →
      TreeK (fun q v => Foreign.hasFK 1000000 v = true → (l.name, (⟨ns.key, q⟩ : KeyPath)) ∈ paths) [] l.keys
  /-- every registered path is the path of a leaf of the world -/
  sound : ∀ x ∈ paths, ∃ ns ∈ w.nss, ∃ l ∈ ns.locales, l.name = x.1 ∧ x.2.ns = ns.key ∧
      ∃ v, World.locGet l.keys x.2.path = .ok (some v) ∧ isGroup v = false

theorem parseRaw_ok (inp : Pipeline.Input) (w : World) (paths : List (Str × KeyPath))
    (h : Pipeline.parseRaw inp = .ok (w, paths)) : ParsedOK inp w paths := by
  unfold Pipeline.parseRaw at h
  simp only at h
  split at h
  · simp at h
  · simp at h
  rename_i nss hnss
  simp only [Res.ok.injEq, Prod.mk.injEq] at h
  obtain ⟨hw, hp⟩ := h
  subst hw
  have hall := decodeAll_ok inp _ nss hnss
  have hloc : ∀ ns ∈ nss, ∀ l ∈ ns.locales, ∃ name j, Decode.locale name j = .ok l :=
    fun ns hns l hl => (decodeNs_ok inp ns.key _ _ (hall.2 ns hns)).2 l hl
  have hmem := fun x => mem_paths 1000000 nss x
  rw [hp] at hmem
  refine ⟨rfl, hall.1, ?_, ?_, ?_, ?_, ?_⟩
  · intro ns hns
    exact (decodeNs_ok inp ns.key _ _ (hall.2 ns hns)).1
  · intro ns hns l hl
    obtain ⟨name, j, hj⟩ := hloc ns hns l hl
    exact (locale_ok name j l hj).2.1
  · intro ns hns l hl
    obtain ⟨name, j, hj⟩ := hloc ns hns l hl
    exact (locale_ok name j l hj).2.2
  · intro ns hns l hl hd
    obtain ⟨name, j, hj⟩ := hloc ns hns l hl
    exact fkPathsOf_complete l.name _ paths 1000000 ⟨ns.key, []⟩ [] l.keys hd (locale_ok name j l hj).2.2
      (fun x hx => (hmem x).mpr ⟨ns, hns, l, hl, hx⟩)
  · intro x hx
    obtain ⟨ns, hns, l, hl, hx⟩ := (hmem x).mp hx
    obtain ⟨name, j, hj⟩ := hloc ns hns l hl
    have hs := (locale_ok name j l hj).2.1
    obtain ⟨q, v, hxe, hg, hv⟩ := fkPathsOf_sound l.name 1000000 ⟨ns.key, []⟩ l.keys hs.1 hs.2 x hx
    refine ⟨ns, hns, l, hl, ?_, ?_, v, ?_, hv⟩
    · rw [hxe]
    · rw [hxe]
    · rw [hxe]; simpa using hg

end I18nVerif.PipeInv
