import I18nVerif.Model.Reduce
import I18nVerif.Spec.Eval
import I18nVerif.Spec.Reduce
/-!
Helper lemmas about `Reduce.reduce` (flattening of blocs) for C01.
-/
namespace I18nVerif.Reduce
open I18nVerif Eval

/-! ### literals -/

theorem Lit.join_display (a b : Lit) : (a.join b).display = a.display ++ b.display := by
  cases a <;> simp [Lit.join, Lit.display]

theorem Lit.display_of_isEmptyStr {l : Lit} (h : l.isEmptyStr = true) : l.display = [] := by
  cases l <;> simp_all [Lit.isEmptyStr, Lit.display]

/-! ### `evalL` and list surgery -/

theorem evalL_append (ρ : Env) (a b : List PV) : evalL ρ (a ++ b) = evalL ρ a ++ evalL ρ b := by
  induction a with
  | nil => simp [evalL]
  | cons x xs ih => simp [evalL, ih]

theorem evalL_singleton (ρ : Env) (x : PV) : evalL ρ [x] = eval ρ x := by
  simp [evalL]

theorem eq_dropLast_append_of_getLast? {α} {l : List α} {x : α} (h : l.getLast? = some x) :
    l = l.dropLast ++ [x] := by
  have hne : l ≠ [] := by intro e; subst e; simp at h
  have := List.dropLast_concat_getLast hne
  rw [List.getLast?_eq_some_getLast hne] at h
  simp at h
  rw [h] at this
  exact this.symm

theorem evalL_pushLit (ρ : Env) (l : Lit) (acc : List PV) :
    evalL ρ (pushLit l acc) = evalL ρ acc ++ l.display := by
  unfold pushLit
  split
  · rename_i last h
    have h' := eq_dropLast_append_of_getLast? h
    conv => rhs; rw [h']
    simp [evalL_append, evalL, eval, Lit.join_display]
  · simp [evalL_append, evalL, eval]

theorem eval_empty (ρ : Env) : eval ρ PV.empty = [] := by
  simp [PV.empty, eval, Lit.display]

theorem eval_wrapBloc (ρ : Env) (l : List PV) : eval ρ (wrapBloc l) = evalL ρ l := by
  unfold wrapBloc
  split
  · simp [eval_empty, evalL]
  · simp [evalL]
  · simp [eval]

/-! ### soundness of `reduce` -/

mutual
theorem reduce_sound (ρ : Env) : ∀ (v v' : PV), reduce v = .ok v' → eval ρ v' = eval ρ v
  | .lit l, v', h => by simp [reduce] at h; subst h; rfl
  | .var k f, v', h => by simp [reduce] at h; subst h; rfl
  | .dflt, v', h => by simp [reduce] at h; subst h; rfl
  | .fk (.set inner), v', h => by
    simp only [reduce] at h
    simp only [eval]
    exact reduce_sound ρ inner v' h
  | .fk (.notSet _ _), v', h => by simp [reduce] at h
  | .ranges ck t bs, v', h => by
    simp only [reduce] at h
    split at h <;> try (simp at h; done)
    rename_i bs' hb
    simp at h; subst h
    simp only [eval]
    exact reduceBranches_sound ρ bs bs' hb _
  | .comp k inner, v', h => by
    simp only [reduce] at h
    split at h <;> try (simp at h; done)
    rename_i i hi
    simp at h; subst h
    simp only [eval]
    rw [reduce_sound ρ inner i hi]
  | .subkeys (some (.mk n t keys s c)), v', h => by
    simp only [reduce] at h
    split at h <;> try (simp at h; done)
    simp at h; subst h
    simp [eval]
  | .subkeys none, v', h => by simp [reduce] at h
  | .bloc items, v', h => by
    simp only [reduce] at h
    split at h <;> try (simp at h; done)
    rename_i acc hacc
    simp at h; subst h
    have := reduceIntoL_sound ρ items [] acc hacc
    simp only [eval, eval_wrapBloc, this, evalL, List.nil_append]
  | .plurals r ck other forms, v', h => by
    simp only [reduce] at h
    split at h <;> try (simp at h; done)
    rename_i fs o hfs ho
    simp at h; subst h
    simp only [eval]
    rw [reduceForms_sound ρ forms fs hfs, reduce_sound ρ other o ho]

theorem reduceInto_sound (ρ : Env) : ∀ (v : PV) (acc acc' : List PV),
    reduceInto v acc = .ok acc' → evalL ρ acc' = evalL ρ acc ++ eval ρ v
  | .dflt, acc, acc', h => by simp [reduceInto] at h; subst h; simp [eval]
  | .subkeys _, acc, acc', h => by simp [reduceInto] at h; subst h; simp [eval]
  | .ranges ck t bs, acc, acc', h => by
    simp only [reduceInto] at h
    split at h <;> try (simp at h; done)
    rename_i bs' hb
    simp at h; subst h
    simp only [evalL_append, evalL_singleton, eval]
    rw [reduceBranches_sound ρ bs bs' hb]
  | .plurals r ck other forms, acc, acc', h => by
    simp only [reduceInto] at h
    split at h <;> try (simp at h; done)
    rename_i fs o hfs ho
    simp at h; subst h
    simp only [evalL_append, evalL_singleton, eval]
    rw [reduceForms_sound ρ forms fs hfs, reduce_sound ρ other o ho]
  | .fk (.set inner), acc, acc', h => by
    simp only [reduceInto] at h
    simp only [eval]
    exact reduceInto_sound ρ inner acc acc' h
  | .fk (.notSet _ _), acc, acc', h => by simp [reduceInto] at h
  | .lit l, acc, acc', h => by
    simp only [reduceInto] at h
    split at h
    · rename_i he
      simp at h; subst h
      simp [eval, Lit.display_of_isEmptyStr he]
    · simp at h; subst h
      simp [evalL_pushLit, eval]
  | .var k f, acc, acc', h => by
    simp [reduceInto] at h; subst h
    simp [evalL_append, evalL_singleton]
  | .comp k inner, acc, acc', h => by
    simp only [reduceInto] at h
    split at h <;> try (simp at h; done)
    rename_i i hi
    simp at h; subst h
    simp only [evalL_append, evalL_singleton, eval]
    rw [reduce_sound ρ inner i hi]
  | .bloc items, acc, acc', h => by
    simp only [reduceInto] at h
    simp only [eval]
    exact reduceIntoL_sound ρ items acc acc' h

theorem reduceIntoL_sound (ρ : Env) : ∀ (xs acc acc' : List PV),
    reduceIntoL xs acc = .ok acc' → evalL ρ acc' = evalL ρ acc ++ evalL ρ xs
  | [], acc, acc', h => by simp [reduceIntoL] at h; subst h; simp [evalL]
  | x :: xs, acc, acc', h => by
    simp only [reduceIntoL] at h
    split at h <;> try (simp at h; done)
    rename_i a ha
    rw [reduceIntoL_sound ρ xs a acc' h, reduceInto_sound ρ x acc a ha]
    simp [evalL]

theorem reduceBranches_sound (ρ : Env) : ∀ (bs bs' : List (Range × PV)),
    reduceBranches bs = .ok bs' → ∀ c, evalBranches ρ c bs' = evalBranches ρ c bs
  | [], bs', h => by simp [reduceBranches] at h; subst h; intro c; rfl
  | (r, v) :: rest, bs', h => by
    simp only [reduceBranches] at h
    split at h <;> try (simp at h; done)
    rename_i v' rest' hv hr
    simp at h; subst h
    intro c
    simp only [evalBranches]
    rw [reduce_sound ρ v v' hv, reduceBranches_sound ρ rest rest' hr c]

theorem reduceForms_sound (ρ : Env) : ∀ (fs fs' : List (Form × PV)),
    reduceForms fs = .ok fs' → ∀ f, evalForm ρ f fs' = evalForm ρ f fs
  | [], fs', h => by simp [reduceForms] at h; subst h; intro f; rfl
  | (g, v) :: rest, fs', h => by
    simp only [reduceForms] at h
    split at h <;> try (simp at h; done)
    rename_i v' rest' hv hr
    simp at h; subst h
    intro f
    simp only [evalForm]
    rw [reduce_sound ρ v v' hv, reduceForms_sound ρ rest rest' hr f]
end

/-! ### `reduce` never returns an error -/

mutual
theorem reduce_noErr : ∀ (v : PV) (e : String), reduce v ≠ .err e
  | .lit l, e, h => by simp [reduce] at h
  | .var k f, e, h => by simp [reduce] at h
  | .dflt, e, h => by simp [reduce] at h
  | .fk (.set inner), e, h => by
    simp only [reduce] at h
    exact reduce_noErr inner e h
  | .fk (.notSet _ _), e, h => by simp [reduce] at h
  | .ranges ck t bs, e, h => by
    simp only [reduce] at h
    split at h <;> try (simp at h; done)
    rename_i e' hb
    exact reduceBranches_noErr bs e' hb
  | .comp k inner, e, h => by
    simp only [reduce] at h
    split at h <;> try (simp at h; done)
    rename_i e' hb
    exact reduce_noErr inner e' hb
  | .subkeys (some (.mk n t keys s c)), e, h => by
    simp only [reduce] at h
    split at h <;> try (simp at h; done)
    rename_i e' hb
    exact reduceKeys_noErr keys e' hb
  | .subkeys none, e, h => by simp [reduce] at h
  | .bloc items, e, h => by
    simp only [reduce] at h
    split at h <;> try (simp at h; done)
    rename_i e' hb
    exact reduceIntoL_noErr items [] e' hb
  | .plurals r ck other forms, e, h => by
    simp only [reduce] at h
    split at h <;> try (simp at h; done)
    · exact absurd ‹reduceForms forms = .err _› (reduceForms_noErr forms _)
    · exact absurd ‹reduce other = .err _› (reduce_noErr other _)

theorem reduceInto_noErr : ∀ (v : PV) (acc : List PV) (e : String), reduceInto v acc ≠ .err e
  | .dflt, acc, e, h => by simp [reduceInto] at h
  | .subkeys _, acc, e, h => by simp [reduceInto] at h
  | .ranges ck t bs, acc, e, h => by
    simp only [reduceInto] at h
    split at h <;> try (simp at h; done)
    rename_i e' hb
    exact reduceBranches_noErr bs e' hb
  | .plurals r ck other forms, acc, e, h => by
    simp only [reduceInto] at h
    split at h <;> try (simp at h; done)
    · exact absurd ‹reduceForms forms = .err _› (reduceForms_noErr forms _)
    · exact absurd ‹reduce other = .err _› (reduce_noErr other _)
  | .fk (.set inner), acc, e, h => by
    simp only [reduceInto] at h
    exact reduceInto_noErr inner acc e h
  | .fk (.notSet _ _), acc, e, h => by simp [reduceInto] at h
  | .lit l, acc, e, h => by
    simp only [reduceInto] at h
    split at h <;> simp at h
  | .var k f, acc, e, h => by simp [reduceInto] at h
  | .comp k inner, acc, e, h => by
    simp only [reduceInto] at h
    split at h <;> try (simp at h; done)
    rename_i e' hb
    exact reduce_noErr inner e' hb
  | .bloc items, acc, e, h => by
    simp only [reduceInto] at h
    exact reduceIntoL_noErr items acc e h

theorem reduceIntoL_noErr : ∀ (xs acc : List PV) (e : String), reduceIntoL xs acc ≠ .err e
  | [], acc, e, h => by simp [reduceIntoL] at h
  | x :: xs, acc, e, h => by
    simp only [reduceIntoL] at h
    split at h <;> try (simp at h; done)
    · exact reduceIntoL_noErr xs _ e h
    · rename_i e' hb; exact reduceInto_noErr x acc e' hb

theorem reduceBranches_noErr : ∀ (bs : List (Range × PV)) (e : String), reduceBranches bs ≠ .err e
  | [], e, h => by simp [reduceBranches] at h
  | (r, v) :: rest, e, h => by
    simp only [reduceBranches] at h
    split at h <;> try (simp at h; done)
    · exact absurd ‹reduce v = .err _› (reduce_noErr v _)
    · exact absurd ‹reduceBranches rest = .err _› (reduceBranches_noErr rest _)

theorem reduceForms_noErr : ∀ (fs : List (Form × PV)) (e : String), reduceForms fs ≠ .err e
  | [], e, h => by simp [reduceForms] at h
  | (r, v) :: rest, e, h => by
    simp only [reduceForms] at h
    split at h <;> try (simp at h; done)
    · exact absurd ‹reduce v = .err _› (reduce_noErr v _)
    · exact absurd ‹reduceForms rest = .err _› (reduceForms_noErr rest _)

theorem reduceKeys_noErr : ∀ (ks : List (Str × PV)) (e : String), reduceKeys ks ≠ .err e
  | [], e, h => by simp [reduceKeys] at h
  | (r, v) :: rest, e, h => by
    simp only [reduceKeys] at h
    split at h <;> try (simp at h; done)
    · exact absurd ‹reduce v = .err _› (reduce_noErr v _)
    · exact absurd ‹reduceKeys rest = .err _› (reduceKeys_noErr rest _)
end

/-! ### `reduce` succeeds on clean values -/

mutual
theorem reduce_ok_of_clean : ∀ (v : PV), Clean v = true → ∃ v', reduce v = .ok v'
  | .lit l, _ => by simp only [reduce]; exact ⟨_, rfl⟩
  | .var k f, _ => by simp only [reduce]; exact ⟨_, rfl⟩
  | .dflt, _ => by simp only [reduce]; exact ⟨_, rfl⟩
  | .fk (.set inner), h => by
    simp only [Clean] at h
    simp only [reduce]
    exact reduce_ok_of_clean inner h
  | .fk (.notSet _ _), h => by simp [Clean] at h
  | .ranges ck t bs, h => by
    simp only [Clean] at h
    obtain ⟨bs', hb⟩ := reduceBranches_ok_of_clean bs h
    simp only [reduce, hb]; exact ⟨_, rfl⟩
  | .comp k inner, h => by
    simp only [Clean] at h
    obtain ⟨i, hi⟩ := reduce_ok_of_clean inner h
    simp only [reduce, hi]; exact ⟨_, rfl⟩
  | .subkeys (some (.mk n t keys s c)), h => by
    simp only [Clean] at h
    obtain ⟨ks, hk⟩ := reduceKeys_ok_of_clean keys h
    simp only [reduce, hk]; exact ⟨_, rfl⟩
  | .subkeys none, h => by simp [Clean] at h
  | .bloc items, h => by
    simp only [Clean] at h
    obtain ⟨acc, ha⟩ := reduceIntoL_ok_of_clean items h []
    simp only [reduce, ha]; exact ⟨_, rfl⟩
  | .plurals r ck other forms, h => by
    simp only [Clean, Bool.and_eq_true] at h
    obtain ⟨o, ho⟩ := reduce_ok_of_clean other h.1
    obtain ⟨fs, hf⟩ := reduceForms_ok_of_clean forms h.2
    simp only [reduce, ho, hf]; exact ⟨_, rfl⟩

theorem reduceInto_ok_of_clean : ∀ (v : PV), Clean v = true → ∀ acc, ∃ acc', reduceInto v acc = .ok acc'
  | .dflt, _, acc => by simp only [reduceInto]; exact ⟨_, rfl⟩
  | .subkeys _, _, acc => by simp only [reduceInto]; exact ⟨_, rfl⟩
  | .ranges ck t bs, h, acc => by
    simp only [Clean] at h
    obtain ⟨bs', hb⟩ := reduceBranches_ok_of_clean bs h
    simp only [reduceInto, hb]; exact ⟨_, rfl⟩
  | .plurals r ck other forms, h, acc => by
    simp only [Clean, Bool.and_eq_true] at h
    obtain ⟨o, ho⟩ := reduce_ok_of_clean other h.1
    obtain ⟨fs, hf⟩ := reduceForms_ok_of_clean forms h.2
    simp only [reduceInto, ho, hf]; exact ⟨_, rfl⟩
  | .fk (.set inner), h, acc => by
    simp only [Clean] at h
    simp only [reduceInto]
    exact reduceInto_ok_of_clean inner h acc
  | .fk (.notSet _ _), h, acc => by simp [Clean] at h
  | .lit l, _, acc => by
    simp only [reduceInto]
    split <;> exact ⟨_, rfl⟩
  | .var k f, _, acc => by simp only [reduceInto]; exact ⟨_, rfl⟩
  | .comp k inner, h, acc => by
    simp only [Clean] at h
    obtain ⟨i, hi⟩ := reduce_ok_of_clean inner h
    simp only [reduceInto, hi]; exact ⟨_, rfl⟩
  | .bloc items, h, acc => by
    simp only [Clean] at h
    simp only [reduceInto]
    exact reduceIntoL_ok_of_clean items h acc

theorem reduceIntoL_ok_of_clean : ∀ (xs : List PV), CleanL xs = true → ∀ acc, ∃ acc', reduceIntoL xs acc = .ok acc'
  | [], _, acc => by simp only [reduceIntoL]; exact ⟨_, rfl⟩
  | x :: xs, h, acc => by
    simp only [CleanL, Bool.and_eq_true] at h
    obtain ⟨a, ha⟩ := reduceInto_ok_of_clean x h.1 acc
    obtain ⟨a', ha'⟩ := reduceIntoL_ok_of_clean xs h.2 a
    exact ⟨a', by simp only [reduceIntoL, ha, ha']⟩

theorem reduceBranches_ok_of_clean : ∀ (bs : List (Range × PV)), CleanB bs = true → ∃ bs', reduceBranches bs = .ok bs'
  | [], _ => by simp only [reduceBranches]; exact ⟨_, rfl⟩
  | (r, v) :: rest, h => by
    simp only [CleanB, Bool.and_eq_true] at h
    obtain ⟨v', hv⟩ := reduce_ok_of_clean v h.1
    obtain ⟨r', hr⟩ := reduceBranches_ok_of_clean rest h.2
    simp only [reduceBranches, hv, hr]; exact ⟨_, rfl⟩

theorem reduceForms_ok_of_clean : ∀ (fs : List (Form × PV)), CleanF fs = true → ∃ fs', reduceForms fs = .ok fs'
  | [], _ => by simp only [reduceForms]; exact ⟨_, rfl⟩
  | (r, v) :: rest, h => by
    simp only [CleanF, Bool.and_eq_true] at h
    obtain ⟨v', hv⟩ := reduce_ok_of_clean v h.1
    obtain ⟨r', hr⟩ := reduceForms_ok_of_clean rest h.2
    simp only [reduceForms, hv, hr]; exact ⟨_, rfl⟩

theorem reduceKeys_ok_of_clean : ∀ (ks : List (Str × PV)), CleanK ks = true → ∃ ks', reduceKeys ks = .ok ks'
  | [], _ => by simp only [reduceKeys]; exact ⟨_, rfl⟩
  | (r, v) :: rest, h => by
    simp only [CleanK, Bool.and_eq_true] at h
    obtain ⟨v', hv⟩ := reduce_ok_of_clean v h.1
    obtain ⟨r', hr⟩ := reduceKeys_ok_of_clean rest h.2
    simp only [reduceKeys, hv, hr]; exact ⟨_, rfl⟩
end


/-! ### the shape of a reduced value -/

theorem natToStr_ne_nil (n : Nat) : Str.natToStr n ≠ [] := by
  unfold Str.natToStr
  show (Nat.repr n).toList ≠ []
  rw [Nat.toList_repr]
  exact Nat.toDigits_ne_nil

theorem Lit.display_ne_nil {l : Lit} (h : l.isEmptyStr = false) : l.display ≠ [] := by
  cases l with
  | str s i => simpa [Lit.isEmptyStr, Lit.display] using h
  | signed v =>
    simp only [Lit.display, Str.intToStr]
    split
    · simp
    · exact natToStr_ne_nil _
  | unsigned v => exact natToStr_ne_nil v
  | float d =>
    simp only [Lit.display, Dec.display]
    split
    · simp [natToStr_ne_nil]
    · simp
  | bool b => cases b <;> simp [Lit.display]

theorem Lit.join_isEmptyStr {a : Lit} (b : Lit) (h : a.isEmptyStr = false) :
    (a.join b).isEmptyStr = false := by
  have := Lit.display_ne_nil h
  cases a <;> simp_all [Lit.join, Lit.isEmptyStr, Lit.display]

def lastIsLit (l : List PV) : Bool :=
  match l.getLast? with
  | some y => isLit y
  | none => false

theorem noAdjLit_concat : ∀ (acc : List PV) (x : PV),
    noAdjLit (acc ++ [x]) = (noAdjLit acc && !(lastIsLit acc && isLit x))
  | [], x => by simp [noAdjLit, lastIsLit]
  | [a], x => by simp [noAdjLit, lastIsLit]
  | a :: b :: rest, x => by
    have ih := noAdjLit_concat (b :: rest) x
    simp only [List.cons_append] at ih
    simp only [List.cons_append, noAdjLit, ih]
    have : lastIsLit (a :: b :: rest) = lastIsLit (b :: rest) := by
      simp [lastIsLit, List.getLast?_cons_cons]
    rw [this, Bool.and_assoc]

theorem ReducedL_append : ∀ (a b : List PV), ReducedL (a ++ b) = (ReducedL a && ReducedL b)
  | [], b => by simp [ReducedL]
  | x :: xs, b => by simp [ReducedL, ReducedL_append xs b, Bool.and_assoc]

/-- invariant of the accumulator of `reduce_into` -/
structure Good (acc : List PV) : Prop where
  items : acc.all itemOk = true
  adj : noAdjLit acc = true
  red : ReducedL acc = true

theorem Good.nil : Good [] := ⟨rfl, rfl, rfl⟩

theorem Good.concat {acc : List PV} {x : PV} (g : Good acc) (hx : itemOk x = true) (hr : Reduced x = true)
    (hl : (lastIsLit acc && isLit x) = false) : Good (acc ++ [x]) := by
  refine ⟨?_, ?_, ?_⟩
  · simp only [List.all_append, g.items, List.all_cons, hx, List.all_nil, Bool.and_self]
  · rw [noAdjLit_concat, g.adj, hl]; rfl
  · rw [ReducedL_append, g.red]; simp [ReducedL, hr]

theorem Good.concat_nonlit {acc : List PV} {x : PV} (g : Good acc) (hx : itemOk x = true) (hr : Reduced x = true)
    (hl : isLit x = false) : Good (acc ++ [x]) :=
  g.concat hx hr (by simp [hl])

theorem Good.pushLit {acc : List PV} (g : Good acc) {l : Lit} (hl : l.isEmptyStr = false) :
    Good (pushLit l acc) := by
  unfold Reduce.pushLit
  split
  · rename_i last h
    have h' := eq_dropLast_append_of_getLast? h
    generalize acc.dropLast = dl at h'
    subst h'
    obtain ⟨gi, ga, gr⟩ := g
    rw [noAdjLit_concat] at ga
    rw [ReducedL_append] at gr
    simp only [List.all_append, List.all_cons, List.all_nil, Bool.and_true, Bool.and_eq_true, itemOk,
      Bool.not_eq_true'] at gi
    refine ⟨?_, ?_, ?_⟩
    · simp only [List.all_append, gi.1, List.all_cons, itemOk, Lit.join_isEmptyStr l gi.2, List.all_nil]; rfl
    · rw [noAdjLit_concat]; simpa [isLit] using ga
    · rw [ReducedL_append]; simp only [Bool.and_eq_true] at gr; simp [gr.1, ReducedL, Reduced]
  · rename_i hlast
    apply g.concat
    · simp [itemOk, hl]
    · simp [Reduced]
    · have : lastIsLit acc = false := by
        unfold lastIsLit
        cases hg : acc.getLast? with
        | none => rfl
        | some y =>
          cases y <;> simp [isLit]
          exact hlast _ hg
      simp [this]

theorem Reduced_wrapBloc : ∀ {acc : List PV}, Good acc → Reduced (wrapBloc acc) = true
  | [], _ => by simp [wrapBloc, PV.empty, Reduced]
  | [one], g => by
    have := g.red
    simpa [wrapBloc, ReducedL] using this
  | a :: b :: rest, g => by
    simp only [wrapBloc, Reduced, g.items, g.adj, g.red, Bool.and_true, decide_eq_true_eq]
    simp

mutual
theorem reduce_reduced : ∀ (v v' : PV), reduce v = .ok v' → Reduced v' = true
  | .lit l, v', h => by simp [reduce] at h; subst h; rfl
  | .var k f, v', h => by simp [reduce] at h; subst h; rfl
  | .dflt, v', h => by simp [reduce] at h; subst h; rfl
  | .fk (.set inner), v', h => by
    simp only [reduce] at h
    exact reduce_reduced inner v' h
  | .fk (.notSet _ _), v', h => by simp [reduce] at h
  | .ranges ck t bs, v', h => by
    simp only [reduce] at h
    split at h <;> try (simp at h; done)
    rename_i bs' hb
    simp at h; subst h
    simp only [Reduced]
    exact reduceBranches_reduced bs bs' hb
  | .comp k inner, v', h => by
    simp only [reduce] at h
    split at h <;> try (simp at h; done)
    rename_i i hi
    simp at h; subst h
    simp only [Reduced]
    exact reduce_reduced inner i hi
  | .subkeys (some (.mk n t keys s c)), v', h => by
    simp only [reduce] at h
    split at h <;> try (simp at h; done)
    rename_i ks hk
    simp at h; subst h
    simp only [Reduced]
    exact reduceKeys_reduced keys ks hk
  | .subkeys none, v', h => by simp [reduce] at h
  | .bloc items, v', h => by
    simp only [reduce] at h
    split at h <;> try (simp at h; done)
    rename_i acc hacc
    simp at h; subst h
    exact Reduced_wrapBloc (reduceIntoL_good items [] acc hacc Good.nil)
  | .plurals r ck other forms, v', h => by
    simp only [reduce] at h
    split at h <;> try (simp at h; done)
    rename_i fs o hfs ho
    simp at h; subst h
    simp only [Reduced, reduce_reduced other o ho, reduceForms_reduced forms fs hfs, Bool.and_self]

theorem reduceInto_good : ∀ (v : PV) (acc acc' : List PV),
    reduceInto v acc = .ok acc' → Good acc → Good acc'
  | .dflt, acc, acc', h, g => by simp [reduceInto] at h; subst h; exact g
  | .subkeys _, acc, acc', h, g => by simp [reduceInto] at h; subst h; exact g
  | .ranges ck t bs, acc, acc', h, g => by
    simp only [reduceInto] at h
    split at h <;> try (simp at h; done)
    rename_i bs' hb
    simp at h; subst h
    exact g.concat_nonlit rfl (by simp only [Reduced]; exact reduceBranches_reduced bs bs' hb) rfl
  | .plurals r ck other forms, acc, acc', h, g => by
    simp only [reduceInto] at h
    split at h <;> try (simp at h; done)
    rename_i fs o hfs ho
    simp at h; subst h
    exact g.concat_nonlit rfl
      (by simp only [Reduced, reduce_reduced other o ho, reduceForms_reduced forms fs hfs, Bool.and_self]) rfl
  | .fk (.set inner), acc, acc', h, g => by
    simp only [reduceInto] at h
    exact reduceInto_good inner acc acc' h g
  | .fk (.notSet _ _), acc, acc', h, g => by simp [reduceInto] at h
  | .lit l, acc, acc', h, g => by
    simp only [reduceInto] at h
    split at h
    · simp at h; subst h; exact g
    · rename_i he
      simp at h; subst h
      exact g.pushLit (by simpa using he)
  | .var k f, acc, acc', h, g => by
    simp [reduceInto] at h; subst h
    exact g.concat_nonlit rfl rfl rfl
  | .comp k inner, acc, acc', h, g => by
    simp only [reduceInto] at h
    split at h <;> try (simp at h; done)
    rename_i i hi
    simp at h; subst h
    exact g.concat_nonlit rfl (by simp only [Reduced]; exact reduce_reduced inner i hi) rfl
  | .bloc items, acc, acc', h, g => by
    simp only [reduceInto] at h
    exact reduceIntoL_good items acc acc' h g

theorem reduceIntoL_good : ∀ (xs acc acc' : List PV),
    reduceIntoL xs acc = .ok acc' → Good acc → Good acc'
  | [], acc, acc', h, g => by simp [reduceIntoL] at h; subst h; exact g
  | x :: xs, acc, acc', h, g => by
    simp only [reduceIntoL] at h
    split at h <;> try (simp at h; done)
    rename_i a ha
    exact reduceIntoL_good xs a acc' h (reduceInto_good x acc a ha g)

theorem reduceBranches_reduced : ∀ (bs bs' : List (Range × PV)),
    reduceBranches bs = .ok bs' → ReducedB bs' = true
  | [], bs', h => by simp [reduceBranches] at h; subst h; rfl
  | (r, v) :: rest, bs', h => by
    simp only [reduceBranches] at h
    split at h <;> try (simp at h; done)
    rename_i v' rest' hv hr
    simp at h; subst h
    simp only [ReducedB, reduce_reduced v v' hv, reduceBranches_reduced rest rest' hr, Bool.and_self]

theorem reduceForms_reduced : ∀ (fs fs' : List (Form × PV)),
    reduceForms fs = .ok fs' → ReducedF fs' = true
  | [], fs', h => by simp [reduceForms] at h; subst h; rfl
  | (g, v) :: rest, fs', h => by
    simp only [reduceForms] at h
    split at h <;> try (simp at h; done)
    rename_i v' rest' hv hr
    simp at h; subst h
    simp only [ReducedF, reduce_reduced v v' hv, reduceForms_reduced rest rest' hr, Bool.and_self]

theorem reduceKeys_reduced : ∀ (ks ks' : List (Str × PV)),
    reduceKeys ks = .ok ks' → ReducedK ks' = true
  | [], ks', h => by simp [reduceKeys] at h; subst h; rfl
  | (g, v) :: rest, ks', h => by
    simp only [reduceKeys] at h
    split at h <;> try (simp at h; done)
    rename_i v' rest' hv hr
    simp at h; subst h
    simp only [ReducedK, reduce_reduced v v' hv, reduceKeys_reduced rest rest' hr, Bool.and_self]
end

end I18nVerif.Reduce
