import I18nVerif.Model.Reduce
import I18nVerif.Spec.Eval
import I18nVerif.Spec.Reduce
/-!
Helper lemmas about `Reduce.reduce` (flattening of blocs) for C01.
-/
namespace I18nVerif.Reduce
open I18nVerif Eval

/-! ### literals -/

theorem Lit.join_display (a b : Lit) : (a.join b).display = a.display ++ b.display := by
  cases a <;> simp [Lit.join, Lit.display]

theorem Lit.display_of_isEmptyStr {l : Lit} (h : l.isEmptyStr = true) : l.display = [] := by
  cases l <;> simp_all [Lit.isEmptyStr, Lit.display]

/-! ### `evalL` and list surgery -/

theorem evalL_append (ρ : Env) (a b : List PV) : evalL ρ (a ++ b) = evalL ρ a ++ evalL ρ b := by
  induction a with
  | nil => simp [evalL]
  | cons x xs ih => simp [evalL, ih]

theorem evalL_singleton (ρ : Env) (x : PV) : evalL ρ [x] = eval ρ x := by
  simp [evalL]

theorem eq_dropLast_append_of_getLast? {α} {l : List α} {x : α} (h : l.getLast? = some x) :
    l = l.dropLast ++ [x] := by
  have hne : l ≠ [] := by intro e; subst e; simp at h
  have := List.dropLast_concat_getLast hne
  rw [List.getLast?_eq_some_getLast hne] at h
  simp at h
  rw [h] at this
  exact this.symm

theorem evalL_pushLit (ρ : Env) (l : Lit) (acc : List PV) :
    evalL ρ (pushLit l acc) = evalL ρ acc ++ l.display := by
  unfold pushLit
  split
  · rename_i last h
    have h' := eq_dropLast_append_of_getLast? h
    conv => rhs; rw [h']
    simp [evalL_append, evalL, eval, Lit.join_display]
  · simp [evalL_append, evalL, eval]

theorem eval_empty (ρ : Env) : eval ρ PV.empty = [] := by
  simp [PV.empty, eval, Lit.display]

theorem eval_wrapBloc (ρ : Env) (l : List PV) : eval ρ (wrapBloc l) = evalL ρ l := by
  unfold wrapBloc
  split
  · simp [eval_empty, evalL]
  · simp [evalL]
  · simp [eval]

/-! ### soundness of `reduce` -/

mutual
theorem reduce_sound (ρ : Env) : ∀ (v v' : PV), reduce v = .ok v' → eval ρ v' = eval ρ v
  | .lit l, v', h => by simp [reduce] at h; subst h; rfl
  | .var k f, v', h => by simp [reduce] at h; subst h; rfl
  | .dflt, v', h => by simp [reduce] at h; subst h; rfl
  | .fk (.set inner), v', h => by
    simp only [reduce] at h
    simp only [eval]
    exact reduce_sound ρ inner v' h
  | .fk (.notSet _ _), v', h => by simp [reduce] at h
  | .ranges ck t bs, v', h => by
    simp only [reduce] at h
    split at h <;> try (simp at h; done)
    rename_i bs' hb
    simp at h; subst h
    simp only [eval]
    exact reduceBranches_sound ρ bs bs' hb _
  | .comp k inner, v', h => by
    simp only [reduce] at h
    split at h <;> try (simp at h; done)
    rename_i i hi
    simp at h; subst h
    simp only [eval]
    rw [reduce_sound ρ inner i hi]
  | .subkeys (some (.mk n t keys s c)), v', h => by
    simp only [reduce] at h
    split at h <;> try (simp at h; done)
    simp at h; subst h
    simp [eval]
  | .subkeys none, v', h => by simp [reduce] at h
  | .bloc items, v', h => by
    simp only [reduce] at h
    split at h <;> try (simp at h; done)
    rename_i acc hacc
    simp at h; subst h
    have := reduceIntoL_sound ρ items [] acc hacc
    simp only [eval, eval_wrapBloc, this, evalL, List.nil_append]
  | .plurals r ck other forms, v', h => by
    simp only [reduce] at h
    split at h <;> try (simp at h; done)
    rename_i fs o hfs ho
    simp at h; subst h
    simp only [eval]
    rw [reduceForms_sound ρ forms fs hfs, reduce_sound ρ other o ho]

theorem reduceInto_sound (ρ : Env) : ∀ (v : PV) (acc acc' : List PV),
    reduceInto v acc = .ok acc' → evalL ρ acc' = evalL ρ acc ++ eval ρ v
  | .dflt, acc, acc', h => by simp [reduceInto] at h; subst h; simp [eval]
  | .subkeys _, acc, acc', h => by simp [reduceInto] at h; subst h; simp [eval]
  | .ranges ck t bs, acc, acc', h => by
    simp only [reduceInto] at h
    split at h <;> try (simp at h; done)
    rename_i bs' hb
    simp at h; subst h
    simp only [evalL_append, evalL_singleton, eval]
    rw [reduceBranches_sound ρ bs bs' hb]
  | .plurals r ck other forms, acc, acc', h => by
    simp only [reduceInto] at h
    split at h <;> try (simp at h; done)
    rename_i fs o hfs ho
    simp at h; subst h
    simp only [evalL_append, evalL_singleton, eval]
    rw [reduceForms_sound ρ forms fs hfs, reduce_sound ρ other o ho]
  | .fk (.set inner), acc, acc', h => by
    simp only [reduceInto] at h
    simp only [eval]
    exact reduceInto_sound ρ inner acc acc' h
  | .fk (.notSet _ _), acc, acc', h => by simp [reduceInto] at h
  | .lit l, acc, acc', h => by
    simp only [reduceInto] at h
    split at h
    · rename_i he
      simp at h; subst h
      simp [eval, Lit.display_of_isEmptyStr he]
    · simp at h; subst h
      simp [evalL_pushLit, eval]
  | .var k f, acc, acc', h => by
    simp [reduceInto] at h; subst h
    simp [evalL_append, evalL_singleton]
  | .comp k inner, acc, acc', h => by
    simp only [reduceInto] at h
    split at h <;> try (simp at h; done)
    rename_i i hi
    simp at h; subst h
    simp only [evalL_append, evalL_singleton, eval]
    rw [reduce_sound ρ inner i hi]
  | .bloc items, acc, acc', h => by
    simp only [reduceInto] at h
    simp only [eval]
    exact reduceIntoL_sound ρ items acc acc' h

theorem reduceIntoL_sound (ρ : Env) : ∀ (xs acc acc' : List PV),
    reduceIntoL xs acc = .ok acc' → evalL ρ acc' = evalL ρ acc ++ evalL ρ xs
  | [], acc, acc', h => by simp [reduceIntoL] at h; subst h; simp [evalL]
  | x :: xs, acc, acc', h => by
    simp only [reduceIntoL] at h
    split at h <;> try (simp at h; done)
    rename_i a ha
    rw [reduceIntoL_sound ρ xs a acc' h, reduceInto_sound ρ x acc a ha]
    simp [evalL]

theorem reduceBranches_sound (ρ : Env) : ∀ (bs bs' : List (Range × PV)),
    reduceBranches bs = .ok bs' → ∀ c, evalBranches ρ c bs' = evalBranches ρ c bs
  | [], bs', h => by simp [reduceBranches] at h; subst h; intro c; rfl
  | (r, v) :: rest, bs', h => by
    simp only [reduceBranches] at h
    split at h <;> try (simp at h; done)
    rename_i v' rest' hv hr
    simp at h; subst h
    intro c
    simp only [evalBranches]
    rw [reduce_sound ρ v v' hv, reduceBranches_sound ρ rest rest' hr c]

theorem reduceForms_sound (ρ : Env) : ∀ (fs fs' : List (Form × PV)),
    reduceForms fs = .ok fs' → ∀ f, evalForm ρ f fs' = evalForm ρ f fs
  | [], fs', h => by simp [reduceForms] at h; subst h; intro f; rfl
  | (g, v) :: rest, fs', h => by
    simp only [reduceForms] at h
    split at h <;> try (simp at h; done)
    rename_i v' rest' hv hr
    simp at h; subst h
    intro f
    simp only [evalForm]
    rw [reduce_sound ρ v v' hv, reduceForms_sound ρ rest rest' hr f]
end

/-! ### `reduce` never returns an error -/

mutual
theorem reduce_noErr : ∀ (v : PV) (e : String), reduce v ≠ .err e
  | .lit l, e, h => by simp [reduce] at h
  | .var k f, e, h => by simp [reduce] at h
  | .dflt, e, h => by simp [reduce] at h
  | .fk (.set inner), e, h => by
    simp only [reduce] at h
    exact reduce_noErr inner e h
  | .fk (.notSet _ _), e, h => by simp [reduce] at h
  | .ranges ck t bs, e, h => by
    simp only [reduce] at h
    split at h <;> try (simp at h; done)
    rename_i e' hb
    exact reduceBranches_noErr bs e' hb
  | .comp k inner, e, h => by
    simp only [reduce] at h
    split at h <;> try (simp at h; done)
    rename_i e' hb
    exact reduce_noErr inner e' hb
  | .subkeys (some (.mk n t keys s c)), e, h => by
    simp only [reduce] at h
    split at h <;> try (simp at h; done)
    rename_i e' hb
    exact reduceKeys_noErr keys e' hb
  | .subkeys none, e, h => by simp [reduce] at h
  | .bloc items, e, h => by
    simp only [reduce] at h
    split at h <;> try (simp at h; done)
    rename_i e' hb
    exact reduceIntoL_noErr items [] e' hb
  | .plurals r ck other forms, e, h => by
    simp only [reduce] at h
    split at h <;> try (simp at h; done)
    · exact absurd ‹reduceForms forms = .err _› (reduceForms_noErr forms _)
    · exact absurd ‹reduce other = .err _› (reduce_noErr other _)

theorem reduceInto_noErr : ∀ (v : PV) (acc : List PV) (e : String), reduceInto v acc ≠ .err e
  | .dflt, acc, e, h => by simp [reduceInto] at h
  | .subkeys _, acc, e, h => by simp [reduceInto] at h
  | .ranges ck t bs, acc, e, h => by
    simp only [reduceInto] at h
    split at h <;> try (simp at h; done)
    rename_i e' hb
    exact reduceBranches_noErr bs e' hb
  | .plurals r ck other forms, acc, e, h => by
    simp only [reduceInto] at h
    split at h <;> try (simp at h; done)
    · exact absurd ‹reduceForms forms = .err _› (reduceForms_noErr forms _)
    · exact absurd ‹reduce other = .err _› (reduce_noErr other _)
  | .fk (.set inner), acc, e, h => by
    simp only [reduceInto] at h
    exact reduceInto_noErr inner acc e h
  | .fk (.notSet _ _), acc, e, h => by simp [reduceInto] at h
  | .lit l, acc, e, h => by
    simp only [reduceInto] at h
    split at h <;> simp at h
  | .var k f, acc, e, h => by simp [reduceInto] at h
  | .comp k inner, acc, e, h => by
    simp only [reduceInto] at h
    split at h <;> try (simp at h; done)
    rename_i e' hb
    exact reduce_noErr inner e' hb
  | .bloc items, acc, e, h => by
    simp only [reduceInto] at h
    exact reduceIntoL_noErr items acc e h

theorem reduceIntoL_noErr : ∀ (xs acc : List PV) (e : String), reduceIntoL xs acc ≠ .err e
  | [], acc, e, h => by simp [reduceIntoL] at h
  | x :: xs, acc, e, h => by
    simp only [reduceIntoL] at h
    split at h <;> try (simp at h; done)
    · exact reduceIntoL_noErr xs _ e h
    · rename_i e' hb; exact reduceInto_noErr x acc e' hb

theorem reduceBranches_noErr : ∀ (bs : List (Range × PV)) (e : String), reduceBranches bs ≠ .err e
  | [], e, h => by simp [reduceBranches] at h
  | (r, v) :: rest, e, h => by
    simp only [reduceBranches] at h
    split at h <;> try (simp at h; done)
    · exact absurd ‹reduce v = .err _› (reduce_noErr v _)
    · exact absurd ‹reduceBranches rest = .err _› (reduceBranches_noErr rest _)

theorem reduceForms_noErr : ∀ (fs : List (Form × PV)) (e : String), reduceForms fs ≠ .err e
  | [], e, h => by simp [reduceForms] at h
  | (r, v) :: rest, e, h => by
    simp only [reduceForms] at h
    split at h <;> try (simp at h; done)
    · exact absurd ‹reduce v = .err _› (reduce_noErr v _)
    · exact absurd ‹reduceForms rest = .err _› (reduceForms_noErr rest _)

theorem reduceKeys_noErr : ∀ (ks : List (Str × PV)) (e : String), reduceKeys ks ≠ .err e
  | [], e, h => by simp [reduceKeys] at h
  | (r, v) :: rest, e, h => by
    simp only [reduceKeys] at h
    split at h <;> try (simp at h; done)
    · exact absurd ‹reduce v = .err _› (reduce_noErr v _)
    · exact absurd ‹reduceKeys rest = .err _› (reduceKeys_noErr rest _)
end

/-! ### `reduce` succeeds on clean values -/

mutual
theorem reduce_ok_of_clean : ∀ (v : PV), Clean v = true → ∃ v', reduce v = .ok v'
  | .lit l, _ => by simp only [reduce]; exact ⟨_, rfl⟩
  | .var k f, _ => by simp only [reduce]; exact ⟨_, rfl⟩
  | .dflt, _ => by simp only [reduce]; exact ⟨_, rfl⟩
  | .fk (.set inner), h => by
    simp only [Clean] at h
    simp only [reduce]
    exact reduce_ok_of_clean inner h
  | .fk (.notSet _ _), h => by simp [Clean] at h
  | .ranges ck t bs, h => by
    simp only [Clean] at h
    obtain ⟨bs', hb⟩ := reduceBranches_ok_of_clean bs h
    simp only [reduce, hb]; exact ⟨_, rfl⟩
  | .comp k inner, h => by
    simp only [Clean] at h
    obtain ⟨i, hi⟩ := reduce_ok_of_clean inner h
    simp only [reduce, hi]; exact ⟨_, rfl⟩
  | .subkeys (some (.mk n t keys s c)), h => by
    simp only [Clean] at h
    obtain ⟨ks, hk⟩ := reduceKeys_ok_of_clean keys h
    simp only [reduce, hk]; exact ⟨_, rfl⟩
  | .subkeys none, h => by simp [Clean] at h
  | .bloc items, h => by
    simp only [Clean] at h
    obtain ⟨acc, ha⟩ := reduceIntoL_ok_of_clean items h []
    simp only [reduce, ha]; exact ⟨_, rfl⟩
  | .plurals r ck other forms, h => by
    simp only [Clean, Bool.and_eq_true] at h
    obtain ⟨o, ho⟩ := reduce_ok_of_clean other h.1
    obtain ⟨fs, hf⟩ := reduceForms_ok_of_clean forms h.2
    simp only [reduce, ho, hf]; exact ⟨_, rfl⟩

theorem reduceInto_ok_of_clean : ∀ (v : PV), Clean v = true → ∀ acc, ∃ acc', reduceInto v acc = .ok acc'
  | .dflt, _, acc => by simp only [reduceInto]; exact ⟨_, rfl⟩
  | .subkeys _, _, acc => by simp only [reduceInto]; exact ⟨_, rfl⟩
  | .ranges ck t bs, h, acc => by
    simp only [Clean] at h
    obtain ⟨bs', hb⟩ := reduceBranches_ok_of_clean bs h
    simp only [reduceInto, hb]; exact ⟨_, rfl⟩
  | .plurals r ck other forms, h, acc => by
    simp only [Clean, Bool.and_eq_true] at h
    obtain ⟨o, ho⟩ := reduce_ok_of_clean other h.1
    obtain ⟨fs, hf⟩ := reduceForms_ok_of_clean forms h.2
    simp only [reduceInto, ho, hf]; exact ⟨_, rfl⟩
  | .fk (.set inner), h, acc => by
    simp only [Clean] at h
    simp only [reduceInto]
    exact reduceInto_ok_of_clean inner h acc
  | .fk (.notSet _ _), h, acc => by simp [Clean] at h
  | .lit l, _, acc => by
    simp only [reduceInto]
    split <;> exact ⟨_, rfl⟩
  | .var k f, _, acc => by simp only [reduceInto]; exact ⟨_, rfl⟩
  | .comp k inner, h, acc => by
    simp only [Clean] at h
    obtain ⟨i, hi⟩ := reduce_ok_of_clean inner h
    simp only [reduceInto, hi]; exact ⟨_, rfl⟩
  | .bloc items, h, acc => by
    simp only [Clean] at h
    simp only [reduceInto]
    exact reduceIntoL_ok_of_clean items h acc

theorem reduceIntoL_ok_of_clean : ∀ (xs : List PV), CleanL xs = true → ∀ acc, ∃ acc', reduceIntoL xs acc = .ok acc'
  | [], _, acc => by simp only [reduceIntoL]; exact ⟨_, rfl⟩
  | x :: xs, h, acc => by
    simp only [CleanL, Bool.and_eq_true] at h
    obtain ⟨a, ha⟩ := reduceInto_ok_of_clean x h.1 acc
    obtain ⟨a', ha'⟩ := reduceIntoL_ok_of_clean xs h.2 a
    exact ⟨a', by simp only [reduceIntoL, ha, ha']⟩

theorem reduceBranches_ok_of_clean : ∀ (bs : List (Range × PV)), CleanB bs = true → ∃ bs', reduceBranches bs = .ok bs'
  | [], _ => by simp only [reduceBranches]; exact ⟨_, rfl⟩
  | (r, v) :: rest, h => by
    simp only [CleanB, Bool.and_eq_true] at h
    obtain ⟨v', hv⟩ := reduce_ok_of_clean v h.1
    obtain ⟨r', hr⟩ := reduceBranches_ok_of_clean rest h.2
    simp only [reduceBranches, hv, hr]; exact ⟨_, rfl⟩

theorem reduceForms_ok_of_clean : ∀ (fs : List (Form × PV)), CleanF fs = true → ∃ fs', reduceForms fs = .ok fs'
  | [], _ => by simp only [reduceForms]; exact ⟨_, rfl⟩
  | (r, v) :: rest, h => by
    simp only [CleanF, Bool.and_eq_true] at h
    obtain ⟨v', hv⟩ := reduce_ok_of_clean v h.1
    obtain ⟨r', hr⟩ := reduceForms_ok_of_clean rest h.2
    simp only [reduceForms, hv, hr]; exact ⟨_, rfl⟩

theorem reduceKeys_ok_of_clean : ∀ (ks : List (Str × PV)), CleanK ks = true → ∃ ks', reduceKeys ks = .ok ks'
  | [], _ => by simp only [reduceKeys]; exact ⟨_, rfl⟩
  | (r, v) :: rest, h => by
    simp only [CleanK, Bool.and_eq_true] at h
    obtain ⟨v', hv⟩ := reduce_ok_of_clean v h.1
    obtain ⟨r', hr⟩ := reduceKeys_ok_of_clean rest h.2
    simp only [reduceKeys, hv, hr]; exact ⟨_, rfl⟩
end

end I18nVerif.Reduce
