import I18nVerif.Spec.PipelineInv
import I18nVerif.Proofs.Plurals
import I18nVerif.Proofs.Perm
/-!
The `merge_plurals` stage of the pipeline (`Plurals.mergePlurals`, `Pipeline.mergePluralsNs`,
`Pipeline.mergePluralsAll`) for the whole-pipeline no-panic theorem: the only panic is the fuel of the
model; a successful run keeps sortedness and rawness of the leaves, covers every leaf with a visible
foreign key, and keeps every old leaf findable (under its own path or under its plural base).
-/
namespace I18nVerif.PipeInv
open I18nVerif Plurals

/-- pointwise relation of two lists (`List.Forall₂` of Mathlib; not in core Lean) -/
inductive Forall₂ {α β : Type} (R : α → β → Prop) : List α → List β → Prop
  | nil : Forall₂ R [] []
  | cons {a : α} {b : β} {l₁ : List α} {l₂ : List β} (h : R a b) (t : Forall₂ R l₁ l₂) : Forall₂ R (a :: l₁) (b :: l₂)

theorem Forall₂.length_eq {α β : Type} {R : α → β → Prop} {l₁ : List α} {l₂ : List β} (h : Forall₂ R l₁ l₂) :
    l₁.length = l₂.length := by
  induction h with
  | nil => rfl
  | cons _ _ ih => simp [ih]

theorem Forall₂.mem_left {α β : Type} {R : α → β → Prop} {l₁ : List α} {l₂ : List β} (h : Forall₂ R l₁ l₂) :
    ∀ a ∈ l₁, ∃ b ∈ l₂, R a b := by
  induction h with
  | nil => intro a ha; cases ha
  | cons hr _ ih =>
    intro a ha
    rcases List.mem_cons.mp ha with rfl | ha
    · exact ⟨_, List.mem_cons_self, hr⟩
    · obtain ⟨b, hb, hab⟩ := ih a ha
      exact ⟨b, List.mem_cons_of_mem _ hb, hab⟩

theorem Forall₂.mem_right {α β : Type} {R : α → β → Prop} {l₁ : List α} {l₂ : List β} (h : Forall₂ R l₁ l₂) :
    ∀ b ∈ l₂, ∃ a ∈ l₁, R a b := by
  induction h with
  | nil => intro a ha; cases ha
  | cons hr _ ih =>
    intro b hb
    rcases List.mem_cons.mp hb with rfl | hb
    · exact ⟨_, List.mem_cons_self, hr⟩
    · obtain ⟨a, ha, hab⟩ := ih b hb
      exact ⟨a, List.mem_cons_of_mem _ ha, hab⟩

/-! ### trees as sets of entries; association-list facts -/

theorem TreeK_iff (P : List Str → PV → Prop) (pre : List Str) :
    ∀ (keys : List (Str × PV)), TreeK P pre keys ↔ ∀ kv ∈ keys, TreeV P (pre ++ [kv.1]) kv.2
  | [] => by simp [TreeK]
  | (k, v) :: rest => by simp [TreeK, TreeK_iff P pre rest]

theorem SortedK_iff : ∀ (keys : List (Str × PV)), SortedK keys ↔ ∀ kv ∈ keys, SortedV kv.2
  | [] => by simp [SortedK]
  | (k, v) :: rest => by simp [SortedK, SortedK_iff rest]

theorem TreeV_leaf {P : List Str → PV → Prop} {here : List Str} {v : PV} (h : ∀ l, v ≠ .subkeys l) :
    TreeV P here v ↔ P here v := by
  cases v with
  | subkeys l => exact absurd rfl (h l)
  | _ => simp [TreeV]

theorem TreeV_loc {P : List Str → PV → Prop} {here : List Str} (sub : Loc) :
    TreeV P here (.subkeys (some sub)) ↔ TreeK P here sub.keys := by
  obtain ⟨n, t, ks, s, c⟩ := sub
  simp [TreeV, Loc.keys]

theorem SortedV_loc (sub : Loc) : SortedV (.subkeys (some sub)) ↔ SortedTree sub.keys := by
  obtain ⟨n, t, ks, s, c⟩ := sub
  simp [SortedV, SortedTree, Loc.keys]

theorem SortedV_leaf {v : PV} (h : ∀ sub, v ≠ .subkeys (some sub)) : SortedV v := by
  cases v with
  | subkeys l =>
    cases l with
    | none => simp [SortedV]
    | some sub => exact absurd rfl (h sub)
  | _ => simp [SortedV]

theorem gDepthV_loc (sub : Loc) : gDepthV (.subkeys (some sub)) = gDepthK sub.keys + 1 := by
  obtain ⟨n, t, ks, s, c⟩ := sub
  simp [gDepthV, Loc.keys]

theorem gDepthV_leaf {v : PV} (h : ∀ sub, v ≠ .subkeys (some sub)) : gDepthV v = 0 := by
  cases v with
  | subkeys l =>
    cases l with
    | none => simp [gDepthV]
    | some sub => exact absurd rfl (h sub)
  | _ => simp [gDepthV]

theorem gDepthK_le (n : Nat) : ∀ (keys : List (Str × PV)), (∀ kv ∈ keys, gDepthV kv.2 ≤ n) → gDepthK keys ≤ n
  | [], _ => by simp [gDepthK]
  | (k, v) :: rest, h => by
    have h1 : gDepthV v ≤ n := h (k, v) List.mem_cons_self
    have h2 := gDepthK_le n rest (fun kv hkv => h kv (List.mem_cons_of_mem _ hkv))
    simp only [gDepthK]
    omega

theorem plain_not_subkeys {v : PV} (h : PluralSpec.plainValue v = true) : ∀ l, v ≠ .subkeys l := by
  intro l e
  subst e
  simp [PluralSpec.plainValue] at h

theorem get?_of_mem_sorted {α : Type} : ∀ (m : List (Str × α)), Sorted m → ∀ p ∈ m, AMap.get? p.1 m = some p.2
  | [], _, p, hp => by cases hp
  | (k', v') :: rest, h, p, hp => by
    unfold Sorted at h
    rw [List.pairwise_cons] at h
    rcases List.mem_cons.mp hp with rfl | hp
    · simp [AMap.get?]
    · have hlt := h.1 p hp
      have : k' ≠ p.1 := by
        intro e; rw [e, AMap.strLt_irrefl] at hlt; cases hlt
      rw [get?_cons]
      simp only [beq_iff_eq, this, if_false]
      exact get?_of_mem_sorted rest h.2 p hp

theorem sorted_unique {α : Type} {m : List (Str × α)} (hs : Sorted m) {k : Str} {v1 v2 : α}
    (h1 : (k, v1) ∈ m) (h2 : (k, v2) ∈ m) : v1 = v2 := by
  have e1 := get?_of_mem_sorted m hs _ h1
  have e2 := get?_of_mem_sorted m hs _ h2
  simp only at e1 e2
  rw [e1] at e2
  exact Option.some.inj e2

/-- a present key of a sorted map is displaced by `insert` -/
theorem insert_displaces {α : Type} (k : Str) (v v0 : α) : ∀ (m : List (Str × α)), Sorted m →
    AMap.get? k m = some v0 → (AMap.insert k v m).2 = some v0
  | [], _, h => by simp [AMap.get?] at h
  | (k', x) :: rest, hs, h => by
    have hs' := List.pairwise_cons.mp hs
    simp only [AMap.get?] at h
    simp only [AMap.insert]
    by_cases h1 : (k' == k) = true
    · simp only [h1, if_true, Option.some.injEq] at h
      simp [h1, h]
    · simp only [h1] at h
      simp only [h1]
      by_cases h2 : AMap.strLt k k' = true
      · exfalso
        have hlt := hs'.1 _ (get?_mem k v0 rest h)
        simp only at hlt
        rw [AMap.strLt_asymm h2] at hlt
        cases hlt
      · simp only [h2]
        exact insert_displaces k v v0 rest hs'.2 h

/-! ### panics -/

theorem checkForms_no_panic (orc : Oracle) (locale : Str) (path : KeyPath) (rule : RuleTy)
    (forms : List (Form × PV)) (s : String) : checkForms orc locale path rule forms ≠ .panic s := by
  intro h
  simp only [checkForms] at h
  split at h <;> cases h

theorem finishGroups_no_panic (orc : Oracle) (locale : Str) (path : KeyPath) :
    ∀ (groups : List (Str × Cands)) (keys : List (Str × PV)) (ws : List Warning) (s : String),
      finishGroups orc locale path groups keys ws ≠ .panic s
  | [], keys, ws, s, h => by simp [finishGroups] at h
  | (base, cands) :: rest, keys, ws, s, h => by
    by_cases hl : cands.length = 1
    · rw [finish_single _ _ _ _ _ _ _ _ hl] at h
      exact finishGroups_no_panic orc locale path rest _ _ s h
    · cases hf : cands.find? (fun x => x.1 == .other) with
      | none =>
        rw [finish_no_other _ _ _ _ _ _ _ _ hf] at h
        exact finishGroups_no_panic orc locale path rest _ _ s h
      | some x =>
        obtain ⟨fo, ko, ruleTy, other⟩ := x
        rw [finish_merge _ _ _ _ _ _ _ _ fo ko ruleTy other hl hf] at h
        split at h
        · cases h
        · split at h
          · cases h
          · split at h
            · cases h
            · rename_i p hc
              exact checkForms_no_panic _ _ _ _ _ _ hc
            · split at h
              · cases h
              · exact finishGroups_no_panic orc locale path rest _ _ s h

theorem loop_panic (orc : Oracle) (locale : Str) (fuel : Nat) (path : KeyPath)
    (ih : ∀ (path : KeyPath) (l : Loc) (s : String), mergePlurals orc locale fuel path l = .panic s → s = "fuel") :
    ∀ (keys acc : List (Str × PV)) (groups : List (Str × Cands)) (ws : List Warning) (s : String),
      mergePlurals.loop orc locale fuel path keys acc groups ws = .panic s → s = "fuel"
  | [], acc, groups, ws, s, h => by rw [loop_nil] at h; cases h
  | (k, v) :: rest, acc, groups, ws, s, h => by
    by_cases hsub : ∃ sub, v = .subkeys (some sub)
    · obtain ⟨sub, rfl⟩ := hsub
      rw [loop_subkeys] at h
      cases hm : mergePlurals orc locale fuel (pushKey path k) sub with
      | ok r =>
        obtain ⟨sub', w⟩ := r
        rw [hm] at h
        exact loop_panic orc locale fuel path ih rest _ _ _ s h
      | err e => rw [hm] at h; cases h
      | panic p =>
        rw [hm] at h
        injection h with h
        subst h
        exact ih _ _ _ hm
    · have hv : ∀ sub, v ≠ .subkeys (some sub) := fun sub e => hsub ⟨sub, e⟩
      cases hp : isPossiblePlural k v with
      | none =>
        rw [loop_ordinary _ _ _ _ _ _ _ _ _ _ hv hp] at h
        exact loop_panic orc locale fuel path ih rest _ _ _ s h
      | some r =>
        obtain ⟨base, rule, form⟩ := r
        rw [loop_candidate _ _ _ _ _ _ _ _ _ _ _ _ _ hp] at h
        split at h
        · cases h
        · exact loop_panic orc locale fuel path ih rest _ _ _ s h

/-- the only panic of `merge_plurals` is the fuel of the model -/
theorem mergePlurals_panic (orc : Oracle) (locale : Str) :
    ∀ (fuel : Nat) (path : KeyPath) (l : Loc) (s : String),
      mergePlurals orc locale fuel path l = .panic s → s = "fuel"
  | 0, path, l, s, h => by
    simp only [mergePlurals] at h
    injection h with h
    exact h.symm
  | fuel + 1, path, .mk n t keys ss c, s, h => by
    rw [mergePlurals_succ] at h
    split at h
    · cases h
    · rename_i p hl
      injection h with h
      subst h
      exact loop_panic orc locale fuel path (mergePlurals_panic orc locale fuel) _ _ _ _ _ hl
    · split at h
      · cases h
      · cases h
      · rename_i p hf
        exact absurd hf (finishGroups_no_panic _ _ _ _ _ _ _)

/-! ### the lifts to a namespace and to all namespaces -/

theorem mergePluralsNs_panic (orc : Oracle) (ns : Option Str) :
    ∀ (ls : List Loc) (ws : List Warning) (s : String),
      Pipeline.mergePluralsNs orc ns ls ws = .panic s → s = "fuel"
  | [], ws, s, h => by simp [Pipeline.mergePluralsNs] at h
  | l :: ls, ws, s, h => by
    simp only [Pipeline.mergePluralsNs] at h
    split at h
    · cases h
    · rename_i p hm
      injection h with h
      subst h
      exact mergePlurals_panic orc _ _ _ _ _ hm
    · split at h
      · cases h
      · cases h
      · rename_i p hr
        injection h with h
        subst h
        exact mergePluralsNs_panic orc ns ls _ _ hr

theorem mergePluralsNs_ok (orc : Oracle) (ns : Option Str) :
    ∀ (ls : List Loc) (ws : List Warning) (ls' : List Loc) (ws' : List Warning),
      Pipeline.mergePluralsNs orc ns ls ws = .ok (ls', ws') →
      Forall₂ (fun l l' => ∃ w, Plurals.mergePlurals orc l.name 1000000 ⟨ns, []⟩ l = .ok (l', w)) ls ls'
  | [], ws, ls', ws', h => by
    simp only [Pipeline.mergePluralsNs, Res.ok.injEq, Prod.mk.injEq] at h
    rw [← h.1]
    exact .nil
  | l :: ls, ws, ls', ws', h => by
    simp only [Pipeline.mergePluralsNs] at h
    split at h
    · cases h
    · cases h
    · rename_i l' w hm
      split at h
      · rename_i ls'' ws'' hr
        simp only [Res.ok.injEq, Prod.mk.injEq] at h
        rw [← h.1]
        exact .cons ⟨w, hm⟩ (mergePluralsNs_ok orc ns ls _ _ _ hr)
      · cases h
      · cases h

theorem mergePluralsAll_panic (orc : Oracle) :
    ∀ (nss : List NS) (ws : List Warning) (s : String),
      Pipeline.mergePluralsAll orc nss ws = .panic s → s = "fuel"
  | [], ws, s, h => by simp [Pipeline.mergePluralsAll] at h
  | ns :: rest, ws, s, h => by
    simp only [Pipeline.mergePluralsAll] at h
    split at h
    · cases h
    · rename_i p hm
      injection h with h
      subst h
      exact mergePluralsNs_panic orc _ _ _ _ hm
    · split at h
      · cases h
      · cases h
      · rename_i p hr
        injection h with h
        subst h
        exact mergePluralsAll_panic orc rest _ _ hr

theorem mergePluralsAll_ok (orc : Oracle) :
    ∀ (nss : List NS) (ws : List Warning) (nss' : List NS) (ws' : List Warning),
      Pipeline.mergePluralsAll orc nss ws = .ok (nss', ws') →
      Forall₂ (fun ns ns' => ns'.key = ns.key ∧
        Forall₂ (fun l l' => ∃ w, Plurals.mergePlurals orc l.name 1000000 ⟨ns.key, []⟩ l = .ok (l', w))
          ns.locales ns'.locales) nss nss'
  | [], ws, nss', ws', h => by
    simp only [Pipeline.mergePluralsAll, Res.ok.injEq, Prod.mk.injEq] at h
    rw [← h.1]
    exact .nil
  | ns :: rest, ws, nss', ws', h => by
    simp only [Pipeline.mergePluralsAll] at h
    split at h
    · cases h
    · cases h
    · rename_i locs w hm
      split at h
      · rename_i nss'' ws'' hr
        simp only [Res.ok.injEq, Prod.mk.injEq] at h
        rw [← h.1]
        exact .cons ⟨rfl, mergePluralsNs_ok orc _ _ _ _ _ hm⟩ (mergePluralsAll_ok orc rest _ _ _ hr)
      · cases h
      · cases h

/-! ### generic invariants of the two loops -/

/-- an invariant `I` of the map `acc` of the first loop: kept by inserting an ordinary key and by inserting a
    recursively merged group -/
theorem loop_gen (orc : Oracle) (locale : Str) (fuel : Nat) (path : KeyPath) (I : List (Str × PV) → Prop) :
    ∀ (keys acc : List (Str × PV)) (groups : List (Str × Cands)) (ws : List Warning)
      (acc' : List (Str × PV)) (groups' : List (Str × Cands)) (ws' : List Warning),
      (∀ kv ∈ keys, ∀ m, I m → (∀ sub, kv.2 ≠ .subkeys (some sub)) → isPossiblePlural kv.1 kv.2 = none →
        I (AMap.insert' kv.1 kv.2 m)) →
      (∀ kv ∈ keys, ∀ m sub sub' w, I m → kv.2 = .subkeys (some sub) →
        mergePlurals orc locale fuel (pushKey path kv.1) sub = .ok (sub', w) →
        I (AMap.insert' kv.1 (.subkeys (some sub')) m)) →
      I acc → mergePlurals.loop orc locale fuel path keys acc groups ws = .ok (acc', groups', ws') → I acc'
  | [], acc, groups, ws, acc', groups', ws', _, _, hI, h => by
    rw [loop_nil] at h
    injection h with h
    simp only [Prod.mk.injEq] at h
    obtain ⟨rfl, _, _⟩ := h
    exact hI
  | (k, v) :: rest, acc, groups, ws, acc', groups', ws', h1, h2, hI, h => by
    have h1' : ∀ kv ∈ rest, ∀ m, I m → (∀ sub, kv.2 ≠ .subkeys (some sub)) → isPossiblePlural kv.1 kv.2 = none →
        I (AMap.insert' kv.1 kv.2 m) := fun kv hkv => h1 kv (List.mem_cons_of_mem _ hkv)
    have h2' : ∀ kv ∈ rest, ∀ m sub sub' w, I m → kv.2 = .subkeys (some sub) →
        mergePlurals orc locale fuel (pushKey path kv.1) sub = .ok (sub', w) →
        I (AMap.insert' kv.1 (.subkeys (some sub')) m) := fun kv hkv => h2 kv (List.mem_cons_of_mem _ hkv)
    by_cases hsub : ∃ sub, v = .subkeys (some sub)
    · obtain ⟨sub, rfl⟩ := hsub
      rw [loop_subkeys] at h
      cases hm : mergePlurals orc locale fuel (pushKey path k) sub with
      | ok r =>
        obtain ⟨sub', w⟩ := r
        rw [hm] at h
        exact loop_gen orc locale fuel path I rest _ _ _ acc' groups' ws' h1' h2'
          (h2 _ List.mem_cons_self acc sub sub' w hI rfl hm) h
      | err e => rw [hm] at h; cases h
      | panic p => rw [hm] at h; cases h
    · have hv : ∀ sub, v ≠ .subkeys (some sub) := fun sub e => hsub ⟨sub, e⟩
      cases hp : isPossiblePlural k v with
      | none =>
        rw [loop_ordinary _ _ _ _ _ _ _ _ _ _ hv hp] at h
        exact loop_gen orc locale fuel path I rest _ _ _ acc' groups' ws' h1' h2'
          (h1 _ List.mem_cons_self acc hI hv hp) h
      | some r =>
        obtain ⟨base, rule, form⟩ := r
        rw [loop_candidate _ _ _ _ _ _ _ _ _ _ _ _ _ hp] at h
        split at h
        · cases h
        · exact loop_gen orc locale fuel path I rest _ _ _ acc' groups' ws' h1' h2' hI h

/-- the first loop succeeds only if every nested `merge_plurals` did -/
theorem loop_sub_ok (orc : Oracle) (locale : Str) (fuel : Nat) (path : KeyPath) :
    ∀ (keys acc : List (Str × PV)) (groups : List (Str × Cands)) (ws : List Warning)
      (r : List (Str × PV) × List (Str × Cands) × List Warning),
      mergePlurals.loop orc locale fuel path keys acc groups ws = .ok r →
      ∀ k sub, (k, PV.subkeys (some sub)) ∈ keys →
        ∃ sub' w, mergePlurals orc locale fuel (pushKey path k) sub = .ok (sub', w)
  | [], acc, groups, ws, r, _, k, sub, hm => by cases hm
  | (k0, v) :: rest, acc, groups, ws, r, h, k, sub, hmem => by
    by_cases hsub : ∃ sub, v = .subkeys (some sub)
    · obtain ⟨sub0, rfl⟩ := hsub
      rw [loop_subkeys] at h
      cases hm : mergePlurals orc locale fuel (pushKey path k0) sub0 with
      | ok r0 =>
        obtain ⟨sub', w⟩ := r0
        rw [hm] at h
        rcases List.mem_cons.mp hmem with e | hmem
        · simp only [Prod.mk.injEq, PV.subkeys.injEq, Option.some.injEq] at e
          obtain ⟨rfl, rfl⟩ := e
          exact ⟨sub', w, hm⟩
        · exact loop_sub_ok orc locale fuel path rest _ _ _ r h k sub hmem
      | err e => rw [hm] at h; cases h
      | panic p => rw [hm] at h; cases h
    · have hv : ∀ sub, v ≠ .subkeys (some sub) := fun sub e => hsub ⟨sub, e⟩
      have hmem' : (k, PV.subkeys (some sub)) ∈ rest := by
        rcases List.mem_cons.mp hmem with e | hmem
        · simp only [Prod.mk.injEq] at e
          exact absurd e.2.symm (hv sub)
        · exact hmem
      cases hp : isPossiblePlural k0 v with
      | none =>
        rw [loop_ordinary _ _ _ _ _ _ _ _ _ _ hv hp] at h
        exact loop_sub_ok orc locale fuel path rest _ _ _ r h k sub hmem'
      | some r0 =>
        obtain ⟨base, rule, form⟩ := r0
        rw [loop_candidate _ _ _ _ _ _ _ _ _ _ _ _ _ hp] at h
        split at h
        · cases h
        · exact loop_sub_ok orc locale fuel path rest _ _ _ r h k sub hmem'

theorem putBack_gen (I : List (Str × PV) → Prop) : ∀ (cs : Cands) (keys : List (Str × PV)),
    (∀ x ∈ cs, ∀ m, I m → I (AMap.insert' x.2.1 x.2.2.2 m)) → I keys → I (putBack keys cs)
  | [], keys, _, hI => hI
  | x :: cs, keys, h, hI => by
    show I (putBack (AMap.insert' x.2.1 x.2.2.2 keys) cs)
    exact putBack_gen I cs _ (fun y hy => h y (List.mem_cons_of_mem _ hy)) (h x List.mem_cons_self keys hI)

/-- an invariant `I` of the map of the second loop: kept by putting a candidate back and by inserting a
    plural that displaces nothing -/
theorem finish_gen (orc : Oracle) (locale : Str) (path : KeyPath) (I : List (Str × PV) → Prop) :
    ∀ (groups : List (Str × Cands)) (keys : List (Str × PV)) (ws : List Warning)
      (keys' : List (Str × PV)) (ws' : List Warning),
      (∀ base cs, (base, cs) ∈ groups → ∀ x ∈ cs, ∀ m, I m → I (AMap.insert' x.2.1 x.2.2.2 m)) →
      (∀ base cs, (base, cs) ∈ groups → ∀ key fo ko r o ck m, Key.new base = some key → (fo, ko, r, o) ∈ cs →
        I m → (AMap.insert key (.plurals r ck o (formsOf cs)) m).2 = none →
        I (AMap.insert' key (.plurals r ck o (formsOf cs)) m)) →
      I keys → finishGroups orc locale path groups keys ws = .ok (keys', ws') → I keys'
  | [], keys, ws, keys', ws', _, _, hI, h => by
    simp only [finishGroups, Res.ok.injEq, Prod.mk.injEq] at h
    rw [← h.1]; exact hI
  | (base, cands) :: rest, keys, ws, keys', ws', h1, h2, hI, h => by
    have h1' : ∀ base cs, (base, cs) ∈ rest → ∀ x ∈ cs, ∀ m, I m → I (AMap.insert' x.2.1 x.2.2.2 m) :=
      fun b cs hm => h1 b cs (List.mem_cons_of_mem _ hm)
    have h2' : ∀ base cs, (base, cs) ∈ rest → ∀ key fo ko r o ck m, Key.new base = some key → (fo, ko, r, o) ∈ cs →
        I m → (AMap.insert key (.plurals r ck o (formsOf cs)) m).2 = none →
        I (AMap.insert' key (.plurals r ck o (formsOf cs)) m) :=
      fun b cs hm => h2 b cs (List.mem_cons_of_mem _ hm)
    have hpb : I (putBack keys cands) := putBack_gen I cands keys (h1 base cands List.mem_cons_self) hI
    by_cases hl : cands.length = 1
    · rw [finish_single _ _ _ _ _ _ _ _ hl] at h
      exact finish_gen orc locale path I rest _ _ keys' ws' h1' h2' hpb h
    · cases hf : cands.find? (fun x => x.1 == .other) with
      | none =>
        rw [finish_no_other _ _ _ _ _ _ _ _ hf] at h
        exact finish_gen orc locale path I rest _ _ keys' ws' h1' h2' hpb h
      | some x =>
        obtain ⟨fo, ko, ruleTy, other⟩ := x
        rw [finish_merge _ _ _ _ _ _ _ _ fo ko ruleTy other hl hf] at h
        split at h
        · cases h
        · rename_i key hkey
          split at h
          · cases h
          · split at h
            · cases h
            · cases h
            · split at h
              · cases h
              · rename_i hd
                have hd' : (AMap.insert key (PV.plurals ruleTy "var_count".toList other (formsOf cands)) keys).2 = none := by
                  cases hx : (AMap.insert key (PV.plurals ruleTy "var_count".toList other (formsOf cands)) keys).2 with
                  | none => rfl
                  | some y => rw [hx] at hd; simp at hd
                exact finish_gen orc locale path I rest _ _ keys' ws' h1' h2'
                  (h2 base cands List.mem_cons_self key fo ko ruleTy other _ keys hkey
                    (List.mem_of_find?_eq_some hf) hI hd') h

/-! ### sortedness and leaf predicates through `merge_plurals` -/

theorem inv_insert' {R : Str → PV → Prop} {k : Str} {v : PV} {m : List (Str × PV)}
    (hm : Sorted m ∧ ∀ kv ∈ m, R kv.1 kv.2) (hv : R k v) :
    Sorted (AMap.insert' k v m) ∧ ∀ kv ∈ AMap.insert' k v m, R kv.1 kv.2 := by
  refine ⟨(AMap.insert'_spec k v hm.1).1, fun kv hkv => ?_⟩
  rcases mem_insert' k v m kv hkv with rfl | hkv
  · exact hv
  · exact hm.2 kv hkv

/-- generic form of `mergePlurals_ok` / `mergePlurals_cov`: a leaf predicate `Pin` of the old tree gives the leaf
    predicate `Pout` of the new tree when `Pin → Pout` on leaves and `Pout` holds for a plural built from
    candidates satisfying `Pin` -/
theorem mergePlurals_tree (orc : Oracle) (locale : Str) (Pin Pout : List Str → PV → Prop)
    (hleaf : ∀ q v, (∀ l, v ≠ .subkeys l) → Pin q v → Pout q v)
    (hplural : ∀ (pre : List Str) (base key : Str) (cs : Cands) (fo : Form) (ko : Str) (r : RuleTy) (o : PV) (ck : Str),
      Key.new base = some key →
      (∀ x ∈ cs, isPossiblePlural x.2.1 x.2.2.2 = some (base, x.2.2.1, x.1) ∧ Pin (pre ++ [x.2.1]) x.2.2.2) →
      (fo, ko, r, o) ∈ cs → Pout (pre ++ [key]) (.plurals r ck o (formsOf cs))) :
    ∀ (fuel : Nat) (path : KeyPath) (l l' : Loc) (ws : List Warning) (pre : List Str),
      mergePlurals orc locale fuel path l = .ok (l', ws) → SortedTree l.keys → TreeK Pin pre l.keys →
      l'.name = l.name ∧ gDepthK l.keys < fuel ∧ SortedTree l'.keys ∧ TreeK Pout pre l'.keys
  | 0, path, l, l', ws, pre, h, _, _ => by simp [mergePlurals] at h
  | fuel + 1, path, .mk n t keys ss c, l', ws, pre, h, hs, ht => by
    have ih := mergePlurals_tree orc locale Pin Pout hleaf hplural fuel
    have hs : SortedTree keys := hs
    have ht : TreeK Pin pre keys := ht
    have hsK := (SortedK_iff keys).mp hs.2
    have htK := (TreeK_iff Pin pre keys).mp ht
    rw [mergePlurals_succ] at h
    split at h
    · cases h
    · cases h
    · rename_i acc groups ws0 hl
      split at h
      · rename_i keys' ws1 hf
        simp only [Res.ok.injEq, Prod.mk.injEq] at h
        obtain ⟨rfl, _⟩ := h
        -- the candidate groups
        have hG : GroupsInv (fun k v => TreeV Pin (pre ++ [k]) v) groups :=
          loop_inv orc locale fuel path _ keys [] [] [] acc groups ws0 htK
            (fun b cs hm => by cases hm) hl
        have hcand : ∀ base cs, (base, cs) ∈ groups → ∀ x ∈ cs,
            isPossiblePlural x.2.1 x.2.2.2 = some (base, x.2.2.1, x.1) ∧ (∀ l, x.2.2.2 ≠ .subkeys l) ∧
              Pin (pre ++ [x.2.1]) x.2.2.2 := by
          intro base cs hm x hx
          obtain ⟨hp, htv⟩ := (hG base cs hm).2 x hx
          have hns := plain_not_subkeys (plainValue_of_possible hp)
          exact ⟨hp, hns, (TreeV_leaf hns).mp htv⟩
        -- the invariant of the map
        have hI0 : Sorted ([] : List (Str × PV)) ∧
            ∀ kv ∈ ([] : List (Str × PV)), SortedV kv.2 ∧ TreeV Pout (pre ++ [kv.1]) kv.2 :=
          ⟨List.Pairwise.nil, fun kv hkv => by cases hkv⟩
        have hacc := loop_gen orc locale fuel path
          (fun m => Sorted m ∧ ∀ kv ∈ m, SortedV kv.2 ∧ TreeV Pout (pre ++ [kv.1]) kv.2)
          keys [] [] [] acc groups ws0
          (by
            intro kv hkv m hm hv _
            refine inv_insert' (R := fun k v => SortedV v ∧ TreeV Pout (pre ++ [k]) v) hm ⟨SortedV_leaf hv, ?_⟩
            have htv := htK kv hkv
            have hns : ∀ l, kv.2 ≠ .subkeys l := by
              intro l e
              cases l with
              | none => rw [e] at htv; simp [TreeV] at htv
              | some sub => exact hv sub e
            exact (TreeV_leaf hns).mpr (hleaf _ _ hns ((TreeV_leaf hns).mp htv)))
          (by
            intro kv hkv m sub sub' w hm e hmp
            have htv := htK kv hkv
            have hsv := hsK kv hkv
            rw [e] at htv hsv
            obtain ⟨_, _, r3, r4⟩ := ih _ sub sub' w (pre ++ [kv.1]) hmp ((SortedV_loc sub).mp hsv)
              ((TreeV_loc sub).mp htv)
            exact inv_insert' (R := fun k v => SortedV v ∧ TreeV Pout (pre ++ [k]) v) hm ⟨(SortedV_loc sub').mpr r3, (TreeV_loc sub').mpr r4⟩)
          hI0 hl
        have hfin := finish_gen orc locale path
          (fun m => Sorted m ∧ ∀ kv ∈ m, SortedV kv.2 ∧ TreeV Pout (pre ++ [kv.1]) kv.2)
          groups acc ws0 keys' ws1
          (by
            intro base cs hmem x hx m hm
            obtain ⟨_, hns, hpin⟩ := hcand base cs hmem x hx
            exact inv_insert' (R := fun k v => SortedV v ∧ TreeV Pout (pre ++ [k]) v) hm ⟨SortedV_leaf (fun sub => hns _), (TreeV_leaf hns).mpr (hleaf _ _ hns hpin)⟩)
          (by
            intro base cs hmem key fo ko r o ck m hkey hmo hm _
            have hns : ∀ l, PV.plurals r ck o (formsOf cs) ≠ .subkeys l := fun l e => by cases e
            refine inv_insert' (R := fun k v => SortedV v ∧ TreeV Pout (pre ++ [k]) v) hm ⟨SortedV_leaf (fun sub => hns _), (TreeV_leaf hns).mpr ?_⟩
            exact hplural pre base key cs fo ko r o ck hkey
              (fun x hx => ⟨(hcand base cs hmem x hx).1, (hcand base cs hmem x hx).2.2⟩) hmo)
          hacc hf
        refine ⟨rfl, ?_, ⟨hfin.1, (SortedK_iff keys').mpr (fun kv hkv => (hfin.2 kv hkv).1)⟩,
          (TreeK_iff Pout pre keys').mpr (fun kv hkv => (hfin.2 kv hkv).2)⟩
        -- depth
        have hd : gDepthK keys ≤ fuel := by
          apply gDepthK_le
          intro kv hkv
          by_cases hsub : ∃ sub, kv.2 = .subkeys (some sub)
          · obtain ⟨sub, e⟩ := hsub
            have hkv' : (kv.1, PV.subkeys (some sub)) ∈ keys := by rw [← e]; exact hkv
            obtain ⟨sub', w, hmp⟩ := loop_sub_ok orc locale fuel path keys [] [] [] _ hl kv.1 sub hkv'
            have htv := htK kv hkv
            have hsv := hsK kv hkv
            rw [e] at htv hsv
            obtain ⟨_, r2, _, _⟩ := ih _ sub sub' w (pre ++ [kv.1]) hmp ((SortedV_loc sub).mp hsv)
              ((TreeV_loc sub).mp htv)
            rw [e, gDepthV_loc]
            omega
          · rw [gDepthV_leaf (fun sub e => hsub ⟨sub, e⟩)]
            omega
        show gDepthK keys < fuel + 1
        omega
      · cases h
      · cases h

/-! ### `mergedLast` is the base key of `is_possible_plural` -/

theorem baseRule_fst (b0 : Str) : (baseRule b0).1 = (Str.stripSuffix "_ordinal".toList b0).getD b0 := by
  show (match Str.stripSuffix "_ordinal".toList b0 with
    | some b => (b, RuleTy.ordinal)
    | none => (b0, RuleTy.cardinal)).1 = _
  cases Str.stripSuffix "_ordinal".toList b0 <;> rfl

theorem mergedLast_snoc {k : Str} {v : PV} {base : Str} {rule : RuleTy} {form : Form} {key : Str} (pre : List Str)
    (hp : isPossiblePlural k v = some (base, rule, form)) (hk : Key.new base = some key) :
    mergedLast (pre ++ [k]) = some (pre ++ [key]) := by
  rw [isPossiblePlural_eq] at hp
  have hpv := hp
  split at hp
  · simp only [suffixParse] at hp
    cases hr : Str.rsplitOnceC '_' k with
    | none => rw [hr] at hp; cases hp
    | some bs =>
      obtain ⟨b0, suf⟩ := bs
      rw [hr] at hp
      simp only [Option.map_eq_some_iff, Prod.mk.injEq] at hp
      obtain ⟨f, _, hb, _, _⟩ := hp
      rw [baseRule_fst] at hb
      simp only [mergedLast, List.getLast?_concat, hr, hb, hk, List.dropLast_concat]
  · cases hp

theorem mergedLast_cons (k : Str) {q q' : List Str} (hq : q ≠ []) (h : mergedLast q = some q') :
    mergedLast (k :: q) = some (k :: q') := by
  cases q with
  | nil => exact absurd rfl hq
  | cons a as =>
    simp only [mergedLast, List.getLast?_cons_cons] at h ⊢
    cases hlast : (a :: as).getLast? with
    | none => rw [hlast] at h; cases h
    | some last =>
      rw [hlast] at h
      simp only at h ⊢
      cases hr : Str.rsplitOnceC '_' last with
      | none => rw [hr] at h; cases h
      | some bs =>
        obtain ⟨b0, suf⟩ := bs
        rw [hr] at h
        simp only at h ⊢
        cases hb : Key.new ((Str.stripSuffix "_ordinal".toList b0).getD b0) with
        | none => rw [hb] at h; cases h
        | some b =>
          rw [hb] at h
          simp only [Option.some.injEq] at h ⊢
          rw [← h]
          simp [List.dropLast]

theorem mergedLast_ne_nil {q q' : List Str} (h : mergedLast q = some q') : q' ≠ [] := by
  simp only [mergedLast] at h
  cases hlast : q.getLast? with
  | none => rw [hlast] at h; cases h
  | some last =>
    rw [hlast] at h
    simp only at h
    cases hr : Str.rsplitOnceC '_' last with
    | none => rw [hr] at h; cases h
    | some bs =>
      obtain ⟨b0, suf⟩ := bs
      rw [hr] at h
      simp only at h
      cases hb : Key.new ((Str.stripSuffix "_ordinal".toList b0).getD b0) with
      | none => rw [hb] at h; cases h
      | some b =>
        rw [hb] at h
        simp only [Option.some.injEq] at h
        rw [← h]
        simp

/-! ### `mergePlurals_ok`, `mergePlurals_cov` -/

theorem RawF_iff : ∀ (fs : List (Form × PV)), RawF fs = true ↔ ∀ x ∈ fs, Raw x.2 = true
  | [] => by simp [RawF]
  | (f, v) :: rest => by simp [RawF, RawF_iff rest]

theorem FKFreeF_iff : ∀ (fs : List (Form × PV)), FKFreeF fs = true ↔ ∀ x ∈ fs, FKFree x.2 = true
  | [] => by simp [FKFreeF]
  | (f, v) :: rest => by simp [FKFreeF, FKFreeF_iff rest]

theorem formsOf_val {cs : Cands} {y : Form × PV} (hy : y ∈ formsOf cs) : ∃ x ∈ cs, x.2.2.2 = y.2 := by
  obtain ⟨f, v⟩ := y
  obtain ⟨_, k, r, hm⟩ := (formsOf_mem cs f v).mp hy
  exact ⟨_, hm, rfl⟩

/-- success: the name is kept, the fuel bounded the group depth, the result is sorted and its leaves are `Raw` -/
theorem mergePlurals_ok (orc : Oracle) (locale : Str) :
    ∀ (fuel : Nat) (path : KeyPath) (l l' : Loc) (ws : List Warning) (pre : List Str),
      mergePlurals orc locale fuel path l = .ok (l', ws) → SortedTree l.keys →
      TreeK (fun _ v => Raw v = true) pre l.keys →
      l'.name = l.name ∧ gDepthK l.keys < fuel ∧ SortedTree l'.keys ∧ TreeK (fun _ v => Raw v = true) pre l'.keys := by
  apply mergePlurals_tree orc locale (fun _ v => Raw v = true) (fun _ v => Raw v = true)
  · intro q v _ h; exact h
  · intro pre base key cs fo ko r o ck _ hcs hmo
    simp only [Raw, Bool.and_eq_true]
    refine ⟨(hcs _ hmo).2, (RawF_iff _).mpr ?_⟩
    intro y hy
    obtain ⟨x, hx, e⟩ := formsOf_val hy
    rw [← e]
    exact (hcs x hx).2

/-- coverage: a leaf of the result in which a foreign key is visible is an old leaf with a foreign key (same
    path), or a plural built from old leaves one of which has a foreign key and whose path has this leaf's path as
    `mergedLast` -/
theorem mergePlurals_cov (orc : Oracle) (locale : Str) (C : List Str → Prop) :
    ∀ (fuel : Nat) (path : KeyPath) (l l' : Loc) (ws : List Warning) (pre : List Str),
      mergePlurals orc locale fuel path l = .ok (l', ws) → SortedTree l.keys →
      TreeK (fun q v => FKFree v = true ∨ C q) pre l.keys →
      TreeK (fun q' v' => FKFree v' = true ∨ C q' ∨ ∃ q, C q ∧ mergedLast q = some q') pre l'.keys := by
  intro fuel path l l' ws pre h hs ht
  refine (mergePlurals_tree orc locale (fun q v => FKFree v = true ∨ C q)
    (fun q' v' => FKFree v' = true ∨ C q' ∨ ∃ q, C q ∧ mergedLast q = some q') ?_ ?_
    fuel path l l' ws pre h hs ht).2.2.2
  · intro q v _ h
    rcases h with h | h
    · exact .inl h
    · exact .inr (.inl h)
  · intro pre base key cs fo ko r o ck hkey hcs hmo
    by_cases hex : ∃ x ∈ cs, FKFree x.2.2.2 = false
    · obtain ⟨x, hx, hfk⟩ := hex
      obtain ⟨hp, hpin⟩ := hcs x hx
      rcases hpin with hpin | hpin
      · rw [hfk] at hpin; cases hpin
      · exact .inr (.inr ⟨_, hpin, mergedLast_snoc pre hp hkey⟩)
    · have hall : ∀ x ∈ cs, FKFree x.2.2.2 = true := by
        intro x hx
        cases hfk : FKFree x.2.2.2
        · exact absurd ⟨x, hx, hfk⟩ hex
        · rfl
      refine .inl ?_
      simp only [FKFree, Bool.and_eq_true]
      refine ⟨hall _ hmo, (FKFreeF_iff _).mpr ?_⟩
      intro y hy
      obtain ⟨x, hx, e⟩ := formsOf_val hy
      rw [← e]
      exact hall x hx

/-! ### findability: `locGet`, presence of keys through the two loops -/

theorem locGet_single (keys : List (Str × PV)) (k : Str) : World.locGet keys [k] = .ok (AMap.get? k keys) := by
  simp [World.locGet]

theorem locGet_group (keys : List (Str × PV)) (k : Str) (q : List Str) (sub : Loc) (hq : q ≠ [])
    (hg : AMap.get? k keys = some (.subkeys (some sub))) : World.locGet keys (k :: q) = World.locGet sub.keys q := by
  cases q with
  | nil => exact absurd rfl hq
  | cons k2 rest =>
    rw [World.locGet]
    · rw [hg]
    · simp

theorem locGet_cons_some (keys : List (Str × PV)) (k : Str) (q : List Str) (v : PV) (hq : q ≠ [])
    (h : World.locGet keys (k :: q) = .ok (some v)) :
    ∃ sub, AMap.get? k keys = some (.subkeys (some sub)) ∧ World.locGet sub.keys q = .ok (some v) := by
  cases q with
  | nil => exact absurd rfl hq
  | cons k2 rest =>
    rw [World.locGet] at h
    · split at h
      · cases h
      · rename_i l hg
        exact ⟨l, hg, h⟩
      · cases h
      · cases h
    · simp

theorem get?_isSome_insert' {α : Type} (k k0 : Str) (v : α) (m : List (Str × α))
    (h : (AMap.get? k0 m).isSome = true) : (AMap.get? k0 (AMap.insert' k v m)).isSome = true := by
  by_cases e : k0 = k
  · subst e; rw [get?_insert'_self]; rfl
  · rw [get?_insert'_other k k0 v e]; exact h

/-- one step of the first loop -/
theorem loop_head (orc : Oracle) (locale : Str) (fuel : Nat) (path : KeyPath) (k : Str) (v : PV)
    (rest acc : List (Str × PV)) (groups : List (Str × Cands)) (ws : List Warning)
    (r : List (Str × PV) × List (Str × Cands) × List Warning)
    (h : mergePlurals.loop orc locale fuel path ((k, v) :: rest) acc groups ws = .ok r) :
    ∃ acc1 groups1 ws1, mergePlurals.loop orc locale fuel path rest acc1 groups1 ws1 = .ok r ∧
      ((∃ sub sub' w, v = .subkeys (some sub) ∧ mergePlurals orc locale fuel (pushKey path k) sub = .ok (sub', w) ∧
          acc1 = AMap.insert' k (.subkeys (some sub')) acc ∧ groups1 = groups) ∨
       ((∀ sub, v ≠ .subkeys (some sub)) ∧ isPossiblePlural k v = none ∧ acc1 = AMap.insert' k v acc ∧
          groups1 = groups) ∨
       (∃ base rule form, isPossiblePlural k v = some (base, rule, form) ∧
          (candInsert form (k, rule, v) ((AMap.get? base groups).getD [])).2 = false ∧ acc1 = acc ∧
          groups1 = AMap.insert' base (candInsert form (k, rule, v) ((AMap.get? base groups).getD [])).1 groups)) := by
  by_cases hsub : ∃ sub, v = .subkeys (some sub)
  · obtain ⟨sub, rfl⟩ := hsub
    rw [loop_subkeys] at h
    cases hm : mergePlurals orc locale fuel (pushKey path k) sub with
    | ok r0 =>
      obtain ⟨sub', w⟩ := r0
      rw [hm] at h
      exact ⟨_, _, _, h, .inl ⟨sub, sub', w, rfl, hm, rfl, rfl⟩⟩
    | err e => rw [hm] at h; cases h
    | panic p => rw [hm] at h; cases h
  · have hv : ∀ sub, v ≠ .subkeys (some sub) := fun sub e => hsub ⟨sub, e⟩
    cases hp : isPossiblePlural k v with
    | none =>
      rw [loop_ordinary _ _ _ _ _ _ _ _ _ _ hv hp] at h
      exact ⟨_, _, _, h, .inr (.inl ⟨hv, rfl, rfl, rfl⟩)⟩
    | some r0 =>
      obtain ⟨base, rule, form⟩ := r0
      rw [loop_candidate _ _ _ _ _ _ _ _ _ _ _ _ _ hp] at h
      cases hd : (candInsert form (k, rule, v) ((AMap.get? base groups).getD [])).2
      · rw [hd] at h
        simp only [Bool.false_eq_true, if_false] at h
        exact ⟨_, _, _, h, .inr (.inr ⟨base, rule, form, rfl, hd, rfl, rfl⟩)⟩
      · rw [hd] at h; simp at h

/-- one step of the second loop -/
theorem finish_head (orc : Oracle) (locale : Str) (path : KeyPath) (base : Str) (cands : Cands)
    (rest : List (Str × Cands)) (keys : List (Str × PV)) (ws : List Warning) (r : List (Str × PV) × List Warning)
    (h : finishGroups orc locale path ((base, cands) :: rest) keys ws = .ok r) :
    ∃ keys1 ws1, finishGroups orc locale path rest keys1 ws1 = .ok r ∧
      (keys1 = putBack keys cands ∨
       ∃ key rt o ck, Key.new base = some key ∧ keys1 = AMap.insert' key (.plurals rt ck o (formsOf cands)) keys) := by
  by_cases hl : cands.length = 1
  · rw [finish_single _ _ _ _ _ _ _ _ hl] at h
    exact ⟨_, _, h, .inl rfl⟩
  · cases hf : cands.find? (fun x => x.1 == .other) with
    | none =>
      rw [finish_no_other _ _ _ _ _ _ _ _ hf] at h
      exact ⟨_, _, h, .inl rfl⟩
    | some x =>
      obtain ⟨fo, ko, ruleTy, other⟩ := x
      rw [finish_merge _ _ _ _ _ _ _ _ fo ko ruleTy other hl hf] at h
      split at h
      · cases h
      · rename_i key hkey
        split at h
        · cases h
        · split at h
          · cases h
          · cases h
          · split at h
            · cases h
            · exact ⟨_, _, h, .inr ⟨key, ruleTy, other, _, hkey, rfl⟩⟩

theorem loop_present (orc : Oracle) (locale : Str) (fuel : Nat) (path : KeyPath) (k0 : Str)
    (keys acc : List (Str × PV)) (groups : List (Str × Cands)) (ws : List Warning)
    (acc' : List (Str × PV)) (groups' : List (Str × Cands)) (ws' : List Warning)
    (h0 : (AMap.get? k0 acc).isSome = true)
    (h : mergePlurals.loop orc locale fuel path keys acc groups ws = .ok (acc', groups', ws')) :
    (AMap.get? k0 acc').isSome = true :=
  loop_gen orc locale fuel path (fun m => (AMap.get? k0 m).isSome = true) keys acc groups ws acc' groups' ws'
    (fun _ _ m hm _ _ => get?_isSome_insert' _ _ _ m hm)
    (fun _ _ m _ _ _ hm _ _ => get?_isSome_insert' _ _ _ m hm) h0 h

theorem finish_present (orc : Oracle) (locale : Str) (path : KeyPath) (k0 : Str)
    (groups : List (Str × Cands)) (keys : List (Str × PV)) (ws : List Warning)
    (keys' : List (Str × PV)) (ws' : List Warning)
    (h0 : (AMap.get? k0 keys).isSome = true)
    (h : finishGroups orc locale path groups keys ws = .ok (keys', ws')) :
    (AMap.get? k0 keys').isSome = true :=
  finish_gen orc locale path (fun m => (AMap.get? k0 m).isSome = true) groups keys ws keys' ws'
    (fun _ _ _ _ _ m hm => get?_isSome_insert' _ _ _ m hm)
    (fun _ _ _ _ _ _ _ _ _ m _ _ hm _ => get?_isSome_insert' _ _ _ m hm) h0 h

theorem loop_sorted (orc : Oracle) (locale : Str) (fuel : Nat) (path : KeyPath)
    (keys acc : List (Str × PV)) (groups : List (Str × Cands)) (ws : List Warning)
    (acc' : List (Str × PV)) (groups' : List (Str × Cands)) (ws' : List Warning)
    (h0 : Sorted acc)
    (h : mergePlurals.loop orc locale fuel path keys acc groups ws = .ok (acc', groups', ws')) : Sorted acc' :=
  loop_gen orc locale fuel path (fun m => Sorted m) keys acc groups ws acc' groups' ws'
    (fun _ _ _ hm _ _ => (AMap.insert'_spec _ _ hm).1)
    (fun _ _ _ _ _ _ hm _ _ => (AMap.insert'_spec _ _ hm).1) h0 h

/-- an ordinary key is in the map after the first loop -/
theorem loop_ordinary_present (orc : Oracle) (locale : Str) (fuel : Nat) (path : KeyPath) (k : Str) (v : PV)
    (hv : ∀ sub, v ≠ .subkeys (some sub)) (hp : isPossiblePlural k v = none) :
    ∀ (keys acc : List (Str × PV)) (groups : List (Str × Cands)) (ws : List Warning)
      (acc' : List (Str × PV)) (groups' : List (Str × Cands)) (ws' : List Warning),
      (k, v) ∈ keys → mergePlurals.loop orc locale fuel path keys acc groups ws = .ok (acc', groups', ws') →
      (AMap.get? k acc').isSome = true
  | [], _, _, _, _, _, _, hm, _ => by cases hm
  | (k0, v0) :: rest, acc, groups, ws, acc', groups', ws', hm, h => by
    obtain ⟨acc1, groups1, ws1, h1, hstep⟩ := loop_head _ _ _ _ _ _ _ _ _ _ _ h
    rcases List.mem_cons.mp hm with e | hm
    · simp only [Prod.mk.injEq] at e
      obtain ⟨rfl, rfl⟩ := e
      rcases hstep with ⟨sub, _, _, e, _⟩ | ⟨_, _, rfl, _⟩ | ⟨b, r, f, e, _⟩
      · exact absurd e (hv sub)
      · exact loop_present _ _ _ _ _ _ _ _ _ _ _ _ (by rw [get?_insert'_self]; rfl) h1
      · rw [hp] at e; cases e
    · exact loop_ordinary_present orc locale fuel path k v hv hp rest _ _ _ _ _ _ hm h1

theorem groupsInv_step {P : Str → PV → Prop} {groups : List (Str × Cands)} (hinv : GroupsInv P groups)
    {k : Str} {v : PV} {base : Str} {rule : RuleTy} {form : Form}
    (hp : isPossiblePlural k v = some (base, rule, form)) (hP : P k v) :
    GroupsInv P (AMap.insert' base (candInsert form (k, rule, v) ((AMap.get? base groups).getD [])).1 groups) := by
  intro b cs hmem
  rcases mem_insert' _ _ _ _ hmem with e | hmem
  · simp only [Prod.mk.injEq] at e
    obtain ⟨rfl, rfl⟩ := e
    obtain ⟨hs, hall⟩ := groupsInv_cur hinv b
    obtain ⟨s1, _, s3, _⟩ := candInsert_spec form (k, rule, v) _ hs
    refine ⟨s1, fun x hx => ?_⟩
    rcases (s3 x).mp hx with rfl | ⟨hx, _⟩
    · exact ⟨hp, hP⟩
    · exact hall x hx
  · exact hinv b cs hmem

/-- a candidate key is in its group after the first loop -/
theorem loop_cand_present (orc : Oracle) (locale : Str) (fuel : Nat) (path : KeyPath) (k : Str) (v : PV)
    (base : Str) (rule : RuleTy) (form : Form) (hp : isPossiblePlural k v = some (base, rule, form)) :
    ∀ (keys acc : List (Str × PV)) (groups : List (Str × Cands)) (ws : List Warning)
      (acc' : List (Str × PV)) (groups' : List (Str × Cands)) (ws' : List Warning),
      ((k, v) ∈ keys ∨ ∃ cs, AMap.get? base groups = some cs ∧ ∃ x ∈ cs, x.2.1 = k) →
      GroupsInv (fun _ _ => True) groups →
      mergePlurals.loop orc locale fuel path keys acc groups ws = .ok (acc', groups', ws') →
      ∃ cs, AMap.get? base groups' = some cs ∧ ∃ x ∈ cs, x.2.1 = k
  | [], acc, groups, ws, acc', groups', ws', hyp, _, h => by
    rw [loop_nil] at h
    injection h with h
    simp only [Prod.mk.injEq] at h
    obtain ⟨_, rfl, _⟩ := h
    rcases hyp with hm | hr
    · cases hm
    · exact hr
  | (k0, v0) :: rest, acc, groups, ws, acc', groups', ws', hyp, hinv, h => by
    have hns := plain_not_subkeys (plainValue_of_possible hp)
    obtain ⟨acc1, groups1, ws1, h1, hstep⟩ := loop_head _ _ _ _ _ _ _ _ _ _ _ h
    rcases hstep with ⟨sub, _, _, e, _, _, rfl⟩ | ⟨_, hp0, _, rfl⟩ | ⟨b0, r0, f0, hp0, hd, _, rfl⟩
    · refine loop_cand_present orc locale fuel path k v base rule form hp rest _ _ _ _ _ _ ?_ hinv h1
      rcases hyp with hm | hr
      · rcases List.mem_cons.mp hm with e' | hm
        · simp only [Prod.mk.injEq] at e'
          obtain ⟨rfl, rfl⟩ := e'
          exact absurd e (hns _)
        · exact .inl hm
      · exact .inr hr
    · refine loop_cand_present orc locale fuel path k v base rule form hp rest _ _ _ _ _ _ ?_ hinv h1
      rcases hyp with hm | hr
      · rcases List.mem_cons.mp hm with e' | hm
        · simp only [Prod.mk.injEq] at e'
          obtain ⟨rfl, rfl⟩ := e'
          rw [hp] at hp0; cases hp0
        · exact .inl hm
      · exact .inr hr
    · refine loop_cand_present orc locale fuel path k v base rule form hp rest _ _ _ _ _ _ ?_
        (groupsInv_step hinv hp0 trivial) h1
      obtain ⟨hs, _⟩ := groupsInv_cur hinv b0
      obtain ⟨_, s2, s3, _⟩ := candInsert_spec f0 (k0, r0, v0) _ hs
      rcases hyp with hm | ⟨cs, hg, x, hx, hxk⟩
      · rcases List.mem_cons.mp hm with e' | hm
        · simp only [Prod.mk.injEq] at e'
          obtain ⟨rfl, rfl⟩ := e'
          rw [hp] at hp0
          simp only [Option.some.injEq, Prod.mk.injEq] at hp0
          obtain ⟨rfl, rfl, rfl⟩ := hp0
          exact .inr ⟨_, get?_insert'_self _ _ _, (form, k, rule, v), (s3 _).mpr (.inl rfl), rfl⟩
        · exact .inl hm
      · by_cases hb : b0 = base
        · subst hb
          refine .inr ⟨_, get?_insert'_self _ _ _, x, (s3 x).mpr (.inr ⟨?_, ?_⟩), hxk⟩
          · rw [hg]; exact hx
          · intro e
            have : (candInsert f0 (k0, r0, v0) ((AMap.get? b0 groups).getD [])).2 = true :=
              s2.mpr ⟨x, by rw [hg]; exact hx, e⟩
            rw [hd] at this; cases this
        · exact .inr ⟨cs, by rw [get?_insert'_other _ _ _ (fun e => hb e.symm)]; exact hg, x, hx, hxk⟩

/-- a group already in the map stays while only other keys are inserted -/
theorem loop_group_kept (orc : Oracle) (locale : Str) (fuel : Nat) (path : KeyPath) (g : Str) (G : PV)
    (keys acc : List (Str × PV)) (groups : List (Str × Cands)) (ws : List Warning)
    (acc' : List (Str × PV)) (groups' : List (Str × Cands)) (ws' : List Warning)
    (hne : ∀ kv ∈ keys, kv.1 ≠ g) (h0 : AMap.get? g acc = some G)
    (h : mergePlurals.loop orc locale fuel path keys acc groups ws = .ok (acc', groups', ws')) :
    AMap.get? g acc' = some G :=
  loop_gen orc locale fuel path (fun m => AMap.get? g m = some G) keys acc groups ws acc' groups' ws'
    (fun kv hkv m hm _ _ => by
      show AMap.get? g (AMap.insert' kv.1 kv.2 m) = some G
      rw [get?_insert'_other _ _ _ (fun e => hne kv hkv e.symm)]; exact hm)
    (fun kv hkv m _ _ _ hm _ _ => by
      show AMap.get? g (AMap.insert' kv.1 _ m) = some G
      rw [get?_insert'_other _ _ _ (fun e => hne kv hkv e.symm)]; exact hm) h0 h

/-- a group of the old map is, merged, in the map after the first loop -/
theorem loop_group_present (orc : Oracle) (locale : Str) (fuel : Nat) (path : KeyPath) (g : Str) (sub sub' : Loc)
    (w : List Warning) (hmp : mergePlurals orc locale fuel (pushKey path g) sub = .ok (sub', w)) :
    ∀ (keys acc : List (Str × PV)) (groups : List (Str × Cands)) (ws : List Warning)
      (acc' : List (Str × PV)) (groups' : List (Str × Cands)) (ws' : List Warning),
      keys.Pairwise (fun a b => a.1 ≠ b.1) → (g, PV.subkeys (some sub)) ∈ keys →
      mergePlurals.loop orc locale fuel path keys acc groups ws = .ok (acc', groups', ws') →
      AMap.get? g acc' = some (.subkeys (some sub'))
  | [], _, _, _, _, _, _, _, hm, _ => by cases hm
  | (k0, v0) :: rest, acc, groups, ws, acc', groups', ws', hpw, hm, h => by
    have hpw' := List.pairwise_cons.mp hpw
    obtain ⟨acc1, groups1, ws1, h1, hstep⟩ := loop_head _ _ _ _ _ _ _ _ _ _ _ h
    rcases List.mem_cons.mp hm with e | hm
    · simp only [Prod.mk.injEq] at e
      obtain ⟨rfl, rfl⟩ := e
      have hne : ∀ kv ∈ rest, kv.1 ≠ g := fun kv hkv e => hpw'.1 kv hkv e.symm
      rcases hstep with ⟨sub0, sub0', w0, e, hm0, rfl, _⟩ | ⟨hv, _⟩ | ⟨b, r, f, e, _⟩
      · simp only [PV.subkeys.injEq, Option.some.injEq] at e
        subst e
        rw [hmp] at hm0
        simp only [Res.ok.injEq, Prod.mk.injEq] at hm0
        obtain ⟨rfl, _⟩ := hm0
        exact loop_group_kept _ _ _ _ g _ rest _ _ _ _ _ _ hne (get?_insert'_self _ _ _) h1
      · exact absurd rfl (hv sub)
      · exact absurd rfl (plain_not_subkeys (plainValue_of_possible e) _)
    · exact loop_group_present orc locale fuel path g sub sub' w hmp rest _ _ _ _ _ _ hpw'.2 hm h1

/-- a group in the map stays through the second loop (a plural at its key would be rejected) -/
theorem finish_group_kept (orc : Oracle) (locale : Str) (path : KeyPath) (g : Str) (G : PV)
    (groups : List (Str × Cands)) (keys : List (Str × PV)) (ws : List Warning)
    (keys' : List (Str × PV)) (ws' : List Warning)
    (hne : ∀ base cs, (base, cs) ∈ groups → ∀ x ∈ cs, x.2.1 ≠ g)
    (hs : Sorted keys) (h0 : AMap.get? g keys = some G)
    (h : finishGroups orc locale path groups keys ws = .ok (keys', ws')) :
    AMap.get? g keys' = some G :=
  (finish_gen orc locale path (fun m => Sorted m ∧ AMap.get? g m = some G) groups keys ws keys' ws'
    (fun base cs hm x hx m hI => by
      refine ⟨(AMap.insert'_spec _ _ hI.1).1, ?_⟩
      rw [get?_insert'_other _ _ _ (fun e => hne base cs hm x hx e.symm)]; exact hI.2)
    (fun base cs hm key fo ko r o ck m _ _ hI hd => by
      refine ⟨(AMap.insert'_spec _ _ hI.1).1, ?_⟩
      by_cases e : g = key
      · subst e
        rw [insert_displaces _ _ _ m hI.1 hI.2] at hd
        cases hd
      · rw [get?_insert'_other _ _ _ e]; exact hI.2) ⟨hs, h0⟩ h).2

theorem putBack_present : ∀ (cs : Cands) (keys : List (Str × PV)) (x : Form × Str × RuleTy × PV), x ∈ cs →
    (AMap.get? x.2.1 (putBack keys cs)).isSome = true
  | [], _, _, hx => by cases hx
  | y :: cs, keys, x, hx => by
    show (AMap.get? x.2.1 (putBack (AMap.insert' y.2.1 y.2.2.2 keys) cs)).isSome = true
    rcases List.mem_cons.mp hx with rfl | hx
    · exact putBack_gen (fun m => (AMap.get? x.2.1 m).isSome = true) cs _
        (fun _ _ m hm => get?_isSome_insert' _ _ _ m hm) (by rw [get?_insert'_self]; rfl)
    · exact putBack_present cs _ x hx

/-- a candidate is put back under its own key, or something is stored under the base key of its group -/
theorem finish_cand_present (orc : Oracle) (locale : Str) (path : KeyPath) (base : Str) (cs : Cands)
    (x : Form × Str × RuleTy × PV) (hx : x ∈ cs) :
    ∀ (groups : List (Str × Cands)) (keys : List (Str × PV)) (ws : List Warning)
      (keys' : List (Str × PV)) (ws' : List Warning),
      (base, cs) ∈ groups → finishGroups orc locale path groups keys ws = .ok (keys', ws') →
      (AMap.get? x.2.1 keys').isSome = true ∨ ∃ key, Key.new base = some key ∧ (AMap.get? key keys').isSome = true
  | [], _, _, _, _, hm, _ => by cases hm
  | (b0, c0) :: rest, keys, ws, keys', ws', hm, h => by
    obtain ⟨keys1, ws1, h1, hstep⟩ := finish_head _ _ _ _ _ _ _ _ _ h
    rcases List.mem_cons.mp hm with e | hm
    · simp only [Prod.mk.injEq] at e
      obtain ⟨rfl, rfl⟩ := e
      rcases hstep with rfl | ⟨key, rt, o, ck, hkey, rfl⟩
      · exact .inl (finish_present _ _ _ _ _ _ _ _ _ (putBack_present cs keys x hx) h1)
      · exact .inr ⟨key, hkey, finish_present _ _ _ _ _ _ _ _ _ (by rw [get?_insert'_self]; rfl) h1⟩
    · exact finish_cand_present orc locale path base cs x hx rest _ _ _ _ hm h1

/-- findability: an old leaf is still stored under its path, or something is stored under `mergedLast` of its path -/
theorem mergePlurals_find (orc : Oracle) (locale : Str) :
    ∀ (fuel : Nat) (path : KeyPath) (l l' : Loc) (ws : List Warning),
      mergePlurals orc locale fuel path l = .ok (l', ws) → SortedTree l.keys →
      ∀ (q : List Str) (v : PV), World.locGet l.keys q = .ok (some v) → isGroup v = false →
        (∃ v', World.locGet l'.keys q = .ok (some v')) ∨
        (∃ q' v', mergedLast q = some q' ∧ World.locGet l'.keys q' = .ok (some v'))
  | 0, path, l, l', ws, h, _, _, _, _, _ => by simp [mergePlurals] at h
  | fuel + 1, path, .mk n t keys ss c, l', ws, h, hs, q, v, hq, hv => by
    have hs : SortedTree keys := hs
    have hq : World.locGet keys q = .ok (some v) := hq
    rw [mergePlurals_succ] at h
    split at h
    · cases h
    · cases h
    · rename_i acc groups ws0 hl
      split at h
      · rename_i keys' ws1 hf
        simp only [Res.ok.injEq, Prod.mk.injEq] at h
        obtain ⟨rfl, _⟩ := h
        show (∃ v', World.locGet keys' q = .ok (some v')) ∨
          (∃ q' v', mergedLast q = some q' ∧ World.locGet keys' q' = .ok (some v'))
        cases q with
        | nil => simp [World.locGet] at hq
        | cons k q2 =>
          by_cases hq2 : q2 = []
          · subst hq2
            rw [locGet_single] at hq
            injection hq with hq
            have hmem := get?_mem k v keys hq
            have hnsub : ∀ sub, v ≠ .subkeys (some sub) := by
              intro sub e; subst e; simp [isGroup] at hv
            cases hp : isPossiblePlural k v with
            | none =>
              have h1 := loop_ordinary_present orc locale fuel path k v hnsub hp keys [] [] [] acc groups ws0 hmem hl
              have h2 := finish_present orc locale path k groups acc ws0 keys' ws1 h1 hf
              obtain ⟨v', hv'⟩ := Option.isSome_iff_exists.mp h2
              exact .inl ⟨v', by rw [locGet_single, hv']⟩
            | some r =>
              obtain ⟨base, rule, form⟩ := r
              obtain ⟨cs, hg, x, hx, hxk⟩ := loop_cand_present orc locale fuel path k v base rule form hp
                keys [] [] [] acc groups ws0 (.inl hmem) (fun b cs hm => by cases hm) hl
              have hgm := get?_mem base cs groups hg
              rcases finish_cand_present orc locale path base cs x hx groups acc ws0 keys' ws1 hgm hf with
                h2 | ⟨key, hkey, h2⟩
              · rw [hxk] at h2
                obtain ⟨v', hv'⟩ := Option.isSome_iff_exists.mp h2
                exact .inl ⟨v', by rw [locGet_single, hv']⟩
              · obtain ⟨v', hv'⟩ := Option.isSome_iff_exists.mp h2
                have hml := mergedLast_snoc [] hp hkey
                simp only [List.nil_append] at hml
                exact .inr ⟨[key], v', hml, by rw [locGet_single, hv']⟩
          · obtain ⟨sub, hg, hsubq⟩ := locGet_cons_some keys k q2 v hq2 hq
            have hmem := get?_mem k _ keys hg
            obtain ⟨sub', w, hmp⟩ := loop_sub_ok orc locale fuel path keys [] [] [] _ hl k sub hmem
            have hsv := (SortedV_loc sub).mp ((SortedK_iff keys).mp hs.2 _ hmem)
            have ih := mergePlurals_find orc locale fuel _ sub sub' w hmp hsv q2 v hsubq hv
            have hpw : keys.Pairwise (fun a b => a.1 ≠ b.1) :=
              List.Pairwise.imp (fun h => AMap.strLt_ne h) hs.1
            have hacc := loop_group_present orc locale fuel path k sub sub' w hmp keys [] [] [] acc groups ws0
              hpw hmem hl
            have hsacc : Sorted acc :=
              loop_sorted orc locale fuel path keys [] [] [] acc groups ws0 List.Pairwise.nil hl
            have hG : GroupsInv (fun k v => (k, v) ∈ keys) groups :=
              loop_inv orc locale fuel path _ keys [] [] [] acc groups ws0 (fun kv hkv => hkv)
                (fun b cs hm => by cases hm) hl
            have hne : ∀ base cs, (base, cs) ∈ groups → ∀ x ∈ cs, x.2.1 ≠ k := by
              intro base cs hm x hx e
              obtain ⟨hp, hxm⟩ := (hG base cs hm).2 x hx
              have hxm' : (k, x.2.2.2) ∈ keys := e ▸ hxm
              exact plain_not_subkeys (plainValue_of_possible hp) _ (sorted_unique hs.1 hxm' hmem)
            have hfin := finish_group_kept orc locale path k _ groups acc ws0 keys' ws1 hne hsacc hacc hf
            rcases ih with ⟨v', hv'⟩ | ⟨q', v', hml, hv'⟩
            · exact .inl ⟨v', by rw [locGet_group keys' k q2 sub' hq2 hfin]; exact hv'⟩
            · exact .inr ⟨k :: q', v', mergedLast_cons k hq2 hml, by
                rw [locGet_group keys' k q' sub' (mergedLast_ne_nil hml) hfin]; exact hv'⟩
      · cases h
      · cases h

end I18nVerif.PipeInv
