import I18nVerif.Model.Plurals
import I18nVerif.Model.Foreign
import I18nVerif.Spec.Eval
import I18nVerif.Spec.PluralSpec
/-! Helper lemmas for C05 (plurals). -/
namespace I18nVerif.Plurals
open I18nVerif Str PluralSpec Foreign Eval

/-! ### `split_once(c)`, `rsplit_once(c)`, `strip_suffix` -/

theorem splitOnceC_some {d : Char} : ∀ {s a b : Str}, splitOnceC d s = some (a, b) → s = a ++ d :: b ∧ d ∉ a
  | [], a, b, h => by simp [splitOnceC] at h
  | c :: cs, a, b, h => by
    simp only [splitOnceC] at h
    by_cases hc : (c == d) = true
    · simp only [hc, if_true, Option.some.injEq, Prod.mk.injEq] at h
      obtain ⟨rfl, rfl⟩ := h
      simp only [beq_iff_eq] at hc
      simp [hc]
    · simp only [hc] at h
      cases hr : splitOnceC d cs with
      | none => simp [hr] at h
      | some ab =>
        obtain ⟨a', b'⟩ := ab
        simp only [hr] at h
        obtain ⟨rfl, rfl⟩ := h
        obtain ⟨h1, h2⟩ := splitOnceC_some hr
        simp only [beq_iff_eq] at hc
        refine ⟨by simp [h1], ?_⟩
        intro hm
        rcases List.mem_cons.mp hm with e | hm
        · exact hc e.symm
        · exact h2 hm

theorem splitOnceC_append {d : Char} : ∀ (a b : Str), d ∉ a → splitOnceC d (a ++ d :: b) = some (a, b)
  | [], b, _ => by simp [splitOnceC]
  | c :: cs, b, h => by
    have hc : ¬ c = d := fun e => h (by simp [e])
    have hcs : d ∉ cs := fun e => h (by simp [e])
    simp [splitOnceC, hc, splitOnceC_append cs b hcs]

theorem splitOnceC_none {d : Char} : ∀ (s : Str), d ∉ s → splitOnceC d s = none
  | [], _ => by simp [splitOnceC]
  | c :: cs, h => by
    have hc : ¬ c = d := fun e => h (by simp [e])
    have hcs : d ∉ cs := fun e => h (by simp [e])
    simp [splitOnceC, hc, splitOnceC_none cs hcs]

/-- `rsplit_once(d)` splits at the last `d`: the part after it has no `d` -/
theorem rsplitOnceC_iff {d : Char} {s a b : Str} :
    rsplitOnceC d s = some (a, b) ↔ s = a ++ d :: b ∧ d ∉ b := by
  constructor
  · intro h
    simp only [rsplitOnceC] at h
    cases hr : splitOnceC d s.reverse with
    | none => simp [hr] at h
    | some xy =>
      obtain ⟨x, y⟩ := xy
      simp only [hr, Option.some.injEq, Prod.mk.injEq] at h
      obtain ⟨rfl, rfl⟩ := h
      obtain ⟨h1, h2⟩ := splitOnceC_some hr
      constructor
      · have := congrArg List.reverse h1
        simpa using this
      · simpa using h2
  · rintro ⟨rfl, hb⟩
    have : (a ++ d :: b).reverse = b.reverse ++ d :: a.reverse := by simp
    simp only [rsplitOnceC, this]
    rw [splitOnceC_append _ _ (by simpa using hb)]
    simp

theorem rsplitOnceC_none {d : Char} {s : Str} (h : d ∉ s) : rsplitOnceC d s = none := by
  simp only [rsplitOnceC]
  rw [splitOnceC_none _ (by simpa using h)]

theorem stripSuffix_iff {pat s b : Str} : stripSuffix pat s = some b ↔ s = b ++ pat := by
  simp only [stripSuffix]
  constructor
  · intro h
    by_cases hp : pat.reverse.isPrefixOf s.reverse = true
    · simp only [hp, if_true, Option.some.injEq] at h
      rw [List.isPrefixOf_iff_prefix, List.reverse_prefix] at hp
      obtain ⟨t, rfl⟩ := hp
      subst h
      simp
    · simp [hp] at h
  · rintro rfl
    have hp : pat.reverse.isPrefixOf (b ++ pat).reverse = true := by
      rw [List.isPrefixOf_iff_prefix, List.reverse_prefix]; exact List.suffix_append b pat
    simp

theorem stripSuffix_none_iff {pat s : Str} : stripSuffix pat s = none ↔ ¬ ∃ b, s = b ++ pat := by
  constructor
  · intro h ⟨b, hb⟩
    rw [stripSuffix_iff.mpr hb] at h; cases h
  · intro h
    cases hs : stripSuffix pat s with
    | none => rfl
    | some b => exact absurd ⟨b, stripSuffix_iff.mp hs⟩ h

theorem ofStr_iff {s : Str} {f : Form} : Form.ofStr s = some f ↔ s = f.name.toList := by
  constructor
  · intro h
    simp only [Form.ofStr] at h
    repeat' split at h
    all_goals first
      | (simp only [Option.some.injEq] at h; subst h; simp_all [Form.name])
      | simp at h
  · rintro rfl
    cases f <;> decide

theorem form_name_no_underscore (f : Form) : '_' ∉ f.name.toList := by
  cases f <;> decide

/-- `strip_suffix("_ordinal")` decides the rule type -/
def baseRule (b0 : Str) : Str × RuleTy :=
  match stripSuffix ordinalMark b0 with
  | some b => (b, .ordinal)
  | none => (b0, .cardinal)

/-- the part of `is_possible_plural` that looks at the key only -/
def suffixParse (key : Str) : Option (Str × RuleTy × Form) :=
  match rsplitOnceC '_' key with
  | none => none
  | some (b0, suf) => (Form.ofStr suf).map (fun f => ((baseRule b0).1, (baseRule b0).2, f))

theorem isPossiblePlural_eq (key : Str) (v : PV) :
    isPossiblePlural key v = if plainValue v then suffixParse key else none := by
  cases v <;> rfl

theorem baseRule_iff (b0 base : Str) (rule : RuleTy) :
    baseRule b0 = (base, rule) ↔
      (rule = .ordinal ∧ b0 = base ++ ordinalMark) ∨
      (rule = .cardinal ∧ b0 = base ∧ ¬ ∃ b, base = b ++ ordinalMark) := by
  simp only [baseRule]
  cases hs : stripSuffix ordinalMark b0 with
  | some b =>
    rw [stripSuffix_iff] at hs
    subst hs
    constructor
    · intro h
      simp only [Prod.mk.injEq] at h
      obtain ⟨rfl, rfl⟩ := h
      exact Or.inl ⟨rfl, rfl⟩
    · rintro (⟨rfl, h⟩ | ⟨rfl, rfl, h⟩)
      · have := List.append_cancel_right h
        simp [this]
      · exact absurd ⟨b, rfl⟩ h
  | none =>
    rw [stripSuffix_none_iff] at hs
    constructor
    · intro h
      simp only [Prod.mk.injEq] at h
      obtain ⟨rfl, rfl⟩ := h
      exact Or.inr ⟨rfl, rfl, hs⟩
    · rintro (⟨rfl, h⟩ | ⟨rfl, rfl, h⟩)
      · exact absurd ⟨base, h⟩ hs
      · rfl

theorem suffixParse_iff (key base : Str) (rule : RuleTy) (form : Form) :
    suffixParse key = some (base, rule, form) ↔
      key = pluralKey base rule form ∧ (rule = .cardinal → ¬ ∃ b, base = b ++ ordinalMark) := by
  constructor
  · intro h
    simp only [suffixParse] at h
    cases hr : rsplitOnceC '_' key with
    | none => simp [hr] at h
    | some bs =>
      obtain ⟨b0, suf⟩ := bs
      obtain ⟨hkey, _⟩ := rsplitOnceC_iff.mp hr
      simp only [hr, Option.map_eq_some_iff, Prod.mk.injEq] at h
      obtain ⟨f, hf, h1, h2, rfl⟩ := h
      rw [ofStr_iff] at hf
      subst hf
      have hb : baseRule b0 = (base, rule) := by rw [← h1, ← h2]
      rcases (baseRule_iff b0 base rule).mp hb with ⟨rfl, rfl⟩ | ⟨rfl, rfl, hn⟩
      · refine ⟨?_, by simp⟩
        simp [hkey, pluralKey, suffix, ruleMark]
      · refine ⟨?_, fun _ => hn⟩
        simp [hkey, pluralKey, suffix, ruleMark]
  · rintro ⟨rfl, hc⟩
    have hr : rsplitOnceC '_' (pluralKey base rule form)
        = some (base ++ ruleMark rule, form.name.toList) :=
      rsplitOnceC_iff.mpr ⟨by simp [pluralKey, suffix], form_name_no_underscore form⟩
    have hb : baseRule (base ++ ruleMark rule) = (base, rule) := by
      rw [baseRule_iff]
      cases rule with
      | ordinal => exact Or.inl ⟨rfl, rfl⟩
      | cardinal => exact Or.inr ⟨rfl, by simp [ruleMark], hc rfl⟩
    simp only [suffixParse, hr, hb, ofStr_iff.mpr rfl, Option.map_some]


/-! ### rendering: `evalForm` / `selectForm` are `pick` -/

theorem evalForm_nil (ρ : Env) (f : Form) : evalForm ρ f [] = none := by simp [evalForm]
theorem evalForm_cons (ρ : Env) (f f' : Form) (v : PV) (rest : List (Form × PV)) :
    evalForm ρ f ((f', v) :: rest) = if f' == f then some (eval ρ v) else evalForm ρ f rest := by
  simp [evalForm]

theorem selectForm_nil (orc : Oracle) (locale : Str) (args : List (Str × PV)) (f : Form) :
    selectForm orc locale args f [] = none := by simp [selectForm]
theorem selectForm_cons (orc : Oracle) (locale : Str) (args : List (Str × PV)) (f f' : Form) (v : PV)
    (rest : List (Form × PV)) :
    selectForm orc locale args f ((f', v) :: rest)
      = if f' == f then some (populate orc locale args v) else selectForm orc locale args f rest := by
  simp [selectForm]

theorem eval_plurals_pick (ρ : Env) (rule : RuleTy) (ck : Str) (other : PV) (forms : List (Form × PV)) :
    eval ρ (.plurals rule ck other forms) = eval ρ (pick (ρ.cat rule (ρ.count ck)) forms other) := by
  have h : ∀ (f : Form) (forms : List (Form × PV)),
      (match evalForm ρ f forms with | some s => s | none => eval ρ other) = eval ρ (pick f forms other) := by
    intro f forms
    induction forms with
    | nil => simp [evalForm_nil, pick]
    | cons x xs ih =>
      obtain ⟨f', v⟩ := x
      by_cases hf : f' = f
      · simp [evalForm_cons, pick, hf]
      · have : (f' == f) = false := by simpa using hf
        simp only [evalForm_cons, this, pick, hf, if_false]
        exact ih
  simp only [eval]
  exact h _ _

theorem selectForm_pick (orc : Oracle) (locale : Str) (args : List (Str × PV)) (f : Form) (other : PV)
    (forms : List (Form × PV)) :
    (match selectForm orc locale args f forms with
      | some r => r
      | none => populate orc locale args other) = populate orc locale args (pick f forms other) := by
  induction forms with
  | nil => simp [selectForm_nil, pick]
  | cons x xs ih =>
    obtain ⟨f', v⟩ := x
    by_cases hf : f' = f
    · simp [selectForm_cons, pick, hf]
    · have : (f' == f) = false := by simpa using hf
      simp only [selectForm_cons, this, pick, hf, if_false]
      exact ih

theorem pick_other_absent (forms : List (Form × α)) (other : α) (f : Form) (h : ∀ x ∈ forms, x.1 ≠ f) :
    pick f forms other = other := by
  induction forms with
  | nil => rfl
  | cons x xs ih =>
    obtain ⟨f', v⟩ := x
    have : ¬ f' = f := h (f', v) (by simp)
    simp only [pick, this, if_false]
    exact ih (fun y hy => h y (by simp [hy]))

/-- the numeric literals (`Plurals::populate_with_count_arg` rejects strings and booleans) -/
def numericLit : Lit → Bool
  | .signed _ | .unsigned _ | .float _ => true
  | _ => false

theorem populate_plurals_lit (orc : Oracle) (locale : Str) (args : List (Str × PV)) (rule : RuleTy) (ck : Str)
    (other : PV) (forms : List (Form × PV)) (l : Lit) (cs : List Form) (f : Form)
    (harg : AMap.get? countArgName args = some (.lit l)) (hl : numericLit l = true)
    (hcats : orc.cats locale rule = some cs) (hcat : orc.cat locale rule (operandKey l) = some f)
    (hno : ∀ x ∈ forms, x.1 ≠ .other) :
    populate orc locale args (.plurals rule ck other forms) = populate orc locale args (pick f forms other) := by
  have key : (match f with
      | .other => populate orc locale args other
      | f => match selectForm orc locale args f forms with
        | some r => r
        | none => populate orc locale args other) = populate orc locale args (pick f forms other) := by
    cases f
    case other => simp only; rw [pick_other_absent forms other .other hno]
    all_goals exact selectForm_pick orc locale args _ other forms
  rw [← key]
  cases l with
  | str s i => simp [numericLit] at hl
  | bool b => simp [numericLit] at hl
  | signed i => simp only [populate, harg, hcats, hcat]; cases f <;> rfl
  | unsigned n => simp only [populate, harg, hcats, hcat]; cases f <;> rfl
  | float d => simp only [populate, harg, hcats, hcat]; cases f <;> rfl


/-! ### `check_forms` -/
theorem checkForms_ok (orc : Oracle) (locale : Str) (path : KeyPath) (rule : RuleTy) (forms : List (Form × PV))
    (cats : List Form) (h : orc.cats locale rule = some cats) :
    checkForms orc locale path rule forms
      = .ok ((unused cats forms).map (fun f => Warning.unusedForm locale path f rule)) := by
  simp only [checkForms, h, unused]
  congr 1
  induction forms with
  | nil => rfl
  | cons x xs ih =>
    obtain ⟨f, v⟩ := x
    simp only [List.filter_cons, List.map_cons]
    cases hc : (!cats.contains f) <;> simp only [Bool.false_eq_true, if_false, if_true, List.map_cons, ih]

theorem checkForms_err (orc : Oracle) (locale : Str) (path : KeyPath) (rule : RuleTy) (forms : List (Form × PV))
    (h : orc.cats locale rule = none) :
    checkForms orc locale path rule forms = .err "InvalidLocale" := by
  simp [checkForms, h]

/-! ### `candInsert` -/
abbrev FormsSorted (cs : Cands) : Prop := cs.Pairwise (fun a b => a.1.toNat < b.1.toNat)

theorem form_toNat_inj {f g : Form} (h : f.toNat = g.toNat) : f = g := by
  cases f <;> cases g <;> simp [Form.toNat] at h <;> rfl

theorem candInsert_same (f : Form) (e e' : Str × RuleTy × PV) (rest : Cands) :
    candInsert f e ((f, e') :: rest) = ((f, e) :: rest, true) := by simp [candInsert]

theorem candInsert_before (f f' : Form) (e e' : Str × RuleTy × PV) (rest : Cands) (h : f.toNat < f'.toNat) :
    candInsert f e ((f', e') :: rest) = ((f, e) :: (f', e') :: rest, false) := by
  have : (f' == f) = false := by
    cases hf : f' == f
    · rfl
    · simp only [beq_iff_eq] at hf; subst hf; omega
  simp [candInsert, this, h]

theorem candInsert_after (f f' : Form) (e e' : Str × RuleTy × PV) (rest : Cands) (h : f'.toNat < f.toNat) :
    candInsert f e ((f', e') :: rest) = ((f', e') :: (candInsert f e rest).1, (candInsert f e rest).2) := by
  have : (f' == f) = false := by
    cases hf : f' == f
    · rfl
    · simp only [beq_iff_eq] at hf; subst hf; omega
  have h2 : ¬ f.toNat < f'.toNat := by omega
  simp [candInsert, this, h2]

theorem candInsert_spec (f : Form) (e : Str × RuleTy × PV) :
    ∀ (cs : Cands), FormsSorted cs →
      FormsSorted (candInsert f e cs).1 ∧
      ((candInsert f e cs).2 = true ↔ ∃ x ∈ cs, x.1 = f) ∧
      (∀ y, y ∈ (candInsert f e cs).1 ↔ y = (f, e) ∨ (y ∈ cs ∧ y.1 ≠ f)) ∧
      ((candInsert f e cs).2 = false → (candInsert f e cs).1.length = cs.length + 1)
  | [], _ => by simp [candInsert, FormsSorted]
  | (f', e') :: rest, hs => by
    have hs' : FormsSorted rest := (List.pairwise_cons.mp hs).2
    have hlt : ∀ y ∈ rest, f'.toNat < y.1.toNat := (List.pairwise_cons.mp hs).1
    by_cases h1 : f' = f
    · subst h1
      rw [candInsert_same]
      refine ⟨?_, ?_, ?_, by simp⟩
      · exact List.pairwise_cons.mpr ⟨hlt, hs'⟩
      · simp
      · intro y
        simp only [List.mem_cons]
        constructor
        · rintro (h | h)
          · exact Or.inl h
          · refine Or.inr ⟨Or.inr h, ?_⟩
            intro e; have := hlt y h; rw [e] at this; omega
        · rintro (h | ⟨h | h, hne⟩)
          · exact Or.inl h
          · subst h; exact absurd rfl hne
          · exact Or.inr h
    · have h1' : (f' == f) = false := by simpa using h1
      by_cases h2 : f.toNat < f'.toNat
      · rw [candInsert_before f f' e e' rest h2]
        refine ⟨?_, ?_, ?_, by simp⟩
        · refine List.pairwise_cons.mpr ⟨?_, hs⟩
          intro y hy
          rcases List.mem_cons.mp hy with rfl | hy
          · exact h2
          · have := hlt y hy; simp only at *; omega
        · simp only [Bool.false_eq_true, false_iff, not_exists, not_and]
          intro x hx e
          rcases List.mem_cons.mp hx with rfl | hx
          · exact h1 e
          · have := hlt x hx; rw [e] at this; omega
        · intro y
          simp only [List.mem_cons]
          constructor
          · rintro (h | h | h)
            · exact Or.inl h
            · subst h; exact Or.inr ⟨Or.inl rfl, h1⟩
            · refine Or.inr ⟨Or.inr h, ?_⟩
              intro e; have := hlt y h; rw [e] at this; omega
          · rintro (h | ⟨h | h, _⟩)
            · exact Or.inl h
            · exact Or.inr (Or.inl h)
            · exact Or.inr (Or.inr h)
      · obtain ⟨ih1, ih2, ih3, ih4⟩ := candInsert_spec f e rest hs'
        have hgt : f'.toNat < f.toNat := by
          have : f'.toNat ≠ f.toNat := fun e => h1 (form_toNat_inj e)
          omega
        rw [candInsert_after f f' e e' rest hgt]
        refine ⟨?_, ?_, ?_, ?_⟩
        · refine List.pairwise_cons.mpr ⟨?_, ih1⟩
          intro y hy
          rcases (ih3 y).mp hy with rfl | ⟨hy, _⟩
          · exact hgt
          · exact hlt y hy
        · rw [ih2]
          constructor
          · rintro ⟨x, hx, e⟩; exact ⟨x, by simp [hx], e⟩
          · rintro ⟨x, hx, e⟩
            rcases List.mem_cons.mp hx with rfl | hx
            · exact absurd e h1
            · exact ⟨x, hx, e⟩
        · intro y
          simp only [List.mem_cons, ih3 y]
          constructor
          · rintro (h | h | ⟨h, hne⟩)
            · subst h; exact Or.inr ⟨Or.inl rfl, h1⟩
            · exact Or.inl h
            · exact Or.inr ⟨Or.inr h, hne⟩
          · rintro (h | ⟨h | h, hne⟩)
            · exact Or.inr (Or.inl h)
            · exact Or.inl h
            · exact Or.inr (Or.inr ⟨h, hne⟩)
        · intro hd
          simp only [List.length_cons, ih4 hd]

/-! ### `finishGroups`, one group -/

/-- candidates that do not become a plural are put back under their own keys -/
def putBack (keys : List (Str × PV)) (cs : Cands) : List (Str × PV) :=
  cs.foldl (fun m (x : Form × Str × RuleTy × PV) => AMap.insert' x.2.1 x.2.2.2 m) keys

def othersOf (cs : Cands) : Cands := cs.filter (fun x => x.1 != .other)
def formsOf (cs : Cands) : List (Form × PV) := (othersOf cs).map (fun x => (x.1, x.2.2.2))

theorem finish_single (orc : Oracle) (locale : Str) (path : KeyPath) (base : Str) (cands : Cands)
    (rest : List (Str × Cands)) (keys : List (Str × PV)) (ws : List Warning) (h : cands.length = 1) :
    finishGroups orc locale path ((base, cands) :: rest) keys ws
      = finishGroups orc locale path rest (putBack keys cands) ws := by
  simp only [finishGroups, h, beq_self_eq_true, if_true]
  rfl

theorem finish_no_other (orc : Oracle) (locale : Str) (path : KeyPath) (base : Str) (cands : Cands)
    (rest : List (Str × Cands)) (keys : List (Str × PV)) (ws : List Warning)
    (h : cands.find? (fun x => x.1 == .other) = none) :
    finishGroups orc locale path ((base, cands) :: rest) keys ws
      = finishGroups orc locale path rest (putBack keys cands) ws := by
  by_cases hl : cands.length = 1
  · exact finish_single orc locale path base cands rest keys ws hl
  · have hl' : (cands.length == 1) = false := by simpa using hl
    have h' : cands.find? (fun (x : Form × Str × RuleTy × PV) => match x with | (f, _) => f == .other) = none := h
    simp only [finishGroups, hl', h']
    rfl

/-- the outcome of a group with ≥ 2 candidates including `other` -/
theorem finish_merge (orc : Oracle) (locale : Str) (path : KeyPath) (base : Str) (cands : Cands)
    (rest : List (Str × Cands)) (keys : List (Str × PV)) (ws : List Warning)
    (fo : Form) (ko : Str) (ruleTy : RuleTy) (other : PV)
    (hl : cands.length ≠ 1)
    (h : cands.find? (fun x => x.1 == .other) = some (fo, ko, ruleTy, other)) :
    finishGroups orc locale path ((base, cands) :: rest) keys ws =
      match Key.new base with
      | none => .err "InvalidKey"
      | some key =>
        if (othersOf cands).any (fun x => x.2.2.1 != ruleTy) then .err "ConflictingPluralRuleType"
        else
          match checkForms orc locale (pushKey path key) ruleTy (formsOf cands) with
          | .err e => .err e
          | .panic p => .panic p
          | .ok ws' =>
            if (AMap.insert key (.plurals ruleTy "var_count".toList other (formsOf cands)) keys).2.isSome
            then .err "PluralsAtNormalKey"
            else finishGroups orc locale path rest
              (AMap.insert' key (.plurals ruleTy "var_count".toList other (formsOf cands)) keys) (ws ++ ws') := by
  have hl' : (cands.length == 1) = false := by simpa using hl
  have h' : cands.find? (fun (x : Form × Str × RuleTy × PV) => match x with | (f, _) => f == .other)
      = some (fo, ko, ruleTy, other) := h
  simp only [finishGroups, hl', h']
  cases Key.new base with
  | none => rfl
  | some key =>
    simp only [Bool.false_eq_true, if_false]
    rfl

/-! ### first loop of `merge_plurals`, one key -/
theorem plainValue_of_possible {k : Str} {v : PV} {r : Str × RuleTy × Form} (h : isPossiblePlural k v = some r) :
    plainValue v = true := by
  rw [isPossiblePlural_eq] at h
  cases hp : plainValue v
  · simp [hp] at h
  · rfl

/-- one step of the first loop on a key whose value is not a nested locale -/
theorem loop_step (orc : Oracle) (locale : Str) (fuel : Nat) (path : KeyPath) (k : Str) (v : PV)
    (rest acc : List (Str × PV)) (groups : List (Str × Cands)) (ws : List Warning)
    (hv : ∀ sub, v ≠ .subkeys (some sub)) :
    mergePlurals.loop orc locale fuel path ((k, v) :: rest) acc groups ws =
      match isPossiblePlural k v with
      | some (base, rule, form) =>
        if (candInsert form (k, rule, v) ((AMap.get? base groups).getD [])).2 then .err "ConflictingPluralRuleType"
        else mergePlurals.loop orc locale fuel path rest acc
          (AMap.insert' base (candInsert form (k, rule, v) ((AMap.get? base groups).getD [])).1 groups) (ws ++ [])
      | none => mergePlurals.loop orc locale fuel path rest (AMap.insert' k v acc) groups (ws ++ []) := by
  cases v with
  | subkeys l =>
    cases l with
    | none => rfl
    | some sub => exact absurd rfl (hv sub)
  | _ => rfl

theorem loop_nil (orc : Oracle) (locale : Str) (fuel : Nat) (path : KeyPath)
    (acc : List (Str × PV)) (groups : List (Str × Cands)) (ws : List Warning) :
    mergePlurals.loop orc locale fuel path [] acc groups ws = .ok (acc, groups, ws) := rfl

theorem loop_candidate (orc : Oracle) (locale : Str) (fuel : Nat) (path : KeyPath) (k : Str) (v : PV)
    (rest acc : List (Str × PV)) (groups : List (Str × Cands)) (ws : List Warning)
    (base : Str) (rule : RuleTy) (form : Form) (hp : isPossiblePlural k v = some (base, rule, form)) :
    mergePlurals.loop orc locale fuel path ((k, v) :: rest) acc groups ws =
      if (candInsert form (k, rule, v) ((AMap.get? base groups).getD [])).2 then .err "ConflictingPluralRuleType"
      else mergePlurals.loop orc locale fuel path rest acc
        (AMap.insert' base (candInsert form (k, rule, v) ((AMap.get? base groups).getD [])).1 groups) ws := by
  have hv := plainValue_of_possible hp
  rw [loop_step _ _ _ _ _ _ _ _ _ _ (by intro sub e; subst e; simp [plainValue] at hv), hp]
  simp only [List.append_nil]

theorem loop_ordinary (orc : Oracle) (locale : Str) (fuel : Nat) (path : KeyPath) (k : Str) (v : PV)
    (rest acc : List (Str × PV)) (groups : List (Str × Cands)) (ws : List Warning)
    (hv : ∀ sub, v ≠ .subkeys (some sub)) (hp : isPossiblePlural k v = none) :
    mergePlurals.loop orc locale fuel path ((k, v) :: rest) acc groups ws =
      mergePlurals.loop orc locale fuel path rest (AMap.insert' k v acc) groups ws := by
  rw [loop_step _ _ _ _ _ _ _ _ _ _ hv, hp]
  simp only [List.append_nil]

theorem mergePlurals_succ (orc : Oracle) (locale : Str) (fuel : Nat) (path : KeyPath)
    (n t : Str) (keys : List (Str × PV)) (s : List Str) (c : Nat) :
    mergePlurals orc locale (fuel + 1) path (.mk n t keys s c) =
      match mergePlurals.loop orc locale fuel path keys [] [] [] with
      | .err e => .err e
      | .panic p => .panic p
      | .ok (acc, groups, ws) =>
        match finishGroups orc locale path groups acc ws with
        | .ok (keys', ws') => .ok (.mk n t keys' s c, ws')
        | .err e => .err e
        | .panic p => .panic p := rfl


theorem formsOf_no_other (cs : Cands) : ∀ x ∈ formsOf cs, x.1 ≠ .other := by
  intro x hx
  simp only [formsOf, othersOf, List.mem_map, List.mem_filter] at hx
  obtain ⟨y, ⟨_, hy⟩, rfl⟩ := hx
  simpa using hy

theorem formsOf_sorted (cs : Cands) (h : FormsSorted cs) :
    (formsOf cs).Pairwise (fun a b => a.1.toNat < b.1.toNat) := by
  simp only [formsOf, othersOf, List.pairwise_map]
  exact List.Pairwise.filter _ h

theorem formsOf_mem (cs : Cands) (f : Form) (v : PV) :
    (f, v) ∈ formsOf cs ↔ f ≠ .other ∧ ∃ k r, (f, k, r, v) ∈ cs := by
  simp only [formsOf, othersOf, List.mem_map, List.mem_filter]
  constructor
  · rintro ⟨⟨f', k, r, v'⟩, ⟨hm, hne⟩, he⟩
    simp only [Prod.mk.injEq] at he
    obtain ⟨rfl, rfl⟩ := he
    exact ⟨by simpa using hne, k, r, hm⟩
  · rintro ⟨hne, k, r, hm⟩
    exact ⟨(f, k, r, v), ⟨hm, by simpa using hne⟩, rfl⟩

/-- in a sorted candidate list the `other` candidate is the last one -/
theorem sorted_other_last (cs : Cands) (h : FormsSorted cs) (x : Form × Str × RuleTy × PV)
    (hf : cs.find? (fun y => y.1 == .other) = some x) :
    x.1 = .other ∧ cs = othersOf cs ++ [x] := by
  induction cs with
  | nil => simp at hf
  | cons c rest ih =>
    have hs' : FormsSorted rest := (List.pairwise_cons.mp h).2
    have hlt : ∀ y ∈ rest, c.1.toNat < y.1.toNat := (List.pairwise_cons.mp h).1
    by_cases hc : c.1 = .other
    · have : (c.1 == Form.other) = true := by simpa using hc
      simp only [List.find?_cons, this, Option.some.injEq] at hf
      subst hf
      refine ⟨hc, ?_⟩
      cases rest with
      | nil => simp [othersOf, List.filter, hc]
      | cons d ds =>
        have := hlt d (by simp)
        rw [hc] at this
        have : d.1.toNat ≤ 5 := by cases d.1 <;> simp [Form.toNat]
        simp [Form.toNat] at *
        omega
    · have hcb : (c.1 == Form.other) = false := by simpa using hc
      simp only [List.find?_cons, hcb] at hf
      obtain ⟨h1, h2⟩ := ih hs' hf
      refine ⟨h1, ?_⟩
      have : othersOf (c :: rest) = c :: othersOf rest := by
        have hne : (c.1 != Form.other) = true := by simpa using hc
        simp only [othersOf, List.filter_cons, hne, if_true]
      rw [this, List.cons_append, ← h2]

/-- what `AMap.insert` reports as displaced is what `get?` finds -/
theorem insert_displaced_get {α : Type} (k : Str) (v v' : α) : ∀ (m : List (Str × α)),
    (AMap.insert k v m).2 = some v' → AMap.get? k m = some v'
  | [], h => by simp [AMap.insert] at h
  | (k', x) :: rest, h => by
    simp only [AMap.insert] at h
    by_cases h1 : (k' == k) = true
    · simp only [h1, if_true, Option.some.injEq] at h
      simp [AMap.get?, h1, h]
    · simp only [h1] at h
      by_cases h2 : AMap.strLt k k' = true
      · simp [h2] at h
      · simp only [h2] at h
        have h1' : (k' == k) = false := by simpa using h1
        simp only [AMap.get?, h1', Bool.false_eq_true, if_false]
        exact insert_displaced_get k v v' rest h


/-! ### association-list facts -/
theorem insert'_nil {α : Type} (k : Str) (v : α) : AMap.insert' k v [] = [(k, v)] := rfl
theorem insert'_same {α : Type} (k k' : Str) (v v' : α) (rest : List (Str × α)) (h : (k' == k) = true) :
    AMap.insert' k v ((k', v') :: rest) = (k, v) :: rest := by simp [AMap.insert', AMap.insert, h]
theorem insert'_before {α : Type} (k k' : Str) (v v' : α) (rest : List (Str × α)) (h : (k' == k) = false)
    (h2 : AMap.strLt k k' = true) :
    AMap.insert' k v ((k', v') :: rest) = (k, v) :: (k', v') :: rest := by simp [AMap.insert', AMap.insert, h, h2]
theorem insert'_after {α : Type} (k k' : Str) (v v' : α) (rest : List (Str × α)) (h : (k' == k) = false)
    (h2 : AMap.strLt k k' = false) :
    AMap.insert' k v ((k', v') :: rest) = (k', v') :: AMap.insert' k v rest := by
  simp [AMap.insert', AMap.insert, h, h2]

theorem insert'_cases {α : Type} (k k' : Str) (v v' : α) (rest : List (Str × α)) :
    ((k' == k) = true ∧ AMap.insert' k v ((k', v') :: rest) = (k, v) :: rest) ∨
    ((k' == k) = false ∧ AMap.insert' k v ((k', v') :: rest) = (k, v) :: (k', v') :: rest) ∨
    ((k' == k) = false ∧ AMap.insert' k v ((k', v') :: rest) = (k', v') :: AMap.insert' k v rest) := by
  cases h : k' == k
  · cases h2 : AMap.strLt k k'
    · exact Or.inr (Or.inr ⟨rfl, insert'_after k k' v v' rest h h2⟩)
    · exact Or.inr (Or.inl ⟨rfl, insert'_before k k' v v' rest h h2⟩)
  · exact Or.inl ⟨rfl, insert'_same k k' v v' rest h⟩

theorem mem_insert' {α : Type} (k : Str) (v : α) : ∀ (m : List (Str × α)) (x : Str × α),
    x ∈ AMap.insert' k v m → x = (k, v) ∨ x ∈ m
  | [], x, h => by rw [insert'_nil] at h; simpa using h
  | (k', v') :: rest, x, h => by
    rcases insert'_cases k k' v v' rest with ⟨_, e⟩ | ⟨_, e⟩ | ⟨_, e⟩ <;> rw [e] at h
    · rcases List.mem_cons.mp h with h | h
      · exact Or.inl h
      · exact Or.inr (List.mem_cons_of_mem _ h)
    · rcases List.mem_cons.mp h with h | h
      · exact Or.inl h
      · exact Or.inr h
    · rcases List.mem_cons.mp h with h | h
      · exact Or.inr (by rw [h]; exact List.mem_cons_self)
      · rcases mem_insert' k v rest x h with h | h
        · exact Or.inl h
        · exact Or.inr (List.mem_cons_of_mem _ h)

theorem get?_mem {α : Type} (k : Str) (v : α) : ∀ (m : List (Str × α)), AMap.get? k m = some v → (k, v) ∈ m
  | [], h => by simp [AMap.get?] at h
  | (k', v') :: rest, h => by
    simp only [AMap.get?] at h
    by_cases h1 : (k' == k) = true
    · simp only [h1, if_true, Option.some.injEq] at h
      simp only [beq_iff_eq] at h1
      simp [h1, h]
    · simp only [h1] at h
      exact List.mem_cons_of_mem _ (get?_mem k v rest h)

theorem get?_cons {α : Type} (k k' : Str) (v' : α) (rest : List (Str × α)) :
    AMap.get? k ((k', v') :: rest) = if k' == k then some v' else AMap.get? k rest := rfl

theorem get?_insert'_self {α : Type} (k : Str) (v : α) : ∀ (m : List (Str × α)),
    AMap.get? k (AMap.insert' k v m) = some v
  | [] => by simp [insert'_nil, get?_cons]
  | (k', v') :: rest => by
    rcases insert'_cases k k' v v' rest with ⟨_, e⟩ | ⟨_, e⟩ | ⟨hk, e⟩ <;> rw [e]
    · simp [get?_cons]
    · simp [get?_cons]
    · rw [get?_cons, hk]; exact get?_insert'_self k v rest

theorem get?_insert'_other {α : Type} (k k0 : Str) (v : α) (hne : k0 ≠ k) : ∀ (m : List (Str × α)),
    AMap.get? k0 (AMap.insert' k v m) = AMap.get? k0 m
  | [] => by
    have : (k == k0) = false := by simpa using fun e => hne e.symm
    simp [insert'_nil, get?_cons, this, AMap.get?]
  | (k', v') :: rest => by
    have hk : (k == k0) = false := by simpa using fun e => hne e.symm
    rcases insert'_cases k k' v v' rest with ⟨h1, e⟩ | ⟨_, e⟩ | ⟨_, e⟩ <;> rw [e]
    · have : (k' == k0) = false := by
        simp only [beq_iff_eq] at h1; subst h1; exact hk
      simp [get?_cons, hk, this]
    · simp [get?_cons, hk]
    · rw [get?_cons, get?_cons, get?_insert'_other k k0 v hne rest]

/-! ### the first loop: nested locales, and the invariant of the candidate groups -/
theorem loop_subkeys (orc : Oracle) (locale : Str) (fuel : Nat) (path : KeyPath) (k : Str) (sub : Loc)
    (rest acc : List (Str × PV)) (groups : List (Str × Cands)) (ws : List Warning) :
    mergePlurals.loop orc locale fuel path ((k, .subkeys (some sub)) :: rest) acc groups ws =
      match mergePlurals orc locale fuel (pushKey path k) sub with
      | .ok (sub', w) =>
        mergePlurals.loop orc locale fuel path rest (AMap.insert' k (.subkeys (some sub')) acc) groups (ws ++ w)
      | .err e => .err e
      | .panic p => .panic p := by
  have e : mergePlurals.loop orc locale fuel path ((k, .subkeys (some sub)) :: rest) acc groups ws =
      match (match mergePlurals orc locale fuel (pushKey path k) sub with
            | .ok (sub', w) => (Res.ok (PV.subkeys (some sub'), w) : Res (PV × List Warning))
            | .err e => .err e
            | .panic p => .panic p) with
      | .err e => .err e
      | .panic p => .panic p
      | .ok (v, w) =>
        match isPossiblePlural k v with
        | some (base, rule, form) =>
          if (candInsert form (k, rule, v) ((AMap.get? base groups).getD [])).2 then .err "ConflictingPluralRuleType"
          else mergePlurals.loop orc locale fuel path rest acc
            (AMap.insert' base (candInsert form (k, rule, v) ((AMap.get? base groups).getD [])).1 groups) (ws ++ w)
        | none => mergePlurals.loop orc locale fuel path rest (AMap.insert' k v acc) groups (ws ++ w) := rfl
  rw [e]
  cases mergePlurals orc locale fuel (pushKey path k) sub with
  | ok r => obtain ⟨sub', w⟩ := r; rfl
  | err e => rfl
  | panic p => rfl

/-- every candidate group is sorted by form and made of keys that parse to that base/rule/form and
    satisfy `P` -/
def GroupsInv (P : Str → PV → Prop) (groups : List (Str × Cands)) : Prop :=
  ∀ base cs, (base, cs) ∈ groups → FormsSorted cs ∧
    ∀ x ∈ cs, isPossiblePlural x.2.1 x.2.2.2 = some (base, x.2.2.1, x.1) ∧ P x.2.1 x.2.2.2

theorem groupsInv_cur {P : Str → PV → Prop} {groups : List (Str × Cands)} (h : GroupsInv P groups) (base : Str) :
    FormsSorted ((AMap.get? base groups).getD []) ∧
    ∀ x ∈ (AMap.get? base groups).getD [], isPossiblePlural x.2.1 x.2.2.2 = some (base, x.2.2.1, x.1) ∧ P x.2.1 x.2.2.2 := by
  cases hg : AMap.get? base groups with
  | none => simp [FormsSorted]
  | some cs => exact h base cs (get?_mem base cs groups hg)

theorem loop_inv (orc : Oracle) (locale : Str) (fuel : Nat) (path : KeyPath) (P : Str → PV → Prop) :
    ∀ (keys acc : List (Str × PV)) (groups : List (Str × Cands)) (ws : List Warning)
      (acc' : List (Str × PV)) (groups' : List (Str × Cands)) (ws' : List Warning),
      (∀ kv ∈ keys, P kv.1 kv.2) → GroupsInv P groups →
      mergePlurals.loop orc locale fuel path keys acc groups ws = .ok (acc', groups', ws') →
      GroupsInv P groups'
  | [], acc, groups, ws, acc', groups', ws', _, hinv, h => by
    rw [loop_nil] at h
    injection h with h
    simp only [Prod.mk.injEq] at h
    obtain ⟨_, rfl, _⟩ := h
    exact hinv
  | (k, v) :: rest, acc, groups, ws, acc', groups', ws', hP, hinv, h => by
    have hP' : ∀ kv ∈ rest, P kv.1 kv.2 := fun kv hkv => hP kv (List.mem_cons_of_mem _ hkv)
    by_cases hsub : ∃ sub, v = .subkeys (some sub)
    · obtain ⟨sub, rfl⟩ := hsub
      rw [loop_subkeys] at h
      cases hm : mergePlurals orc locale fuel (pushKey path k) sub with
      | ok r =>
        obtain ⟨sub', w⟩ := r
        rw [hm] at h
        exact loop_inv orc locale fuel path P rest _ groups _ acc' groups' ws' hP' hinv h
      | err e => rw [hm] at h; cases h
      | panic p => rw [hm] at h; cases h
    · have hv : ∀ sub, v ≠ .subkeys (some sub) := fun sub e => hsub ⟨sub, e⟩
      cases hp : isPossiblePlural k v with
      | none =>
        rw [loop_ordinary _ _ _ _ _ _ _ _ _ _ hv hp] at h
        exact loop_inv orc locale fuel path P rest _ groups _ acc' groups' ws' hP' hinv h
      | some r =>
        obtain ⟨base, rule, form⟩ := r
        rw [loop_candidate _ _ _ _ _ _ _ _ _ _ _ _ _ hp] at h
        cases hd : (candInsert form (k, rule, v) ((AMap.get? base groups).getD [])).2
        · rw [hd] at h
          simp only [Bool.false_eq_true, if_false] at h
          refine loop_inv orc locale fuel path P rest _ _ _ acc' groups' ws' hP' ?_ h
          intro b cs hmem
          rcases mem_insert' _ _ _ _ hmem with e | hmem
          · simp only [Prod.mk.injEq] at e
            obtain ⟨rfl, rfl⟩ := e
            obtain ⟨hs, hall⟩ := groupsInv_cur hinv b
            obtain ⟨s1, _, s3, _⟩ := candInsert_spec form (k, rule, v) _ hs
            refine ⟨s1, fun x hx => ?_⟩
            rcases (s3 x).mp hx with rfl | ⟨hx, _⟩
            · exact ⟨hp, hP (k, v) List.mem_cons_self⟩
            · exact hall x hx
          · exact hinv b cs hmem
        · rw [hd] at h; simp at h

end I18nVerif.Plurals
