import I18nVerif.Spec.Solid
import I18nVerif.Proofs.FreshResolve
import I18nVerif.Proofs.SolidDecode
/-!
`merge_plurals` and foreign-key resolution keep every stored value solid (`Solid` / `SolidKeys`,
Spec/Solid.lean): `populate` substitutes solid argument values into solid values and keeps the
number of branches of a `Ranges`; `merge_plurals` only builds `Plurals` out of candidates, which
are never `Default` / `Subkeys` / `Ranges`.  Same structure as Proofs/FreshResolve.lean.
-/
namespace I18nVerif.Render
open I18nVerif Foreign

/-! ### small helpers (primed: local copies) -/

theorem SolidKeys_iff' (ks : List (Str × PV)) : SolidKeys ks = true ↔ ∀ kv ∈ ks, SolidV kv.2 = true := by
  induction ks with
  | nil => simp [SolidKeys]
  | cons e rest ih => obtain ⟨k, v⟩ := e; simp [SolidKeys, ih]

theorem SolidK_iff' (ks : List (Str × PV)) : SolidK ks = true ↔ ∀ kv ∈ ks, Solid kv.2 = true := by
  induction ks with
  | nil => simp [SolidK]
  | cons e rest ih => obtain ⟨k, v⟩ := e; simp [SolidK, ih]

theorem SolidF_iff' (l : List (Form × PV)) : SolidF l = true ↔ ∀ e ∈ l, Solid e.2 = true := by
  induction l with
  | nil => simp [SolidF]
  | cons e rest ih => obtain ⟨k, v⟩ := e; simp [SolidF, ih]

theorem SolidKeys_insert'' {k : Str} {v : PV} {m : List (Str × PV)} (hm : SolidKeys m = true)
    (hv : SolidV v = true) : SolidKeys (AMap.insert' k v m) = true := by
  rw [SolidKeys_iff'] at hm ⊢
  intro kv hkv
  rcases AMap.mem_of_mem_insert' _ _ hkv with rfl | h
  · exact hv
  · exact hm kv h

/-- a solid value may be stored under a key -/
theorem solid_solidV' : ∀ v : PV, Solid v = true → SolidV v = true
  | .dflt, h => by simp [Solid] at h
  | .subkeys _, h => by simp [Solid] at h
  | .lit _, _ => rfl
  | .var _ _, _ => rfl
  | .fk (.set _), h => by simpa only [Solid, SolidV] using h
  | .fk (.notSet _ _), h => by simpa only [Solid, SolidV] using h
  | .comp _ _, h => by simpa only [Solid, SolidV] using h
  | .bloc _, h => by simpa only [Solid, SolidV] using h
  | .ranges _ _ _, h => by simpa only [Solid, SolidV] using h
  | .plurals _ _ _ _, h => by simpa only [Solid, SolidV] using h

/-- what a locale stores under a key: `Default`, a group of such keys, or a solid value -/
theorem solidV_cases' : ∀ v : PV, SolidV v = true →
    v = .dflt ∨ (∃ l, v = .subkeys (some l) ∧ SolidKeys l.keys = true) ∨ Solid v = true
  | .dflt, _ => Or.inl rfl
  | .subkeys none, h => by simp [SolidV] at h
  | .subkeys (some (.mk n t ks s c)), h => by
    simp only [SolidV] at h
    exact Or.inr (Or.inl ⟨_, rfl, h⟩)
  | .lit _, _ => Or.inr (Or.inr rfl)
  | .var _ _, _ => Or.inr (Or.inr rfl)
  | .fk (.set _), h => by simp only [SolidV] at h; exact Or.inr (Or.inr (by simpa only [Solid] using h))
  | .fk (.notSet _ _), h => by simp only [SolidV] at h; exact Or.inr (Or.inr (by simpa only [Solid] using h))
  | .comp _ _, h => by simp only [SolidV] at h; exact Or.inr (Or.inr (by simpa only [Solid] using h))
  | .bloc _, h => by simp only [SolidV] at h; exact Or.inr (Or.inr (by simpa only [Solid] using h))
  | .ranges _ _ _, h => by simp only [SolidV] at h; exact Or.inr (Or.inr (by simpa only [Solid] using h))
  | .plurals _ _ _ _, h => by simp only [SolidV] at h; exact Or.inr (Or.inr (by simpa only [Solid] using h))

theorem SolidV_subkeys' {l : Loc} (h : SolidV (.subkeys (some l)) = true) : SolidKeys l.keys = true := by
  cases l
  simpa [SolidV, Loc.keys] using h

theorem SolidK_get {ks : List (Str × PV)} (h : SolidK ks = true) {k : Str} {v : PV}
    (hg : AMap.get? k ks = some v) : Solid v = true :=
  (SolidK_iff' ks).mp h (k, v) (Check.get?_mem hg)

theorem SolidKeys_get {ks : List (Str × PV)} (h : SolidKeys ks = true) {k : Str} {v : PV}
    (hg : AMap.get? k ks = some v) : SolidV v = true :=
  (SolidKeys_iff' ks).mp h (k, v) (Check.get?_mem hg)

/-! ### `populate` -/

theorem populateB_isEmpty (orc : Oracle) (locale : Str) (args : List (Str × PV)) :
    ∀ (bs bs' : List (Range × PV)), populateB orc locale args bs = .ok bs' → bs'.isEmpty = bs.isEmpty
  | [], bs', h => by simp [populateB] at h; subst h; rfl
  | (r, x) :: xs, bs', h => by
    simp only [populateB] at h
    split at h <;> try (simp at h; done)
    split at h <;> try (simp at h; done)
    simp only [Res.ok.injEq] at h; subst h; rfl

mutual
theorem populate_solid (orc : Oracle) (locale : Str) (args : List (Str × PV)) (ha : SolidK args = true) :
    ∀ (v v' : PV), Solid v = true → populate orc locale args v = .ok v' → Solid v' = true
  | .dflt, v', hf, _ => by simp [Solid] at hf
  | .lit l, v', hf, h => by simp [populate] at h; subst h; exact hf
  | .fk (.set inner), v', hf, h => by
    simp only [populate] at h
    simp only [Solid] at hf
    exact populate_solid orc locale args ha inner v' hf h
  | .fk (.notSet p a), v', hf, h => by simp [populate] at h; subst h; exact hf
  | .var key f, v', _, h => by
    simp only [populate] at h
    split at h
    · rename_i v hg
      simp only [Res.ok.injEq] at h; subst h
      exact SolidK_get ha hg
    · simp only [Res.ok.injEq] at h; subst h; rfl
  | .comp key inner, v', hf, h => by
    simp only [populate] at h
    simp only [Solid] at hf
    split at h
    · rename_i i hi
      simp only [Res.ok.injEq] at h; subst h
      simp only [Solid]
      exact populate_solid orc locale args ha inner i hf hi
    · simp at h
    · simp at h
  | .bloc items, v', hf, h => by
    simp only [populate] at h
    simp only [Solid] at hf
    split at h
    · rename_i l hl
      simp only [Res.ok.injEq] at h; subst h
      simp only [Solid]
      exact populateL_solid orc locale args ha items l hf hl
    · simp at h
    · simp at h
  | .subkeys _, v', hf, _ => by simp [Solid] at hf
  | .ranges ck t bs, v', hf, h => by
    simp only [populate] at h
    simp only [Solid, Bool.and_eq_true] at hf
    have hB : ∀ k bs', populateB orc locale args bs = .ok bs' → Solid (.ranges k t bs') = true := by
      intro k bs' hb
      simp only [Solid, Bool.and_eq_true]
      exact ⟨by rw [populateB_isEmpty orc locale args bs bs' hb]; exact hf.1,
        populateB_solid orc locale args ha bs bs' hf.2 hb⟩
    split at h
    · split at h
      · rename_i bs' hb
        simp only [Res.ok.injEq] at h; subst h; exact hB _ _ hb
      · simp at h
      · simp at h
    · split at h
      · split at h
        · simp at h
        · simp at h
        · simp at h
        · exact findValue_solid orc locale args ha _ bs v' hf.2 h
      · split at h
        · simp at h
        · simp at h
        · split at h
          · rename_i bs' hb
            simp only [Res.ok.injEq] at h; subst h; exact hB _ _ hb
          · simp at h
          · simp at h
      · split at h
        · rename_i bs' hb
          simp only [Res.ok.injEq] at h; subst h; exact hB _ _ hb
        · simp at h
        · simp at h
      · simp at h
  | .plurals rule ck other forms, v', hf, h => by
    simp only [populate] at h
    simp only [Solid, Bool.and_eq_true] at hf
    have hW : ∀ k v', (match populate orc locale args other, populateF orc locale args forms with
        | .ok o, .ok fs => Res.ok (PV.plurals rule k o fs)
        | .panic p, _ => .panic p
        | _, .panic p => .panic p
        | .err e, _ => .err e
        | _, .err e => .err e) = .ok v' → Solid v' = true := by
      intro k v' hw
      split at hw <;> try (simp at hw; done)
      rename_i o fs ho hfs
      simp only [Res.ok.injEq] at hw; subst hw
      simp only [Solid, Bool.and_eq_true]
      exact ⟨populate_solid orc locale args ha other o hf.1 ho, populateF_solid orc locale args ha forms fs hf.2 hfs⟩
    split at h
    · exact hW _ _ h
    · split at h
      · simp at h
      · simp at h
      · split at h
        · simp at h
        · split at h
          · simp at h
          · exact populate_solid orc locale args ha other v' hf.1 h
          · split at h
            · rename_i r hr
              subst h
              exact selectForm_solid orc locale args ha _ forms v' hf.2 hr
            · exact populate_solid orc locale args ha other v' hf.1 h
      · split at h
        · exact hW _ _ h
        · simp at h
        · simp at h
      · exact hW _ _ h
      · simp at h

theorem selectForm_solid (orc : Oracle) (locale : Str) (args : List (Str × PV)) (ha : SolidK args = true) (f : Form) :
    ∀ (forms : List (Form × PV)) (v' : PV), SolidF forms = true →
      selectForm orc locale args f forms = some (.ok v') → Solid v' = true
  | [], v', _, h => by simp [selectForm] at h
  | (f', v) :: rest, v', hf, h => by
    simp only [selectForm] at h
    simp only [SolidF, Bool.and_eq_true] at hf
    split at h
    · simp only [Option.some.injEq] at h
      exact populate_solid orc locale args ha v v' hf.1 h
    · exact selectForm_solid orc locale args ha f rest v' hf.2 h

theorem findValue_solid (orc : Oracle) (locale : Str) (args : List (Str × PV)) (ha : SolidK args = true) (c : Dec) :
    ∀ (bs : List (Range × PV)) (v' : PV), SolidB bs = true →
      findValue orc locale args c bs = .ok v' → Solid v' = true
  | [], v', _, h => by simp [findValue] at h
  | (r, v) :: rest, v', hf, h => by
    simp only [findValue] at h
    simp only [SolidB, Bool.and_eq_true] at hf
    split at h
    · exact populate_solid orc locale args ha v v' hf.1 h
    · exact findValue_solid orc locale args ha c rest v' hf.2 h

theorem populateL_solid (orc : Oracle) (locale : Str) (args : List (Str × PV)) (ha : SolidK args = true) :
    ∀ (l l' : List PV), SolidL l = true → populateL orc locale args l = .ok l' → SolidL l' = true
  | [], l', _, h => by simp [populateL] at h; subst h; rfl
  | x :: xs, l', hf, h => by
    simp only [populateL] at h
    simp only [SolidL, Bool.and_eq_true] at hf
    split at h <;> try (simp at h; done)
    rename_i x' hx
    split at h <;> try (simp at h; done)
    rename_i xs' hxs
    simp only [Res.ok.injEq] at h; subst h
    simp only [SolidL, Bool.and_eq_true]
    exact ⟨populate_solid orc locale args ha x x' hf.1 hx, populateL_solid orc locale args ha xs xs' hf.2 hxs⟩

theorem populateB_solid (orc : Oracle) (locale : Str) (args : List (Str × PV)) (ha : SolidK args = true) :
    ∀ (l l' : List (Range × PV)), SolidB l = true → populateB orc locale args l = .ok l' → SolidB l' = true
  | [], l', _, h => by simp [populateB] at h; subst h; rfl
  | (r, x) :: xs, l', hf, h => by
    simp only [populateB] at h
    simp only [SolidB, Bool.and_eq_true] at hf
    split at h <;> try (simp at h; done)
    rename_i x' hx
    split at h <;> try (simp at h; done)
    rename_i xs' hxs
    simp only [Res.ok.injEq] at h; subst h
    simp only [SolidB, Bool.and_eq_true]
    exact ⟨populate_solid orc locale args ha x x' hf.1 hx, populateB_solid orc locale args ha xs xs' hf.2 hxs⟩

theorem populateF_solid (orc : Oracle) (locale : Str) (args : List (Str × PV)) (ha : SolidK args = true) :
    ∀ (l l' : List (Form × PV)), SolidF l = true → populateF orc locale args l = .ok l' → SolidF l' = true
  | [], l', _, h => by simp [populateF] at h; subst h; rfl
  | (r, x) :: xs, l', hf, h => by
    simp only [populateF] at h
    simp only [SolidF, Bool.and_eq_true] at hf
    split at h <;> try (simp at h; done)
    rename_i x' hx
    split at h <;> try (simp at h; done)
    rename_i xs' hxs
    simp only [Res.ok.injEq] at h; subst h
    simp only [SolidF, Bool.and_eq_true]
    exact ⟨populate_solid orc locale args ha x x' hf.1 hx, populateF_solid orc locale args ha xs xs' hf.2 hxs⟩
end

/-! ### lookups in a solid world -/

def WorldSolid (nss : List NS) : Prop := ∀ ns ∈ nss, ∀ l ∈ ns.locales, SolidKeys l.keys = true

theorem locGet_solid : ∀ (p : List Str) (keys : List (Str × PV)) (v : PV),
    World.locGet keys p = .ok (some v) → SolidKeys keys = true → SolidV v = true
  | [], keys, v, h, _ => by rw [World.locGet] at h; simp at h
  | [k], keys, v, h, hk => by
    rw [World.locGet] at h
    simp only [Res.ok.injEq] at h
    exact SolidKeys_get hk h
  | k :: k2 :: rest, keys, v, h, hk => by
    rw [World.locGet] at h
    · split at h
      · simp at h
      · rename_i l hg
        exact locGet_solid (k2 :: rest) l.keys v h (SolidV_subkeys' (SolidKeys_get hk hg))
      · simp at h
      · simp at h
    · simp

theorem getValueAt_solid (w : World) (top : Str) (p : KeyPath) (v : PV)
    (hw : WorldSolid w.nss) (h : w.getValueAt top p = .ok (some v)) : SolidV v = true := by
  unfold World.getValueAt at h
  split at h
  · simp at h
  · simp at h
  · split at h
    · rename_i ns rest hn
      split at h
      · rename_i l hl
        exact locGet_solid _ _ _ h (hw ns (by rw [hn]; simp) l (List.mem_of_find?_eq_some hl))
      · simp at h
    · simp at h
  · split at h
    · simp at h
    · rename_i ns hn
      split at h
      · rename_i l hl
        exact locGet_solid _ _ _ h (hw ns (List.mem_of_find?_eq_some hn) l (List.mem_of_find?_eq_some hl))
      · simp at h

/-! ### `resolve_foreign_key` -/

theorem resolveB_isEmpty (orc : Oracle) (w : World) (dflt : Fallbacks) (fuel : Nat) (vis : List KeyId) (phys : KeyId)
    (top : Str) (bs bs' : List (Range × PV)) (h : resolveB orc w dflt fuel vis phys top bs = .ok bs') :
    bs'.isEmpty = bs.isEmpty := by
  cases fuel with
  | zero => simp [resolveB] at h
  | succ fuel =>
    cases bs with
    | nil => simp [resolveB] at h; subst h; rfl
    | cons x xs =>
      obtain ⟨r, x⟩ := x
      simp only [resolveB] at h
      split at h <;> try (simp at h; done)
      split at h <;> try (simp at h; done)
      simp only [Res.ok.injEq] at h; subst h; rfl

theorem resolvePV_dflt (orc : Oracle) (w : World) (dflt : Fallbacks) (fuel : Nat) (vis : List KeyId) (phys : KeyId)
    (top : Str) (v : PV) (h : resolvePV orc w dflt fuel vis phys top .dflt = .ok v) : v = .dflt := by
  cases fuel with
  | zero => simp [resolvePV] at h
  | succ fuel => simp [resolvePV] at h; exact h.symm

theorem resolvePV_subkeys (orc : Oracle) (w : World) (dflt : Fallbacks) (fuel : Nat) (vis : List KeyId) (phys : KeyId)
    (top : Str) (l : Option Loc) (v : PV) (h : resolvePV orc w dflt fuel vis phys top (.subkeys l) = .ok v) :
    v = .subkeys l := by
  cases fuel with
  | zero => simp [resolvePV] at h
  | succ fuel => simp [resolvePV] at h; exact h.symm

def ResSolid (orc : Oracle) (w : World) (dflt : Fallbacks) (fuel : Nat) : Prop :=
  (∀ vis phys top pv v, resolvePV orc w dflt fuel vis phys top pv = .ok v → Solid pv = true → Solid v = true) ∧
  (∀ vis phys top target args v, resolveNode orc w dflt fuel vis phys top target args = .ok v →
    SolidK args = true → Solid v = true) ∧
  (∀ vis phys top l l', resolveL orc w dflt fuel vis phys top l = .ok l' → SolidL l = true → SolidL l' = true) ∧
  (∀ vis phys top l l', resolveB orc w dflt fuel vis phys top l = .ok l' → SolidB l = true → SolidB l' = true) ∧
  (∀ vis phys top l l', resolveF orc w dflt fuel vis phys top l = .ok l' → SolidF l = true → SolidF l' = true) ∧
  (∀ vis phys top l l', resolveArgs orc w dflt fuel vis phys top l = .ok l' → SolidK l = true → SolidK l' = true)

theorem resolve_solid (orc : Oracle) (w : World) (dflt : Fallbacks) (hw : WorldSolid w.nss) :
    ∀ fuel, ResSolid orc w dflt fuel := by
  intro fuel
  induction fuel with
  | zero =>
    refine ⟨?_, ?_, ?_, ?_, ?_, ?_⟩
    · intro vis phys top pv v h; simp [resolvePV] at h
    · intro vis phys top target args v h; simp [resolveNode] at h
    · intro vis phys top l l' h; simp [resolveL] at h
    · intro vis phys top l l' h; simp [resolveB] at h
    · intro vis phys top l l' h; simp [resolveF] at h
    · intro vis phys top l l' h; simp [resolveArgs] at h
  | succ fuel ih =>
    obtain ⟨iPV, iNode, iL, iB, iF, iA⟩ := ih
    refine ⟨?_, ?_, ?_, ?_, ?_, ?_⟩
    · intro vis phys top pv v h hf
      cases pv with
      | var k f => simp [resolvePV] at h; subst h; rfl
      | lit l => simp [resolvePV] at h; subst h; exact hf
      | dflt => simp [Solid] at hf
      | subkeys l => simp [Solid] at hf
      | fk f =>
        cases f with
        | set inner => simp [resolvePV] at h; subst h; exact hf
        | notSet target args =>
          simp only [resolvePV] at h
          simp only [Solid] at hf
          exact iNode _ _ _ _ _ _ h hf
      | comp k inner =>
        simp only [resolvePV] at h
        simp only [Solid] at hf
        split at h <;> try (simp at h; done)
        rename_i i hi
        simp only [Res.ok.injEq] at h; subst h
        simp only [Solid]; exact iPV _ _ _ _ _ hi hf
      | bloc items =>
        simp only [resolvePV] at h
        simp only [Solid] at hf
        split at h <;> try (simp at h; done)
        rename_i l hl
        simp only [Res.ok.injEq] at h; subst h
        simp only [Solid]; exact iL _ _ _ _ _ hl hf
      | ranges ck t bs =>
        simp only [resolvePV] at h
        simp only [Solid, Bool.and_eq_true] at hf
        split at h <;> try (simp at h; done)
        rename_i l hl
        simp only [Res.ok.injEq] at h; subst h
        simp only [Solid, Bool.and_eq_true]
        exact ⟨by rw [resolveB_isEmpty _ _ _ _ _ _ _ _ _ hl]; exact hf.1, iB _ _ _ _ _ hl hf.2⟩
      | plurals r ck other forms =>
        simp only [resolvePV] at h
        simp only [Solid, Bool.and_eq_true] at hf
        split at h <;> try (simp at h; done)
        rename_i fs hfs
        split at h <;> try (simp at h; done)
        rename_i o ho
        simp only [Res.ok.injEq] at h; subst h
        simp only [Solid, Bool.and_eq_true]
        exact ⟨iPV _ _ _ _ _ ho hf.1, iF _ _ _ _ _ hfs hf.2⟩
    · intro vis phys top target args v h ha
      simp only [resolveNode] at h
      split at h
      · simp at h
      · simp at h
      · rename_i src value hfd
        obtain ⟨hval, hnd⟩ := Check.findDefining_stored w dflt _ _ _ _ _ _ hfd
        split at h
        · simp at h
        · split at h <;> try (simp at h; done)
          rename_i value' hv'
          split at h <;> try (simp at h; done)
          rename_i args' ha'
          split at h <;> try (simp at h; done)
          rename_i pv hp
          simp only [Res.ok.injEq] at h; subst h
          simp only [Solid]
          have h2 := iA _ _ _ _ _ ha' ha
          rcases solidV_cases' value (getValueAt_solid w _ _ _ hw hval) with hd | ⟨l, hl, _⟩ | hs
          · exact absurd hd hnd
          · subst hl
            rw [resolvePV_subkeys _ _ _ _ _ _ _ _ _ hv'] at hp
            simp [populate] at hp
          · exact populate_solid orc _ _ h2 _ _ (iPV _ _ _ _ _ hv' hs) hp
    · intro vis phys top l l' h hf
      cases l with
      | nil => simp [resolveL] at h; subst h; rfl
      | cons x xs =>
        simp only [resolveL] at h
        simp only [SolidL, Bool.and_eq_true] at hf
        split at h <;> try (simp at h; done)
        rename_i x' hx
        split at h <;> try (simp at h; done)
        rename_i xs' hxs
        simp only [Res.ok.injEq] at h; subst h
        simp only [SolidL, Bool.and_eq_true]
        exact ⟨iPV _ _ _ _ _ hx hf.1, iL _ _ _ _ _ hxs hf.2⟩
    · intro vis phys top l l' h hf
      cases l with
      | nil => simp [resolveB] at h; subst h; rfl
      | cons x xs =>
        obtain ⟨r, x⟩ := x
        simp only [resolveB] at h
        simp only [SolidB, Bool.and_eq_true] at hf
        split at h <;> try (simp at h; done)
        rename_i x' hx
        split at h <;> try (simp at h; done)
        rename_i xs' hxs
        simp only [Res.ok.injEq] at h; subst h
        simp only [SolidB, Bool.and_eq_true]
        exact ⟨iPV _ _ _ _ _ hx hf.1, iB _ _ _ _ _ hxs hf.2⟩
    · intro vis phys top l l' h hf
      cases l with
      | nil => simp [resolveF] at h; subst h; rfl
      | cons x xs =>
        obtain ⟨r, x⟩ := x
        simp only [resolveF] at h
        simp only [SolidF, Bool.and_eq_true] at hf
        split at h <;> try (simp at h; done)
        rename_i x' hx
        split at h <;> try (simp at h; done)
        rename_i xs' hxs
        simp only [Res.ok.injEq] at h; subst h
        simp only [SolidF, Bool.and_eq_true]
        exact ⟨iPV _ _ _ _ _ hx hf.1, iF _ _ _ _ _ hxs hf.2⟩
    · intro vis phys top l l' h hf
      cases l with
      | nil => simp [resolveArgs] at h; subst h; rfl
      | cons x xs =>
        obtain ⟨r, x⟩ := x
        simp only [resolveArgs] at h
        simp only [SolidK, Bool.and_eq_true] at hf
        split at h <;> try (simp at h; done)
        rename_i x' hx
        split at h <;> try (simp at h; done)
        rename_i xs' hxs
        simp only [Res.ok.injEq] at h; subst h
        simp only [SolidK, Bool.and_eq_true]
        exact ⟨iPV _ _ _ _ _ hx hf.1, iA _ _ _ _ _ hxs hf.2⟩

/-- what is stored back by `resolveAt`: a stored value stays storable -/
theorem resolvePV_solidV (orc : Oracle) (w : World) (dflt : Fallbacks) (hw : WorldSolid w.nss) (fuel : Nat)
    (vis : List KeyId) (phys : KeyId) (top : Str) (v v' : PV)
    (h : resolvePV orc w dflt fuel vis phys top v = .ok v') (hv : SolidV v = true) : SolidV v' = true := by
  rcases solidV_cases' v hv with hd | ⟨l, hl, _⟩ | hs
  · subst hd; rw [resolvePV_dflt _ _ _ _ _ _ _ _ h]; rfl
  · subst hl; rw [resolvePV_subkeys _ _ _ _ _ _ _ _ _ h]; exact hv
  · exact solid_solidV' _ ((resolve_solid orc w dflt hw fuel).1 _ _ _ _ _ h hs)

/-! ### storing the resolved value back; `resolve_foreign_keys` -/

theorem locSet_solid : ∀ (p : List Str) (keys : List (Str × PV)) (v : PV),
    SolidKeys keys = true → SolidV v = true → SolidKeys (World.locSet keys p v) = true
  | [], keys, v, hk, _ => by rw [World.locSet]; exact hk
  | [k], keys, v, hk, hv => by
    rw [World.locSet]
    rw [SolidKeys_iff'] at hk ⊢
    intro kv hm
    simp only [List.mem_map] at hm
    obtain ⟨⟨k', v'⟩, hm', rfl⟩ := hm
    simp only
    split
    · exact hv
    · exact hk _ hm'
  | k :: k2 :: rest, keys, v, hk, hv => by
    rw [World.locSet]
    · rw [SolidKeys_iff'] at hk ⊢
      intro kv hm
      simp only [List.mem_map] at hm
      obtain ⟨⟨k', v'⟩, hm', rfl⟩ := hm
      have hv' := hk _ hm'
      simp only at hv' ⊢
      split
      · split
        · rename_i n t ks s c
          simp only [SolidV] at hv' ⊢
          exact locSet_solid (k2 :: rest) ks v hv' hv
        · exact hv'
      · exact hv'
    · simp

theorem setValueAt_solid (w : World) (top : Str) (p : KeyPath) (v : PV) (hw : WorldSolid w.nss)
    (hv : SolidV v = true) : WorldSolid (w.setValueAt top p v).nss := by
  intro ns hn l hl
  simp only [World.setValueAt, List.mem_map] at hn
  obtain ⟨ns0, h0, rfl⟩ := hn
  split at hl
  · simp only [List.mem_map] at hl
    obtain ⟨l0, hl0, rfl⟩ := hl
    have := hw ns0 h0 l0 hl0
    split
    · simp only [Loc.setKeys, Loc.keys]
      exact locSet_solid _ _ _ this hv
    · exact this
  · exact hw ns0 h0 l hl

theorem resolveAt_solid (orc : Oracle) (dflt : Fallbacks) (fuel : Nat) (locale : Str) (p : KeyPath) (w w' : World) (b : Bool)
    (h : resolveAt orc dflt fuel locale p w = .ok (w', b)) (hw : WorldSolid w.nss) : WorldSolid w'.nss := by
  unfold resolveAt at h
  split at h
  · simp at h
  · simp at h
  · simp only [Res.ok.injEq, Prod.mk.injEq] at h; rw [← h.1]; exact hw
  · rename_i v hv
    split at h
    · simp at h
    · simp at h
    · rename_i v' hr
      simp only [Res.ok.injEq, Prod.mk.injEq] at h
      rw [← h.1]
      exact setValueAt_solid w _ _ _ hw
        (resolvePV_solidV orc w dflt hw fuel _ _ _ _ _ hr (getValueAt_solid w _ _ _ hw hv))

theorem resolveAll_solid (orc : Oracle) (dflt : Fallbacks) (fuel : Nat) :
    ∀ (paths : List (Str × KeyPath)) (w w' : World), resolveAll orc dflt fuel paths w = .ok w' →
      WorldSolid w.nss → WorldSolid w'.nss
  | [], w, w', h, hw => by simp [resolveAll] at h; rw [← h]; exact hw
  | (locale, p) :: rest, w, w', h, hw => by
    simp only [resolveAll] at h
    split at h
    · simp at h
    · simp at h
    · rename_i w1 f1 h1
      have ok1 := resolveAt_solid _ _ _ _ _ _ _ _ h1 hw
      split at h
      · simp at h
      · simp at h
      · rename_i w2 f2 h2
        have ok2 : WorldSolid w2.nss := by
          split at h2
          · simp only [Res.ok.injEq, Prod.mk.injEq] at h2; rw [← h2.1]; exact ok1
          · exact resolveAt_solid _ _ _ _ _ _ _ _ h2 ok1
        split at h
        · exact resolveAll_solid orc dflt fuel rest w2 w' h ok2
        · simp at h

/-! ### `merge_plurals` -/

section plurals
open Plurals

/-- a plural candidate is never `Default`, a group or a `Ranges`: if it may be stored, it is solid -/
theorem isPossiblePlural_solid (k : Str) (v : PV) (r : Str × RuleTy × Form)
    (hp : isPossiblePlural k v = some r) (hv : SolidV v = true) : Solid v = true := by
  rcases solidV_cases' v hv with hd | ⟨l, hl, _⟩ | hs
  · subst hd; simp [isPossiblePlural] at hp
  · subst hl; simp [isPossiblePlural] at hp
  · exact hs

def CandsSolid (cs : Cands) : Prop := ∀ e ∈ cs, Solid e.2.2.2 = true
def GroupsSolid (gs : List (Str × Cands)) : Prop := ∀ g ∈ gs, CandsSolid g.2

theorem putBack_solid : ∀ (cs : Cands) (keys : List (Str × PV)), CandsSolid cs → SolidKeys keys = true →
    SolidKeys (putBack keys cs) = true
  | [], keys, _, hk => hk
  | c :: cs, keys, hc, hk => by
    simp only [putBack, List.foldl_cons]
    exact putBack_solid cs _ (fun e he => hc e (by simp [he]))
      (SolidKeys_insert'' hk (solid_solidV' _ (hc c (by simp))))

theorem finishGroups_solid (orc : Oracle) (locale : Str) (path : KeyPath) :
    ∀ (groups : List (Str × Cands)) (keys : List (Str × PV)) (ws : List Warning) keys' ws',
      finishGroups orc locale path groups keys ws = .ok (keys', ws') →
      GroupsSolid groups → SolidKeys keys = true → SolidKeys keys' = true
  | [], keys, ws, keys', ws', h, _, hk => by
    simp only [finishGroups, Res.ok.injEq, Prod.mk.injEq] at h
    rw [← h.1]; exact hk
  | (base, cands) :: rest, keys, ws, keys', ws', h, hg, hk => by
    have hc : CandsSolid cands := hg (base, cands) (by simp)
    have hrest : GroupsSolid rest := fun g hm => hg g (by simp [hm])
    have hpb := putBack_solid cands keys hc hk
    by_cases hl : cands.length = 1
    · rw [finish_single _ _ _ _ _ _ _ _ hl] at h
      exact finishGroups_solid orc locale path rest _ ws keys' ws' h hrest hpb
    · cases hf : cands.find? (fun x => x.1 == .other) with
      | none =>
        rw [finish_no_other _ _ _ _ _ _ _ _ hf] at h
        exact finishGroups_solid orc locale path rest _ ws keys' ws' h hrest hpb
      | some x =>
        obtain ⟨fo, ko, ruleTy, other⟩ := x
        rw [finish_merge _ _ _ _ _ _ _ _ fo ko ruleTy other hl hf] at h
        split at h
        · simp at h
        · rename_i key _
          split at h
          · simp at h
          · split at h
            · simp at h
            · simp at h
            · split at h
              · simp at h
              · refine finishGroups_solid orc locale path rest _ _ keys' ws' h hrest ?_
                refine SolidKeys_insert'' hk ?_
                simp only [SolidV, Bool.and_eq_true]
                refine ⟨hc _ (List.mem_of_find?_eq_some hf), ?_⟩
                rw [SolidF_iff']
                intro e he
                simp only [formsOf, othersOf, List.mem_map, List.mem_filter] at he
                obtain ⟨x, ⟨hx, _⟩, rfl⟩ := he
                exact hc x hx

theorem loop_solid (orc : Oracle) (locale : Str) (fuel : Nat)
    (ih : ∀ path l l' w, mergePlurals orc locale fuel path l = .ok (l', w) → SolidKeys l.keys = true → SolidKeys l'.keys = true)
    (path : KeyPath) :
    ∀ (l acc : List (Str × PV)) (groups : List (Str × Cands)) (ws : List Warning) acc' groups' ws',
      mergePlurals.loop orc locale fuel path l acc groups ws = .ok (acc', groups', ws') →
      SolidKeys l = true → SolidKeys acc = true → GroupsSolid groups →
      SolidKeys acc' = true ∧ GroupsSolid groups'
  | [], acc, groups, ws, acc', groups', ws', h, _, ha, hg => by
    rw [loop_nil] at h
    simp only [Res.ok.injEq, Prod.mk.injEq] at h
    rw [← h.1, ← h.2.1]; exact ⟨ha, hg⟩
  | (k, v) :: rest, acc, groups, ws, acc', groups', ws', h, hl, ha, hg => by
    simp only [SolidKeys, Bool.and_eq_true] at hl
    by_cases hsub : ∃ sub, v = .subkeys (some sub)
    · obtain ⟨sub, rfl⟩ := hsub
      rw [loop_subkeys] at h
      split at h
      · rename_i sub' w hs
        have := ih _ _ _ _ hs (SolidV_subkeys' hl.1)
        refine loop_solid orc locale fuel ih path rest _ groups _ acc' groups' ws' h hl.2 (SolidKeys_insert'' ha ?_) hg
        cases sub'
        simpa [SolidV, Loc.keys] using this
      · simp at h
      · simp at h
    · have hv : ∀ sub, v ≠ .subkeys (some sub) := fun sub e => hsub ⟨sub, e⟩
      cases hp : isPossiblePlural k v with
      | none =>
        rw [loop_ordinary _ _ _ _ _ _ _ _ _ _ hv hp] at h
        exact loop_solid orc locale fuel ih path rest _ groups _ acc' groups' ws' h hl.2 (SolidKeys_insert'' ha hl.1) hg
      | some r =>
        have hsv := isPossiblePlural_solid k v r hp hl.1
        obtain ⟨b, rule, form⟩ := r
        rw [loop_candidate _ _ _ _ _ _ _ _ _ _ _ _ _ hp] at h
        split at h
        · simp at h
        · refine loop_solid orc locale fuel ih path rest acc _ _ acc' groups' ws' h hl.2 ha ?_
          intro g hm
          rcases AMap.mem_of_mem_insert' _ _ hm with rfl | hm
          · intro e he
            rcases Check.candInsert_mem _ _ _ e he with rfl | he
            · exact hsv
            · cases hget : AMap.get? b groups with
              | none => rw [hget] at he; simp at he
              | some cs => rw [hget] at he; exact hg (b, cs) (Check.get?_mem hget) e he
          · exact hg g hm

theorem mergePlurals_solid (orc : Oracle) (locale : Str) : ∀ (fuel : Nat) (path : KeyPath) (l l' : Loc) (w : List Warning),
    mergePlurals orc locale fuel path l = .ok (l', w) → SolidKeys l.keys = true → SolidKeys l'.keys = true := by
  intro fuel
  induction fuel with
  | zero => intro path l l' w h; simp [mergePlurals] at h
  | succ fuel ih =>
    intro path l l' w h hf
    obtain ⟨n, t, keys, s, c⟩ := l
    rw [mergePlurals_succ] at h
    split at h
    · simp at h
    · simp at h
    · rename_i acc groups ws hloop
      obtain ⟨h1, h2⟩ := loop_solid orc locale fuel ih path keys [] [] [] _ _ _ hloop hf rfl
        (by intro g hg; simp at hg)
      split at h
      · rename_i keys' ws' hfin
        simp only [Res.ok.injEq, Prod.mk.injEq] at h
        rw [← h.1]
        exact finishGroups_solid orc locale path groups acc ws keys' ws' hfin h2 h1
      · simp at h
      · simp at h

end plurals

/-! ### the stages before `check_locales` -/

section stages
open Pipeline

theorem mergePluralsNs_solid (orc : Oracle) (ns : Option Str) : ∀ (ls : List Loc) (ws : List Warning) ls' ws',
    mergePluralsNs orc ns ls ws = .ok (ls', ws') → (∀ l ∈ ls, SolidKeys l.keys = true) → ∀ l ∈ ls', SolidKeys l.keys = true
  | [], ws, ls', ws', h, _, l, hl => by simp [mergePluralsNs] at h; rw [h.1] at hl; simp at hl
  | x :: xs, ws, ls', ws', h, hf, l, hl => by
    simp only [mergePluralsNs] at h
    split at h
    · simp at h
    · simp at h
    · rename_i x' w hx
      split at h
      · rename_i ls1 ws1 hr
        simp only [Res.ok.injEq, Prod.mk.injEq] at h
        rw [← h.1] at hl
        rcases List.mem_cons.mp hl with rfl | hl
        · exact mergePlurals_solid _ _ _ _ _ _ _ hx (hf x (by simp))
        · exact mergePluralsNs_solid orc ns xs _ _ _ hr (fun y hy => hf y (by simp [hy])) l hl
      · simp at h
      · simp at h

theorem mergePluralsAll_solid (orc : Oracle) : ∀ (nss : List NS) (ws : List Warning) nss' ws',
    mergePluralsAll orc nss ws = .ok (nss', ws') → WorldSolid nss → WorldSolid nss'
  | [], ws, nss', ws', h, _ => by
    simp [mergePluralsAll] at h; rw [h.1]; intro ns hn; simp at hn
  | n :: rest, ws, nss', ws', h, hok => by
    simp only [mergePluralsAll] at h
    split at h
    · simp at h
    · simp at h
    · rename_i locs ws1 hl
      split at h
      · rename_i nss1 ws2 hr
        simp only [Res.ok.injEq, Prod.mk.injEq] at h
        rw [← h.1]
        intro ns hn
        rcases List.mem_cons.mp hn with rfl | hn
        · exact mergePluralsNs_solid _ _ _ _ _ _ hl (hok n (by simp))
        · exact mergePluralsAll_solid orc rest ws1 nss1 ws2 hr (fun x hx => hok x (by simp [hx])) ns hn
      · simp at h
      · simp at h

/-- every value that reaches `check_locales` is solid, provided the parse stage produces solid values -/
theorem resolved_solid_of_parse (inp : Input) (w : World) (ws : List Warning)
    (hp : ∀ w0 paths, Pipeline.parseRaw inp = .ok (w0, paths) → WorldSolid w0.nss)
    (h : Pipeline.resolved inp = .ok (w, ws)) : WorldSolid w.nss := by
  unfold Pipeline.resolved at h
  split at h
  · simp at h
  · simp at h
  · rename_i w0 paths hpr
    split at h
    · simp at h
    · simp at h
    · rename_i nss1 ws1 hm
      simp only at h
      split at h
      · simp at h
      · simp at h
      · rename_i w2 hr
        simp only [Res.ok.injEq, Prod.mk.injEq] at h
        rw [← h.1]
        refine resolveAll_solid _ _ _ _ _ _ hr ?_
        exact mergePluralsAll_solid _ _ _ _ _ hm (hp w0 paths hpr)

/-- **every value that reaches `check_locales` is solid**: every key of every locale of every
    namespace of the resolved world stores a group of such keys, a `Default`, or a `Solid` value -/
theorem resolved_solid (inp : Pipeline.Input) (w : World) (ws : List Warning)
    (h : Pipeline.resolved inp = .ok (w, ws)) : ∀ ns ∈ w.nss, ∀ l ∈ ns.locales, SolidKeys l.keys = true :=
  resolved_solid_of_parse inp w ws (fun w0 paths hp => parseRaw_solid inp w0 paths hp) h

end stages

end I18nVerif.Render
