import I18nVerif.Model.Manifest
/-! helper lemmas for `Theorems/C19Section.lean` -/
namespace I18nVerif.Manifest

theorem lines_flatten (m : List Char) : (lines m).flatten = m := by
  induction m with
  | nil => rfl
  | cons c cs ih =>
    unfold lines
    split
    · simp [ih]
    · split
      · rename_i h; rw [h] at ih; simp at ih; simp [ih]
      · rename_i l ls h; rw [h] at ih; simp at ih; simp [← ih]

theorem takeWhile_append_trimStart (l : List Char) : l.takeWhile isWs ++ trimStart l = l := by
  simp [trimStart, List.takeWhile_append_dropWhile]

theorem header_no_nl : countNl header = 0 := by decide

theorem header_length : header.length = 30 := by decide

theorem startsSection_iff (l : List Char) : startsSection l = true ↔ ∃ t, trimStart l = header ++ t := by
  simp only [startsSection, List.isPrefixOf_iff_prefix, List.IsPrefix]
  constructor
  · rintro ⟨t, h⟩; exact ⟨t, h.symm⟩
  · rintro ⟨t, h⟩; exact ⟨t, h.symm⟩

/-- the loop, relationally: the lines passed do not start the section, the line found does -/
theorem findSection_some (ls : List (List Char)) (pre b r : List Char) (h : findSection ls pre = some (b, r)) :
    ∃ ls₁ l ls₂, ls = ls₁ ++ l :: ls₂ ∧ (∀ x ∈ ls₁, startsSection x = false) ∧ startsSection l = true ∧
      b = pre ++ ls₁.flatten ++ l.takeWhile isWs ∧ r = (trimStart l).drop header.length ++ ls₂.flatten := by
  induction ls generalizing pre with
  | nil => simp [findSection] at h
  | cons l ls ih =>
    unfold findSection at h
    split at h
    · rename_i hs
      simp only [Option.some.injEq, Prod.mk.injEq] at h
      exact ⟨[], l, ls, rfl, by simp, hs, by simp [h.1], h.2.symm⟩
    · rename_i hs
      obtain ⟨ls₁, l', ls₂, e, h1, h2, h3, h4⟩ := ih _ h
      refine ⟨l :: ls₁, l', ls₂, by simp [e], ?_, h2, by simp [h3], h4⟩
      intro x hx
      cases hx with
      | head => simpa using hs
      | tail _ hx => exact h1 x hx

theorem findSection_none (ls : List (List Char)) (pre : List Char) :
    findSection ls pre = none ↔ ∀ l ∈ ls, startsSection l = false := by
  induction ls generalizing pre with
  | nil => simp [findSection]
  | cons l ls ih =>
    unfold findSection
    split
    · rename_i hs; simp [hs]
    · rename_i hs; simp [ih, hs]

theorem countNl_append (a b : List Char) : countNl (a ++ b) = countNl a + countNl b := by
  simp [countNl]

theorem countNl_filter (b : List Char) : countNl (b.filter (· == '\n')) = countNl b := by
  simp [countNl, List.count_filter]

theorem filter_nl_length (b : List Char) : (b.filter (· == '\n')).length = countNl b := by
  simp [countNl, List.count_eq_length_filter]

theorem takeWhile_all (p : Char → Bool) (l : List Char) : ∀ c ∈ l.takeWhile p, p c = true := by
  induction l with
  | nil => simp
  | cons x xs ih =>
    intro c hc
    by_cases hx : p x = true
    · simp only [List.takeWhile_cons, hx, if_true, List.mem_cons] at hc
      rcases hc with rfl | hc
      · exact hx
      · exact ih c hc
    · simp [hx] at hc

theorem dropWhile_all (p : Char → Bool) (l : List Char) (h : ∀ c ∈ l, p c = true) : l.dropWhile p = [] := by
  induction l with
  | nil => rfl
  | cons x xs ih =>
    have hx : p x = true := h x (by simp)
    simp only [List.dropWhile_cons, hx, if_true]
    exact ih (fun c hc => h c (by simp [hc]))

theorem header_head : header.head? = some '[' := by decide

theorem header_not_prefix_nil : header.isPrefixOf [] = false := by decide

theorem take_len_add (a r : List Char) (k : Nat) : (a ++ r).take (a.length + k) = a ++ r.take k := by
  induction a with
  | nil => simp
  | cons x xs ih => simp [Nat.succ_add, ih]

/-- the lines before any line end with a line terminator -/
theorem lines_prefix_nl (m : List Char) : ∀ (ls₁ : List (List Char)) (l : List Char) (ls₂ : List (List Char)),
    lines m = ls₁ ++ l :: ls₂ → ls₁ = [] ∨ ∃ p, ls₁.flatten = p ++ ['\n'] := by
  induction m with
  | nil => intro ls₁ l ls₂ h; simp [lines] at h
  | cons c cs ih =>
    intro ls₁ l ls₂ h
    unfold lines at h
    split at h
    · rename_i hc
      cases ls₁ with
      | nil => exact .inl rfl
      | cons x xs =>
        simp only [List.cons_append, List.cons.injEq] at h
        obtain ⟨hx, hrest⟩ := h
        right
        rcases ih xs l ls₂ hrest with rfl | ⟨p, hp⟩
        · exact ⟨[], by simp [← hx, hc]⟩
        · exact ⟨x ++ p, by simp [hp]⟩
    · split at h
      · cases ls₁ with
        | nil => exact .inl rfl
        | cons x xs =>
          simp only [List.cons_append, List.cons.injEq] at h
          have := h.2
          simp at this
      · rename_i l0 ls0 hl
        cases ls₁ with
        | nil => exact .inl rfl
        | cons x xs =>
          simp only [List.cons_append, List.cons.injEq] at h
          obtain ⟨hx, hrest⟩ := h
          right
          have hl' : lines cs = (l0 :: xs) ++ l :: ls₂ := by simp [hl, hrest]
          rcases ih (l0 :: xs) l ls₂ hl' with h0 | ⟨p, hp⟩
          · cases h0
          · refine ⟨c :: p, ?_⟩
            simp only [List.flatten_cons] at hp ⊢
            rw [← hx]
            simp [hp]

end I18nVerif.Manifest
