import I18nVerif.Proofs.Foreign
import I18nVerif.Proofs.Defaults
/-!
The fallback walk of a foreign key (`findDefining`, the loop of the repaired `resolve_foreign_key_inner`,
defects F11/F20) against the specification walk of C03 (`Spec.Fallback.effective`):

* `getValueAt` never returns an error and panics at one site only;
* `findDefining_fuel`: `inherits.length + 2` turns suffice (the fuel panic is unreachable);
* `findDefining_ok_walk`: a successful walk ends in the locale `Spec.Fallback.effective` designates — with *no*
  hypothesis on the configuration;
* `findDefining_err_inv`: the two errors are raised at the default locale only, which then does not define the
  target; `findDefining_err_walk`: and (when the default locale has no `inherits` entry, what `Config.new`
  guarantees) the effective locale is the default one.
-/
namespace I18nVerif.Foreign
open I18nVerif

/-! ### `getValueAt`: no error, one panic site -/

theorem locGet_not_err : ∀ (path : List Str) (keys : List (Str × PV)) (e : String),
    World.locGet keys path ≠ .err e
  | [], keys, e, h => by simp [World.locGet] at h
  | [k], keys, e, h => by simp [World.locGet] at h
  | k :: k2 :: rest, keys, e, h => by
    rw [World.locGet] at h
    · split at h
      · simp at h
      · rename_i l _
        exact locGet_not_err (k2 :: rest) l.keys e h
      · simp at h
      · simp at h
    · simp

theorem locGet_panic_site : ∀ (path : List Str) (keys : List (Str × PV)) (p : String),
    World.locGet keys path = .panic p → p = "get_value_at: empty subkeys"
  | [], keys, p, h => by simp [World.locGet] at h
  | [k], keys, p, h => by simp [World.locGet] at h
  | k :: k2 :: rest, keys, p, h => by
    rw [World.locGet] at h
    · split at h
      · simp at h
      · rename_i l _
        exact locGet_panic_site (k2 :: rest) l.keys p h
      · simp only [Res.panic.injEq] at h; exact h.symm
      · simp at h
    · simp

theorem getValueAt_cases_loc (w : World) (top : Str) (p : KeyPath) :
    w.getValueAt top p = .ok none ∨ ∃ keys, w.getValueAt top p = World.locGet keys p.path := by
  simp only [World.getValueAt]
  repeat' split
  all_goals first | exact .inl rfl | exact .inr ⟨_, rfl⟩

/-- `get_value_at` has no error outcome -/
theorem getValueAt_not_err (w : World) (top : Str) (p : KeyPath) (e : String) : w.getValueAt top p ≠ .err e := by
  rcases getValueAt_cases_loc w top p with h | ⟨keys, h⟩
  · rw [h]; simp
  · rw [h]; exact locGet_not_err _ _ _

/-- … and one panic site (an emptied subkey group on the way) -/
theorem getValueAt_panic_site (w : World) (top : Str) (p : KeyPath) (s : String)
    (h : w.getValueAt top p = .panic s) : s = "get_value_at: empty subkeys" := by
  rcases getValueAt_cases_loc w top p with h' | ⟨keys, h'⟩
  · rw [h'] at h; simp at h
  · rw [h'] at h; exact locGet_panic_site _ _ _ h

/-! ### "locale `x` defines the target" -/

/-- the presence predicate the specification walk is run with: the value at `(x, t)` exists and is not an
    explicit `null` (the same "defined" as for an ordinary key, C03) -/
def definesAt (w : World) (t : KeyPath) (x : Str) : Bool :=
  match w.getValueAt x t with
  | .ok (some .dflt) => false
  | .ok (some _) => true
  | _ => false

theorem definesAt_of_stored {w : World} {t : KeyPath} {x : Str} {v : PV}
    (h : w.getValueAt x t = .ok (some v)) (hv : v ≠ .dflt) : definesAt w t x = true := by
  unfold definesAt; rw [h]
  split
  · rename_i heq; simp at heq; exact absurd heq hv
  · rfl
  · rename_i h1 h2; exact absurd rfl (h2 v)

theorem definesAt_of_undef {w : World} {t : KeyPath} {x : Str} (h : Undef w x t) : definesAt w t x = false := by
  unfold definesAt
  rcases h with h | h <;> rw [h]

theorem definesAt_iff {w : World} {t : KeyPath} {x : Str} :
    definesAt w t x = true ↔ ∃ v, w.getValueAt x t = .ok (some v) ∧ v ≠ .dflt := by
  constructor
  · intro h
    rcases getValueAt_trichotomy w x t with ⟨e, hg⟩ | ⟨p, hg⟩ | hu | hv
    · simp [definesAt, hg] at h
    · simp [definesAt, hg] at h
    · rw [definesAt_of_undef hu] at h; cases h
    · exact hv
  · rintro ⟨v, hg, hv⟩; exact definesAt_of_stored hg hv

/-! ### at the default locale -/

theorem findDefining_default_src (w : World) (fb : Fallbacks) (fuel : Nat) (vis : List Str) (cur : Str)
    (t : KeyPath) (hd : (cur == fb.default) = true) {src : Str} {v : PV}
    (h : findDefining w fb fuel vis cur t = .ok (src, v)) : src = cur := by
  cases fuel with
  | zero => simp [findDefining] at h
  | succ f =>
    rcases findDefining_default_stops w fb f vis cur t hd with h' | h' | ⟨e, _, h'⟩ | ⟨p, _, h'⟩ | ⟨v', _, _, h'⟩
    all_goals rw [h'] at h
    · simp at h
    · simp at h
    · simp at h
    · simp at h
    · simp only [Res.ok.injEq, Prod.mk.injEq] at h; exact h.1.symm

/-! ### fuel sufficiency -/

theorem walk_len {dom vis : List Str} (hn : vis.Nodup) (hd : ∀ x ∈ vis, x ∈ dom) : vis.length ≤ dom.length :=
  Check.nodup_length_le hn hd

/-- **`inherits.length + 2` turns suffice.**  `vis` = the locales left behind (distinct, each with an `inherits`
    entry), `cur ∉ vis`: a panic of the walk is a panic of `getValueAt`, never the fuel. -/
theorem findDefining_fuel (w : World) (fb : Fallbacks) (t : KeyPath) :
    ∀ (f : Nat) (vis : List Str) (cur : Str), vis.Nodup → (∀ x ∈ vis, x ∈ fb.inherits.map Prod.fst) →
      cur ∉ vis → fb.inherits.length + 2 ≤ f + vis.length →
      ∀ p, findDefining w fb f vis cur t = .panic p → ∃ x, w.getValueAt x t = .panic p := by
  intro f
  induction f with
  | zero =>
    intro vis cur hn hd _ hf
    have := walk_len hn hd
    simp only [List.length_map] at this
    omega
  | succ f ih =>
    intro vis cur hn hd hfr hf p h
    have hlen := walk_len hn hd
    simp only [List.length_map] at hlen
    rcases getValueAt_trichotomy w cur t with ⟨e, hget⟩ | ⟨p', hget⟩ | hund | ⟨v0, hget, hv0⟩
    · rw [findDefining_get_err w fb f vis cur t hget] at h; simp at h
    · rw [findDefining_get_panic w fb f vis cur t hget] at h
      simp only [Res.panic.injEq] at h; subst h
      exact ⟨cur, hget⟩
    · cases hdflt : cur == fb.default with
      | true =>
        rcases hund with hu' | hu'
        · rw [findDefining_default_none w fb f vis cur t hu' hdflt] at h; simp at h
        · rw [findDefining_default_null w fb f vis cur t hu' hdflt] at h; simp at h
      | false =>
        rw [findDefining_step w fb f vis cur t hund hdflt] at h
        obtain ⟨f', rfl⟩ : ∃ f', f = f' + 1 := ⟨f - 1, by omega⟩
        have atDefault : ∀ vis', findDefining w fb (f' + 1) vis' fb.default t = .panic p →
            ∃ x, w.getValueAt x t = .panic p := by
          intro vis' h
          rcases findDefining_default_stops w fb f' vis' fb.default t (by simp) with
            h' | h' | ⟨e, _, h'⟩ | ⟨p', hp, h'⟩ | ⟨v', _, _, h'⟩
          all_goals rw [h'] at h
          · simp at h
          · simp at h
          · simp at h
          · simp only [Res.panic.injEq] at h; subst h; exact ⟨_, hp⟩
          · simp at h
        cases hgq : AMap.get? cur fb.inherits with
        | none =>
          simp only [nextLocale, hgq] at h
          exact atDefault _ h
        | some l =>
          simp only [nextLocale, hgq] at h
          cases hc : (cur :: vis).contains l with
          | true =>
            simp only [hc, if_true] at h
            exact atDefault _ h
          | false =>
            simp only [hc, Bool.false_eq_true, if_false] at h
            refine ih (cur :: vis) l (List.nodup_cons.mpr ⟨hfr, hn⟩) ?_ (by simpa using hc)
              (by simp only [List.length_cons]; omega) p h
            intro x hx
            rcases List.mem_cons.mp hx with rfl | hx
            · exact AMap.mem_of_get?_eq_some hgq
            · exact hd x hx
    · rw [findDefining_here w fb f vis cur t hget hv0] at h; simp at h

/-- the fuel `resolveNode` gives is enough: the walk of a node never ends in the fuel panic -/
theorem nodeWalk_no_fuel_panic (w : World) (fb : Fallbacks) (top : Str) (t : KeyPath) :
    nodeWalk w fb top t ≠ .panic "fuel" := by
  intro h
  obtain ⟨x, hx⟩ := findDefining_fuel w fb t _ [] top List.nodup_nil (by simp) (by simp) (by simp) _ h
  have := getValueAt_panic_site w x t _ hx
  simp at this

/-- more fuel than `inherits.length + 2` changes nothing -/
theorem findDefining_fuel_irrel (w : World) (fb : Fallbacks) (top : Str) (t : KeyPath) (f : Nat)
    (hf : fb.inherits.length + 2 ≤ f) : findDefining w fb f [] top t = nodeWalk w fb top t := by
  induction hf with
  | refl => rfl
  | step _ ih =>
    rcases findDefining_mono_step w fb t _ [] top with h | h
    · rw [ih] at h; exact absurd h (nodeWalk_no_fuel_panic w fb top t)
    · rw [h, ih]

/-! ### a successful walk ends where the specification walk ends -/

theorem specWalk_seen (inh : List (Str × Str)) (d : Str) (defined : Str → Bool) (g : Nat) (l : Str)
    (seen : List Str) (hl : l ∈ seen) (hu : defined l = false) :
    Spec.Fallback.walk inh d defined g l seen = d := by
  cases g with
  | zero => simp [Spec.Fallback.walk]
  | succ g =>
    have : seen.contains l = true := by simpa using hl
    simp only [Spec.Fallback.walk, hu, this, Bool.false_eq_true, if_false, if_true]

/-- **The locale a reference reads its target in is the effective locale of the target** (general form: any
    point of the walk; `vis` = locales left behind: distinct, with an `inherits` entry, not defining `t`). -/
theorem findDefining_ok_walk (w : World) (fb : Fallbacks) (t : KeyPath) :
    ∀ (f g : Nat) (vis : List Str) (cur src : Str) (v : PV),
      vis.Nodup → (∀ x ∈ vis, x ∈ fb.inherits.map Prod.fst) → (∀ x ∈ vis, definesAt w t x = false) →
      cur ∉ vis → fb.inherits.length + 1 ≤ g + vis.length →
      findDefining w fb f vis cur t = .ok (src, v) →
      Spec.Fallback.walk fb.inherits fb.default (definesAt w t) g cur vis = src := by
  intro f
  induction f with
  | zero => intro g vis cur src v _ _ _ _ _ h; simp [findDefining] at h
  | succ f ih =>
    intro g vis cur src v hn hd hu hfr hg h
    have hlen := walk_len hn hd
    simp only [List.length_map] at hlen
    obtain ⟨g, rfl⟩ : ∃ g', g = g' + 1 := ⟨g - 1, by omega⟩
    rcases getValueAt_trichotomy w cur t with ⟨e, hget⟩ | ⟨p', hget⟩ | hund | ⟨v0, hget, hv0⟩
    · rw [findDefining_get_err w fb f vis cur t hget] at h; simp at h
    · rw [findDefining_get_panic w fb f vis cur t hget] at h; simp at h
    · have hdef : definesAt w t cur = false := definesAt_of_undef hund
      cases hdflt : cur == fb.default with
      | true =>
        rcases hund with hu' | hu'
        · rw [findDefining_default_none w fb f vis cur t hu' hdflt] at h; simp at h
        · rw [findDefining_default_null w fb f vis cur t hu' hdflt] at h; simp at h
      | false =>
        rw [findDefining_step w fb f vis cur t hund hdflt] at h
        have hsc : vis.contains cur = false := by simpa using hfr
        simp only [Spec.Fallback.walk, hdef, hsc, Bool.false_eq_true, if_false]
        cases hgq : AMap.get? cur fb.inherits with
        | none =>
          simp only [nextLocale, hgq] at h
          exact (findDefining_default_src w fb f _ _ t (by simp) h).symm
        | some l =>
          simp only [nextLocale, hgq] at h
          cases hc : (cur :: vis).contains l with
          | true =>
            simp only [hc, if_true] at h
            rw [findDefining_default_src w fb f _ _ t (by simp) h]
            have hl : l ∈ cur :: vis := by simpa using hc
            refine specWalk_seen _ _ _ _ _ _ hl ?_
            rcases List.mem_cons.mp hl with rfl | hl
            · exact hdef
            · exact hu l hl
          | false =>
            simp only [hc, Bool.false_eq_true, if_false] at h
            refine ih g (cur :: vis) l src v (List.nodup_cons.mpr ⟨hfr, hn⟩) ?_ ?_ (by simpa using hc)
              (by simp only [List.length_cons]; omega) h
            · intro x hx
              rcases List.mem_cons.mp hx with rfl | hx
              · exact AMap.mem_of_get?_eq_some hgq
              · exact hd x hx
            · intro x hx
              rcases List.mem_cons.mp hx with rfl | hx
              · exact hdef
              · exact hu x hx
    · rw [findDefining_here w fb f vis cur t hget hv0] at h
      simp only [Res.ok.injEq, Prod.mk.injEq] at h
      obtain ⟨rfl, rfl⟩ := h
      simp [Spec.Fallback.walk, definesAt_of_stored hget hv0]

/-! ### the errors of the walk -/

/-- the two errors are raised at the default locale only (every fuel, every point of the walk) -/
theorem findDefining_err_inv (w : World) (fb : Fallbacks) (t : KeyPath) :
    ∀ (f : Nat) (vis : List Str) (cur : Str) (e : String), findDefining w fb f vis cur t = .err e →
      (e = "MissingForeignKey" ∧ w.getValueAt fb.default t = .ok none) ∨
      (e = "ExplicitDefaultInDefault" ∧ w.getValueAt fb.default t = .ok (some .dflt))
  | 0, vis, cur, e, h => by simp [findDefining] at h
  | f + 1, vis, cur, e, h => by
    rcases getValueAt_trichotomy w cur t with ⟨e', hget⟩ | ⟨p', hget⟩ | hund | ⟨v0, hget, hv0⟩
    · exact absurd hget (getValueAt_not_err w cur t e')
    · rw [findDefining_get_panic w fb f vis cur t hget] at h; simp at h
    · cases hdflt : cur == fb.default with
      | true =>
        have hcd : cur = fb.default := by simpa using hdflt
        rcases hund with hu' | hu'
        · rw [findDefining_default_none w fb f vis cur t hu' hdflt] at h
          simp only [Res.err.injEq] at h
          exact .inl ⟨h.symm, hcd ▸ hu'⟩
        · rw [findDefining_default_null w fb f vis cur t hu' hdflt] at h
          simp only [Res.err.injEq] at h
          exact .inr ⟨h.symm, hcd ▸ hu'⟩
      | false =>
        rw [findDefining_step w fb f vis cur t hund hdflt] at h
        exact findDefining_err_inv w fb t f _ _ e h
    · rw [findDefining_here w fb f vis cur t hget hv0] at h; simp at h

/-- … and then the specification walk ends at the default locale too, provided the default locale has no
    `inherits` entry (guaranteed by `Config.new`: `Proofs/Config.lean`, `new_ok`) -/
theorem findDefining_err_walk (w : World) (fb : Fallbacks) (t : KeyPath)
    (hD : AMap.get? fb.default fb.inherits = none) :
    ∀ (f g : Nat) (vis : List Str) (cur : Str) (e : String),
      (∀ x ∈ vis, definesAt w t x = false) → cur ∉ vis →
      findDefining w fb f vis cur t = .err e →
      Spec.Fallback.walk fb.inherits fb.default (definesAt w t) g cur vis = fb.default := by
  intro f
  induction f with
  | zero => intro g vis cur e _ _ h; simp [findDefining] at h
  | succ f ih =>
    intro g vis cur e hu hfr h
    cases g with
    | zero => simp [Spec.Fallback.walk]
    | succ g =>
    rcases getValueAt_trichotomy w cur t with ⟨e', hget⟩ | ⟨p', hget⟩ | hund | ⟨v0, hget, hv0⟩
    · exact absurd hget (getValueAt_not_err w cur t e')
    · rw [findDefining_get_panic w fb f vis cur t hget] at h; simp at h
    · have hdef : definesAt w t cur = false := definesAt_of_undef hund
      have hsc : vis.contains cur = false := by simpa using hfr
      simp only [Spec.Fallback.walk, hdef, hsc, Bool.false_eq_true, if_false]
      cases hdflt : cur == fb.default with
      | true =>
        have hcd : cur = fb.default := by simpa using hdflt
        rw [hcd, hD]
      | false =>
        rw [findDefining_step w fb f vis cur t hund hdflt] at h
        cases hgq : AMap.get? cur fb.inherits with
        | none => rfl
        | some l =>
          simp only [nextLocale, hgq] at h
          cases hc : (cur :: vis).contains l with
          | true =>
            have hl : l ∈ cur :: vis := by simpa using hc
            refine specWalk_seen _ _ _ _ _ _ hl ?_
            rcases List.mem_cons.mp hl with rfl | hl
            · exact hdef
            · exact hu l hl
          | false =>
            simp only [hc, Bool.false_eq_true, if_false] at h
            refine ih g (cur :: vis) l e ?_ (by simpa using hc) h
            intro x hx
            rcases List.mem_cons.mp hx with rfl | hx
            · exact hdef
            · exact hu x hx
    · rw [findDefining_here w fb f vis cur t hget hv0] at h; simp at h

/-! ### a node = the walk, then everything else in the locale of the reference -/

/-- what `resolveNode` does with the outcome of the fallback walk: the value found at `(src, target)` is resolved as
    a key of locale `src`; the arguments are resolved, and the target populated, in the locale `top` of the reference -/
def afterWalk (orc : Oracle) (w : World) (dflt : Fallbacks) (fuel : Nat) (vis : List KeyId) (phys : KeyId)
    (top : Str) (target : KeyPath) (args : List (Str × PV)) : Res (Str × PV) → Res PV
  | .err e => .err e
  | .panic p => .panic p
  | .ok (src, value) =>
    if (phys :: vis).contains (src, target) then .err "RecursiveForeignKey" else
    match resolvePV orc w dflt fuel (phys :: vis) (src, target) src value with
    | .err e => .err e
    | .panic p => .panic p
    | .ok value' =>
      match resolveArgs orc w dflt fuel (phys :: vis) phys top args with
      | .err e => .err e
      | .panic p => .panic p
      | .ok args' =>
        match populate orc top args' value' with
        | .ok v => .ok (.fk (.set v))
        | .err e => .err e
        | .panic p => .panic p

theorem resolveNode_afterWalk (orc : Oracle) (w : World) (dflt : Fallbacks) (fuel : Nat) (vis : List KeyId)
    (phys : KeyId) (top : Str) (target : KeyPath) (args : List (Str × PV)) :
    resolveNode orc w dflt (fuel + 1) vis phys top target args =
      afterWalk orc w dflt fuel vis phys top target args (nodeWalk w dflt top target) := by
  rw [resolveNode_succ]
  unfold nodeWalk
  generalize findDefining w dflt (dflt.inherits.length + 2) [] top target = r
  cases r with
  | err e => rfl
  | panic p => rfl
  | ok x => obtain ⟨src, value⟩ := x; rfl

end I18nVerif.Foreign
