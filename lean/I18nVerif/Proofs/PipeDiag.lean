import I18nVerif.Proofs.RenderGlue
import I18nVerif.Theorems.C08
import I18nVerif.Spec.PipeDiag
/-!
Helpers for `Theorems/C07Pipeline.lean` and `Theorems/C08Pipeline.lean`: the stage-level theorems
about `check_locales_inner` (C07: `Proofs/Merge.lean`; C08: `Proofs/Keys.lean`, `Proofs/DatakeyAll.lean`)
lifted to `Pipeline.checkAll` / `Pipeline.run`, with every statement phrased over the resolved world.

1. `SkL` (same key tree) is an equivalence; `reduce` is idempotent on the key tree
   (`reduce_skel`); `makeBuilderKeys` builds the key tree of the default locale
   (`makeBuilderKeys_skel`), merges and `propagate` keep it (`checkLocalesInner_tree`).
2. the key tree read at key paths (`tree_valueAt`).
3. warnings of `checkAll` (`checkAll_diag`).
4. `mergeKeys_calls` / `mergeKeys_err_calls` (what `Locale::merge` does with each builder key); per leaf the
   chain of `MergeStep`s, per node `Fits`, at every depth (`mergeLocale_step`, `go_steps`, `checkLocalesInner_steps`);
   `makeKeys_calls`, `makeBuilderKeys_init`, `Steps_lit`, `checkLocalesInner_lit`: literal accessor or builder.
6. where an error comes from (`mergeValue_err_value/_group`, `ErrAt`, `mergeLocale_err`, `makeBuilderKeys_err`,
   `go_err`, `checkLocalesInner_err`, `checkAll_err_ns`).
7. one namespace: `checkLocalesInner_nsErr` (an error witnesses its cause on the resolved values),
   `checkLocalesInner_ok_clean` (success excludes every cause).
8. the pipeline (`run_ok_parts`, `run_err_parts`, `resolved_nd`, `run_err_witness`, `run_ok_clean`).
9. `sigIsUnion_of_extBy`: the signature of a key as a union over the locales.
10. the diagnostics as a set: `localeW_iff_diag`, `nsW_iff_diag`, `diagAt_iff_path`.
-/
namespace I18nVerif.PipeDiag
open I18nVerif Check Reduce Spec.Diagnostics Spec.Fallback Datakey Occ Keys PipeInv

/-! ## 1. key trees -/

mutual
theorem Sk_refl : ∀ lv : LV, LV.Sk lv lv
  | .value _ _ => by simp [LV.Sk]
  | .subkeys _ ks => by simp only [LV.Sk]; exact SkL_refl ks
theorem SkL_refl : ∀ l : List (Str × LV), SkL l l
  | [] => by simp [SkL]
  | (k, lv) :: r => by simp only [SkL]; exact ⟨trivial, Sk_refl lv, SkL_refl r⟩
end

mutual
theorem Sk_symm : ∀ a b : LV, LV.Sk a b → LV.Sk b a
  | .value _ _, .value _ _, _ => by simp [LV.Sk]
  | .subkeys _ ks, .subkeys _ ks', h => by simp only [LV.Sk] at h ⊢; exact SkL_symm ks ks' h
  | .value _ _, .subkeys _ _, h => by simp [LV.Sk] at h
  | .subkeys _ _, .value _ _, h => by simp [LV.Sk] at h
theorem SkL_symm : ∀ a b : List (Str × LV), SkL a b → SkL b a
  | [], [], _ => by simp [SkL]
  | (k, lv) :: r, (k', lv') :: r', h => by
    simp only [SkL] at h ⊢
    exact ⟨h.1.symm, Sk_symm lv lv' h.2.1, SkL_symm r r' h.2.2⟩
  | [], _ :: _, h => by simp [SkL] at h
  | _ :: _, [], h => by simp [SkL] at h
end

mutual
theorem Sk_trans : ∀ a b c : LV, LV.Sk a b → LV.Sk b c → LV.Sk a c
  | .value _ _, .value _ _, .value _ _, _, _ => by simp [LV.Sk]
  | .subkeys _ k1, .subkeys _ k2, .subkeys _ k3, h1, h2 => by
    simp only [LV.Sk] at h1 h2 ⊢; exact SkL_trans k1 k2 k3 h1 h2
  | .value _ _, .subkeys _ _, _, h, _ => by simp [LV.Sk] at h
  | .subkeys _ _, .value _ _, _, h, _ => by simp [LV.Sk] at h
  | .value _ _, .value _ _, .subkeys _ _, _, h => by simp [LV.Sk] at h
  | .subkeys _ _, .subkeys _ _, .value _ _, _, h => by simp [LV.Sk] at h
theorem SkL_trans : ∀ a b c : List (Str × LV), SkL a b → SkL b c → SkL a c
  | [], [], [], _, _ => by simp [SkL]
  | (k1, l1) :: r1, (k2, l2) :: r2, (k3, l3) :: r3, h1, h2 => by
    simp only [SkL] at h1 h2 ⊢
    exact ⟨h1.1.trans h2.1, Sk_trans l1 l2 l3 h1.2.1 h2.2.1, SkL_trans r1 r2 r3 h1.2.2 h2.2.2⟩
  | [], _ :: _, _, h, _ => by simp [SkL] at h
  | _ :: _, [], _, h, _ => by simp [SkL] at h
  | [], [], _ :: _, _, h => by simp [SkL] at h
  | _ :: _, _ :: _, [], _, h => by simp [SkL] at h
end

theorem SkL_append : ∀ (a a' b b' : List (Str × LV)), SkL a a' → SkL b b' → SkL (a ++ b) (a' ++ b')
  | [], [], b, b', _, h => by simpa using h
  | (k, lv) :: r, (k', lv') :: r', b, b', h1, h2 => by
    simp only [SkL, List.cons_append] at h1 ⊢
    exact ⟨h1.1, h1.2.1, SkL_append r r' b b' h1.2.2 h2⟩
  | [], _ :: _, _, _, h, _ => by simp [SkL] at h
  | _ :: _, [], _, _, h, _ => by simp [SkL] at h

/-- a value that is not a group is a leaf of the key tree -/
theorem skelPV_leaf {v : PV} (h : ∀ l, v ≠ .subkeys (some l)) : skelPV v = .value (.lit .string) ⟨[], []⟩ := by
  cases v with
  | subkeys o =>
    cases o with
    | none => simp [skelPV]
    | some l => exact absurd rfl (h l)
  | _ => simp [skelPV]

theorem skelPV_group (l : Loc) : skelPV (.subkeys (some l)) = .subkeys [] (skelK l.keys) := by
  cases l; simp [skelPV, Loc.keys]

theorem skelK_keys : ∀ ks : List (Str × PV), (skelK ks).map Prod.fst = ks.map Prod.fst
  | [] => by simp [skelK]
  | (k, v) :: r => by simp [skelK, skelK_keys r]

theorem skelPV_wrapBloc : ∀ {acc : List PV}, Good acc → skelPV (wrapBloc acc) = .value (.lit .string) ⟨[], []⟩
  | [], _ => by simp [wrapBloc, PV.empty, skelPV]
  | [one], g => by
    have := g.items
    simp only [List.all_cons, List.all_nil, Bool.and_true] at this
    simp only [wrapBloc]
    apply skelPV_leaf
    intro l e; subst e; simp [itemOk] at this
  | a :: b :: rest, _ => by simp [wrapBloc, skelPV]

mutual
/-- reducing an already reduced value again does not change its key tree -/
theorem reduce_skel : ∀ (v v' : PV), Reduced v = true → reduce v = .ok v' → LV.Sk (skelPV v) (skelPV v')
  | .lit l, v', _, h => by simp [reduce] at h; subst h; exact Sk_refl _
  | .var k f, v', _, h => by simp [reduce] at h; subst h; exact Sk_refl _
  | .dflt, v', _, h => by simp [reduce] at h; subst h; exact Sk_refl _
  | .fk f, v', hr, _ => by simp [Reduced] at hr
  | .ranges ck t bs, v', _, h => by
    simp only [reduce] at h
    split at h <;> try (simp at h; done)
    simp at h; subst h; simp [skelPV, LV.Sk]
  | .comp k inner, v', _, h => by
    simp only [reduce] at h
    split at h <;> try (simp at h; done)
    simp at h; subst h; simp [skelPV, LV.Sk]
  | .subkeys (some (.mk n t keys s c)), v', hr, h => by
    simp only [reduce] at h
    split at h <;> try (simp at h; done)
    rename_i ks hk
    simp at h; subst h
    simp only [Reduced] at hr
    simp only [skelPV, LV.Sk]
    exact reduceKeys_skel keys ks hr hk
  | .subkeys none, v', hr, _ => by simp [Reduced] at hr
  | .bloc items, v', _, h => by
    simp only [reduce] at h
    split at h <;> try (simp at h; done)
    rename_i acc hacc
    simp at h; subst h
    rw [skelPV_wrapBloc (reduceIntoL_good items [] acc hacc Good.nil)]
    simp [skelPV, LV.Sk]
  | .plurals r ck other forms, v', _, h => by
    simp only [reduce] at h
    split at h <;> try (simp at h; done)
    simp at h; subst h; simp [skelPV, LV.Sk]
theorem reduceKeys_skel : ∀ (ks ks' : List (Str × PV)), ReducedK ks = true → reduceKeys ks = .ok ks' →
    SkL (skelK ks) (skelK ks')
  | [], ks', _, h => by simp [reduceKeys] at h; subst h; simp [skelK, SkL]
  | (g, v) :: rest, ks', hr, h => by
    simp only [reduceKeys] at h
    split at h <;> try (simp at h; done)
    rename_i v' rest' hv hrest
    simp at h; subst h
    simp only [ReducedK, Bool.and_eq_true] at hr
    simp only [skelK, SkL]
    exact ⟨trivial, reduce_skel v v' hr.1 hv, reduceKeys_skel rest rest' hr.2 hrest⟩
end

theorem reducedK_of_reduced_group {v : PV} {l : Loc} (h : Reduced v = true) (e : v = .subkeys (some l)) :
    ReducedK l.keys = true := by
  subst e; cases l; simpa [Reduced, Loc.keys] using h

theorem reduceKeys_ok_of_reduced (ks : List (Str × PV)) (h : ReducedK ks = true) : ∃ ks', reduceKeys ks = .ok ks' :=
  reduceKeys_ok_of_clean ks (cleanK_of_reduced ks h)

/-- the key tree of a reduced key map, computed from it directly or after another `reduce` -/
theorem skel_rereduce (ks ks' : List (Str × PV)) (h : ReducedK ks = true) (hk : reduceKeys ks = .ok ks') :
    SkL (skelK ks') (skelK ks) :=
  SkL_symm _ _ (reduceKeys_skel ks ks' h hk)

/-! ### `makeBuilderKeys` builds the key tree of the locale -/

def RecMakeSkel (recMake : MakeRec) : Prop :=
  ∀ path sub strs sub' bki strs', recMake path sub strs = .ok (sub', bki, strs') →
    ∃ rk, reduceKeys sub.keys = .ok rk ∧ SkL bki (skelK rk)

theorem reduceKeys_cons_ok {k : Str} {v v' : PV} {rest rest' : List (Str × PV)} (h1 : reduce v = .ok v')
    (h2 : reduceKeys rest = .ok rest') : reduceKeys ((k, v) :: rest) = .ok ((k, v') :: rest') := by
  simp [reduceKeys, h1, h2]

theorem makeKeys_skel (recMake : MakeRec) (hrec : RecMakeSkel recMake) (dflt : Str) (path : KeyPath) :
    ∀ (l accK : List (Str × PV)) (accB : BKI) (strs : List Str) ks b s,
      makeKeys recMake dflt path l accK accB strs = .ok (ks, b, s) →
      ∃ rk newB, reduceKeys l = .ok rk ∧ b = accB ++ newB ∧ SkL newB (skelK rk) := by
  intro l
  induction l with
  | nil =>
    intro accK accB strs ks b s h
    simp only [makeKeys, Res.ok.injEq, Prod.mk.injEq] at h
    obtain ⟨-, rfl, -⟩ := h
    exact ⟨[], [], rfl, by simp, by simp [skelK, SkL]⟩
  | cons e l ih =>
    obtain ⟨k0, v0⟩ := e
    intro accK accB strs ks b s h
    simp only [makeKeys] at h
    split at h
    · simp at h
    · simp at h
    · rename_i v1 hred
      have hR : Reduced v1 = true := reduce_reduced v0 v1 hred
      split at h
      · rename_i sub hsh
        have hv1 : v1 = .subkeys (some sub) := shapeOf'_inl hsh
        split at h
        · simp at h
        · simp at h
        · rename_i sub' bkiS strs' hrm
          obtain ⟨rk2, hrk2, hsk2⟩ := hrec _ _ _ _ _ _ hrm
          obtain ⟨rk, newB, h1, h2, h3⟩ := ih _ _ _ _ _ _ h
          refine ⟨(k0, v1) :: rk, (k0, .subkeys [sub'] bkiS) :: newB, reduceKeys_cons_ok hred h1, by simp [h2], ?_⟩
          simp only [skelK, SkL]
          refine ⟨trivial, ?_, h3⟩
          rw [hv1, skelPV_group]
          simp only [LV.Sk]
          exact SkL_trans _ _ _ hsk2 (skel_rereduce _ _ (reducedK_of_reduced_group hR hv1) hrk2)
      · simp at h
      · simp at h
      · rename_i hsh
        split at h
        · simp at h
        · simp at h
        · rename_i iol0 hgk
          obtain ⟨rk, newB, h1, h2, h3⟩ := ih _ _ _ _ _ _ h
          refine ⟨(k0, v1) :: rk, (k0, .value iol0 ⟨dflt, []⟩) :: newB, reduceKeys_cons_ok hred h1, by simp [h2], ?_⟩
          simp only [skelK, SkL]
          refine ⟨trivial, ?_, h3⟩
          rw [skelPV_leaf (v := v1) (by intro l e; subst e; simp [makeKeys.shapeOf'] at hsh)]
          simp [LV.Sk]

theorem makeBuilderKeys_skel (dflt : Str) : ∀ fuel, RecMakeSkel (makeBuilderKeys dflt fuel) := by
  intro fuel
  induction fuel with
  | zero => intro path sub strs sub' bki strs' h; simp [makeBuilderKeys] at h
  | succ fuel ih =>
    intro path loc strs loc' bki strs' h
    simp only [makeBuilderKeys] at h
    split at h
    · rename_i keys' b s hk
      simp only [Res.ok.injEq, Prod.mk.injEq] at h
      obtain ⟨-, rfl, -⟩ := h
      obtain ⟨rk, newB, h1, h2, h3⟩ := makeKeys_skel _ ih dflt path _ _ _ _ _ _ _ hk
      simp only [List.nil_append] at h2
      subst h2
      exact ⟨rk, h1, h3⟩
    · simp at h
    · simp at h

/-! ### merges and `propagate` keep the key tree -/

theorem go_sk (suppress : Bool) (fuel : Nat) (inherits : List (Str × Str)) (dl : Loc) (path : KeyPath) :
    ∀ (others acc : List Loc) (bki : BKI) (ws : List Warning) locales bki' ws',
      checkLocalesInner.go suppress fuel inherits dl path others acc bki ws = .ok (locales, bki', ws') →
      SkL bki bki' := by
  intro others
  induction others with
  | nil =>
    intro acc bki ws locales bki' ws' h
    simp only [checkLocalesInner.go, Res.ok.injEq, Prod.mk.injEq] at h
    obtain ⟨-, rfl, -⟩ := h
    exact SkL_refl _
  | cons l rest ih =>
    intro acc bki ws locales bki' ws' h
    simp only [checkLocalesInner.go] at h
    split at h
    · simp at h
    · simp at h
    · rename_i l' bki1 st hml
      exact SkL_trans _ _ _ (mergeLocale_sk suppress _ _ fuel path l bki _ l' bki1 st hml) (ih _ _ _ _ _ _ h)

theorem propLV_sk_of (fuel : Nat) (counts : List Nat) (ih : ∀ b : BKI, SkL b (propagate fuel counts b)) :
    ∀ lv : LV, LV.Sk lv (propLV fuel counts lv)
  | .value _ _ => by simp [propLV, LV.Sk]
  | .subkeys _ ks => by simp only [propLV, LV.Sk]; exact ih ks

theorem propagate_sk (counts : List Nat) : ∀ (fuel : Nat) (b : BKI), SkL b (propagate fuel counts b) := by
  intro fuel
  induction fuel with
  | zero => intro b; exact SkL_refl b
  | succ fuel ih =>
    intro b
    rw [propagate_succ]
    induction b with
    | nil => simp [SkL]
    | cons e r ihr =>
      obtain ⟨k, lv⟩ := e
      simp only [List.map_cons, SkL]
      exact ⟨trivial, propLV_sk_of fuel counts ih lv, ihr⟩

theorem checkW_sk (suppress : Bool) (inherits : List (Str × Str)) (path : KeyPath) (b b' : BKI) (h : SkL b b') :
    ∀ others : List Loc, checkW suppress inherits path others b = checkW suppress inherits path others b' := by
  intro others
  unfold checkW
  induction others with
  | nil => rfl
  | cons a r ih => simp only [List.flatMap_cons, ih]; rw [localeW_sk _ _ _ _ _ _ _ h]

/-- **one namespace**: the final builder keys have the key tree of the default locale, and (default
    locale with distinct keys) the warnings added are the specified ones, computed on that tree -/
theorem checkLocalesInner_tree {suppress : Bool} {fuel : Nat} {inherits : List (Str × Str)} {ns : Option Str}
    {dl : Loc} {others : List Loc} {ws : List Warning} {locales : List Loc} {bkiF : BKI} {ws' : List Warning}
    (h : checkLocalesInner suppress fuel inherits ns (dl :: others) ws = .ok (locales, bkiF, ws')) :
    ∃ t, keyTree dl.keys = some t ∧ SkL bkiF t ∧
      (NDLoc fuel dl → ws' = ws ++ checkW suppress inherits ⟨ns, []⟩ others t) := by
  obtain ⟨dl', bki0, strs, dl'', bki1, hmk, hgo, rfl⟩ := checkLocalesInner_parts h
  obtain ⟨rk, hrk, hsk0⟩ := makeBuilderKeys_skel dl.top fuel _ _ _ _ _ _ hmk
  have hsk1 := go_sk _ _ _ _ _ _ _ _ _ _ _ _ hgo
  refine ⟨skelK rk, by simp [keyTree, hrk], ?_, ?_⟩
  · exact SkL_trans _ _ _ (SkL_symm _ _ (propagate_sk _ _ _)) (SkL_trans _ _ _ (SkL_symm _ _ hsk1) hsk0)
  · intro hnd
    obtain ⟨dl2, bki2, strs2, hmk2, _, hw, _⟩ := checkLocalesInner_spec suppress fuel inherits ns dl others ws _ _ _ hnd h
    rw [hmk] at hmk2
    simp only [Res.ok.injEq, Prod.mk.injEq] at hmk2
    obtain ⟨-, rfl, -⟩ := hmk2
    rw [hw, checkW_sk _ _ _ _ _ hsk0]

/-! ## 2. the key tree read at key paths -/

/-- what is at the end of a key path: `some true` a group, `some false` a leaf, `none` nothing -/
def lvKind : Option LV → Option Bool
  | some (.subkeys _ _) => some true
  | some (.value _ _) => some false
  | none => none

def pvKind : Option PV → Option Bool
  | some (.subkeys _) => some true
  | some _ => some false
  | none => none

/-- below one builder key -/
def lvRel : LV → List Str → Option LV
  | lv, [] => some lv
  | .subkeys _ ks, k2 :: r => lvAt ks (k2 :: r)
  | .value _ _, _ :: _ => none

theorem lvAt_cons (b : BKI) (k : Str) (rest : List Str) :
    lvAt b (k :: rest) = match AMap.get? k b with
      | none => none
      | some lv => lvRel lv rest := by
  simp only [lvAt]
  cases AMap.get? k b with
  | none => rfl
  | some lv =>
    cases rest with
    | nil => rfl
    | cons k2 r => cases lv <;> rfl

theorem lvAt_nil (b : BKI) : lvAt b [] = none := by cases b <;> rfl

theorem SkL_get : ∀ (a b : List (Str × LV)), SkL a b → ∀ k,
    (AMap.get? k a = none ∧ AMap.get? k b = none) ∨
    ∃ x y, AMap.get? k a = some x ∧ AMap.get? k b = some y ∧ LV.Sk x y
  | [], [], _, k => by simp [AMap.get?]
  | (k1, l1) :: r1, (k2, l2) :: r2, h, k => by
    simp only [SkL] at h
    obtain ⟨rfl, h1, h2⟩ := h
    rw [AMap.get?_cons, AMap.get?_cons]
    by_cases hk : k1 = k
    · simp only [hk, if_true]; exact Or.inr ⟨l1, l2, rfl, rfl, h1⟩
    · simp only [hk, if_false]; exact SkL_get r1 r2 h2 k
  | [], _ :: _, h, _ => by simp [SkL] at h
  | _ :: _, [], h, _ => by simp [SkL] at h

theorem skelK_get (k : Str) : ∀ ks : List (Str × PV), AMap.get? k (skelK ks) = (AMap.get? k ks).map skelPV
  | [] => by simp [skelK, AMap.get?]
  | (k1, v) :: r => by
    simp only [skelK]
    rw [AMap.get?_cons, AMap.get?_cons]
    by_cases hk : k1 = k
    · simp [hk]
    · simp only [hk, if_false]; exact skelK_get k r

theorem reduceKeys_get (k : Str) : ∀ (ks rk : List (Str × PV)), reduceKeys ks = .ok rk →
    (AMap.get? k ks = none ∧ AMap.get? k rk = none) ∨
    ∃ v cur, AMap.get? k ks = some v ∧ reduce v = .ok cur ∧ AMap.get? k rk = some cur
  | [], rk, h => by simp [reduceKeys] at h; subst h; simp [AMap.get?]
  | (k1, v) :: rest, rk, h => by
    simp only [reduceKeys] at h
    split at h <;> try (simp at h; done)
    rename_i v' rest' hv hrest
    simp at h; subst h
    rw [AMap.get?_cons, AMap.get?_cons]
    by_cases hk : k1 = k
    · simp only [hk, if_true]; exact Or.inr ⟨v, v', rfl, hv, rfl⟩
    · simp only [hk, if_false]; exact reduceKeys_get k rest rest' hrest

theorem reduceKeys_keys : ∀ (ks rk : List (Str × PV)), reduceKeys ks = .ok rk → rk.map Prod.fst = ks.map Prod.fst
  | [], rk, h => by simp [reduceKeys] at h; subst h; rfl
  | (k1, v) :: rest, rk, h => by
    simp only [reduceKeys] at h
    split at h <;> try (simp at h; done)
    rename_i v' rest' hv hrest
    simp at h; subst h
    simp [reduceKeys_keys rest rest' hrest]

theorem SkL_keys' (a b : List (Str × LV)) (h : SkL a b) : a.map Prod.fst = b.map Prod.fst := SkL_keys a b h

/-- **the key tree at a key path is what the locale has there**: a group (with the same key names,
    in the same order) where the locale's value is a group, a leaf where it is a plain value,
    nothing where the locale has nothing -/
theorem tree_valueAt : ∀ (p : List Str) (ks rk : List (Str × PV)) (T : BKI),
    reduceKeys ks = .ok rk → SkL (skelK rk) T →
    lvKind (lvAt T p) = pvKind (valueAt ks p) ∧
    (∀ ls sub, lvAt T p = some (.subkeys ls sub) →
      ∃ l, valueAt ks p = some (.subkeys (some l)) ∧ sub.map Prod.fst = l.keys.map Prod.fst)
  | [], ks, rk, T, _, _ => by
    rw [lvAt_nil]
    exact ⟨rfl, by intro ls sub h; cases h⟩
  | k :: rest, ks, rk, T, hrk, hsk => by
    rw [lvAt_cons, valueAt_cons]
    rcases reduceKeys_get k ks rk hrk with ⟨h1, h2⟩ | ⟨v, cur, h1, h2, h3⟩
    · have hs : AMap.get? k (skelK rk) = none := by rw [skelK_get, h2]; rfl
      rcases SkL_get _ _ hsk k with ⟨_, hT⟩ | ⟨x, y, hx, _, _⟩
      · rw [hT, h1]
        exact ⟨rfl, by intro ls sub h; cases h⟩
      · rw [hs] at hx; cases hx
    · have hs : AMap.get? k (skelK rk) = some (skelPV cur) := by rw [skelK_get, h3]; rfl
      have hR : Reduced cur = true := reduce_reduced v cur h2
      rcases SkL_get _ _ hsk k with ⟨hx, _⟩ | ⟨x, lv, hx, hT, hxy⟩
      · rw [hs] at hx; cases hx
      · rw [hs] at hx
        simp only [Option.some.injEq] at hx
        subst hx
        rw [hT, h1]
        simp only [h2]
        by_cases hg : ∃ l, cur = .subkeys (some l)
        · obtain ⟨l, rfl⟩ := hg
          rw [skelPV_group] at hxy
          cases lv with
          | value _ _ => simp [LV.Sk] at hxy
          | subkeys ls0 sub =>
            simp only [LV.Sk] at hxy
            cases rest with
            | nil =>
              simp only [lvRel, curAt, lvKind, pvKind]
              refine ⟨trivial, ?_⟩
              intro ls sub' e
              simp only [Option.some.injEq, LV.subkeys.injEq] at e
              obtain ⟨-, rfl⟩ := e
              exact ⟨l, rfl, by rw [← SkL_keys _ _ hxy, skelK_keys]⟩
            | cons k2 r =>
              simp only [lvRel, curAt]
              have hRK := reducedK_of_reduced_group hR rfl
              obtain ⟨rk2, hrk2⟩ := reduceKeys_ok_of_reduced l.keys hRK
              exact tree_valueAt (k2 :: r) l.keys rk2 sub hrk2
                (SkL_trans _ _ _ (skel_rereduce _ _ hRK hrk2) hxy)
        · have hng : ∀ l, cur ≠ .subkeys (some l) := fun l e => hg ⟨l, e⟩
          rw [skelPV_leaf hng] at hxy
          cases lv with
          | subkeys _ _ => simp [LV.Sk] at hxy
          | value iol d =>
            have hns : ∀ o, cur ≠ .subkeys o := by
              intro o e
              cases o with
              | none => subst e; simp [Reduced] at hR
              | some l => exact hng l e
            cases rest with
            | nil =>
              simp only [lvRel, curAt, lvKind]
              refine ⟨?_, by intro ls sub e; cases e⟩
              cases cur <;> first | rfl | exact absurd rfl (hns _)
            | cons k2 r =>
              simp only [lvRel]
              have : curAt cur (k2 :: r) = none := by
                cases cur <;> first | rfl | exact absurd rfl (hns _)
              rw [this]
              exact ⟨rfl, by intro ls sub e; cases e⟩

/-! ## 3. all namespaces: warnings and key trees -/

/-- the relation between a namespace of the resolved world and the namespace of the output made
    from it -/
def NsTree (ns : NS) (o : Pipeline.NsOut) : Prop :=
  o.key = ns.key ∧ ∃ dl others t, ns.locales = dl :: others ∧ keyTree dl.keys = some t ∧ SkL o.keys t

theorem checkAll_diag (inp : Pipeline.Input) : ∀ (nss : List NS) (ws : List Warning) outs ws',
    Pipeline.checkAll inp nss ws = .ok (outs, ws') →
    (∀ ns ∈ nss, ∀ dl, ns.locales.head? = some dl → NDLoc 1000000 dl) →
    ws' = ws ++ worldW inp.suppress inp.cfg.inherits nss ∧ Forall₂ NsTree nss outs
  | [], ws, outs, ws', h, _ => by
    simp only [Pipeline.checkAll, Res.ok.injEq, Prod.mk.injEq] at h
    obtain ⟨rfl, rfl⟩ := h
    exact ⟨by simp [worldW], Forall₂.nil⟩
  | ns :: rest, ws, outs, ws', h, hnd => by
    simp only [Pipeline.checkAll] at h
    split at h <;> try (simp at h; done)
    rename_i locs bki ws1 hc
    split at h <;> try (simp at h; done)
    rename_i outs1 ws2 hr
    simp only [Res.ok.injEq, Prod.mk.injEq] at h
    obtain ⟨rfl, rfl⟩ := h
    obtain ⟨ih1, ih2⟩ := checkAll_diag inp rest ws1 outs1 ws2 hr (fun n hn => hnd n (by simp [hn]))
    cases hloc : ns.locales with
    | nil => rw [hloc] at hc; simp [checkLocalesInner] at hc
    | cons dl others =>
      rw [hloc] at hc
      obtain ⟨t, ht, hsk, hw⟩ := checkLocalesInner_tree hc
      have hw' := hw (hnd ns (by simp) dl (by simp [hloc]))
      refine ⟨?_, Forall₂.cons ⟨rfl, dl, others, t, hloc, ht, hsk⟩ ih2⟩
      rw [ih1, hw']
      simp [worldW, nsW, hloc, ht]

/-! ## 4. what `Locale::merge` does with each builder key -/

/-- the value `merge` looks at for builder key `k`: the reduced entry, `null` when there is none -/
def CurOf (ks : List (Str × PV)) (k : Str) (cur : PV) : Prop :=
  match AMap.get? k ks with
  | none => cur = .dflt
  | some v => reduce v = .ok cur

theorem CurOf_insert_ne {ks : List (Str × PV)} {k k0 : Str} {v1 cur : PV} (hk : k0 ≠ k) :
    CurOf (AMap.insert' k0 v1 ks) k cur ↔ CurOf ks k cur := by
  unfold CurOf
  rw [AMap.get?_insert_ne (Ne.symm hk)]

theorem CurOf_unique {ks : List (Str × PV)} {k : Str} {c1 c2 : PV} (h1 : CurOf ks k c1) (h2 : CurOf ks k c2) :
    c1 = c2 := by
  unfold CurOf at h1 h2
  cases hg : AMap.get? k ks with
  | none => rw [hg] at h1 h2; rw [h1, h2]
  | some v =>
    rw [hg] at h1 h2
    simp only at h1 h2
    rw [h1] at h2
    cases h2; rfl

/-- the value at a key path, through the value `merge` looks at for the first key -/
theorem valueAt_of_curOf {ks : List (Str × PV)} {k : Str} {cur : PV} (h : CurOf ks k cur) (r : List Str) :
    valD (valueAt ks (k :: r)) = valD (curAt cur r) := by
  unfold CurOf at h
  rw [valueAt_cons]
  cases hg : AMap.get? k ks with
  | none => rw [hg] at h; simp only at h; subst h; rw [curAt_dflt]; rfl
  | some v => rw [hg] at h; simp only at h; simp [h]

theorem valueAt_some_curOf {ks : List (Str × PV)} {k : Str} {r : List Str} {v : PV}
    (h : valueAt ks (k :: r) = some v) : ∃ cur, CurOf ks k cur ∧ curAt cur r = some v ∧
      ∃ x, AMap.get? k ks = some x := by
  rw [valueAt_cons] at h
  unfold CurOf
  cases hg : AMap.get? k ks with
  | none => rw [hg] at h; cases h
  | some x =>
    rw [hg] at h
    simp only at h
    cases hr : reduce x with
    | ok cur => rw [hr] at h; exact ⟨cur, hr, h, x, rfl⟩
    | err e => rw [hr] at h; cases h
    | panic e => rw [hr] at h; cases h

theorem valueAt_of_curOf_present {ks : List (Str × PV)} {k : Str} {cur x : PV} (h : CurOf ks k cur)
    (hg : AMap.get? k ks = some x) (r : List Str) : valueAt ks (k :: r) = curAt cur r := by
  unfold CurOf at h
  rw [hg] at h
  simp only at h
  rw [valueAt_cons, hg]
  simp [h]

/-- **every builder key is merged exactly once**: a successful `mergeKeys` has, for every builder
    key, called `ParsedValue::merge` on the value the locale has for it, successfully, and put the
    result at the same key -/
theorem mergeKeys_calls (recMerge : MergeRec) (top : Str) (dto : DefaultTo) (path : KeyPath) :
    ∀ (bki : BKI) (ks : List (Str × PV)) (accB : BKI) (st : St) ks' b' st',
      mergeKeys recMerge top dto path bki ks accB st = .ok (ks', b', st') →
      ∃ new, b' = accB ++ new ∧ ∀ k lv, AMap.get? k bki = some lv →
        ∃ cur st1 v1 lv' st2, CurOf ks k cur ∧
          mergeValue recMerge top dto (pushKey path k) cur lv st1 = .ok (v1, lv', st2) ∧
          AMap.get? k new = some lv' := by
  intro bki
  induction bki with
  | nil =>
    intro ks accB st ks' b' st' h
    simp only [mergeKeys, Res.ok.injEq, Prod.mk.injEq] at h
    obtain ⟨rfl, rfl, rfl⟩ := h
    exact ⟨[], by simp, by simp [AMap.get?]⟩
  | cons e rest ih =>
    obtain ⟨k0, lv0⟩ := e
    intro ks accB st ks' b' st' h
    have tail : ∀ (cur : PV) (st1 : St) (v1 : PV) (lv1 : LV) (st2 : St), CurOf ks k0 cur →
        mergeValue recMerge top dto (pushKey path k0) cur lv0 st1 = .ok (v1, lv1, st2) →
        mergeKeys recMerge top dto path rest (AMap.insert' k0 v1 ks) (accB ++ [(k0, lv1)]) st2 = .ok (ks', b', st') →
        ∃ new, b' = accB ++ new ∧ ∀ k lv, AMap.get? k ((k0, lv0) :: rest) = some lv →
          ∃ cur st1 v1 lv' st2, CurOf ks k cur ∧
            mergeValue recMerge top dto (pushKey path k) cur lv st1 = .ok (v1, lv', st2) ∧
            AMap.get? k new = some lv' := by
      intro cur st1 v1 lv1 st2 hc hmv hmk
      obtain ⟨new', hb, hall⟩ := ih _ _ _ _ _ _ hmk
      refine ⟨(k0, lv1) :: new', by simp [hb], ?_⟩
      intro k lv hg
      rw [AMap.get?_cons] at hg
      by_cases hk : k0 = k
      · subst hk
        simp only [if_true, Option.some.injEq] at hg
        subst hg
        exact ⟨cur, st1, v1, lv1, st2, hc, hmv, by simp [AMap.get?]⟩
      · simp only [hk, if_false] at hg
        obtain ⟨c, s1, w1, lv', s2, a1, a2, a3⟩ := hall k lv hg
        exact ⟨c, s1, w1, lv', s2, (CurOf_insert_ne hk).mp a1, a2, by simp [AMap.get?, hk, a3]⟩
    cases hg : AMap.get? k0 ks with
    | none =>
      simp only [mergeKeys, hg, Reduce.reduce] at h
      split at h
      · simp at h
      · simp at h
      · rename_i v1 lv1 st2 hmv
        exact tail _ _ _ _ _ (by simp [CurOf, hg]) hmv h
    | some v =>
      simp only [mergeKeys, hg] at h
      split at h
      · simp at h
      · simp at h
      · rename_i cur hred
        split at h
        · simp at h
        · simp at h
        · rename_i v1 lv1 st2 hmv
          exact tail _ _ _ _ _ (by simp [CurOf, hg, hred]) hmv h

/-- a failing `mergeKeys` (distinct builder keys): the `ParsedValue::merge` of some builder key failed
    with that error, on the value the locale has for it -/
theorem mergeKeys_err_calls (recMerge : MergeRec) (top : Str) (dto : DefaultTo) (path : KeyPath) :
    ∀ (bki : BKI) (ks : List (Str × PV)) (accB : BKI) (st : St) (e : String),
      (bki.map Prod.fst).Nodup →
      mergeKeys recMerge top dto path bki ks accB st = .err e →
      ∃ k lv cur st1, AMap.get? k bki = some lv ∧ CurOf ks k cur ∧
        mergeValue recMerge top dto (pushKey path k) cur lv st1 = .err e := by
  intro bki
  induction bki with
  | nil => intro ks accB st e _ h; simp [mergeKeys] at h
  | cons e0 rest ih =>
    obtain ⟨k0, lv0⟩ := e0
    intro ks accB st e hnd h
    simp only [List.map_cons, List.nodup_cons] at hnd
    have tail : ∀ (cur : PV) (st1 : St), CurOf ks k0 cur →
        (match mergeValue recMerge top dto (pushKey path k0) cur lv0 st1 with
          | .err e => Res.err e
          | .panic p => .panic p
          | .ok (v', lv', st') =>
            mergeKeys recMerge top dto path rest (AMap.insert' k0 v' ks) (accB ++ [(k0, lv')]) st') = .err e →
        ∃ k lv cur st1, AMap.get? k ((k0, lv0) :: rest) = some lv ∧ CurOf ks k cur ∧
          mergeValue recMerge top dto (pushKey path k) cur lv st1 = .err e := by
      intro cur st1 hc hm
      split at hm
      · rename_i e' hmv
        simp only [Res.err.injEq] at hm
        subst hm
        exact ⟨k0, lv0, cur, st1, by simp [AMap.get?], hc, hmv⟩
      · simp at hm
      · rename_i v1 lv1 st2 hmv
        obtain ⟨k, lv, c, s1, a1, a2, a3⟩ := ih _ _ _ _ hnd.2 hm
        have hk : k0 ≠ k := by
          intro e; subst e
          exact hnd.1 (AMap.mem_of_get?_eq_some a1)
        exact ⟨k, lv, c, s1, by rw [AMap.get?_cons]; simp [hk, a1], (CurOf_insert_ne hk).mp a2, a3⟩
    cases hg : AMap.get? k0 ks with
    | none =>
      simp only [mergeKeys, hg, Reduce.reduce] at h
      exact tail _ _ (by simp [CurOf, hg]) h
    | some v =>
      simp only [mergeKeys, hg] at h
      split at h
      · rename_i e' hred; exact absurd hred (reduce_noErr v e')
      · simp at h
      · rename_i cur hred
        exact tail _ _ (by simp [CurOf, hg, hred]) h

/-- `ParsedValue::merge` on a group, successful: `Locale::merge` one level down succeeded, on the
    locale's group or (for `null`) on the all-`null` dummy -/
theorem mergeValue_group_ok (recMerge : MergeRec) (top : Str) (dto : DefaultTo) (kp : KeyPath) (cur : PV)
    (ls : List Loc) (bkeys : BKI) (st : St) (v' : PV) (lv' : LV) (st' : St)
    (h : mergeValue recMerge top dto kp cur (.subkeys ls bkeys) st = .ok (v', lv', st')) :
    ∃ loc loc' bkeys', recMerge kp loc bkeys st = .ok (loc', bkeys', st') ∧
      lv' = .subkeys (ls ++ [loc']) bkeys' ∧
      ((cur = .dflt ∧ ∃ dl : Loc, loc.keys = dl.keys.map (fun (x : Str × PV) => (x.fst, PV.dflt))) ∨
        cur = .subkeys (some loc)) := by
  simp only [mergeValue] at h
  split at h
  · rename_i hs
    have hcur : cur = .dflt := shapeOf_dflt hs
    split at h
    · simp at h
    · rename_i dl hdl
      split at h
      · simp at h
      · simp at h
      · rename_i dummy' bkeys' st1 hr
        simp only [Res.ok.injEq, Prod.mk.injEq] at h
        obtain ⟨-, rfl, rfl⟩ := h
        exact ⟨_, dummy', bkeys', hr, rfl, Or.inl ⟨hcur, dl, rfl⟩⟩
  · rename_i loc hs
    have hcur : cur = .subkeys (some loc) := shapeOf_subSome hs
    split at h
    · simp at h
    · simp at h
    · rename_i loc' bkeys' st1 hr
      simp only [Res.ok.injEq, Prod.mk.injEq] at h
      obtain ⟨-, rfl, rfl⟩ := h
      exact ⟨loc, loc', bkeys', hr, rfl, Or.inr hcur⟩
  · simp at h
  · simp at h

/-! ### per leaf: the `MergeStep` of the locale's value; per node: the value fits -/

/-- one locale merged (any depth): every leaf's signature makes the `MergeStep` of the locale's
    value at that key path (`null` when it has none), and at every node of the builder keys the
    locale's value — if it has one — fits (group or `null` on a group, no group on a value) -/
def RecStep (recMerge : MergeRec) : Prop :=
  ∀ kp loc bki st loc' bki' st', recMerge kp loc bki st = .ok (loc', bki', st') →
    (∀ p iol d, leafAt bki p = some (iol, d) →
      ∃ iol' d', leafAt bki' p = some (iol', d') ∧ MergeStep iol (valD (valueAt loc.keys p)) iol') ∧
    (∀ p lv v, lvAt bki p = some lv → valueAt loc.keys p = some v → Fits v lv)

theorem curAt_group_cons {cur v : PV} {k2 : Str} {r : List Str} (h : curAt cur (k2 :: r) = some v) :
    ∃ l, cur = .subkeys (some l) ∧ valueAt l.keys (k2 :: r) = some v := by
  cases cur with
  | subkeys o =>
    cases o with
    | none => simp [curAt] at h
    | some l => exact ⟨l, rfl, h⟩
  | _ => simp [curAt] at h

theorem mergeLocale_step (suppress : Bool) (top : Str) (dto : DefaultTo) :
    ∀ fuel, RecStep (mergeLocale suppress top dto fuel) := by
  intro fuel
  induction fuel with
  | zero => intro kp loc bki st loc' bki' st' h; simp [mergeLocale] at h
  | succ fuel ih =>
    intro kp loc bki st loc' bki' st' h
    simp only [mergeLocale] at h
    split at h
    · simp at h
    · simp at h
    · rename_i keys' b' st1 hmk
      simp only [Res.ok.injEq, Prod.mk.injEq] at h
      obtain ⟨-, rfl, -⟩ := h
      obtain ⟨new, hb, hall⟩ := mergeKeys_calls _ top dto kp bki loc.keys [] st _ _ _ hmk
      simp only [List.nil_append] at hb
      subst hb
      constructor
      · intro p iol d hleaf
        cases p with
        | nil => rw [leafAt_nil] at hleaf; cases hleaf
        | cons k rest =>
          rw [leafAt_cons] at hleaf
          cases hg : AMap.get? k bki with
          | none => simp [hg] at hleaf
          | some lv =>
            simp only [hg] at hleaf
            obtain ⟨cur, s1, v1, lv', s2, hc, hmv, hn⟩ := hall k lv hg
            rw [leafAt_cons, hn, valueAt_of_curOf hc]
            cases lv with
            | value iol0 d0 =>
              cases rest with
              | cons _ _ => simp [leafLV] at hleaf
              | nil =>
                simp only [leafLV, Option.some.injEq, Prod.mk.injEq] at hleaf
                obtain ⟨rfl, rfl⟩ := hleaf
                obtain ⟨iol', d', rfl, hstep⟩ := mergeValue_value _ _ _ _ _ _ _ _ _ _ _ hmv
                exact ⟨iol', d', rfl, by simpa [curAt, valD] using hstep⟩
            | subkeys ls bkeys =>
              simp only [leafLV] at hleaf
              obtain ⟨loc2, loc2', bkeys', hr, rfl, hcase⟩ := mergeValue_group_ok _ _ _ _ _ _ _ _ _ _ _ hmv
              obtain ⟨iol', d', h1, h2⟩ := (ih _ _ _ _ _ _ _ hr).1 rest iol d hleaf
              refine ⟨iol', d', by simpa [leafLV] using h1, ?_⟩
              rcases hcase with ⟨rfl, dl, hdk⟩ | rfl
              · rw [hdk, valueAt_dummy] at h2
                rw [curAt_dflt]; exact h2
              · cases rest with
                | nil => rw [leafAt_nil] at hleaf; cases hleaf
                | cons k2 r => exact h2
      · intro p lv v hlv hv
        cases p with
        | nil => rw [lvAt_nil] at hlv; cases hlv
        | cons k rest =>
          rw [lvAt_cons] at hlv
          cases hg : AMap.get? k bki with
          | none => simp [hg] at hlv
          | some lv0 =>
            simp only [hg] at hlv
            obtain ⟨cur, s1, v1, lv', s2, hc, hmv, hn⟩ := hall k lv0 hg
            obtain ⟨cur', hc', hcv, _⟩ := valueAt_some_curOf hv
            have := CurOf_unique hc' hc
            subst this
            cases rest with
            | nil =>
              simp only [lvRel, Option.some.injEq] at hlv
              simp only [curAt, Option.some.injEq] at hcv
              subst hlv; subst hcv
              exact mergeValue_ok_fits _ _ _ _ _ _ _ _ hmv
            | cons k2 r =>
              obtain ⟨l, rfl, hvl⟩ := curAt_group_cons hcv
              cases lv0 with
              | value _ _ => simp [lvRel] at hlv
              | subkeys ls bkeys =>
                simp only [lvRel] at hlv
                obtain ⟨loc2, loc2', bkeys', hr, -, hcase⟩ := mergeValue_group_ok _ _ _ _ _ _ _ _ _ _ _ hmv
                rcases hcase with ⟨e, _⟩ | e
                · cases e
                · simp only [PV.subkeys.injEq, Option.some.injEq] at e
                  subst e
                  exact (ih _ _ _ _ _ _ _ hr).2 (k2 :: r) lv v hlv hvl

/-- a chain of `MergeStep`s, one per value -/
def Steps : IOL → List PV → IOL → Prop
  | iol, [], iol' => iol' = iol
  | iol, v :: vs, iol' => ∃ i1, MergeStep iol v i1 ∧ Steps i1 vs iol'

theorem SkL_lvAt : ∀ (p : List Str) (a b : List (Str × LV)), SkL a b →
    (lvAt a p = none ∧ lvAt b p = none) ∨ ∃ x y, lvAt a p = some x ∧ lvAt b p = some y ∧ LV.Sk x y
  | [], a, b, _ => by rw [lvAt_nil, lvAt_nil]; exact Or.inl ⟨rfl, rfl⟩
  | k :: rest, a, b, h => by
    rw [lvAt_cons, lvAt_cons]
    rcases SkL_get a b h k with ⟨h1, h2⟩ | ⟨x, y, h1, h2, hxy⟩
    · rw [h1, h2]; exact Or.inl ⟨rfl, rfl⟩
    · rw [h1, h2]
      cases rest with
      | nil => exact Or.inr ⟨x, y, rfl, rfl, hxy⟩
      | cons k2 r =>
        cases x with
        | value _ _ =>
          cases y with
          | value _ _ => exact Or.inl ⟨rfl, rfl⟩
          | subkeys _ _ => simp [LV.Sk] at hxy
        | subkeys _ ks =>
          cases y with
          | value _ _ => simp [LV.Sk] at hxy
          | subkeys _ ks' =>
            simp only [LV.Sk] at hxy
            exact SkL_lvAt (k2 :: r) ks ks' hxy

theorem Fits_sk {v : PV} {x y : LV} (h : LV.Sk x y) (hf : Fits v x) : Fits v y := by
  cases x with
  | value _ _ =>
    cases y with
    | value _ _ => exact hf
    | subkeys _ _ => simp [LV.Sk] at h
  | subkeys _ _ =>
    cases y with
    | value _ _ => simp [LV.Sk] at h
    | subkeys _ _ => exact hf

theorem go_steps (suppress : Bool) (fuel : Nat) (inherits : List (Str × Str)) (dl : Loc) (path : KeyPath) :
    ∀ (others acc : List Loc) (bki : BKI) (ws : List Warning) locales bki' ws',
      checkLocalesInner.go suppress fuel inherits dl path others acc bki ws = .ok (locales, bki', ws') →
      (∀ p iol d, leafAt bki p = some (iol, d) →
        ∃ iol' d', leafAt bki' p = some (iol', d')
          ∧ Steps iol (others.map (fun l => valD (valueAt l.keys p))) iol') ∧
      (∀ l ∈ others, ∀ p lv v, lvAt bki p = some lv → valueAt l.keys p = some v → Fits v lv) := by
  intro others
  induction others with
  | nil =>
    intro acc bki ws locales bki' ws' h
    simp only [checkLocalesInner.go, Res.ok.injEq, Prod.mk.injEq] at h
    obtain ⟨-, rfl, -⟩ := h
    exact ⟨fun p iol d hl => ⟨iol, d, hl, rfl⟩, by simp⟩
  | cons l rest ih =>
    intro acc bki ws locales bki' ws' h
    simp only [checkLocalesInner.go] at h
    split at h
    · simp at h
    · simp at h
    · rename_i l' bki1 st hml
      obtain ⟨a1, a2⟩ := mergeLocale_step suppress _ _ fuel path l bki _ l' bki1 st hml
      obtain ⟨b1, b2⟩ := ih _ _ _ _ _ _ h
      have hsk := mergeLocale_sk suppress _ _ fuel path l bki _ l' bki1 st hml
      constructor
      · intro p iol d hleaf
        obtain ⟨iol1, d1, c1, c2⟩ := a1 p iol d hleaf
        obtain ⟨iol2, d2, e1, e2⟩ := b1 p iol1 d1 c1
        exact ⟨iol2, d2, e1, iol1, c2, e2⟩
      · intro l0 hl0 p lv v hlv hv
        rcases List.mem_cons.mp hl0 with rfl | hl0
        · exact a2 p lv v hlv hv
        · rcases SkL_lvAt p bki bki1 hsk with ⟨h1, _⟩ | ⟨x, y, h1, h2, hxy⟩
          · rw [h1] at hlv; cases hlv
          · rw [h1] at hlv
            simp only [Option.some.injEq] at hlv
            subst hlv
            exact Fits_sk (Sk_symm _ _ hxy) (b2 l0 hl0 p y v h2 hv)

/-! ### the default locale: how each builder key is made -/

/-- how `make_builder_keys` makes the builder key `lv` of key `k` from the (reduced) value `cur` -/
def MadeFrom (recMake : MakeRec) (dflt : Str) (path : KeyPath) (k : Str) (cur : PV) (lv : LV) : Prop :=
  (∃ sub sub' bkiS s1 s2, cur = .subkeys (some sub) ∧ recMake (pushKey path k) sub s1 = .ok (sub', bkiS, s2) ∧
      lv = .subkeys [sub'] bkiS) ∨
  (isLeafVal cur = true ∧ cur ≠ .dflt ∧ ∃ s1 iol0,
      getKeysInner 1000000 (indexStrings 1000000 cur s1).1 (.lit .string) true = .ok iol0 ∧
      lv = .value iol0 ⟨dflt, []⟩)

theorem makeKeys_calls (recMake : MakeRec) (dflt : Str) (path : KeyPath) :
    ∀ (l accK : List (Str × PV)) (accB : BKI) (strs : List Str) ks b s,
      makeKeys recMake dflt path l accK accB strs = .ok (ks, b, s) →
      ∃ newB, b = accB ++ newB ∧ ∀ k lv, AMap.get? k newB = some lv →
        ∃ v cur, AMap.get? k l = some v ∧ reduce v = .ok cur ∧ MadeFrom recMake dflt path k cur lv := by
  intro l
  induction l with
  | nil =>
    intro accK accB strs ks b s h
    simp only [makeKeys, Res.ok.injEq, Prod.mk.injEq] at h
    obtain ⟨-, rfl, -⟩ := h
    exact ⟨[], by simp, by simp [AMap.get?]⟩
  | cons e l ih =>
    obtain ⟨k0, v0⟩ := e
    intro accK accB strs ks b s h
    have tail : ∀ (cur v'0 : PV) (lv0 : LV) s1, reduce v0 = .ok cur → MadeFrom recMake dflt path k0 cur lv0 →
        makeKeys recMake dflt path l (accK ++ [(k0, v'0)]) (accB ++ [(k0, lv0)]) s1 = .ok (ks, b, s) →
        ∃ newB, b = accB ++ newB ∧ ∀ k lv, AMap.get? k newB = some lv →
          ∃ v cur, AMap.get? k ((k0, v0) :: l) = some v ∧ reduce v = .ok cur ∧ MadeFrom recMake dflt path k cur lv := by
      intro cur v'0 lv0 s1 hred hmade hmk
      obtain ⟨newB, hb, hall⟩ := ih _ _ _ _ _ _ hmk
      refine ⟨(k0, lv0) :: newB, by simp [hb], ?_⟩
      intro k lv hg
      rw [AMap.get?_cons] at hg
      by_cases hk : k0 = k
      · subst hk
        simp only [if_true, Option.some.injEq] at hg
        subst hg
        exact ⟨v0, cur, by simp [AMap.get?], hred, hmade⟩
      · simp only [hk, if_false] at hg
        obtain ⟨v, c, h1, h2, h3⟩ := hall k lv hg
        exact ⟨v, c, by simp [AMap.get?, hk, h1], h2, h3⟩
    simp only [makeKeys] at h
    split at h
    · simp at h
    · simp at h
    · rename_i v1 hred
      split at h
      · rename_i sub hsh
        have hv1 : v1 = .subkeys (some sub) := shapeOf'_inl hsh
        split at h
        · simp at h
        · simp at h
        · rename_i sub' bkiS strs' hrm
          exact tail _ _ _ _ hred (Or.inl ⟨sub, sub', bkiS, _, _, hv1, hrm, rfl⟩) h
      · simp at h
      · simp at h
      · rename_i hsh
        split at h
        · simp at h
        · simp at h
        · rename_i iol0 hgk
          refine tail _ _ _ _ hred (Or.inr ⟨?_, ?_, _, iol0, hgk, rfl⟩) h
          · cases v1 <;> first | rfl | simp [makeKeys.shapeOf'] at hsh
          · intro e; subst e; simp [makeKeys.shapeOf'] at hsh

theorem makeBuilderKeys_calls {dflt : Str} {fuel : Nat} {path : KeyPath} {loc loc' : Loc} {strs strs' : List Str}
    {bki : BKI} (h : makeBuilderKeys dflt (fuel + 1) path loc strs = .ok (loc', bki, strs')) :
    ∀ k lv, AMap.get? k bki = some lv →
      ∃ v cur, AMap.get? k loc.keys = some v ∧ reduce v = .ok cur ∧
        MadeFrom (makeBuilderKeys dflt fuel) dflt path k cur lv := by
  simp only [makeBuilderKeys] at h
  split at h
  · rename_i keys' b s hk
    simp only [Res.ok.injEq, Prod.mk.injEq] at h
    obtain ⟨-, rfl, -⟩ := h
    obtain ⟨newB, hb, hall⟩ := makeKeys_calls _ dflt path _ _ _ _ _ _ _ hk
    simp only [List.nil_append] at hb
    subst hb
    exact hall
  · simp at h
  · simp at h

/-- the kind of accessor the default locale's value `v` creates: a literal accessor for a literal,
    a builder for anything else -/
def InitKind (v : PV) (iol : IOL) : Prop :=
  (∃ l, v = .lit l ∧ iol = .lit l.ty) ∨ ((∀ l, v ≠ .lit l) ∧ ∃ K, iol = .interpol K)

def RecMakeInit (recMake : MakeRec) : Prop :=
  ∀ path sub strs sub' bki strs', recMake path sub strs = .ok (sub', bki, strs') →
    ∀ p iol d, leafAt bki p = some (iol, d) →
      ∃ v, valueAt sub.keys p = some v ∧ isLeafVal v = true ∧ v ≠ .dflt ∧ InitKind v iol

theorem initKind_of_gki {cur : PV} {fuel f2 : Nat} {s1 : List Str} {iol0 : IOL} (hn : normal cur = true)
    (hl : isLeafVal cur = true) (hd : cur ≠ .dflt)
    (h : getKeysInner fuel (indexStrings f2 cur s1).1 (.lit .string) true = .ok iol0) : InitKind cur iol0 := by
  obtain ⟨_, hk⟩ := C08_default_locale_keys fuel f2 s1 cur iol0 h
  rcases hk with ⟨l, rfl, rfl⟩ | ⟨hnl, _, h2⟩
  · exact Or.inl ⟨l, rfl, rfl⟩
  · refine Or.inr ⟨hnl, h2 ?_⟩
    cases cur with
    | lit l => exact absurd rfl (hnl l)
    | dflt => exact absurd rfl hd
    | subkeys o => simp [isLeafVal] at hl
    | _ => simpa [normal] using hn

theorem makeBuilderKeys_init (dflt : Str) : ∀ fuel, RecMakeInit (makeBuilderKeys dflt fuel) := by
  intro fuel
  induction fuel with
  | zero => intro path sub strs sub' bki strs' h; simp [makeBuilderKeys] at h
  | succ fuel ih =>
    intro path loc strs loc' bki strs' h p iol d hleaf
    have hall := makeBuilderKeys_calls h
    cases p with
    | nil => rw [leafAt_nil] at hleaf; cases hleaf
    | cons k rest =>
      rw [leafAt_cons] at hleaf
      cases hg : AMap.get? k bki with
      | none => simp [hg] at hleaf
      | some lv =>
        simp only [hg] at hleaf
        obtain ⟨v, cur, h1, h2, hm⟩ := hall k lv hg
        rw [valueAt_cons, h1]
        simp only [h2]
        rcases hm with ⟨sub, sub', bkiS, s1, s2, rfl, hrm, rfl⟩ | ⟨hl, hd, s1, iol0, hgk, rfl⟩
        · simp only [leafLV] at hleaf
          cases rest with
          | nil => rw [leafAt_nil] at hleaf; cases hleaf
          | cons k2 r => exact ih _ _ _ _ _ _ hrm (k2 :: r) iol d hleaf
        · cases rest with
          | cons _ _ => simp [leafLV] at hleaf
          | nil =>
            simp only [leafLV, Option.some.injEq, Prod.mk.injEq] at hleaf
            obtain ⟨rfl, rfl⟩ := hleaf
            exact ⟨cur, rfl, hl, hd, initKind_of_gki (reduce_normal v cur h2) hl hd hgk⟩

/-! ### literal accessor or builder, from the chain of steps -/

theorem Steps_interpol : ∀ (vs : List PV) (K : IKeys) (iol' : IOL), Steps (.interpol K) vs iol' →
    ∃ K', iol' = .interpol K'
  | [], K, iol', h => ⟨K, h⟩
  | v :: vs, K, iol', h => by
    obtain ⟨i1, h1, h2⟩ := h
    obtain ⟨K1, rfl⟩ := h1.kind_interpol
    exact Steps_interpol vs K1 iol' h2

theorem Steps_lit : ∀ (vs : List PV) (t : LitTy) (iol' : IOL), (∀ v ∈ vs, normal v = true) →
    Steps (.lit t) vs iol' →
    ((∀ v ∈ vs, LitOrDflt t v) ∧ iol' = .lit t) ∨ ((∃ v ∈ vs, ¬ LitOrDflt t v) ∧ ∃ K, iol' = .interpol K)
  | [], t, iol', _, h => Or.inl ⟨by simp, h⟩
  | v :: vs, t, iol', hn, h => by
    obtain ⟨i1, h1, h2⟩ := h
    rcases h1.kind_lit (hn v (by simp)) with ⟨hl, rfl⟩ | ⟨hl, K, rfl⟩
    · rcases Steps_lit vs t iol' (fun x hx => hn x (by simp [hx])) h2 with ⟨ha, hd⟩ | ⟨⟨c, hc, hb⟩, hd⟩
      · left
        refine ⟨?_, hd⟩
        intro x hx
        rcases List.mem_cons.mp hx with rfl | hx
        · exact hl
        · exact ha x hx
      · right; exact ⟨⟨c, by simp [hc], hb⟩, hd⟩
    · right; exact ⟨⟨v, by simp, hl⟩, Steps_interpol vs K iol' h2⟩

theorem valueAt_is_reduce : ∀ (p : List Str) (ks : List (Str × PV)) (v : PV), valueAt ks p = some v →
    ∃ x, reduce x = .ok v
  | [], ks, v, h => by simp [valueAt] at h
  | k :: rest, ks, v, h => by
    obtain ⟨cur, hc, hcv, x, hx⟩ := valueAt_some_curOf h
    unfold CurOf at hc
    rw [hx] at hc
    cases rest with
    | nil =>
      simp only [curAt, Option.some.injEq] at hcv
      subst hcv
      exact ⟨x, hc⟩
    | cons k2 r =>
      obtain ⟨l, _, hvl⟩ := curAt_group_cons hcv
      exact valueAt_is_reduce (k2 :: r) l.keys v hvl

theorem valD_valueAt_normal (ks : List (Str × PV)) (p : List Str) : normal (valD (valueAt ks p)) = true := by
  cases h : valueAt ks p with
  | none => rfl
  | some v =>
    obtain ⟨x, hx⟩ := valueAt_is_reduce p ks v h
    exact reduce_normal x v hx

/-- **one namespace, one accessible key**: the signature at a leaf of the final builder keys is what
    the default locale's value creates, followed by one `MergeStep` per other locale -/
theorem checkLocalesInner_steps {suppress : Bool} {fuel : Nat} {inherits : List (Str × Str)} {ns : Option Str}
    {dl : Loc} {others : List Loc} {ws : List Warning} {locales : List Loc} {bkiF : BKI} {ws' : List Warning}
    (h : checkLocalesInner suppress fuel inherits ns (dl :: others) ws = .ok (locales, bkiF, ws'))
    (p : List Str) (iol : IOL) (d : Defaults) (hleaf : leafAt bkiF p = some (iol, d)) :
    ∃ v0 iol0, valueAt dl.keys p = some v0 ∧ isLeafVal v0 = true ∧ v0 ≠ .dflt ∧ InitKind v0 iol0 ∧
      Steps iol0 (others.map (fun l => valD (valueAt l.keys p))) iol := by
  obtain ⟨dl', bki0, strs, dl'', bki1, hmk, hgo, rfl⟩ := checkLocalesInner_parts h
  rw [propagate_leafAt] at hleaf
  have hsome := go_leaf_paths _ _ _ _ _ _ _ _ _ _ _ _ hgo p
  rw [hleaf] at hsome
  cases h0 : leafAt bki0 p with
  | none => rw [h0] at hsome; cases hsome
  | some r =>
    obtain ⟨iol0, d0⟩ := r
    obtain ⟨v0, a1, a2, a3, a4⟩ := makeBuilderKeys_init dl.top fuel _ _ _ _ _ _ hmk p iol0 d0 h0
    obtain ⟨iol', d', g1, g2⟩ := (go_steps _ _ _ _ _ _ _ _ _ _ _ _ hgo).1 p iol0 d0 h0
    rw [hleaf] at g1
    simp only [Option.some.injEq, Prod.mk.injEq] at g1
    obtain ⟨rfl, rfl⟩ := g1
    exact ⟨v0, iol0, a1, a2, a3, a4, g2⟩

/-- literal accessor iff every locale holds a literal of that one type (or `null` / nothing) -/
theorem checkLocalesInner_lit {suppress : Bool} {fuel : Nat} {inherits : List (Str × Str)} {ns : Option Str}
    {dl : Loc} {others : List Loc} {ws : List Warning} {locales : List Loc} {bkiF : BKI} {ws' : List Warning}
    (h : checkLocalesInner suppress fuel inherits ns (dl :: others) ws = .ok (locales, bkiF, ws'))
    (p : List Str) (iol : IOL) (d : Defaults) (hleaf : leafAt bkiF p = some (iol, d)) (t : LitTy) :
    iol = .lit t ↔ ∀ l ∈ dl :: others, ∀ v, valueAt l.keys p = some v → LitOrNull t v := by
  obtain ⟨v0, iol0, a1, a2, a3, a4, hs⟩ := checkLocalesInner_steps h p iol d hleaf
  have hnorm : ∀ v ∈ others.map (fun l => valD (valueAt l.keys p)), normal v = true := by
    intro v hv
    obtain ⟨l, _, rfl⟩ := List.mem_map.mp hv
    exact valD_valueAt_normal _ _
  constructor
  · intro e
    subst e
    rcases a4 with ⟨l0, rfl, rfl⟩ | ⟨_, K, rfl⟩
    · rcases Steps_lit _ _ _ hnorm hs with ⟨hall, ht⟩ | ⟨_, K, hK⟩
      · simp only [IOL.lit.injEq] at ht
        intro l hl v hv
        rcases List.mem_cons.mp hl with rfl | hl
        · rw [a1] at hv
          simp only [Option.some.injEq] at hv
          subst hv
          exact Or.inr ⟨l0, rfl, ht.symm⟩
        · have := hall (valD (valueAt l.keys p)) (List.mem_map.mpr ⟨l, hl, rfl⟩)
          rw [hv, ← ht] at this
          exact this
      · cases hK
    · obtain ⟨K', hK'⟩ := Steps_interpol _ _ _ hs
      cases hK'
  · intro hall
    have h0 := hall dl (by simp) v0 a1
    rcases h0 with e | ⟨l0, rfl, ht⟩
    · exact absurd e a3
    · rcases a4 with ⟨l1, e1, rfl⟩ | ⟨hnl, _⟩
      · simp only [PV.lit.injEq] at e1
        subst e1
        rw [ht] at hs
        rcases Steps_lit _ _ _ hnorm hs with ⟨_, hiol⟩ | ⟨⟨v, hv, hnot⟩, _⟩
        · exact hiol
        · exfalso
          obtain ⟨l, hl, rfl⟩ := List.mem_map.mp hv
          apply hnot
          cases hva : valueAt l.keys p with
          | none => exact Or.inl rfl
          | some x => exact hall l (by simp [hl]) x hva
      · exact absurd rfl (hnl l0)

/-! ## 6. where an error comes from -/

theorem gki_err_run {fuel f2 : Nat} {v : PV} {strs : List Str} {iol : IOL} {e : String}
    (h : getKeysInner fuel (indexStrings f2 v strs).1 iol false = .err e) : run (evs v) iol = .err e := by
  have := gki_run _ _ _ _ h trivial
  rwa [evs_indexStrings] at this

theorem gki_top_err {fuel : Nat} {w : PV} {iol : IOL} {e : String}
    (h : getKeysInner fuel w iol true = .err e) : getKeysInner fuel w iol false = .err e := by
  cases fuel with
  | zero => rw [getKeysInner] at h; cases h
  | succ fuel =>
    rw [gki_top] at h
    cases w with
    | lit l => simp at h
    | _ => exact h

/-- `ParsedValue::merge` on a value key fails: the locale has a group there, or `get_keys_inner`
    fails on the locale's (plain, non-`null`) value -/
theorem mergeValue_err_value (recMerge : MergeRec) (top : Str) (dto : DefaultTo) (kp : KeyPath) (cur : PV)
    (iol : IOL) (d : Defaults) (st : St) (e : String)
    (h : mergeValue recMerge top dto kp cur (.value iol d) st = .err e) :
    (∃ o, cur = .subkeys o ∧ e = "SubKeyMissmatch") ∨
    (isLeafVal cur = true ∧ cur ≠ .dflt ∧ run (evs cur) iol = .err e) := by
  have other : ∀ v, shapeOf cur = .other v → v = cur → isLeafVal cur = true → cur ≠ .dflt →
      isLeafVal cur = true ∧ cur ≠ .dflt ∧ run (evs cur) iol = .err e := by
    intro v hs hv hl hd
    subst hv
    simp only [mergeValue, hs] at h
    refine ⟨hl, hd, ?_⟩
    cases hg : getKeysInner 1000000 (indexStrings 1000000 v st.strings).1 iol false with
    | ok iol' => rw [hg] at h; cases h
    | err e' =>
      rw [hg] at h
      simp only [Res.err.injEq] at h
      subst h
      exact gki_err_run hg
    | panic p => rw [hg] at h; cases h
  cases cur with
  | dflt => simp [mergeValue, shapeOf] at h
  | lit l =>
    simp only [mergeValue, shapeOf] at h
    cases iol with
    | interpol K => simp at h
    | lit ty => simp only at h; split at h <;> simp at h
  | subkeys o =>
    rw [mergeValue_value_mismatch] at h
    simp only [Res.err.injEq] at h
    exact Or.inl ⟨o, rfl, h.symm⟩
  | fk f => exact Or.inr (other _ rfl rfl rfl (by simp))
  | ranges ck t bs => exact Or.inr (other _ rfl rfl rfl (by simp))
  | var k f => exact Or.inr (other _ rfl rfl rfl (by simp))
  | comp k i => exact Or.inr (other _ rfl rfl rfl (by simp))
  | bloc items => exact Or.inr (other _ rfl rfl rfl (by simp))
  | plurals r ck o fs => exact Or.inr (other _ rfl rfl rfl (by simp))

/-- `ParsedValue::merge` on a group fails: `Locale::merge` one level down failed, or the locale has a
    plain value other than `null` there -/
theorem mergeValue_err_group (recMerge : MergeRec) (top : Str) (dto : DefaultTo) (kp : KeyPath) (cur : PV)
    (ls : List Loc) (bkeys : BKI) (st : St) (e : String)
    (h : mergeValue recMerge top dto kp cur (.subkeys ls bkeys) st = .err e) :
    (∃ loc, recMerge kp loc bkeys st = .err e ∧
      ((cur = .dflt ∧ ∃ dl : Loc, loc.keys = dl.keys.map (fun (x : Str × PV) => (x.fst, PV.dflt))) ∨
        cur = .subkeys (some loc))) ∨
    (isLeafVal cur = true ∧ cur ≠ .dflt ∧ e = "SubKeyMissmatch") := by
  simp only [mergeValue] at h
  split at h
  · rename_i hs
    have hcur : cur = .dflt := shapeOf_dflt hs
    split at h
    · simp at h
    · rename_i dl hdl
      split at h
      · rename_i e' hr
        simp only [Res.err.injEq] at h
        subst h
        exact Or.inl ⟨_, hr, Or.inl ⟨hcur, dl, rfl⟩⟩
      · simp at h
      · simp at h
  · rename_i loc hs
    have hcur : cur = .subkeys (some loc) := shapeOf_subSome hs
    split at h
    · rename_i e' hr
      simp only [Res.err.injEq] at h
      subst h
      exact Or.inl ⟨loc, hr, Or.inr hcur⟩
    · simp at h
    · simp at h
  · simp at h
  · rename_i h1 h2 h3
    simp only [Res.err.injEq] at h
    refine Or.inr ⟨?_, ?_, h.symm⟩
    · cases cur with
      | subkeys o => cases o <;> simp [shapeOf] at h2 h3
      | _ => rfl
    · intro e'; subst e'; simp [shapeOf] at h1

/-- where an error of merging the locale with key map `ks` into the builder keys `bki` comes from:
    a key path at which the locale has a value `v` other than `null`, and there
    * the builder keys have a group and `v` is a plain value, or
    * the builder keys have a value key and `v` is a group, or
    * the builder keys have a value key with signature `iol` and pushing the occurrences of `v`
      into `iol` fails with that error -/
def ErrAt (ks : List (Str × PV)) (bki : BKI) (e : String) : Prop :=
  ∃ p v, valueAt ks p = some v ∧ v ≠ .dflt ∧
    ((∃ ls sub, lvAt bki p = some (.subkeys ls sub) ∧ isLeafVal v = true ∧ e = "SubKeyMissmatch") ∨
     (∃ iol d, lvAt bki p = some (.value iol d) ∧
        ((∃ o, v = .subkeys o ∧ e = "SubKeyMissmatch") ∨ (isLeafVal v = true ∧ run (evs v) iol = .err e))))

def RecErr (recMerge : MergeRec) : Prop :=
  ∀ kp loc bki st e, BKI.WF bki → recMerge kp loc bki st = .err e → ErrAt loc.keys bki e

theorem WFL_get : ∀ {b : List (Str × LV)} {k : Str} {lv : LV}, WFL b → AMap.get? k b = some lv → LV.WF lv
  | [], k, lv, _, h => by simp [AMap.get?] at h
  | (k1, lv1) :: rest, k, lv, hw, h => by
    simp only [WFL] at hw
    rw [AMap.get?_cons] at h
    by_cases hk : k1 = k
    · simp only [hk, if_true, Option.some.injEq] at h
      subst h; exact hw.1
    · simp only [hk, if_false] at h
      exact WFL_get hw.2 h

theorem curOf_present {ks : List (Str × PV)} {k : Str} {cur : PV} (h : CurOf ks k cur) (hd : cur ≠ .dflt) :
    ∃ x, AMap.get? k ks = some x := by
  unfold CurOf at h
  cases hg : AMap.get? k ks with
  | none => rw [hg] at h; exact absurd h hd
  | some x => exact ⟨x, rfl⟩

theorem valueAt_dummy_some {dks : List (Str × PV)} {p : List Str} {v : PV}
    (h : valueAt (dks.map (fun (x : Str × PV) => (x.fst, PV.dflt))) p = some v) : v = .dflt := by
  have := valueAt_dummy dks p
  rw [h] at this
  exact this

theorem mergeLocale_err (suppress : Bool) (top : Str) (dto : DefaultTo) :
    ∀ fuel, RecErr (mergeLocale suppress top dto fuel) := by
  intro fuel
  induction fuel with
  | zero => intro kp loc bki st e _ h; simp [mergeLocale] at h
  | succ fuel ih =>
    intro kp loc bki st e hwf h
    simp only [mergeLocale] at h
    split at h
    · rename_i e' hmk
      simp only [Res.err.injEq] at h
      subst h
      obtain ⟨k, lv, cur, st1, hg, hc, hmv⟩ := mergeKeys_err_calls _ top dto kp bki loc.keys [] st _ hwf.1 hmk
      have hlv : LV.WF lv := WFL_get hwf.2 hg
      cases lv with
      | value iol d =>
        have hlvAt : lvAt bki [k] = some (.value iol d) := by rw [lvAt_cons, hg]; rfl
        rcases mergeValue_err_value _ _ _ _ _ _ _ _ _ hmv with ⟨o, rfl, rfl⟩ | ⟨hl, hd, hrun⟩
        · obtain ⟨x, hx⟩ := curOf_present hc (by simp)
          exact ⟨[k], _, by rw [valueAt_of_curOf_present hc hx]; rfl, by simp,
            Or.inr ⟨iol, d, hlvAt, Or.inl ⟨o, rfl, rfl⟩⟩⟩
        · obtain ⟨x, hx⟩ := curOf_present hc hd
          exact ⟨[k], cur, by rw [valueAt_of_curOf_present hc hx]; rfl, hd,
            Or.inr ⟨iol, d, hlvAt, Or.inr ⟨hl, hrun⟩⟩⟩
      | subkeys ls bkeys =>
        simp only [LV.WF] at hlv
        obtain ⟨_, hnd, hwfl⟩ := hlv
        rcases mergeValue_err_group _ _ _ _ _ _ _ _ _ hmv with ⟨loc2, hr, hcase⟩ | ⟨hl, hd, rfl⟩
        · obtain ⟨p', v, hv, hvd, hwhat⟩ := ih _ _ _ _ _ ⟨hnd, hwfl⟩ hr
          rcases hcase with ⟨_, dl, hdk⟩ | rfl
          · rw [hdk] at hv
            exact absurd (valueAt_dummy_some hv) hvd
          · obtain ⟨x, hx⟩ := curOf_present hc (by simp)
            cases p' with
            | nil => simp [valueAt] at hv
            | cons k2 r =>
              refine ⟨k :: k2 :: r, v, by rw [valueAt_of_curOf_present hc hx]; exact hv, hvd, ?_⟩
              have : lvAt bki (k :: k2 :: r) = lvAt bkeys (k2 :: r) := by rw [lvAt_cons, hg]; rfl
              rw [this]; exact hwhat
        · obtain ⟨x, hx⟩ := curOf_present hc hd
          exact ⟨[k], cur, by rw [valueAt_of_curOf_present hc hx]; rfl, hd,
            Or.inl ⟨ls, bkeys, by rw [lvAt_cons, hg]; rfl, hl, rfl⟩⟩
    · simp at h
    · simp at h

/-! ### the default locale -/

/-- why `make_builder_keys` fails at key `k` with (reduced) value `cur` -/
def MakeFail (recMake : MakeRec) (path : KeyPath) (k : Str) (cur : PV) (e : String) : Prop :=
  (cur = .dflt ∧ e = "ExplicitDefaultInDefault") ∨
  (∃ sub s1, cur = .subkeys (some sub) ∧ recMake (pushKey path k) sub s1 = .err e) ∨
  (isLeafVal cur = true ∧ cur ≠ .dflt ∧ run (evs cur) (.lit .string) = .err e)

theorem makeKeys_err_calls (recMake : MakeRec) (dflt : Str) (path : KeyPath) :
    ∀ (l accK : List (Str × PV)) (accB : BKI) (strs : List Str) (e : String),
      (l.map Prod.fst).Nodup →
      makeKeys recMake dflt path l accK accB strs = .err e →
      ∃ k v cur, AMap.get? k l = some v ∧ reduce v = .ok cur ∧ MakeFail recMake path k cur e := by
  intro l
  induction l with
  | nil => intro accK accB strs e _ h; simp [makeKeys] at h
  | cons e0 l ih =>
    obtain ⟨k0, v0⟩ := e0
    intro accK accB strs e hnd h
    simp only [List.map_cons, List.nodup_cons] at hnd
    have tail : ∀ accK' accB' strs', makeKeys recMake dflt path l accK' accB' strs' = .err e →
        ∃ k v cur, AMap.get? k ((k0, v0) :: l) = some v ∧ reduce v = .ok cur ∧ MakeFail recMake path k cur e := by
      intro accK' accB' strs' hm
      obtain ⟨k, v, cur, a1, a2, a3⟩ := ih _ _ _ _ hnd.2 hm
      have hk : k0 ≠ k := by
        intro e'; subst e'
        exact hnd.1 (AMap.mem_of_get?_eq_some a1)
      exact ⟨k, v, cur, by rw [AMap.get?_cons]; simp [hk, a1], a2, a3⟩
    have here : ∀ cur, reduce v0 = .ok cur → MakeFail recMake path k0 cur e →
        ∃ k v cur, AMap.get? k ((k0, v0) :: l) = some v ∧ reduce v = .ok cur ∧ MakeFail recMake path k cur e :=
      fun cur hr hf => ⟨k0, v0, cur, by simp [AMap.get?], hr, hf⟩
    simp only [makeKeys] at h
    split at h
    · rename_i e' hred; exact absurd hred (reduce_noErr v0 e')
    · simp at h
    · rename_i v1 hred
      split at h
      · rename_i sub hsh
        have hv1 : v1 = .subkeys (some sub) := shapeOf'_inl hsh
        split at h
        · rename_i e' hrm
          simp only [Res.err.injEq] at h
          subst h
          exact here _ hred (Or.inr (Or.inl ⟨sub, _, hv1, hrm⟩))
        · simp at h
        · exact tail _ _ _ h
      · simp at h
      · rename_i hsh
        simp only [Res.err.injEq] at h
        have hv1 : v1 = .dflt := by cases v1 <;> simp [makeKeys.shapeOf'] at hsh; rfl
        exact here _ hred (Or.inl ⟨hv1, h.symm⟩)
      · rename_i hsh
        split at h
        · rename_i e' hgk
          simp only [Res.err.injEq] at h
          subst h
          refine here _ hred (Or.inr (Or.inr ⟨?_, ?_, gki_err_run (gki_top_err hgk)⟩))
          · cases v1 <;> first | rfl | simp [makeKeys.shapeOf'] at hsh
          · intro e'; subst e'; simp [makeKeys.shapeOf'] at hsh
        · simp at h
        · exact tail _ _ _ h

/-- where an error of `make_builder_keys` on the locale with key map `ks` comes from: a key path
    with an explicit `null`, or a plain value whose own count occurrences conflict -/
def MakeErrAt (ks : List (Str × PV)) (e : String) : Prop :=
  ∃ p v, valueAt ks p = some v ∧
    ((v = .dflt ∧ e = "ExplicitDefaultInDefault") ∨
     (isLeafVal v = true ∧ v ≠ .dflt ∧ run (evs v) (.lit .string) = .err e))

theorem makeBuilderKeys_err (dflt : Str) : ∀ (fuel : Nat) (path : KeyPath) (loc : Loc) (strs : List Str) (e : String),
    NDLoc fuel loc → makeBuilderKeys dflt fuel path loc strs = .err e → MakeErrAt loc.keys e := by
  intro fuel
  induction fuel with
  | zero => intro path loc strs e _ h; simp [makeBuilderKeys] at h
  | succ fuel ih =>
    intro path loc strs e hnd h
    simp only [makeBuilderKeys] at h
    split at h
    · simp at h
    · rename_i e' hk
      simp only [Res.err.injEq] at h
      subst h
      obtain ⟨hnd1, hnd2⟩ := hnd
      obtain ⟨k, v, cur, hg, hred, hf⟩ := makeKeys_err_calls _ dflt path _ _ _ _ _ hnd1 hk
      have hone : valueAt loc.keys [k] = some cur := by rw [valueAt_cons, hg]; simp [hred, curAt]
      rcases hf with ⟨rfl, rfl⟩ | ⟨sub, s1, rfl, hrm⟩ | ⟨hl, hd, hrun⟩
      · exact ⟨[k], _, hone, Or.inl ⟨rfl, rfl⟩⟩
      · obtain ⟨p', v', hv', hw⟩ := ih _ _ _ _ (hnd2 k v sub (get?_mem hg) hred) hrm
        cases p' with
        | nil => simp [valueAt] at hv'
        | cons k2 r =>
          exact ⟨k :: k2 :: r, v', by rw [valueAt_cons, hg]; simp only [hred]; exact hv', hw⟩
      · exact ⟨[k], cur, hone, Or.inr ⟨hl, hd, hrun⟩⟩
    · simp at h

/-! ### the loop over the locales, the namespaces -/

theorem go_err (suppress : Bool) (fuel : Nat) (inherits : List (Str × Str)) (dl : Loc) (path : KeyPath) :
    ∀ (others acc : List Loc) (bki : BKI) (ws : List Warning) (e : String),
      checkLocalesInner.go suppress fuel inherits dl path others acc bki ws = .err e →
      ∃ pre l post locs1 bki1 ws1, others = pre ++ l :: post ∧
        checkLocalesInner.go suppress fuel inherits dl path pre acc bki ws = .ok (locs1, bki1, ws1) ∧
        mergeLocale suppress l.name (dtoOf suppress inherits dl.top l.name) fuel path l bki1
          { strings := [], warnings := ws1 } = .err e := by
  intro others
  induction others with
  | nil => intro acc bki ws e h; simp [checkLocalesInner.go] at h
  | cons l rest ih =>
    intro acc bki ws e h
    simp only [checkLocalesInner.go] at h
    split at h
    · rename_i e' hml
      simp only [Res.err.injEq] at h
      subst h
      exact ⟨[], l, rest, acc, bki, ws, rfl, by simp [checkLocalesInner.go], hml⟩
    · simp at h
    · rename_i l' bki' st hml
      obtain ⟨pre, l2, post, locs1, bki1, ws1, h1, h2, h3⟩ := ih _ _ _ _ h
      refine ⟨l :: pre, l2, post, locs1, bki1, ws1, by simp [h1], ?_, h3⟩
      simp only [checkLocalesInner.go]
      rw [hml]
      exact h2

theorem checkLocalesInner_err {suppress : Bool} {fuel : Nat} {inherits : List (Str × Str)} {ns : Option Str}
    {dl : Loc} {others : List Loc} {ws : List Warning} {e : String}
    (h : checkLocalesInner suppress fuel inherits ns (dl :: others) ws = .err e) :
    makeBuilderKeys dl.top fuel ⟨ns, []⟩ dl [] = .err e ∨
    ∃ dl' bki0 strs dl'', makeBuilderKeys dl.top fuel ⟨ns, []⟩ dl [] = .ok (dl', bki0, strs) ∧
      checkLocalesInner.go suppress fuel inherits dl ⟨ns, []⟩ others [dl''] bki0 ws = .err e := by
  simp only [checkLocalesInner] at h
  split at h
  · rename_i e' hmk
    simp only [Res.err.injEq] at h
    subst h
    exact Or.inl hmk
  · simp at h
  · rename_i dl' bki0 strs hmk
    split at h
    · rename_i e' hgo
      simp only [Res.err.injEq] at h
      subst h
      exact Or.inr ⟨dl', bki0, strs, _, hmk, hgo⟩
    · simp at h
    · simp at h

theorem checkAll_err_ns (inp : Pipeline.Input) : ∀ (nss : List NS) (ws : List Warning) (e : String),
    Pipeline.checkAll inp nss ws = .err e →
    ∃ ns ∈ nss, ∃ ws1, checkLocalesInner inp.suppress 1000000 inp.cfg.inherits ns.key ns.locales ws1 = .err e
  | [], ws, e, h => by simp [Pipeline.checkAll] at h
  | ns :: rest, ws, e, h => by
    simp only [Pipeline.checkAll] at h
    split at h
    · rename_i e' hc
      simp only [Res.err.injEq] at h
      subst h
      exact ⟨ns, by simp, ws, hc⟩
    · simp at h
    · rename_i locs bki ws1 hc
      split at h
      · simp at h
      · rename_i e' hr
        simp only [Res.err.injEq] at h
        subst h
        obtain ⟨n, hn, w, hw⟩ := checkAll_err_ns inp rest ws1 _ hr
        exact ⟨n, by simp [hn], w, hw⟩
      · simp at h

/-! ## 7. one namespace: errors and what they witness; success and what it excludes -/

theorem leafAt_of_lvAt : ∀ (p : List Str) (b : BKI) (iol : IOL) (d : Defaults),
    lvAt b p = some (.value iol d) → leafAt b p = some (iol, d)
  | [], b, iol, d, h => by rw [lvAt_nil] at h; cases h
  | k :: rest, b, iol, d, h => by
    rw [lvAt_cons] at h
    rw [leafAt_cons]
    cases hg : AMap.get? k b with
    | none => rw [hg] at h; cases h
    | some lv =>
      rw [hg] at h
      simp only at h ⊢
      cases rest with
      | nil =>
        simp only [lvRel, Option.some.injEq] at h
        subst h; rfl
      | cons k2 r =>
        cases lv with
        | value _ _ => simp [lvRel] at h
        | subkeys ls ks =>
          simp only [lvRel] at h
          simp only [leafLV]
          exact leafAt_of_lvAt (k2 :: r) ks iol d h

theorem lvAt_of_leafAt : ∀ (p : List Str) (b : BKI) (iol : IOL) (d : Defaults),
    leafAt b p = some (iol, d) → lvAt b p = some (.value iol d)
  | [], b, iol, d, h => by rw [leafAt_nil] at h; cases h
  | k :: rest, b, iol, d, h => by
    rw [leafAt_cons] at h
    rw [lvAt_cons]
    cases hg : AMap.get? k b with
    | none => rw [hg] at h; cases h
    | some lv =>
      rw [hg] at h
      simp only at h ⊢
      cases lv with
      | value iol0 d0 =>
        cases rest with
        | nil => simp only [leafLV, Option.some.injEq, Prod.mk.injEq] at h; obtain ⟨rfl, rfl⟩ := h; rfl
        | cons _ _ => simp [leafLV] at h
      | subkeys ls ks =>
        simp only [leafLV] at h
        cases rest with
        | nil => rw [leafAt_nil] at h; cases h
        | cons k2 r => simp only [lvRel]; exact lvAt_of_leafAt (k2 :: r) ks iol d h

theorem pvKind_false {o : Option PV} (h : pvKind o = some false) : ∃ v, o = some v ∧ isLeafVal v = true := by
  cases o with
  | none => simp [pvKind] at h
  | some v => cases v <;> first | exact ⟨_, rfl, rfl⟩ | simp [pvKind] at h

theorem pvKind_true {o : Option PV} (h : pvKind o = some true) : ∃ g, o = some (.subkeys g) := by
  cases o with
  | none => simp [pvKind] at h
  | some v => cases v <;> first | exact ⟨_, rfl⟩ | simp [pvKind] at h

theorem lvKind_true {o : Option LV} (h : lvKind o = some true) : ∃ ls sub, o = some (.subkeys ls sub) := by
  cases o with
  | none => simp [lvKind] at h
  | some v => cases v <;> first | exact ⟨_, _, rfl⟩ | simp [lvKind] at h

theorem lvKind_false {o : Option LV} (h : lvKind o = some false) : ∃ iol d, o = some (.value iol d) := by
  cases o with
  | none => simp [lvKind] at h
  | some v => cases v <;> first | exact ⟨_, _, rfl⟩ | simp [lvKind] at h

theorem occCounts_valD {o : Option PV} {x : Str × CountTy} (h : x ∈ occCounts (valD o)) :
    ∃ v, o = some v ∧ x ∈ occCounts v := by
  cases o with
  | none => simp [valD, occCounts] at h
  | some v => exact ⟨v, rfl, h⟩

/-- a count kind recorded in a signature that is the union over `locs` of the occurrences at `p`
    comes from one of those locales -/
theorem countOf_source {K : IKeys} {locs : List Loc} {p : List Str}
    (hx : ExtBy {} K (locs.map (fun l => valD (valueAt l.keys p)))) {n : Str} {ty : CountTy}
    (h : countOf K n = some ty) : ∃ l ∈ locs, ∃ v, valueAt l.keys p = some v ∧ (n, ty) ∈ occCounts v := by
  obtain ⟨v, hv, hm⟩ := (hx.exact.2 n ty).mp h
  obtain ⟨l, hl, rfl⟩ := List.mem_map.mp hv
  obtain ⟨v', hv', hm'⟩ := occCounts_valD hm
  exact ⟨l, hl, v', hv', hm'⟩

/-- a failing `push_count` run on the value `v` of locale `l` at `p`, against a signature that is the
    union over `locs`: two conflicting count occurrences among `l :: locs` -/
theorem run_err_conflict {K : IOL} {locs : List Loc} {p : List Str} {l : Loc} {v : PV} {e : String}
    (hx : ExtBy {} K.keysMut (locs.map (fun l => valD (valueAt l.keys p))))
    (hv : valueAt l.keys p = some v) (h : run (evs v) K = .err e) :
    (e = "RangeTypeMissmatch" ∧ ∃ n t t', CountConflictAt (l :: locs) p n (.range t) (.range t')) ∨
    (e = "RangeAndPluralsMix" ∧ ∃ n t, CountConflictAt (l :: locs) p n .plural (.range t)) := by
  have hocc : occCounts v = countsOf (evs v) := (occ_evs v).2.2
  have src : ∀ n ty, Recorded K.keysMut (countsOf (evs v)) n ty →
      ∃ l' ∈ l :: locs, ∃ v', valueAt l'.keys p = some v' ∧ (n, ty) ∈ occCounts v' := by
    intro n ty hr
    rcases hr with hr | hr
    · exact ⟨l, by simp, v, hv, by rw [hocc]; exact hr⟩
    · obtain ⟨l', hl', v', a, b⟩ := countOf_source hx hr
      exact ⟨l', by simp [hl'], v', a, b⟩
  rcases run_err_kind _ _ _ h with ⟨rfl, n, t, t', hne, h1, h2⟩ | ⟨rfl, n, t, h1, h2, _⟩
  · left
    obtain ⟨l1, hl1, v1, a1, b1⟩ := src n _ h1
    refine ⟨rfl, n, t, t', l1, hl1, l, by simp, v1, v, a1, hv, b1, by rw [hocc]; exact h2, ?_⟩
    intro e; cases e; exact hne rfl
  · right
    obtain ⟨l1, hl1, v1, a1, b1⟩ := src n _ h1
    obtain ⟨l2, hl2, v2, a2, b2⟩ := src n _ h2
    exact ⟨rfl, n, t, l1, hl1, l2, hl2, v1, v2, a1, a2, b1, b2, by intro e; cases e⟩

theorem CountConflictAt.mono {locs locs' : List Loc} (hsub : ∀ l ∈ locs, l ∈ locs') {p : List Str} {n : Str}
    {t1 t2 : CountTy} (h : CountConflictAt locs p n t1 t2) : CountConflictAt locs' p n t1 t2 := by
  obtain ⟨l1, h1, l2, h2, rest⟩ := h
  exact ⟨l1, hsub l1 h1, l2, hsub l2 h2, rest⟩

/-- **one namespace, an error**: what it witnesses (default locale with distinct keys) -/
theorem checkLocalesInner_nsErr {suppress : Bool} {fuel : Nat} {inherits : List (Str × Str)} {ns : NS}
    {dl : Loc} {others : List Loc} {ws : List Warning} {e : String} (hloc : ns.locales = dl :: others)
    (hnd : NDLoc fuel dl)
    (h : checkLocalesInner suppress fuel inherits ns.key (dl :: others) ws = .err e) : NsErr ns e := by
  rcases checkLocalesInner_err h with hmk | ⟨dl', bki0, strs, dl'', hmk, hgo⟩
  · -- the default locale alone
    obtain ⟨p, v, hv, hw⟩ := makeBuilderKeys_err _ _ _ _ _ _ hnd hmk
    rcases hw with ⟨rfl, rfl⟩ | ⟨hl, hd, hrun⟩
    · exact Or.inr (Or.inl ⟨rfl, dl, others, hloc, p, hv⟩)
    · have hlv : leafValAt dl.keys p = true := by simp [leafValAt, hv, leafOpt, hl]
      have hx : ExtBy {} (IOL.lit .string).keysMut (([] : List Loc).map (fun l => valD (valueAt l.keys p))) := by
        exact ExtBy.refl {}
      rcases run_err_conflict (l := dl) hx hv hrun with ⟨rfl, n, t, t', hc⟩ | ⟨rfl, n, t, hc⟩
      · exact Or.inr (Or.inr (Or.inl ⟨rfl, dl, others, hloc, p, hlv, n, t, t',
          hc.mono (by intro l hl'; rw [hloc]; simp at hl'; simp [hl'])⟩))
      · exact Or.inr (Or.inr (Or.inr ⟨rfl, dl, others, hloc, p, hlv, n, t,
          hc.mono (by intro l hl'; rw [hloc]; simp at hl'; simp [hl'])⟩))
  · -- merging a later locale
    obtain ⟨pre, l, post, locs1, bki1, ws1, hoth, hpre, hml⟩ := go_err _ _ _ _ _ _ _ _ _ _ hgo
    obtain ⟨_, hwf0, _⟩ := makeBuilderKeys_spec dl.top fuel _ _ _ _ _ _ hmk hnd
    obtain ⟨hwf1, _⟩ := go_spec suppress fuel inherits dl ⟨ns.key, []⟩ pre _ bki0 ws _ _ _ hwf0 hpre
    obtain ⟨rk, hrk, hsk0⟩ := makeBuilderKeys_skel dl.top fuel _ _ _ _ _ _ hmk
    have hsk1 := go_sk _ _ _ _ _ _ _ _ _ _ _ _ hpre
    have hskT : SkL (skelK rk) bki1 := SkL_trans _ _ _ (SkL_symm _ _ hsk0) hsk1
    have hlo : l ∈ others := by rw [hoth]; simp
    obtain ⟨p, v, hv, hvd, hwhat⟩ := mergeLocale_err suppress _ _ fuel _ _ _ _ _ hwf1 hml
    obtain ⟨hkind, hgrp⟩ := tree_valueAt p dl.keys rk bki1 hrk hskT
    rcases hwhat with ⟨ls, sub, hlv, hl, rfl⟩ | ⟨iol, d, hlv, hcase⟩
    · obtain ⟨g, hg, _⟩ := hgrp ls sub hlv
      exact Or.inl ⟨rfl, dl, others, hloc, l, hlo, p, Or.inl ⟨g, v, hg, hv, hl, hvd⟩⟩
    · rw [hlv] at hkind
      obtain ⟨v0, hv0, hl0⟩ := pvKind_false hkind.symm
      rcases hcase with ⟨o, rfl, rfl⟩ | ⟨hl, hrun⟩
      · exact Or.inl ⟨rfl, dl, others, hloc, l, hlo, p, Or.inr ⟨v0, o, hv0, hl0, hv⟩⟩
      · have hlvp : leafValAt dl.keys p = true := by simp [leafValAt, hv0, leafOpt, hl0]
        have hleaf1 : leafAt bki1 p = some (iol, d) := leafAt_of_lvAt p bki1 iol d hlv
        have hsome := go_leaf_paths _ _ _ _ _ _ _ _ _ _ _ _ hpre p
        rw [hleaf1] at hsome
        cases h0 : leafAt bki0 p with
        | none => rw [h0] at hsome; cases hsome
        | some r =>
          obtain ⟨iol0, d0⟩ := r
          obtain ⟨m1, _⟩ := makeBuilderKeys_sig dl.top fuel _ _ _ _ _ _ hmk p iol0 d0 h0
          obtain ⟨iol', d', g1, g2, _⟩ := go_sig _ _ _ _ _ _ _ _ _ _ _ _ hpre p iol0 d0 h0
          rw [hleaf1] at g1
          simp only [Option.some.injEq, Prod.mk.injEq] at g1
          obtain ⟨rfl, rfl⟩ := g1
          have hx : ExtBy {} iol.keysMut ((dl :: pre).map (fun l => valD (valueAt l.keys p))) := by
            simpa using ExtBy.trans m1 g2
          have hsub : ∀ x ∈ l :: dl :: pre, x ∈ ns.locales := by
            intro x hx'
            rw [hloc, hoth]
            simp only [List.mem_cons] at hx'
            rcases hx' with rfl | rfl | hx'
            · simp
            · simp
            · simp [hx']
          rcases run_err_conflict hx hv hrun with ⟨rfl, n, t, t', hc⟩ | ⟨rfl, n, t, hc⟩
          · exact Or.inr (Or.inr (Or.inl ⟨rfl, dl, others, hloc, p, hlvp, n, t, t', hc.mono hsub⟩))
          · exact Or.inr (Or.inr (Or.inr ⟨rfl, dl, others, hloc, p, hlvp, n, t, hc.mono hsub⟩))

/-- **one namespace, success**: no mismatch, no `null` in the default locale, no count conflict -/
theorem checkLocalesInner_ok_clean {suppress : Bool} {fuel : Nat} {inherits : List (Str × Str)} {ns : NS}
    {dl : Loc} {others : List Loc} {ws : List Warning} {locales : List Loc} {bkiF : BKI} {ws' : List Warning}
    (hloc : ns.locales = dl :: others)
    (h : checkLocalesInner suppress fuel inherits ns.key (dl :: others) ws = .ok (locales, bkiF, ws')) :
    ¬ NsMismatch ns ∧ ¬ NsDefaultNull ns ∧ ¬ NsCountConflict ns := by
  obtain ⟨dl', bki0, strs, dl'', bki1, hmk, hgo, hF⟩ := checkLocalesInner_parts h
  obtain ⟨rk, hrk, hsk0⟩ := makeBuilderKeys_skel dl.top fuel _ _ _ _ _ _ hmk
  have hfits := (go_steps _ _ _ _ _ _ _ _ _ _ _ _ hgo).2
  refine ⟨?_, ?_, ?_⟩
  · rintro ⟨dl2, others2, hloc2, l, hl, p, hm⟩
    rw [hloc] at hloc2
    simp only [List.cons.injEq] at hloc2
    obtain ⟨rfl, rfl⟩ := hloc2
    obtain ⟨hkind, _⟩ := tree_valueAt p dl.keys rk bki0 hrk (SkL_symm _ _ hsk0)
    rcases hm with ⟨g, v, hg, hv, hlf, hvd⟩ | ⟨v0, g, hv0, hl0, hv⟩
    · rw [hg] at hkind
      obtain ⟨ls, sub, hlv⟩ := lvKind_true hkind
      rcases hfits l hl p _ v hlv hv with e | ⟨l', e⟩
      · exact hvd e
      · subst e; simp [isLeafVal] at hlf
    · rw [hv0] at hkind
      have : pvKind (some v0) = some false := by
        cases v0 <;> first | rfl | simp [isLeafVal] at hl0
      rw [this] at hkind
      obtain ⟨iol, d, hlv⟩ := lvKind_false hkind
      exact hfits l hl p _ _ hlv hv g rfl
  · rintro ⟨dl2, others2, hloc2, p, hp⟩
    rw [hloc] at hloc2
    simp only [List.cons.injEq] at hloc2
    obtain ⟨rfl, rfl⟩ := hloc2
    have hlp := checkLocalesInner_leaf_paths h p
    rw [leafValAt, hp] at hlp
    cases hleaf : leafAt bkiF p with
    | none => rw [hleaf] at hlp; cases hlp
    | some r =>
      obtain ⟨iol, d⟩ := r
      obtain ⟨v0, iol0, a1, _, a3, _⟩ := checkLocalesInner_steps h p iol d hleaf
      rw [hp] at a1
      simp only [Option.some.injEq] at a1
      exact a3 a1.symm
  · rintro ⟨dl2, others2, hloc2, p, hlvp, n, t1, t2, l1, hl1, l2, hl2, v1, v2, a1, a2, b1, b2, hne⟩
    rw [hloc] at hloc2 hl1 hl2
    simp only [List.cons.injEq] at hloc2
    obtain ⟨rfl, rfl⟩ := hloc2
    have hlp := checkLocalesInner_leaf_paths h p
    rw [hlvp] at hlp
    cases hleaf : leafAt bkiF p with
    | none => rw [hleaf] at hlp; cases hlp
    | some r =>
      obtain ⟨iol, d⟩ := r
      obtain ⟨s1, _⟩ := checkLocalesInner_sig h p iol d hleaf
      have e1 := (s1.exact.2 n t1).mpr ⟨_, List.mem_map.mpr ⟨l1, hl1, rfl⟩, by rw [a1]; exact b1⟩
      have e2 := (s1.exact.2 n t2).mpr ⟨_, List.mem_map.mpr ⟨l2, hl2, rfl⟩, by rw [a2]; exact b2⟩
      rw [e1] at e2
      simp only [Option.some.injEq] at e2
      exact hne e2

/-! ## 8. the pipeline -/

theorem run_of_resolved {inp : Pipeline.Input} {w : World} {ws : List Warning}
    (hr : Pipeline.resolved inp = .ok (w, ws)) :
    Pipeline.run inp = match Pipeline.checkAll inp w.nss ws with
      | .err e => .err e
      | .panic p => .panic p
      | .ok (outs, ws') => .ok ⟨inp.cfg.locales, w.namespaced, outs, ws'⟩ := by
  unfold Pipeline.run
  rw [hr]
  rfl

theorem run_ok_parts (inp : Pipeline.Input) (out : Pipeline.Output) (h : Pipeline.run inp = .ok out) :
    ∃ w ws, Pipeline.resolved inp = .ok (w, ws) ∧ Pipeline.checkAll inp w.nss ws = .ok (out.nss, out.warnings) := by
  unfold Pipeline.run at h
  split at h
  · simp at h
  · simp at h
  · rename_i w ws hr
    split at h
    · simp at h
    · simp at h
    · rename_i outs ws' hc
      simp only [Res.ok.injEq] at h
      rw [← h]
      exact ⟨w, ws, hr, hc⟩

theorem run_err_parts {inp : Pipeline.Input} {w : World} {ws : List Warning} {e : String}
    (hr : Pipeline.resolved inp = .ok (w, ws)) (h : Pipeline.run inp = .err e) :
    Pipeline.checkAll inp w.nss ws = .err e := by
  rw [run_of_resolved hr] at h
  split at h
  · rename_i e' hc; simp only [Res.err.injEq] at h; rw [hc, h]
  · simp at h
  · simp at h

/-- the default locale of every namespace of the resolved world has distinct keys at every level -/
theorem resolved_nd (inp : Pipeline.Input) (hcfg : CfgWF inp.cfg) (w : World) (ws : List Warning)
    (hr : Pipeline.resolved inp = .ok (w, ws)) :
    ∀ ns ∈ w.nss, ∀ dl, ns.locales.head? = some dl → NDLoc 1000000 dl := by
  intro ns hns dl hdl
  exact NDLoc_of_distinct _ dl (C11_resolved_distinct inp hcfg w ws hr ns hns dl (List.mem_of_mem_head? hdl))

/-- a successful `checkAll` checked every namespace successfully -/
theorem checkAll_ok_each (inp : Pipeline.Input) : ∀ (nss : List NS) (ws : List Warning) outs ws',
    Pipeline.checkAll inp nss ws = .ok (outs, ws') →
    ∀ ns ∈ nss, ∃ ws1 r, checkLocalesInner inp.suppress 1000000 inp.cfg.inherits ns.key ns.locales ws1 = .ok r
  | [], ws, outs, ws', _, ns, hns => by simp at hns
  | n :: rest, ws, outs, ws', h, ns, hns => by
    simp only [Pipeline.checkAll] at h
    split at h <;> try (simp at h; done)
    rename_i locs bki ws1 hc
    split at h <;> try (simp at h; done)
    rename_i outs1 ws2 hr
    rcases List.mem_cons.mp hns with rfl | hns
    · exact ⟨ws, _, hc⟩
    · exact checkAll_ok_each inp rest ws1 outs1 ws2 hr ns hns

/-- where the warnings of the earlier stages come from: `merge_plurals` (unused plural forms) -/
theorem resolved_warnings (inp : Pipeline.Input) (w : World) (ws : List Warning)
    (hr : Pipeline.resolved inp = .ok (w, ws)) :
    ∃ w0 paths nss, Pipeline.parseRaw inp = .ok (w0, paths) ∧
      Pipeline.mergePluralsAll inp.oracle w0.nss [] = .ok (nss, ws) := by
  unfold Pipeline.resolved at hr
  split at hr
  · simp at hr
  · simp at hr
  · rename_i w0 paths hp
    split at hr
    · simp at hr
    · simp at hr
    · rename_i nss ws0 hm
      dsimp only at hr
      split at hr
      · simp at hr
      · simp at hr
      · simp only [Res.ok.injEq, Prod.mk.injEq] at hr
        obtain ⟨-, rfl⟩ := hr
        exact ⟨w0, paths, nss, hp, hm⟩

/-- every error of the check stage witnesses its cause in some namespace of the resolved world -/
theorem run_err_witness (inp : Pipeline.Input) (hcfg : CfgWF inp.cfg) (w : World) (ws : List Warning)
    (hr : Pipeline.resolved inp = .ok (w, ws)) (e : String) (h : Pipeline.run inp = .err e) :
    ∃ ns ∈ w.nss, NsErr ns e := by
  obtain ⟨ns, hns, ws1, hc⟩ := checkAll_err_ns inp w.nss ws e (run_err_parts hr h)
  cases hloc : ns.locales with
  | nil => rw [hloc] at hc; simp [checkLocalesInner] at hc
  | cons dl others =>
    rw [hloc] at hc
    exact ⟨ns, hns, checkLocalesInner_nsErr hloc (resolved_nd inp hcfg w ws hr ns hns dl (by simp [hloc])) hc⟩

/-- a successful run: no namespace has a mismatch, a `null` in the default locale or a count conflict -/
theorem run_ok_clean (inp : Pipeline.Input) (w : World) (ws : List Warning)
    (hr : Pipeline.resolved inp = .ok (w, ws)) (out : Pipeline.Output) (h : Pipeline.run inp = .ok out) :
    ∀ ns ∈ w.nss, ¬ NsMismatch ns ∧ ¬ NsDefaultNull ns ∧ ¬ NsCountConflict ns := by
  obtain ⟨w', ws', hr', hc⟩ := run_ok_parts inp out h
  rw [hr] at hr'
  simp only [Res.ok.injEq, Prod.mk.injEq] at hr'
  obtain ⟨rfl, rfl⟩ := hr'
  intro ns hns
  obtain ⟨ws1, r, hcl⟩ := checkAll_ok_each inp _ _ _ _ hc ns hns
  obtain ⟨locs, bki, ws2⟩ := r
  cases hloc : ns.locales with
  | nil => rw [hloc] at hcl; simp [checkLocalesInner] at hcl
  | cons dl others =>
    rw [hloc] at hcl
    exact checkLocalesInner_ok_clean hloc hcl

/-! ## 9. the signature of an accessible key as a union over the locales -/

theorem mem_flatMap_vals {β : Type} (f : PV → List β) (hf : f .dflt = []) (locs : List Loc) (p : List Str) (x : β) :
    x ∈ (locs.map (fun l => valD (valueAt l.keys p))).flatMap f ↔
      ∃ l ∈ locs, ∃ v, valueAt l.keys p = some v ∧ x ∈ f v := by
  simp only [List.mem_flatMap, List.mem_map]
  constructor
  · rintro ⟨v, ⟨l, hl, rfl⟩, hx⟩
    cases hv : valueAt l.keys p with
    | none => rw [hv] at hx; simp [valD, hf] at hx
    | some v => rw [hv] at hx; exact ⟨l, hl, v, hv, hx⟩
  · rintro ⟨l, hl, v, hv, hx⟩
    exact ⟨_, ⟨l, hl, rfl⟩, by rw [hv]; exact hx⟩

theorem sigIsUnion_of_extBy {K : IKeys} {locs : List Loc} {p : List Str}
    (h : ExtBy {} K (locs.map (fun l => valD (valueAt l.keys p)))) : SigIsUnion K locs p := by
  obtain ⟨e1, e2, e3, e4⟩ := Extends.exact_of_empty h rfl rfl
  refine ⟨?_, ?_, ?_, ?_⟩
  · intro c; rw [e1]; exact mem_flatMap_vals occComps rfl locs p c
  · intro n
    rw [e2, List.map_flatMap, List.map_flatMap,
      mem_flatMap_vals (fun v => (occVars v).map (·.1)) rfl locs p n,
      mem_flatMap_vals (fun v => (occCounts v).map (·.1)) rfl locs p n]
    constructor
    · rintro (⟨l, hl, v, hv, hx⟩ | ⟨l, hl, v, hv, hx⟩)
      · exact ⟨l, hl, v, hv, Or.inl hx⟩
      · exact ⟨l, hl, v, hv, Or.inr hx⟩
    · rintro ⟨l, hl, v, hv, hx | hx⟩
      · exact Or.inl ⟨l, hl, v, hv, hx⟩
      · exact Or.inr ⟨l, hl, v, hv, hx⟩
  · intro n f; rw [e3]; exact mem_flatMap_vals occVars rfl locs p (n, f)
  · intro n ty; rw [e4]; exact mem_flatMap_vals occCounts rfl locs p (n, ty)

theorem occ_indexStrings (F : Nat) (v : PV) (acc : List Str) :
    occVars (indexStrings F v acc).1 = occVars v ∧ occComps (indexStrings F v acc).1 = occComps v ∧
      occCounts (indexStrings F v acc).1 = occCounts v := by
  obtain ⟨a1, a2, a3⟩ := occ_evs (indexStrings F v acc).1
  obtain ⟨b1, b2, b3⟩ := occ_evs v
  rw [a1, a2, a3, b1, b2, b3, evs_indexStrings]
  exact ⟨rfl, rfl, rfl⟩

/-! ## 10. the diagnostics as a set: `localeW` on the key tree = `DiagAt` on the two locales -/

theorem get?_of_mem_nodup {α : Type} : ∀ {m : List (Str × α)} {k : Str} {v : α}, (m.map Prod.fst).Nodup →
    (k, v) ∈ m → AMap.get? k m = some v
  | [], k, v, _, h => by simp at h
  | (k1, v1) :: rest, k, v, hnd, h => by
    simp only [List.map_cons, List.nodup_cons] at hnd
    rw [AMap.get?_cons]
    rcases List.mem_cons.mp h with e | h
    · simp only [Prod.mk.injEq] at e
      obtain ⟨rfl, rfl⟩ := e
      simp
    · have hk : k1 ≠ k := by
        intro e; subst e
        exact hnd.1 (List.mem_map.mpr ⟨(k1, v), h, rfl⟩)
      simp only [hk, if_false]
      exact get?_of_mem_nodup hnd.2 h

/-- where the members of `keysW` over a list of builder keys come from (one level) -/
theorem keysW_char (top : Str) (imp sup : Bool) (path : KeyPath) (lks : List (Str × PV)) :
    ∀ (L : List (Str × LV)) (w : Warning), w ∈ keysW top imp sup path lks L →
      (∃ k lv, (k, lv) ∈ L ∧ AMap.get? k lks = none ∧ imp = true ∧ w = .missing top (child path k)) ∨
      (∃ k lv v cur, (k, lv) ∈ L ∧ AMap.get? k lks = some v ∧ reduce v = .ok cur ∧
        w ∈ belowW top imp sup (child path k) cur lv)
  | [], w, h => by simp [keysW] at h
  | (k, lv) :: rest, w, h => by
    simp only [keysW, List.mem_append] at h
    rcases h with h | h
    · split at h
      · rename_i hg
        split at h
        · rename_i hi
          simp only [List.mem_singleton] at h
          exact Or.inl ⟨k, lv, by simp, hg, hi, h⟩
        · simp at h
      · rename_i v hg
        split at h
        · rename_i cur hr
          exact Or.inr ⟨k, lv, v, cur, by simp, hg, hr, h⟩
        · simp at h
    · rcases keysW_char top imp sup path lks rest w h with ⟨k', lv', hm, r⟩ | ⟨k', lv', v, cur, hm, r⟩
      · exact Or.inl ⟨k', lv', by simp [hm], r⟩
      · exact Or.inr ⟨k', lv', v, cur, by simp [hm], r⟩

/-- … and conversely every entry contributes -/
theorem keysW_entry (top : Str) (imp sup : Bool) (path : KeyPath) (lks : List (Str × PV)) :
    ∀ (L : List (Str × LV)) (k : Str) (lv : LV), (k, lv) ∈ L →
      (AMap.get? k lks = none → imp = true → Warning.missing top (child path k) ∈ keysW top imp sup path lks L) ∧
      (∀ v cur w, AMap.get? k lks = some v → reduce v = .ok cur → w ∈ belowW top imp sup (child path k) cur lv →
        w ∈ keysW top imp sup path lks L)
  | [], k, lv, h => by simp at h
  | (k1, lv1) :: rest, k, lv, h => by
    rcases List.mem_cons.mp h with e | h
    · simp only [Prod.mk.injEq] at e
      obtain ⟨rfl, rfl⟩ := e
      constructor
      · intro hg hi
        simp only [keysW, hg, hi, if_true, List.mem_append]
        exact Or.inl (by simp)
      · intro v cur w hg hr hw
        simp only [keysW, hg, hr, List.mem_append]
        exact Or.inl hw
    · obtain ⟨a, b⟩ := keysW_entry top imp sup path lks rest k lv h
      constructor
      · intro hg hi
        simp only [keysW, List.mem_append]
        exact Or.inr (a hg hi)
      · intro v cur w hg hr hw
        simp only [keysW, List.mem_append]
        exact Or.inr (b v cur w hg hr hw)

theorem mem_surplusW {top : Str} {sup : Bool} {path : KeyPath} {a b : List Str} {w : Warning} :
    w ∈ surplusW top sup path a b ↔ sup = false ∧ ∃ k, k ∈ a ∧ k ∉ b ∧ w = .surplus top (child path k) := by
  unfold surplusW
  cases sup with
  | true => simp
  | false =>
    simp only [Bool.false_eq_true, if_false, List.mem_map, List.mem_filter, Bool.not_eq_true', true_and]
    constructor
    · rintro ⟨k, ⟨h1, h2⟩, rfl⟩
      exact ⟨k, h1, by simpa using h2, rfl⟩
    · rintro ⟨k, h1, h2, rfl⟩
      exact ⟨k, ⟨h1, by simpa using h2⟩, rfl⟩

/-- the keys of a locale are distinct at every level (structural form, `Spec/Tables.lean`) -/
def DistinctKs (ks : List (Str × PV)) : Prop := (ks.map Prod.fst).Nodup ∧ DistinctK ks = true

theorem DistinctKs_group {dks : List (Str × PV)} {k : Str} {dv : PV} {d1 : Loc} (h : DistinctKs dks)
    (hg : AMap.get? k dks = some dv) (hr : reduce dv = .ok (.subkeys (some d1))) : DistinctKs d1.keys := by
  have h1 := DistinctK_mem _ h.2 (k, dv) (get?_mem hg)
  have h2 := reduce_distinct dv _ hr h1
  cases d1
  simpa [DistinctPV, DistinctKs, Loc.keys] using h2

/-- what the recursion below one node of the tree yields (used for every node by structural
    recursion over the tree) -/
def NodeSound (top : Str) (imp sup : Bool) (lv : LV) : Prop :=
  ∀ (dcur : PV), Reduced dcur = true → DistinctPV dcur = true → LV.Sk (skelPV dcur) lv →
    ∀ (kp : KeyPath) (cur : PV) (w : Warning), w ∈ belowW top imp sup kp cur lv →
      ∃ d1 l1, dcur = .subkeys (some d1) ∧ cur = .subkeys (some l1) ∧ DiagAt top imp sup kp l1.keys d1.keys w

/-- one level: a tree `B` of the key map `dks`, every node of which is sound -/
theorem level_sound (top : Str) (imp sup : Bool) {dks rk : List (Str × PV)} {B : BKI} (hd : DistinctKs dks)
    (hrk : reduceKeys dks = .ok rk) (hsk : SkL (skelK rk) B) (hQ : ∀ e ∈ B, NodeSound top imp sup e.2)
    (path : KeyPath) (lks : List (Str × PV)) (w : Warning) (h : w ∈ localeW top imp sup path lks B) :
    DiagAt top imp sup path lks dks w := by
  have hkeys : B.map Prod.fst = dks.map Prod.fst := by
    rw [← SkL_keys _ _ hsk, skelK_keys, reduceKeys_keys dks rk hrk]
  have hndB : (B.map Prod.fst).Nodup := by rw [hkeys]; exact hd.1
  simp only [localeW, List.mem_append] at h
  rcases h with h | h
  · rcases keysW_char top imp sup path lks B w h with ⟨k, lv, hm, hg, hi, rfl⟩ | ⟨k, lv, v, cur, hm, hg, hr, hw⟩
    · refine DiagAt.missing ?_ (AMap.get?_eq_none_iff.mp hg) hi
      rw [← hkeys]; exact List.mem_map.mpr ⟨(k, lv), hm, rfl⟩
    · have hgB : AMap.get? k B = some lv := get?_of_mem_nodup hndB hm
      rcases reduceKeys_get k dks rk hrk with ⟨_, h2⟩ | ⟨dv, dcur, h1, h2, h3⟩
      · have hs : AMap.get? k (skelK rk) = none := by rw [skelK_get, h2]; rfl
        rcases SkL_get _ _ hsk k with ⟨_, hT⟩ | ⟨x, y, hx, _, _⟩
        · rw [hT] at hgB; cases hgB
        · rw [hs] at hx; cases hx
      · have hs : AMap.get? k (skelK rk) = some (skelPV dcur) := by rw [skelK_get, h3]; rfl
        rcases SkL_get _ _ hsk k with ⟨hx, _⟩ | ⟨x, y, hx, hT, hxy⟩
        · rw [hs] at hx; cases hx
        · rw [hs] at hx
          simp only [Option.some.injEq] at hx
          subst hx
          rw [hgB] at hT
          simp only [Option.some.injEq] at hT
          subst hT
          have hdist : DistinctPV dcur = true :=
            reduce_distinct dv dcur h2 (DistinctK_mem _ hd.2 (k, dv) (get?_mem h1))
          obtain ⟨d1, l1, rfl, rfl, hdiag⟩ :=
            hQ (k, lv) hm dcur (reduce_reduced dv dcur h2) hdist hxy (child path k) cur w hw
          exact DiagAt.inGroup h1 h2 hg hr hdiag
  · obtain ⟨hs, k, hk1, hk2, rfl⟩ := mem_surplusW.mp h
    exact DiagAt.surplus hk1 (by rw [← hkeys]; exact hk2) hs

mutual
theorem node_sound (top : Str) (imp sup : Bool) : ∀ lv : LV, NodeSound top imp sup lv
  | .value _ _ => by
    intro dcur _ _ _ kp cur w hw
    simp [belowW] at hw
  | .subkeys ls bkeys => by
    intro dcur hR hD hsk kp cur w hw
    have hQ := nodes_sound top imp sup bkeys
    cases cur with
    | subkeys o =>
      cases o with
      | none => simp [belowW] at hw
      | some l1 =>
        have hw' : w ∈ localeW top imp sup kp l1.keys bkeys := by simpa [belowW, localeW] using hw
        by_cases hg : ∃ d1, dcur = .subkeys (some d1)
        · obtain ⟨d1, rfl⟩ := hg
          rw [skelPV_group] at hsk
          simp only [LV.Sk] at hsk
          have hRK := reducedK_of_reduced_group hR rfl
          obtain ⟨rk2, hrk2⟩ := reduceKeys_ok_of_reduced d1.keys hRK
          have hd1 : DistinctKs d1.keys := by
            cases d1; simpa [DistinctPV, DistinctKs, Loc.keys] using hD
          exact ⟨d1, l1, rfl, rfl, level_sound top imp sup hd1 hrk2
            (SkL_trans _ _ _ (skel_rereduce _ _ hRK hrk2) hsk) hQ kp l1.keys w hw'⟩
        · rw [skelPV_leaf (fun l e => hg ⟨l, e⟩)] at hsk
          simp [LV.Sk] at hsk
    | _ => simp [belowW] at hw
theorem nodes_sound (top : Str) (imp sup : Bool) : ∀ (L : List (Str × LV)), ∀ e ∈ L, NodeSound top imp sup e.2
  | [], e, h => by simp at h
  | (k, lv) :: rest, e, h => by
    rcases List.mem_cons.mp h with rfl | h
    · exact node_sound top imp sup lv
    · exact nodes_sound top imp sup rest e h
end

/-- every specified diagnostic is contained in the list -/
theorem diag_complete (top : Str) (imp sup : Bool) : ∀ {path : KeyPath} {lks dks : List (Str × PV)} {w : Warning},
    DiagAt top imp sup path lks dks w → ∀ (rk : List (Str × PV)) (B : BKI), reduceKeys dks = .ok rk →
      SkL (skelK rk) B → w ∈ localeW top imp sup path lks B := by
  intro path lks dks w h
  induction h with
  | @missing path lks dks k hd hl hi =>
    intro rk B hrk hsk
    have hkeys : B.map Prod.fst = dks.map Prod.fst := by
      rw [← SkL_keys _ _ hsk, skelK_keys, reduceKeys_keys dks rk hrk]
    rw [← hkeys] at hd
    obtain ⟨⟨k', lv⟩, hm, rfl⟩ := List.mem_map.mp hd
    simp only [localeW, List.mem_append]
    exact Or.inl ((keysW_entry top imp sup path lks B k' lv hm).1 (AMap.get?_eq_none_iff.mpr hl) hi)
  | @surplus path lks dks k hl hd hs =>
    intro rk B hrk hsk
    have hkeys : B.map Prod.fst = dks.map Prod.fst := by
      rw [← SkL_keys _ _ hsk, skelK_keys, reduceKeys_keys dks rk hrk]
    simp only [localeW, List.mem_append]
    exact Or.inr (mem_surplusW.mpr ⟨hs, k, hl, by rw [hkeys]; exact hd, rfl⟩)
  | @inGroup path lks dks k dv v d1 l1 w hdv hdr hlv hlr _ ih =>
    intro rk B hrk hsk
    rcases reduceKeys_get k dks rk hrk with ⟨h1, _⟩ | ⟨dv', dcur, h1, h2, h3⟩
    · rw [h1] at hdv; cases hdv
    · rw [hdv] at h1
      simp only [Option.some.injEq] at h1
      subst h1
      rw [hdr] at h2
      simp only [Res.ok.injEq] at h2
      subst h2
      have hs : AMap.get? k (skelK rk) = some (skelPV (.subkeys (some d1))) := by rw [skelK_get, h3]; rfl
      rcases SkL_get _ _ hsk k with ⟨hx, _⟩ | ⟨x, lv, hx, hT, hxy⟩
      · rw [hs] at hx; cases hx
      · rw [hs] at hx
        simp only [Option.some.injEq] at hx
        subst hx
        rw [skelPV_group] at hxy
        cases lv with
        | value _ _ => simp [LV.Sk] at hxy
        | subkeys ls bkeys =>
          simp only [LV.Sk] at hxy
          have hRK := reducedK_of_reduced_group (reduce_reduced dv _ hdr) rfl
          obtain ⟨rk2, hrk2⟩ := reduceKeys_ok_of_reduced d1.keys hRK
          have hin := ih rk2 bkeys hrk2 (SkL_trans _ _ _ (skel_rereduce _ _ hRK hrk2) hxy)
          have hb : w ∈ belowW top imp sup (child path k) (.subkeys (some l1)) (.subkeys ls bkeys) := by
            simpa [belowW, localeW] using hin
          simp only [localeW, List.mem_append]
          exact Or.inl ((keysW_entry top imp sup path lks B k _ (get?_mem hT)).2 v _ w hlv hlr hb)

/-- **the diagnostics list of one locale, as a set** -/
theorem localeW_iff_diag (top : Str) (imp sup : Bool) {dks rk : List (Str × PV)} (hd : DistinctKs dks)
    (hrk : reduceKeys dks = .ok rk) (path : KeyPath) (lks : List (Str × PV)) (w : Warning) :
    w ∈ localeW top imp sup path lks (skelK rk) ↔ DiagAt top imp sup path lks dks w :=
  ⟨level_sound top imp sup hd hrk (SkL_refl _) (nodes_sound top imp sup _) path lks w,
   fun h => diag_complete top imp sup h rk _ hrk (SkL_refl _)⟩

/-- … of one namespace -/
theorem nsW_iff_diag (suppress : Bool) (inherits : List (Str × Str)) (ns : NS) (dl : Loc) (others : List Loc)
    (hloc : ns.locales = dl :: others) (hd : DistinctLoc dl = true) (rk : List (Str × PV))
    (hrk : reduceKeys dl.keys = .ok rk) (w : Warning) :
    w ∈ nsW suppress inherits ns ↔ NsDiag suppress inherits ns w := by
  have hdk : DistinctKs dl.keys := by
    simpa [DistinctLoc, DistinctKs] using hd
  simp only [nsW, hloc, keyTree, hrk, checkW, List.mem_flatMap, NsDiag]
  constructor
  · rintro ⟨l, hl, hw⟩
    exact ⟨dl, others, rfl, l, hl, (localeW_iff_diag _ _ _ hdk hrk _ _ _).mp hw⟩
  · rintro ⟨dl2, others2, e, l, hl, hw⟩
    simp only [List.cons.injEq] at e
    obtain ⟨rfl, rfl⟩ := e
    exact ⟨l, hl, (localeW_iff_diag _ _ _ hdk hrk _ _ _).mpr hw⟩

theorem diagAt_locale {top : Str} {imp sup : Bool} {path : KeyPath} {lks dks : List (Str × PV)} {w : Warning}
    (h : DiagAt top imp sup path lks dks w) : warnLocale w = top := by
  induction h with
  | missing => rfl
  | surplus => rfl
  | inGroup _ _ _ _ _ ih => exact ih

theorem diagAt_silenced {top : Str} {imp sup : Bool} {path : KeyPath} {lks dks : List (Str × PV)} {w : Warning}
    (h : DiagAt top imp sup path lks dks w) :
    (∀ l p, w = .missing l p → imp = true) ∧ (∀ l p, w = .surplus l p → sup = false) := by
  induction h with
  | missing _ _ hi => exact ⟨fun _ _ _ => hi, by intro l p e; cases e⟩
  | surplus _ _ hs => exact ⟨(by intro l p e; cases e), fun _ _ _ => hs⟩
  | inGroup _ _ _ _ _ ih => exact ih

/-! ### … and with key paths: `groupAt` -/

theorem groupAt_cons_some (ks : List (Str × PV)) (k : Str) (rest : List Str) (g : List (Str × PV)) :
    groupAt ks (k :: rest) = some g ↔ ∃ l, valueAt ks (k :: rest) = some (.subkeys (some l)) ∧ l.keys = g := by
  simp only [groupAt]
  cases hv : valueAt ks (k :: rest) with
  | none => simp
  | some x =>
    cases x with
    | subkeys o =>
      cases o with
      | none => simp
      | some l => simp
    | _ => simp

theorem groupAt_cons (ks : List (Str × PV)) (k : Str) (rest : List Str) (g : List (Str × PV)) :
    groupAt ks (k :: rest) = some g ↔
      ∃ v l1, AMap.get? k ks = some v ∧ reduce v = .ok (.subkeys (some l1)) ∧ groupAt l1.keys rest = some g := by
  rw [groupAt_cons_some]
  constructor
  · rintro ⟨l, hv, rfl⟩
    obtain ⟨cur, hc, hcv, x, hx⟩ := valueAt_some_curOf hv
    unfold CurOf at hc
    rw [hx] at hc
    simp only at hc
    cases rest with
    | nil =>
      simp only [curAt, Option.some.injEq] at hcv
      subst hcv
      exact ⟨x, l, hx, hc, rfl⟩
    | cons k2 r =>
      obtain ⟨l1, rfl, hvl⟩ := curAt_group_cons hcv
      exact ⟨x, l1, hx, hc, (groupAt_cons_some _ _ _ _).mpr ⟨l, hvl, rfl⟩⟩
  · rintro ⟨v, l1, hg, hr, h3⟩
    have hva : valueAt ks (k :: rest) = curAt (.subkeys (some l1)) rest := by
      rw [valueAt_cons, hg]; simp [hr]
    cases rest with
    | nil =>
      simp only [groupAt, Option.some.injEq] at h3
      exact ⟨l1, by rw [hva]; rfl, h3⟩
    | cons k2 r =>
      obtain ⟨l, hvl, hl⟩ := (groupAt_cons_some _ _ _ _).mp h3
      exact ⟨l, by rw [hva]; exact hvl, hl⟩

/-- the path form of a diagnostic of locale `top` at `path`, group path `q`, key `k` -/
def DiagPath (top : Str) (imp sup : Bool) (path : KeyPath) (lks dks : List (Str × PV)) (w : Warning) : Prop :=
  ∃ q k gd gl, groupAt dks q = some gd ∧ groupAt lks q = some gl ∧
    ((w = .missing top ⟨path.ns, path.path ++ q ++ [k]⟩ ∧ imp = true ∧ k ∈ gd.map Prod.fst ∧ k ∉ gl.map Prod.fst) ∨
     (w = .surplus top ⟨path.ns, path.path ++ q ++ [k]⟩ ∧ sup = false ∧ k ∈ gl.map Prod.fst ∧ k ∉ gd.map Prod.fst))

theorem diagAt_iff_path (top : Str) (imp sup : Bool) (path : KeyPath) (lks dks : List (Str × PV)) (w : Warning) :
    DiagAt top imp sup path lks dks w ↔ DiagPath top imp sup path lks dks w := by
  constructor
  · intro h
    induction h with
    | @missing path lks dks k hd hl hi =>
      exact ⟨[], k, dks, lks, rfl, rfl, Or.inl ⟨by simp [child], hi, hd, hl⟩⟩
    | @surplus path lks dks k hl hd hs =>
      exact ⟨[], k, dks, lks, rfl, rfl, Or.inr ⟨by simp [child], hs, hl, hd⟩⟩
    | @inGroup path lks dks k dv v d1 l1 w hdv hdr hlv hlr _ ih =>
      obtain ⟨q, k', gd, gl, h1, h2, hw⟩ := ih
      refine ⟨k :: q, k', gd, gl, (groupAt_cons _ _ _ _).mpr ⟨dv, d1, hdv, hdr, h1⟩,
        (groupAt_cons _ _ _ _).mpr ⟨v, l1, hlv, hlr, h2⟩, ?_⟩
      simpa [child, List.append_assoc] using hw
  · rintro ⟨q, k, gd, gl, h1, h2, hw⟩
    induction q generalizing path lks dks with
    | nil =>
      simp only [groupAt, Option.some.injEq] at h1 h2
      subst h1; subst h2
      rcases hw with ⟨rfl, hi, a, b⟩ | ⟨rfl, hs, a, b⟩
      · have : (⟨path.ns, path.path ++ [] ++ [k]⟩ : KeyPath) = child path k := by simp [child]
        rw [this]; exact DiagAt.missing a b hi
      · have : (⟨path.ns, path.path ++ [] ++ [k]⟩ : KeyPath) = child path k := by simp [child]
        rw [this]; exact DiagAt.surplus a b hs
    | cons k1 q ih =>
      obtain ⟨dv, d1, a1, a2, a3⟩ := (groupAt_cons _ _ _ _).mp h1
      obtain ⟨v, l1, b1, b2, b3⟩ := (groupAt_cons _ _ _ _).mp h2
      refine DiagAt.inGroup a1 a2 b1 b2 (ih (child path k1) l1.keys d1.keys a3 b3 ?_)
      simpa [child, List.append_assoc] using hw

end I18nVerif.PipeDiag
