import I18nVerif.Spec.PipelineInv
/-!
Key trees and worlds: `TreeK`/`TreeV` algebra, `locGet`/`locSet`, `getValueAt`/`setValueAt`
(helper lemmas for the whole-pipeline no-panic theorem, C09).
-/
namespace I18nVerif.PipeInv
open I18nVerif World

/-! ### equations of `locGet` / `locSet` -/
theorem locGet_nil (keys : List (Str × PV)) : locGet keys [] = .ok none := by simp [locGet]
theorem locGet_one (keys : List (Str × PV)) (k : Str) : locGet keys [k] = .ok (AMap.get? k keys) := by
  simp [locGet]
theorem locGet_cons2 (keys : List (Str × PV)) (k k2 : Str) (rest : List Str) :
    locGet keys (k :: k2 :: rest) =
      match AMap.get? k keys with
      | none => .ok none
      | some (.subkeys (some l)) => locGet l.keys (k2 :: rest)
      | some (.subkeys none) => .panic "get_value_at: empty subkeys"
      | some _ => .ok none := by
  rw [locGet]
  · rfl
  · simp

theorem locSet_nil (keys : List (Str × PV)) (v : PV) : locSet keys [] v = keys := by simp [locSet]
theorem locSet_one (keys : List (Str × PV)) (k : Str) (v : PV) :
    locSet keys [k] v = keys.map (fun (k', v') => if k' == k then (k', v) else (k', v')) := by
  simp [locSet]
theorem locSet_cons2 (keys : List (Str × PV)) (k k2 : Str) (rest : List Str) (v : PV) :
    locSet keys (k :: k2 :: rest) v =
      keys.map (fun (k', v') =>
        if k' == k then
          match v' with
          | .subkeys (some (.mk n t ks s c)) => (k', .subkeys (some (.mk n t (locSet ks (k2 :: rest) v) s c)))
          | other => (k', other)
        else (k', v')) := by
  rw [locSet]
  · rfl
  · simp

/-! ### `TreeV` / `TreeK` -/
theorem treeV_leaf {P : List Str → PV → Prop} {here : List Str} {v : PV} (h : isGroup v = false) :
    TreeV P here v ↔ P here v := by
  cases v <;> simp_all [TreeV, isGroup]

theorem treeV_group {P : List Str → PV → Prop} {here : List Str} {n t : Str} {ks : List (Str × PV)}
    {s : List Str} {c : Nat} : TreeV P here (.subkeys (some (.mk n t ks s c))) ↔ TreeK P here ks := by
  simp [TreeV]

theorem treeV_cases {P : List Str → PV → Prop} {here : List Str} {v : PV} (h : TreeV P here v) :
    (isGroup v = false ∧ P here v) ∨ (∃ n t ks s c, v = .subkeys (some (.mk n t ks s c)) ∧ TreeK P here ks) := by
  cases v with
  | subkeys o =>
    cases o with
    | none => simp [TreeV] at h
    | some l => obtain ⟨n, t, ks, s, c⟩ := l; exact .inr ⟨n, t, ks, s, c, rfl, by simpa [TreeV] using h⟩
  | _ => exact .inl ⟨rfl, by simpa [TreeV] using h⟩

theorem treeK_iff_mem {P : List Str → PV → Prop} {pre : List Str} :
    ∀ {keys : List (Str × PV)}, TreeK P pre keys ↔ ∀ kv ∈ keys, TreeV P (pre ++ [kv.1]) kv.2
  | [] => by simp [TreeK]
  | (k, v) :: rest => by
    simp only [TreeK, List.mem_cons, forall_eq_or_imp]
    rw [treeK_iff_mem (keys := rest)]

mutual
theorem treeV_mono {P Q : List Str → PV → Prop} : ∀ (v : PV) (here : List Str),
    (∀ ext x, P (here ++ ext) x → Q (here ++ ext) x) → TreeV P here v → TreeV Q here v
  | .subkeys (some (.mk _ _ ks _ _)), here, hm, h => by
    simp only [TreeV] at h ⊢
    exact treeK_mono ks here (fun k ext x hp => hm (k :: ext) x hp) h
  | .subkeys none, _, _, h => by simp [TreeV] at h
  | .dflt, here, hm, h => by simp only [TreeV] at h ⊢; simpa using hm [] _ (by simpa using h)
  | .fk _, here, hm, h => by simp only [TreeV] at h ⊢; simpa using hm [] _ (by simpa using h)
  | .ranges _ _ _, here, hm, h => by simp only [TreeV] at h ⊢; simpa using hm [] _ (by simpa using h)
  | .lit _, here, hm, h => by simp only [TreeV] at h ⊢; simpa using hm [] _ (by simpa using h)
  | .var _ _, here, hm, h => by simp only [TreeV] at h ⊢; simpa using hm [] _ (by simpa using h)
  | .comp _ _, here, hm, h => by simp only [TreeV] at h ⊢; simpa using hm [] _ (by simpa using h)
  | .bloc _, here, hm, h => by simp only [TreeV] at h ⊢; simpa using hm [] _ (by simpa using h)
  | .plurals _ _ _ _, here, hm, h => by simp only [TreeV] at h ⊢; simpa using hm [] _ (by simpa using h)
theorem treeK_mono {P Q : List Str → PV → Prop} : ∀ (keys : List (Str × PV)) (pre : List Str),
    (∀ k ext x, P (pre ++ k :: ext) x → Q (pre ++ k :: ext) x) → TreeK P pre keys → TreeK Q pre keys
  | [], _, _, _ => by simp [TreeK]
  | (k, v) :: rest, pre, hm, h => by
    simp only [TreeK] at h ⊢
    refine ⟨treeV_mono v (pre ++ [k]) (fun ext x hp => ?_) h.1, treeK_mono rest pre hm h.2⟩
    have := hm k ext x (by simpa using hp)
    simpa using this
end

mutual
theorem treeV_and {P Q : List Str → PV → Prop} : ∀ (v : PV) (here : List Str),
    TreeV P here v → TreeV Q here v → TreeV (fun q x => P q x ∧ Q q x) here v
  | .subkeys (some (.mk _ _ ks _ _)), here, h1, h2 => by
    simp only [TreeV] at h1 h2 ⊢
    exact treeK_and ks here h1 h2
  | .subkeys none, _, h, _ => by simp [TreeV] at h
  | .dflt, _, h1, h2 => by simp only [TreeV] at h1 h2 ⊢; exact ⟨h1, h2⟩
  | .fk _, _, h1, h2 => by simp only [TreeV] at h1 h2 ⊢; exact ⟨h1, h2⟩
  | .ranges _ _ _, _, h1, h2 => by simp only [TreeV] at h1 h2 ⊢; exact ⟨h1, h2⟩
  | .lit _, _, h1, h2 => by simp only [TreeV] at h1 h2 ⊢; exact ⟨h1, h2⟩
  | .var _ _, _, h1, h2 => by simp only [TreeV] at h1 h2 ⊢; exact ⟨h1, h2⟩
  | .comp _ _, _, h1, h2 => by simp only [TreeV] at h1 h2 ⊢; exact ⟨h1, h2⟩
  | .bloc _, _, h1, h2 => by simp only [TreeV] at h1 h2 ⊢; exact ⟨h1, h2⟩
  | .plurals _ _ _ _, _, h1, h2 => by simp only [TreeV] at h1 h2 ⊢; exact ⟨h1, h2⟩
theorem treeK_and {P Q : List Str → PV → Prop} : ∀ (keys : List (Str × PV)) (pre : List Str),
    TreeK P pre keys → TreeK Q pre keys → TreeK (fun q x => P q x ∧ Q q x) pre keys
  | [], _, _, _ => by simp [TreeK]
  | (k, v) :: rest, pre, h1, h2 => by
    simp only [TreeK] at h1 h2 ⊢
    exact ⟨treeV_and v (pre ++ [k]) h1.1 h2.1, treeK_and rest pre h1.2 h2.2⟩
end

/-! ### association lists -/
theorem get?_mem' {α : Type} {k : Str} {v : α} : ∀ {m : List (Str × α)}, AMap.get? k m = some v → (k, v) ∈ m
  | [], h => by simp [AMap.get?] at h
  | (k', v') :: rest, h => by
    simp only [AMap.get?] at h
    split at h
    · rename_i hk
      have : k' = k := by simpa using hk
      simp only [Option.some.injEq] at h
      subst this; subst h; exact List.mem_cons_self
    · exact List.mem_cons_of_mem _ (get?_mem' h)

theorem get?_none_ne {α : Type} {k : Str} : ∀ {m : List (Str × α)}, AMap.get? k m = none → ∀ kv ∈ m, kv.1 ≠ k
  | [], _, kv, hkv => by simp at hkv
  | (k', v') :: rest, h, kv, hkv => by
    simp only [AMap.get?] at h
    split at h
    · simp at h
    · rename_i hk
      rcases List.mem_cons.mp hkv with rfl | hm
      · simpa using hk
      · exact get?_none_ne h kv hm

theorem strLt_irrefl' : ∀ a : Str, AMap.strLt a a = false
  | [] => rfl
  | c :: cs => by simp [AMap.strLt, strLt_irrefl' cs]

theorem get?_of_mem_sorted' {α : Type} : ∀ {m : List (Str × α)}, Sorted m → ∀ kv ∈ m, AMap.get? kv.1 m = some kv.2
  | [], _, kv, hkv => by simp at hkv
  | (k', v') :: rest, hs, kv, hkv => by
    unfold Sorted at hs
    rw [List.pairwise_cons] at hs
    rcases List.mem_cons.mp hkv with rfl | hm
    · simp [AMap.get?]
    · have hlt := hs.1 kv hm
      have hne : (k' == kv.1) = false := by
        cases hb : k' == kv.1
        · rfl
        · have : k' = kv.1 := by simpa using hb
          rw [this, strLt_irrefl'] at hlt; cases hlt
      simp only [AMap.get?, hne]
      exact get?_of_mem_sorted' hs.2 kv hm

theorem get?_mapv {α : Type} (g : Str → α → α) (k : Str) : ∀ (m : List (Str × α)),
    AMap.get? k (m.map (fun kv => (kv.1, g kv.1 kv.2))) = (AMap.get? k m).map (g k)
  | [] => rfl
  | (k', v') :: rest => by
    simp only [List.map, AMap.get?]
    split
    · rename_i hk
      have : k' = k := by simpa using hk
      subst this; rfl
    · exact get?_mapv g k rest

theorem sortedK_iff_mem : ∀ {keys : List (Str × PV)}, SortedK keys ↔ ∀ kv ∈ keys, SortedV kv.2
  | [] => by simp [SortedK]
  | (k, v) :: rest => by
    simp only [SortedK, List.mem_cons, forall_eq_or_imp]
    rw [sortedK_iff_mem (keys := rest)]

/-! ### `locSet` as a map over the entries -/
/-- apply `f` to the keys of a group, leave anything else alone -/
def descend (f : List (Str × PV) → List (Str × PV)) : PV → PV
  | .subkeys (some (.mk n t ks s c)) => .subkeys (some (.mk n t (f ks) s c))
  | other => other

theorem descend_leaf {f : List (Str × PV) → List (Str × PV)} {x : PV} (h : isGroup x = false) : descend f x = x := by
  cases x <;> simp_all [descend, isGroup]

def setG (k : Str) (v : PV) : Str → PV → PV := fun k' x => if k' == k then v else x
def descG (k : Str) (f : List (Str × PV) → List (Str × PV)) : Str → PV → PV :=
  fun k' x => if k' == k then descend f x else x

theorem locSet_one' (keys : List (Str × PV)) (k : Str) (v : PV) :
    locSet keys [k] v = keys.map (fun kv => (kv.1, setG k v kv.1 kv.2)) := by
  rw [locSet_one]
  apply List.map_congr_left
  intro ⟨k', x⟩ _
  by_cases hk : (k' == k) = true <;> simp [hk, setG]

theorem locSet_cons2' (keys : List (Str × PV)) (k k2 : Str) (rest : List Str) (v : PV) :
    locSet keys (k :: k2 :: rest) v =
      keys.map (fun kv => (kv.1, descG k (fun ks => locSet ks (k2 :: rest) v) kv.1 kv.2)) := by
  rw [locSet_cons2]
  apply List.map_congr_left
  intro ⟨k', x⟩ _
  by_cases hk : (k' == k) = true
  · simp only [hk, if_true, descG]
    cases x with
    | subkeys o =>
      cases o with
      | none => rfl
      | some l => obtain ⟨n, t, ks, s, c⟩ := l; rfl
    | _ => rfl
  · simp [hk, descG]

/-! ### `TreeK` and `locGet` / `locSet` -/
theorem treeK_entry {P : List Str → PV → Prop} {pre : List Str} {keys : List (Str × PV)} {k : Str} {v : PV}
    (h : TreeK P pre keys) (hg : AMap.get? k keys = some v) : TreeV P (pre ++ [k]) v :=
  treeK_iff_mem.mp h (k, v) (get?_mem' hg)

theorem treeK_get {P : List Str → PV → Prop} : ∀ (q : List Str) (keys : List (Str × PV)) (pre : List Str) (v : PV),
    TreeK P pre keys → locGet keys q = .ok (some v) → TreeV P (pre ++ q) v
  | [], keys, pre, v, _, h => by simp [locGet_nil] at h
  | [k], keys, pre, v, hP, h => by
    rw [locGet_one] at h
    simp only [Res.ok.injEq] at h
    exact treeK_entry hP h
  | k :: k2 :: rest, keys, pre, v, hP, h => by
    rw [locGet_cons2] at h
    split at h
    · simp at h
    · rename_i l hg
      have h1 := treeK_entry hP hg
      obtain ⟨n, t, ks, s, c⟩ := l
      rw [treeV_group] at h1
      have := treeK_get (k2 :: rest) ks (pre ++ [k]) v h1 h
      simpa using this
    · simp at h
    · simp at h

theorem treeK_locGet_np {P : List Str → PV → Prop} : ∀ (q : List Str) (keys : List (Str × PV)) (pre : List Str) (s : String),
    TreeK P pre keys → locGet keys q ≠ .panic s
  | [], keys, pre, s, _ => by simp [locGet_nil]
  | [k], keys, pre, s, _ => by simp [locGet_one]
  | k :: k2 :: rest, keys, pre, s, hP => by
    rw [locGet_cons2]
    split
    · simp
    · rename_i l hg
      have h1 := treeK_entry hP hg
      obtain ⟨n, t, ks, s', c⟩ := l
      rw [treeV_group] at h1
      exact treeK_locGet_np (k2 :: rest) ks (pre ++ [k]) s h1
    · rename_i hg
      have h1 := treeK_entry hP hg
      simp [TreeV] at h1
    · simp

theorem append_singleton_ne {pre : List Str} {k' k : Str} {ext rest : List Str} (hk : k' ≠ k) :
    pre ++ [k'] ++ ext ≠ pre ++ k :: rest := by
  intro e
  rw [List.append_assoc] at e
  have := List.append_cancel_left e
  simp at this
  exact hk this.1

theorem treeK_locSet {P Q : List Str → PV → Prop} : ∀ (path : List Str) (keys : List (Str × PV)) (pre : List Str) (v' : PV),
    path ≠ [] → TreeK P pre keys → TreeV Q (pre ++ path) v' →
    (∀ q x, P q x → q ≠ pre ++ path → Q q x) → TreeK Q pre (locSet keys path v')
  | [], _, _, _, hne, _, _, _ => absurd rfl hne
  | [k], keys, pre, v', _, hP, hv, hm => by
    rw [locSet_one', treeK_iff_mem]
    intro kv hkv
    rw [List.mem_map] at hkv
    obtain ⟨⟨k', x⟩, hmem, rfl⟩ := hkv
    have hx := treeK_iff_mem.mp hP (k', x) hmem
    by_cases hk : (k' == k) = true
    · have : k' = k := by simpa using hk
      subst this
      simpa [setG] using hv
    · have hne : k' ≠ k := by simpa using hk
      simp only [setG, hk]
      exact treeV_mono x _ (fun ext y hp => hm _ y hp (append_singleton_ne hne)) hx
  | k :: k2 :: rest, keys, pre, v', _, hP, hv, hm => by
    rw [locSet_cons2', treeK_iff_mem]
    intro kv hkv
    rw [List.mem_map] at hkv
    obtain ⟨⟨k', x⟩, hmem, rfl⟩ := hkv
    have hx := treeK_iff_mem.mp hP (k', x) hmem
    by_cases hk : (k' == k) = true
    · have : k' = k := by simpa using hk
      subst this
      simp only [descG, beq_self_eq_true, if_true]
      rcases treeV_cases hx with ⟨hleaf, hp⟩ | ⟨n, t, ks, s, c, rfl, hks⟩
      · rw [descend_leaf hleaf, treeV_leaf hleaf]
        refine hm _ x hp ?_
        intro e
        have := List.append_cancel_left e
        simp at this
      · simp only [descend, treeV_group]
        refine treeK_locSet (k2 :: rest) ks (pre ++ [k']) v' (by simp) hks (by simpa using hv) ?_
        intro q y hp hq
        exact hm q y hp (by simpa using hq)
    · have hne : k' ≠ k := by simpa using hk
      simp only [descG, hk]
      exact treeV_mono x _ (fun ext y hp => hm _ y hp (append_singleton_ne hne)) hx

/-- a stored value is replaced by itself (a group) or a leaf by a leaf: whatever was found is still found -/
theorem locGet_locSet_found {P : List Str → PV → Prop} : ∀ (path : List Str) (keys : List (Str × PV)) (pre : List Str) (v v' : PV),
    TreeK P pre keys → locGet keys path = .ok (some v) → (isGroup v = true → v' = v) →
    ∀ (q : List Str) (x : PV), locGet keys q = .ok (some x) → ∃ x', locGet (locSet keys path v') q = .ok (some x')
  | [], keys, pre, v, v', _, h, _ => by simp [locGet_nil] at h
  | [k0], keys, pre, v, v', hP, h, hg => by
    rw [locGet_one] at h
    simp only [Res.ok.injEq] at h
    intro q x hq
    rw [locSet_one']
    match q, hq with
    | [], hq => simp [locGet_nil] at hq
    | [k], hq =>
      rw [locGet_one] at hq ⊢
      simp only [Res.ok.injEq] at hq
      rw [get?_mapv (setG k0 v'), hq]
      exact ⟨_, rfl⟩
    | k :: k2 :: r, hq =>
      rw [locGet_cons2] at hq ⊢
      rw [get?_mapv (setG k0 v')]
      split at hq
      · simp at hq
      · rename_i l hgk
        rw [hgk]
        by_cases hk : (k == k0) = true
        · have : k = k0 := by simpa using hk
          subst this
          rw [hgk] at h
          simp only [Option.some.injEq] at h
          subst h
          have := hg rfl
          subst this
          simp only [Option.map_some, setG, beq_self_eq_true, if_true]
          exact ⟨x, hq⟩
        · simp only [Option.map_some, setG, hk]
          exact ⟨x, hq⟩
      · simp at hq
      · simp at hq
  | k0 :: k02 :: r0, keys, pre, v, v', hP, h, hg => by
    rw [locGet_cons2] at h
    intro q x hq
    rw [locSet_cons2']
    split at h
    · simp at h
    · rename_i l0 hg0
      have h1 := treeK_entry hP hg0
      obtain ⟨n0, t0, ks0, s0, c0⟩ := l0
      rw [treeV_group] at h1
      have ih := locGet_locSet_found (k02 :: r0) ks0 (pre ++ [k0]) v v' h1 h hg
      match q, hq with
      | [], hq => simp [locGet_nil] at hq
      | [k], hq =>
        rw [locGet_one] at hq ⊢
        simp only [Res.ok.injEq] at hq
        rw [get?_mapv (descG k0 _), hq]
        exact ⟨_, rfl⟩
      | k :: k2 :: r, hq =>
        rw [locGet_cons2] at hq ⊢
        rw [get?_mapv (descG k0 _)]
        split at hq
        · simp at hq
        · rename_i l hgk
          rw [hgk]
          by_cases hk : (k == k0) = true
          · have : k = k0 := by simpa using hk
            subst this
            rw [hgk] at hg0
            simp only [Option.some.injEq, PV.subkeys.injEq] at hg0
            subst hg0
            simp only [Option.map_some, descG, beq_self_eq_true, if_true, descend]
            exact ih (k2 :: r) x hq
          · simp only [Option.map_some, descG, hk]
            exact ⟨x, hq⟩
        · simp at hq
        · simp at hq
    · simp at h
    · simp at h

/-! ### sortedness is kept by `locSet` -/
theorem sorted_mapv {g : Str → PV → PV} {keys : List (Str × PV)} (h : Sorted keys) :
    Sorted (keys.map (fun kv => (kv.1, g kv.1 kv.2))) := by
  unfold Sorted at h ⊢
  rw [List.pairwise_map]
  exact h

theorem sortedTree_locSet : ∀ (path : List Str) (keys : List (Str × PV)) (v' : PV),
    SortedTree keys → SortedV v' → SortedTree (locSet keys path v')
  | [], keys, v', h, _ => by rw [locSet_nil]; exact h
  | [k], keys, v', h, hv => by
    rw [locSet_one']
    refine ⟨sorted_mapv h.1, sortedK_iff_mem.mpr ?_⟩
    intro kv hkv
    rw [List.mem_map] at hkv
    obtain ⟨⟨k', x⟩, hmem, rfl⟩ := hkv
    have hx := sortedK_iff_mem.mp h.2 (k', x) hmem
    by_cases hk : (k' == k) = true
    · simpa [setG, hk] using hv
    · simpa [setG, hk] using hx
  | k :: k2 :: rest, keys, v', h, hv => by
    rw [locSet_cons2']
    refine ⟨sorted_mapv h.1, sortedK_iff_mem.mpr ?_⟩
    intro kv hkv
    rw [List.mem_map] at hkv
    obtain ⟨⟨k', x⟩, hmem, rfl⟩ := hkv
    have hx := sortedK_iff_mem.mp h.2 (k', x) hmem
    by_cases hk : (k' == k) = true
    · simp only [descG, hk, if_true]
      cases x with
      | subkeys o =>
        cases o with
        | none => simpa [descend] using hx
        | some l =>
          obtain ⟨n, t, ks, s, c⟩ := l
          simp only [SortedV] at hx
          simp only [descend, SortedV]
          exact sortedTree_locSet (k2 :: rest) ks v' hx hv
      | _ => simpa [descend] using hx
    · simpa [descG, hk] using hx

/-! ### nothing stored at a path: no leaf of the tree has that path -/
theorem treeK_not_found {P : List Str → PV → Prop} : ∀ (path : List Str) (keys : List (Str × PV)) (pre : List Str),
    SortedTree keys → TreeK P pre keys → locGet keys path = .ok none → path ≠ [] →
    TreeK (fun q x => P q x ∧ q ≠ pre ++ path) pre keys
  | [], _, _, _, _, _, hne => absurd rfl hne
  | [k], keys, pre, _, hP, h, _ => by
    rw [locGet_one] at h
    simp only [Res.ok.injEq] at h
    rw [treeK_iff_mem]
    intro kv hkv
    have hne := get?_none_ne h kv hkv
    exact treeV_mono kv.2 _ (fun ext y hp => ⟨hp, append_singleton_ne hne⟩) (treeK_iff_mem.mp hP kv hkv)
  | k :: k2 :: rest, keys, pre, hs, hP, h, _ => by
    rw [locGet_cons2] at h
    rw [treeK_iff_mem]
    intro kv hkv
    have hx := treeK_iff_mem.mp hP kv hkv
    by_cases hk : kv.1 = k
    · have hg := get?_of_mem_sorted' hs.1 kv hkv
      rw [hk] at hg
      rw [hg] at h
      rcases treeV_cases hx with ⟨hleaf, hp⟩ | ⟨n, t, ks, s, c, hv, hks⟩
      · rw [treeV_leaf hleaf]
        refine ⟨hp, ?_⟩
        rw [hk]
        intro e
        have := List.append_cancel_left e
        simp at this
      · rw [hv] at h ⊢
        simp only [Loc.keys] at h
        rw [treeV_group]
        have hsk : SortedTree ks := by
          have := sortedK_iff_mem.mp hs.2 kv hkv
          rw [hv] at this
          simpa [SortedV, SortedTree] using this
        have := treeK_not_found (k2 :: rest) ks (pre ++ [kv.1]) hsk hks h (by simp)
        rw [hk] at this ⊢
        simpa using this
    · exact treeV_mono kv.2 _ (fun ext y hp => ⟨hp, append_singleton_ne hk⟩) hx

/-! ### worlds: `getValueAt` -/
theorem find?_of_pairwise {α β : Type} [BEq β] [LawfulBEq β] (f : α → β) : ∀ (l : List α) (x : α),
    (l.map f).Pairwise (· ≠ ·) → x ∈ l → l.find? (fun y => f y == f x) = some x
  | [], x, _, hx => by simp at hx
  | hd :: tl, x, hp, hx => by
    simp only [List.map, List.pairwise_cons] at hp
    rcases List.mem_cons.mp hx with rfl | hm
    · simp [List.find?]
    · have hne : (f hd == f x) = false := by
        cases hb : f hd == f x
        · rfl
        · have : f hd = f x := by simpa using hb
          exact absurd this (hp.1 (f x) (List.mem_map_of_mem hm))
      simp only [List.find?, hne]
      exact find?_of_pairwise f tl x hp.2 hm

/-- in a well-formed world a lookup is `locGet` in the locale with that name of the namespace with that name -/
theorem getValueAt_mem {w : World} (hw : WorldWF w) {ns : NS} {l : Loc} (hns : ns ∈ w.nss) (hl : l ∈ ns.locales)
    (q : List Str) : w.getValueAt l.name ⟨ns.key, q⟩ = locGet l.keys q := by
  have hfl : ns.locales.find? (fun l' => l'.name == l.name) = some l :=
    find?_of_pairwise Loc.name ns.locales l (hw.locDistinct ns hns) hl
  cases hn : w.namespaced with
  | true =>
    have hk := hw.nsSome hn ns hns
    cases hkey : ns.key with
    | none => rw [hkey] at hk; simp at hk
    | some t =>
      have hfn : w.nss.find? (fun ns' => ns'.key == some t) = some ns := by
        have := find?_of_pairwise NS.key w.nss ns hw.nsDistinct hns
        rw [hkey] at this; exact this
      simp only [getValueAt, hn, hfn, hfl]
  | false =>
    obtain ⟨locs, hnss⟩ := hw.nsNone hn
    rw [hnss] at hns
    simp only [List.mem_singleton] at hns
    subst hns
    simp only [getValueAt, hn, hnss, hfl]

theorem getValueAt_cases {w : World} (hw : WorldWF w) (top : Str) (p : KeyPath) :
    w.getValueAt top p = .ok none ∨
    ∃ ns ∈ w.nss, ∃ l ∈ ns.locales, ns.key = p.ns ∧ l.name = top ∧ w.getValueAt top p = locGet l.keys p.path := by
  obtain ⟨pns, ppath⟩ := p
  cases hn : w.namespaced with
  | true =>
    cases pns with
    | none => left; simp [getValueAt, hn]
    | some t =>
      cases hfn : w.nss.find? (fun ns' => ns'.key == some t) with
      | none => left; simp [getValueAt, hn, hfn]
      | some ns =>
        cases hfl : ns.locales.find? (fun l' => l'.name == top) with
        | none => left; simp [getValueAt, hn, hfn, hfl]
        | some l =>
          right
          have h1 := List.find?_some hfn
          have h2 := List.find?_some hfl
          refine ⟨ns, List.mem_of_find?_eq_some hfn, l, List.mem_of_find?_eq_some hfl, by simpa using h1, by simpa using h2, ?_⟩
          simp [getValueAt, hn, hfn, hfl]
  | false =>
    cases pns with
    | some t => left; simp [getValueAt, hn]
    | none =>
      obtain ⟨locs, hnss⟩ := hw.nsNone hn
      cases hfl : locs.find? (fun l' => l'.name == top) with
      | none => left; simp [getValueAt, hn, hnss, hfl]
      | some l =>
        right
        have h2 := List.find?_some hfl
        refine ⟨⟨none, locs⟩, by simp [hnss], l, List.mem_of_find?_eq_some hfl, rfl, by simpa using h2, ?_⟩
        simp [getValueAt, hn, hnss, hfl]

/-! ### worlds: `setValueAt` -/
def setLoc (top : Str) (path : List Str) (v : PV) (l : Loc) : Loc :=
  if l.name == top then l.setKeys (locSet l.keys path v) else l
def setNs (top : Str) (p : KeyPath) (v : PV) (ns : NS) : NS :=
  if ns.key == p.ns then { ns with locales := ns.locales.map (setLoc top p.path v) } else ns

theorem setValueAt_eq (w : World) (top : Str) (p : KeyPath) (v : PV) :
    w.setValueAt top p v = { w with nss := w.nss.map (setNs top p v) } := rfl

theorem setLoc_name (top : Str) (path : List Str) (v : PV) (l : Loc) : (setLoc top path v l).name = l.name := by
  unfold setLoc
  split
  · obtain ⟨n, t, ks, s, c⟩ := l; rfl
  · rfl

theorem setLoc_keys (top : Str) (path : List Str) (v : PV) (l : Loc) :
    (setLoc top path v l).keys = if l.name = top then locSet l.keys path v else l.keys := by
  unfold setLoc
  by_cases h : l.name = top
  · simp only [h, beq_self_eq_true, if_true]
    obtain ⟨n, t, ks, s, c⟩ := l; rfl
  · have : (l.name == top) = false := by simpa using h
    simp [this, h]

theorem setNs_key (top : Str) (p : KeyPath) (v : PV) (ns : NS) : (setNs top p v ns).key = ns.key := by
  unfold setNs; split <;> rfl

theorem setNs_locales (top : Str) (p : KeyPath) (v : PV) (ns : NS) :
    (setNs top p v ns).locales = if ns.key = p.ns then ns.locales.map (setLoc top p.path v) else ns.locales := by
  unfold setNs
  by_cases h : ns.key = p.ns
  · simp [h]
  · have : (ns.key == p.ns) = false := by simpa using h
    simp [this, h]

theorem setNs_names (top : Str) (p : KeyPath) (v : PV) (ns : NS) :
    (setNs top p v ns).locales.map Loc.name = ns.locales.map Loc.name := by
  rw [setNs_locales]
  split
  · rw [List.map_map]
    apply List.map_congr_left
    intro l _
    exact setLoc_name _ _ _ l
  · rfl

theorem setValueAt_wf {w : World} (hw : WorldWF w) (top : Str) (p : KeyPath) (v : PV) :
    WorldWF (w.setValueAt top p v) := by
  rw [setValueAt_eq]
  have hkeys : (w.nss.map (setNs top p v)).map NS.key = w.nss.map NS.key := by
    rw [List.map_map]; apply List.map_congr_left; intro ns _; exact setNs_key _ _ _ ns
  constructor
  · intro hn ns' hns'
    simp only [List.mem_map] at hns'
    obtain ⟨ns, hns, rfl⟩ := hns'
    rw [setNs_key]; exact hw.nsSome hn ns hns
  · intro hn
    obtain ⟨locs, hnss⟩ := hw.nsNone hn
    simp only [hnss, List.map]
    refine ⟨(setNs top p v ⟨none, locs⟩).locales, ?_⟩
    have := setNs_key top p v ⟨none, locs⟩
    cases hh : setNs top p v ⟨none, locs⟩ with
    | mk k ls => rw [hh] at this; simp at this; subst this; rfl
  · simp only [hkeys]; exact hw.nsDistinct
  · intro ns' hns'
    simp only [List.mem_map] at hns'
    obtain ⟨ns, hns, rfl⟩ := hns'
    rw [setNs_names]; exact hw.locDistinct ns hns
  · intro ns' hns'
    simp only [List.mem_map] at hns'
    obtain ⟨ns, hns, rfl⟩ := hns'
    have h1 := hw.nonempty ns hns
    have h2 := setNs_names top p v ns
    intro e
    rw [e] at h2
    simp at h2
    exact h1 h2

/-- every locale of the updated world is the image of a locale of the old one -/
theorem setValueAt_mem_inv {w : World} {top : Str} {p : KeyPath} {v : PV} {ns' : NS} {l' : Loc}
    (hns' : ns' ∈ (w.setValueAt top p v).nss) (hl' : l' ∈ ns'.locales) :
    ∃ ns ∈ w.nss, ∃ l ∈ ns.locales, ns'.key = ns.key ∧ l'.name = l.name ∧
      l'.keys = if ns.key = p.ns ∧ l.name = top then locSet l.keys p.path v else l.keys := by
  rw [setValueAt_eq] at hns'
  simp only [List.mem_map] at hns'
  obtain ⟨ns, hns, rfl⟩ := hns'
  rw [setNs_locales] at hl'
  by_cases hk : ns.key = p.ns
  · simp only [hk, if_true, List.mem_map] at hl'
    obtain ⟨l, hl, rfl⟩ := hl'
    refine ⟨ns, hns, l, hl, setNs_key _ _ _ _, setLoc_name _ _ _ _, ?_⟩
    rw [setLoc_keys]
    simp [hk]
  · simp only [hk, if_false] at hl'
    refine ⟨ns, hns, l', hl', setNs_key _ _ _ _, rfl, ?_⟩
    simp [hk]

/-- … and every locale of the old world has its image in the updated one -/
theorem setValueAt_mem {w : World} (top : Str) (p : KeyPath) (v : PV) {ns : NS} {l : Loc}
    (hns : ns ∈ w.nss) (hl : l ∈ ns.locales) :
    ∃ ns' ∈ (w.setValueAt top p v).nss, ∃ l' ∈ ns'.locales, ns'.key = ns.key ∧ l'.name = l.name ∧
      l'.keys = if ns.key = p.ns ∧ l.name = top then locSet l.keys p.path v else l.keys := by
  refine ⟨setNs top p v ns, ?_, ?_⟩
  · rw [setValueAt_eq]; exact List.mem_map_of_mem hns
  · rw [setNs_locales]
    by_cases hk : ns.key = p.ns
    · rw [if_pos hk]
      refine ⟨setLoc top p.path v l, List.mem_map_of_mem hl, setNs_key _ _ _ _, setLoc_name _ _ _ _, ?_⟩
      rw [setLoc_keys]; simp [hk]
    · rw [if_neg hk]
      refine ⟨l, hl, setNs_key _ _ _ _, rfl, ?_⟩
      simp [hk]

end I18nVerif.PipeInv
