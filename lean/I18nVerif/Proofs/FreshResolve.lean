import I18nVerif.Proofs.FreshDecode
import I18nVerif.Proofs.Plurals
/-!
`merge_plurals` and foreign-key resolution keep every value fresh (`FreshS`): they only move
values around (`populate` substitutes argument values for variables, selects branches / forms).
-/
namespace I18nVerif.Check
open I18nVerif Foreign

theorem FreshSK_get {ks : List (Str × PV)} (h : FreshSK ks = true) {k : Str} {v : PV}
    (hg : AMap.get? k ks = some v) : FreshS v = true :=
  (FreshSK_iff ks).mp h (k, v) (get?_mem hg)

/-! ### `populate` -/

mutual
theorem populate_fresh (orc : Oracle) (locale : Str) (args : List (Str × PV)) (ha : FreshSK args = true) :
    ∀ (v v' : PV), populate orc locale args v = .ok v' → FreshS v = true → FreshS v' = true
  | .dflt, v', h, _ => by simp [populate] at h; subst h; rfl
  | .lit l, v', h, hf => by simp [populate] at h; subst h; exact hf
  | .fk (.set inner), v', h, hf => by
    simp only [populate] at h
    simp only [FreshS] at hf
    exact populate_fresh orc locale args ha inner v' h hf
  | .fk (.notSet p a), v', h, hf => by simp [populate] at h; subst h; exact hf
  | .var key f, v', h, _ => by
    simp only [populate] at h
    split at h
    · rename_i v hg
      simp only [Res.ok.injEq] at h; subst h
      exact FreshSK_get ha hg
    · simp only [Res.ok.injEq] at h; subst h; rfl
  | .comp key inner, v', h, hf => by
    simp only [populate] at h
    simp only [FreshS] at hf
    split at h
    · rename_i i hi
      simp only [Res.ok.injEq] at h; subst h
      simp only [FreshS]
      exact populate_fresh orc locale args ha inner i hi hf
    · simp at h
    · simp at h
  | .bloc items, v', h, hf => by
    simp only [populate] at h
    simp only [FreshS] at hf
    split at h
    · rename_i l hl
      simp only [Res.ok.injEq] at h; subst h
      simp only [FreshS]
      exact populateL_fresh orc locale args ha items l hl hf
    · simp at h
    · simp at h
  | .subkeys _, v', h, _ => by simp [populate] at h
  | .ranges ck t bs, v', h, hf => by
    simp only [populate] at h
    simp only [FreshS] at hf
    have hB : ∀ k bs', populateB orc locale args bs = .ok bs' → FreshS (.ranges k t bs') = true := by
      intro k bs' hb
      simp only [FreshS]
      exact populateB_fresh orc locale args ha bs bs' hb hf
    split at h
    · split at h
      · rename_i bs' hb
        simp only [Res.ok.injEq] at h; subst h; exact hB _ _ hb
      · simp at h
      · simp at h
    · split at h
      · split at h
        · simp at h
        · simp at h
        · simp at h
        · exact findValue_fresh orc locale args ha _ bs v' h hf
      · split at h
        · simp at h
        · simp at h
        · split at h
          · rename_i bs' hb
            simp only [Res.ok.injEq] at h; subst h; exact hB _ _ hb
          · simp at h
          · simp at h
      · split at h
        · rename_i bs' hb
          simp only [Res.ok.injEq] at h; subst h; exact hB _ _ hb
        · simp at h
        · simp at h
      · simp at h
  | .plurals rule ck other forms, v', h, hf => by
    simp only [populate] at h
    simp only [FreshS, Bool.and_eq_true] at hf
    have hW : ∀ k v', (match populate orc locale args other, populateF orc locale args forms with
        | .ok o, .ok fs => Res.ok (PV.plurals rule k o fs)
        | .panic p, _ => .panic p
        | _, .panic p => .panic p
        | .err e, _ => .err e
        | _, .err e => .err e) = .ok v' → FreshS v' = true := by
      intro k v' hw
      split at hw <;> try (simp at hw; done)
      rename_i o fs ho hfs
      simp only [Res.ok.injEq] at hw; subst hw
      simp only [FreshS, Bool.and_eq_true]
      exact ⟨populate_fresh orc locale args ha other o ho hf.1, populateF_fresh orc locale args ha forms fs hfs hf.2⟩
    split at h
    · exact hW _ _ h
    · split at h
      · simp at h
      · simp at h
      · split at h
        · simp at h
        · split at h
          · simp at h
          · exact populate_fresh orc locale args ha other v' h hf.1
          · split at h
            · rename_i r hr
              subst h
              exact selectForm_fresh orc locale args ha _ forms v' hr hf.2
            · exact populate_fresh orc locale args ha other v' h hf.1
      · split at h
        · exact hW _ _ h
        · simp at h
        · simp at h
      · exact hW _ _ h
      · simp at h

theorem selectForm_fresh (orc : Oracle) (locale : Str) (args : List (Str × PV)) (ha : FreshSK args = true) (f : Form) :
    ∀ (forms : List (Form × PV)) (v' : PV), selectForm orc locale args f forms = some (.ok v') →
      FreshSF forms = true → FreshS v' = true
  | [], v', h, _ => by simp [selectForm] at h
  | (f', v) :: rest, v', h, hf => by
    simp only [selectForm] at h
    simp only [FreshSF, Bool.and_eq_true] at hf
    split at h
    · simp only [Option.some.injEq] at h
      exact populate_fresh orc locale args ha v v' h hf.1
    · exact selectForm_fresh orc locale args ha f rest v' h hf.2

theorem findValue_fresh (orc : Oracle) (locale : Str) (args : List (Str × PV)) (ha : FreshSK args = true) (c : Dec) :
    ∀ (bs : List (Range × PV)) (v' : PV), findValue orc locale args c bs = .ok v' →
      FreshSB bs = true → FreshS v' = true
  | [], v', h, _ => by simp [findValue] at h
  | (r, v) :: rest, v', h, hf => by
    simp only [findValue] at h
    simp only [FreshSB, Bool.and_eq_true] at hf
    split at h
    · exact populate_fresh orc locale args ha v v' h hf.1
    · exact findValue_fresh orc locale args ha c rest v' h hf.2

theorem populateL_fresh (orc : Oracle) (locale : Str) (args : List (Str × PV)) (ha : FreshSK args = true) :
    ∀ (l l' : List PV), populateL orc locale args l = .ok l' → FreshSL l = true → FreshSL l' = true
  | [], l', h, _ => by simp [populateL] at h; subst h; rfl
  | x :: xs, l', h, hf => by
    simp only [populateL] at h
    simp only [FreshSL, Bool.and_eq_true] at hf
    split at h <;> try (simp at h; done)
    rename_i x' hx
    split at h <;> try (simp at h; done)
    rename_i xs' hxs
    simp only [Res.ok.injEq] at h; subst h
    simp only [FreshSL, Bool.and_eq_true]
    exact ⟨populate_fresh orc locale args ha x x' hx hf.1, populateL_fresh orc locale args ha xs xs' hxs hf.2⟩

theorem populateB_fresh (orc : Oracle) (locale : Str) (args : List (Str × PV)) (ha : FreshSK args = true) :
    ∀ (l l' : List (Range × PV)), populateB orc locale args l = .ok l' → FreshSB l = true → FreshSB l' = true
  | [], l', h, _ => by simp [populateB] at h; subst h; rfl
  | (r, x) :: xs, l', h, hf => by
    simp only [populateB] at h
    simp only [FreshSB, Bool.and_eq_true] at hf
    split at h <;> try (simp at h; done)
    rename_i x' hx
    split at h <;> try (simp at h; done)
    rename_i xs' hxs
    simp only [Res.ok.injEq] at h; subst h
    simp only [FreshSB, Bool.and_eq_true]
    exact ⟨populate_fresh orc locale args ha x x' hx hf.1, populateB_fresh orc locale args ha xs xs' hxs hf.2⟩

theorem populateF_fresh (orc : Oracle) (locale : Str) (args : List (Str × PV)) (ha : FreshSK args = true) :
    ∀ (l l' : List (Form × PV)), populateF orc locale args l = .ok l' → FreshSF l = true → FreshSF l' = true
  | [], l', h, _ => by simp [populateF] at h; subst h; rfl
  | (r, x) :: xs, l', h, hf => by
    simp only [populateF] at h
    simp only [FreshSF, Bool.and_eq_true] at hf
    split at h <;> try (simp at h; done)
    rename_i x' hx
    split at h <;> try (simp at h; done)
    rename_i xs' hxs
    simp only [Res.ok.injEq] at h; subst h
    simp only [FreshSF, Bool.and_eq_true]
    exact ⟨populate_fresh orc locale args ha x x' hx hf.1, populateF_fresh orc locale args ha xs xs' hxs hf.2⟩
end

/-! ### lookups in a fresh world -/

def WorldFresh (nss : List NS) : Prop := ∀ ns ∈ nss, ∀ l ∈ ns.locales, FreshSK l.keys = true

theorem locGet_fresh : ∀ (p : List Str) (keys : List (Str × PV)) (v : PV),
    World.locGet keys p = .ok (some v) → FreshSK keys = true → FreshS v = true
  | [], keys, v, h, _ => by rw [World.locGet] at h; simp at h
  | [k], keys, v, h, hk => by
    rw [World.locGet] at h
    simp only [Res.ok.injEq] at h
    exact FreshSK_get hk h
  | k :: k2 :: rest, keys, v, h, hk => by
    rw [World.locGet] at h
    · split at h
      · simp at h
      · rename_i l hg
        exact locGet_fresh (k2 :: rest) l.keys v h (FreshS_subkeys (FreshSK_get hk hg))
      · simp at h
      · simp at h
    · simp

theorem getValueAt_fresh (w : World) (top : Str) (p : KeyPath) (v : PV)
    (h : w.getValueAt top p = .ok (some v)) (hw : WorldFresh w.nss) : FreshS v = true := by
  unfold World.getValueAt at h
  split at h
  · simp at h
  · simp at h
  · split at h
    · rename_i ns rest hn
      split at h
      · rename_i l hl
        exact locGet_fresh _ _ _ h (hw ns (by rw [hn]; simp) l (List.mem_of_find?_eq_some hl))
      · simp at h
    · simp at h
  · split at h
    · simp at h
    · rename_i ns hn
      split at h
      · rename_i l hl
        exact locGet_fresh _ _ _ h (hw ns (List.mem_of_find?_eq_some hn) l (List.mem_of_find?_eq_some hl))
      · simp at h

/-! ### `resolve_foreign_key` -/

/-- the fallback walk only reads the world: what it returns is the value stored at `(src, target)` -/
theorem findDefining_stored (w : World) (fb : Fallbacks) : ∀ (fuel : Nat) (vis : List Str) (cur : Str) (t : KeyPath)
    (src : Str) (v : PV), findDefining w fb fuel vis cur t = .ok (src, v) →
      w.getValueAt src t = .ok (some v) ∧ v ≠ .dflt
  | 0, vis, cur, t, src, v, h => by simp [findDefining] at h
  | fuel + 1, vis, cur, t, src, v, h => by
    rw [findDefining] at h
    split at h
    · simp at h
    · simp at h
    · split at h
      · simp at h
      · exact findDefining_stored w fb fuel _ _ t src v h
    · rename_i v0 hne hval
      simp only [Res.ok.injEq, Prod.mk.injEq] at h
      obtain ⟨rfl, rfl⟩ := h
      exact ⟨hval, fun e => hne e⟩
    · split at h
      · simp at h
      · exact findDefining_stored w fb fuel _ _ t src v h

def ResFresh (orc : Oracle) (w : World) (dflt : Fallbacks) (fuel : Nat) : Prop :=
  (∀ vis phys top pv v, resolvePV orc w dflt fuel vis phys top pv = .ok v → FreshS pv = true → FreshS v = true) ∧
  (∀ vis phys top target args v, resolveNode orc w dflt fuel vis phys top target args = .ok v →
    FreshSK args = true → FreshS v = true) ∧
  (∀ vis phys top l l', resolveL orc w dflt fuel vis phys top l = .ok l' → FreshSL l = true → FreshSL l' = true) ∧
  (∀ vis phys top l l', resolveB orc w dflt fuel vis phys top l = .ok l' → FreshSB l = true → FreshSB l' = true) ∧
  (∀ vis phys top l l', resolveF orc w dflt fuel vis phys top l = .ok l' → FreshSF l = true → FreshSF l' = true) ∧
  (∀ vis phys top l l', resolveArgs orc w dflt fuel vis phys top l = .ok l' → FreshSK l = true → FreshSK l' = true)

theorem resolve_fresh (orc : Oracle) (w : World) (dflt : Fallbacks) (hw : WorldFresh w.nss) :
    ∀ fuel, ResFresh orc w dflt fuel := by
  intro fuel
  induction fuel with
  | zero =>
    refine ⟨?_, ?_, ?_, ?_, ?_, ?_⟩
    · intro vis phys top pv v h; simp [resolvePV] at h
    · intro vis phys top target args v h; simp [resolveNode] at h
    · intro vis phys top l l' h; simp [resolveL] at h
    · intro vis phys top l l' h; simp [resolveB] at h
    · intro vis phys top l l' h; simp [resolveF] at h
    · intro vis phys top l l' h; simp [resolveArgs] at h
  | succ fuel ih =>
    obtain ⟨iPV, iNode, iL, iB, iF, iA⟩ := ih
    refine ⟨?_, ?_, ?_, ?_, ?_, ?_⟩
    · intro vis phys top pv v h hf
      cases pv with
      | var k f => simp [resolvePV] at h; subst h; rfl
      | lit l => simp [resolvePV] at h; subst h; exact hf
      | dflt => simp [resolvePV] at h; subst h; rfl
      | subkeys l => simp [resolvePV] at h; subst h; exact hf
      | fk f =>
        cases f with
        | set inner => simp [resolvePV] at h; subst h; exact hf
        | notSet target args =>
          simp only [resolvePV] at h
          simp only [FreshS] at hf
          exact iNode _ _ _ _ _ _ h hf
      | comp k inner =>
        simp only [resolvePV] at h
        simp only [FreshS] at hf
        split at h <;> try (simp at h; done)
        rename_i i hi
        simp only [Res.ok.injEq] at h; subst h
        simp only [FreshS]; exact iPV _ _ _ _ _ hi hf
      | bloc items =>
        simp only [resolvePV] at h
        simp only [FreshS] at hf
        split at h <;> try (simp at h; done)
        rename_i l hl
        simp only [Res.ok.injEq] at h; subst h
        simp only [FreshS]; exact iL _ _ _ _ _ hl hf
      | ranges ck t bs =>
        simp only [resolvePV] at h
        simp only [FreshS] at hf
        split at h <;> try (simp at h; done)
        rename_i l hl
        simp only [Res.ok.injEq] at h; subst h
        simp only [FreshS]; exact iB _ _ _ _ _ hl hf
      | plurals r ck other forms =>
        simp only [resolvePV] at h
        simp only [FreshS, Bool.and_eq_true] at hf
        split at h <;> try (simp at h; done)
        rename_i fs hfs
        split at h <;> try (simp at h; done)
        rename_i o ho
        simp only [Res.ok.injEq] at h; subst h
        simp only [FreshS, Bool.and_eq_true]
        exact ⟨iPV _ _ _ _ _ ho hf.1, iF _ _ _ _ _ hfs hf.2⟩
    · intro vis phys top target args v h ha
      simp only [resolveNode] at h
      split at h
      · simp at h
      · simp at h
      · rename_i src value hfd
        have hval := (findDefining_stored w dflt _ _ _ _ _ _ hfd).1
        split at h
        · simp at h
        · split at h <;> try (simp at h; done)
          rename_i value' hv'
          split at h <;> try (simp at h; done)
          rename_i args' ha'
          split at h <;> try (simp at h; done)
          rename_i pv hp
          simp only [Res.ok.injEq] at h; subst h
          simp only [FreshS]
          have h1 := iPV _ _ _ _ _ hv' (getValueAt_fresh w _ _ _ hval hw)
          have h2 := iA _ _ _ _ _ ha' ha
          exact populate_fresh orc _ _ h2 _ _ hp h1
    · intro vis phys top l l' h hf
      cases l with
      | nil => simp [resolveL] at h; subst h; rfl
      | cons x xs =>
        simp only [resolveL] at h
        simp only [FreshSL, Bool.and_eq_true] at hf
        split at h <;> try (simp at h; done)
        rename_i x' hx
        split at h <;> try (simp at h; done)
        rename_i xs' hxs
        simp only [Res.ok.injEq] at h; subst h
        simp only [FreshSL, Bool.and_eq_true]
        exact ⟨iPV _ _ _ _ _ hx hf.1, iL _ _ _ _ _ hxs hf.2⟩
    · intro vis phys top l l' h hf
      cases l with
      | nil => simp [resolveB] at h; subst h; rfl
      | cons x xs =>
        obtain ⟨r, x⟩ := x
        simp only [resolveB] at h
        simp only [FreshSB, Bool.and_eq_true] at hf
        split at h <;> try (simp at h; done)
        rename_i x' hx
        split at h <;> try (simp at h; done)
        rename_i xs' hxs
        simp only [Res.ok.injEq] at h; subst h
        simp only [FreshSB, Bool.and_eq_true]
        exact ⟨iPV _ _ _ _ _ hx hf.1, iB _ _ _ _ _ hxs hf.2⟩
    · intro vis phys top l l' h hf
      cases l with
      | nil => simp [resolveF] at h; subst h; rfl
      | cons x xs =>
        obtain ⟨r, x⟩ := x
        simp only [resolveF] at h
        simp only [FreshSF, Bool.and_eq_true] at hf
        split at h <;> try (simp at h; done)
        rename_i x' hx
        split at h <;> try (simp at h; done)
        rename_i xs' hxs
        simp only [Res.ok.injEq] at h; subst h
        simp only [FreshSF, Bool.and_eq_true]
        exact ⟨iPV _ _ _ _ _ hx hf.1, iF _ _ _ _ _ hxs hf.2⟩
    · intro vis phys top l l' h hf
      cases l with
      | nil => simp [resolveArgs] at h; subst h; rfl
      | cons x xs =>
        obtain ⟨r, x⟩ := x
        simp only [resolveArgs] at h
        simp only [FreshSK, Bool.and_eq_true] at hf
        split at h <;> try (simp at h; done)
        rename_i x' hx
        split at h <;> try (simp at h; done)
        rename_i xs' hxs
        simp only [Res.ok.injEq] at h; subst h
        simp only [FreshSK, Bool.and_eq_true]
        exact ⟨iPV _ _ _ _ _ hx hf.1, iA _ _ _ _ _ hxs hf.2⟩

/-! ### storing the resolved value back; `resolve_foreign_keys` -/

theorem locSet_fresh : ∀ (p : List Str) (keys : List (Str × PV)) (v : PV),
    FreshSK keys = true → FreshS v = true → FreshSK (World.locSet keys p v) = true
  | [], keys, v, hk, _ => by rw [World.locSet]; exact hk
  | [k], keys, v, hk, hv => by
    rw [World.locSet]
    rw [FreshSK_iff] at hk ⊢
    intro kv hm
    simp only [List.mem_map] at hm
    obtain ⟨⟨k', v'⟩, hm', rfl⟩ := hm
    simp only
    split
    · exact hv
    · exact hk _ hm'
  | k :: k2 :: rest, keys, v, hk, hv => by
    rw [World.locSet]
    · rw [FreshSK_iff] at hk ⊢
      intro kv hm
      simp only [List.mem_map] at hm
      obtain ⟨⟨k', v'⟩, hm', rfl⟩ := hm
      have hv' := hk _ hm'
      simp only at hv' ⊢
      split
      · split
        · rename_i n t ks s c
          simp only [FreshS] at hv' ⊢
          exact locSet_fresh (k2 :: rest) ks v hv' hv
        · exact hv'
      · exact hv'
    · simp

theorem setValueAt_fresh (w : World) (top : Str) (p : KeyPath) (v : PV) (hw : WorldFresh w.nss)
    (hv : FreshS v = true) : WorldFresh (w.setValueAt top p v).nss := by
  intro ns hn l hl
  simp only [World.setValueAt, List.mem_map] at hn
  obtain ⟨ns0, h0, rfl⟩ := hn
  split at hl
  · simp only [List.mem_map] at hl
    obtain ⟨l0, hl0, rfl⟩ := hl
    have := hw ns0 h0 l0 hl0
    split
    · simp only [Loc.setKeys, Loc.keys]
      exact locSet_fresh _ _ _ this hv
    · exact this
  · exact hw ns0 h0 l hl

theorem resolveAt_fresh (orc : Oracle) (dflt : Fallbacks) (fuel : Nat) (locale : Str) (p : KeyPath) (w w' : World) (b : Bool)
    (h : resolveAt orc dflt fuel locale p w = .ok (w', b)) (hw : WorldFresh w.nss) : WorldFresh w'.nss := by
  unfold resolveAt at h
  split at h
  · simp at h
  · simp at h
  · simp only [Res.ok.injEq, Prod.mk.injEq] at h; rw [← h.1]; exact hw
  · rename_i v hv
    split at h
    · simp at h
    · simp at h
    · rename_i v' hr
      simp only [Res.ok.injEq, Prod.mk.injEq] at h
      rw [← h.1]
      exact setValueAt_fresh w _ _ _ hw
        ((resolve_fresh orc w dflt hw fuel).1 _ _ _ _ _ hr (getValueAt_fresh w _ _ _ hv hw))

theorem resolveAll_fresh (orc : Oracle) (dflt : Fallbacks) (fuel : Nat) :
    ∀ (paths : List (Str × KeyPath)) (w w' : World), resolveAll orc dflt fuel paths w = .ok w' →
      WorldFresh w.nss → WorldFresh w'.nss
  | [], w, w', h, hw => by simp [resolveAll] at h; rw [← h]; exact hw
  | (locale, p) :: rest, w, w', h, hw => by
    simp only [resolveAll] at h
    split at h
    · simp at h
    · simp at h
    · rename_i w1 f1 h1
      have ok1 := resolveAt_fresh _ _ _ _ _ _ _ _ h1 hw
      split at h
      · simp at h
      · simp at h
      · rename_i w2 f2 h2
        have ok2 : WorldFresh w2.nss := by
          split at h2
          · simp only [Res.ok.injEq, Prod.mk.injEq] at h2; rw [← h2.1]; exact ok1
          · exact resolveAt_fresh _ _ _ _ _ _ _ _ h2 ok1
        split at h
        · exact resolveAll_fresh orc dflt fuel rest w2 w' h ok2
        · simp at h

/-! ### `merge_plurals` -/

section plurals
open Plurals

def CandsFresh (cs : Cands) : Prop := ∀ e ∈ cs, FreshS e.2.2.2 = true
def GroupsFresh (gs : List (Str × Cands)) : Prop := ∀ g ∈ gs, CandsFresh g.2

theorem candInsert_mem (f : Form) (e : Str × RuleTy × PV) : ∀ (cs : Cands) (x : Form × Str × RuleTy × PV),
    x ∈ (candInsert f e cs).1 → x = (f, e) ∨ x ∈ cs
  | [], x, h => by simp [candInsert] at h; exact Or.inl h
  | (f', e') :: rest, x, h => by
    simp only [candInsert] at h
    split at h
    · simp only [List.mem_cons] at h
      rcases h with h | h
      · exact Or.inl h
      · exact Or.inr (by simp [h])
    · split at h
      · simp only [List.mem_cons] at h
        rcases h with h | h | h
        · exact Or.inl h
        · exact Or.inr (by simp [h])
        · exact Or.inr (by simp [h])
      · simp only [List.mem_cons] at h
        rcases h with h | h
        · exact Or.inr (by simp [h])
        · rcases candInsert_mem f e rest x h with h | h
          · exact Or.inl h
          · exact Or.inr (by simp [h])

theorem FreshSF_iff (l : List (Form × PV)) : FreshSF l = true ↔ ∀ e ∈ l, FreshS e.2 = true := by
  induction l with
  | nil => simp [FreshSF]
  | cons e rest ih => obtain ⟨k, v⟩ := e; simp [FreshSF, ih]

theorem putBack_fresh : ∀ (cs : Cands) (keys : List (Str × PV)), CandsFresh cs → FreshSK keys = true →
    FreshSK (putBack keys cs) = true
  | [], keys, _, hk => hk
  | c :: cs, keys, hc, hk => by
    simp only [putBack, List.foldl_cons]
    exact putBack_fresh cs _ (fun e he => hc e (by simp [he])) (FreshSK_insert' hk (hc c (by simp)))

theorem finishGroups_fresh (orc : Oracle) (locale : Str) (path : KeyPath) :
    ∀ (groups : List (Str × Cands)) (keys : List (Str × PV)) (ws : List Warning) keys' ws',
      finishGroups orc locale path groups keys ws = .ok (keys', ws') →
      GroupsFresh groups → FreshSK keys = true → FreshSK keys' = true
  | [], keys, ws, keys', ws', h, _, hk => by
    simp only [finishGroups, Res.ok.injEq, Prod.mk.injEq] at h
    rw [← h.1]; exact hk
  | (base, cands) :: rest, keys, ws, keys', ws', h, hg, hk => by
    have hc : CandsFresh cands := hg (base, cands) (by simp)
    have hrest : GroupsFresh rest := fun g hm => hg g (by simp [hm])
    have hpb := putBack_fresh cands keys hc hk
    by_cases hl : cands.length = 1
    · rw [finish_single _ _ _ _ _ _ _ _ hl] at h
      exact finishGroups_fresh orc locale path rest _ ws keys' ws' h hrest hpb
    · cases hf : cands.find? (fun x => x.1 == .other) with
      | none =>
        rw [finish_no_other _ _ _ _ _ _ _ _ hf] at h
        exact finishGroups_fresh orc locale path rest _ ws keys' ws' h hrest hpb
      | some x =>
        obtain ⟨fo, ko, ruleTy, other⟩ := x
        rw [finish_merge _ _ _ _ _ _ _ _ fo ko ruleTy other hl hf] at h
        split at h
        · simp at h
        · rename_i key _
          split at h
          · simp at h
          · split at h
            · simp at h
            · simp at h
            · split at h
              · simp at h
              · refine finishGroups_fresh orc locale path rest _ _ keys' ws' h hrest ?_
                refine FreshSK_insert' hk ?_
                simp only [FreshS, Bool.and_eq_true]
                refine ⟨hc _ (List.mem_of_find?_eq_some hf), ?_⟩
                rw [FreshSF_iff]
                intro e he
                simp only [formsOf, othersOf, List.mem_map, List.mem_filter] at he
                obtain ⟨x, ⟨hx, _⟩, rfl⟩ := he
                exact hc x hx

theorem loop_fresh (orc : Oracle) (locale : Str) (fuel : Nat)
    (ih : ∀ path l l' w, mergePlurals orc locale fuel path l = .ok (l', w) → FreshSK l.keys = true → FreshSK l'.keys = true)
    (path : KeyPath) :
    ∀ (l acc : List (Str × PV)) (groups : List (Str × Cands)) (ws : List Warning) acc' groups' ws',
      mergePlurals.loop orc locale fuel path l acc groups ws = .ok (acc', groups', ws') →
      FreshSK l = true → FreshSK acc = true → GroupsFresh groups →
      FreshSK acc' = true ∧ GroupsFresh groups'
  | [], acc, groups, ws, acc', groups', ws', h, _, ha, hg => by
    rw [loop_nil] at h
    simp only [Res.ok.injEq, Prod.mk.injEq] at h
    rw [← h.1, ← h.2.1]; exact ⟨ha, hg⟩
  | (k, v) :: rest, acc, groups, ws, acc', groups', ws', h, hl, ha, hg => by
    simp only [FreshSK, Bool.and_eq_true] at hl
    by_cases hsub : ∃ sub, v = .subkeys (some sub)
    · obtain ⟨sub, rfl⟩ := hsub
      rw [loop_subkeys] at h
      split at h
      · rename_i sub' w hs
        have := ih _ _ _ _ hs (FreshS_subkeys hl.1)
        refine loop_fresh orc locale fuel ih path rest _ groups _ acc' groups' ws' h hl.2 (FreshSK_insert' ha ?_) hg
        cases sub'
        simpa [FreshS, Loc.keys] using this
      · simp at h
      · simp at h
    · have hv : ∀ sub, v ≠ .subkeys (some sub) := fun sub e => hsub ⟨sub, e⟩
      cases hp : isPossiblePlural k v with
      | none =>
        rw [loop_ordinary _ _ _ _ _ _ _ _ _ _ hv hp] at h
        exact loop_fresh orc locale fuel ih path rest _ groups _ acc' groups' ws' h hl.2 (FreshSK_insert' ha hl.1) hg
      | some r =>
        obtain ⟨b, rule, form⟩ := r
        rw [loop_candidate _ _ _ _ _ _ _ _ _ _ _ _ _ hp] at h
        split at h
        · simp at h
        · refine loop_fresh orc locale fuel ih path rest acc _ _ acc' groups' ws' h hl.2 ha ?_
          intro g hm
          rcases AMap.mem_of_mem_insert' _ _ hm with rfl | hm
          · intro e he
            rcases candInsert_mem _ _ _ e he with rfl | he
            · exact hl.1
            · cases hget : AMap.get? b groups with
              | none => rw [hget] at he; simp at he
              | some cs => rw [hget] at he; exact hg (b, cs) (get?_mem hget) e he
          · exact hg g hm

theorem mergePlurals_fresh (orc : Oracle) (locale : Str) : ∀ (fuel : Nat) (path : KeyPath) (l l' : Loc) (w : List Warning),
    mergePlurals orc locale fuel path l = .ok (l', w) → FreshSK l.keys = true → FreshSK l'.keys = true := by
  intro fuel
  induction fuel with
  | zero => intro path l l' w h; simp [mergePlurals] at h
  | succ fuel ih =>
    intro path l l' w h hf
    obtain ⟨n, t, keys, s, c⟩ := l
    rw [mergePlurals_succ] at h
    split at h
    · simp at h
    · simp at h
    · rename_i acc groups ws hloop
      obtain ⟨h1, h2⟩ := loop_fresh orc locale fuel ih path keys [] [] [] _ _ _ hloop hf rfl
        (by intro g hg; simp at hg)
      split at h
      · rename_i keys' ws' hfin
        simp only [Res.ok.injEq, Prod.mk.injEq] at h
        rw [← h.1]
        exact finishGroups_fresh orc locale path groups acc ws keys' ws' hfin h2 h1
      · simp at h
      · simp at h

end plurals

/-! ### the stages before `check_locales` -/

section stages
open Pipeline

theorem mergePluralsNs_fresh (orc : Oracle) (ns : Option Str) : ∀ (ls : List Loc) (ws : List Warning) ls' ws',
    mergePluralsNs orc ns ls ws = .ok (ls', ws') → (∀ l ∈ ls, FreshSK l.keys = true) → ∀ l ∈ ls', FreshSK l.keys = true
  | [], ws, ls', ws', h, _, l, hl => by simp [mergePluralsNs] at h; rw [h.1] at hl; simp at hl
  | x :: xs, ws, ls', ws', h, hf, l, hl => by
    simp only [mergePluralsNs] at h
    split at h
    · simp at h
    · simp at h
    · rename_i x' w hx
      split at h
      · rename_i ls1 ws1 hr
        simp only [Res.ok.injEq, Prod.mk.injEq] at h
        rw [← h.1] at hl
        rcases List.mem_cons.mp hl with rfl | hl
        · exact mergePlurals_fresh _ _ _ _ _ _ _ hx (hf x (by simp))
        · exact mergePluralsNs_fresh orc ns xs _ _ _ hr (fun y hy => hf y (by simp [hy])) l hl
      · simp at h
      · simp at h

theorem mergePluralsAll_fresh (orc : Oracle) : ∀ (nss : List NS) (ws : List Warning) nss' ws',
    mergePluralsAll orc nss ws = .ok (nss', ws') → WorldFresh nss → WorldFresh nss'
  | [], ws, nss', ws', h, _ => by
    simp [mergePluralsAll] at h; rw [h.1]; intro ns hn; simp at hn
  | n :: rest, ws, nss', ws', h, hok => by
    simp only [mergePluralsAll] at h
    split at h
    · simp at h
    · simp at h
    · rename_i locs ws1 hl
      split at h
      · rename_i nss1 ws2 hr
        simp only [Res.ok.injEq, Prod.mk.injEq] at h
        rw [← h.1]
        intro ns hn
        rcases List.mem_cons.mp hn with rfl | hn
        · exact mergePluralsNs_fresh _ _ _ _ _ _ hl (hok n (by simp))
        · exact mergePluralsAll_fresh orc rest ws1 nss1 ws2 hr (fun x hx => hok x (by simp [hx])) ns hn
      · simp at h
      · simp at h

/-- **every value that reaches `check_locales` is fresh** -/
theorem resolved_fresh (inp : Input) (w : World) (ws : List Warning) (h : Pipeline.resolved inp = .ok (w, ws)) :
    WorldFresh w.nss := by
  unfold Pipeline.resolved at h
  split at h
  · simp at h
  · simp at h
  · rename_i w0 paths hp
    split at h
    · simp at h
    · simp at h
    · rename_i nss1 ws1 hm
      simp only at h
      split at h
      · simp at h
      · simp at h
      · rename_i w2 hr
        simp only [Res.ok.injEq, Prod.mk.injEq] at h
        rw [← h.1]
        refine resolveAll_fresh _ _ _ _ _ _ hr ?_
        exact mergePluralsAll_fresh _ _ _ _ _ hm (parseRaw_fresh inp w0 paths hp)

end stages

end I18nVerif.Check
