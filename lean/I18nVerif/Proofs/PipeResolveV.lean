import I18nVerif.Spec.PipelineInv
import I18nVerif.Proofs.Foreign
/-!
Value-level facts about `Foreign.populate` and `Foreign.resolvePV` & co. used by the whole-pipeline
no-panic theorem: flatness (no group of subkeys inside a leaf) is preserved, the only panics are the
model's fuel and the oracle gap, groups are returned unchanged and leaves stay leaves.
-/
namespace I18nVerif.PipeInv
open I18nVerif
open Foreign
set_option linter.unusedSectionVars false

/-- lookups in the world never panic -/
def WorldNP (w : World) : Prop := ∀ top t s, w.getValueAt top t ≠ .panic s
/-- every stored value is a group of subkeys or `Flat` -/
def WorldFlat (w : World) : Prop :=
  ∀ top t v, w.getValueAt top t = .ok (some v) → isGroup v = true ∨ Flat v = true

/-! ### `populate` preserves `Flat` -/

theorem FlatK_get {args : List (Str × PV)} {k a} (h : FlatK args = true)
    (hg : AMap.get? k args = some a) : Flat a = true := by
  induction args with
  | nil => simp [AMap.get?] at hg
  | cons x xs ih =>
    obtain ⟨k', v⟩ := x
    simp only [FlatK, Bool.and_eq_true] at h
    simp only [AMap.get?] at hg
    split at hg
    · simp only [Option.some.injEq] at hg; subst hg; exact h.1
    · exact ih h.2 hg

section
variable (orc : Oracle) (locale : Str) (args : List (Str × PV)) (hA : FlatK args = true)
include hA

mutual
theorem populate_flat' : ∀ (v v' : PV), Flat v = true →
    populate orc locale args v = .ok v' → Flat v' = true
  | .dflt, v', _, h => by
    simp only [populate, Res.ok.injEq] at h; subst h; simp [Flat]
  | .lit l, v', _, h => by
    simp only [populate, Res.ok.injEq] at h; subst h; simp [Flat]
  | .fk (.set inner), v', hw, h => by
    simp only [populate] at h
    simp only [Flat] at hw
    exact populate_flat' inner v' hw h
  | .fk (.notSet p a), v', hw, h => by
    simp only [populate, Res.ok.injEq] at h; subst h; exact hw
  | .var key f, v', _, h => by
    simp only [populate] at h
    split at h <;> simp only [Res.ok.injEq] at h <;> subst h
    · exact FlatK_get hA ‹_›
    · simp [Flat]
  | .comp key inner, v', hw, h => by
    simp only [populate] at h
    simp only [Flat] at hw
    split at h <;> simp at h
    subst h
    rename_i i hi
    simp only [Flat]
    exact populate_flat' inner i hw hi
  | .bloc items, v', hw, h => by
    simp only [populate] at h
    simp only [Flat] at hw
    split at h <;> simp at h
    subst h
    rename_i l hl
    simp only [Flat]
    exact populateL_flat items l hw hl
  | .subkeys _, v', _, h => by simp [populate] at h
  | .ranges ck t bs, v', hw, h => by
    simp only [Flat] at hw
    rcases populate_ranges_inv h with ⟨k', bs', hb, rfl, _⟩ | ⟨c, hf, _, _⟩
    · simp only [Flat]
      exact populateB_flat bs bs' hw hb
    · exact findValue_flat c bs v' hw hf
  | .plurals rule ck other forms, v', hw, h => by
    simp only [Flat, Bool.and_eq_true] at hw
    rcases populate_plurals_inv h with ⟨k', o, fs, ho, hf, rfl, _⟩ | ⟨l, d, f, _, _, _, _, hsel⟩
    · simp only [Flat, Bool.and_eq_true]
      exact ⟨populate_flat' other o hw.1 ho, populateF_flat forms fs hw.2 hf⟩
    · rcases hsel with ⟨_, ho⟩ | hsel
      · exact populate_flat' other v' hw.1 ho
      · split at hsel
        · rename_i r hr
          subst hsel
          exact selectForm_flat f forms v' hw.2 hr
        · exact populate_flat' other v' hw.1 hsel
termination_by structural x => x

theorem populateL_flat : ∀ (l l' : List PV), FlatL l = true →
    populateL orc locale args l = .ok l' → FlatL l' = true
  | [], l', _, h => by
    simp only [populateL, Res.ok.injEq] at h; subst h; simp [FlatL]
  | x :: xs, l', hw, h => by
    simp only [populateL] at h
    simp only [FlatL, Bool.and_eq_true] at hw
    split at h <;> try (simp at h; done)
    rename_i x' hx
    split at h <;> simp at h
    rename_i xs' hxs
    subst h
    simp only [FlatL, Bool.and_eq_true]
    exact ⟨populate_flat' x x' hw.1 hx, populateL_flat xs xs' hw.2 hxs⟩
termination_by structural x => x

theorem populateB_flat : ∀ (bs bs' : List (Range × PV)), FlatB bs = true →
    populateB orc locale args bs = .ok bs' → FlatB bs' = true
  | [], l', _, h => by
    simp only [populateB, Res.ok.injEq] at h; subst h; simp [FlatB]
  | (r, x) :: xs, l', hw, h => by
    simp only [populateB] at h
    simp only [FlatB, Bool.and_eq_true] at hw
    split at h <;> try (simp at h; done)
    rename_i x' hx
    split at h <;> simp at h
    rename_i xs' hxs
    subst h
    simp only [FlatB, Bool.and_eq_true]
    exact ⟨populate_flat' x x' hw.1 hx, populateB_flat xs xs' hw.2 hxs⟩
termination_by structural x => x

theorem populateF_flat : ∀ (fs fs' : List (Form × PV)), FlatF fs = true →
    populateF orc locale args fs = .ok fs' → FlatF fs' = true
  | [], l', _, h => by
    simp only [populateF, Res.ok.injEq] at h; subst h; simp [FlatF]
  | (r, x) :: xs, l', hw, h => by
    simp only [populateF] at h
    simp only [FlatF, Bool.and_eq_true] at hw
    split at h <;> try (simp at h; done)
    rename_i x' hx
    split at h <;> simp at h
    rename_i xs' hxs
    subst h
    simp only [FlatF, Bool.and_eq_true]
    exact ⟨populate_flat' x x' hw.1 hx, populateF_flat xs xs' hw.2 hxs⟩
termination_by structural x => x

theorem findValue_flat (c : Dec) : ∀ (bs : List (Range × PV)) (v' : PV), FlatB bs = true →
    findValue orc locale args c bs = .ok v' → Flat v' = true
  | [], v', _, h => by simp [findValue] at h
  | (r, x) :: xs, v', hw, h => by
    simp only [findValue] at h
    simp only [FlatB, Bool.and_eq_true] at hw
    split at h
    · exact populate_flat' x v' hw.1 h
    · exact findValue_flat c xs v' hw.2 h
termination_by structural x => x

theorem selectForm_flat (f : Form) : ∀ (fs : List (Form × PV)) (v' : PV), FlatF fs = true →
    selectForm orc locale args f fs = some (.ok v') → Flat v' = true
  | [], v', _, h => by simp [selectForm] at h
  | (f', x) :: xs, v', hw, h => by
    simp only [FlatF, Bool.and_eq_true] at hw
    simp only [selectForm] at h
    split at h
    · simp only [Option.some.injEq] at h
      exact populate_flat' x v' hw.1 h
    · exact selectForm_flat f xs v' hw.2 h
termination_by structural x => x
end
end

/-- `populate` does not introduce groups of subkeys -/
theorem populate_flat (orc : Oracle) (locale : Str) (args : List (Str × PV)) (v v' : PV)
    (hA : FlatK args = true) (hv : Flat v = true) (h : populate orc locale args v = .ok v') :
    Flat v' = true :=
  populate_flat' orc locale args hA v v' hv h

/-! ### groups and leaves -/

/-- a group is returned unchanged -/
theorem resolvePV_group (orc : Oracle) (w : World) (dflt : Fallbacks) (fuel : Nat) (vis : List KeyId) (phys : KeyId)
    (top : Str) (o : Option Loc) (v' : PV) (h : resolvePV orc w dflt fuel vis phys top (.subkeys o) = .ok v') :
    v' = .subkeys o := by
  cases fuel with
  | zero => simp [resolvePV] at h
  | succ n => simp only [resolvePV, Res.ok.injEq] at h; exact h.symm

/-- the `.ok` results of `resolveNode` are resolved foreign keys -/
theorem resolveNode_ok_set (orc : Oracle) (w : World) (dflt : Fallbacks) :
    ∀ (fuel : Nat) (vis : List KeyId) (phys : KeyId) (top : Str) (target : KeyPath)
      (args : List (Str × PV)) (v' : PV),
      resolveNode orc w dflt fuel vis phys top target args = .ok v' → ∃ v, v' = .fk (.set v) := by
  intro fuel
  cases fuel with
  | zero => intro vis phys top target args v' h; simp [resolveNode] at h
  | succ n =>
    intro vis phys top target args v' h
    rw [resolveNode_succ] at h
    split at h <;> try (simp at h; done)
    split at h
    · simp at h
    · split at h <;> try (simp at h; done)
      split at h <;> try (simp at h; done)
      split at h <;> simp at h
      exact ⟨_, h.symm⟩

/-- a non-group stays a non-group -/
theorem resolvePV_leaf (orc : Oracle) (w : World) (dflt : Fallbacks) (fuel : Nat) (vis : List KeyId) (phys : KeyId)
    (top : Str) (v v' : PV) (hv : isGroup v = false) (h : resolvePV orc w dflt fuel vis phys top v = .ok v') :
    isGroup v' = false := by
  cases fuel with
  | zero => simp [resolvePV] at h
  | succ n =>
    cases v with
    | dflt => simp only [resolvePV, Res.ok.injEq] at h; subst h; rfl
    | lit l => simp only [resolvePV, Res.ok.injEq] at h; subst h; rfl
    | var k f => simp only [resolvePV, Res.ok.injEq] at h; subst h; rfl
    | subkeys l => simp [isGroup] at hv
    | fk f =>
      cases f with
      | set i => simp only [resolvePV, Res.ok.injEq] at h; subst h; rfl
      | notSet p a =>
        rw [resolvePV_notSet] at h
        obtain ⟨x, rfl⟩ := resolveNode_ok_set orc w dflt _ _ _ _ _ _ _ h
        rfl
    | comp k i =>
      rw [resolvePV_comp] at h
      cases hr : resolvePV orc w dflt n vis phys top i <;> rw [hr] at h <;> simp [mapOk] at h
      subst h; rfl
    | bloc l =>
      rw [resolvePV_bloc] at h
      cases hr : resolveL orc w dflt n vis phys top l <;> rw [hr] at h <;> simp [mapOk] at h
      subst h; rfl
    | ranges ck t bs =>
      rw [resolvePV_ranges] at h
      cases hr : resolveB orc w dflt n vis phys top bs <;> rw [hr] at h <;> simp [mapOk] at h
      subst h; rfl
    | plurals r ck o fs =>
      rw [resolvePV_plurals] at h
      cases hr : resolveF orc w dflt n vis phys top fs <;> rw [hr] at h <;> simp [seq2] at h
      cases hr2 : resolvePV orc w dflt n vis phys top o <;> rw [hr2] at h <;> simp at h
      subst h; rfl

/-! ### resolution keeps leaves flat -/

def ResolveFlat (orc : Oracle) (w : World) (dflt : Fallbacks) (fuel : Nat) : Prop :=
  (∀ visiting phys top v v', Flat v = true →
    resolvePV orc w dflt fuel visiting phys top v = .ok v' → Flat v' = true) ∧
  (∀ visiting phys top target args v', FlatK args = true →
    resolveNode orc w dflt fuel visiting phys top target args = .ok v' → Flat v' = true) ∧
  (∀ visiting phys top l l', FlatL l = true →
    resolveL orc w dflt fuel visiting phys top l = .ok l' → FlatL l' = true) ∧
  (∀ visiting phys top l l', FlatB l = true →
    resolveB orc w dflt fuel visiting phys top l = .ok l' → FlatB l' = true) ∧
  (∀ visiting phys top l l', FlatF l = true →
    resolveF orc w dflt fuel visiting phys top l = .ok l' → FlatF l' = true) ∧
  (∀ visiting phys top l l', FlatK l = true →
    resolveArgs orc w dflt fuel visiting phys top l = .ok l' → FlatK l' = true)

theorem resolve_flat (orc : Oracle) (w : World) (dflt : Fallbacks) (hW : WorldFlat w) :
    ∀ fuel, ResolveFlat orc w dflt fuel := by
  intro fuel
  induction fuel with
  | zero =>
    refine ⟨?_, ?_, ?_, ?_, ?_, ?_⟩ <;> intros <;>
      simp_all [resolvePV, resolveNode, resolveL, resolveB, resolveF, resolveArgs]
  | succ fuel ih =>
    obtain ⟨ihPV, ihNode, ihL, ihB, ihF, ihA⟩ := ih
    refine ⟨?_, ?_, ?_, ?_, ?_, ?_⟩
    · intro visiting phys top v v' hc h
      cases v with
      | dflt => simp only [resolvePV, Res.ok.injEq] at h; subst h; rfl
      | lit l => simp only [resolvePV, Res.ok.injEq] at h; subst h; rfl
      | var k f => simp only [resolvePV, Res.ok.injEq] at h; subst h; rfl
      | subkeys l => simp [Flat] at hc
      | fk f =>
        cases f with
        | set i => simp only [resolvePV, Res.ok.injEq] at h; subst h; exact hc
        | notSet p a =>
          simp only [resolvePV] at h
          simp only [Flat] at hc
          exact ihNode _ _ _ _ _ _ hc h
      | comp k i =>
        simp only [resolvePV] at h
        simp only [Flat] at hc
        split at h <;> simp at h
        subst h
        simp only [Flat]
        exact ihPV _ _ _ _ _ hc ‹_›
      | bloc l =>
        simp only [resolvePV] at h
        simp only [Flat] at hc
        split at h <;> simp at h
        subst h
        simp only [Flat]
        exact ihL _ _ _ _ _ hc ‹_›
      | ranges ck t bs =>
        simp only [resolvePV] at h
        simp only [Flat] at hc
        split at h <;> simp at h
        subst h
        simp only [Flat]
        exact ihB _ _ _ _ _ hc ‹_›
      | plurals r ck o fs =>
        simp only [resolvePV] at h
        simp only [Flat, Bool.and_eq_true] at hc
        split at h <;> try (simp at h; done)
        rename_i fs' hfs
        split at h <;> simp at h
        rename_i o' ho
        subst h
        simp only [Flat, Bool.and_eq_true]
        exact ⟨ihPV _ _ _ _ _ hc.1 ho, ihF _ _ _ _ _ hc.2 hfs⟩
    · intro visiting phys top target args v' hc h
      simp only [resolveNode] at h
      split at h <;> try (simp at h; done)
      · rename_i src value hfd
        have hval := (findDefining_ok_stored w dflt _ _ _ _ _ _ hfd).1
        split at h
        · simp at h
        · split at h <;> try (simp at h; done)
          rename_i value' hv'
          split at h <;> try (simp at h; done)
          rename_i args' ha'
          split at h <;> simp at h
          rename_i pv hp
          subst h
          simp only [Flat]
          rcases hW _ _ _ hval with hg | hcl
          · -- a subkey group is returned unchanged and then rejected by `populate`
            cases value with
            | subkeys l =>
              have := resolvePV_group _ _ _ _ _ _ _ _ _ hv'
              subst this
              simp [populate] at hp
            | _ => simp [isGroup] at hg
          · have h1 := ihPV _ _ _ _ _ hcl hv'
            have h2 := ihA _ _ _ _ _ hc ha'
            exact populate_flat orc top args' value' pv h2 h1 hp
    · intro visiting phys top l l' hc h
      cases l with
      | nil => simp only [resolveL, Res.ok.injEq] at h; subst h; rfl
      | cons x xs =>
        simp only [resolveL] at h
        simp only [FlatL, Bool.and_eq_true] at hc
        split at h <;> try (simp at h; done)
        rename_i x' hx
        split at h <;> simp at h
        rename_i xs' hxs
        subst h
        simp only [FlatL, Bool.and_eq_true]
        exact ⟨ihPV _ _ _ _ _ hc.1 hx, ihL _ _ _ _ _ hc.2 hxs⟩
    · intro visiting phys top l l' hc h
      cases l with
      | nil => simp only [resolveB, Res.ok.injEq] at h; subst h; rfl
      | cons x xs =>
        obtain ⟨r, x⟩ := x
        simp only [resolveB] at h
        simp only [FlatB, Bool.and_eq_true] at hc
        split at h <;> try (simp at h; done)
        rename_i x' hx
        split at h <;> simp at h
        rename_i xs' hxs
        subst h
        simp only [FlatB, Bool.and_eq_true]
        exact ⟨ihPV _ _ _ _ _ hc.1 hx, ihB _ _ _ _ _ hc.2 hxs⟩
    · intro visiting phys top l l' hc h
      cases l with
      | nil => simp only [resolveF, Res.ok.injEq] at h; subst h; rfl
      | cons x xs =>
        obtain ⟨r, x⟩ := x
        simp only [resolveF] at h
        simp only [FlatF, Bool.and_eq_true] at hc
        split at h <;> try (simp at h; done)
        rename_i x' hx
        split at h <;> simp at h
        rename_i xs' hxs
        subst h
        simp only [FlatF, Bool.and_eq_true]
        exact ⟨ihPV _ _ _ _ _ hc.1 hx, ihF _ _ _ _ _ hc.2 hxs⟩
    · intro visiting phys top l l' hc h
      cases l with
      | nil => simp only [resolveArgs, Res.ok.injEq] at h; subst h; rfl
      | cons x xs =>
        obtain ⟨r, x⟩ := x
        simp only [resolveArgs] at h
        simp only [FlatK, Bool.and_eq_true] at hc
        split at h <;> try (simp at h; done)
        rename_i x' hx
        split at h <;> simp at h
        rename_i xs' hxs
        subst h
        simp only [FlatK, Bool.and_eq_true]
        exact ⟨ihPV _ _ _ _ _ hc.1 hx, ihA _ _ _ _ _ hc.2 hxs⟩

/-- resolution keeps leaves flat -/
theorem resolvePV_flat (orc : Oracle) (w : World) (dflt : Fallbacks) (hw : WorldFlat w) :
    ∀ (fuel : Nat) (vis : List KeyId) (phys : KeyId) (top : Str) (v v' : PV),
      Flat v = true → resolvePV orc w dflt fuel vis phys top v = .ok v' → Flat v' = true :=
  fun fuel vis phys top v v' hv h => (resolve_flat orc w dflt hw fuel).1 vis phys top v v' hv h

/-! ### the fuel given to the fallback walk always suffices -/

/-- how many entries of `inherits` have a key that was not visited yet -/
def walkRem (fb : Fallbacks) (vis : List Str) : Nat :=
  ((fb.inherits.map Prod.fst).filter (fun k => !vis.contains k)).length

theorem get?_key_mem {α : Type} {k : Str} {v : α} : ∀ {m : List (Str × α)}, AMap.get? k m = some v → k ∈ m.map Prod.fst
  | [], h => by simp [AMap.get?] at h
  | (k', v') :: rest, h => by
    simp only [AMap.get?] at h
    split at h
    · rename_i hk
      have : k' = k := by simpa using hk
      simp [this]
    · simp only [List.map_cons, List.mem_cons]
      exact .inr (get?_key_mem h)

theorem filter_length_le_of_imp {p q : Str → Bool} (hpq : ∀ x, q x = true → p x = true) :
    ∀ (l : List Str), (l.filter q).length ≤ (l.filter p).length
  | [] => by simp
  | c :: r => by
    have ih := filter_length_le_of_imp hpq r
    simp only [List.filter_cons]
    cases hqc : q c with
    | false =>
      simp only [Bool.false_eq_true, if_false]
      split
      · simp only [List.length_cons]; omega
      · exact ih
    | true => simp only [hpq c hqc, if_true, List.length_cons]; omega

theorem filter_length_lt_of_mem {p q : Str → Bool} (hpq : ∀ x, q x = true → p x = true) {a : Str} :
    ∀ {l : List Str}, a ∈ l → p a = true → q a = false → (l.filter q).length < (l.filter p).length
  | [], h, _, _ => by simp at h
  | b :: rest, h, hp, hq => by
    have hle := filter_length_le_of_imp hpq rest
    rcases List.mem_cons.mp h with rfl | hm
    · simp only [List.filter_cons, hp, hq, if_true, Bool.false_eq_true, if_false, List.length_cons]
      omega
    · have ih := filter_length_lt_of_mem hpq hm hp hq
      simp only [List.filter_cons]
      cases hqb : q b with
      | false =>
        simp only [Bool.false_eq_true, if_false]
        split
        · simp only [List.length_cons]; omega
        · exact ih
      | true => simp only [hpq b hqb, if_true, List.length_cons]; omega

theorem walkRem_lt (fb : Fallbacks) (vis : List Str) (cur : Str) (hk : cur ∈ fb.inherits.map Prod.fst)
    (hn : cur ∉ vis) : walkRem fb (cur :: vis) < walkRem fb vis := by
  unfold walkRem
  refine filter_length_lt_of_mem ?_ hk ?_ ?_
  · intro x hx
    simp only [List.contains_cons, Bool.not_eq_true', Bool.or_eq_false_iff] at hx
    simp only [hx.2, Bool.not_false]
  · simpa using hn
  · simp

/-- at the default locale the walk stops: one turn of fuel is enough -/
theorem findDefining_default_panic (w : World) (fb : Fallbacks) (fuel : Nat) (vis : List Str) (t : KeyPath)
    (p : String) (h : findDefining w fb (fuel + 1) vis fb.default t = .panic p) :
    w.getValueAt fb.default t = .panic p := by
  rw [findDefining] at h
  split at h
  · simp at h
  · rename_i p' hp; simp only [Res.panic.injEq] at h; subst h; exact hp
  · simp at h
  · simp at h
  · simp at h

/-- **the walk never runs out of fuel**: started on a locale not yet visited with at least
    (entries of `inherits` whose key is not visited) + 2 turns, a panic of the walk is a panic of a lookup -/
theorem findDefining_fuel_suffices (w : World) (fb : Fallbacks) (t : KeyPath) :
    ∀ (fuel : Nat) (vis : List Str) (cur : Str), cur ∉ vis → walkRem fb vis + 2 ≤ fuel →
      ∀ p, findDefining w fb fuel vis cur t = .panic p → ∃ c, w.getValueAt c t = .panic p
  | 0, vis, cur, _, hf, p, _ => by omega
  | fuel + 1, vis, cur, hn, hf, p, h => by
    have key : (cur == fb.default) = false →
        findDefining w fb fuel (cur :: vis) (nextLocale fb (cur :: vis) cur) t = .panic p →
        ∃ c, w.getValueAt c t = .panic p := by
      intro _ h
      unfold nextLocale at h
      have stop : findDefining w fb fuel (cur :: vis) fb.default t = .panic p → ∃ c, w.getValueAt c t = .panic p := by
        intro h
        cases fuel with
        | zero => omega
        | succ n => exact ⟨_, findDefining_default_panic w fb n _ t p h⟩
      split at h
      · rename_i l hl
        split at h
        · exact stop h
        · rename_i hc
          have hl' : l ∉ cur :: vis := by simpa using hc
          have := walkRem_lt fb vis cur (get?_key_mem hl) hn
          exact findDefining_fuel_suffices w fb t fuel (cur :: vis) l hl' (by omega) p h
      · exact stop h
    rw [findDefining] at h
    split at h
    · simp at h
    · rename_i p' hp; simp only [Res.panic.injEq] at h; subst h; exact ⟨cur, hp⟩
    · split at h
      · simp at h
      · rename_i hd; exact key (by simpa using hd) h
    · simp at h
    · split at h
      · simp at h
      · rename_i hd; exact key (by simpa using hd) h

/-- the fuel `resolveNode` gives to the walk (`inherits.length + 2`) suffices: the walk panics only if a lookup does -/
theorem nodeWalk_panic (w : World) (fb : Fallbacks) (top : Str) (t : KeyPath) (p : String)
    (h : findDefining w fb (fb.inherits.length + 2) [] top t = .panic p) : ∃ c, w.getValueAt c t = .panic p := by
  refine findDefining_fuel_suffices w fb t _ [] top (by simp) ?_ p h
  have : walkRem fb [] ≤ fb.inherits.length := by
    unfold walkRem
    exact Nat.le_trans (List.length_filter_le _ _) (by simp)
  omega

/-- in a world whose lookups never panic, the walk never panics — in particular never with `"fuel"` -/
theorem nodeWalk_no_panic (w : World) (hW : WorldNP w) (fb : Fallbacks) (top : Str) (t : KeyPath) (p : String) :
    findDefining w fb (fb.inherits.length + 2) [] top t ≠ .panic p := by
  intro h
  obtain ⟨c, hc⟩ := nodeWalk_panic w fb top t p h
  exact hW _ _ _ hc

/-! ### the only panics of resolution -/

theorem Benign_fuel : Benign "fuel" := .inl rfl

theorem mapOk_panic {α β : Type} {g : α → β} {a : Res α} {s : String}
    (h : mapOk g a = .panic s) : a = .panic s := by
  cases a <;> simp [mapOk] at h
  subst h; rfl

theorem seq2_panic {α β γ : Type} {g : α → β → γ} {a : Res α} {b : Res β} {s : String}
    (h : seq2 g a b = .panic s) : a = .panic s ∨ b = .panic s := by
  cases a with
  | err e => simp [seq2] at h
  | panic p => simp [seq2] at h; subst h; exact .inl rfl
  | ok x =>
    cases b with
    | err e => simp [seq2] at h
    | panic p => simp [seq2] at h; subst h; exact .inr rfl
    | ok y => simp [seq2] at h

/-- the fallback walk panics only when it runs out of fuel or a lookup panics -/
theorem findDefining_panic (w : World) (fb : Fallbacks) : ∀ (fuel : Nat) (vis : List Str) (cur : Str) (t : KeyPath)
    (p : String), findDefining w fb fuel vis cur t = .panic p → p = "fuel" ∨ ∃ c, w.getValueAt c t = .panic p
  | 0, vis, cur, t, p, h => by simp [findDefining] at h; exact .inl h.symm
  | fuel + 1, vis, cur, t, p, h => by
    rw [findDefining] at h
    split at h
    · simp at h
    · rename_i p' hp
      simp only [Res.panic.injEq] at h; subst h
      exact .inr ⟨cur, hp⟩
    · split at h
      · simp at h
      · exact findDefining_panic w fb fuel _ _ t p h
    · simp at h
    · split at h
      · simp at h
      · exact findDefining_panic w fb fuel _ _ t p h

def ResolvePanic (orc : Oracle) (w : World) (dflt : Fallbacks) (fuel : Nat) : Prop :=
  (∀ visiting phys top v s,
    resolvePV orc w dflt fuel visiting phys top v = .panic s → Benign s) ∧
  (∀ visiting phys top target args s,
    resolveNode orc w dflt fuel visiting phys top target args = .panic s → Benign s) ∧
  (∀ visiting phys top l s,
    resolveL orc w dflt fuel visiting phys top l = .panic s → Benign s) ∧
  (∀ visiting phys top l s,
    resolveB orc w dflt fuel visiting phys top l = .panic s → Benign s) ∧
  (∀ visiting phys top l s,
    resolveF orc w dflt fuel visiting phys top l = .panic s → Benign s) ∧
  (∀ visiting phys top l s,
    resolveArgs orc w dflt fuel visiting phys top l = .panic s → Benign s)

theorem resolve_panic (orc : Oracle) (w : World) (dflt : Fallbacks) (hW : WorldNP w) :
    ∀ fuel, ResolvePanic orc w dflt fuel := by
  intro fuel
  induction fuel with
  | zero =>
    refine ⟨?_, ?_, ?_, ?_, ?_, ?_⟩ <;> intros <;>
      simp_all [resolvePV, resolveNode, resolveL, resolveB, resolveF, resolveArgs, Benign]
  | succ fuel ih =>
    obtain ⟨ihPV, ihNode, ihL, ihB, ihF, ihA⟩ := ih
    refine ⟨?_, ?_, ?_, ?_, ?_, ?_⟩
    · intro visiting phys top v s h
      cases v with
      | dflt => simp [resolvePV] at h
      | lit l => simp [resolvePV] at h
      | var k f => simp [resolvePV] at h
      | subkeys l => simp [resolvePV] at h
      | fk f =>
        cases f with
        | set i => simp [resolvePV] at h
        | notSet p a =>
          rw [resolvePV_notSet] at h
          exact ihNode _ _ _ _ _ _ h
      | comp k i =>
        rw [resolvePV_comp] at h
        exact ihPV _ _ _ _ _ (mapOk_panic h)
      | bloc l =>
        rw [resolvePV_bloc] at h
        exact ihL _ _ _ _ _ (mapOk_panic h)
      | ranges ck t bs =>
        rw [resolvePV_ranges] at h
        exact ihB _ _ _ _ _ (mapOk_panic h)
      | plurals r ck o fs =>
        rw [resolvePV_plurals] at h
        rcases seq2_panic h with h1 | h1
        · exact ihF _ _ _ _ _ h1
        · exact ihPV _ _ _ _ _ h1
    · intro visiting phys top target args s h
      rw [resolveNode_succ] at h
      split at h
      · simp at h
      · rename_i p hp
        simp only [Res.panic.injEq] at h; subst h
        rcases findDefining_panic w dflt _ _ _ _ _ hp with rfl | ⟨c, hc⟩
        · exact Benign_fuel
        · exact absurd hc (hW _ _ _)
      · split at h
        · simp at h
        · split at h
          · simp at h
          · rename_i p hp
            simp only [Res.panic.injEq] at h; subst h
            exact ihPV _ _ _ _ _ hp
          · split at h
            · simp at h
            · rename_i p hp
              simp only [Res.panic.injEq] at h; subst h
              exact ihA _ _ _ _ _ hp
            · split at h
              · simp at h
              · simp at h
              · rename_i p hp
                simp only [Res.panic.injEq] at h; subst h
                exact .inr (populate_panic orc top _ _ _ hp).1
    · intro visiting phys top l s h
      cases l with
      | nil => simp [resolveL] at h
      | cons x xs =>
        rw [resolveL_cons] at h
        rcases seq2_panic h with h1 | h1
        · exact ihPV _ _ _ _ _ h1
        · exact ihL _ _ _ _ _ h1
    · intro visiting phys top l s h
      cases l with
      | nil => simp [resolveB] at h
      | cons x xs =>
        obtain ⟨r, x⟩ := x
        rw [resolveB_cons] at h
        rcases seq2_panic h with h1 | h1
        · exact ihPV _ _ _ _ _ h1
        · exact ihB _ _ _ _ _ h1
    · intro visiting phys top l s h
      cases l with
      | nil => simp [resolveF] at h
      | cons x xs =>
        obtain ⟨r, x⟩ := x
        rw [resolveF_cons] at h
        rcases seq2_panic h with h1 | h1
        · exact ihPV _ _ _ _ _ h1
        · exact ihF _ _ _ _ _ h1
    · intro visiting phys top l s h
      cases l with
      | nil => simp [resolveArgs] at h
      | cons x xs =>
        obtain ⟨r, x⟩ := x
        rw [resolveArgs_cons] at h
        rcases seq2_panic h with h1 | h1
        · exact ihPV _ _ _ _ _ h1
        · exact ihA _ _ _ _ _ h1

/-- with panic-free lookups, resolution panics only for the model's fuel or the oracle gap -/
theorem resolvePV_panic (orc : Oracle) (w : World) (dflt : Fallbacks) (hw : WorldNP w) :
    ∀ (fuel : Nat) (vis : List KeyId) (phys : KeyId) (top : Str) (v : PV) (s : String),
      resolvePV orc w dflt fuel vis phys top v = .panic s → Benign s :=
  fun fuel vis phys top v s h => (resolve_panic orc w dflt hw fuel).1 vis phys top v s h

end I18nVerif.PipeInv
