import I18nVerif.Model.Check
import I18nVerif.Spec.Fallback
/-!
Helper lemmas for C03: association-list facts (`AMap.get?`, `AMap.insert'` — none of them needs
sortedness), the pigeonhole bound on the `visited` list, `defaultOf` = spec walk, `compute`.
-/
namespace I18nVerif.AMap

theorem get?_cons (k k' : Str) (v : α) (m : List (Str × α)) :
    get? k ((k', v) :: m) = if k' = k then some v else get? k m := by
  simp [get?]

theorem get?_insert_self (k : Str) (v : α) (m : List (Str × α)) :
    get? k (insert' k v m) = some v := by
  induction m with
  | nil => simp [insert', insert, get?]
  | cons e m ih =>
    obtain ⟨k', v'⟩ := e
    simp only [insert', insert] at ih ⊢
    by_cases h : k' = k
    · simp [h, get?]
    · by_cases h2 : strLt k k' = true
      · simp [h, h2, get?]
      · simp [h, h2, get?, ih]

theorem get?_insert_ne {k k' : Str} (h : k' ≠ k) (v : α) (m : List (Str × α)) :
    get? k' (insert' k v m) = get? k' m := by
  induction m with
  | nil => simp [insert', insert, get?, Ne.symm h]
  | cons e m ih =>
    obtain ⟨k1, v1⟩ := e
    simp only [insert', insert] at ih ⊢
    by_cases h1 : k1 = k
    · subst h1; simp [get?, Ne.symm h]
    · by_cases h2 : strLt k k1 = true
      · simp [h1, h2, get?, Ne.symm h]
      · simp [h1, h2, get?, ih]

theorem get?_insert (k k' : Str) (v : α) (m : List (Str × α)) :
    get? k' (insert' k v m) = if k' = k then some v else get? k' m := by
  by_cases h : k' = k
  · subst h; simp [get?_insert_self]
  · simp [h, get?_insert_ne h]

theorem get?_isSome_iff {k : Str} {m : List (Str × α)} :
    (get? k m).isSome = true ↔ k ∈ m.map Prod.fst := by
  induction m with
  | nil => simp [get?]
  | cons e m ih =>
    obtain ⟨k1, v1⟩ := e
    by_cases h : k1 = k
    · simp [get?, h]
    · simp [get?, h, ih, Ne.symm h]

theorem get?_eq_none_iff {k : Str} {m : List (Str × α)} :
    get? k m = none ↔ k ∉ m.map Prod.fst := by
  rw [← get?_isSome_iff]
  cases get? k m <;> simp

theorem mem_of_get?_eq_some {k : Str} {v : α} {m : List (Str × α)} (h : get? k m = some v) :
    k ∈ m.map Prod.fst := by
  rw [← get?_isSome_iff, h]; rfl

end I18nVerif.AMap

namespace I18nVerif.Check
open I18nVerif Spec.Fallback

/-- pigeonhole: a duplicate-free list inside `k` is not longer than `k` -/
theorem nodup_length_le {l k : List Str} (hn : l.Nodup) (hs : ∀ x ∈ l, x ∈ k) : l.length ≤ k.length := by
  induction k generalizing l with
  | nil =>
    cases l with
    | nil => simp
    | cons a l => exact absurd (hs a (by simp)) (by simp)
  | cons a k ih =>
    have h1 : (l.erase a).Nodup := hn.erase a
    have h2 : ∀ x ∈ l.erase a, x ∈ k := by
      intro x hx
      rw [hn.mem_erase_iff] at hx
      have := hs x hx.2
      simp only [List.mem_cons] at this
      rcases this with h | h
      · exact absurd h hx.1
      · exact h
    have h3 := ih h1 h2
    have h4 : l.length ≤ (l.erase a).length + 1 := by
      rw [List.length_erase]; split <;> omega
    simp only [List.length_cons]; omega

/-- the invariant of the `visited` list of `default_of_inner` -/
structure VisInv (m : List (Str × Str)) (cur : Str) (visited : List Str) : Prop where
  nodup : visited.Nodup
  dom : ∀ x ∈ visited, x ∈ m.map Prod.fst
  fresh : cur ∉ visited

theorem VisInv.length_le {m cur visited} (h : VisInv m cur visited) : visited.length ≤ m.length := by
  have := nodup_length_le h.nodup h.dom
  simpa using this

theorem VisInv.length_lt {m cur visited} (h : VisInv m cur visited) (hc : cur ∈ m.map Prod.fst) :
    visited.length < m.length := by
  have hn : (cur :: visited).Nodup := List.nodup_cons.mpr ⟨h.fresh, h.nodup⟩
  have := nodup_length_le (k := m.map Prod.fst) hn (by
    intro x hx
    simp only [List.mem_cons] at hx
    rcases hx with rfl | hx
    · exact hc
    · exact h.dom x hx)
  simp at this; omega

theorem VisInv.step {m cur visited nxt} (h : VisInv m cur visited) (hc : cur ∈ m.map Prod.fst)
    (hn : nxt ∉ cur :: visited) : VisInv m nxt (cur :: visited) where
  nodup := List.nodup_cons.mpr ⟨h.fresh, h.nodup⟩
  dom := by
    intro x hx
    simp only [List.mem_cons] at hx
    rcases hx with rfl | hx
    · exact hc
    · exact h.dom x hx
  fresh := hn

/-- core lemma: with enough fuel on both sides, `default_of_inner` is the spec walk where a locale
    is "defined" iff it has no entry in `mapping` -/
theorem defaultOf_eq_walk_aux (dflt : Str) (m : List (Str × Str)) :
    ∀ (fuel fuel' : Nat) (cur : Str) (visited : List Str), VisInv m cur visited →
      m.length + 1 ≤ fuel + visited.length → m.length + 1 ≤ fuel' + visited.length →
      defaultOf ⟨dflt, m⟩ fuel cur visited
        = walk m dflt (fun x => (AMap.get? x m).isNone) fuel' cur visited := by
  intro fuel
  induction fuel with
  | zero =>
    intro fuel' cur visited hv hf _
    have := hv.length_le; omega
  | succ fuel ih =>
    intro fuel' cur visited hv hf hf'
    cases fuel' with
    | zero => have := hv.length_le; omega
    | succ fuel' =>
      cases hg : AMap.get? cur m with
      | none => simp [defaultOf, walk, hg]
      | some nxt =>
        simp only [defaultOf, walk, hg]
        have hc : cur ∈ m.map Prod.fst := AMap.mem_of_get?_eq_some hg
        have hlt := hv.length_lt hc
        have hfr : visited.contains cur = false := by
          simpa using hv.fresh
        simp only [Option.isNone_some, Bool.false_eq_true, if_false, hfr]
        by_cases hn : (cur :: visited).contains nxt = true
        · -- the walk comes back to a visited locale: it is in `dom m`, hence not defined
          simp only [hn, if_true]
          have hmem : nxt ∈ cur :: visited := by simpa using hn
          have hdom : nxt ∈ m.map Prod.fst := by
            simp only [List.mem_cons] at hmem
            rcases hmem with rfl | h
            · exact hc
            · exact hv.dom _ h
          have hsome : (AMap.get? nxt m).isNone = false := by
            have := AMap.get?_isSome_iff.mpr hdom
            cases h : AMap.get? nxt m <;> simp_all
          cases fuel' with
          | zero => simp [walk]
          | succ f => simp only [walk, hsome, hn]; simp
        · have hn' : nxt ∉ cur :: visited := by simpa using hn
          simp only [hn]
          have := ih fuel' nxt (cur :: visited) (hv.step hc hn')
            (by simp only [List.length_cons]; omega) (by simp only [List.length_cons]; omega)
          simpa using this

theorem VisInv.nil (m : List (Str × Str)) (l : Str) : VisInv m l [] :=
  ⟨List.nodup_nil, by simp, by simp⟩

theorem defaultOf_eq_effective (dflt : Str) (m : List (Str × Str)) (fuel : Nat) (l : Str)
    (hf : m.length + 1 ≤ fuel) :
    defaultOf ⟨dflt, m⟩ fuel l [] = effective m dflt (fun x => (AMap.get? x m).isNone) l :=
  defaultOf_eq_walk_aux dflt m fuel (m.length + 1) l [] (VisInv.nil m l) (by simpa using hf) (by simp)

theorem defaultOf_fuel_irrel (dflt : Str) (m : List (Str × Str)) (fuel fuel' : Nat) (l : Str)
    (hf : m.length + 1 ≤ fuel) (hf' : m.length + 1 ≤ fuel') :
    defaultOf ⟨dflt, m⟩ fuel l [] = defaultOf ⟨dflt, m⟩ fuel' l [] := by
  rw [defaultOf_eq_effective dflt m fuel l hf, defaultOf_eq_effective dflt m fuel' l hf']

/-! ### the spec walk needs no more fuel than `inherits.length + 1` -/

theorem seen_length_le {dom seen : List Str} (hn : seen.Nodup) (hd : ∀ x ∈ seen, x ∈ dom) :
    seen.length ≤ dom.length := nodup_length_le hn hd

theorem seen_length_lt {dom seen : List Str} {cur : Str} (hn : seen.Nodup) (hd : ∀ x ∈ seen, x ∈ dom)
    (hc : cur ∈ dom) (hf : cur ∉ seen) : seen.length < dom.length := by
  have := nodup_length_le (l := cur :: seen) (k := dom) (List.nodup_cons.mpr ⟨hf, hn⟩) (by
    intro x hx
    simp only [List.mem_cons] at hx
    rcases hx with rfl | hx
    · exact hc
    · exact hd x hx)
  simp only [List.length_cons] at this; omega

theorem walk_fuel_irrel (inh : List (Str × Str)) (dflt : Str) (defined : Str → Bool) :
    ∀ (f f' : Nat) (cur : Str) (seen : List Str), seen.Nodup → (∀ x ∈ seen, x ∈ inh.map Prod.fst) →
      inh.length + 1 ≤ f + seen.length → inh.length + 1 ≤ f' + seen.length →
      walk inh dflt defined f cur seen = walk inh dflt defined f' cur seen := by
  intro f
  induction f with
  | zero =>
    intro f' cur seen hn hd hf _
    have := seen_length_le hn hd; simp at this; omega
  | succ f ih =>
    intro f' cur seen hn hd hf hf'
    cases f' with
    | zero => have := seen_length_le hn hd; simp at this; omega
    | succ f' =>
      simp only [walk]
      cases hdef : defined cur with
      | true => simp
      | false =>
        cases hs : seen.contains cur with
        | true => simp
        | false =>
          cases hg : AMap.get? cur inh with
          | none => simp
          | some nxt =>
            have hfresh : cur ∉ seen := by simpa using hs
            have hc : cur ∈ inh.map Prod.fst := AMap.mem_of_get?_eq_some hg
            simp only [Bool.false_eq_true, if_false]
            apply ih
            · exact List.nodup_cons.mpr ⟨hfresh, hn⟩
            · intro x hx
              simp only [List.mem_cons] at hx
              rcases hx with rfl | hx
              · exact hc
              · exact hd x hx
            · simp only [List.length_cons]; omega
            · simp only [List.length_cons]; omega

/-- the walk ends at a locale that defines the key, or at the default locale -/
theorem walk_result (inh : List (Str × Str)) (dflt : Str) (defined : Str → Bool) :
    ∀ (f : Nat) (cur : Str) (seen : List Str),
      defined (walk inh dflt defined f cur seen) = true ∨ walk inh dflt defined f cur seen = dflt := by
  intro f
  induction f with
  | zero => intro cur seen; right; rfl
  | succ f ih =>
    intro cur seen
    simp only [walk]
    cases hdef : defined cur with
    | true => left; simpa using hdef
    | false =>
      cases hs : seen.contains cur with
      | true => right; simp
      | false =>
        cases hg : AMap.get? cur inh with
        | none => right; simp
        | some nxt => simpa using ih nxt (cur :: seen)

/-- `mapping` as `mergeKeys` builds it from the real `inherits` table: the undefined locales (`U`)
    point at their `inherits` entry, or at the default locale when they have none -/
def MappingOf (inh : List (Str × Str)) (dflt : Str) (U : Str → Bool) (m : List (Str × Str)) : Prop :=
  ∀ x, AMap.get? x m = if U x then some ((AMap.get? x inh).getD dflt) else none

theorem walk_mapping_eq_walk_inherits (inh : List (Str × Str)) (dflt : Str) (U : Str → Bool)
    (m : List (Str × Str)) (hm : MappingOf inh dflt U m) (hd : U dflt = false) :
    ∀ (f f' : Nat) (cur : Str) (seen : List Str), seen.Nodup →
      (∀ x ∈ seen, x ∈ inh.map Prod.fst ∧ U x = true) →
      m.length + 1 ≤ f + seen.length → inh.length + 1 ≤ f' + seen.length →
      walk m dflt (fun x => (AMap.get? x m).isNone) f cur seen
        = walk inh dflt (fun x => !U x) f' cur seen := by
  have hdomm : ∀ x, U x = true → x ∈ m.map Prod.fst := by
    intro x hx
    have := hm x
    rw [hx] at this
    exact AMap.mem_of_get?_eq_some this
  intro f
  induction f with
  | zero =>
    intro f' cur seen hn hs hf _
    have := seen_length_le (dom := m.map Prod.fst) hn (fun x hx => hdomm x (hs x hx).2)
    simp at this; omega
  | succ f ih =>
    intro f' cur seen hn hs hf hf'
    cases f' with
    | zero =>
      have := seen_length_le (dom := inh.map Prod.fst) hn (fun x hx => (hs x hx).1)
      simp at this; omega
    | succ f' =>
      cases hU : U cur with
      | false => simp [walk, hm cur, hU]
      | true =>
        have hgm := hm cur
        rw [hU] at hgm
        simp only [walk, hU, hgm, if_true, Option.isNone_some, Bool.false_eq_true, if_false, Bool.not_true]
        cases hsc : seen.contains cur with
        | true => simp
        | false =>
          have hfresh : cur ∉ seen := by simpa using hsc
          simp only [Bool.false_eq_true, if_false]
          have hltm := seen_length_lt (dom := m.map Prod.fst) hn (fun x hx => hdomm x (hs x hx).2)
            (hdomm cur hU) hfresh
          simp only [List.length_map] at hltm
          cases hg : AMap.get? cur inh with
          | some nxt =>
            simp only [Option.getD_some]
            apply ih
            · exact List.nodup_cons.mpr ⟨hfresh, hn⟩
            · intro x hx
              simp only [List.mem_cons] at hx
              rcases hx with rfl | hx
              · exact ⟨AMap.mem_of_get?_eq_some hg, hU⟩
              · exact hs x hx
            · simp only [List.length_cons]; omega
            · simp only [List.length_cons]; omega
          | none =>
            -- no `inherits` entry: the mapping sends `cur` to the default locale, which is defined
            simp only [Option.getD_none]
            have hf2 : ∃ g, f = g + 1 := ⟨f - 1, by omega⟩
            obtain ⟨g, rfl⟩ := hf2
            simp [walk, hm dflt, hd]

theorem defaultOf_eq_effective_inherits (inh : List (Str × Str)) (dflt : Str) (U : Str → Bool)
    (m : List (Str × Str)) (hm : MappingOf inh dflt U m) (hd : U dflt = false)
    (fuel : Nat) (l : Str) (hf : m.length + 1 ≤ fuel) :
    defaultOf ⟨dflt, m⟩ fuel l [] = effective inh dflt (fun x => !U x) l := by
  rw [defaultOf_eq_effective dflt m fuel l hf]
  exact walk_mapping_eq_walk_inherits inh dflt U m hm hd _ _ l [] List.nodup_nil (by simp) (by simp) (by simp)

/-! ### `compute` -/

/-- the fold of `compute` over a suffix `l` of the mapping, for an arbitrary target function -/
theorem compute_fold_get (f : Str → Str) (l : List (Str × Str)) (acc : List (Str × List Str)) (t : Str) :
    (AMap.get? t (l.foldl (fun acc (kv : Str × Str) =>
        AMap.insert' (f kv.1) ((AMap.get? (f kv.1) acc).getD [] ++ [kv.1]) acc) acc)).getD []
      = (AMap.get? t acc).getD [] ++ (l.map Prod.fst).filter (fun k => f k == t) := by
  induction l generalizing acc with
  | nil => simp
  | cons e l ih =>
    obtain ⟨k, v⟩ := e
    simp only [List.foldl_cons, List.map_cons, List.filter_cons]
    rw [ih, AMap.get?_insert]
    by_cases h : t = f k
    · subst h; simp
    · have : (f k == t) = false := by simpa using Ne.symm h
      simp [h, this]

theorem compute_fold_isSome (f : Str → Str) (l : List (Str × Str)) (acc : List (Str × List Str)) (t : Str) :
    (AMap.get? t (l.foldl (fun acc (kv : Str × Str) =>
        AMap.insert' (f kv.1) ((AMap.get? (f kv.1) acc).getD [] ++ [kv.1]) acc) acc)).isSome = true
      ↔ (AMap.get? t acc).isSome = true ∨ ∃ k ∈ l.map Prod.fst, f k = t := by
  induction l generalizing acc with
  | nil => simp
  | cons e l ih =>
    obtain ⟨k, v⟩ := e
    simp only [List.foldl_cons, List.map_cons]
    rw [ih, AMap.get?_insert]
    by_cases h : t = f k
    · subst h; simp
    · simp [h, Ne.symm h]

theorem compute_eq_fold (d : Defaults) :
    compute d = d.mapping.foldl (fun acc (kv : Str × Str) =>
        AMap.insert' ((fun k => defaultOf d (d.mapping.length + 1) k []) kv.1)
          ((AMap.get? ((fun k => defaultOf d (d.mapping.length + 1) k []) kv.1) acc).getD [] ++ [kv.1]) acc) [] := rfl

end I18nVerif.Check
