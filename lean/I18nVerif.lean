import I18nVerif.Model.Langid
import I18nVerif.Proofs.Langid
