import Driver.Util
import I18nVerif.Model.LocaleEnum
import I18nVerif.Spec.LocaleEnum
namespace Driver
open Lean I18nVerif I18nVerif.LocaleEnum

/-- the hypotheses `WF` of the C13 theorems, decided -/
def localeWf (names : List Str) : Bool :=
  !Config.duplicates names && names.all (fun n => Str.trim n == n && !n.isEmpty)

def optNat (j : Json) : R (Option Nat) := asOpt asNat j

/-- `{"op":"locale.parse","names":[..],"s":"..","impl":{"from_str":i|null,"serde":i,"cookie":i|null}}`:
    model answers for `s`, and the specification's verdict on the model's and on the implementation's answers -/
def opLocaleParse (j : Json) : R Json := do
  let names ← listF chars j "names"
  let s ← charsF j "s"
  let impl ← field j "impl"
  let iFrom ← optF asNat impl "from_str"
  let iSerde ← natF impl "serde"
  let iCookie ← optF asNat impl "cookie"
  let mFrom := fromStr names s
  let mSerde := serdeDe names s
  let mCookie := cookieDecode names s
  let specModel := Spec.fromStrOk names s mFrom && Spec.serdeOk names s mSerde && Spec.fromStrOk names s mCookie
    && Scoped.fromStr names s == mFrom && Scoped.serdeDe names s == mSerde
  return jobj [("from_str", jopt jnat mFrom), ("serde", jnat mSerde), ("cookie", jopt jnat mCookie),
    ("is_name", Json.bool (names.any (Spec.isName s))), ("trimmed", jstr (Str.trim s)),
    ("wf", Json.bool (localeWf names)),
    ("spec_ok_model", Json.bool specModel),
    ("spec_from_str_impl", Json.bool (Spec.fromStrOk names s iFrom)),
    ("spec_serde_impl", Json.bool (Spec.serdeOk names s iSerde)),
    ("spec_cookie_impl", Json.bool (Spec.fromStrOk names s iCookie))]

/-- `{"op":"locale.describe","default":"..","locales":[..],"impl_all":[..]}`: the configuration as written ->
    configured names (`defaultFirst`), `get_all`, `as_str` of every variant, round trips through the model,
    and the specification's verdict on the implementation's `get_all` (as names) -/
def opLocaleDescribe (j : Json) : R Json := do
  let d ← charsF j "default"
  let ls ← listF chars j "locales"
  let implAll ← listF chars j "impl_all"
  let names := configured d ls
  let all := getAll names
  let strs := List.finRange names.length |>.map (fun (l : Loc names) => LocaleEnum.asStr names l)
  let rtModel := Spec.roundTripOk names (fun i => if h : i < names.length then some (LocaleEnum.asStr names ⟨i, h⟩) else none) (fromStr names)
    && Spec.roundTripOk names (fun i => if h : i < names.length then some (serdeSer names ⟨i, h⟩) else none)
        (fun s => some (serdeDe names s))
    && Spec.roundTripOk names (fun i => if h : i < names.length then some (cookieEncode names ⟨i, h⟩) else none)
        (cookieDecode names)
  return jobj [("names", jarr (names.map jstr)), ("get_all", jarr (all.map jnat)), ("as_str", jarr (strs.map jstr)),
    ("get_all_str", jarr ((getAllStr names).map jstr)), ("default", jnat defaultIdx),
    ("wf", Json.bool (localeWf names)), ("cfg_nodup", Json.bool (!Config.duplicates ls)),
    ("spec_ok_model", Json.bool (Spec.getAllOk d ls (getAllStr names) && rtModel)),
    ("spec_get_all_impl", Json.bool (Spec.getAllOk d ls implAll))]

/-- `{"op":"locale.config","default":"..","locales":[..]}` (raw strings of the manifest): `ConfigFile::new` -/
def opLocaleConfig (j : Json) : R Json := do
  let d ← charsF j "default"
  let ls ← listF chars j "locales"
  let table : List (Str × Config.TV) := [("default".toList, .str d), ("locales".toList, .arr (ls.map .str))]
  match Config.new table with
  | .ok c => return jobj [("ok", jarr (c.locales.map jstr)), ("default", jstr c.default), ("wf", Json.bool (localeWf c.locales))]
  | .err e => return jobj [("err", Json.str e)]
  | .panic p => return jobj [("panic", Json.str p)]

end Driver
