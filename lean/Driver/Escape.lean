import Driver.Util
import I18nVerif.Model.Escape
import I18nVerif.Spec.Escape
namespace Driver
open Lean I18nVerif.Escape

def tunit (j : Json) : R TUnit := do
  return { locale := ← charsF j "locale", id := ← optF chars j "id", values := ← listF chars j "values" }

def junit (u : TUnit) : Json :=
  jobj [("locale", jstr u.locale), ("id", jopt jstr u.id), ("values", jarr (u.values.map jstr))]

/-- `{"op":"escape.json","strs":[..],"impl":"<file text>"}`: the model's file text for `strs`, and the
    implementation's text judged by the specification -/
def opEscapeJson (j : Json) : R Json := do
  let strs ← listF chars j "strs"
  let impl ← charsF j "impl"
  let model := formatter strs
  let dec := Spec.jsonDecodeStrings impl
  return jobj [("model", jstr model), ("model_eq_impl", Json.bool (model == impl)),
    ("spec_decode_impl", jopt (fun l => jarr (l.map jstr)) dec),
    ("spec_ok_impl", Json.bool (Spec.jsonOk impl strs)),
    ("spec_ok_model", Json.bool (Spec.jsonOk model strs))]

/-- the model's entries in the order of the keys the implementation listed, when that is a permutation -/
def reorder (reg dec : List TUnit) : List TUnit :=
  let picked := dec.filterMap (fun d => reg.find? (fun r => r.sameKey d))
  if picked.length == reg.length && Spec.keysDistinct dec then picked else reg

/-- `{"op":"escape.embed","hist":[unit..],"impl":"<script>"}`: `hist` = the registrations of one render
    in order (with repetitions).  The model registers them and renders `to_array` in the iteration order
    the implementation used (recovered from its decoded output); the implementation's script is judged
    by `Spec.embedOk`. -/
def opEscapeEmbed (j : Json) : R Json := do
  let hist ← listF tunit j "hist"
  let impl ← charsF j "impl"
  let reg := registered hist
  let dec := Spec.jsDecodeEmbedded impl
  let entries := match dec with
    | some d => reorder reg d
    | none => reg
  let model := toArray entries
  return jobj [("registered", jarr (reg.map junit)), ("model", jstr model),
    ("model_eq_impl", Json.bool (model == impl)),
    ("spec_decode_impl", jopt (fun l => jarr (l.map junit)) dec),
    ("script_safe_impl", Json.bool (Spec.scriptSafe impl)),
    ("spec_ok_impl", Json.bool (Spec.embedOk impl hist)),
    ("spec_ok_model", Json.bool (Spec.embedOk model hist))]

/-- `{"op":"escape.decode","text":"..","js":bool}`: the bare readers (used by the self-test of the check) -/
def opEscapeDecode (j : Json) : R Json := do
  let text ← charsF j "text"
  if ← boolF j "js" then
    return jobj [("units", jopt (fun l => jarr (l.map junit)) (Spec.jsDecodeEmbedded text))]
  else
    return jobj [("strs", jopt (fun l => jarr (l.map jstr)) (Spec.jsonDecodeStrings text))]

end Driver
