import Lean.Data.Json
/-! JSON helpers for the line-protocol driver. No defaulting: a malformed request is an error. -/
namespace Driver
open Lean

abbrev R := Except String

def field (j : Json) (k : String) : R Json :=
  match j.getObjVal? k with
  | .ok v => .ok v
  | .error _ => .error s!"missing field {k}"

def asNat (j : Json) : R Nat :=
  match j.getNat? with
  | .ok v => .ok v
  | .error _ => .error s!"not a nat: {j.compress}"

def asInt (j : Json) : R Int :=
  match j.getInt? with
  | .ok v => .ok v
  | .error _ => .error s!"not an int: {j.compress}"

def asStr (j : Json) : R String :=
  match j.getStr? with
  | .ok v => .ok v
  | .error _ => .error s!"not a string: {j.compress}"

def asBool (j : Json) : R Bool :=
  match j.getBool? with
  | .ok v => .ok v
  | .error _ => .error s!"not a bool: {j.compress}"

def asArr (j : Json) : R (List Json) :=
  match j.getArr? with
  | .ok v => .ok v.toList
  | .error _ => .error s!"not an array: {j.compress}"

def asOpt (f : Json → R α) (j : Json) : R (Option α) :=
  if j.isNull then .ok none else (f j).map some

def mapM' (f : Json → R α) : List Json → R (List α)
  | [] => .ok []
  | x :: xs => do
    let a ← f x
    let as ← mapM' f xs
    .ok (a :: as)

def asList (f : Json → R α) (j : Json) : R (List α) := do
  let l ← asArr j
  mapM' f l

def natF (j : Json) (k : String) : R Nat := do asNat (← field j k)
def intF (j : Json) (k : String) : R Int := do asInt (← field j k)
def strF (j : Json) (k : String) : R String := do asStr (← field j k)
def boolF (j : Json) (k : String) : R Bool := do asBool (← field j k)
def listF (f : Json → R α) (j : Json) (k : String) : R (List α) := do asList f (← field j k)
def optF (f : Json → R α) (j : Json) (k : String) : R (Option α) := do asOpt f (← field j k)

def chars (j : Json) : R (List Char) := do return (← asStr j).toList
def charsF (j : Json) (k : String) : R (List Char) := do chars (← field j k)

def jstr (cs : List Char) : Json := Json.str (String.ofList cs)
def jnat (n : Nat) : Json := Json.num (JsonNumber.fromNat n)
def jint (n : Int) : Json := Json.num (JsonNumber.fromInt n)
def jarr (l : List Json) : Json := Json.arr l.toArray
def jobj (l : List (String × Json)) : Json := Json.mkObj l
def jopt (f : α → Json) : Option α → Json
  | none => Json.null
  | some a => f a

end Driver
