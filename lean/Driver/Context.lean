import Driver.Util
import I18nVerif.Model.Resolve
import I18nVerif.Model.Context
import I18nVerif.Spec.Langid
import I18nVerif.Spec.Resolve
import I18nVerif.Spec.Context
namespace Driver
open Lean I18nVerif.Langid

namespace Ctx
open I18nVerif.Resolve

def langIdJ (j : Json) : R LangId := do
  return { lang := ← optF asNat j "l", script := ← optF asNat j "s", region := ← optF asNat j "r",
           variants := ← listF asNat j "v" }

def parseEntry (j : Json) : R (Str × Option LangId) := do
  match ← asArr j with
  | [k, v] => return (← chars k, ← asOpt langIdJ v)
  | _ => .error "parse table entry must be [string, langid|null]"

def locAt (avail : List Loc) (what : String) (i : Nat) : R Loc :=
  match avail[i]? with
  | some l => .ok l
  | none => .error s!"{what}: locale index {i} out of range"

def strJ (s : Str) : Json := jstr s

/-- `{"op":"ctx.resolve", ...}`: runs the model of the context creation and the precedence specification -/
def opResolve (j : Json) : R Json := do
  let kind ← strF j "kind"
  let names ← listF chars j "names"
  let av ← listF langIdJ j "avail"
  if names.length != av.length then .error "names/avail length mismatch"
  let avail := (List.range av.length).zip av |>.map (fun (i, l) => ({ id := i, lid := l } : Loc))
  let dflt ← locAt avail "default" (← natF j "default")
  let cfg : Cfg := { names := names, avail := avail, dflt := dflt }
  let featureCookie ← boolF j "feature_cookie"
  let cookieFlag ← boolF j "cookie_flag"
  let jar ← optF chars j "jar_value"
  let header ← optF chars j "header"
  let table ← listF parseEntry j "parse"
  let specAccepted ← listF chars j "spec_accepted"
  let initial ← (← optF asNat j "initial").mapM (locAt avail "initial")
  let parent ← (← optF asNat j "parent").mapM (locAt avail "parent")
  let impl ← locAt avail "impl" (← natF j "impl")
  -- the ICU oracle: every string the model or the spec will parse must be in the table
  let accepted := useLocalesSsr header
  let needed := accepted ++ accepted.map trimAscii ++ specAccepted
  for s in needed do
    if (table.lookup s).isNone then .error s!"parse table lacks {String.ofList s}"
  let parse : Str → Option LangId := fun s => (table.lookup s).join
  let req : Request := { jarValue := jar, accepted := accepted }
  let (model, old) ← match kind with
    | "root" => pure (initRoot cfg parse .ssr featureCookie cookieFlag req,
        fetchLocale .ssr none (langCookie cfg featureCookie cookieFlag jar) (findLocaleNoTrim cfg parse accepted) true)
    | "fn" => pure (resolveWithOptions cfg parse .ssr featureCookie cookieFlag req,
        resolveLocale .ssr none (langCookie cfg featureCookie cookieFlag jar) (findLocaleNoTrim cfg parse accepted))
    | "sub" => pure (initSub cfg parse .ssr featureCookie cookieFlag req initial parent,
        subMemo true initial (subLangCookie cfg featureCookie cookieFlag jar)
          (signalMaybeOnceThen parent (findLocaleNoTrim cfg parse accepted) true))
    | k => .error s!"unknown kind {k}"
  if kind != "sub" && (initial.isSome || parent.isSome) then .error "initial/parent only for kind sub"
  -- specification
  let named := names.zip avail
  let inUse := if kind == "sub" then cookieFlag && featureCookie else featureCookie && cookieFlag
  let vc := Spec.cookieLocale named inUse jar
  let reqsSpec := specAccepted.filterMap parse
  let bm := (filterMatches reqsSpec avail).head?
  let spec := if kind == "sub" then Spec.subLocale vc initial parent bm dflt else Spec.rootLocale vc bm dflt
  let tier :=
    if vc.isSome then "cookie"
    else if kind == "sub" && initial.isSome then "initial"
    else if kind == "sub" && parent.isSome then "parent"
    else if bm.isSome then "negotiated" else "default"
  let judge (r : Loc) : Bool :=
    if tier == "negotiated" || tier == "default" then I18nVerif.Langid.Spec.acceptable reqsSpec avail dflt r
    else r == spec
  let setCookie := if kind == "fn" then [] else setCookieAfterInit inUse model
  return jobj [("accepted_model", jarr (accepted.map strJ)), ("model", jnat model.id), ("model_no_trim", jnat old.id),
    ("model_set_cookie", jarr (setCookie.map (fun l => jnat l.id))),
    ("spec", jnat spec.id), ("spec_tier", Json.str tier),
    ("spec_ok_impl", Json.bool (judge impl)), ("spec_ok_model", Json.bool (judge model))]

end Ctx

namespace CtxOps
open I18nVerif.Context

def stepJ (j : Json) : R Op := do
  match ← strF j "op" with
  | "new_root" => return .newRoot (← natF j "init")
  | "sub" => return .sub (← optF asNat j "parent") (← optF asNat j "initial") (← natF j "fallback")
  | "scope" => return .scope (← natF j "view")
  | "set" => return .set (← natF j "view") (← natF j "locale")
  | "set_untracked" => return .setUntracked (← natF j "view") (← natF j "locale")
  | "get" => return .get (← natF j "view")
  | "get_untracked" => return .getUntracked (← natF j "view")
  | "make_closure" => return .makeClosure (← natF j "view")
  | "call_closure" => return .callClosure (← natF j "closure")
  | "make_memo" => return .makeMemo (← natF j "view")
  | "read_memo" => return .readMemo (← natF j "memo")
  | "provide_root" => return .provideRoot (← natF j "init")
  | "child_owner" => return .childOwner (← natF j "owner")
  | "provider" => return .provider (← natF j "owner") (← optF asNat j "initial") (← natF j "fallback")
  | "use_ctx" => return .useCtx (← natF j "owner")
  | "tick" => return .tick
  | "sub_wired" => return .subWired (← optF asNat j "parent") (← natF j "locale")
  | "wire_set" => return .wireSet (← natF j "wire") (← natF j "locale")
  | o => .error s!"unknown step op {o}"

def obsJ : Obs → Json
  | .none => Json.null
  | .locale l => jobj [("locale", jnat l)]
  | .view v => jobj [("view", jnat v)]
  | .closure c => jobj [("closure", jnat c)]
  | .memo m => jobj [("memo", jnat m)]
  | .owner o => jobj [("owner", jnat o)]
  | .provided v o c => jobj [("view", jnat v), ("owner", jnat o), ("ctx", jnat c)]
  | .found v c => jobj [("view", jnat v), ("ctx", jnat c)]
  | .notFound => jobj [("not_found", Json.bool true)]
  | .wired v w => jobj [("view", jnat v), ("wire", jnat w)]
  | .bad => jobj [("bad", Json.bool true)]

/-- `{"op":"ctx.ops","steps":[..]}`: observations of the cell machine and of the history specification -/
def opOps (j : Json) : R Json := do
  let ops ← listF stepJ j "steps"
  let (s, obs) := run State.empty ops
  let spec := Spec.observations ops
  -- final read-back of every view
  let fin := (List.range s.views.length).map (fun v => jopt jnat (s.read v))
  let wires := s.wires.map (fun w => jobj [("ctx", jnat w.ctx), ("val", jnat w.val), ("seen", jnat w.seen)])
  return jobj [("model", jarr (obs.map obsJ)), ("spec", jarr (spec.map obsJ)), ("final", jarr fin),
    ("contexts", jnat s.cells.length), ("wires", jarr wires)]

end CtxOps

def opCtxResolve (j : Json) : R Json := Ctx.opResolve j
def opCtxOps (j : Json) : R Json := CtxOps.opOps j

end Driver
