import Driver.Util
import Driver.Dump
import I18nVerif.Model.Formatter
import I18nVerif.Model.FormatCache
import I18nVerif.Spec.FormatSpec
/-! Driver ops of C18: the documented option semantics (`fmt.spec`, `fmt.src`) and the formatter cache (`fmt.cache`). -/
namespace Driver
open Lean I18nVerif

def pairOf (j : Json) : R (Str × Str) := do
  match ← asArr j with
  | [k, v] => return (← chars k, ← chars v)
  | _ => .error s!"not a pair: {j.compress}"

/-- `{"op":"fmt.spec","name":"number","args":[["grouping_strategy","never"]]}` (`args: null` = no parentheses):
the documented formatter, and the model's `from_name_and_args` on the same (name, args) -/
def opFmtSpec (j : Json) : R Json := do
  let name ← charsF j "name"
  let args ← optF (asList pairOf) j "args"
  let spec := FormatSpec.specFormatter name (args.getD [])
  let model := Formatter.fromNameAndArgs name args
  return jobj [("spec", jopt dumpFmt spec), ("model", jopt dumpFmt model)]

def argSrc (j : Json) : R FormatSpec.ArgSrc := do
  return { w1 := ← charsF j "w1", key := ← charsF j "key", w2 := ← charsF j "w2",
           w3 := ← charsF j "w3", val := ← charsF j "val", w4 := ← charsF j "w4" }

/-- `{"op":"fmt.src","src":{"w0":..,"name":..,"w1":..,"inner":..,"w2":..,"args":null|[{"w1","key","w2","w3","val","w4"}]}}`:
the printed clause, whether the source is well-formed, the documented outcome and the model's `parse_formatter`
on the printed text -/
def opFmtSrc (j : Json) : R Json := do
  let sj ← field j "src"
  let src : FormatSpec.Src := {
    w0 := ← charsF sj "w0", name := ← charsF sj "name", w1 := ← charsF sj "w1",
    inner := ← charsF sj "inner", w2 := ← charsF sj "w2", args := ← optF (asList argSrc) sj "args" }
  let printed := src.print
  let spec := FormatSpec.specFormatter src.name src.pairs
  return jobj [("print", jstr printed), ("wf", Json.bool src.wf), ("spec", jopt dumpFmt spec),
    ("model", dumpRes dumpFmt (Formatter.parseFormatter printed))]

def cacheKind (s : String) : R FormatCache.Kind :=
  match s with
  | "currency" => .ok .currency
  | "number" => .ok .num
  | "date" => .ok .date
  | "time" => .ok .time
  | "datetime" => .ok .datetime
  | "list" => .ok .list
  | "plural" => .ok .pluralRule
  | _ => .error s!"bad cache kind {s}"

def cacheKey (j : Json) : R FormatCache.Key := do
  return { kind := ← cacheKind (← strF j "kind"), locale := ← natF j "locale", opts := ← listF asNat j "opts" }

/-- `{"op":"fmt.cache","reqs":[{"kind":"number","locale":1,"opts":[0]},..]}`: run the sequence through `step` from the
empty cache with `make` = identity on keys; per request the key whose formatter is served and hit/miss; final size -/
def opFmtCache (j : Json) : R Json := do
  let reqs ← listF cacheKey j "reqs"
  let (st, served) := FormatCache.run (fun k => k) [] reqs
  let hits := FormatCache.runHits (fun k => k) [] reqs
  let idx (k : FormatCache.Key) : Json := match reqs.findIdx? (· == k) with
    | some i => jnat i
    | none => Json.null
  return jobj [("served", jarr (served.map idx)), ("hits", jarr (hits.map Json.bool)), ("size", jnat st.length)]

end Driver
