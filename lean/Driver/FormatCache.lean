import Driver.Util
import Driver.Dump
import I18nVerif.Model.Formatter
import I18nVerif.Model.FormatCache
import I18nVerif.Spec.FormatSpec
/-! Driver ops of C18: the documented option semantics (`fmt.spec`, `fmt.src`) and the formatter cache (`fmt.cache`). -/
namespace Driver
open Lean I18nVerif

def pairOf (j : Json) : R (Str × Str) := do
  match ← asArr j with
  | [k, v] => return (← chars k, ← chars v)
  | _ => .error s!"not a pair: {j.compress}"

/-- `{"op":"fmt.spec","name":"number","args":[["grouping_strategy","never"]]}` (`args: null` = no parentheses):
the documented formatter, and the model's `from_name_and_args` on the same (name, args) -/
def opFmtSpec (j : Json) : R Json := do
  let name ← charsF j "name"
  let args ← optF (asList pairOf) j "args"
  let spec := FormatSpec.specFormatter name (args.getD [])
  let model := Formatter.fromNameAndArgs name args
  return jobj [("spec", jopt dumpFmt spec), ("model", jopt dumpFmt model)]

def argSrc (j : Json) : R FormatSpec.ArgSrc := do
  return { w1 := ← charsF j "w1", key := ← charsF j "key", w2 := ← charsF j "w2",
           w3 := ← charsF j "w3", val := ← charsF j "val", w4 := ← charsF j "w4" }

/-- `{"op":"fmt.src","src":{"w0":..,"name":..,"w1":..,"inner":..,"w2":..,"args":null|[{"w1","key","w2","w3","val","w4"}]}}`:
the printed clause, whether the source is well-formed, the documented outcome and the model's `parse_formatter`
on the printed text -/
def opFmtSrc (j : Json) : R Json := do
  let sj ← field j "src"
  let src : FormatSpec.Src := {
    w0 := ← charsF sj "w0", name := ← charsF sj "name", w1 := ← charsF sj "w1",
    inner := ← charsF sj "inner", w2 := ← charsF sj "w2", args := ← optF (asList argSrc) sj "args" }
  let printed := src.print
  let spec := FormatSpec.specFormatter src.name src.pairs
  return jobj [("print", jstr printed), ("wf", Json.bool src.wf), ("spec", jopt dumpFmt spec),
    ("model", dumpRes dumpFmt (Formatter.parseFormatter printed))]

/-- `{"op":"fmt.table"}`: the documented table (`FormatSpec.documented`) -/
def opFmtTable (_ : Json) : R Json :=
  return jarr (FormatSpec.documented.map (fun (n, ds) => jobj [("name", Json.str n),
    ("options", jarr (ds.map (fun d => jobj [("name", Json.str d.name), ("default", Json.str d.dflt),
      ("allowed", match d.allowed with
        | .oneOf vs => jarr (vs.map Json.str)
        | .code3 => Json.str "code3")])))]))

/-- `{"op":"fmt.doc","name":..,"key":..,"val":..}`: is `key` an option of formatter `name`, and does it accept `val`? -/
def opFmtDoc (j : Json) : R Json := do
  let name ← charsF j "name"
  let key ← charsF j "key"
  let val ← charsF j "val"
  match FormatSpec.optionsOf name with
  | none => return jobj [("formatter", Json.bool false), ("option", Json.bool false), ("value", Json.bool false)]
  | some ds =>
    match ds.find? (fun d => d.name.toList == key) with
    | none => return jobj [("formatter", Json.bool true), ("option", Json.bool false), ("value", Json.bool false)]
    | some d => return jobj [("formatter", Json.bool true), ("option", Json.bool true), ("value", Json.bool (d.allowed.ok val))]

def cacheKind (s : String) : R FormatCache.Kind :=
  match s with
  | "currency" => .ok .currency
  | "number" => .ok .num
  | "date" => .ok .date
  | "time" => .ok .time
  | "datetime" => .ok .datetime
  | "list" => .ok .list
  | "plural" => .ok .pluralRule
  | _ => .error s!"bad cache kind {s}"

def cacheKey (j : Json) : R FormatCache.Key := do
  return { kind := ← cacheKind (← strF j "kind"), locale := ← natF j "locale", opts := ← listF asNat j "opts" }

/-- `{"op":"fmt.cache","reqs":[{"kind":"time","locale":1,"opts":[0]},..],"refused":[{key}..]}`: run the sequence through
`step` from the empty cache with `make` = identity on keys, except on the `refused` keys (ICU4X refuses them: panic);
per request the index of the first request with the key whose formatter is served (`null` = panic), hit/miss;
final size; `poisoning`: the outcomes of the pre-repair behaviour (`true` = served) -/
def opFmtCache (j : Json) : R Json := do
  let reqs ← listF cacheKey j "reqs"
  let refused ← listF cacheKey j "refused"
  let make (k : FormatCache.Key) : Option FormatCache.Key := if refused.contains k then none else some k
  let (st, served) := FormatCache.run make [] reqs
  let hits := FormatCache.runHits make [] reqs
  let idx (k : Option FormatCache.Key) : Json := match k with
    | none => Json.null
    | some k => match reqs.findIdx? (· == k) with
      | some i => jnat i
      | none => Json.null
  let old := FormatCache.runPoisoning make ([], false) reqs
  return jobj [("served", jarr (served.map idx)), ("hits", jarr (hits.map Json.bool)), ("size", jnat st.length),
    ("poisoning", jarr (old.map (fun o => Json.bool o.isSome)))]

end Driver
