import Driver.Util
import I18nVerif.Model.Pipeline
/-! Canonical JSON dumps of model values (mirrors `harness/parser_h/src/dump.rs`). -/
namespace Driver
open Lean I18nVerif

def jString (s : String) : Json := Json.str s

def dumpDec (d : Dec) : Json := jstr d.display

def dumpFmt : Fmt → Json
  | .none => jobj [("f", "none")]
  | .number g => jobj [("f", "number"), ("g", jString (match g with | .auto => "auto" | .never => "never" | .always => "always" | .min2 => "min2"))]
  | .date d => jobj [("f", "date"), ("d", dl d)]
  | .time t => jobj [("f", "time"), ("t", tl t)]
  | .dateTime d t => jobj [("f", "datetime"), ("d", dl d), ("t", tl t)]
  | .list t s => jobj [("f", "list"), ("ty", jString (match t with | .and => "and" | .or => "or" | .unit => "unit")),
      ("st", jString (match s with | .wide => "wide" | .short => "short" | .narrow => "narrow"))]
  | .currency w c => jobj [("f", "currency"), ("w", jString (match w with | .short => "short" | .narrow => "narrow")), ("c", jstr c)]
where
  dl : DateLen → Json
    | .full => "full" | .long => "long" | .medium => "medium" | .short => "short"
  tl : TimeLen → Json
    | .full => "full" | .long => "long" | .medium => "medium" | .short => "short"

def dumpKeyPath (p : KeyPath) : Json :=
  jobj [("ns", jopt jstr p.ns), ("path", jarr (p.path.map jstr))]

def dumpLit : Lit → Json
  | .str s i => jobj [("t", "lit"), ("k", "str"), ("s", jstr s), ("i", jopt jnat i)]
  | .signed v => jobj [("t", "lit"), ("k", "signed"), ("v", jint v)]
  | .unsigned v => jobj [("t", "lit"), ("k", "unsigned"), ("v", jnat v)]
  | .float d => jobj [("t", "lit"), ("k", "float"), ("d", dumpDec d)]
  | .bool b => jobj [("t", "lit"), ("k", "bool"), ("v", Json.bool b)]

def dumpBound : Bound → Json
  | .incl v => jobj [("b", "incl"), ("v", dumpDec v)]
  | .excl v => jobj [("b", "excl"), ("v", dumpDec v)]
  | .unb => jobj [("b", "unb")]

partial def dumpRange : Range → Json
  | .exact v => jobj [("r", "exact"), ("v", dumpDec v)]
  | .bounds s e => jobj [("r", "bounds"), ("start", jopt dumpDec s), ("end", dumpBound e)]
  | .multi l => jobj [("r", "multi"), ("items", jarr (l.map dumpRange))]
  | .fallback => jobj [("r", "fallback")]

mutual
partial def dumpPV : PV → Json
  | .dflt => jobj [("t", "default")]
  | .lit l => dumpLit l
  | .var k f => jobj [("t", "var"), ("key", jstr k), ("fmt", dumpFmt f)]
  | .comp k i => jobj [("t", "comp"), ("key", jstr k), ("inner", dumpPV i)]
  | .bloc l => jobj [("t", "bloc"), ("items", jarr (l.map dumpPV))]
  | .fk (.notSet p args) => jobj [("t", "fk"), ("set", Json.bool false), ("path", dumpKeyPath p),
      ("args", jarr (args.map (fun (k, v) => jarr [jstr k, dumpPV v])))]
  | .fk (.set i) => jobj [("t", "fk"), ("set", Json.bool true), ("inner", dumpPV i)]
  | .ranges ck t bs => jobj [("t", "ranges"), ("count_key", jstr ck), ("ty", jString t.name),
      ("branches", jarr (bs.map (fun (r, v) => jarr [dumpRange r, dumpPV v])))]
  | .subkeys none => jobj [("t", "subkeys"), ("locale", Json.null)]
  | .subkeys (some l) => jobj [("t", "subkeys"), ("locale", dumpLoc l)]
  | .plurals r ck o fs => jobj [("t", "plurals"), ("rule", jString (match r with | .cardinal => "cardinal" | .ordinal => "ordinal")),
      ("count_key", jstr ck), ("other", dumpPV o), ("forms", jarr (fs.map (fun (f, v) => jarr [jString f.name, dumpPV v])))]
partial def dumpLoc : Loc → Json
  | .mk n t keys strs c => jobj [("name", jstr n), ("top", jstr t),
      ("keys", jarr (keys.map (fun (k, v) => jarr [jstr k, dumpPV v]))), ("strings", jarr (strs.map jstr)), ("count", jnat c)]
end

def dumpRes (f : α → Json) : Res α → Json
  | .ok a => jobj [("ok", f a)]
  | .err k => jobj [("err", jString k)]
  | .panic s => jobj [("panic", jString s)]

def dumpWarning : Warning → Json
  | .missing l p => jobj [("w", "missing"), ("locale", jstr l), ("path", dumpKeyPath p)]
  | .surplus l p => jobj [("w", "surplus"), ("locale", jstr l), ("path", dumpKeyPath p)]
  | .unusedForm l p f r => jobj [("w", "unused_form"), ("locale", jstr l), ("path", dumpKeyPath p), ("form", jString f.name),
      ("rule", jString (match r with | .cardinal => "cardinal" | .ordinal => "ordinal"))]

def dumpIOL : Check.IOL → Json
  | .lit t => jobj [("lit", jString (match t with | .string => "string" | .bool => "bool" | .signed => "signed" | .unsigned => "unsigned" | .float => "float"))]
  | .interpol k => jobj [("interpol", jobj [("comps", jarr (k.comps.map jstr)),
      ("vars", jarr (k.vars.map (fun (n, info) => jarr [jstr n, jobj [("fmts", jarr (info.fmts.map dumpFmt)),
        ("count", match info.count with
          | none => Json.null
          | some .plural => "plural"
          | some (.range t) => jString t.name)]])))])]

partial def dumpBKI (all : List Str) (b : Check.BKI) : Json :=
  jarr (b.map (fun (k, lv) => jarr [jstr k, match lv with
    | .value v d => jobj [("v", "value"), ("value", dumpIOL v),
        ("defaults", jobj [("default_locale", jstr d.dflt), ("mapping", jarr (d.mapping.map (fun (a, b) => jarr [jstr a, jstr b]))),
          ("effective", jarr (all.map (fun l => jarr [jstr l, jstr (Check.defaultOf d (d.mapping.length + 1) l [])]))),
          ("compute", jarr ((Check.compute d).map (fun (a, l) => jarr [jstr a, jarr (l.map jstr)])))])]
    | .subkeys locales keys => jobj [("v", "subkeys"), ("locales", jarr (locales.map dumpLoc)), ("keys", dumpBKI all keys)]]))

def dumpOutput (o : Pipeline.Output) : Json :=
  jobj [("namespaced", Json.bool o.namespaced),
    ("nss", jarr (o.nss.map (fun ns => jobj [("key", jopt jstr ns.key), ("locales", jarr (ns.locales.map dumpLoc)), ("keys", dumpBKI o.locales ns.keys)]))),
    ("warnings", jarr (o.warnings.map dumpWarning))]

end Driver
