import Driver.Pipeline
import I18nVerif.Spec.Eval
/-!
`eval.batch`: the denotation `Spec/Eval.lean` evaluated by Lean on value trees dumped by the *implementation*
(the inverse of `dumpPV`) under environments given as data.  The python runner uses its own mirror of `Eval.eval`
for control flow; every (tree, environment, text) triple it produced is re-evaluated here, so the mirror is checked
against the Lean specification on every use.
-/
namespace Driver
open Lean I18nVerif

def readFmt (j : Json) : R Fmt := do
  let f ← strF j "f"
  let g (k : String) : R String := strF j k
  match f with
  | "none" => return .none
  | "number" => do
    let v ← g "g"
    return .number (if v == "never" then .never else if v == "always" then .always else if v == "min2" then .min2 else .auto)
  | "date" => do return .date (dl (← g "d"))
  | "time" => do return .time (tl (← g "t"))
  | "datetime" => do return .dateTime (dl (← g "d")) (tl (← g "t"))
  | "list" => do
    let t ← g "ty"; let s ← g "st"
    return .list (if t == "and" then .and else if t == "or" then .or else .unit)
      (if s == "short" then .short else if s == "narrow" then .narrow else .wide)
  | "currency" => do
    let w ← g "w"
    return .currency (if w == "narrow" then .narrow else .short) (← charsF j "c")
  | other => .error s!"bad formatter {other}"
where
  dl (s : String) : DateLen := if s == "full" then .full else if s == "long" then .long else if s == "short" then .short else .medium
  tl (s : String) : TimeLen := if s == "full" then .full else if s == "long" then .long else if s == "medium" then .medium else .short

def readDec (j : Json) : R Dec := do decStr (← asStr j)

def readBound (j : Json) : R Bound := do
  match ← strF j "b" with
  | "incl" => return .incl (← readDec (← field j "v"))
  | "excl" => return .excl (← readDec (← field j "v"))
  | _ => return .unb

partial def readRange (j : Json) : R Range := do
  match ← strF j "r" with
  | "exact" => return .exact (← readDec (← field j "v"))
  | "bounds" => return .bounds (← optF readDec j "start") (← readBound (← field j "end"))
  | "multi" => return .multi (← listF readRange j "items")
  | _ => return .fallback

partial def readPV (j : Json) : R PV := do
  match ← strF j "t" with
  | "default" => return .dflt
  | "lit" =>
    match ← strF j "k" with
    | "str" => return .lit (.str (← charsF j "s") (← optF asNat j "i"))
    | "signed" => return .lit (.signed (← intF j "v"))
    | "unsigned" => return .lit (.unsigned (← natF j "v"))
    | "float" => return .lit (.float (← readDec (← field j "d")))
    | _ => return .lit (.bool (← boolF j "v"))
  | "var" => return .var (← charsF j "key") (← readFmt (← field j "fmt"))
  | "comp" => return .comp (← charsF j "key") (← readPV (← field j "inner"))
  | "bloc" => return .bloc (← listF readPV j "items")
  | "fk" =>
    if ← boolF j "set" then return .fk (.set (← readPV (← field j "inner")))
    else return .fk (.notSet ⟨none, []⟩ [])
  | "ranges" =>
    let t ← tyOf (← strF j "ty")
    let bs ← listF (fun e => do
      match ← asArr e with
      | [r, v] => return (← readRange r, ← readPV v)
      | _ => .error "bad branch") j "branches"
    return .ranges (← charsF j "count_key") t bs
  | "plurals" =>
    let fs ← listF (fun e => do
      match ← asArr e with
      | [f, v] => return (← formOf (← asStr f), ← readPV v)
      | _ => .error "bad form") j "forms"
    return .plurals (← ruleOf (← strF j "rule")) (← charsF j "count_key") (← readPV (← field j "other")) fs
  | "subkeys" => return .subkeys none
  | other => .error s!"bad value tag {other}"

/-- environment as data: `vars` (key ↦ text), `var_default` = [prefix, suffix] around `key` (`|fmt` appended to the key
    when there is a formatter and `var_fmt` is true), `comp` = [open-prefix, open-suffix, close-prefix, close-suffix] around
    the tag of the key (`tags`: key ↦ tag, default the key itself), `counts`, `count_default`, `cats` ([rule, count, form]) -/
def readEnv (j : Json) : R Eval.Env := do
  let vars ← listF (fun e => do
    match ← asArr e with
    | [k, v] => return ((← asStr k).toList, (← asStr v).toList)
    | _ => .error "bad var") j "vars"
  let vd ← listF chars j "var_default"
  let varFmt ← boolF j "var_fmt"
  let comp ← listF chars j "comp"
  let tags ← listF (fun e => do
    match ← asArr e with
    | [k, v] => return ((← asStr k).toList, (← asStr v).toList)
    | _ => .error "bad tag") j "tags"
  let counts ← listF (fun e => do
    match ← asArr e with
    | [k, v] => return ((← asStr k).toList, ← readDec v)
    | _ => .error "bad count") j "counts"
  let cd ← readDec (← field j "count_default")
  let cats ← listF (fun e => do
    match ← asArr e with
    | [r, c, f] => return (← ruleOf (← asStr r), ← readDec c, ← formOf (← asStr f))
    | _ => .error "bad cat") j "cats"
  let catDefault ← formOf (← strF j "cat_default")
  let closeTag ← boolF j "close_tag"
  match vd, comp with
  | [vp, vs], [c1, c2, c3, c4] =>
    let fmtName (f : Fmt) : Str := match f with
      | .none => []
      | .number _ => "|number".toList | .date _ => "|date".toList | .time _ => "|time".toList
      | .dateTime _ _ => "|datetime".toList | .list _ _ => "|list".toList | .currency _ _ => "|currency".toList
    return {
      var := fun k f => match vars.find? (fun (k', _) => k' == k) with
        | some (_, v) => v
        | none => vp ++ k ++ (if varFmt then fmtName f else []) ++ vs
      comp := fun k inner =>
        let t := match tags.find? (fun (k', _) => k' == k) with
          | some (_, t) => t
          | none => k
        c1 ++ t ++ c2 ++ inner ++ c3 ++ (if closeTag then t else []) ++ c4
      count := fun k => match counts.find? (fun (k', _) => k' == k) with
        | some (_, c) => c
        | none => cd
      cat := fun r c => match cats.find? (fun (r', c', _) => r' == r && Dec.eq c' c) with
        | some (_, _, f) => f
        | none => catDefault }
  | _, _ => .error "bad env templates"

/-- `{"op":"eval.batch","envs":[..],"items":[[envIndex, tree, expectedText]..]}` → indices whose Lean denotation differs -/
def opEvalBatch (j : Json) : R Json := do
  let envs ← listF readEnv j "envs"
  let items ← listF (fun e => do
    match ← asArr e with
    | [i, t, x] => return (← asNat i, ← readPV t, (← asStr x).toList)
    | _ => .error "bad item") j "items"
  let mut bad : List Json := []
  let mut n := 0
  for (i, v, x) in items do
    match envs[i]? with
    | none => throw s!"bad env index {i}"
    | some ρ =>
      let got := Eval.eval ρ v
      if got != x then bad := bad ++ [jobj [("index", jnat n), ("lean", jstr got)]]
    n := n + 1
  return jobj [("checked", jnat n), ("mismatches", jarr bad)]

end Driver
