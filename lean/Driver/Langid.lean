import Driver.Util
import I18nVerif.Model.Langid
import I18nVerif.Spec.Langid
namespace Driver
open Lean I18nVerif.Langid

def langId (j : Json) : R LangId := do
  return { lang := ← optF asNat j "l", script := ← optF asNat j "s", region := ← optF asNat j "r",
           variants := ← listF asNat j "v" }

/-- `{"op":"langid.filter","reqs":[..],"avail":[..]}`: `avail[i]` gets id `i`; default = id 0 -/
def opLangidFilter (j : Json) : R Json := do
  let reqs ← listF langId j "reqs"
  let av ← listF langId j "avail"
  let avail := (List.range av.length).zip av |>.map (fun (i, l) => ({ id := i, lid := l } : Loc))
  match avail with
  | [] => .error "empty avail"
  | d :: _ =>
    let ms := filterMatches reqs avail
    let f := findMatch reqs avail d
    let perReq := reqs.map (fun r => jarr ((filterMatches [r] avail).map (fun l => jnat l.id)))
    -- the implementation's answer, judged by the specification
    let implFind ← natF j "impl_find"
    let specImpl := match avail[implFind]? with
      | some r => Spec.acceptable reqs avail d r
      | none => false
    return jobj [("matches", jarr (ms.map (fun l => jnat l.id))), ("find", jnat f.id), ("per_req", jarr perReq),
      ("spec_ok_model", Json.bool (Spec.acceptable reqs avail d f)), ("spec_ok_impl", Json.bool specImpl),
      ("served", Json.bool (Spec.firstServed reqs avail).isSome)]

end Driver
