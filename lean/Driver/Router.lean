import Driver.Util
import I18nVerif.Model.Router
import I18nVerif.Spec.Router
import I18nVerif.Spec.RouterNested
namespace Driver
open Lean I18nVerif.Router

/-- `["u"]`, `["s","about"]`, `["p","id"]`, `["o","id"]`, `["w","rest"]` -/
def pseg (j : Json) : R PSeg := do
  let a ← asArr j
  match a with
  | [k] =>
    if (← asStr k) == "u" then return .unit else .error s!"bad segment {j.compress}"
  | [k, v] =>
    let v ← chars v
    match (← asStr k) with
    | "s" => return .static v
    | "p" => return .param v
    | "o" => return .optional v
    | "w" => return .splat v
    | _ => .error s!"bad segment {j.compress}"
  | _ => .error s!"bad segment {j.compress}"

def prow (j : Json) : R Row := asList pseg j
def ptables (j : Json) : R Tables := asList prow j

/-- `[[0, tables], [2, tables]]` -/
def pcfgTables (j : Json) : R (List (Nat × Tables)) :=
  asList (fun e => do
    match (← asArr e) with
    | [i, t] => return (← asNat i, ← ptables t)
    | _ => .error s!"bad tables entry {e.compress}") j

def pcfg (j : Json) : R Cfg := do
  return { names := ← listF chars j "names", tables := ← pcfgTables (← field j "tables") }

def joutStr : Outcome Str → Json
  | .ok s => jobj [("ok", jstr s)]
  | .panic m => jobj [("panic", Json.str m)]

def jbool (b : Bool) : Json := Json.bool b

/-- `{"op":"router.locale","names":[..],"path":..,"base":..,"impl":idx|null}` -/
def opRouterLocale (j : Json) : R Json := do
  let names ← listF chars j "names"
  let path ← charsF j "path"
  let base ← charsF j "base"
  let impl ← optF asNat j "impl"
  let m := getLocaleFromPath names path base
  return jobj [("model", jopt jnat m), ("old", jopt jnat (getLocaleFromPathOld names path base)),
    ("spec_ok_model", jbool (Spec.localeOk names path base m)),
    ("spec_ok_impl", jbool (Spec.localeOk names path base impl)),
    ("under_base", jbool (Spec.afterBase path base).isSome),
    ("first", jopt jstr ((Spec.afterBase path base).bind List.head?))]

/-- `{"op":"router.new_path", names, tables, path, search, hash, base, new, locale, impl: str|null}` -/
def opRouterNewPath (j : Json) : R Json := do
  let c ← pcfg j
  let path ← charsF j "path"
  let search ← charsF j "search"
  let hash ← charsF j "hash"
  let base ← charsF j "base"
  let new ← natF j "new"
  let loc ← optF asNat j "locale"
  let impl ← optF chars j "impl"
  if new ≥ c.names.length then .error "new locale out of range"
  if (loc.getD 0) ≥ c.names.length then .error "locale out of range"
  let tA := c.lookup (loc.getD 0)
  let tB := c.lookup new
  let m := c.getNewPath path search hash base new loc
  -- the strong judgement `switchOkFull` (= `switchOkStrong`: `switchOk` and "served by the same route of the new
  -- locale whenever a route of the old locale serves the old URL"), proved of the model by
  -- `C14_switch_rewrites_localized` / `C14_switch_rewrites_localized_full_statement`
  let judge (o : Str) : Bool := Spec.switchOkFull c.names tA tB path search hash base new loc o
  let specModel : Json := match m with
    | .ok o => jbool (judge o)
    | .panic _ => Json.null
  let rest := match Spec.afterBase path base with
    | some r => Spec.restOf c.names r loc
    | none => []
  let localized := match tA, tB with
    | some o, some _ => (firstMatch rest o 0).isSome
    | _, _ => false
  return jobj [("model", joutStr m), ("spec_ok_model", specModel),
    ("spec_ok_impl", jopt (fun o => jbool (judge o)) impl),
    ("spec_weak_ok_impl", jopt (fun o => jbool (Spec.switchOk c.names tA tB path search hash base new loc o)) impl),
    ("compat", jbool (Spec.compatOpt tA tB)),
    ("under_base", jbool (Spec.afterBase path base).isSome),
    ("localized", jbool localized)]

def joutList : Outcome (List Str) → Json
  | .ok l => jobj [("ok", jarr (l.map jstr))]
  | .panic m => jobj [("panic", Json.str m)]

/-- every step of a history judged by `Spec.switchOkFull` (no query, no hash): `outs[i]` is the pathname after step `i` -/
def seqJudge (c : Cfg) (base : Str) : Str → Option Nat → List Nat → List Str → Bool
  | _, _, [], [] => true
  | path, cur, new :: rest, out :: outs =>
    Spec.switchOkFull c.names (c.lookup (cur.getD 0)) (c.lookup new) path [] [] base new cur out
      && seqJudge c base out (some new) rest outs
  | _, _, _, _ => false

/-- all the pairs of tables used along the history have the shape the router generates -/
def seqCompat (c : Cfg) : Option Nat → List Nat → Bool
  | _, [] => true
  | cur, new :: rest => Spec.compatOpt (c.lookup (cur.getD 0)) (c.lookup new) && seqCompat c (some new) rest

/-- the locales read back from the pathnames, judged by `Spec.localeOk` -/
def readsJudge (names : List Str) (base : Str) : List Str → List (Option Nat) → Bool
  | [], [] => true
  | p :: ps, r :: rs => Spec.localeOk names p base r && readsJudge names base ps rs
  | _, _ => false

/-- `{"op":"router.switch_seq", names, tables, path, base, locale, seq, impl: [pathnames]|null, impl_reads: [idx|null]|null}` -/
def opRouterSwitchSeq (j : Json) : R Json := do
  let c ← pcfg j
  let path ← charsF j "path"
  let base ← charsF j "base"
  let loc ← optF asNat j "locale"
  let seq ← listF asNat j "seq"
  let impl ← optF (asList chars) j "impl"
  let implReads ← optF (asList (asOpt asNat)) j "impl_reads"
  if seq.any (fun l => l ≥ c.names.length) then .error "seq locale out of range"
  if (loc.getD 0) ≥ c.names.length then .error "locale out of range"
  let m := c.switchSeq base path loc seq
  let mreads : Option (List (Option Nat)) := match m with
    | .ok ps => some (ps.map (fun p => getLocaleFromPath c.names p base))
    | .panic _ => none
  let specModel : Json := match m, mreads with
    | .ok ps, some rs => jbool (seqJudge c base path loc seq ps && readsJudge c.names base ps rs)
    | _, _ => Json.null
  let specImpl : Json := match impl, implReads with
    | some ps, some rs => jobj [("steps", jbool (seqJudge c base path loc seq ps)), ("reads", jbool (readsJudge c.names base ps rs))]
    | _, _ => Json.null
  return jobj [("model", joutList m), ("reads", jopt (fun rs => jarr (rs.map (jopt jnat))) mreads),
    ("compat", jbool (seqCompat c loc seq)), ("spec_ok_model", specModel), ("spec_ok_impl", specImpl),
    ("under_base", jbool (Spec.afterBase path base).isSome)]

/-- `{"op":"router.roundtrip", names, tables, base, a, b, r, path, impl: [p1,p2]|null}`:
    the hypotheses of `C14_switch_roundtrip` and its conclusion on the model and on the implementation -/
def opRouterRoundtrip (j : Json) : R Json := do
  let c ← pcfg j
  let base ← charsF j "base"
  let a ← natF j "a"
  let b ← natF j "b"
  let r ← listF chars j "r"
  let path ← charsF j "path"
  let impl ← optF (asList chars) j "impl"
  if a ≥ c.names.length || b ≥ c.names.length then .error "locale out of range"
  let hyp := Spec.roundtripHyp c.names (c.lookup a) (c.lookup b) base a b r
  let u0 := Spec.normalPath base (Spec.localePrefix c.names a) r
  let m := c.switchSeq base path (some a) [b, a]
  let okModel := match m with
    | .ok [_, p2] => p2 == path
    | _ => false
  let okImpl := match impl with
    | some [_, p2] => p2 == path
    | _ => false
  return jobj [("hyp", jbool (hyp && u0 == path)), ("u0", jstr u0), ("model", joutList m),
    ("ok_model", jbool okModel), ("ok_impl", jbool okImpl)]

def opRouterMatch (j : Json) : R Json := do
  let ss ← listF chars j "segs"
  let row ← prow (← field j "pattern")
  return jobj [("optionals", jopt (fun l => jarr (l.map jnat)) (matchSegs row ss 0 []))]

def opRouterConstruct (j : Json) : R Json := do
  let ss ← listF chars j "segs"
  let row ← prow (← field j "pattern")
  let opts ← listF asNat j "optionals"
  return match construct row ss 0 opts PB.new with
    | .ok b => jobj [("ok", jstr b.build)]
    | .panic m => jobj [("panic", Json.str m)]

def opRouterLocalize (j : Json) : R Json := do
  let path ← charsF j "path"
  let o ← ptables (← field j "old")
  let n ← ptables (← field j "new")
  return match localizePath path o n PB.new with
    | .ok (some b) => jobj [("ok", jobj [("localized", jbool true), ("built", jstr b.build)])]
    | .ok none => jobj [("ok", jobj [("localized", jbool false), ("built", jstr PB.new.build)])]
    | .panic m => jobj [("panic", Json.str m)]

def opRouterPathBuilder (j : Json) : R Json := do
  let ps ← listF chars j "pushes"
  let b := PB.new.pushAll ps
  return jobj [("built", jstr b.build), ("segments", jarr ((Spec.segments b.build).map jstr))]

/-! #### `I18nNestedRoute` (route matching): `Spec/RouterNested.lean` -/

def jcand (c : Spec.Candidate) : Json :=
  jarr [jopt jnat c.reports, jnat c.segmentsOf, jarr (c.rest.map jstr)]

def pcand (j : Json) : R Spec.Candidate := do
  match (← asArr j) with
  | [r, s, rest] => return { reports := ← asOpt asNat r, segmentsOf := ← asNat s, rest := ← asList chars rest }
  | _ => .error s!"bad candidate {j.compress}"

/-- `{"locale": idx|null, "m": descriptor|null}`; `m = null`: no route matched -/
def presult (j : Json) : R (Option (Option Nat × String)) := do
  let m ← optF asStr j "m"
  let l ← optF asNat j "locale"
  return m.map (fun m => (l, m))

def jresult : Option (Option Nat × String) → Json
  | none => jobj [("locale", Json.null), ("m", Json.null)]
  | some (l, m) => jobj [("locale", jopt jnat l), ("m", Json.str m)]

/-- `{"op":"router.nested", names, path, base, cands: [[reports|null, segmentsOf, [rest]]] (the caller's own
    computation, cross-checked), oracle: [descriptor|null per candidate] (what leptos_router answers for the plain tree
    of that candidate's locale on its segments), impl: null (panicked) | {"locale": idx|null, "m": descriptor|null}}` -/
def opRouterNested (j : Json) : R Json := do
  let names ← listF chars j "names"
  let path ← charsF j "path"
  let base ← charsF j "base"
  let mirror ← listF pcand j "cands"
  let oracle ← listF (asOpt asStr) j "oracle"
  let impl ← optF presult j "impl"
  let cands := Spec.routeCandidates names path base
  let cs := cands.getD []
  if oracle.length != cs.length then .error s!"oracle answers {oracle.length} for {cs.length} candidates"
  let table := cs.zip oracle
  let serves (c : Spec.Candidate) : Option String := (table.find? (fun e => e.1 == c)).bind (·.2)
  let expected := Spec.expectedMatch cands serves
  return jobj [("under_base", jbool cands.isSome), ("cands", jarr (cs.map jcand)), ("mirror_ok", jbool (mirror == cs)),
    ("first", jopt jstr ((Spec.afterBase path base).bind List.head?)),
    ("expected", jresult expected),
    ("spec_ok_impl", jopt (fun r => jbool (Spec.nestedRouteOk cands serves r)) impl),
    ("locale_ok_impl", jopt (fun r => jbool (Spec.reportedLocaleOk names path base (r.bind (·.1)))) impl)]

def jpseg : PSeg → Json
  | .unit => jarr [Json.str "u"]
  | .static v => jarr [Json.str "s", jstr v]
  | .param v => jarr [Json.str "p", jstr v]
  | .optional v => jarr [Json.str "o", jstr v]
  | .splat v => jarr [Json.str "w", jstr v]

def jtables (t : Tables) : Json := jarr (t.map (fun r => jarr (r.map jpseg)))

/-- `{"op":"router.tables", names, tables: [tables of locale 0, of locale 1, ...], routes: tables}`: the hypothesis
    `compatTables` of the switching theorems on every pair of generated tables, and the N + 1 families -/
def opRouterTables (j : Json) : R Json := do
  let names ← listF chars j "names"
  let ts ← listF ptables j "tables"
  let routes ← ptables (← field j "routes")
  if ts.length != names.length then .error "one table per locale expected"
  let fam := Spec.familiesOf names ts
  return jobj [("compat", jbool (Spec.allCompat ts)), ("families_ok", jbool (routes == fam)), ("families", jtables fam)]

end Driver
