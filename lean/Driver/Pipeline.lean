import Driver.Dump
import I18nVerif.Model.Manifest
namespace Driver
open Lean I18nVerif

def decStr (s : String) : R Dec :=
  -- decimal text `[-]ddd[.ddd]` as written in the file
  let cs := s.toList
  let (neg, body) : Bool × Str := match cs with
    | '-' :: r => (true, r)
    | _ => (false, cs)
  let intD := body.takeWhile Str.isDigit
  let rest := body.dropWhile Str.isDigit
  let frac : Option Str := match rest with
    | [] => some []
    | '.' :: f => if f.all Str.isDigit && !f.isEmpty then some f else none
    | _ => none
  match frac with
  | none => .error s!"bad decimal {s}"
  | some f =>
    if intD.isEmpty then .error s!"bad decimal {s}" else
    let m : Nat := (intD ++ f).foldl (fun acc c => acc * 10 + Str.digitVal c) 0
    .ok ⟨if neg then -(m : Int) else m, f.length⟩

/-- transport format of a decoded file tree: null | bool | "string" | {"u":n} | {"i":n} | {"f":"1.5"} |
    {"a":[..]} | {"o":[[key, value], ..]} (objects keep document order) -/
partial def toJ (j : Json) : R J :=
  match j with
  | .null => .ok .null
  | .bool b => .ok (.bool b)
  | .str s => .ok (.str s.toList)
  | .obj _ =>
    match j.getObjVal? "u", j.getObjVal? "i", j.getObjVal? "f", j.getObjVal? "a", j.getObjVal? "o" with
    | .ok u, _, _, _, _ => do return .unsigned (← asNat u)
    | _, .ok i, _, _, _ => do return .signed (← asInt i)
    | _, _, .ok f, _, _ => do return .float (← decStr (← asStr f))
    | _, _, _, .ok a, _ => do return .arr (← asList toJ a)
    | _, _, _, _, .ok o => do
      let entries ← asList (fun e => do
        match ← asArr e with
        | [k, v] => return ((← asStr k).toList, ← toJ v)
        | _ => .error "bad object entry") o
      return .obj entries
    | _, _, _, _, _ => .error s!"bad tree node {j.compress}"
  | _ => .error s!"bad tree node {j.compress}"

def ruleOf (s : String) : R RuleTy :=
  if s == "cardinal" then .ok .cardinal else if s == "ordinal" then .ok .ordinal else .error s!"bad rule {s}"

def formOf (s : String) : R Form :=
  match Form.ofStr s.toList with
  | some f => .ok f
  | none => .error s!"bad form {s}"

def oracleOf (j : Json) : R Oracle := do
  let cats ← listF (fun e => do
    match ← asArr e with
    | [l, r, fs] => return ((← asStr l).toList, ← ruleOf (← asStr r), ← asOpt (asList (fun f => do formOf (← asStr f))) fs)
    | _ => .error "bad cats entry") j "cats"
  let cat ← listF (fun e => do
    match ← asArr e with
    | [l, r, k, f] => return ((← asStr l).toList, ← ruleOf (← asStr r), (← asStr k).toList, ← formOf (← asStr f))
    | _ => .error "bad cat entry") j "cat"
  return {
    cats := fun l r => match cats.find? (fun (l', r', _) => l' == l && r' == r) with
      | some (_, _, fs) => fs
      | none => none
    cat := fun l r k => (cat.find? (fun (l', r', k', _) => l' == l && r' == r && k' == k)).map (fun (_, _, _, f) => f) }

def cfgOf (j : Json) : R Config.Config := do
  let inh ← listF (fun e => do
    match ← asArr e with
    | [a, b] => return ((← asStr a).toList, (← asStr b).toList)
    | _ => .error "bad inherits entry") j "inherits"
  return { default := ← charsF j "default", locales := ← listF chars j "locales",
           namespaces := ← optF (asList chars) j "namespaces", localesDir := "locales".toList,
           inherits := AMap.ofList inh }

def inputOf (j : Json) : R Pipeline.Input := do
  let cfg ← cfgOf (← field j "cfg")
  let files ← listF (fun e => do
    match ← asArr e with
    | [ns, l, t] => return ((← asOpt chars ns, (← asStr l).toList), ← toJ t)
    | _ => .error "bad file entry") j "files"
  return { cfg, files, oracle := ← oracleOf (← field j "oracle"), suppress := ← boolF j "suppress" }

def opPipelineRun (j : Json) : R Json := do
  let inp ← inputOf j
  return dumpRes dumpOutput (Pipeline.run inp)

def opParseNew (j : Json) : R Json := do
  return dumpRes dumpPV (Parse.new (← charsF j "s"))

def tyOf (s : String) : R RangeTy :=
  match Ranges.tyOfStr s.toList with
  | some t => .ok t
  | none => .error s!"bad range type {s}"

def opRangeNew (j : Json) : R Json := do
  let t ← tyOf (← strF j "ty")
  let r := Ranges.new t (← charsF j "s")
  let counts ← listF (fun c => do decStr (← asStr c)) j "counts"
  let ms := match r with
    | .ok r => jarr (counts.map (fun c => Json.bool (Ranges.doMatch r c)))
    | _ => Json.null
  return jobj [("range", dumpRes dumpRange r), ("matches", ms)]

def opKeyNew (j : Json) : R Json := do
  return jopt jstr (Key.new (← charsF j "s"))

partial def toTV (j : Json) : R Config.TV :=
  match j with
  | .str s => .ok (.str s.toList)
  | .arr a => do return .arr (← mapM' toTV a.toList)
  | .obj _ => do
    let entries ← listF (fun e => do
      match ← asArr e with
      | [k, v] => return ((← asStr k).toList, ← toTV v)
      | _ => .error "bad table entry") j "t"
    return .table entries
  | _ => .ok .other

def opConfigNew (j : Json) : R Json := do
  let entries ← listF (fun e => do
    match ← asArr e with
    | [k, v] => return ((← asStr k).toList, ← toTV v)
    | _ => .error "bad table entry") j "table"
  return dumpRes (fun (c : Config.Config) => jobj [("default", jstr c.default), ("locales", jarr (c.locales.map jstr)),
    ("namespaces", jopt (fun l => jarr (l.map jstr)) c.namespaces), ("locales_dir", jstr c.localesDir),
    ("inherits", jarr (c.inherits.map (fun (a, b) => jarr [jstr a, jstr b])))]) (Config.new entries)

/-- `split_at_config_section` and the text handed to the TOML parser -/
def opManifestSplit (j : Json) : R Json := do
  let m := (← strF j "text").toList
  match Manifest.splitAtSection m, Manifest.whitespaced m with
  | some (b, r), some w => return jobj [("before", jstr b), ("after", jstr r), ("whitespaced", jstr w)]
  | none, none => return jobj [("absent", Json.bool true)]
  | _, _ => .error "splitAtSection and whitespaced disagree"

end Driver
