import Lean
/-!
`lake env lean --run scripts/Audit.lean <Module> <prefix>`

Loads the compiled module, finds every theorem whose last name component starts with
`<prefix>` and prints one JSON line per theorem: `{"theorem": name, "axioms": [...]}`.
The runner fails the check when an axiom outside {propext, Classical.choice, Quot.sound}
(in particular `sorryAx` or a `native_decide`/`bv_decide` axiom) shows up.
-/
open Lean

def lastComp : Name → String
  | .str _ s => s
  | _ => ""

unsafe def main (args : List String) : IO UInt32 := do
  match args with
  | [modName, pfx] =>
    initSearchPath (← findSysroot)
    enableInitializersExecution
    let env ← importModules #[{ module := modName.toName }] {} (loadExts := true)
    let mut n := 0
    for (name, ci) in env.constants.toList do
      if (lastComp name).startsWith pfx then
        match ci with
        | .thmInfo _ =>
          let (axsArr, _) ← (collectAxioms name : CoreM (Array Name)).toIO
            { fileName := "<audit>", fileMap := default } { env := env }
          let axs := axsArr.toList.map (fun a => Json.str a.toString)
          IO.println (Json.mkObj [("theorem", Json.str name.toString), ("axioms", Json.arr axs.toArray)]).compress
          n := n + 1
        | _ => pure ()
    if n == 0 then
      IO.eprintln s!"no theorem with prefix {pfx} in {modName}"
      return 1
    return 0
  | _ =>
    IO.eprintln "usage: Audit <Module> <prefix>"
    return 2
