"""C11 — exported string tables match the indices the generated code reads.
Theorems: Theorems/C11.lean (push_str / index_strings / table length / propagate), Theorems/C11json.lean (JSON
round trip of the exported file).  Correspondence: (P) for every generated project, every string literal of every
locale's final value tree carries an index i with table[i] = its text, the table has no duplicates, its length is
the count the code generator is given, nested subkey locales carry the count of their top locale; impl vs model on
the whole dump.  (B) build helper `write_to_dir` files decoded and compared (vlib/c11json.py)."""
from .pipe import *
from . import c11json

RULE = ("generated projects (subkeys, namespaces, defaulted locales, foreign keys duplicating strings, ranges, plurals); every top-level locale "
        "of every project is one evaluation of the index/table invariants; plus the JSON-export half (see C11json rule); non-trivial = the "
        "locale's table has at least 2 strings; distinct = distinct table")


def walk_lits(v, out):
    t = v["t"]
    if t == "lit":
        if v["k"] == "str":
            out.append(v)
    elif t == "comp":
        walk_lits(v["inner"], out)
    elif t == "bloc":
        for x in v["items"]:
            walk_lits(x, out)
    elif t == "ranges":
        for _, b in v["branches"]:
            walk_lits(b, out)
    elif t == "plurals":
        for _, b in v["forms"]:
            walk_lits(b, out)
        walk_lits(v["other"], out)
    elif t == "fk" and v.get("set"):
        walk_lits(v["inner"], out)


def check_ns(ctx, p, ns_out):
    tops = {l["top"]: l for l in ns_out["locales"]}

    def check_value(loc, top, k, v):
        tbl = top["strings"]
        lits = []
        walk_lits(v, lits)
        for lit in lits:
            i = lit["i"]
            if i is None or i >= len(tbl) or tbl[i] != lit["s"]:
                report_violation(ctx, "tables:index-does-not-hold-the-text", {
                    "case": project_text(p), "locale": top["name"], "key": k, "literal": lit, "table": tbl,
                    "expected_by_spec": "table[index] == literal text", "harness": "parser_h pipeline"})

    def rec(bki, locs):
        # only the keys of the builder (= the accessible keys) are ever read by generated code
        for k, lv in bki:
            if lv["v"] == "value":
                for l in locs:
                    if l["top"] in tops:
                        for kk, vv in l["keys"]:
                            if kk == k:
                                check_value(l, tops[l["top"]], k, vv)
            else:
                for l in lv["locales"]:
                    if l["top"] in tops and l["count"] != len(tops[l["top"]]["strings"]):
                        report_violation(ctx, "tables:count-differs-from-table-length", {
                            "case": project_text(p), "locale": l["top"], "sub_locale": l["name"], "count": l["count"],
                            "table_len": len(tops[l["top"]]["strings"])})
                rec(lv["keys"], lv["locales"])
    for l in ns_out["locales"]:
        if l["count"] != len(l["strings"]):
            report_violation(ctx, "tables:count-differs-from-table-length", {"case": project_text(p), "locale": l["name"],
                                                                             "count": l["count"], "table_len": len(l["strings"])})
        if len(set(l["strings"])) != len(l["strings"]):
            report_violation(ctx, "tables:duplicate-strings", {"case": project_text(p), "locale": l["name"], "table": l["strings"]})
        ctx.seen({"table": l["strings"]}, nontrivial=len(l["strings"]) >= 2)
        ctx.count("table_len=%d" % min(len(l["strings"]), 20))
    rec(ns_out["keys"], ns_out["locales"])


def oracle(ctx, p, o, i):
    if "ok" not in o["ci"]:
        return
    for ns_out in o["impl"]["result"]["ok"]["nss"]:
        check_ns(ctx, p, ns_out)
    if i % 97 == 0:
        ctx.sample({"files": proj.file_list(p)[:2], "tables": [l["strings"] for l in o["impl"]["result"]["ok"]["nss"][0]["locales"]]})


def run(ctx):
    rng = ctx.rng
    projects = [proj.gen_project(rng) for _ in range(ctx.budget(600, 12000))]
    generic_pipeline_check(ctx, [("I18nVerif.Theorems.C11", "C11_"), ("I18nVerif.Theorems.C11Full", "C11_"), ("I18nVerif.Theorems.C11Pipeline", "C11_")], projects, oracle, "C11")
    c11json.run_json_part(ctx)
    # the other way the tables reach the client: embedded in the server-rendered page (C17's harness and judgement): each unit's
    # table must decode to exactly the strings the accessors index
    from . import c17
    binr = cargo_build(ctx, "runtime_dyn_h")
    if binr is not None:
        names = c17.get_names(ctx, binr)
        ecases = list(c17.CORPUS) + [c17.gen_case(rng) for _ in range(ctx.budget(400, 6000))]
        c17.check_cases(ctx, binr, names, ecases, count=False)
        ctx.count("embedded_table_cases", len(ecases))
    ctx.assumptions += PARSER_ASSUMPTIONS
    finish_broken(ctx, f"{len(projects)} projects + JSON export projects")
    write_evidence(ctx, RULE + " || " + c11json.RULE)
