"""Shared machinery of the /verif runner: PRNG, builds (lake, cargo), line servers, comparison,
violation / known-finding reporting, shrinking, evidence files."""
import hashlib
import json
import os
import re
import shutil
import subprocess
import sys
import time

VERIF = os.path.dirname(os.path.dirname(os.path.abspath(__file__)))
REPO = "/repo"
LEAN_DIR = os.environ.get("VERIF_LEAN_DIR_OVERRIDE") or os.path.join(VERIF, "lean")   # override: development only (trying a model change in a scratch copy)
HARNESS_DIR = os.path.join(VERIF, "harness")
TARGET_DIR = os.path.join(HARNESS_DIR, "target")
WORK = os.path.join(VERIF, ".work")
DRIVER = os.path.join(LEAN_DIR, ".lake", "build", "bin", "i18n-model")
ALLOWED_AXIOMS = {"propext", "Classical.choice", "Quot.sound"}
TRUSTED_BASE = [
    "Lean 4.33.0 kernel (theorems re-checked by `lake build`; thorough tier re-checks the .olean with leanchecker)",
    "axioms: propext, Classical.choice, Quot.sound only (audited with collectAxioms on every run); no sorry/native_decide/bv_decide/user axioms",
    "correspondence check (differential run of the Rust code in /repo and the Lean model on generated inputs): generators, canonical dumps, comparison script",
    "Lean compiler for the driver executable (a driver bug could hide a disagreement, not fake a proof)",
]

ENV = dict(os.environ)
ENV["CARGO_NET_OFFLINE"] = "true"
ENV.setdefault("CARGO_TERM_COLOR", "never")


class HarnessError(Exception):
    """Something in the machinery itself failed (exit code 2, never a violation)."""


# ----------------------------------------------------------------------------- PRNG

class Rng:
    """SplitMix64; every random choice of a check derives from one seed."""

    def __init__(self, seed):
        self.s = seed & 0xFFFFFFFFFFFFFFFF

    def next(self):
        self.s = (self.s + 0x9E3779B97F4A7C15) & 0xFFFFFFFFFFFFFFFF
        z = self.s
        z = ((z ^ (z >> 30)) * 0xBF58476D1CE4E5B9) & 0xFFFFFFFFFFFFFFFF
        z = ((z ^ (z >> 27)) * 0x94D049BB133111EB) & 0xFFFFFFFFFFFFFFFF
        return z ^ (z >> 31)

    def below(self, n):
        return self.next() % n if n > 0 else 0

    def range(self, lo, hi):
        """inclusive"""
        return lo + self.below(hi - lo + 1)

    def chance(self, num, den):
        return self.below(den) < num

    def pick(self, xs):
        return xs[self.below(len(xs))]

    def weighted(self, pairs):
        tot = sum(w for w, _ in pairs)
        r = self.below(tot)
        for w, x in pairs:
            if r < w:
                return x
            r -= w
        return pairs[-1][1]

    def shuffle(self, xs):
        xs = list(xs)
        for i in range(len(xs) - 1, 0, -1):
            j = self.below(i + 1)
            xs[i], xs[j] = xs[j], xs[i]
        return xs

    def sample(self, xs, k):
        return self.shuffle(xs)[:k]

    def fork(self):
        return Rng(self.next())


# ----------------------------------------------------------------------------- context

class Ctx:
    def __init__(self, pid, tier, seed):
        self.pid = pid
        self.tier = tier
        self.seed = seed
        self.t0 = time.time()
        self.rng = Rng(seed ^ int(hashlib.sha256(pid.encode()).hexdigest()[:12], 16))
        self.violations = []        # (kind, path, nofail)
        self.known = []             # known findings hit
        self.evaluations = 0
        self.distinct = set()
        self.samples = []
        self.dist = {}              # input distribution counters
        self.obligations = []       # theorem names
        self.discharged = []
        self.checker_cmds = []
        self.notes = []
        self.assumptions = []
        self.broken = []            # broken proof obligations / correspondences (names)
        self.extra = {}
        os.makedirs(WORK, exist_ok=True)

    @property
    def quick(self):
        return self.tier == "quick"

    def budget(self, quick, thorough):
        return quick if self.quick else thorough

    def count(self, key, n=1):
        self.dist[key] = self.dist.get(key, 0) + n

    def seen(self, case, nontrivial=True):
        self.evaluations += 1
        if nontrivial:
            self.distinct.add(hashlib.sha1(json.dumps(case, sort_keys=True).encode()).hexdigest())

    def sample(self, x, limit=6):
        if len(self.samples) < limit:
            self.samples.append(x)


# ----------------------------------------------------------------------------- builds

def run(cmd, cwd=None, timeout=3600, env=None, input_bytes=None):
    p = subprocess.run(cmd, cwd=cwd, env=env or ENV, stdout=subprocess.PIPE, stderr=subprocess.PIPE,
                       timeout=timeout, input=input_bytes)
    return p.returncode, p.stdout.decode("utf-8", "replace"), p.stderr.decode("utf-8", "replace")


_FORBIDDEN = re.compile(r"\b(sorry|admit|native_decide|bv_decide|implemented_by|unsafe)\b|^\s*axiom\s|maxHeartbeats 0")


def _strip_comments(text):
    # remove /- ... -/ (nested) and -- ... comments
    out = []
    i, depth, n = 0, 0, len(text)
    while i < n:
        if text.startswith("/-", i):
            depth += 1
            i += 2
        elif depth > 0 and text.startswith("-/", i):
            depth -= 1
            i += 2
        elif depth > 0:
            if text[i] == "\n":
                out.append("\n")
            i += 1
        elif text.startswith("--", i):
            while i < n and text[i] != "\n":
                i += 1
        elif text[i] == '"':
            # string literal: keep the quotes, drop the content
            out.append('""')
            i += 1
            while i < n and text[i] != '"':
                i += 2 if text[i] == "\\" else 1
            i += 1
        else:
            out.append(text[i])
            i += 1
    return "".join(out)


def lean_import_closure(module):
    """source files of `module` and of every I18nVerif module it imports, transitively"""
    seen, todo, files = set(), [module], []
    while todo:
        m = todo.pop()
        if m in seen or not m.startswith("I18nVerif"):
            continue
        seen.add(m)
        p = os.path.join(LEAN_DIR, *m.split(".")) + ".lean"
        if not os.path.exists(p):
            continue
        files.append(p)
        for line in open(p):
            mm = re.match(r"\s*(?:public\s+)?import\s+(\S+)", line)
            if mm:
                todo.append(mm.group(1))
    return files


def lean_grep_forbidden(module=None):
    """forbidden constructs in the sources the theorem module depends on (all of I18nVerif when no module is given)"""
    hits = []
    if module is not None:
        paths = lean_import_closure(module)
    else:
        paths = [os.path.join(d, f) for d, _, fs in os.walk(os.path.join(LEAN_DIR, "I18nVerif")) for f in fs if f.endswith(".lean")]
    for p in paths:
        body = _strip_comments(open(p).read())
        for ln, line in enumerate(body.split("\n"), 1):
            if _FORBIDDEN.search(line):
                hits.append(f"{os.path.relpath(p, VERIF)}:{ln}: {line.strip()}")
    return hits


def lean_check(ctx, module, prefix):
    """Build the theorem module and the driver, audit the axioms of every property theorem.
    Returns True when all proof obligations are discharged; otherwise records the broken obligation."""
    cmd = ["lake", "build", module, "i18n-model"]
    rc, out, err = run(cmd, cwd=LEAN_DIR, timeout=3600)
    ctx.checker_cmds.append("cd lean && " + " ".join(cmd))
    if rc != 0:
        # find which file failed
        msg = "\n".join(l for l in (out + err).split("\n") if "error" in l)[:2000]
        if not os.path.exists(DRIVER) or "Driver" in msg and "I18nVerif/" not in msg:
            raise HarnessError("lake build of the driver failed:\n" + (out + err)[-3000:])
        ctx.broken.append({"kind": "proof", "name": module, "detail": msg})
        return False
    hits = lean_grep_forbidden(module)
    if hits:
        ctx.broken.append({"kind": "proof", "name": module, "detail": "forbidden construct: " + "; ".join(hits[:5])})
        return False
    cmd2 = ["lake", "env", "lean", "--run", "scripts/Audit.lean", module, prefix]
    rc, out, err = run(cmd2, cwd=LEAN_DIR, timeout=1200)
    ctx.checker_cmds.append("cd lean && " + " ".join(cmd2))
    if rc != 0:
        raise HarnessError("axiom audit failed to run:\n" + out + err)
    ok = True
    for line in out.strip().split("\n"):
        if not line.strip():
            continue
        r = json.loads(line)
        if r["theorem"] in ctx.obligations:
            continue          # already audited through another module that imports it
        ctx.obligations.append(r["theorem"])
        bad = [a for a in r["axioms"] if a not in ALLOWED_AXIOMS]
        if bad:
            ok = False
            ctx.broken.append({"kind": "proof", "name": r["theorem"], "detail": "depends on axioms " + ", ".join(bad)})
        else:
            ctx.discharged.append(r["theorem"])
    if not ctx.quick:
        cmd3 = ["lake", "env", "leanchecker", module]
        rc, out, err = run(cmd3, cwd=LEAN_DIR, timeout=3600)
        ctx.checker_cmds.append("cd lean && " + " ".join(cmd3))
        if rc != 0:
            ok = False
            ctx.broken.append({"kind": "proof", "name": module, "detail": "leanchecker rejected the module: " + (out + err)[-500:]})
    return ok


def cargo_build(ctx, crate, features=None, variant=None, profile="release"):
    """Build a harness crate against /repo's working tree. Returns the binary path, or None when the
    harness no longer compiles against /repo (recorded as a broken correspondence)."""
    cdir = os.path.join(HARNESS_DIR, crate)
    lock = os.path.join(cdir, "Cargo.lock")
    if not os.path.exists(lock):
        shutil.copy(os.path.join(REPO, "Cargo.lock"), lock)
    tdir = TARGET_DIR if not variant else TARGET_DIR + "-" + variant
    cmd = ["cargo", "build", "--offline", "--target-dir", tdir]
    if profile == "release":
        cmd.append("--release")
    if features is not None:
        cmd += ["--no-default-features", "--features", ",".join(features)]
    rc, out, err = run(cmd, cwd=cdir, timeout=3600)
    if rc != 0:
        errs = "\n".join(l for l in err.split("\n") if l.startswith("error"))[:1500]
        in_repo = "/repo/" in err
        if not in_repo and "error" in err and "could not compile `" + crate + "`" not in err:
            raise HarnessError(f"cargo build of {crate} failed:\n{err[-3000:]}")
        ctx.broken.append({"kind": "correspondence", "name": f"harness {crate} does not build against /repo",
                           "detail": errs or err[-1500:]})
        return None
    return os.path.join(tdir, profile if profile == "release" else "debug", crate)


# ----------------------------------------------------------------------------- line servers

STALL = int(os.environ.get("VERIF_STALL_S", "30"))   # a line server that answers nothing for this long is taken to hang


def run_lines(binary, reqs, timeout=1800, cwd=None, env=None, args=(), stall=None):
    """Feed JSON requests (one per line) to a line server, return (responses, crash_info).
    crash_info is None when every request was answered.  The server is killed when the whole batch exceeds `timeout`
    or when it produces no further answer for `stall` seconds (a request that hangs): crash_info["timeout"] is then True."""
    import threading, time as _t
    stall = 10 ** 9 if not stall else stall        # only the Rust line servers (which flush every answer) are watched for stalls
    data = ("\n".join(json.dumps(r, ensure_ascii=False) for r in reqs) + "\n").encode("utf-8")
    e = dict(ENV)
    if env:
        e.update(env)
    p = subprocess.Popen([binary, *args], stdin=subprocess.PIPE, stdout=subprocess.PIPE, stderr=subprocess.PIPE, cwd=cwd, env=e)
    chunks, errs = [], []
    state = {"last": _t.time(), "lines": 0}

    def feed():
        try:
            p.stdin.write(data)
            p.stdin.close()
        except Exception:
            pass

    def read_out():
        for line in p.stdout:
            chunks.append(line)
            state["last"] = _t.time()
            state["lines"] += 1

    def read_err():
        while True:
            b = p.stderr.read(65536)
            if not b:
                break
            errs.append(b)
            if sum(len(x) for x in errs) > 4_000_000:
                del errs[:-4]
    ts = [threading.Thread(target=f, daemon=True) for f in (feed, read_out, read_err)]
    for t in ts:
        t.start()
    t0 = _t.time()
    timed_out = False
    while p.poll() is None:
        _t.sleep(0.02 if _t.time() - t0 < 2 else 0.2)
        now = _t.time()
        if now - t0 > timeout or (now - state["last"] > stall and state["lines"] < len(reqs)):
            timed_out = True
            p.kill()
            break
    p.wait()
    for t in ts[1:]:
        t.join(timeout=10)
    rc = -999 if timed_out else p.returncode
    out, err = b"".join(chunks), b"".join(errs)
    lines = [l for l in out.decode("utf-8", "replace").split("\n") if l.strip()]
    resps = []
    for l in lines:
        try:
            resps.append(json.loads(l))
        except Exception:
            resps.append({"bad_line": l[:500]})
    crash = None
    if len(resps) < len(reqs) or rc != 0:
        crash = {"answered": len(resps), "rc": rc, "timeout": timed_out, "stderr": err.decode("utf-8", "replace")[-1500:]}
    return resps, crash


def run_lines_resilient(binary, reqs, timeout=1800, cwd=None, env=None, args=(), max_restarts=50):
    """Like run_lines but restarts after a crashed request, marking it {"crash": ...}."""
    out = []
    rest = list(reqs)
    restarts = 0
    hangs = 0
    while rest:
        resps, crash = run_lines(binary, rest, timeout=timeout, cwd=cwd, env=env, args=args, stall=STALL)
        if crash is None:
            out += resps
            break
        k = crash["answered"]
        if k >= len(rest):     # all answered but rc != 0
            out += resps[:len(rest)]
            break
        out += resps[:k]
        out.append({"crash": {"rc": crash["rc"], "timeout": crash["timeout"], "stderr": crash["stderr"][-400:]}})
        rest = rest[k + 1:]
        restarts += 1
        if crash["timeout"]:
            hangs += 1
            if hangs >= 2:
                # every hang costs a stall period: after the second one the rest of the batch is not run (each entry says so)
                out += [{"crash": {"rc": None, "timeout": True, "not_run_after_repeated_hangs": True}} for _ in rest]
                break
        if restarts > max_restarts:
            raise HarnessError("line server keeps crashing: " + json.dumps(crash)[:800])
    return out


def lean_driver(reqs, timeout=1800):
    if not reqs:
        return []
    resps, crash = run_lines(DRIVER, reqs, timeout=timeout)
    if crash is not None:
        raise HarnessError("Lean driver crashed: " + json.dumps(crash)[:1500])
    for r, q in zip(resps, reqs):
        if isinstance(r, dict) and "bad_op" in r:
            raise HarnessError("Lean driver rejected a request: " + json.dumps(r)[:500] + " for " + json.dumps(q)[:500])
    return resps


# ----------------------------------------------------------------------------- findings / violations

def load_findings():
    """known_findings.txt:  `finding: property=C09 id=F8 sig=<signature> <text>`  or  `fixed: property=.. <commit> <text>`"""
    res = []
    p = os.path.join(VERIF, "known_findings.txt")
    if not os.path.exists(p):
        return res
    for line in open(p):
        line = line.strip()
        if not line or line.startswith("#"):
            continue
        kind, _, rest = line.partition(":")
        kind = kind.strip()
        m = re.search(r"property=(\S+)", rest)
        s = re.search(r"sig=(\S+)", rest)
        i = re.search(r"\bid=(\S+)", rest)
        res.append({"kind": kind, "property": m.group(1) if m else None, "sig": s.group(1) if s else None,
                    "id": i.group(1) if i else None, "text": rest.strip()})
    return res


def write_replay(ctx, payload):
    d = os.path.join(VERIF, "replays", ctx.pid)
    os.makedirs(d, exist_ok=True)
    def plain(o):
        # a violation must never be lost to a payload the encoder refuses (Fraction, set, tuple keys, bytes ...)
        if isinstance(o, (set, frozenset)):
            return sorted(map(str, o))
        return str(o)

    def keys_ok(o):
        if isinstance(o, dict):
            return {(k if isinstance(k, (str, int, float, bool)) or k is None else str(k)): keys_ok(v) for k, v in o.items()}
        if isinstance(o, (list, tuple)):
            return [keys_ok(x) for x in o]
        return o
    blob = json.dumps(keys_ok(payload), ensure_ascii=False, sort_keys=False, indent=1, default=plain)
    h = hashlib.sha1(blob.encode()).hexdigest()[:12]
    p = os.path.join(d, h + ".json")
    with open(p, "w") as f:
        f.write(blob + "\n")
    return p


def report_violation(ctx, sig, payload, nofail=False):
    """sig: short stable signature identifying *what* fails (used to match known findings)."""
    for f in load_findings():
        if f["kind"] == "finding" and f["property"] == ctx.pid and f["sig"] == sig:
            if sig not in [k["sig"] for k in ctx.known]:
                ctx.known.append({"sig": sig, "text": f["text"]})
                print(f"KNOWN-FINDING: {f['text']}", flush=True)
            return
    if any(v["sig"] == sig for v in ctx.violations) and len(ctx.violations) >= 1:
        # one replay per signature is enough
        return
    payload = dict(payload)
    payload.update({"property": ctx.pid, "seed": ctx.seed, "tier": ctx.tier, "signature": sig})
    path = write_replay(ctx, payload)
    ctx.violations.append({"sig": sig, "path": path, "nofail": nofail})
    tail = " no-failing-input-found" if nofail else ""
    print(f"VIOLATION property={ctx.pid} replay={path}{tail}", flush=True)


# ----------------------------------------------------------------------------- shrinking

def shrink(case, fails, max_steps=400):
    """Greedy structural shrinking of a JSON case: drop list items / dict entries, shorten strings.
    `fails(case) -> bool` must be True for the original."""
    steps = [0]

    def candidates(x):
        if isinstance(x, list):
            for i in range(len(x)):
                yield x[:i] + x[i + 1:]
            for i, v in enumerate(x):
                for c in candidates(v):
                    yield x[:i] + [c] + x[i + 1:]
        elif isinstance(x, dict):
            for k in list(x.keys()):
                if k.startswith("_opt_") or k.startswith("?"):
                    y = dict(x)
                    del y[k]
                    yield y
            for k, v in x.items():
                for c in candidates(v):
                    y = dict(x)
                    y[k] = c
                    yield y
        elif isinstance(x, str) and len(x) > 0:
            if len(x) > 3:
                yield x[: len(x) // 2]
                yield x[len(x) // 2:]
            for i in range(min(len(x), 24)):
                yield x[:i] + x[i + 1:]

    cur = case
    progress = True
    while progress and steps[0] < max_steps:
        progress = False
        for c in candidates(cur):
            steps[0] += 1
            if steps[0] > max_steps:
                break
            try:
                if fails(c):
                    cur = c
                    progress = True
                    break
            except HarnessError:
                continue
    return cur


# ----------------------------------------------------------------------------- evidence

def write_evidence(ctx, rule, level="proof", extra=None):
    os.makedirs(os.path.join(VERIF, "evidence"), exist_ok=True)
    cov = {
        "obligations": len(ctx.obligations),
        "discharged": len(ctx.discharged),
        "theorems": ctx.obligations,
        "checker_cmd": " && ".join(ctx.checker_cmds) if ctx.checker_cmds else "lake build",
        "trusted_base": TRUSTED_BASE + ctx.assumptions,
        "evaluations": ctx.evaluations,
        "distinct_nontrivial": len(ctx.distinct),
        "rule": rule,
        "samples": ctx.samples if ctx.samples else ["(none)"],
        "input_distribution": ctx.dist,
        "broken": ctx.broken,
        "known_findings_hit": ctx.known,
        "notes": ctx.notes,
    }
    if extra:
        cov.update(extra)
    cov.update(ctx.extra)
    ev = {
        "property_id": ctx.pid,
        "tier": ctx.tier,
        "seed": ctx.seed,
        "level": level,
        "coverage": cov,
        "assumptions": ctx.assumptions,
        "wall_s": round(time.time() - ctx.t0, 2),
        "violations": len(ctx.violations),
    }
    with open(os.path.join(VERIF, "evidence", ctx.pid + ".json"), "w") as f:
        json.dump(ev, f, ensure_ascii=False, indent=1)
        f.write("\n")
    return ev


def finish_broken(ctx, searched_desc):
    """Called at the end: proof obligations / correspondences that broke but for which the search found
    no failing input are reported as `no-failing-input-found`."""
    if ctx.broken and not ctx.violations:
        report_violation(ctx, "broken:" + ctx.broken[0]["name"],
                         {"no_failing_input_found": True, "broken": ctx.broken, "searched": searched_desc},
                         nofail=True)
