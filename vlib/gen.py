"""Generators for translation strings, values and projects (all randomness from an `Rng`)."""
import json

SOUP = [(8, "{{"), (8, "}}"), (7, "<"), (7, ">"), (5, "</"), (3, "/"), (6, "$t("), (5, ")"), (5, ","), (4, "{"), (4, "}"),
        (3, ":"), (3, "."), (3, '"'), (6, " "), (2, " "), (2, " "), (2, "é"), (6, "b"), (5, "a"), (4, "x"), (3, "count"),
        (2, "number"), (2, "("), (2, ";"), (1, "\\"), (2, "日"), (1, "\U0001F600"), (2, "_"), (2, "-"), (2, "1"), (1, "true"),
        (1, "\n"), (1, "\t"), (2, "k"), (1, "type"), (1, "grouping_strategy"), (1, "never"), (1, "date"), (1, "|"), (1, "'")]


def soup(rng, max_tokens=14):
    """token soup around the parser's delimiters: mostly malformed"""
    n = rng.range(0, max_tokens)
    return "".join(rng.weighted(SOUP) for _ in range(n))


VAR_NAMES = ["x", "y", "name", "count", "n", "v1", "user_name", "a-b"]
COMP_NAMES = ["b", "i", "a", "link", "em", "c-d"]
WS = ["", "", " ", "  ", "\t", " ", "\n "]
PLAIN_WORDS = ["hello", "world", " ", ", ", "!", "é", "日本", "\U0001F600", "a{b", "x}y", "1 > 0", "a)b", "c:d", "\"q\"", "\\", "$", "t(", "%", "&amp;",
               "(", "'", ";", ".", "—", " ", "0", "_", "-", "#", "}", "> ", "$t", "{ {"]
FORMATTERS = [
    ("number", [("grouping_strategy", ["auto", "never", "always", "min2", "bogus"])]),
    ("date", [("date_length", ["full", "long", "medium", "short", "bogus"])]),
    ("time", [("time_length", ["full", "long", "medium", "short"])]),
    ("datetime", [("date_length", ["full", "long", "medium", "short"]), ("time_length", ["full", "long", "medium", "short"])]),
    ("list", [("list_type", ["and", "or", "unit"]), ("list_style", ["wide", "short", "narrow"])]),
    ("currency", [("width", ["short", "narrow"]), ("currency_code", ["USD", "EUR", "JPY", "eu", "ABCD", ""])]),
]


def plain_text(rng, maxw=4):
    """text without `<`, `{{`, `$t(` (single braces and `>` allowed)"""
    s = "".join(rng.pick(PLAIN_WORDS) for _ in range(rng.range(0, maxw)))
    while "{{" in s or "$t(" in s or "<" in s:
        s = s.replace("{{", "{ ").replace("$t(", "$ t(").replace("<", "")
    return s


def fix_text_boundaries(items):
    """a text ending in `{` followed by a variable would read as `{{{`: keep printing unambiguous"""
    out = []
    for it in items:
        if it["k"] == "text" and out and out[-1]["k"] == "text":
            out[-1] = {"k": "text", "s": out[-1]["s"] + it["s"]}
        else:
            out.append(it)
    for i, it in enumerate(out):
        if it["k"] == "text":
            s = it["s"]
            while "{{" in s or "$t(" in s:      # merging adjacent texts can create a delimiter
                s = s.replace("{{", "{ ").replace("$t(", "$ t(")
            while s.endswith("{") or s.endswith("$") or s.endswith("$t"):
                s = s[:-1] if not s.endswith("$t") else s[:-2]
            out[i] = {"k": "text", "s": s}
    return [it for it in out if not (it["k"] == "text" and it["s"] == "")]


def gen_formatter(rng):
    name, opts = rng.pick(FORMATTERS)
    args = []
    for oname, vals in opts:
        if rng.chance(2, 3):
            args.append((oname, rng.pick(vals)))
    if rng.chance(1, 6):
        args.append(("unknown_opt", "zz"))
    if rng.chance(1, 8) and args:
        args.append((args[0][0], rng.pick(opts[0][1])))    # repeated option: first recognised wins
    if not args and rng.chance(1, 2):
        return {"name": name, "args": None, "text": rng.pick(WS) + name + rng.pick(WS)}
    w = lambda: rng.pick(["", "", " ", "  "])
    body = ";".join(f"{w()}{a}{w()}:{w()}{v}{w()}" for a, v in rng.shuffle(args) if True)
    return {"name": name, "args": args, "text": f"{w()}{name}{w()}({body}){w()}"}


def gen_src(rng, depth=0, maxn=4, comps=True, fmts=True, vars_=VAR_NAMES, comp_names=COMP_NAMES):
    """source AST: list of {"k":"text"|"var"|"comp", ...}; printing is `print_src`"""
    items = []
    vars_ = vars_ or ["x"]
    for _ in range(rng.range(0 if depth else 1, maxn)):
        r = rng.below(10)
        if r < 4:
            t = plain_text(rng)
            if t:
                items.append({"k": "text", "s": t})
        elif r < 7:
            it = {"k": "var", "name": rng.pick(vars_), "w1": rng.pick(WS), "w2": rng.pick(WS), "fmt": None}
            if fmts and rng.chance(1, 5):
                it["fmt"] = gen_formatter(rng)
            items.append(it)
        elif comps and depth < 4:
            items.append({"k": "comp", "name": rng.pick(comp_names), "w1": rng.pick(WS), "w2": rng.pick(WS), "w3": rng.pick(WS),
                          "w4": rng.pick(["", "", " "]),
                          "kids": gen_src(rng, depth + 1, maxn=3, comps=comps, fmts=fmts, vars_=vars_, comp_names=comp_names)})
    return fix_text_boundaries(items)


def print_src(items):
    out = []
    for it in items:
        if it["k"] == "text":
            out.append(it["s"])
        elif it["k"] == "var":
            f = ("," + it["fmt"]["text"]) if it.get("fmt") else ""
            out.append("{{" + it["w1"] + it["name"] + it["w2"] + f + "}}")
        else:
            out.append("<" + it["w1"] + it["name"] + it["w2"] + ">" + print_src(it["kids"]) +
                       "<" + it["w4"] + "/" + it["w3"] + it["name"] + it["w2"] + ">")
    return "".join(out)


def src_stats(items, d=1):
    n = {"text": 0, "var": 0, "comp": 0, "depth": d if items else 0, "fmt": 0}
    for it in items:
        n[it["k"]] += 1
        if it["k"] == "var" and it.get("fmt"):
            n["fmt"] += 1
        if it["k"] == "comp":
            s = src_stats(it["kids"], d + 1)
            for k in ("text", "var", "comp", "fmt"):
                n[k] += s[k]
            n["depth"] = max(n["depth"], s["depth"])
    return n


NONASCII_VARS = ["café", "日本", "naïve_x", "ß", "x"]
NONASCII_COMPS = ["café", "b", "日", "lïnk"]


def gen_long_src(rng, nparts):
    """a long interpolation: `nparts` alternating literal segments and variables (the view back-end nests tuples above 26 parts)"""
    items = []
    for i in range(nparts):
        if i % 2 == 0:
            items.append({"k": "text", "s": f"E{i // 2}:"})
        else:
            items.append({"k": "var", "name": f"v{i // 2}", "w1": "", "w2": "", "fmt": None})
    return items
