"""C04 — ranges render the first branch that contains the count.
Theorems: lean/I18nVerif/Theorems/C04.lean.  Correspondence: (1) `Range::new` for the ten numeric types on generated
count specifications and its membership test (observed through the public parse-time path `populate_with_count_arg`)
for every count of i8/u8 and boundary neighbourhoods / type extremes of the wider and float types: impl vs model
vs the Rust meaning of the syntax computed independently; (2) whole declarations in both syntaxes inside projects,
with foreign keys fixing a literal count: the branch selected at parse time = the first branch containing the count;
(3, thorough) compiled probe crates: `td_string!(l, r, count = n)` at run time."""
from .pipe import *
import re
from . import probe
from fractions import Fraction

RULE = ("count specifications (exact, a..b, a..=b, ..b, ..=b, a.., _, .., `|` alternatives, whitespace variants, out-of-range / reversed / "
        "non-finite / malformed texts) for the 10 numeric types; counts: all 256 values for i8/u8, bound neighbourhoods and MIN/MAX for wider "
        "integer types, dyadic decimals for floats; declarations in sequence and {count,value} syntaxes with overlapping branches and "
        "explicit/implicit/absent fallback; non-trivial = specification parses to a bounded range; distinct = distinct (type, spec)")
BOUNDS = {"i8": (-128, 127), "i16": (-32768, 32767), "i32": (-2**31, 2**31 - 1), "i64": (-2**63, 2**63 - 1),
          "u8": (0, 255), "u16": (0, 65535), "u32": (0, 2**32 - 1), "u64": (0, 2**64 - 1)}


def meaning(ty, text):
    """Rust meaning of a count specification: ('ok', predicate) | ('err',) — written from the documented syntax"""
    isf = ty in ("f32", "f64")

    def num(s):
        s = s.strip()
        if isf:
            import re
            # Rust's float grammar: ASCII digits only (python's Fraction would also accept other Unicode digits)
            if not re.fullmatch(r"[+-]?(\d+\.?\d*|\.\d+)([eE][+-]?\d+)?", s, flags=re.ASCII):
                return None
            try:
                v = Fraction(s if not s.endswith(".") else s + "0")
            except Exception:
                return None
            lim = Fraction(2) ** (128 if ty == "f32" else 1024)
            return v if abs(v) < lim else None
        t = s[1:] if s[:1] in "+-" else s
        if not t.isdigit() or not t.isascii():
            return None
        if s[:1] == "-" and BOUNDS[ty][0] == 0:
            return None
        v = int(s)
        lo, hi = BOUNDS[ty]
        return Fraction(v) if lo <= v <= hi else None

    def piece(s):
        s = s.strip()
        if s in ("_", ".."):
            return lambda n: True
        if ".." in s:
            a, b = s.split("..", 1)
            a, b = a.strip(), b.strip()
            lo = None
            if a:
                lo = num(a)
                if lo is None:
                    return None
            if not b:
                return lambda n, lo=lo: lo is None or n >= lo
            if b.startswith("="):
                hi = num(b[1:].lstrip())
                if hi is None or (lo is not None and hi < lo):
                    return None
                return lambda n, lo=lo, hi=hi: (lo is None or n >= lo) and n <= hi
            hi = num(b)
            if hi is None:
                return None
            if not isf and hi - 1 < BOUNDS[ty][0]:
                return None
            if lo is not None and hi <= lo:
                return None
            return lambda n, lo=lo, hi=hi: (lo is None or n >= lo) and n < hi
        v = num(s)
        if v is None:
            return None
        return lambda n, v=v: n == v
    t = text.strip()
    if t in ("_", ".."):
        return ("ok", lambda n: True)
    if "|" in t:
        ps = [piece(x) for x in t.split("|")]
        if any(p is None for p in ps):
            return ("err",)
        return ("ok", lambda n: any(p(n) for p in ps))
    p = piece(t)
    return ("err",) if p is None else ("ok", p)


def counts_for(ty, rng, spec):
    if ty in ("i8", "u8"):
        lo, hi = BOUNDS[ty]
        return [str(n) for n in range(lo, hi + 1)]
    import re
    nums = [Fraction(x) for x in re.findall(r"-?\d+(?:\.\d+)?", spec)][:6]
    if ty in ("f32", "f64"):
        cs = {Fraction(0), Fraction(1, 2), Fraction(-1, 4)}
        for v in nums:
            cs |= {v, v + Fraction(1, 4), v - Fraction(1, 4), v + 1, v - 1}
        cs = {c for c in cs if abs(c) < 10**6}
        out = []
        for c in sorted(cs):
            out.append(str(c.numerator) + ".0" if c.denominator == 1 else str(float(c)))
        return out
    lo, hi = BOUNDS[ty]
    cs = {lo, lo + 1, hi, hi - 1, 0}
    for v in nums:
        if v.denominator == 1:
            cs |= {int(v) - 1, int(v), int(v) + 1}
    return [str(c) for c in sorted(cs) if lo <= c <= hi and -2**63 <= c < 2**64]


def gen_spec(rng, ty):
    r = rng.below(12)
    if r < 8:
        return proj.gen_range_spec(rng, ty)
    lo, hi = BOUNDS.get(ty, (-8, 8))
    if r == 8:
        return rng.pick([str(hi), str(lo), f"{lo}..", f"..{lo}", f"..={hi}", f"{hi}..{hi}", f"{lo}..={lo}", f"..{lo + 1}", f"{hi + 1}", f"{lo - 1}", f"{hi}..={hi + 1}"])
    if r == 9:
        return rng.pick(["", " ", "..", "_", " _ ", "a", "1..a", "1...3", "1..=", "..=", "=3", "1 2", "+5", "-0", "007", "5 | _", "_ | 5", "1|2|3", "| 1", "1 |",
                         "NaN", "inf", "-inf..", "1e3", "1e999", ".5", "5.", "0x10", "1_000", "٣", "1.5", "--1", "1..2..3"])
    if r == 10:
        a = rng.range(-5, 5)
        return f" {a} ..= {a + rng.range(-2, 6)} "
    return " | ".join(proj.gen_range_spec(rng, ty) for _ in range(3))


def run(ctx):
    lean_check(ctx, "I18nVerif.Theorems.C04", "C04_")
    rng = ctx.rng
    binp = build_parser(ctx)
    if binp is None:
        finish_broken(ctx, "harness does not build")
        write_evidence(ctx, RULE)
        return
    types = ["i8", "u8", "i16", "u16", "i32", "u32", "i64", "u64", "f32", "f64"]
    cases = []
    corpus = [("i8", "0..5 | 7 | 100.."), ("i8", "-128.."), ("i8", "..-128"), ("u8", "..0"), ("u8", "0..0"), ("u8", "5..=4"), ("i32", "5..5"),
              ("f32", "0.0"), ("f32", "..0.0"), ("f64", "NaN"), ("f64", "inf.."), ("f64", "1e999"), ("u64", "18446744073709551615"), ("u64", "18446744073709551616"),
              ("i64", "-9223372036854775808.."), ("i64", "..-9223372036854775808")]
    for ty, s in corpus:
        cases.append((ty, s))
    per = ctx.budget(60, 1500)
    for ty in types:
        for _ in range(per if ty not in ("i8", "u8") else per * 2):
            cases.append((ty, gen_spec(rng, ty)))
    reqs = [{"op": "range_new", "ty": ty, "s": s, "counts": counts_for(ty, rng, s)} for ty, s in cases]
    impl = run_lines_resilient(binp, reqs)
    model = lean_driver([dict(q, op="range.new") for q in reqs])
    ctx.extra["exhaustive_part"] = "every count of i8 and u8 for each generated specification of those types"
    total_counts = 0
    for (ty, s), q, r, m in zip(cases, reqs, impl, model):
        if "panic" in r or "crash" in r:
            report_violation(ctx, "ranges:range-new-panics", {"case": q, "impl": r})
            continue
        mean = meaning(ty, s)
        rr = r["range"]
        ctx.seen({"ty": ty, "s": s}, nontrivial="ok" in rr and rr["ok"].get("r") in ("bounds", "multi", "exact"))
        ctx.count(ty + ":" + ("ok" if "ok" in rr else "err:" + rr.get("err", "?")))
        # impl vs model
        def nz(x):     # negative zero prints as "-0" in Rust; the model's exact decimals have a single zero
            if isinstance(x, dict):
                return {k: nz(v) for k, v in x.items()}
            if isinstance(x, list):
                return [nz(v) for v in x]
            return "0" if x == "-0" else x
        ri = {"ok": nz(rr["ok"])} if "ok" in rr else {"err": rr["err"]}
        if ri != m["range"] or (r["matches"] != m["matches"]):
            nonascii = any(ord(c) > 127 for c in s)
            odd_float = ty in ("f32", "f64") and any(x in s.lower() for x in ("e", "inf", "nan"))
            if not nonascii and not odd_float:
                note_model_mismatch(ctx, "P/range_new", q, {"impl": {"range": ri, "matches": r["matches"]}, "model": m})
            else:
                ctx.count("unmodelled_number_spelling")
        # impl vs spec
        if mean[0] == "err":
            if "ok" in rr:
                report_violation(ctx, "ranges:invalid-specification-accepted", {"case": {"ty": ty, "s": s}, "implementation": rr["ok"]})
            continue
        if "ok" not in rr:
            report_violation(ctx, "ranges:valid-specification-rejected", {"case": {"ty": ty, "s": s}, "implementation": rr})
            continue
        for c, got in zip(q["counts"], r["matches"]):
            total_counts += 1
            exp = mean[1](Fraction(c))
            if got is not True and got is not False:
                continue       # count literal not representable for the type (error path of populate_with_count_arg)
            if got != exp:
                report_violation(ctx, "ranges:membership-differs-from-rust-meaning", {
                    "case": {"ty": ty, "s": s, "count": c}, "expected_by_spec": exp, "implementation": got, "harness": "parser_h range_new"})
                break
    ctx.extra["counts_checked"] = total_counts
    ctx.sample({"ty": cases[40][0], "spec": cases[40][1], "range": impl[40]["range"]})
    # (2) declarations in projects with literal counts through foreign keys
    def decl_oracle(ctx, p, o, i):
        if "ok" not in o["ci"] or "decl" not in p:
            return
        d = p["decl"]
        ns_out = o["impl"]["result"]["ok"]["nss"][0]
        for key, (n, exp) in d["refs"].items():
            v = locale_value_at(ns_out, "en", (key,))
            got = pv_eval(Env(var_fmt=False, vars={"var_count": str(n)}, counts={"var_count": n}), v) if v else None
            ctx.count("parse-time-count")
            if got != exp:
                report_violation(ctx, "ranges:parse-time-branch-differs", {"case": project_text(p), "key": key, "count": str(n),
                                                                          "expected_by_spec": exp, "implementation": got})
        for c, k, exp, sc, sk in d.get("chain", []):
            for key, tail in (("cc", ""), ("cd", "!")):
                v = locale_value_at(ns_out, "en", (key,))
                got = pv_eval(Env(var_fmt=False, vars={"var_count": sc, "var_n": sk}, counts={"var_count": c, "var_n": k}), v) if v else None
                ctx.count("renamed-count-through-chain")
                if got != exp + tail:
                    report_violation(ctx, "ranges:renamed-count-branch-differs", {"case": project_text(p), "key": key, "count": str(c), "n": str(k),
                                                                                 "expected_by_spec": exp + tail, "implementation": got})
                    return
    decls = []
    for _ in range(ctx.budget(120, 2500)):
        ty = rng.pick(["i8", "u8", "i8", "u8", "i32", "u16", "i64", "f64", "f64", "f32"])
        nb = rng.range(1, 4)
        specs = [[proj.gen_range_spec(rng, ty) for _ in range(rng.weighted([(4, 1), (3, 2), (2, 3), (1, 4)]))] for _ in range(nb)]
        items = [ty]

        def as_written(sp):
            # a count that is a plain number may be written as a JSON number (integer in any range type, float in float types)
            if re.fullmatch(r"-?\d+", sp) and rng.chance(1, 2):
                return proj.num(int(sp))
            if ty in ("f32", "f64") and re.fullmatch(r"-?\d+\.\d+", sp) and rng.chance(1, 3):
                return proj.F(sp)
            return sp
        for bi, ss in enumerate(specs):
            val = f"B{bi}:{{{{ count }}}}"
            if rng.chance(1, 2):
                items.append(proj.A([val] + [as_written(x) for x in ss]))
            else:
                items.append(proj.O([("count", ss[0] if len(ss) == 1 else proj.A(ss)), ("value", val)]))
        items.append(proj.A(["FB:{{ count }}"]))
        means = [[meaning(ty, s) for s in ss] for ss in specs]
        if any(m[0] == "err" for ms in means for m in ms):
            continue
        isf = ty in ("f32", "f64")
        if isf:
            # literal float counts: every number written in the specifications, and its neighbours
            written = sorted({Fraction(x) for ss in specs for sp in ss for x in re.findall(r"-?\d+(?:\.\d+)?", sp)})
            near = sorted({w + d for w in written for d in (0, Fraction(1, 2), -Fraction(1, 4))})
            cands = (near if len(near) <= 38 else rng.sample(near, 38)) + [Fraction(16777217), Fraction(1, 10)]
        else:
            lo, hi = BOUNDS[ty]
            cands = list(range(lo, hi + 1)) if ty in ("i8", "u8") else [rng.range(max(lo, -400), min(hi, 700)) for _ in range(40)]
            if ctx.quick and ty in ("i8", "u8"):
                cands = rng.sample(cands, 64)
        pairs = [("r", proj.A(items))]
        refs = {}
        for n in cands:
            if isf:
                lit = repr(float(n))                       # what is written in the file: always with a decimal point
                if "e" in lit or Fraction(lit) != n:
                    continue
                shown = lit[:-2] if lit.endswith(".0") else lit     # Rust's Display of the float
            else:
                lit = shown = str(n)
            exp = None
            for bi, ms in enumerate(means):
                if any(m[1](Fraction(n)) for m in ms):
                    exp = f"B{bi}:{shown}"
                    break
            if exp is None:
                exp = f"FB:{shown}"
            key = "c_" + lit.replace("-", "m").replace(".", "_")
            pairs.append((key, f"$t(r, {{\"count\": {lit}}})"))
            refs[key] = (n, exp)
        # the count renamed by one reference (`rn`), the result used by another key that has a `{{ count }}` of its own (`cc`, and `cd` one hop
        # further): the branch follows the renamed variable `n`, whatever `count` is
        pairs.append(("rn", "$t(r, {\"count\": \"{{ n }}\"})"))
        pairs.append(("cc", "{{ count }} x $t(rn)"))
        pairs.append(("cd", "$t(cc, {\"z\": 1})!"))
        chain = []
        shown_of = lambda n: (lambda lit: lit[:-2] if lit.endswith(".0") else lit)(repr(float(n))) if isf else str(n)
        usable = [n for n in cands if not isf or ("e" not in repr(float(n)) and Fraction(repr(float(n))) == n)]
        for _ in range(min(8, len(usable))):
            c, k = rng.pick(usable), rng.pick(usable)
            br = next((f"B{bi}" for bi, ms in enumerate(means) if any(m[1](Fraction(k)) for m in ms)), "FB")
            chain.append((c, k, f"{shown_of(c)} x {br}:{shown_of(k)}", shown_of(c), shown_of(k)))
        decls.append({"default": "en", "locales": ["en"], "all_locales": ["en"], "namespaces": None, "inherits": {},
                      "files": {(None, "en"): proj.O(pairs)}, "extra_cfg": False, "meta": {}, "decl": {"refs": refs, "chain": chain}})
    # counts written as *negative integer numbers* in float ranges (the integer callback of the file reader feeds a float range), never shadowed
    for ty in ("f32", "f64"):
        items = [ty, proj.A(["B0:{{ count }}", proj.num(-1)]), proj.O([("count", proj.num(-10)), ("value", "B1:{{ count }}")]),
                 proj.A(["B2:{{ count }}", proj.num(-3), "7.5"]), proj.O([("count", proj.A([proj.num(-20), "-30.5"])), ("value", "B3:{{ count }}")]),
                 proj.A(["FB:{{ count }}"])]
        pairs, refs = [("r", proj.A(items))], {}
        for lit, shown, exp in (("-1.0", "-1", "B0"), ("-10.0", "-10", "B1"), ("-3.0", "-3", "B2"), ("7.5", "7.5", "B2"), ("-20.0", "-20", "B3"), ("-30.5", "-30.5", "B3"),
                                ("0.0", "0", "FB"), ("1.0", "1", "FB"), ("10.0", "10", "FB"), ("-2.0", "-2", "FB")):
            key = "c_" + lit.replace("-", "m").replace(".", "_")
            pairs.append((key, f"$t(r, {{\"count\": {lit}}})"))
            refs[key] = (Fraction(lit), f"{exp}:{shown}")
        decls.append({"default": "en", "locales": ["en"], "all_locales": ["en"], "namespaces": None, "inherits": {},
                      "files": {(None, "en"): proj.O(pairs)}, "extra_cfg": False, "meta": {}, "decl": {"refs": refs}})
    generic_pipeline_check(ctx, [], decls, decl_oracle, "C04-declarations")
    # where a fallback may stand: alone, in the last branch only — also when it is one of several alternatives of a count list
    fb = []
    for ty in ("i32", "u8", "f64", None):
        one = proj.U(1) if ty != "f64" else proj.F("1.0")
        two = proj.U(2) if ty != "f64" else proj.F("2.0")
        head = [ty] if ty else []
        for bad, items in (
                (True, [proj.A(["a", one, "_"]), proj.A(["b", two])]),
                (True, [proj.O([("count", proj.A([one, ".."])), ("value", "a")]), proj.A(["b", two])]),
                (True, [proj.A(["a", "_", one]), proj.A(["b", two]), proj.A(["c"])]),
                (True, [proj.A(["a", "_"]), proj.A(["b", two])]),
                (True, [proj.A(["a"]), proj.A(["b", two])]),
                (False, [proj.A(["a", one]), proj.A(["b", two, "_"])]),
                (False, [proj.A(["a", one]), proj.A(["b", "_"])]),
                (False, [proj.A(["a", one]), proj.O([("count", proj.A([two, ".."])), ("value", "b")])]),
                (False, [proj.A(["a", "1 | 2"]), proj.A(["b"])]),
                # the implicit fallback in the `{count, value}` syntax: a last branch without `count`
                (False, [proj.A(["a", one]), proj.O([("value", "b")])]),
                (False, [proj.O([("count", one), ("value", "a")]), proj.O([("count", two), ("value", "b")]), proj.O([("value", "c {{ count }}")])]),
                (True, [proj.O([("value", "a")]), proj.O([("count", two), ("value", "b")])])):
            fb.append({"default": "en", "locales": ["en"], "all_locales": ["en"], "namespaces": None, "inherits": {},
                       "files": {(None, "en"): proj.O([("r", proj.A(head + items))])}, "extra_cfg": False, "meta": {}, "fallback_misplaced": bad})

    def fb_oracle(ctx, p, o, i):
        ctx.seen(project_text(p), nontrivial=True)
        err = o["ci"].get("err")
        if p["fallback_misplaced"] and err not in ("InvalidFallback", "MultipleFallbacks"):
            report_violation(ctx, "ranges:misplaced-fallback-accepted", {"case": project_text(p), "implementation": o["impl"].get("result"),
                                                                        "expected_by_spec": "error InvalidFallback: a fallback is only allowed in the last branch"})
        # (a `_` that is one alternative of a count list does not make the branch the float types' mandatory fallback: MissingFallback there)
        if not p["fallback_misplaced"] and "ok" not in o["ci"] and not (err == "MissingFallback" and "f64" in json.dumps(proj.file_list(p))):
            report_violation(ctx, "ranges:fallback-in-last-branch-rejected", {"case": project_text(p), "implementation": o["impl"].get("result")})
    generic_pipeline_check(ctx, [], fb, fb_oracle, "C04-fallback-position")
    # what the *generated* `match count { .. }` / if-chains render at run time: counts on and next to every bound of the declared branches
    probe.run_render_probe(ctx, rng, n_crates=ctx.budget(1, 3), flavours=("string", "view"), sig_prefix="ranges", per_key=6,
                           opts={"range_heavy": True, "formatted_keys": False, "ordinal_key": False}, prio_share=0.2)
    ctx.assumptions += PARSER_ASSUMPTIONS
    finish_broken(ctx, f"{len(cases)} specifications, {total_counts} (spec, count) pairs, {len(decls)} declarations")
    write_evidence(ctx, RULE)
