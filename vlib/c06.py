"""C06 — foreign keys are pure substitution.
Theorems: lean/I18nVerif/Theorems/C06.lean (populate = substitution in the denotation; resolution yields no unresolved
node; error kinds; fuel monotonicity).  Correspondence: (P) generated reference graphs (chains, all argument kinds,
targets of every kind, cross-namespace, locales where the target is null/inherited) and all small cyclic graphs;
impl vs model on the whole dump; impl vs spec: the denotation of the referencing key equals the denotation of the
target key in the same locale under the substituted environment."""
from .pipe import *
from .c03 import walk, exhaustive_projects

WALK_CORPUS = exhaustive_projects()
import itertools

RULE = ("reference graphs: a target key of every kind (string with variables/components, literal, range, plural, subkey leaf, another reference) and "
        "referencing keys `pre $t(path, {args}) post` with every argument kind (string, number, bool, interpolated string, nested $t, literal count, "
        "renamed count), chains up to depth 6, 1-3 locales incl. null targets with/without inherits, namespaces, literal counts on and next to every bound of 5 range shapes; "
        "references (direct, to a group leaf, chained, nested as argument) over every inherits map on 4 locales x presence patterns of their targets; all cyclic graphs on <= 3 keys "
        "(<= 4 in thorough); non-trivial = at least one argument substituted; distinct = distinct project text")


def target_kinds(rng):
    return rng.pick(["string", "string", "comp", "lit", "range", "plural", "chain"])


def mk_graph_project(rng, depth=None):
    """target `t0`, references r1 -> t0, r2 -> r1, ... with arguments introduced along the chain"""
    locales = rng.sample(["en", "fr", "de", "ru"], rng.range(1, 3))
    default = locales[0]
    ns = rng.pick([None, None, "common"])
    kind = target_kinds(rng)
    depth = depth or rng.range(1, 4)
    shape = rng.below(len(RANGE_SHAPES))
    ordinal = rng.chance(1, 2)
    inherits = {}
    if len(locales) > 2 and rng.chance(1, 2):
        inherits[locales[2]] = locales[1]
    files = {}
    meta = {"kind": kind, "depth": depth, "chain": [], "ns": ns}
    chain_args = []
    for d in range(depth):
        a = {}
        r = rng.below(6)
        if r == 0:
            a = None
        elif r == 1:
            a = {"x": rng.pick(["lit", "two words", "é\"q\"", 5, True, -3, 2.5])}
        elif r == 2:
            a = {"x": "{{ y }}", "y": "unused"}
        elif r == 3 and kind in ("range", "plural"):
            # literal counts sit on and next to every bound of the target's branches (RANGE_SHAPES)
            a = {"count": rng.pick(RANGE_SHAPES[shape][2] if kind == "range" else [0, 1, 2, 5, 21, -1, -2, -21, 1.5, -1.5, 3])}      # negative counts: the category is the one of the absolute value (ICU operands)
        elif r == 4 and kind in ("range", "plural"):
            a = {"count": rng.pick(["{{ n }}", " {{ total }} "])}
        elif r == 5 and rng.chance(1, 2):
            a = {"x": "$t(" + ((ns + ":") if ns else "") + "side)", "y": "[$t(" + ((ns + ":") if ns else "") + "side)]"}     # nested references as arguments
        else:
            a = {"x": "<b>{{ z }}</b>", "w": 1}
        if a and rng.chance(1, 5):
            # white space inside the quotes of an argument name: names are trimmed, like the names inside `{{ }}`
            a = {rng.pick([" ", "", "  "]) + k + rng.pick([" ", "\t", ""]): v for k, v in a.items()}
        chain_args.append(a)
    meta["chain"] = chain_args
    # the reference may be the very first item of the string (what it resolves to then *starts* the value: a number or boolean
    # literal joined with the text that follows), the last one, or the only one
    # ... and what stands before / after it may itself be a variable or a component (everything around a reference is parsed like any text)
    wraps = [rng.pick([(f"<{d}:", ">"), (f"<{d}:", ">"), ("", f" tail{d}"), ("", ""), (f"head{d} ", ""),
                       ("{{ pre }}, ", " ({{ pre }})"), ("<b>x</b> ", ""), ("{{ pre }}", "<b>{{ pre }}</b>")]) for d in range(depth)]
    meta["wraps"] = wraps
    for l in locales:
        pairs = []
        if kind == "string":
            tv = rng.pick([f"[{l}] x={{{{ x }}}} y={{{{ y }}}}!", f"{{{{ x }}}} first, then [{l}] y={{{{ y }}}}"])
        elif kind == "comp":
            tv = f"[{l}] <b>x={{{{ x }}}}</b> <i>{{{{ x }}}}{{{{ y }}}}</i>"
        elif kind == "lit":
            tv = rng.pick([proj.U(7), True, "plain " + l])
        elif kind == "range":
            ty, specs, _ = RANGE_SHAPES[shape]
            texts = [f"[{l}] zero {{{{ x }}}}", f"{{{{ count }}}} few [{l}] {{{{ x }}}}", f"[{l}] some <b>{{{{ y }}}}</b>", f"{{{{ x }}}}{{{{ y }}}} lots [{l}]"]
            tv = proj.A([ty] + [proj.A([texts[j % 4]] + list(sp)) for j, sp in enumerate(specs)] + [proj.A([f"[{l}] many {{{{ count }}}}"])])
        elif kind == "plural":
            tv = None
        else:
            tv = "$t(" + ((ns + ":") if ns else "") + "base, {\"y\": \"Y-from-t0\"})"
        if kind == "plural":
            if ordinal:
                # an ordinal plural: the rule type must survive the reference (en: 1st 2nd 3rd 4th)
                pairs += [(f"t0_ordinal_{f}", f"[{l}] {f} {{{{ count }}}} {{{{ x }}}}") for f in ("one", "two", "few", "other")]
            else:
                pairs += [("t0_one", f"[{l}] one {{{{ count }}}} {{{{ x }}}}"), ("t0_other", f"[{l}] other {{{{ count }}}} {{{{ x }}}}")]
        else:
            pres = "defined"
            if l != default and rng.chance(1, 5):
                pres = "null"
            pairs.append(("t0", tv if pres == "defined" else None))
            meta.setdefault("t0_presence", {})[l] = pres
        if kind == "chain":
            pairs.append(("base", f"[{l}] base x={{{{ x }}}} y={{{{ y }}}}"))
        pairs.append(("side", f"SIDE-{l}"))
        prev = "t0"
        for d, a in enumerate(chain_args):
            path = ((ns + ":") if ns else "") + prev
            w = rng.pick(["", " "])
            pre, post = wraps[d]
            text = pre + (f"$t({w}{path}{w})" if a is None else f"$t({path},{w}{json.dumps(a, ensure_ascii=False)}{w})") + post
            pairs.append((f"r{d + 1}", text))
            prev = f"r{d + 1}"
        files[(ns, l)] = proj.O(rng.shuffle(pairs))
    return {"default": default, "locales": locales, "all_locales": locales, "namespaces": [ns] if ns else None, "inherits": inherits,
            "files": files, "extra_cfg": False, "meta": {}, "graph": meta}


# (type, branch specifications, literal counts on / next to every bound); every shape ends with a fallback branch
RANGE_SHAPES = [
    ("u8", [[proj.U(0)], ["1..=5"]], [0, 1, 2, 5, 6, 21]),
    ("i32", [["..0"], ["0..3"], ["3..=7"]], [-1, 0, 2, 3, 7, 8]),
    ("u16", [["2..4", proj.U(9)], ["4..=4"], ["10.."]], [1, 2, 3, 4, 5, 9, 10]),
    ("f32", [["..0.0"], ["0.0..15.0"], ["15.0..30.0"]], [-0.5, 0.0, 14.5, 15.0, 29.5, 30.0]),
    ("f64", [["..=1.5"], ["1.5..2.5", "7.25"], ["2.5..=4.0"]], [1.5, 1.25, 2.5, 2.25, 4.0, 4.5, 7.25]),
]


def wrap_text(s):
    """what the text around a reference denotes in the oracle's environment (variables and components are left symbolic there)"""
    return (s.replace("<b>{{ pre }}</b>", "⟨comp_b⟩⟦var_pre⟧⟨/comp_b⟩").replace("<b>x</b>", "⟨comp_b⟩x⟨/comp_b⟩").replace("{{ pre }}", "⟦var_pre⟧"))


def cyclic_projects(nkeys):
    """all reference graphs on keys k0..k(n-1) where each key is either text or a reference to one key"""
    out = []
    for refs in itertools.product([None] + list(range(nkeys)), repeat=nkeys):
        if all(r is None for r in refs):
            continue
        pairs = [(f"k{i}", "leaf" if r is None else f"$t(k{r})") for i, r in enumerate(refs)]
        out.append({"default": "en", "locales": ["en"], "all_locales": ["en"], "namespaces": None, "inherits": {},
                    "files": {(None, "en"): proj.O(pairs)}, "extra_cfg": False, "meta": {}, "refs": refs})
    return out


def has_cycle(refs):
    for s in range(len(refs)):
        seen, cur = set(), s
        while cur is not None and cur not in seen:
            seen.add(cur)
            cur = refs[cur]
        if cur is not None:
            return True
    return False


def subst_env(base, args, parse_arg):
    """environment after applying the arguments of one `$t(..)` (spec of substitution)"""
    if not args:
        return base
    vals = {}
    for k, a in args.items():
        name = "var_" + k.strip()
        if isinstance(a, str) and "$t(" in a:
            # a nested reference to the key `side` (a plain string `SIDE-<locale>`): substitute its text
            import re
            vals[name] = ("text", re.sub(r"\$t\([^)]*side\)", base.side_text, a))
        elif isinstance(a, str):
            tree = parse_arg(a)
            vals[name] = ("tree", tree)
        elif isinstance(a, bool):
            vals[name] = ("text", "true" if a else "false")
        else:
            vals[name] = ("text", str(a) if not isinstance(a, float) else repr(a).rstrip("0").rstrip(".") if "." in repr(a) else repr(a))

    # the substituted environment, as data: variables bound to the (already evaluated) argument texts ...
    new_vars = dict(base.vars)
    for k, (kind, x) in vals.items():
        new_vars[k] = pv_eval(base, x) if kind == "tree" else x
    # ... and the count: a literal fixes it for every range/plural of the target, a `{{ var }}` renames it
    counts, count_default = dict(base.counts), base.count_default
    if "var_count" in vals:
        kind, x = vals["var_count"]
        if kind == "text":
            from fractions import Fraction
            counts, count_default = {}, Fraction(x)
        else:
            names = []

            def walk(v):
                if v["t"] == "var":
                    names.append(v["key"])
                elif v["t"] == "bloc":
                    for y in v["items"]:
                        walk(y)
            walk(x)
            if len(names) == 1:
                counts, count_default = {}, base.count(names[0])
    e = base.derive(vars=new_vars, counts=counts, count_default=count_default)
    return e



def fallback_witnesses():
    """regression witnesses of F11 / F20 (fixed): a reference whose target is null / absent in a locale that inherits from a
    non-default locale"""
    out = []
    for pres in ("null", "absent"):
        files = {(None, "en"): proj.O([("a", "A-en"), ("b", "$t(a)!")]),
                 (None, "fr"): proj.O([("a", "A-fr"), ("b", "$t(a)!")]),
                 (None, "fr-CA"): proj.O(([("a", None)] if pres == "null" else []) + [("b", "$t(a)!")])}
        out.append({"default": "en", "locales": ["en", "fr", "fr-CA"], "all_locales": ["en", "fr", "fr-CA"], "namespaces": None,
                    "inherits": {"fr-CA": "fr"}, "files": files, "extra_cfg": False, "meta": {}, "witness": pres})
    return out


def walk_family(rng, n, vars=False):
    """C03's family (every `inherits` map on en/fr/de/es x presence pattern of a value key `a` and a group leaf `g.x`) with
    references to both: `b: "$t(a)!"`, `c: "<$t(g.x)>"`, `d: "$t(b) $t(w, {"v": "$t(a)"})"` present in the default locale and in
    some of the others (so that the referencing keys are themselves reached through the fallback)"""
    out = []
    for p in rng.sample(WALK_CORPUS, n):
        q = dict(p)
        q["files"] = {}
        for (ns, l), tree in p["files"].items():
            pairs = [list(kv) for kv in tree["o"]]
            if vars:
                # every locale's own text of `a` / `g.x` takes a variable of its own (used by C08: the arguments a referencing key
                # requires are those of the text it actually resolves to)
                def own(j):
                    if isinstance(j, str):
                        return j + " {{ p_" + l + " }}"
                    if isinstance(j, dict) and "o" in j:
                        return {"o": [[k, own(v)] for k, v in j["o"]]}
                    return j
                pairs = [[k, own(v)] for k, v in pairs]
            # each referencing key on its own: a locale may have `d` without `b` (the chain d -> b -> a then crosses locales)
            if l == "en" or rng.chance(2, 3):
                pairs.append(["b", "$t(a)!"])
            if l == "en" or rng.chance(2, 3):
                pairs.append(["c", "<$t(g.x)>"])
            if l == "en" or rng.chance(2, 3):
                pairs.append(["d", "$t(b) $t(w, {\"v\": \"$t(a)\"})"])
            if l == "en" or rng.chance(1, 2):
                pairs.append(["w", "W-" + l + " {{ v }}"])
            q["files"][(ns, l)] = {"o": pairs}
        q["walk_family"] = True
        out.append(q)
    return out


def walk_family_oracle(ctx, p, o, i):
    """spec, written from the property and C03 only: key `k` rendered for locale `l` is the text written for `k` in the
    effective locale `e` of `k` for `l`; a reference inside that text names what its target renders for `e`"""
    ctx.seen(project_text(p), nontrivial=True)
    if "ok" not in o["ci"]:
        report_violation(ctx, "foreign:resolvable-reference-rejected", {"case": project_text(p), "implementation": o["impl"]["result"],
                                                                       "expected_by_spec": "accepted: every target is defined in the default locale"})
        return
    ns_out = o["impl"]["result"]["ok"]["nss"][0]
    inh = p["inherits"]

    def defined(x, path):
        cur = merged_key_tree(p["files"].get((None, x)))
        for k in path:
            if not isinstance(cur, dict) or k not in cur:
                return False
            cur = cur[k]
            if cur == "null":
                return False
        return True

    def eff(path, l):
        return walk(inh, "en", lambda x: defined(x, path), l)

    def txt(key, l):
        e = eff((key,), l)
        if key == "a":
            return "A-" + e
        if key == "b":
            return txt("a", e) + "!"
        if key == "c":
            return "<X-" + eff(("g", "x"), e) + ">"
        if key == "d":
            return txt("b", e) + " W-" + eff(("w",), e) + " " + txt("a", e)
    for l in p["locales"]:
        for key in ("b", "c", "d"):
            e = eff((key,), l)
            if e != l:
                ctx.count("referencing-key-through-fallback")
            v = locale_value_at(ns_out, e, (key,))
            if v is None:
                continue
            got, exp = pv_eval(Env(), v), txt(key, l)
            if eff(("a",), e) not in (e, "en"):
                ctx.count("target-through-inherits")
            if got != exp:
                report_violation(ctx, "foreign:target-not-read-in-effective-locale", {
                    "case": project_text(p), "locale": l, "key": key, "text_of_the_key_taken_from": e, "inherits": inh,
                    "expected_by_spec": exp, "implementation": got, "harness": "parser_h pipeline + denotation"})
                return


PLURAL_FORMS_BY_LOCALE = {"en": ["one", "other"], "fr": ["one", "many", "other"], "ru": ["one", "few", "many", "other"],
                          "pl": ["one", "few", "many", "other"], "ja": ["one", "other"], "ar": ["zero", "one", "two", "few", "many", "other"],
                          # two locales of one language whose rules differ (0 and 1.5 are `one` in pt, `other` in pt-PT)
                          "pt": ["one", "many", "other"], "pt-PT": ["one", "many", "other"]}


def plural_fallback_family(rng, n):
    """a plural `files` written in the default locale and only in some of the others; every locale refers to it with literal
    counts.  The forms come from the effective locale of `files`, the *category* of the literal count from the plural rules of the
    locale the reference is rendered in (what `td_string!(locale, files, count = c)` does at run time)."""
    out = []
    for _ in range(n):
        others = rng.sample(["fr", "ru", "pl", "ja", "ar", "pt", "pt-PT", "pt-PT"], rng.range(2, 3))
        others = list(dict.fromkeys(others)) if len(set(others)) >= 2 else ["pt-PT", "fr"]
        locs = ["en"] + others
        inherits = {}
        if rng.chance(2, 3):
            inherits[others[1]] = others[0]
        if len(others) > 2 and rng.chance(1, 2):
            inherits[others[2]] = rng.pick(others[:2])
        counts = rng.sample([0, 1, 2, 3, 5, 11, 21, 100], 4) + rng.sample([1.5, 1.2, 0.7, 2.0], 1)      # a decimal too: some rules look at the fraction
        files, written = {}, {}
        for l in locs:
            pairs = []
            if l == "en" or rng.chance(1, 3):
                written[l] = PLURAL_FORMS_BY_LOCALE[l]
                for f in written[l]:
                    pairs.append((f"files_{f}", f"[{l}] {f} {{{{ count }}}}"))
            elif rng.chance(1, 4):
                pairs.append(("files", None))
            for c in counts:
                pairs.append(("nf" + str(c).replace(".", "_"), f"$t(files, {{\"count\": {c}}})."))
            files[(None, l)] = proj.O(rng.shuffle(pairs))
        out.append({"default": "en", "locales": locs, "all_locales": locs, "namespaces": None, "inherits": inherits, "files": files,
                    "extra_cfg": False, "meta": {}, "plural_family": {"written": written, "counts": counts}})
    return out


def plural_fallback_oracle(ctx, p, o, i):
    fam = p["plural_family"]
    ctx.seen(project_text(p), nontrivial=len(fam["written"]) < len(p["locales"]))
    if "ok" not in o["ci"]:
        report_violation(ctx, "foreign:resolvable-reference-rejected", {"case": project_text(p), "implementation": o["impl"]["result"]})
        return
    ns_out = o["impl"]["result"]["ok"]["nss"][0]
    cats = {(l, r, k): f for l, r, k, f in o["impl"]["oracle"]["cat"]}
    for l in p["locales"]:
        src = walk(p["inherits"], "en", lambda x: x in fam["written"], l)
        if src != l:
            ctx.count("plural-target-from-other-locale")
        for c in fam["counts"]:
            opk = f"u:{c}" if isinstance(c, int) else "f:" + (repr(c)[:-2] if repr(c).endswith(".0") else repr(c))
            cat = cats.get((l, "cardinal", opk))
            if cat is None:
                raise HarnessError("no plural category for %s %s" % (l, c))
            form = cat if cat in fam["written"][src] else "other"
            shown = c if isinstance(c, int) else (repr(c)[:-2] if repr(c).endswith(".0") else repr(c))
            exp = f"[{src}] {form} {shown}."
            v = locale_value_at(ns_out, l, ("nf" + str(c).replace(".", "_"),))
            got = pv_eval(Env(), v) if v is not None else None
            if cat != (cats.get((src, "cardinal", opk))):
                ctx.count("category-differs-between-locales")
            if got != exp:
                report_violation(ctx, "foreign:literal-count-category-not-of-rendering-locale", {
                    "case": project_text(p), "locale": l, "key": f"nf{c}", "forms_taken_from": src, "category_in_rendering_locale": cat,
                    "expected_by_spec": exp, "implementation": got, "harness": "parser_h pipeline + denotation"})
                return


def qualifier_projects():
    """a reference names its target by `key` or `namespace:key`; a qualifier that names no namespace of the project does not resolve —
    in particular in a project without namespaces, whatever keys exist (with namespaces the qualifier is mandatory: documented)"""
    out = []
    mk = lambda files, ns, expect: {"default": "en", "locales": ["en"], "all_locales": ["en"], "namespaces": ns, "inherits": {}, "files": files,
                                    "extra_cfg": False, "meta": {}, "qualifier_expect": expect}
    for ref in ("common:bar", "bar:bar", "en:bar", "common:grp.x"):
        out.append(mk({(None, "en"): proj.O([("bar", "BAR"), ("grp", proj.O([("x", "X")])), ("dangling", f"before $t({ref}) after")])}, None, "rejected"))
    out.append(mk({(None, "en"): proj.O([("bar", "BAR"), ("fine", "before $t(bar) after")])}, None, "accepted"))
    for ref, expect in (("common:bar", "accepted"), ("home:bar", "rejected"), ("other:bar", "rejected"), ("bar", "rejected"), ("home:own", "accepted")):
        out.append(mk({("common", "en"): proj.O([("bar", "BAR"), ("k", f"before $t({ref}) after")]), ("home", "en"): proj.O([("own", "OWN")])},
                      ["common", "home"], expect))
    return out


def qualifier_oracle(ctx, p, o, i):
    ctx.seen(project_text(p), nontrivial=True)
    ok = "ok" in o["ci"]
    if ok != (p["qualifier_expect"] == "accepted"):
        report_violation(ctx, "foreign:namespace-qualifier", {"case": project_text(p), "expected_by_spec": p["qualifier_expect"],
                                                             "implementation": "accepted" if ok else o["impl"].get("result"),
                                                             "why": "a reference resolves to the key it names in the namespace it names; a project with namespaces requires the qualifier, one without has none to name"})


def subkey_target_projects():
    out = []
    for ref in ("$t(g)", "$t(g, {\"x\": \"1\"})", "pre $t( g ) post", "$t(g.inner)"):
        for chain in (False, True):
            pairs = [("g", proj.O([("leaf", "L"), ("inner", proj.O([("deep", "D")]))])), ("r", ref)]
            if chain:
                pairs.append(("r2", "$t(r)"))
            out.append({"default": "en", "locales": ["en"], "all_locales": ["en"], "namespaces": None, "inherits": {},
                        "files": {(None, "en"): proj.O(pairs)}, "extra_cfg": False, "meta": {}, "subkey_target": ref})
    return out


def subkey_oracle(ctx, p, o, i):
    ctx.seen(project_text(p), nontrivial=True)
    if "ok" in o["ci"]:
        report_violation(ctx, "foreign:reference-to-subkey-group-accepted", {"case": project_text(p), "reference": p["subkey_target"],
                                                                            "expected_by_spec": "rejected with an error naming the key"})


def witness_oracle(ctx, p, o, i):
    """the accessor of `a` in fr-CA renders fr's text (C03); `$t(a)` in fr-CA must render the same"""
    ctx.seen(project_text(p), nontrivial=True)
    exp = "A-fr!"
    if "ok" not in o["ci"]:
        report_violation(ctx, "foreign:absent-target-in-inheriting-locale-rejected" if p["witness"] == "absent" else "foreign:null-target-rejected",
                         {"case": project_text(p), "expected_by_spec": exp, "implementation": o["impl"]["result"]})
        return
    ns_out = o["impl"]["result"]["ok"]["nss"][0]
    got = pv_eval(Env(), locale_value_at(ns_out, "fr-CA", ("b",)))
    if got != exp:
        report_violation(ctx, "foreign:null-target-ignores-inherits", {"case": project_text(p), "locale": "fr-CA", "key": "b",
                                                                      "expected_by_spec": exp, "implementation": got})


def make_oracle(binp):
    cache = {}

    def parse_arg(s):
        if s not in cache:
            r, _ = run_lines(binp, [{"op": "parse_new", "s": s}])
            cache[s] = r[0].get("ok", {"t": "lit", "k": "str", "s": s, "i": None})
        return cache[s]

    def oracle(ctx, p, o, i):
        if "graph" not in p:
            refs = p["refs"]
            ctx.seen({"refs": list(refs)}, nontrivial=True)
            cyc = has_cycle(refs)
            ctx.count("cyclic" if cyc else "acyclic")
            got = o["ci"]
            if cyc and got.get("err") != "RecursiveForeignKey":
                report_violation(ctx, "foreign:cycle-not-rejected", {"case": project_text(p), "expected_by_spec": {"err": "RecursiveForeignKey"},
                                                                    "implementation": got if "err" in got else "accepted"})
            if not cyc and "ok" not in got:
                report_violation(ctx, "foreign:acyclic-graph-rejected", {"case": project_text(p), "implementation": o["impl"]["result"]})
            if not cyc and "ok" in got:
                ns_out = o["impl"]["result"]["ok"]["nss"][0]
                for k in range(len(refs)):
                    v = locale_value_at(ns_out, "en", (f"k{k}",))
                    if pv_eval(Env(), v) != "leaf":
                        report_violation(ctx, "foreign:chain-renders-wrong-text", {"case": project_text(p), "key": f"k{k}", "implementation": pv_eval(Env(), v)})
            return
        g = p["graph"]
        nontriv = any(a for a in g["chain"])
        ctx.seen(project_text(p), nontrivial=nontriv)
        ctx.count("target:" + g["kind"])
        ctx.count("depth=%d" % g["depth"])
        if "ok" not in o["ci"]:
            ctx.count("rejected:" + str(o["ci"].get("err")))
            return
        res = o["impl"]["result"]["ok"]
        ns_out = res["nss"][0]
        cats = {(l, r, k): f for l, r, k, f in o["impl"]["oracle"]["cat"]}
        for l in p["locales"]:
            tkey = "t0"
            # the target is read in the effective locale of `t0` for `l` (C03's walk over `inherits`, then the default)
            src_l = walk(p["inherits"], p["default"], lambda x: g.get("t0_presence", {}).get(x, "defined") == "defined", l)
            if src_l != l:
                ctx.count("target-null-in-locale")
                if src_l != p["default"]:
                    ctx.count("target-taken-from-inherited-locale")
            tv = locale_value_at(ns_out, src_l, (tkey,))
            if tv is None or tv["t"] == "default":
                continue

            from fractions import Fraction
            CNT = {"var_count": 3, "var_n": 5, "var_total": 1}      # distinct per count variable: a renamed count must stay renamed
            cat_tbl = {}
            for (ll, rule, key), f in cats.items():
                if ll == l and key[:2] in ("u:", "f:", "i:"):
                    cat_tbl[(rule, Fraction(key[2:]))] = f
            base = Env(vars={k: str(v) for k, v in CNT.items()}, var_fmt=False, counts=CNT, count_default=2, cats=cat_tbl)
            base.side_text = f"SIDE-{l}"
            # expected text of r_d: wrap of the text of r_(d-1) under the substituted environment; computed outside-in
            for d in range(1, g["depth"] + 1):
                rv = locale_value_at(ns_out, l, (f"r{d}",))
                if rv is None or rv["t"] == "default":
                    continue
                got = pv_eval(base, rv)
                # spec: evaluate the chain from r_d down to t0
                env = base
                prefix, suffix = "", ""
                for k in range(d, 0, -1):
                    prefix += g["wraps"][k - 1][0]
                    suffix = g["wraps"][k - 1][1] + suffix
                    env = subst_env(env, g["chain"][k - 1], parse_arg)
                exp = wrap_text(prefix) + pv_eval(env, tv) + wrap_text(suffix)
                if got != exp:
                    report_violation(ctx, "foreign:not-pure-substitution", {
                        "case": project_text(p), "locale": l, "key": f"r{d}", "chain_args": g["chain"][:d], "target_kind": g["kind"],
                        "expected_by_spec": exp, "implementation": got, "harness": "parser_h pipeline + denotation"})
                    break
        if i % 173 == 0:
            ctx.sample({"files": proj.file_list(p)})
    return oracle


def run(ctx):
    rng = ctx.rng
    binp = build_parser(ctx)
    if binp is None:
        lean_check(ctx, "I18nVerif.Theorems.C06", "C06_")
        lean_check(ctx, "I18nVerif.Theorems.C06Order", "C06_")
        finish_broken(ctx, "harness does not build")
        write_evidence(ctx, RULE)
        return
    projects = []
    for n in range(1, ctx.budget(3, 4) + 1):
        projects += cyclic_projects(n)
    ctx.extra["exhaustive_part"] = f"all reference graphs on <= {ctx.budget(3, 4)} keys (each key a leaf or one reference)"
    projects += [mk_graph_project(rng) for _ in range(ctx.budget(1200, 30000))]
    projects += [mk_graph_project(rng, depth=6) for _ in range(ctx.budget(50, 500))]
    orig = proj.literal_operands
    proj.literal_operands = lambda p: sorted(set(orig(p)) | {"u:3", "u:0", "u:1", "u:2", "u:5", "u:21"})
    try:
        generic_pipeline_check(ctx, [("I18nVerif.Theorems.C06", "C06_"), ("I18nVerif.Theorems.C06Order", "C06_")], projects, make_oracle(binp), "C06")
        generic_pipeline_check(ctx, [], fallback_witnesses(), witness_oracle, "C06-fallback-witnesses")
        generic_pipeline_check(ctx, [], walk_family(rng, ctx.budget(600, 20000)), walk_family_oracle, "C06-fallback-walk")
        generic_pipeline_check(ctx, [], plural_fallback_family(rng, ctx.budget(200, 5000)), plural_fallback_oracle, "C06-plural-fallback")
        generic_pipeline_check(ctx, [], subkey_target_projects(), subkey_oracle, "C06-subkey-targets")
        generic_pipeline_check(ctx, [], qualifier_projects(), qualifier_oracle, "C06-qualifiers")
        more = [proj.gen_project(rng, {"fk": True}) for _ in range(ctx.budget(300, 6000))]
        generic_pipeline_check(ctx, [], more, lambda c, p, o, i: None, "C06-generated")
    finally:
        proj.literal_operands = orig
    ctx.assumptions += PARSER_ASSUMPTIONS
    finish_broken(ctx, f"{len(projects)} reference graphs")
    write_evidence(ctx, RULE)
